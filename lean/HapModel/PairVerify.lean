/-
  Model of pair-verify: pyhap/hap_handler.py `handle_pair_verify`, `_pair_verify_one`,
  `_pair_verify_two` (per connection), the pairing map of pyhap/state.py, and the part of
  `HAPServerProtocol._process_response` that installs the transport cipher.

  All cryptography and `uuid.UUID(str(..))` are *parameters* (`Crypto`): the theorems hold for
  every value of them; "ideal" assumptions are hypothesis records stated in Proofs/PairVerify.lean.
  X25519 key generation is a fresh-name supply: the key pair generated in step number `n` of the
  system is named `n` (distinct per call because the step counter only grows).
  No Mathlib import: this file is also loaded by the line-protocol driver.
-/
import HapModel.Tlv
namespace Hap.PV
open Hap Hap.Tlv

/-- value of `uuid.UUID(..)` (what the `paired_clients` lookup compares); 16 bytes in the driver -/
abbrev Uuid := Bytes
abbrev Key := Bytes

/-- External behaviour: cryptographic primitives, uuid parsing, accessory constants. -/
structure Crypto where
  /-- raw public bytes of the ephemeral X25519 key pair named `n` -/
  pubOf : Nat → Bytes
  /-- `private_key(n).exchange(X25519PublicKey.from_public_bytes(peer))`; `none` = ValueError
      (wrong length, small-order point) -/
  dh : Nat → Bytes → Option Bytes
  /-- `hap_hkdf(shared, PVERIFY_1_SALT, PVERIFY_1_INFO)` -/
  hkdf : Bytes → Bytes
  /-- ChaCha20-Poly1305 `encrypt(nonce, pt, b"")` : key → nonce → plaintext → ciphertext -/
  aeadEnc : Bytes → Bytes → Bytes → Bytes
  /-- `decrypt(nonce, ct, b"")` : key → nonce → ciphertext; `none` = InvalidTag -/
  aeadDec : Bytes → Bytes → Bytes → Option Bytes
  /-- Ed25519: public key of a secret key, signing -/
  pkOf : Bytes → Bytes
  sign : Bytes → Bytes → Bytes
  /-- `Ed25519PublicKey.from_public_bytes(k)` succeeds -/
  keyOk : Bytes → Bool
  /-- `from_public_bytes(k).verify(sig, msg)` does not raise : key → msg → sig -/
  verify : Bytes → Bytes → Bytes → Bool
  /-- `uuid.UUID(str(b, "utf-8"))`; `none` = UnicodeDecodeError / ValueError -/
  parseUuid : Bytes → Option Uuid
  /-- `state.mac.encode()` and the accessory's long-term secret key -/
  mac : Bytes
  accSk : Bytes

/-! ### TLV tags / constants (hap_handler.HAP_TLV_TAGS, HAP_TLV_STATES, HAP_TLV_ERRORS) -/
def T_USERNAME : UInt8 := 1
def T_PUBLIC_KEY : UInt8 := 3
def T_ENCRYPTED_DATA : UInt8 := 5
def T_SEQUENCE_NUM : UInt8 := 6
def T_ERROR_CODE : UInt8 := 7
def T_PROOF : UInt8 := 10
def E_AUTHENTICATION : UInt8 := 2
/-- `pad_tls_nonce(b"PV-Msg02")`, `pad_tls_nonce(b"PV-Msg03")` -/
def NONCE2 : Bytes := [0, 0, 0, 0, 80, 86, 45, 77, 115, 103, 48, 50]
def NONCE3 : Bytes := [0, 0, 0, 0, 80, 86, 45, 77, 115, 103, 48, 51]

/-- `tlv_objects[tag]` on the dict returned by `tlv.decode`; `none` = KeyError -/
def lookupTag : Items → UInt8 → Option Bytes
  | [], _ => none
  | (t, v) :: rest, tag => if t = tag then some v else lookupTag rest tag

/-! ### Pairings (`State.paired_clients` + `client_properties`, kept aligned) -/

structure PEntry where
  uuid : Uuid
  key : Key
  admin : Bool
deriving DecidableEq, Repr

abbrev Pairings := List PEntry

/-- `state.paired_clients.get(u)` -/
def getKey : Pairings → Uuid → Option Key
  | [], _ => none
  | e :: rest, u => if e.uuid = u then some e.key else getKey rest u

/-- `State.is_admin(u)` -/
def isAdmin : Pairings → Uuid → Bool
  | [], _ => false
  | e :: rest, u => if e.uuid = u then e.admin else isAdmin rest u

/-- `State.add_paired_client`: dict assignment (in place if present, else appended) -/
def addPairing : Pairings → Uuid → Key → Bool → Pairings
  | [], u, k, a => [⟨u, k, a⟩]
  | e :: rest, u, k, a => if e.uuid = u then ⟨u, k, a⟩ :: rest else e :: addPairing rest u k a

/-- `State.remove_paired_client` incl. the last-admin rule (callers check membership first) -/
def removePairing (ps : Pairings) (u : Uuid) : Pairings :=
  let ps' := ps.filter (fun e => e.uuid != u)
  if ps'.any (fun e => e.admin) then ps' else []

/-- `state.paired` -/
def isPaired (ps : Pairings) : Bool := !ps.isEmpty

/-! ### Per-connection handler state -/

/-- `HAPServerHandler.enc_context` (the key objects are represented by the name of the pair) -/
structure Ctx where
  clientPublic : Bytes
  priv : Nat
  sharedKey : Bytes
  preKey : Bytes
deriving DecidableEq, Repr

structure Conn where
  /-- `enc_context`: `none` covers both "never set" (None → TypeError) and "deleted after a
      completed verify" (AttributeError); both end in dispatch's generic 500 -/
  enc : Option Ctx := none
  /-- `is_encrypted` -/
  verified : Bool := false
  /-- `client_uuid` -/
  client : Option Uuid := none
  /-- `HAPServerProtocol.hap_crypto`: the shared key the transport cipher was derived from -/
  cipher : Option Bytes := none
deriving DecidableEq, Repr

/-- What `dispatch` hands back for a pair-verify request. -/
inductive Resp
  /-- 200, `application/pairing+tlv8`, body -/
  | pairing (body : Bytes)
  /-- an exception escaped the handler: 500 + SERVICE_COMMUNICATION_FAILURE -/
  | err500
  /-- `GET /accessories` served: 200 + the attribute database -/
  | served
  /-- UnprivilegedRequestException: 401 + INSUFFICIENT_PRIVILEGES -/
  | err401
  /-- `POST /pairings` list served: the answer lists `n` pairings -/
  | listed (n : Nat)
deriving DecidableEq, Repr

structure Out where
  resp : Resp
  /-- `response.shared_key` -/
  shared : Option Bytes := none
deriving DecidableEq, Repr

def authErr (st : UInt8) : Resp :=
  .pairing (encode [(T_SEQUENCE_NUM, [st]), (T_ERROR_CODE, [E_AUTHENTICATION])])

/-- body of the M2 answer: state, `encrypt(PVERIFY_1_NONCE, tlv(mac, sign(sepk ‖ mac ‖ cepk)))`
    under the pre-session key `hap_hkdf(shared)`, accessory ephemeral public key -/
def m2Body (C : Crypto) (fresh : Nat) (cpub shared : Bytes) : Bytes :=
  encode [(T_SEQUENCE_NUM, [2]),
          (T_ENCRYPTED_DATA, C.aeadEnc (C.hkdf shared) NONCE2
            (encode [(T_USERNAME, C.mac), (T_PROOF, C.sign C.accSk (C.pubOf fresh ++ C.mac ++ cpub))])),
          (T_PUBLIC_KEY, C.pubOf fresh)]

/-- `_pair_verify_one`; `fresh` is the name of the key pair `X25519PrivateKey.generate()` returns. -/
def verifyOne (C : Crypto) (fresh : Nat) (c : Conn) (objs : Items) : Conn × Out :=
  match lookupTag objs T_PUBLIC_KEY with
  | none => (c, ⟨.err500, none⟩)                                   -- KeyError
  | some cpub =>
    match C.dh fresh cpub with
    | none => (c, ⟨.err500, none⟩)                                 -- ValueError
    | some shared =>
      ({ c with enc := some ⟨cpub, fresh, shared, C.hkdf shared⟩ }, ⟨.pairing (m2Body C fresh cpub shared), none⟩)

/-- `_pair_verify_two` -/
def verifyTwo (C : Crypto) (ps : Pairings) (c : Conn) (objs : Items) : Conn × Out :=
  match lookupTag objs T_ENCRYPTED_DATA with
  | none => (c, ⟨.err500, none⟩)                                   -- KeyError
  | some enc =>
    match c.enc with
    | none => (c, ⟨.err500, none⟩)                                 -- TypeError / AttributeError
    | some ctx =>
      match C.aeadDec ctx.preKey NONCE3 enc with
      | none => (c, ⟨authErr 4, none⟩)                             -- InvalidTag
      | some dec =>
        match decode dec [] with
        | none => (c, ⟨.err500, none⟩)                             -- IndexError
        | some sub =>
          match lookupTag sub T_USERNAME with
          | none => (c, ⟨.err500, none⟩)                           -- KeyError
          | some uname =>
            match C.parseUuid uname with
            | none => (c, ⟨.err500, none⟩)                         -- ValueError
            | some u =>
              match getKey ps u with
              | none => (c, ⟨authErr 4, none⟩)                     -- not paired (now)
              | some ltpk =>
                if C.keyOk ltpk = false then (c, ⟨.err500, none⟩)  -- ValueError (bad stored key)
                else
                  match lookupTag sub T_PROOF with
                  | none => (c, ⟨authErr 4, none⟩)                 -- KeyError, caught
                  | some proof =>
                    if C.verify ltpk (ctx.clientPublic ++ uname ++ C.pubOf ctx.priv) proof then
                      ({ c with enc := none, verified := true, client := some u },
                       ⟨.pairing (encode [(T_SEQUENCE_NUM, [4])]), some ctx.sharedKey⟩)
                    else (c, ⟨authErr 4, none⟩)                    -- InvalidSignature

/-- `handle_pair_verify` as called through `dispatch` (exceptions → 500). -/
def handlePairVerify (C : Crypto) (ps : Pairings) (fresh : Nat) (c : Conn) (body : Bytes) : Conn × Out :=
  if isPaired ps = false then (c, ⟨authErr 2, none⟩)
  else
    match decode body [] with
    | none => (c, ⟨.err500, none⟩)                                 -- IndexError
    | some objs =>
      match lookupTag objs T_SEQUENCE_NUM with
      | none => (c, ⟨.err500, none⟩)                               -- KeyError
      | some seq =>
        if seq = [1] then verifyOne C fresh c objs
        else if seq = [3] then verifyTwo C ps c objs
        else (c, ⟨.err500, none⟩)                                  -- ValueError

/-- `_process_response`: `if response.shared_key: self.hap_crypto = HAPCrypto(shared_key)` -/
def installCipher (c : Conn) (o : Out) : Conn :=
  match o.shared with
  | some k => if k = [] then c else { c with cipher := some k }
  | none => c

/-! ### The system: a pairing map shared by any number of connections -/

structure Sys where
  pairings : Pairings := []
  conns : Nat → Conn := fun _ => {}
  /-- number of steps taken so far = the next fresh key-pair name -/
  clock : Nat := 0

inductive Op
  /-- `driver.pair(id, key, perms)` with `UUID(id) = u` -/
  | pair (u : Uuid) (k : Key) (admin : Bool)
  /-- `driver.unpair(u)` if `u` is paired (as `_handle_remove_pairing` guards it) -/
  | unpair (u : Uuid)
  /-- a `POST /pair-verify` with this body on connection `c` -/
  | verify (c : Nat) (body : Bytes)
  /-- a `GET /accessories` on connection `c` (the probe for "protected endpoints are served") -/
  | get (c : Nat)
  /-- a `POST /pairings` list request on connection `c` (shows *as which controller* the connection
      is authorised: `handle_pairings` consults `is_admin(self.client_uuid)`) -/
  | list (c : Nat)
deriving Repr

def setConn (f : Nat → Conn) (c : Nat) (v : Conn) : Nat → Conn := fun a => if a = c then v else f a

def step (C : Crypto) (s : Sys) : Op → Sys × Option Out
  | .pair u k a => ({ s with pairings := addPairing s.pairings u k a, clock := s.clock + 1 }, none)
  | .unpair u =>
    ({ s with pairings := if (getKey s.pairings u).isSome then removePairing s.pairings u else s.pairings,
              clock := s.clock + 1 }, none)
  | .verify c body =>
    let r := handlePairVerify C s.pairings s.clock (s.conns c) body
    ({ s with conns := setConn s.conns c (installCipher r.1 r.2), clock := s.clock + 1 }, some r.2)
  | .get c =>
    -- `handle_accessories`: `if not self.is_encrypted: raise UnprivilegedRequestException`
    ({ s with clock := s.clock + 1 }, some ⟨if (s.conns c).verified then .served else .err401, none⟩)
  | .list c =>
    -- `handle_pairings`: `assert self.client_uuid is not None`; admin check; `_handle_list_pairings`
    ({ s with clock := s.clock + 1 },
     some ⟨match (s.conns c).client with
           | none => .err500
           | some me =>
             if (s.conns c).verified = false ∨ isAdmin s.pairings me = false then authErr 2
             else .listed s.pairings.length, none⟩)

def run (C : Crypto) : Sys → List Op → Sys
  | s, [] => s
  | s, op :: rest => run C (step C s op).1 rest

/-- The connection is upgraded by this answer: a shared key is handed to the protocol. -/
def upgrades (o : Option Out) : Bool :=
  match o with
  | some ⟨_, some _⟩ => true
  | _ => false

end Hap.PV
