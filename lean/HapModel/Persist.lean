/-
  Persist layer — `AccessoryDriver.persist / async_persist`, `AccessoryEncoder.persist` and the
  changes of `State` (pyhap/accessory_driver.py, encoder.py, state.py) as step programs over a small
  file-system model and a component-wise memory model.  Serves C15.

  Python (repaired code, design/fixes/C15.patch + design/fixes/C15-mixed-snapshot.patch):

      def persist(self):
          with self._persist_lock:                                   -- pc start   (acquire)
              tmp_filename = None
              try:
                  with tempfile.NamedTemporaryFile(..., delete=False) as file_handle:   -- pc mktemp
                      tmp_filename = file_handle.name
                      with self.state.lock:                          -- pc snapshot (acquire state.lock)
                          self.encoder.persist(file_handle, self.state)
                                                                     -- pc reading got: one step per
                                                                     --    attribute of the state that the
                                                                     --    encoder reads (paired_clients,
                                                                     --    client_properties, uuid_to_bytes,
                                                                     --    mac, config_version, ...), then
                                                                     -- pc write v rest (json.dump: one
                                                                     --    fp.write per chunk)
                                                                     -- pc write v [] = leaving
                                                                     --    `with state.lock` (release)
                                                                     -- pc closing v = leaving `with
                                                                     --    NamedTemporaryFile`: flush+close
                  os.replace(tmp_filename, self.persist_file)        -- pc replace
              except Exception:
                  logger.exception(...); raise
              finally:
                  if tmp_filename and os.path.exists(tmp_filename):  -- pc cleanup
                      os.remove(tmp_filename)                        -- pc remove
                                                                     -- pc unlock  (release)

      def add_paired_client(...):          # State; likewise remove_paired_client, set_accessories_hash,
          with self.lock:                  --   label mbegin        increment_config_version, the
              self.uuid_to_bytes[u] = ...  --   label mwrite 2      pair-verify back-fill
              self.paired_clients[u] = ... --   label mwrite 0
              self.client_properties[u] = ...   label mwrite 1
                                           --   label mend submit   (release; `async_persist()` follows
                                                                     in the same loop callback)

  Two flags select the variant of the code:
  * `locked`  — `_persist_lock` around the body of `persist` (absent in the code as first shipped);
  * `slocked` — `state.lock` around every change of the state and around the reads of the encoder
    (absent up to and including the first repair: there a change can land between two reads of one
    save and the save installs a mix of two states, `C15_legacy_mixed_counterexample`).

  * The file system is `target : Option Content` (the state file) plus `temps : job ↦ Option
    Content` (the temp sibling created by that job; `tempfile` guarantees a fresh name, so the name
    of a job's temp file is modelled by the job's number).
  * Memory is `mem : Vec`, one version counter per persisted attribute ("component") of `State`, in
    the order in which the encoder reads them; a store into component `c` bumps `mem[c]`.  `hist` is
    the list of memory states at the boundaries of changes — the states "that existed" in the sense
    of the property (newest first; never empty).
  * `ser : Vec → Content` — the serialisation of a vector of component versions as the list of chunks
    that `json.dump` writes — is a parameter: every theorem holds for every `ser`.
  * A job's next step can complete (`adv j`) or raise (`fault j`, possible at every I/O step and at
    every read).  `crash` kills the process: no step is enabled afterwards and the directory stays.
  * A change of the state is `mbegin; mwrite c …; mend submit` on the changing thread (the loop thread
    for pairing changes; changes are serialised among themselves: at most one is in progress).
    `mend true` is a change followed, in the same loop callback, by `async_persist()` = a new job
    submitted to the executor (`pair`, `unpair`, pair-verify's back-fill, `config_changed`,
    `async_start`).  `mend false` is a change with no save submitted after it: what a call site does
    that submits its save *before* changing the state (`spawn; change`) or not at all.  The
    repaired code has no such site (tied by the harness's `public` stream).  `spawn` is a save job
    that is not preceded by a change (`add_accessory`).
  * Granularity: one step per I/O call of the save, per attribute read of the encoder and per store
    of a change; `os.replace` is atomic and a failing call has no effect (POSIX contract, trusted).
-/
namespace Hap.Persist

abbrev Chunk := Nat
abbrev Content := List Chunk
/-- one version counter per persisted attribute of `State`, in the encoder's reading order -/
abbrev Vec := List Nat

/-- how a finished job ended: returned, re-raised after a complete cleanup ("handled failure"),
    or the cleanup itself (`os.path.exists` / `os.remove`) raised -/
inductive Res where
  | ok | raised | cleanupRaised
  | cancelled                               -- never ran: dropped from the pool's queue
  deriving DecidableEq, Repr

/-- program counter of one save job (the step it is about to execute) -/
inductive Pc where
  | unspawned
  | start                                   -- submitted; about to acquire the persist lock
  | mktemp                                  -- about to call NamedTemporaryFile
  | snapshot                                -- temp exists and is empty; about to acquire state.lock
  | reading (got : Vec)                     -- inside encoder.persist; components read so far
  | write (v : Vec) (rest : Content)        -- all components read (= v); chunks still to write
                                            --   (rest = [] : about to leave `with state.lock`)
  | closing (v : Vec)                       -- about to leave `with NamedTemporaryFile`: flush + close
  | replace (v : Vec)                       -- about to os.replace(temp, target)
  | cleanup (raised : Bool)                 -- finally: about to test os.path.exists(temp)
  | remove (raised : Bool)                  -- about to os.remove(temp)
  | unlock (r : Res)                        -- about to leave `with lock`
  | done (r : Res)
  deriving DecidableEq, Repr

/-- who holds `state.lock` -/
inductive Owner where
  | job (j : Nat)
  | changer
  deriving DecidableEq, Repr

structure Sys where
  target : Option Content
  temps : Nat → Option Content
  mem : Vec
  hist : List Vec
  chg : Bool
  jobs : Nat → Pc
  njobs : Nat
  lock : Option Nat
  slock : Option Owner
  crashed : Bool

inductive Label where
  | mbegin | mwrite (c : Nat) | mend (submit : Bool) | spawn
  | adv (j : Nat) | fault (j : Nat) | crash
  | cancel (j : Nat)                        -- a job still queued in the pool (no worker has picked it
                                            --   up) is dropped: `Future.cancel()`, or
                                            --   `executor.shutdown(cancel_futures=True)` on the stop path
  deriving DecidableEq, Repr

/-- a schedule step that is neither a fault, nor a crash, nor the end of a state change for which no
    save is submitted afterwards, nor the dropping of a queued save job -/
def Label.quiet : Label → Bool
  | .fault _ => false
  | .crash => false
  | .mend false => false
  | .cancel _ => false
  | _ => true

/-- a whole change of the state that stores into the components `cs`, then submits its save -/
def mutateL (cs : List Nat) : List Label := [.mbegin] ++ cs.map .mwrite ++ [.mend true]

/-- a whole change of the state with no save submitted after it -/
def changeL (cs : List Nat) : List Label := [.mbegin] ++ cs.map .mwrite ++ [.mend false]

def initSys (init : Option Content) (mem0 : Vec) : Sys :=
  { target := init, temps := fun _ => none, mem := mem0, hist := [mem0], chg := false,
    jobs := fun _ => .unspawned, njobs := 0, lock := none, slock := none, crashed := false }

def setJob (s : Sys) (j : Nat) (pc : Pc) : Sys :=
  { s with jobs := fun i => if i = j then pc else s.jobs i }

def setTemp (s : Sys) (j : Nat) (c : Option Content) : Sys :=
  { s with temps := fun i => if i = j then c else s.temps i }

def spawn (s : Sys) : Sys :=
  { s with jobs := fun i => if i = s.njobs then .start else s.jobs i, njobs := s.njobs + 1 }

def resOf (raised : Bool) : Res := if raised then .raised else .ok

/-- a store into component `c` -/
def bump : Vec → Nat → Vec
  | [], _ => []
  | x :: xs, 0 => (x + 1) :: xs
  | x :: xs, c + 1 => x :: bump xs c

/-- the latest state at a change boundary -/
def latest (s : Sys) : Vec := s.hist.headD []

/-- job `j` completes its next step -/
def adv (locked slocked : Bool) (ser : Vec → Content) (s : Sys) (j : Nat) : Option Sys :=
  match s.jobs j with
  | .unspawned => none
  | .start =>
    if locked then
      match s.lock with
      | none => some { setJob s j .mktemp with lock := some j }
      | some _ => none                                   -- blocked on the persist lock
    else some (setJob s j .mktemp)
  | .mktemp => some (setJob (setTemp s j (some [])) j .snapshot)
  | .snapshot =>
    if slocked then
      match s.slock with
      | none => some { setJob s j (.reading []) with slock := some (.job j) }
      | some _ => none                                   -- blocked on state.lock
    else some (setJob s j (.reading []))
  | .reading got =>
    if got.length < s.mem.length then
      some (setJob s j (.reading (got ++ [s.mem[got.length]?.getD 0])))
    else some (setJob s j (.write got (ser got)))
  | .write v (c :: rest) =>
    some (setJob (setTemp s j (some ((s.temps j).getD [] ++ [c]))) j (.write v rest))
  | .write v [] =>
    some (setJob { s with slock := if slocked then none else s.slock } j (.closing v))
  | .closing v => some (setJob s j (.replace v))
  | .replace _ =>
    some (setJob { setTemp s j none with target := s.temps j } j (.cleanup false))
  | .cleanup r =>
    match s.temps j with
    | some _ => some (setJob s j (.remove r))
    | none => some (setJob s j (.unlock (resOf r)))
  | .remove r => some (setJob (setTemp s j none) j (.unlock (resOf r)))
  | .unlock r =>
    some (setJob { s with lock := if locked then none else s.lock } j (.done r))
  | .done _ => none

/-- the next step of job `j` raises -/
def fault (slocked : Bool) (s : Sys) (j : Nat) : Option Sys :=
  match s.jobs j with
  | .mktemp => some (setJob s j (.unlock .raised))      -- tmp_filename is None: nothing to clean
  | .snapshot => some (setJob s j (.cleanup true))      -- the encoder call raised at once
  | .reading _ =>                                       -- a read raised (e.g. `dictionary changed
    some (setJob { s with slock := if slocked then none else s.slock } j (.cleanup true))
                                                        --   size during iteration`): leaves `with`
  | .write _ _ =>                                       -- a write raised: leaves `with state.lock`
    some (setJob { s with slock := if slocked then none else s.slock } j (.cleanup true))
  | .closing _ => some (setJob s j (.cleanup true))     -- the flush/close raised
  | .replace _ => some (setJob s j (.cleanup true))     -- os.replace raised: target untouched
  | .cleanup _ => some (setJob s j (.unlock .cleanupRaised))
  | .remove _ => some (setJob s j (.unlock .cleanupRaised))
  | _ => none

def step (locked slocked : Bool) (ser : Vec → Content) (s : Sys) (l : Label) : Option Sys :=
  if s.crashed then none else
  match l with
  | .mbegin =>
    if s.chg then none else
    if slocked then
      match s.slock with
      | none => some { s with chg := true, slock := some .changer }
      | some _ => none                                   -- the changing thread waits for the save's reads
    else some { s with chg := true }
  | .mwrite c => if s.chg then some { s with mem := bump s.mem c } else none
  | .mend submit =>
    if s.chg then
      let s1 := { s with chg := false, hist := s.mem :: s.hist,
                         slock := if slocked then none else s.slock }
      some (if submit then spawn s1 else s1)
    else none
  | .spawn => some (spawn s)
  | .adv j => adv locked slocked ser s j
  | .fault j => fault slocked s j
  | .crash => some { s with crashed := true }
  | .cancel j =>
    match s.jobs j with
    | .start => some (setJob s j (.done .cancelled))
    | _ => none

/-- run a schedule; `none` if some label is not enabled where it stands -/
def exec (locked slocked : Bool) (ser : Vec → Content) : List Label → Sys → Option Sys
  | [], s => some s
  | l :: ls, s =>
    match step locked slocked ser s l with
    | some s' => exec locked slocked ser ls s'
    | none => none

/-- index of the first label that is not enabled (for the driver) -/
def firstBlocked (locked slocked : Bool) (ser : Vec → Content) :
    List Label → Sys → Nat → Option Nat
  | [], _, _ => none
  | l :: ls, s, i =>
    match step locked slocked ser s l with
    | some s' => firstBlocked locked slocked ser ls s' (i + 1)
    | none => some i

def Pc.isDone : Pc → Bool
  | .done _ => true
  | _ => false

/-- every job that was submitted has finished -/
def Quiescent (s : Sys) : Prop := ∀ j, s.jobs j = .unspawned ∨ ∃ r, s.jobs j = .done r

/-- decidable form over the spawned jobs -/
def quiescentB (s : Sys) : Bool := (List.range s.njobs).all fun j => (s.jobs j).isDone

end Hap.Persist
