/-
  Persist layer — `AccessoryDriver.persist / async_persist` (pyhap/accessory_driver.py) as step
  programs over a small file-system model.  Serves C15.

  Python (repaired code, design/fixes/C15.patch):

      def persist(self):
          with self._persist_lock:                                   -- pc start   (acquire)
              tmp_filename = None
              try:
                  with tempfile.NamedTemporaryFile(..., delete=False) as file_handle:   -- pc mktemp
                      tmp_filename = file_handle.name
                      self.encoder.persist(file_handle, self.state)  -- pc snapshot (reads the state),
                                                                     --    then pc write (json.dump: one
                                                                     --    fp.write per chunk)
                                                                     -- pc write v [] = leaving the
                                                                     --    `with`: flush + close
                  os.replace(tmp_filename, self.persist_file)        -- pc replace
              except Exception:
                  logger.exception(...); raise
              finally:
                  if tmp_filename and os.path.exists(tmp_filename):  -- pc cleanup
                      os.remove(tmp_filename)                        -- pc remove
                                                                     -- pc unlock  (release)

  The code as shipped has no lock (`locked := false`): `start` never blocks and `unlock` releases
  nothing; everything else is identical.

  * The file system is `target : Option Content` (the state file) plus `temps : job ↦ Option
    Content` (the temp sibling created by that job; `tempfile` guarantees a fresh name, so the name
    of a job's temp file is modelled by the job's number).
  * `snap : Nat → Content` — the serialisation of state version `v` as the list of chunks that
    `json.dump` writes — is a parameter: every theorem holds for every `snap`.
  * A job's next step can complete (`adv j`) or raise (`fault j`, possible at every I/O step).
    `crash` kills the process: no step is enabled afterwards and the directory stays as it is.
  * `mutate` is a pairing change on the loop thread (`State.add/remove_paired_client`; version + 1)
    followed, in the same loop callback, by `async_persist()` = a new job submitted to the
    executor.  `spawn` is a save job that is not preceded by a change (`add_accessory`,
    `config_changed`, `async_start`).  `change` is a bare state change with no save submitted after
    it: what a call site does that submits its save *before* changing the state (`spawn; change`)
    or not at all.  The repaired code has no such site (tied by the harness's `public` stream);
    the label exists to state what the order "change, then submit" buys (`C15_converge_after_save`
    vs `C15_save_before_change_counterexample`).
  * Granularity: one step per I/O call of the save; the state read at `snapshot` is a single step
    (a pairing change landing between the three dict reads of `encoder.persist` is not modelled),
    `os.replace` is atomic and a failing call has no effect (POSIX contract, trusted).
-/
namespace Hap.Persist

abbrev Chunk := Nat
abbrev Content := List Chunk

/-- how a finished job ended: returned, re-raised after a complete cleanup ("handled failure"),
    or the cleanup itself (`os.path.exists` / `os.remove`) raised -/
inductive Res where
  | ok | raised | cleanupRaised
  deriving DecidableEq, Repr

/-- program counter of one save job (the step it is about to execute) -/
inductive Pc where
  | unspawned
  | start                                   -- submitted; about to acquire the lock
  | mktemp                                  -- about to call NamedTemporaryFile
  | snapshot                                -- temp exists and is empty; about to read the state
  | write (v : Nat) (rest : Content)        -- snapshot of version v taken; chunks still to write
                                            --   (rest = [] : about to flush + close the temp)
  | replace (v : Nat)                       -- about to os.replace(temp, target)
  | cleanup (raised : Bool)                 -- finally: about to test os.path.exists(temp)
  | remove (raised : Bool)                  -- about to os.remove(temp)
  | unlock (r : Res)                        -- about to leave `with lock`
  | done (r : Res)
  deriving DecidableEq, Repr

structure Sys where
  target : Option Content
  temps : Nat → Option Content
  ver : Nat
  jobs : Nat → Pc
  njobs : Nat
  lock : Option Nat
  crashed : Bool

inductive Label where
  | mutate | spawn | change | adv (j : Nat) | fault (j : Nat) | crash
  deriving DecidableEq, Repr

/-- a schedule step that is neither a fault, nor a crash, nor a state change for which no save is
    submitted afterwards (`change`) -/
def Label.quiet : Label → Bool
  | .fault _ => false
  | .crash => false
  | .change => false
  | _ => true

def initSys (init : Option Content) : Sys :=
  { target := init, temps := fun _ => none, ver := 0, jobs := fun _ => .unspawned, njobs := 0,
    lock := none, crashed := false }

def setJob (s : Sys) (j : Nat) (pc : Pc) : Sys :=
  { s with jobs := fun i => if i = j then pc else s.jobs i }

def setTemp (s : Sys) (j : Nat) (c : Option Content) : Sys :=
  { s with temps := fun i => if i = j then c else s.temps i }

def spawn (s : Sys) : Sys :=
  { s with jobs := fun i => if i = s.njobs then .start else s.jobs i, njobs := s.njobs + 1 }

def resOf (raised : Bool) : Res := if raised then .raised else .ok

/-- job `j` completes its next step -/
def adv (locked : Bool) (snap : Nat → Content) (s : Sys) (j : Nat) : Option Sys :=
  match s.jobs j with
  | .unspawned => none
  | .start =>
    if locked then
      match s.lock with
      | none => some { setJob s j .mktemp with lock := some j }
      | some _ => none                                   -- blocked on the lock
    else some (setJob s j .mktemp)
  | .mktemp => some (setJob (setTemp s j (some [])) j .snapshot)
  | .snapshot => some (setJob s j (.write s.ver (snap s.ver)))
  | .write v (c :: rest) =>
    some (setJob (setTemp s j (some ((s.temps j).getD [] ++ [c]))) j (.write v rest))
  | .write v [] => some (setJob s j (.replace v))
  | .replace _ =>
    some (setJob { setTemp s j none with target := s.temps j } j (.cleanup false))
  | .cleanup r =>
    match s.temps j with
    | some _ => some (setJob s j (.remove r))
    | none => some (setJob s j (.unlock (resOf r)))
  | .remove r => some (setJob (setTemp s j none) j (.unlock (resOf r)))
  | .unlock r =>
    some (setJob { s with lock := if locked then none else s.lock } j (.done r))
  | .done _ => none

/-- the next step of job `j` raises -/
def fault (s : Sys) (j : Nat) : Option Sys :=
  match s.jobs j with
  | .mktemp => some (setJob s j (.unlock .raised))      -- tmp_filename is None: nothing to clean
  | .snapshot => some (setJob s j (.cleanup true))
  | .write _ _ => some (setJob s j (.cleanup true))     -- a write, or the flush/close, raised
  | .replace _ => some (setJob s j (.cleanup true))     -- os.replace raised: target untouched
  | .cleanup _ => some (setJob s j (.unlock .cleanupRaised))
  | .remove _ => some (setJob s j (.unlock .cleanupRaised))
  | _ => none

def step (locked : Bool) (snap : Nat → Content) (s : Sys) (l : Label) : Option Sys :=
  if s.crashed then none else
  match l with
  | .mutate => some (spawn { s with ver := s.ver + 1 })
  | .spawn => some (spawn s)
  | .change => some { s with ver := s.ver + 1 }
  | .adv j => adv locked snap s j
  | .fault j => fault s j
  | .crash => some { s with crashed := true }

/-- run a schedule; `none` if some label is not enabled where it stands -/
def exec (locked : Bool) (snap : Nat → Content) : List Label → Sys → Option Sys
  | [], s => some s
  | l :: ls, s =>
    match step locked snap s l with
    | some s' => exec locked snap ls s'
    | none => none

/-- index of the first label that is not enabled (for the driver) -/
def firstBlocked (locked : Bool) (snap : Nat → Content) : List Label → Sys → Nat → Option Nat
  | [], _, _ => none
  | l :: ls, s, i =>
    match step locked snap s l with
    | some s' => firstBlocked locked snap ls s' (i + 1)
    | none => some i

def Pc.isDone : Pc → Bool
  | .done _ => true
  | _ => false

/-- every job that was submitted has finished -/
def Quiescent (s : Sys) : Prop := ∀ j, s.jobs j = .unspawned ∨ ∃ r, s.jobs j = .done r

/-- decidable form over the spawned jobs -/
def quiescentB (s : Sys) : Bool := (List.range s.njobs).all fun j => (s.jobs j).isDone

end Hap.Persist
