/-
  Model of the HTTP event pump of `HAPServerProtocol` (pyhap/hap_protocol.py):
  `data_received` → `_process_events` → `_process_one_event` → `handler.dispatch` →
  `_process_response` → `send_response`; `finish_and_close`, `_handle_invalid_conn_state`,
  `close`, `_handle_response_ready`, `connection_lost`.  Serves C19.

  h11 is a PARAMETER: an arbitrary state type `H` with arbitrary operations (`H11 H`).  The only
  contract assumed of it is the documented one — its methods raise nothing but
  `h11.ProtocolError` subclasses (Remote/Local) — so `next_event` may return any event in any
  order, `send` and `start_next_cycle` may fail at any time, `our_state` may be anything.
  `dispatch` is a parameter too (`disp`), so that the same pump runs the repaired dispatch
  (total) and the legacy one (may raise).  The session teardown after a successful remove-pairing
  (`_close_unpaired_sessions`, part of `_process_response` since the C16 repair) is the parameter
  `td`: it may change the world arbitrarily and decides whether this connection is among the
  sessions closed; on a tree without that step the flag `pairing_removed` is never set.
  The upgrade step of `_process_response` (`if response.shared_key:`) is modelled with its
  plaintext-smuggling test: `conn.trailing_data[0]` is read only while no session key is installed;
  if it is non-empty the parser is replaced by a NEW `h11.Connection` (`H11.fresh`), the
  connection is closed and `_process_response` returns before the teardown / advertisement steps —
  the event loop then goes on with the fresh parser, exactly as the code does.

  try/except nesting is mirrored: exceptions are values (`Step.proto` = an `h11.ProtocolError`
  is propagating, `Step.esc e` = any other exception is propagating); state changes made before
  a raise persist.  The `while` loop takes fuel (h11 is arbitrary, so it need not terminate);
  every theorem holds for every amount of fuel.

  Ghost fields (`eoms`, `answered`, `pendingId`, `overlapped`, `consumed`, `idle`) only record
  history for the theorems; no modelled statement reads them.
-/
import HapModel.Dispatch
namespace Hap.Http
open Hap

/-- result of `conn.next_event()` -/
inductive Ev
  | needData
  | paused
  | request (r : Req)
  | data (d : Bytes)
  | endOfMessage
  | connectionClosed
  /-- any other event object (falls through to `_handle_invalid_conn_state`) -/
  | other
  /-- raises `h11.RemoteProtocolError` -/
  | raiseRemote
  /-- raises `h11.LocalProtocolError` -/
  | raiseLocal
  deriving DecidableEq, Repr

/-- argument of `conn.send(...)` -/
inductive SendEv
  | response (status : Nat) (headers : List (String × String))
  | data (b : Bytes)
  | endOfMessage
  | connectionClosed
  deriving DecidableEq, Repr

/-- The h11 connection as the pump uses it. `false` / `none` = the call raised
    `h11.LocalProtocolError`. -/
structure H11 (H : Type) where
  receiveData : H → Bytes → H
  nextEvent : H → H × Ev
  startNextCycle : H → H × Bool
  /-- `conn.our_state is h11.MUST_CLOSE` -/
  ourStateMustClose : H → H × Bool
  send : H → SendEv → H × Option Bytes
  /-- `conn.trailing_data[0]` is non-empty (bytes received behind the message being answered) -/
  trailingData : H → H × Bool
  /-- `self.conn = h11.Connection(h11.SERVER)`: the parser is replaced by a new one -/
  fresh : H → H

/-- what the transport sees, in order -/
inductive Out
  | write (b : Bytes)
  | writeEof
  | close
  deriving DecidableEq, Repr

def Out.isWrite : Out → Bool
  | .write _ => true
  | _ => false

/-- One `HAPServerProtocol` object (plus the world its handler can reach). -/
structure Conn (H σ : Type) where
  h : H
  w : World σ
  /-- `self.request` -/
  request : Option Req := none
  /-- `self.request_body` -/
  body : List Bytes := []
  /-- `self.response`: a delayed response waiting for its task -/
  pending : Option Resp := none
  out : List Out := []
  /-- `transport.is_closing()` -/
  closing : Bool := false
  /-- `self.peername in self.connections` -/
  registered : Bool := true
  /-- `self.hap_crypto` is set -/
  encrypted : Bool := false
  /-- `finish_pair` jobs scheduled -/
  finishPair : Nat := 0
  -- ghost
  /-- EndOfMessage events processed so far -/
  eoms : Nat := 0
  /-- sequence numbers (0-based, by EndOfMessage) of the requests whose response was written, in write order -/
  answered : List Nat := []
  /-- sequence number of the request whose response is `pending` -/
  pendingId : Option Nat := none
  /-- an EndOfMessage was delivered while a delayed response was outstanding
      (excluded by h11's state machine: no new cycle before our side is DONE) -/
  overlapped : Bool := false
  /-- events taken from h11 -/
  consumed : Nat := 0
  /-- the last `next_event()` said NEED_DATA or ConnectionClosed -/
  idle : Bool := true

/-- what propagates out of `_process_one_event` -/
inductive Step
  | cont (more : Bool)
  | proto
  | esc (e : Exn)
  deriving DecidableEq, Repr

/-- what propagates out of a callback -/
inductive Outcome
  | done
  | esc (e : Exn)
  | fuel
  deriving DecidableEq, Repr

abbrev Disp (σ : Type) := World σ → Option Req → Bytes → Except Exn (World σ × Resp)

/-- the repaired `dispatch` as a `Disp` (never raises) -/
def dispOk (routes : List Route) (P : Params σ) : Disp σ :=
  fun w r b => .ok (dispatch routes P w r b)

variable {H σ : Type}

/-- `HAPServerProtocol.close` -/
def Conn.close (c : Conn H σ) : Conn H σ :=
  { c with registered := false, out := c.out ++ [.writeEof, .close], closing := true }

/-- `send_response`: `false` = `h11.LocalProtocolError` propagates (nothing was written). -/
def sendResponse (I : H11 H) (c : Conn H σ) (r : Resp) (id : Nat) : Conn H σ × Bool :=
  let hdrs := if r.body.length ≠ 0 then r.headers ++ [("Content-Length", toString r.body.length)] else r.headers
  match I.send c.h (.response r.status hdrs) with
  | (h1, none) => ({ c with h := h1 }, false)
  | (h1, some b1) =>
    match I.send h1 (.data r.body) with
    | (h2, none) => ({ c with h := h2 }, false)
    | (h2, some b2) =>
      match I.send h2 .endOfMessage with
      | (h3, none) => ({ c with h := h3 }, false)
      | (h3, some b3) =>
        ({ c with h := h3, out := c.out ++ [.write (b1 ++ b2 ++ b3)], answered := c.answered ++ [id] }, true)

/-- how `_process_response` ends (before its teardown / advertisement steps) -/
inductive PR
  /-- `send_response` raised `h11.LocalProtocolError` -/
  | proto
  /-- plaintext was found behind the pair-verify request: closed, early `return` -/
  | smuggled
  | ok
  deriving DecidableEq, Repr

/-- first statement of `_process_response`: park a response that carries a task, else send it
    (`false` = `h11.LocalProtocolError` propagates) -/
def respFirst (I : H11 H) (c : Conn H σ) (r : Resp) (id : Nat) : Conn H σ × Bool :=
  if r.task then ({ c with pending := some r, pendingId := some id }, true) else sendResponse I c r id

/-- `_process_response` up to and including the `if response.shared_key:` block. -/
def processResponse (I : H11 H) (c : Conn H σ) (r : Resp) (id : Nat) : Conn H σ × PR :=
  let res := respFirst I c r id
  if !res.2 then (res.1, .proto) else
  let c1 := res.1
  if r.sharedKey then
    if c1.encrypted then (c1, .ok)              -- `self.hap_crypto is None and …` short-circuits; re-keyed
    else
      match I.trailingData c1.h with
      | (h', true) => ({ c1 with h := I.fresh h', encrypted := true }.close, .smuggled)
      | (h', false) => ({ c1 with h := h', encrypted := true }, .ok)
  else (c1, .ok)

/-- `_close_unpaired_sessions`, as seen from this connection: the new world (other sessions of
    removed controllers closed, this handler's privilege flag cleared if its controller is gone)
    and whether this connection is one of those closed. -/
abbrev Teardown (σ : Type) := World σ → World σ × Bool

/-- the `if response.pairing_removed:` step of `_process_response` (runs after the response has
    been written and the session key installed) -/
def teardownStep (td : Teardown σ) (c : Conn H σ) (r : Resp) : Conn H σ :=
  if r.pairingRemoved then
    match td c.w with
    | (w', true) => { c with w := w' }.close
    | (w', false) => { c with w := w' }
  else c

/-- the `if response.pairing_changed:` step of `_process_response` (a `finish_pair` job is scheduled) -/
def finishPairStep (c : Conn H σ) (r : Resp) : Conn H σ :=
  if r.pairingChanged then { c with finishPair := c.finishPair + 1 } else c

/-- `_process_one_event` -/
def processOneEvent (I : H11 H) (disp : Disp σ) (td : Teardown σ) (c0 : Conn H σ) : Conn H σ × Step :=
  match I.nextEvent c0.h with
  | (h, ev) =>
    let c := { c0 with h := h, idle := false }
    match ev with
    | .raiseRemote => (c, .proto)
    | .raiseLocal => (c, .proto)
    | .needData => ({ c with idle := true }, .cont false)
    | .paused =>
      match I.startNextCycle c.h with
      | (h', true) => ({ c with h := h', consumed := c.consumed + 1 }, .cont true)
      | (h', false) => ({ c with h := h', consumed := c.consumed + 1 }, .proto)
    | .connectionClosed => ({ c with idle := true }, .cont false)
    | .request r => ({ c with request := some r, body := [], consumed := c.consumed + 1 }, .cont true)
    | .data d => ({ c with body := c.body ++ [d], consumed := c.consumed + 1 }, .cont true)
    | .endOfMessage =>
      let c := { c with consumed := c.consumed + 1, eoms := c.eoms + 1,
                        overlapped := c.overlapped || c.pending.isSome }
      match disp c.w c.request c.body.flatten with
      | .error e => (c, .esc e)
      | .ok (w', r) =>
        match processResponse I { c with w := w' } r c0.eoms with
        | (c', .proto) => (c', .proto)
        | (c', .smuggled) => ({ c' with request := none, body := [] }, .cont true)
        | (c', .ok) => ({ finishPairStep (teardownStep td c' r) r with request := none, body := [] }, .cont true)
    | .other => ({ c with consumed := c.consumed + 1 }.close, .cont false)

/-- `_process_events` (the `while` loop with its `try/except h11.ProtocolError`). -/
def processEvents (I : H11 H) (disp : Disp σ) (td : Teardown σ) : Nat → Conn H σ → Conn H σ × Outcome
  | 0, c => (c, .fuel)
  | n + 1, c =>
    match processOneEvent I disp td c with
    | (c1, .esc e) => (c1, .esc e)
    | (c1, .proto) => (c1.close, .done)                 -- _handle_invalid_conn_state
    | (c1, .cont false) => (c1, .done)
    | (c1, .cont true) =>
      match I.ourStateMustClose c1.h with
      | (h, true) =>
        -- finish_and_close (inside the same try): send(ConnectionClosed) then close();
        -- if the send raises, the except clause closes as well
        match I.send h .connectionClosed with
        | (h', _) => ({ c1 with h := h' }.close, .done)
      | (h, false) => processEvents I disp td n { c1 with h := h }

/-- `data_received`. `dec` is this call's `hap_crypto.receive_data; decrypt()` when a session key
    is installed (`none` = InvalidTag); the frame layer itself is C04's. -/
def dataReceived (I : H11 H) (disp : Disp σ) (td : Teardown σ) (dec : Bytes → Option Bytes) (fuel : Nat)
    (c : Conn H σ) (data : Bytes) : Conn H σ × Outcome :=
  if c.encrypted then
    match dec data with
    | none => (c.close, .done)
    | some plain =>
      if plain.length = 0 then (c, .done)
      else processEvents I disp td fuel { c with h := I.receiveData c.h plain }
  else processEvents I disp td fuel { c with h := I.receiveData c.h data }

/-- `generic_failure_response()` -/
def genericFailure : Resp := withStatus {} 500 JSON_COMM_FAILURE

/-- `response.body = task.result()`, or the generic failure response if the task raised -/
def readyResp (r : Resp) : Except Exn Bytes → Resp
  | .ok b => { r with body := b }
  | .error _ => genericFailure

/-- `_handle_response_ready` (done-callback of the snapshot task). `result` is `task.result()`.
    `false` = `h11.LocalProtocolError` propagates out of the callback (nothing protects it). -/
def responseReady (I : H11 H) (c : Conn H σ) (result : Except Exn Bytes) : Conn H σ × Bool :=
  match c.pending with
  | none => (c, true)     -- not reachable: the callback is registered together with `self.response`
  | some r =>
    if c.closing then ({ c with pending := none, pendingId := none }, true)
    else sendResponse I { c with pending := none, pendingId := none } (readyResp r result) (c.pendingId.getD 0)

/-- `connection_lost`: the driver forgets the client (`onLost`, arbitrary), then `close()`. -/
def connectionLost (onLost : World σ → World σ) (c : Conn H σ) : Conn H σ :=
  { c with w := onLost c.w }.close

/-- the callbacks asyncio / the event loop deliver to one protocol object -/
inductive Callback
  /-- `data_received(d)`; `dec` = what the frame layer yields for this call if a key is installed -/
  | data (d : Bytes) (dec : Bytes → Option Bytes) (fuel : Nat)
  /-- the snapshot task finished with `result` -/
  | ready (result : Except Exn Bytes)
  /-- `connection_lost` -/
  | lost

def runCallback (I : H11 H) (disp : Disp σ) (td : Teardown σ) (onLost : World σ → World σ) (c : Conn H σ) :
    Callback → Conn H σ × Outcome
  | .data d dec fuel => dataReceived I disp td dec fuel c d
  | .ready res =>
    match responseReady I c res with
    | (c', true) => (c', .done)
    | (c', false) => (c', .esc .localProtocol)
  | .lost => (connectionLost onLost c, .done)

/-- a whole life of a connection object: callbacks in order, with what each let escape -/
def runCallbacks (I : H11 H) (disp : Disp σ) (td : Teardown σ) (onLost : World σ → World σ) :
    Conn H σ → List Callback → Conn H σ × List Outcome
  | c, [] => (c, [])
  | c, cb :: rest =>
    match runCallback I disp td onLost c cb with
    | (c1, o) =>
      match runCallbacks I disp td onLost c1 rest with
      | (c2, os) => (c2, o :: os)

/-! ### a scripted h11 (used for the concrete examples / counterexamples) -/

/-- h11 that emits a fixed list of events, accepts every `send` with empty bytes and never asks
    to close -/
def scriptedH11 : H11 (List Ev) :=
  { receiveData := fun h _ => h,
    nextEvent := fun h => match h with
      | [] => ([], .needData)
      | e :: rest => (rest, e),
    startNextCycle := fun h => (h, true),
    ourStateMustClose := fun h => (h, false),
    send := fun h _ => (h, some []),
    trailingData := fun h => (h, !h.isEmpty),
    fresh := fun _ => [] }

/-! ### h11's connection state machine, as far as the pump relies on it (contract, not model)

The pump theorems above hold for EVERY `H11`.  Only one statement needs more: that the delayed
response (`_handle_response_ready`, outside any `try`) finds our side of the h11 connection still
in SEND_RESPONSE.  For it h11 is constrained by its DOCUMENTED state machine (h11 `_state.py`):
two coarse state readings `ours` / `theirs` of the connection and, per operation, the transitions
the documentation allows.  The relations below are decidable, so the same definitions are
evaluated by the line-protocol driver on every recorded call of the real h11 (with the real
`our_state` / `their_state` before and after): the hypothesis of the theorem is checked on each
transcript of the differential run. -/

/-- `h11.Connection.our_state` / `their_state` -/
inductive HState
  | idle | sendResponse | sendBody | done | mustClose | closed | error | mightSwitch | switched
  deriving DecidableEq, Repr

/-- the peer is between messages or finished: h11 cannot emit Request / Data / EndOfMessage -/
def HState.quiet (t : HState) : Prop := t ≠ .idle ∧ t ≠ .sendBody

instance (t : HState) : Decidable t.quiet := by unfold HState.quiet; infer_instance

/-- `next_event()`: (ours, theirs) before, the event, (ours, theirs) after.
    * Request: only from their IDLE, into their SEND_BODY; our IDLE becomes SEND_RESPONSE;
    * Data: only in their SEND_BODY, which it keeps; EndOfMessage: only in their SEND_BODY, which it leaves
      (DONE / MIGHT_SWITCH_PROTOCOL / MUST_CLOSE);
    * anything else (NEED_DATA, PAUSED, ConnectionClosed, a raised ProtocolError): their side does not
      (re-)enter IDLE or SEND_BODY, and stays where it was if it was there;
    * receiving never moves our side out of SEND_RESPONSE, and not at all while their side stays IDLE. -/
def NextOk (o t : HState) (ev : Ev) (o' t' : HState) : Prop :=
  (o = .sendResponse → o' = .sendResponse) ∧
  match ev with
  | .request _ => t = .idle ∧ t' = .sendBody ∧ (o = .idle → o' = .sendResponse)
  | .data _ => t = .sendBody ∧ t' = .sendBody
  | .endOfMessage => t = .sendBody ∧ t'.quiet
  | _ => (t' = .sendBody → t = .sendBody) ∧ (t' = .idle → t = .idle ∧ o' = o) ∧ (t.quiet → t'.quiet)

instance (o t : HState) (ev : Ev) (o' t' : HState) : Decidable (NextOk o t ev o' t') := by
  unfold NextOk; cases ev <;> infer_instance

/-- `start_next_cycle()`: succeeds only from DONE/DONE, into IDLE/IDLE; a refusal changes nothing. -/
def CycleOk (o t : HState) (ok : Bool) (o' t' : HState) : Prop :=
  if ok then o = .done ∧ t = .done ∧ o' = .idle ∧ t' = .idle else o' = o ∧ t' = t

instance (o t : HState) (ok : Bool) (o' t' : HState) : Decidable (CycleOk o t ok o' t') := by
  unfold CycleOk; infer_instance

/-- the state machine permits this `send` -/
def SendLegal (o : HState) : SendEv → Prop
  | .response _ _ => o = .sendResponse
  | .data _ => o = .sendBody
  | .endOfMessage => o = .sendBody
  | .connectionClosed => False

instance (o : HState) (ev : SendEv) : Decidable (SendLegal o ev) := by
  unfold SendLegal; cases ev <;> infer_instance

/-- `send(ev)`: a final Response moves SEND_RESPONSE to SEND_BODY, Data keeps SEND_BODY; sending
    never makes their side (re-)enter IDLE or SEND_BODY. (`ok` = it returned.) -/
def SendOk (o t : HState) (ev : SendEv) (ok : Bool) (o' t' : HState) : Prop :=
  (t' = .sendBody → t = .sendBody) ∧ (t' = .idle → t = .idle) ∧
  (ok = true →
    match ev with
    | .response _ _ => o = .sendResponse → o' = .sendBody
    | .data _ => o = .sendBody → o' = .sendBody
    | _ => True)

instance (o t : HState) (ev : SendEv) (ok : Bool) (o' t' : HState) : Decidable (SendOk o t ev ok o' t') := by
  unfold SendOk; cases ev <;> infer_instance

/-! ### a small executable h11: the state machine itself, driven by a script of peer events -/

/-- both sides' states and what the peer will send (an event that is not legal in the current
    state is not delivered: NEED_DATA) -/
structure Mini where
  o : HState := .idle
  t : HState := .idle
  evs : List Ev := []
  deriving DecidableEq, Repr

def miniNext (m : Mini) : Mini × Ev :=
  match m.evs with
  | [] => (m, .needData)
  | e :: rest =>
    match e with
    | .request r =>
      if m.t = .idle ∧ m.o = .idle then ({ o := .sendResponse, t := .sendBody, evs := rest }, .request r)
      else (m, .needData)
    | .data d => if m.t = .sendBody then ({ m with evs := rest }, .data d) else (m, .needData)
    | .endOfMessage => if m.t = .sendBody then ({ m with t := .done, evs := rest }, .endOfMessage) else (m, .needData)
    | .paused => if m.t = .done then ({ m with evs := rest }, .paused) else (m, .needData)
    | _ => (m, .needData)

def miniSend (m : Mini) : SendEv → Mini × Option Bytes
  | .response _ _ => if m.o = .sendResponse then ({ m with o := .sendBody }, some []) else (m, none)
  | .data _ => if m.o = .sendBody then (m, some []) else (m, none)
  | .endOfMessage => if m.o = .sendBody then ({ m with o := .done }, some []) else (m, none)
  | .connectionClosed => ({ m with o := .closed, t := if m.t = .idle then .mustClose else m.t }, some [])

def miniH11 : H11 Mini :=
  { receiveData := fun m _ => m,
    nextEvent := miniNext,
    startNextCycle := fun m => if m.o = .done ∧ m.t = .done then ({ m with o := .idle, t := .idle }, true) else (m, false),
    ourStateMustClose := fun m => (m, false),
    send := miniSend,
    trailingData := fun m => (m, !m.evs.isEmpty),
    fresh := fun _ => {} }

end Hap.Http
