/-
  Race — two-thread small-step semantics for the hand-off between a worker thread that calls
  `Characteristic.set_value` and the event-loop thread that renders / reads / subscribes / flushes
  (pyhap/characteristic.py, pyhap/accessory.py, pyhap/accessory_driver.py, pyhap/hap_protocol.py).

  One characteristic, one topic.  Every step of a thread performs **at most one access to a
  variable that the other thread also touches** (`_value`, `_to_hap_cache_with_value`,
  `_to_hap_cache`, membership of the topic in `driver.topics`, the loop's ready queue) followed by
  thread-private computation; each such access is a single attribute load/store (or one dict /
  deque operation) in CPython and every source line of the modelled functions contains at most one
  of them, so the merges of these step lists include every interleaving at source-line granularity.

  Shared (written by one thread, read or written by the other):
    value     `Characteristic._value`                       W: worker            R: loop
    cacheV    `Characteristic._to_hap_cache_with_value`     W: worker (clear), loop   R: loop
              (abstracted to the value object it renders)
    cache     `Characteristic._to_hap_cache` (value-free)   W: worker (clear), loop   R: loop
    topicKey  `topic in driver.topics`                      W: loop              R: worker
    queue     `loop._ready` restricted to the hand-offs of `AccessoryDriver.publish`
                                                           W: worker (append), loop (pop)
  Loop-private: the subscriber set of the topic, every connection's pending event (the
  `_event_queue` entry of the characteristic) and the events written to its transport.

  The code variant is a parameter (`Variant`): `repaired` = the code with both C20 repairs
  (design/fixes/C20.patch: re-check after the store; design/fixes/C20-toHAP-double-read.patch: the
  cache slot is read once into a local), `head` = re-check present but the early return still reads
  the slot a second time, `shipped` = neither.  Historic wording below: `fix = true`: after storing the
  cache `to_HAP` re-reads `_value` and drops the cache if it is no longer the rendered object);
  `fix = false` is the code as shipped (store, return).
-/
namespace Hap.Race

/-- A Python value object: identity and payload.  `is` is equality of `Obj`, `==` equality of
    `val`; two objects may carry the same payload. -/
structure Obj where
  id : Nat
  val : Int
deriving DecidableEq, Repr

abbrev Conn := Nat

/-- Which `to_HAP` is modelled.  `recheck`: after storing the with-value cache the value is read
    again and the cache dropped if it moved.  `single`: the early return uses the object it tested
    (`cached = self._to_hap_cache…; if cached is not None: return cached`) instead of loading the
    slot a second time. -/
structure Variant where
  recheck : Bool
  single : Bool
deriving DecidableEq, Repr

/-- both repairs -/
def repaired : Variant := ⟨true, true⟩
/-- re-check present, early return still loads the slot twice -/
def head : Variant := ⟨true, false⟩
/-- the code as originally shipped -/
def shipped : Variant := ⟨false, false⟩

/-- Operations the event-loop thread performs. -/
inductive LoopOp
  | toHAP              -- Characteristic.to_HAP(include_value=True)   (GET /accessories)
  | toHAPnv            -- Characteristic.to_HAP(include_value=False)  (accessories_hash)
  | getValue           -- Characteristic.get_value                    (GET /characteristics)
  | sub (c : Conn)     -- PUT ev=true  → _notify → async_subscribe_client_topic(c, topic, True)
  | unsub (c : Conn)   -- PUT ev=false → _notify → async_subscribe_client_topic(c, topic, False)
                       --                 + http_server.discard_event (c's queued entry is dropped)
  | lost (c : Conn)    -- HAPServerProtocol.connection_lost of connection c: the driver unsubscribes it
                       -- from every topic, close() cancels its timer and clears its queue
  | drain              -- run the callbacks handed over by call_soon_threadsafe (async_send_event)
  | flush (c : Conn)   -- HAPServerProtocol._send_events of connection c, called directly
  | fire (c : Conn)    -- the 0.5 s coalescing timer of connection c expires (if it is armed)
  | write (c : Conn) (v : Obj)
                       -- controller write by connection c (PUT value=v → client_update_value →
                       -- publish on the loop thread → discard_stale_event for the writer).
                       -- One atomic step: see `Serial` below for the assumption that goes with it
deriving DecidableEq, Repr

/-- One `set_value(obj)` call of the worker; `valid = false`: `to_valid_value` /
    `valid_value_or_raise` raise before anything is assigned. -/
structure Update where
  obj : Obj
  valid : Bool
deriving DecidableEq, Repr

/-- Program counter of the loop thread inside an operation. -/
inductive LPc
  | idle
  | hCheck                 -- l.412  `if self._to_hap_cache_with_value is not None …`
  | hRet                   -- l.413  `return self._to_hap_cache_with_value`       (second load)
  | hRead                  -- l.449 → get_value l.247 `return self._value`
  | hStore (r : Obj)       -- l.455  `self._to_hap_cache_with_value = hap_rep`
  | hRecheck (r : Obj)     -- repair `hap_rep[HAP_REPR_VALUE] is not self._value`
  | hDrop (r : Obj)        -- repair `self._to_hap_cache_with_value = None`
  | nCheck                 -- l.414  `elif self._to_hap_cache is not None`
  | nRet                   -- l.415  `return self._to_hap_cache`
  | nStore                 -- l.452  `self._to_hap_cache = hap_rep`
  | gRead                  -- get_value l.247
  | sKey (c : Conn)        -- l.510  `self.topics[topic] = subscribed_clients` (+ l.511 add)
  | uKey                   -- l.519  `del self.topics[topic]`
  | dLoop                  -- next ready callback
deriving DecidableEq, Repr

/-- Program counter of the worker thread inside `set_value`. -/
inductive WPc
  | idle
  | wAssign (o : Obj) (ch : Bool)   -- l.209 `self._value = value`   (ch = `changed`, l.354)
  | wClear0 (o : Obj) (ch : Bool)   -- l.329 `self._to_hap_cache = None`
  | wClear1 (o : Obj) (ch : Bool)   -- l.330 `self._to_hap_cache_with_value = None`
  | wTopic (d : Obj)                -- driver.publish l.551 `if topic not in self.topics`
  | wEnq (d : Obj)                  -- l.558 `self.loop.call_soon_threadsafe(async_send_event, …)`
deriving DecidableEq, Repr

/-- Result returned by a loop operation. -/
inductive Res
  | rep (v : Obj)     -- a representation showing value v
  | repNV             -- a value-free representation
  | nothing           -- `None` (the cache was cleared between the test and the return)
  | value (v : Obj)   -- get_value
deriving DecidableEq, Repr

inductive Var | value | cacheV | cache | topicKey | queue
deriving DecidableEq, Repr

/-- What a step did to the shared variables. -/
inductive Label
  | tau               -- thread-private
  | rd (v : Var)
  | wr (v : Var)
  | done              -- the thread has no step left (stutter)
deriving DecidableEq, Repr

/-- An entry of the ghost *serial order* (`Cfg.lin`): the instant at which an operation takes
    effect.  `upd o`: `_value` now is `o` (worker `set_value` or controller write); `read r`: a read of
    the attribute database (to_HAP with value / get_value) fixes the object `r` it is going to show. -/
inductive LinEv
  | upd (o : Obj)
  | read (r : Obj)
deriving DecidableEq, Repr

structure Cfg where
  -- shared
  value : Obj
  cacheV : Option Obj
  cache : Bool
  topicKey : Bool
  queue : List Obj
  /-- ghost: every object ever handed to the loop, in order (no step reads it) -/
  enq : List Obj
  /-- ghost: the serial order — every update and every value-showing read is logged by that step
      of its own operation at which it takes effect (no step reads it) -/
  lin : List LinEv
  -- loop thread
  subs : List Conn
  pending : Conn → Option Obj
  /-- `_event_timer` of the connection is set (a flush is scheduled) -/
  timer : Conn → Bool
  delivered : Conn → List Obj
  /-- ghost: what the controller on connection c last learned — the last event written to it or
      its own last acknowledged write (initially: what it knew at the start) -/
  knows : Conn → Obj
  results : List Res
  lpc : LPc
  lops : List LoopOp
  -- worker thread
  wpc : WPc
  wups : List Update

/-- An operation returns `r`. -/
def ret (s : Cfg) (r : Res) : Cfg := { s with results := s.results ++ [r], lpc := .idle }

/-- `set.add` -/
def addConn (l : List Conn) (c : Conn) : List Conn := if c ∈ l then l else l ++ [c]

/-- `HAPServerProtocol._send_events` of connection c: reset the timer, write the queued entry if c
    is still subscribed, clear the queue. -/
def sendEvents (s : Cfg) (c : Conn) : Cfg :=
  match s.pending c with
  | none => { s with timer := fun x => if x = c then false else s.timer x }
  | some d =>
    if c ∈ s.subs then
      { s with timer := fun x => if x = c then false else s.timer x,
               pending := fun x => if x = c then none else s.pending x,
               delivered := fun x => if x = c then s.delivered c ++ [d] else s.delivered x,
               knows := fun x => if x = c then d else s.knows x }
    else
      { s with timer := fun x => if x = c then false else s.timer x,
               pending := fun x => if x = c then none else s.pending x }

/-- A controller write of value `v` by connection `w`, as one step: `client_update_value` assigns
    and clears the caches, `publish` runs `async_send_event` directly (loop thread) for every
    subscriber but the writer if the value changed, `discard_stale_event` drops the writer's queued
    entry unless it carries the written value; the writer now knows `v`. -/
def ctrlWrite (s : Cfg) (w : Conn) (v : Obj) : Cfg :=
  let changed := decide (s.value.val ≠ v.val)
  let pend1 : Conn → Option Obj :=
    fun x => if changed && decide (x ∈ s.subs) && decide (x ≠ w) then some v else s.pending x
  let tim1 : Conn → Bool :=
    fun x => if changed && decide (x ∈ s.subs) && decide (x ≠ w) then true else s.timer x
  { s with value := v, cache := false, cacheV := none, lin := s.lin ++ [.upd v],
           pending := fun x =>
             if x = w then
               (match pend1 w with
                | some d => if d.val ≠ v.val then none else some d
                | none => none)
             else pend1 x,
           timer := tim1,
           knows := fun x => if x = w then v else s.knows x }

/-- One step of the event-loop thread.  `fix`: the repaired `to_HAP`. -/
def stepLoop (fix : Variant) (s : Cfg) : Cfg × Label :=
  match s.lpc with
  | .idle =>
    match s.lops with
    | [] => (s, .done)
    | op :: rest =>
      let s := { s with lops := rest }
      match op with
      | .toHAP => ({ s with lpc := .hCheck }, .tau)
      | .toHAPnv => ({ s with lpc := .nCheck }, .tau)
      | .getValue => ({ s with lpc := .gRead }, .tau)
      | .sub c =>
        -- l.507 `self.topics.get(topic)` : the loop reads its own variable
        if s.topicKey then ({ s with subs := addConn s.subs c }, .tau)
        else ({ s with lpc := .sKey c }, .tau)
      | .unsub c =>
        -- discard_event: the connection's queued entry goes (its timer stays as it is)
        let s := { s with pending := fun x => if x = c then none else s.pending x }
        if s.topicKey then
          let l := s.subs.erase c
          if l.isEmpty then ({ s with subs := l, lpc := .uKey }, .tau) else ({ s with subs := l }, .tau)
        else (s, .tau)
      | .lost c =>
        let s := { s with pending := fun x => if x = c then none else s.pending x,
                          timer := fun x => if x = c then false else s.timer x }
        if s.topicKey then
          let l := s.subs.erase c
          if l.isEmpty then ({ s with subs := l, lpc := .uKey }, .tau) else ({ s with subs := l }, .tau)
        else (s, .tau)
      | .drain => ({ s with lpc := .dLoop }, .tau)
      | .flush c => (sendEvents s c, .tau)
      | .fire c => if s.timer c then (sendEvents s c, .tau) else (s, .tau)
      | .write w v => (ctrlWrite s w v, .wr .value)
  | .hCheck =>
    match s.cacheV with
    | some r =>
      if fix.single then (ret { s with lin := s.lin ++ [.read r] } (.rep r), .rd .cacheV)
                                                           -- `return cached` (the object tested)
      else ({ s with lpc := .hRet }, .rd .cacheV)          -- l.413 loads the slot again
    | none => ({ s with lpc := .hRead }, .rd .cacheV)
  | .hRet =>
    (ret { s with lin := s.lin ++ (match s.cacheV with | some r => [.read r] | none => []) }
       (match s.cacheV with | some r => .rep r | none => .nothing), .rd .cacheV)
  | .hRead => ({ s with lpc := .hStore s.value, lin := s.lin ++ [.read s.value] }, .rd .value)
  | .hStore r =>
    if fix.recheck then ({ s with cacheV := some r, lpc := .hRecheck r }, .wr .cacheV)
    else (ret { s with cacheV := some r } (.rep r), .wr .cacheV)
  | .hRecheck r =>
    if r = s.value then (ret s (.rep r), .rd .value) else ({ s with lpc := .hDrop r }, .rd .value)
  | .hDrop r => (ret { s with cacheV := none } (.rep r), .wr .cacheV)
  | .nCheck =>
    if s.cache then
      (if fix.single then (ret s .repNV, .rd .cache) else ({ s with lpc := .nRet }, .rd .cache))
    else ({ s with lpc := .nStore }, .rd .cache)
  | .nRet => (ret s (if s.cache then .repNV else .nothing), .rd .cache)
  | .nStore => (ret { s with cache := true } .repNV, .wr .cache)
  | .gRead => (ret { s with lin := s.lin ++ [.read s.value] } (.value s.value), .rd .value)
  | .sKey c => ({ s with topicKey := true, subs := [c], lpc := .idle }, .wr .topicKey)
  | .uKey => ({ s with topicKey := false, subs := [], lpc := .idle }, .wr .topicKey)
  | .dLoop =>
    match s.queue with
    | [] => ({ s with lpc := .idle }, .rd .queue)
    | d :: q =>
      -- async_send_event → push_event → queue_event for every subscriber (sender is None)
      -- (queue_event arms the timer unless one is set)
      ({ s with queue := q, pending := fun x => if x ∈ s.subs then some d else s.pending x,
                timer := fun x => if x ∈ s.subs then true else s.timer x }, .wr .queue)

/-- One step of the worker thread. -/
def stepWorker (s : Cfg) : Cfg × Label :=
  match s.wpc with
  | .idle =>
    match s.wups with
    | [] => (s, .done)
    | u :: rest =>
      if u.valid then
        ({ s with wups := rest, wpc := .wAssign u.obj (decide (s.value.val ≠ u.obj.val)) }, .tau)
      else ({ s with wups := rest }, .tau)
  | .wAssign o ch => ({ s with value := o, lin := s.lin ++ [.upd o], wpc := .wClear0 o ch }, .wr .value)
  | .wClear0 o ch => ({ s with cache := false, wpc := .wClear1 o ch }, .wr .cache)
  | .wClear1 o ch => ({ s with cacheV := none, wpc := if ch then .wTopic o else .idle }, .wr .cacheV)
  | .wTopic d =>
    if s.topicKey then ({ s with wpc := .wEnq d }, .rd .topicKey)
    else ({ s with wpc := .idle }, .rd .topicKey)
  | .wEnq d => ({ s with queue := s.queue ++ [d], enq := s.enq ++ [d], wpc := .idle }, .wr .queue)

/-- The scheduler picks the loop thread (`true`) or the worker (`false`). -/
def step (fix : Variant) (b : Bool) (s : Cfg) : Cfg :=
  if b then (stepLoop fix s).1 else (stepWorker s).1

/-- A schedule is a list of scheduler choices: every merge of the two threads' step sequences is
    `run` of some bit list (a choice of a finished thread is a stutter). -/
def run (fix : Variant) : List Bool → Cfg → Cfg
  | [], s => s
  | b :: bs, s => run fix bs (step fix b s)

/-- Both threads are between operations. -/
def Quiet (s : Cfg) : Prop := s.lpc = .idle ∧ s.wpc = .idle

instance (s : Cfg) : Decidable (Quiet s) := by unfold Quiet; infer_instance

/-- The with-value cache, if present, renders the current value object. -/
def Fresh (s : Cfg) : Prop := s.cacheV = none ∨ s.cacheV = some s.value

instance (s : Cfg) : Decidable (Fresh s) := by unfold Fresh; infer_instance

/-- The most recent item in connection `c`'s event pipeline: hand-off queue, then the pending
    (coalesced) entry, then what the controller last learned (last event written to it or its own
    last acknowledged write). -/
def latest (c : Conn) (s : Cfg) : Obj :=
  match s.queue.getLast? with
  | some d => d
  | none =>
    match s.pending c with
    | some d => d
    | none => s.knows c

/-- The loop thread is about to begin a controller write. -/
def headIsWrite : List LoopOp → Bool
  | .write _ _ :: _ => true
  | _ => false

def AtWrite (s : Cfg) : Prop := s.lpc = .idle ∧ headIsWrite s.lops = true

instance (s : Cfg) : Decidable (AtWrite s) := by unfold AtWrite; infer_instance

/-- The assumption that goes with the atomic `write` step: along the schedule, whenever the loop
    thread begins a controller write the worker is between updates and every hand-off has been
    drained — i.e. a controller write of this characteristic never overlaps a worker update or its
    undrained hand-off.  (The overlapping shapes are the known finding of C12: the older worker
    value can be delivered after the newer controller write.) -/
def Serial (fix : Variant) : List Bool → Cfg → Prop
  | [], _ => True
  | b :: bs, s =>
    (b = true → AtWrite s → s.wpc = .idle ∧ s.queue = []) ∧
    Serial fix bs (step fix b s)

instance decSerial (fix : Variant) : (bits : List Bool) → (s : Cfg) → Decidable (Serial fix bits s)
  | [], _ => isTrue trivial
  | b :: bs, s => by
    unfold Serial
    exact @instDecidableAnd _ _ inferInstance (decSerial fix bs _)

/-- A loop program without controller writes. -/
def NoWrite (l : List LoopOp) : Prop := ∀ op ∈ l, ∀ w v, op ≠ LoopOp.write w v

/-- The value the characteristic must end up with: the last accepted update. -/
def lastValid (v : Obj) : List Update → Obj
  | [] => v
  | u :: us => lastValid (if u.valid then u.obj else v) us

/-- The hand-offs the worker owes the loop: one per accepted update whose payload differs from the
    value it replaces (`changed`, l.354), in order. -/
def changes (v : Obj) : List Update → List Obj
  | [] => []
  | u :: us =>
    if u.valid then
      (if v.val ≠ u.obj.val then [u.obj] else []) ++ changes u.obj us
    else changes v us

/-! ### The serial order (ghost `lin`) read as the history of one sequential register -/

/-- Execute a serial order on a single register holding `v`: an update overwrites it, a read must
    show exactly what it holds.  `none`: the order is not a legal sequential history. -/
def replay : Obj → List LinEv → Option Obj
  | v, [] => some v
  | _, .upd o :: l => replay o l
  | v, .read r :: l => if r = v then replay v l else none

def readsOf : List LinEv → List Obj
  | [] => []
  | .read r :: l => r :: readsOf l
  | .upd _ :: l => readsOf l

def updsOf : List LinEv → List Obj
  | [] => []
  | .upd o :: l => o :: updsOf l
  | .read _ :: l => updsOf l

/-- The value objects shown by the recorded results, in order (value-free and empty answers show none). -/
def resObjs : List Res → List Obj
  | [] => []
  | .rep v :: l => v :: resObjs l
  | .value v :: l => v :: resObjs l
  | .repNV :: l => resObjs l
  | .nothing :: l => resObjs l

/-- The read in progress that has already fixed what it will show (between `get_value` and the
    return of `to_HAP`). -/
def inflight (s : Cfg) : List Obj :=
  match s.lpc with
  | .hStore r => [r]
  | .hRecheck r => [r]
  | .hDrop r => [r]
  | _ => []

/-- The objects of the accepted updates of a worker program, in order. -/
def validObjs : List Update → List Obj
  | [] => []
  | u :: us => if u.valid then u.obj :: validObjs us else validObjs us

/-- The accepted updates the worker has not yet made effective. -/
def owedUpd (s : Cfg) : List Obj :=
  (match s.wpc with
   | .wAssign o _ => [o]
   | _ => []) ++ validObjs s.wups

/-- **The property's quantifier**: the worker's whole update runs at one step boundary of the loop
    thread — along the schedule the loop thread steps only while the worker is between updates.
    (Arbitrary merges are finer; the no-stale and event theorems hold for all of them, serial
    equivalence of reads IN PROGRESS does not: see C20_fine_grained_not_serializable.) -/
def AtomicUpd (fix : Variant) : List Bool → Cfg → Prop
  | [], _ => True
  | b :: bs, s => (b = true → s.wpc = .idle) ∧ AtomicUpd fix bs (step fix b s)

instance decAtomicUpd (fix : Variant) : (bits : List Bool) → (s : Cfg) → Decidable (AtomicUpd fix bits s)
  | [], _ => isTrue trivial
  | b :: bs, s => by
    unfold AtomicUpd
    exact @instDecidableAnd _ _ inferInstance (decAtomicUpd fix bs _)

/-- A start configuration: both threads idle, caches empty. -/
def init (v : Obj) (lops : List LoopOp) (wups : List Update) (subs : List Conn) : Cfg :=
  { value := v, cacheV := none, cache := false, topicKey := !subs.isEmpty, queue := [], enq := [],
    lin := [], subs := subs, pending := fun _ => none, timer := fun _ => false, delivered := fun _ => [],
    knows := fun _ => v, results := [],
    lpc := .idle, lops := lops, wpc := .idle, wups := wups }

end Hap.Race
