/-
  Model for C16: connections with their handler state (`is_encrypted`, `client_uuid`, pair-verify
  context), the connection registry (`HAPServer.connections`), request dispatch on (un)verified
  connections, `handle_pairings` with add / remove / list incl. the last-admin rule, and — the
  repair — the teardown of sessions whose controller is no longer paired, performed by
  `HAPServerProtocol._process_response` AFTER the response has been written
  (`response.pairing_removed` → `_close_unpaired_sessions`).

  `repaired = false` gives the step function of the tree before the repair (no teardown).
  Pair-verify is the very function of HapModel/PairVerify.lean.
  A `resource` request (POST /resource, a camera snapshot) is answered LATER: `_process_response`
  stores the response and writes nothing; `ready` is the completion of the task
  (`_handle_response_ready`): the response is written unless the transport is closing — then nothing
  is written at all.  `restart` is the end of the process and a start from the state file: every
  connection and handler is gone, the pairing map is what was saved (its faithful reload is C14/C15's
  subject).
  One `chunk` = one `data_received`: the requests it contains are processed one after the other even
  if the transport was closed meanwhile (`_process_events` does not look at the transport); bytes
  written after the close go nowhere (`dropped`). Data for a connection that is not in the registry
  any more is never delivered (asyncio: no `data_received` after `close()`).
-/
import HapModel.PairVerify
namespace Hap.Sess
open Hap Hap.PV

structure SConn where
  pv : PV.Conn := {}
  /-- `HAPServerProtocol.response`: a delayed response (snapshot being taken) is outstanding -/
  pending : Bool := false
deriving DecidableEq, Repr

inductive Req
  /-- POST /pair-verify -/
  | pairVerify (body : Bytes)
  /-- a request to an endpoint guarded only by `is_encrypted`: 0 GET /accessories,
      1 GET /characteristics, 2 PUT /characteristics (write), 3 PUT /characteristics (subscribe),
      4 PUT /prepare -/
  | guarded (kind : Nat)
  /-- POST /resource on an accessory with a camera: guarded by `is_encrypted`; the answer is delayed
      (response class `served 5` when it is finally written) -/
  | resource
  /-- POST /pairings, request type 3 / 4 / 5 -/
  | addPairing (uname key : Bytes) (admin : Bool)
  | removePairing (uname : Bytes)
  | listPairings
deriving DecidableEq, Repr

/-- response classes -/
inductive RC
  | pv (r : PV.Resp)
  /-- 2xx with the requested content / effect -/
  | served (kind : Nat)
  /-- 401 -/
  | unauthorized
  /-- POST /pairings acknowledged: TLV state 2, no error -/
  | ack
  /-- POST /pairings refused: TLV state 2 + authentication error -/
  | pairingsDenied
  /-- list-pairings answer with `n` entries -/
  | list (n : Nat)
  | err500
deriving DecidableEq, Repr

inductive Event
  /-- a response that reached the peer of connection `c` -/
  | resp (c : Nat) (r : RC)
  /-- a response written after the transport of `c` was closed (reaches nobody) -/
  | dropped (c : Nat) (r : RC)
  /-- the accessory closed the transport of `c` -/
  | close (c : Nat)
deriving DecidableEq, Repr

structure Sys where
  pairings : Pairings := []
  conns : Nat → SConn := fun _ => {}
  /-- keys of `HAPServer.connections`, in insertion order -/
  live : List Nat := []
  clock : Nat := 0
  trace : List Event := []

def setConn (f : Nat → SConn) (c : Nat) (v : SConn) : Nat → SConn := fun a => if a = c then v else f a

/-- `client_uuid is not None and client_uuid not in state.paired_clients` -/
def unpairedSession (ps : Pairings) (sc : SConn) : Bool :=
  match sc.pv.client with
  | some u => (getKey ps u).isNone
  | none => false

/-- `_close_unpaired_sessions`: every registered connection whose controller is no longer paired
    loses its privilege flag and is closed (the iterations are independent of each other). -/
def teardown (s : Sys) : Sys :=
  let victim := fun d => unpairedSession s.pairings (s.conns d)
  { s with
    live := s.live.filter (fun d => !victim d),
    conns := fun d =>
      if d ∈ s.live ∧ victim d = true then { (s.conns d) with pv := { (s.conns d).pv with verified := false } }
      else s.conns d,
    trace := s.trace ++ (s.live.filter victim).map Event.close }

/-- write a response on connection `c`: it reaches the peer only while the transport is open -/
def emit (s : Sys) (c : Nat) (r : RC) : Sys :=
  { s with trace := s.trace ++ [if c ∈ s.live then Event.resp c r else Event.dropped c r] }

/-- `dispatch` + `_process_response` for one request on connection `c`. -/
def procReq (C : Crypto) (repaired : Bool) (s : Sys) (c : Nat) : Req → Sys
  | .pairVerify body =>
    let r := handlePairVerify C s.pairings s.clock (s.conns c).pv body
    let s1 := emit s c (.pv r.2.resp)      -- the answer is written before the cipher is installed
    { s1 with conns := setConn s1.conns c { (s.conns c) with pv := installCipher r.1 r.2 }, clock := s.clock + 1 }
  | .guarded kind =>
    emit { s with clock := s.clock + 1 } c (if (s.conns c).pv.verified then .served kind else .unauthorized)
  | .resource =>
    if (s.conns c).pv.verified then
      -- `response.task` is set: `_process_response` keeps the response for later, nothing is written
      { s with conns := setConn s.conns c { (s.conns c) with pending := true }, clock := s.clock + 1 }
    else emit { s with clock := s.clock + 1 } c .unauthorized
  | .listPairings =>
    let h := (s.conns c).pv
    let s0 := { s with clock := s.clock + 1 }
    match h.client with
    | none => emit s0 c .err500                               -- `assert self.client_uuid is not None`
    | some me =>
      if h.verified = false ∨ isAdmin s.pairings me = false then emit s0 c .pairingsDenied
      else emit s0 c (.list s.pairings.length)
  | .addPairing uname key admin =>
    let h := (s.conns c).pv
    let s0 := { s with clock := s.clock + 1 }
    match h.client with
    | none => emit s0 c .err500
    | some me =>
      if h.verified = false ∨ isAdmin s.pairings me = false then emit s0 c .pairingsDenied
      else
        match C.parseUuid uname with
        | none => emit s0 c .err500                           -- ValueError in add_paired_client
        | some u => emit { s0 with pairings := addPairing s.pairings u key admin } c .ack
  | .removePairing uname =>
    let h := (s.conns c).pv
    let s0 := { s with clock := s.clock + 1 }
    match h.client with
    | none => emit s0 c .err500
    | some me =>
      if h.verified = false ∨ isAdmin s.pairings me = false then emit s0 c .pairingsDenied
      else
        match C.parseUuid uname with
        | none => emit s0 c .err500                           -- ValueError
        | some u =>
          let ps := if (getKey s.pairings u).isSome then removePairing s.pairings u else s.pairings
          let s1 := emit { s0 with pairings := ps } c .ack    -- response written first …
          if repaired then teardown s1 else s1                -- … then the sessions are torn down

def procChunk (C : Crypto) (repaired : Bool) (c : Nat) : Sys → List Req → Sys
  | s, [] => s
  | s, r :: rest => procChunk C repaired c (procReq C repaired s c r) rest

inductive Op
  /-- a new TCP connection `c` (`connection_made`): fresh handler, registered -/
  | connect (c : Nat)
  /-- the peer went away (`connection_lost` → `close()`) -/
  | peerClose (c : Nat)
  /-- one `data_received` carrying these requests -/
  | chunk (c : Nat) (reqs : List Req)
  /-- a pairing registered outside `/pairings` (pair-setup M5/M6 or the application) -/
  | pair (u : Uuid) (k : Key) (admin : Bool)
  /-- the snapshot task of connection `c` completes (`ok`) or fails: `_handle_response_ready` -/
  | ready (c : Nat) (ok : Bool)
  /-- the process ends and the accessory is started again from its state file -/
  | restart
deriving Repr

def step (C : Crypto) (repaired : Bool) (s : Sys) : Op → Sys
  | .connect c =>
    if c ∈ s.live then s
    else { s with live := s.live ++ [c], conns := setConn s.conns c {}, clock := s.clock + 1 }
  | .peerClose c => { s with live := s.live.filter (· != c), clock := s.clock + 1 }
  | .chunk c reqs => if c ∈ s.live then procChunk C repaired c s reqs else s
  | .pair u k a => { s with pairings := addPairing s.pairings u k a, clock := s.clock + 1 }
  | .ready c ok =>
    if (s.conns c).pending then
      let s0 := { s with conns := setConn s.conns c { (s.conns c) with pending := false }, clock := s.clock + 1 }
      -- `if self.transport.is_closing(): return` — nothing at all is written to a closed transport
      if c ∈ s.live then emit s0 c (if ok then .served 5 else .err500) else s0
    else { s with clock := s.clock + 1 }
  | .restart => { s with conns := fun _ => {}, live := [], clock := s.clock + 1 }

def run (C : Crypto) (repaired : Bool) : Sys → List Op → Sys
  | s, [] => s
  | s, op :: rest => run C repaired (step C repaired s op) rest

/-- the connection an event concerns -/
def Event.conn : Event → Nat
  | .resp c _ => c
  | .dropped c _ => c
  | .close c => c

/-- the events concerning connection `c` -/
def eventsOf (c : Nat) (t : List Event) : List Event := t.filter fun e => e.conn == c

end Hap.Sess
