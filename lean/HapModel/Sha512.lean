/-
  Executable SHA-512 (FIPS 180-4) on `List UInt8`, `UInt64` arithmetic.
  Used only by the line-protocol drivers to instantiate the abstract hash `H` of the SRP
  model on concrete inputs; every theorem is stated for an arbitrary `H`.  The harness
  validates this implementation against `hashlib.sha512` on every run (stream "sha512").
  No Mathlib import.
-/
import HapModel.Bytes
namespace Hap.Sha512
open Hap

def K : Array UInt64 := #[
  0x428a2f98d728ae22, 0x7137449123ef65cd, 0xb5c0fbcfec4d3b2f, 0xe9b5dba58189dbbc,
  0x3956c25bf348b538, 0x59f111f1b605d019, 0x923f82a4af194f9b, 0xab1c5ed5da6d8118,
  0xd807aa98a3030242, 0x12835b0145706fbe, 0x243185be4ee4b28c, 0x550c7dc3d5ffb4e2,
  0x72be5d74f27b896f, 0x80deb1fe3b1696b1, 0x9bdc06a725c71235, 0xc19bf174cf692694,
  0xe49b69c19ef14ad2, 0xefbe4786384f25e3, 0x0fc19dc68b8cd5b5, 0x240ca1cc77ac9c65,
  0x2de92c6f592b0275, 0x4a7484aa6ea6e483, 0x5cb0a9dcbd41fbd4, 0x76f988da831153b5,
  0x983e5152ee66dfab, 0xa831c66d2db43210, 0xb00327c898fb213f, 0xbf597fc7beef0ee4,
  0xc6e00bf33da88fc2, 0xd5a79147930aa725, 0x06ca6351e003826f, 0x142929670a0e6e70,
  0x27b70a8546d22ffc, 0x2e1b21385c26c926, 0x4d2c6dfc5ac42aed, 0x53380d139d95b3df,
  0x650a73548baf63de, 0x766a0abb3c77b2a8, 0x81c2c92e47edaee6, 0x92722c851482353b,
  0xa2bfe8a14cf10364, 0xa81a664bbc423001, 0xc24b8b70d0f89791, 0xc76c51a30654be30,
  0xd192e819d6ef5218, 0xd69906245565a910, 0xf40e35855771202a, 0x106aa07032bbd1b8,
  0x19a4c116b8d2d0c8, 0x1e376c085141ab53, 0x2748774cdf8eeb99, 0x34b0bcb5e19b48a8,
  0x391c0cb3c5c95a63, 0x4ed8aa4ae3418acb, 0x5b9cca4f7763e373, 0x682e6ff3d6b2b8a3,
  0x748f82ee5defb2fc, 0x78a5636f43172f60, 0x84c87814a1f0ab72, 0x8cc702081a6439ec,
  0x90befffa23631e28, 0xa4506cebde82bde9, 0xbef9a3f7b2c67915, 0xc67178f2e372532b,
  0xca273eceea26619c, 0xd186b8c721c0c207, 0xeada7dd6cde0eb1e, 0xf57d4f7fee6ed178,
  0x06f067aa72176fba, 0x0a637dc5a2c898a6, 0x113f9804bef90dae, 0x1b710b35131c471b,
  0x28db77f523047d84, 0x32caab7b40c72493, 0x3c9ebe0a15c9bebc, 0x431d67c49c100d4c,
  0x4cc5d4becb3e42b6, 0x597f299cfc657e2a, 0x5fcb6fab3ad6faec, 0x6c44198c4a475817]

def H0 : Array UInt64 := #[
  0x6a09e667f3bcc908, 0xbb67ae8584caa73b, 0x3c6ef372fe94f82b, 0xa54ff53a5f1d36f1,
  0x510e527fade682d1, 0x9b05688c2b3e6c1f, 0x1f83d9abfb41bd6b, 0x5be0cd19137e2179]

@[inline] def rotr (x : UInt64) (n : UInt64) : UInt64 := (x >>> n) ||| (x <<< (64 - n))

@[inline] def bigS0 (x : UInt64) : UInt64 := rotr x 28 ^^^ rotr x 34 ^^^ rotr x 39
@[inline] def bigS1 (x : UInt64) : UInt64 := rotr x 14 ^^^ rotr x 18 ^^^ rotr x 41
@[inline] def smallS0 (x : UInt64) : UInt64 := rotr x 1 ^^^ rotr x 8 ^^^ (x >>> 7)
@[inline] def smallS1 (x : UInt64) : UInt64 := rotr x 19 ^^^ rotr x 61 ^^^ (x >>> 6)

/-- padding: 0x80, zeros up to 112 mod 128, 128-bit big-endian bit length -/
def pad (msg : Bytes) : Array UInt8 := Id.run do
  let n := msg.length
  let mut a : Array UInt8 := msg.toArray
  a := a.push 0x80
  let z := (128 - ((n + 1 + 16) % 128)) % 128
  for _ in [0:z] do
    a := a.push 0
  let bits := n * 8
  for i in [0:16] do
    a := a.push (UInt8.ofNat ((bits >>> (8 * (15 - i))) % 256))
  return a

def word (a : Array UInt8) (off : Nat) : UInt64 := Id.run do
  let mut w : UInt64 := 0
  for i in [0:8] do
    w := (w <<< 8) ||| (a[off + i]!).toUInt64
  return w

def compress (h : Array UInt64) (blk : Array UInt8) (off : Nat) : Array UInt64 := Id.run do
  let mut w : Array UInt64 := Array.mkEmpty 80
  for t in [0:16] do
    w := w.push (word blk (off + 8 * t))
  for t in [16:80] do
    w := w.push (smallS1 w[t-2]! + w[t-7]! + smallS0 w[t-15]! + w[t-16]!)
  let mut a := h[0]!
  let mut b := h[1]!
  let mut c := h[2]!
  let mut d := h[3]!
  let mut e := h[4]!
  let mut f := h[5]!
  let mut g := h[6]!
  let mut hh := h[7]!
  for t in [0:80] do
    let t1 := hh + bigS1 e + ((e &&& f) ^^^ ((~~~ e) &&& g)) + K[t]! + w[t]!
    let t2 := bigS0 a + ((a &&& b) ^^^ (a &&& c) ^^^ (b &&& c))
    hh := g
    g := f
    f := e
    e := d + t1
    d := c
    c := b
    b := a
    a := t1 + t2
  return #[h[0]! + a, h[1]! + b, h[2]! + c, h[3]! + d, h[4]! + e, h[5]! + f, h[6]! + g, h[7]! + hh]

def wordBytes (w : UInt64) : Bytes :=
  (List.range 8).map fun i => (w >>> (UInt64.ofNat (8 * (7 - i)))).toUInt8

/-- SHA-512 digest (64 bytes) -/
def sha512 (msg : Bytes) : Bytes := Id.run do
  let p := pad msg
  let mut h := H0
  for i in [0:p.size / 128] do
    h := compress h p (128 * i)
  return h.toList.flatMap wordBytes

end Hap.Sha512
