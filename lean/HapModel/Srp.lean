/-
  Model of pyhap/hsrp.py (`Server`) over an abstract hash `H : Bytes → Bytes`
  (`ctx["hashfunc"](data).digest()`), field by field and in statement order, plus the
  RFC 5054 reference client with the HomeKit conventions (DESIGN C08 "Reading").

  The model mirrors the REPAIRED code (design/fixes/C08.patch + design/fixes/C01.patch):
    * `Kb` is the digest `H(Sb)` itself, `K = bytes_to_long(Kb)`  (C08);
    * `set_A` clears `verified`; `verify` refuses `A % N == 0` and records success (C01).
  The variants before the repairs are kept as `setALegacy` / `verifyLegacy` for the
  counterexample theorems.  No Mathlib import: this file is loaded by the drivers.
-/
import HapModel.Bytes
namespace Hap.Srp
open Hap

/-- `ctx` of `params.get_srp_context`: the group and `N_len` (in bits). -/
structure Group where
  N : Nat
  g : Nat
  nLen : Nat
  deriving Repr

/-- Python `pow(b, e, n)` for `n > 0` (square and multiply; `Nat` is GMP-backed). -/
def powMod (b e n : Nat) : Nat :=
  if h : e = 0 then 1 % n
  else
    let r := powMod (b * b % n) (e / 2) n
    if e % 2 = 1 then b * r % n else r
termination_by e
decreasing_by omega

/-- `Server._padN` -/
def padN (G : Group) (b : Bytes) : Bytes := rjust (G.nLen / 8) b

/-- `int(hashfunc(data).hexdigest(), 16)` -/
def hInt (H : Bytes → Bytes) (d : Bytes) : Nat := bytesToNat (H d)

/-- `bytes(hN[i] ^ hG[i] for i in range(len(hN)))` for digests of equal length
    (a fixed-length hash; for unequal lengths Python raises, the model truncates). -/
def xorBytes (a b : Bytes) : Bytes := List.zipWith (· ^^^ ·) a b

/-- the fields assigned by `set_A` -/
structure Sess where
  Ab : Bytes
  A : Nat
  u : Nat
  S : Nat
  Sb : Bytes
  K : Nat
  Kb : Bytes
  M : Bytes
  HAMK : Bytes
  deriving Repr, DecidableEq

structure Server where
  G : Group
  s : Bytes
  I : Bytes
  p : Bytes
  v : Nat
  k : Nat
  b : Nat
  B : Nat
  Bb : Bytes
  /-- `None` until `set_A` has run -/
  sess : Option Sess
  /-- C01 repair: did `verify` succeed since the last `set_A`? -/
  verified : Bool

/-- `_get_private_key` -/
def privKey (H : Bytes → Bytes) (s I p : Bytes) : Nat := hInt H (s ++ H (I ++ [0x3a] ++ p))

/-- `_get_k` -/
def multK (H : Bytes → Bytes) (G : Group) : Nat :=
  hInt H (natToBytes G.N ++ padN G (natToBytes G.g))

/-- `_get_verifier`: `pow(g, _get_private_key(), N)` -/
def getVerifier (H : Bytes → Bytes) (G : Group) (s I p : Bytes) : Nat := powMod G.g (privKey H s I p) G.N

/-- `_derive_B`: `(k * v + pow(g, b, N)) % N` -/
def deriveB (G : Group) (k v b : Nat) : Nat := (k * v + powMod G.g b G.N) % G.N

/-- `_get_K`: `int(hashfunc(Sb).hexdigest(), 16)` (no caller left in the repaired `set_A`; still public) -/
def getK (H : Bytes → Bytes) (Sb : Bytes) : Nat := hInt H Sb

/-- `_get_HAMK`: `H(Ab ‖ M ‖ Kb)` -/
def getHAMK (H : Bytes → Bytes) (Ab M Kb : Bytes) : Bytes := H (Ab ++ M ++ Kb)

/-- `Server.__init__(ctx, u=I, p, s=s, b=b)` with the salt and secret already drawn
    (`s or os.urandom(..)`, `b or bytes_to_long(os.urandom(..))` are resolved by the caller). -/
def mk (H : Bytes → Bytes) (G : Group) (I p s : Bytes) (b : Nat) : Server :=
  let v := powMod G.g (privKey H s I p) G.N
  let k := multK H G
  let B := (k * v + powMod G.g b G.N) % G.N
  { G := G, s := s, I := I, p := p, v := v, k := k, b := b, B := B, Bb := natToBytes B,
    sess := none, verified := false }

/-- `get_challenge`: `(self.s, self.B)` — the handler sends `long_to_bytes(B)` -/
def Server.getChallenge (srv : Server) : Bytes × Nat := (srv.s, srv.B)

/-- `get_session_key_bytes`: `self.Kb` (`None` before `set_A`) -/
def Server.sessionKeyBytes (srv : Server) : Option Bytes := srv.sess.map (·.Kb)

/-- `get_session_key`: `self.K` (`None` before `set_A`) -/
def Server.sessionKey (srv : Server) : Option Nat := srv.sess.map (·.K)

/-- `_get_M` -/
def proofM (H : Bytes → Bytes) (G : Group) (I s Ab Bb Kb : Bytes) : Bytes :=
  let hN := H (natToBytes G.N)
  let hG := H (natToBytes G.g)
  H (xorBytes hN hG ++ H I ++ s ++ Ab ++ Bb ++ Kb)

/-- `_derive_premaster_secret` (also assigns `u`) -/
def scramble (H : Bytes → Bytes) (G : Group) (Ab Bb : Bytes) : Nat := hInt H (padN G Ab ++ padN G Bb)

def premaster (G : Group) (A v u b : Nat) : Nat := powMod (A * powMod v u G.N) b G.N

/-- the assignments of `set_A` (repaired: `Kb` is the digest itself) -/
def mkSess (H : Bytes → Bytes) (srv : Server) (Ab : Bytes) : Sess :=
  let A := bytesToNat Ab
  let u := scramble H srv.G Ab srv.Bb
  let S := premaster srv.G A srv.v u srv.b
  let Sb := natToBytes S
  let Kb := H Sb
  let K := bytesToNat Kb
  let M := proofM H srv.G srv.I srv.s Ab srv.Bb Kb
  let HAMK := H (Ab ++ M ++ Kb)
  { Ab := Ab, A := A, u := u, S := S, Sb := Sb, K := K, Kb := Kb, M := M, HAMK := HAMK }

/-- `set_A` (repaired: `verified` is cleared first) -/
def setA (H : Bytes → Bytes) (srv : Server) (Ab : Bytes) : Server :=
  { srv with verified := false, sess := some (mkSess H srv Ab) }

/-- `verify` (repaired): `(self.A is not None and self.A % self.N != 0 and self.M == M)` is recorded
    in `verified`; returns `HAMK` or `None`. -/
def verify (srv : Server) (M : Bytes) : Server × Option Bytes :=
  match srv.sess with
  | none => ({ srv with verified := false }, none)
  | some ss =>
    let ok := ss.A % srv.G.N != 0 && ss.M == M
    ({ srv with verified := ok }, if ok then some ss.HAMK else none)

/-! ### the code before the repairs (for the counterexample theorems only) -/

/-- `set_A` as shipped: `K = int(hexdigest)`, `Kb = long_to_bytes(K)` (leading zero bytes of the
    digest are lost). -/
def mkSessLegacy (H : Bytes → Bytes) (srv : Server) (Ab : Bytes) : Sess :=
  let A := bytesToNat Ab
  let u := scramble H srv.G Ab srv.Bb
  let S := premaster srv.G A srv.v u srv.b
  let Sb := natToBytes S
  let K := hInt H Sb
  let Kb := natToBytes K
  let M := proofM H srv.G srv.I srv.s Ab srv.Bb Kb
  let HAMK := H (Ab ++ M ++ Kb)
  { Ab := Ab, A := A, u := u, S := S, Sb := Sb, K := K, Kb := Kb, M := M, HAMK := HAMK }

def setALegacy (H : Bytes → Bytes) (srv : Server) (Ab : Bytes) : Server :=
  { srv with sess := some (mkSessLegacy H srv Ab) }

/-- `verify` as shipped: `self.HAMK if self.M == M else None` -/
def verifyLegacy (srv : Server) (M : Bytes) : Option Bytes :=
  match srv.sess with
  | none => none
  | some ss => if ss.M == M then some ss.HAMK else none

/-! ### RFC 5054 reference client (HomeKit conventions) -/

structure Client where
  A : Nat
  Ab : Bytes
  u : Nat
  S : Nat
  /-- session key: the full digest `H(S)` -/
  K : Bytes
  M : Bytes
  /-- what the client expects as the server proof -/
  HAMK : Bytes
  deriving Repr

/-- premaster secret of the client: `(B - k g^x)^(a + u x) mod N` on Python ints -/
def clientS (G : Group) (B k x a u : Nat) : Nat :=
  powMod ((((B : Int) - (k : Int) * ((powMod G.g x G.N : Nat) : Int)) % (G.N : Int)).toNat)
    (a + u * x) G.N

/-- the controller side: `I`, password `P`, the salt and `B` (bytes as received in M2), secret `a` -/
def client (H : Bytes → Bytes) (G : Group) (I P s Bb : Bytes) (a : Nat) : Client :=
  let A := powMod G.g a G.N
  let Ab := natToBytes A
  let B := bytesToNat Bb
  let u := hInt H (padN G Ab ++ padN G Bb)
  let k := multK H G
  let x := privKey H s I P
  let S := clientS G B k x a u
  let K := H (natToBytes S)
  let M := proofM H G I s Ab Bb K
  { A := A, Ab := Ab, u := u, S := S, K := K, M := M, HAMK := H (Ab ++ M ++ K) }

/-- the closed-form forger for `A ≡ 0 (mod N)`: proof computed from public data only (`S = 0`) -/
def forgeM (H : Bytes → Bytes) (G : Group) (I s Ab Bb : Bytes) : Bytes :=
  proofM H G I s Ab Bb (H [])

end Hap.Srp
