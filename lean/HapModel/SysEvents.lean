/-
  SysEvents — the event-driven system of HAP-python as one atomic step function.

  Mirrors (after the repairs design/fixes/C12.patch and design/fixes/C13.patch):
    pyhap/characteristic.py   set_value / client_update_value / notify
    pyhap/accessory.py        Accessory.publish
    pyhap/accessory_driver.py publish / async_send_event / async_subscribe_client_topic /
                              connection_lost / set_characteristics(_notify, discard) / prepare
    pyhap/hap_server.py       push_event / discard_stale_event / async_cleanup_connections / async_stop
    pyhap/hap_protocol.py     connection_made / connection_lost / close / queue_event / _send_events /
                              check_idle / data_received (dispatch outcome) / _handle_response_ready

  Every handler is one run-to-completion loop callback, hence one atomic step.
  Protocol *objects* (`ObjId`, one per `connection_made`) are distinct from registry entries
  (`reg : Addr → Option ObjId` = `HAPServer.connections`): a closed object is no longer registered
  but can still own a timer or a pending `call_soon` callback.

  Maps whose iteration order is unobservable are total functions updated pointwise; the loops of
  `async_send_event`, `async_cleanup_connections`, `async_stop` and `connection_lost` are given in
  closed (pointwise) form.  The per-connection event queue is an association list with dict
  semantics (assignment to an existing key keeps its position).

  Time unit: one tick = 62.5 ms (so 0.5 s = 8 ticks, 300 s = 4800 ticks, 90 h = 5 184 000 ticks).
  No Mathlib import (the driver loads this file).
-/
namespace Hap.Sys

abbrev Addr := Nat
abbrev ObjId := Nat
abbrev Cid := Nat
abbrev Val := Nat
abbrev Pid := Nat

/-- EVENT_COALESCE_TIME_WINDOW = 0.5 s -/
def WINDOW : Nat := 8
/-- IDLE_CONNECTION_TIMEOUT_SECONDS = 90 h -/
def IDLE : Nat := 5184000
/-- IDLE_CONNECTION_CHECK_INTERVAL_SECONDS = 300 s -/
def SWEEP : Nat := 4800

/-- what the application's `setter_callback` of a characteristic does when a controller writes it
    (run inside `client_update_value`, after the assignment, on the loop thread) -/
inductive Callback
  | none
  /-- confirms the state: `char.set_value(value)` with the written value -/
  | echo
  /-- clamps / normalises: `char.set_value(v2)` -/
  | setTo (v2 : Val)
  /-- updates another characteristic: `other.set_value(w)` -/
  | setOther (y : Cid) (w : Val)
  /-- raises (the device could not be reached): `_wrap_char_setter` answers -70402 for this query -/
  | raise
  deriving DecidableEq, Repr

/-- Static description of the accessory plus the two repair switches
    (`fix12`/`fix13` = false gives the code as it was before the repairs). -/
structure Cfg where
  /-- `type_id in IMMEDIATE_NOTIFY` -/
  imm : Cid → Bool
  /-- `type_id in ALWAYS_NULL` -/
  nul : Cid → Bool
  /-- the characteristic's `setter_callback` -/
  cb : Cid → Callback := fun _ => Callback.none
  /-- design/fixes/C12.patch applied (`discard_stale_event` after a successful controller write) -/
  fix12 : Bool := true
  /-- design/fixes/C13.patch applied (`close()` cancels the event timer and clears the queue) -/
  fix13 : Bool := true
  /-- design/fixes/C12-resubscribe.patch applied (`discard_event` when a client unsubscribes) -/
  fixResub : Bool := true
  /-- design/fixes/C12-failed-write.patch applied (`client_update_value` restores the previous value
      when the setter callback raises; without it the written value stays stored and nobody is told) -/
  fixRaise : Bool := true
  /-- design/fixes/C12-stale-handoff.patch applied (a hand-off from a worker thread whose captured value
      is no longer the value of the characteristic is dropped by the loop) -/
  fixHand : Bool := true

/-! ### dict-like association list (the per-connection `_event_queue`) -/

def aget : List (Cid × Val) → Cid → Option Val
  | [], _ => none
  | (y, v) :: r, x => if y = x then some v else aget r x

/-- `d[x] = v` : replace in place, else append -/
def aset : List (Cid × Val) → Cid → Val → List (Cid × Val)
  | [], x, v => [(x, v)]
  | (y, w) :: r, x, v => if y = x then (y, v) :: r else (y, w) :: aset r x v

/-- `del d[x]` -/
def adel (q : List (Cid × Val)) (x : Cid) : List (Cid × Val) := q.filter (fun e => e.1 ≠ x)

/-- function update -/
def upd {β : Type} (f : Nat → β) (k : Nat) (v : β) : Nat → β := fun a => if a = k then v else f a

/-! ### state -/

/-- One `HAPServerProtocol` instance (plus its handler's `is_encrypted` and its transport's
    `is_closing()`), and the ghost fields used to state C12. -/
structure Obj where
  addr : Addr := 0
  /-- handler.is_encrypted (a verified session) -/
  verified : Bool := false
  /-- `transport.close()` has been called (`transport.is_closing()`) -/
  closing : Bool := false
  /-- `connection_lost` has been processed -/
  lost : Bool := false
  /-- `_event_queue` : characteristic ↦ latest value -/
  queue : List (Cid × Val) := []
  /-- `_event_timer` : deadline of the pending `call_later(0.5, _send_events)` -/
  timer : Option Nat := none
  /-- number of pending `call_soon(_send_events)` callbacks -/
  soon : Nat := 0
  /-- a delayed (snapshot) response is pending (`self.response` with a task) -/
  pending : Bool := false
  last : Nat := 0
  /-- ghost: `sender_client_addr` of the change that made the queued entry for `x` -/
  qsrc : Cid → Option Addr := fun _ => none
  /-- ghost: what the controller last learned about `x` (latest event entry received or own
      acknowledged write) -/
  learned : Cid → Option Val := fun _ => none
  /-- ghost: the connection has been subscribed to `x` without interruption since (and at) the
      most recent notified change of `x` -/
  since : Cid → Bool := fun _ => false

inductive Body
  | none
  | value (v : Option Val)
  | status (n : Int)
  | image
  /-- 207 Multi-Status: one status per written characteristic (0 or -70402), in request order -/
  | multi (l : List (Cid × Int))
  deriving DecidableEq, Repr

/-- What the transports see. -/
inductive Out
  | event (p : ObjId) (t : Nat) (entries : List (Cid × Val))
  | resp (p : ObjId) (t : Nat) (code : Nat) (body : Body)
  | eof (p : ObjId) (t : Nat)
  | closed (p : ObjId) (t : Nat)
  deriving DecidableEq, Repr

/-- bytes written to the transport of `p` -/
def Out.isWriteTo (p : ObjId) : Out → Prop
  | .event q _ _ => q = p
  | .resp q _ _ _ => q = p
  | _ => False

instance (p : ObjId) (o : Out) : Decidable (o.isWriteTo p) := by
  cases o <;> simp only [Out.isWriteTo] <;> infer_instance

structure St where
  now : Nat := 0
  /-- number of protocol objects created so far (next object id) -/
  nobj : Nat := 0
  obj : ObjId → Obj := fun _ => {}
  /-- `HAPServer.connections` -/
  reg : Addr → Option ObjId := fun _ => none
  /-- `AccessoryDriver.topics` : `none` = key absent, `some l` = key present with set `l` -/
  topics : Cid → Option (List Addr) := fun _ => none
  /-- `AccessoryDriver.prepared_writes` -/
  prepared : Addr → Option (List Pid) := fun _ => none
  /-- characteristic values (`none` = null) -/
  value : Cid → Option Val := fun _ => some 0
  /-- `aio_stop_event.is_set()` -/
  stopped : Bool := false
  /-- `loop.call_soon_threadsafe(async_send_event, topic, data, None, immediate)` calls made by
      `AccessoryDriver.publish` on a worker thread and not yet run by the loop (FIFO); `data`
      carries the value captured at notify time -/
  handoffs : List (Cid × Val) := []

/-- requests as the dispatcher sees them (one complete HTTP request per `data_received`) -/
inductive Req
  /-- `PUT /characteristics {"characteristics":[{"aid":1,"iid":x[,"ev":ev][,"value":val]}]}`;
      `close` = the request carries `Connection: close` (h11 MUST_CLOSE after the response) -/
  | put (x : Cid) (ev : Option Bool) (val : Option Val) (close : Bool)
  /-- one PUT with several queries (a "scene" write, possibly across bridged accessories; a `Cid`
      stands for an (aid, iid) pair): `set_characteristics` first runs `_notify` over ALL queries,
      then the write (and the stale-entry discard) query by query, in order -/
  | putMany (qs : List (Cid × Option Bool × Option Val)) (close : Bool)
  | get (x : Cid)
  | prepare (pid : Pid)
  /-- `POST /resource` (delayed response) -/
  | snapshot
  /-- bytes that make h11 raise a protocol error -/
  | badHttp
  /-- an encrypted frame whose tag does not verify -/
  | badFrame
  deriving DecidableEq, Repr

inductive Ev
  | tick (dt : Nat)
  | connect (a : Addr)
  | verify (p : ObjId)
  | data (p : ObjId) (r : Req)
  /-- `char.set_value(v)` by the application (loop thread) -/
  | appSet (x : Cid) (v : Val)
  /-- `char.set_value(v)` by the application on a WORKER thread: validate + assign now; the
      notification is handed over to the loop (iff the topic has subscribers at that instant) -/
  | appSetWorker (x : Cid) (v : Val)
  /-- the loop runs the oldest pending hand-off: `async_send_event(topic, data, None, immediate)` -/
  | handOff
  | timerFire (p : ObjId)
  | soonFlush (p : ObjId)
  /-- the snapshot task of `p` finished (`ok = false`: it raised, e.g. its 9 s timeout):
      `_handle_response_ready` -/
  | respReady (p : ObjId) (ok : Bool)
  /-- `connection_lost` delivered to `p` -/
  | lose (p : ObjId)
  /-- `HAPServer.async_cleanup_connections` -/
  | idleSweep
  /-- `aio_stop_event.set(); HAPServer.async_stop()` -/
  | stop
  deriving DecidableEq, Repr

/-! ### topics -/

def memT (t : Option (List Addr)) (a : Addr) : Bool :=
  match t with
  | none => false
  | some l => decide (a ∈ l)

/-- `async_subscribe_client_topic(a, topic, True)` -/
def subAdd (t : Option (List Addr)) (a : Addr) : Option (List Addr) :=
  match t with
  | none => some [a]
  | some l => if a ∈ l then some l else some (l ++ [a])

/-- `async_subscribe_client_topic(a, topic, False)` -/
def subDel (t : Option (List Addr)) (a : Addr) : Option (List Addr) :=
  match t with
  | none => none
  | some l =>
    let l' := l.filter (fun b => b ≠ a)
    if l' = [] then none else some l'

/-- the effect of `AccessoryDriver.connection_lost(a)` on one topic -/
def lostDel (t : Option (List Addr)) (a : Addr) : Option (List Addr) :=
  if memT t a then subDel t a else t

/-! ### protocol-object operations -/

/-- `HAPServerProtocol.close()` as far as the object itself is concerned -/
def closeO (c : Cfg) (o : Obj) : Obj :=
  if c.fix13 then
    { o with closing := true, timer := none, queue := [], since := fun _ => false }
  else
    { o with closing := true, since := fun _ => false }

def closeOuts (p : ObjId) (t : Nat) : List Out := [Out.eof p t, Out.closed p t]

/-- `close()` of object `p`: registry entry deleted *by peername*, eof, transport.close() -/
def closeP (c : Cfg) (s : St) (p : ObjId) : St × List Out :=
  let o := s.obj p
  ({ s with obj := upd s.obj p (closeO c o), reg := upd s.reg o.addr none }, closeOuts p s.now)

/-- `queue_event(data, immediate)` -/
def enqueue (o : Obj) (x : Cid) (v : Val) (imm : Bool) (src : Option Addr) (now : Nat) : Obj :=
  { o with
    queue := aset o.queue x v
    qsrc := upd o.qsrc x src
    soon := if imm then o.soon + 1 else o.soon
    timer := if imm then o.timer else (if o.timer.isSome then o.timer else some (now + WINDOW)) }

/-- `_send_events()` -/
def sendEvents (s : St) (p : ObjId) : St × List Out :=
  let o := s.obj p
  if o.queue = [] then ({ s with obj := upd s.obj p { o with timer := none } }, [])
  else
    let entries := o.queue.filter (fun e => memT (s.topics e.1) o.addr)
    if entries = [] then
      ({ s with obj := upd s.obj p { o with timer := none, queue := [] } }, [])
    else
      let o' : Obj :=
        { o with timer := none, queue := [], last := s.now,
                 learned := fun x => match aget entries x with
                                     | some v => some v
                                     | none => o.learned x }
      ({ s with obj := upd s.obj p o' },
       [Out.event p s.now entries])

/-- `HAPServerProtocol.write(response)` by `p` -/
def respond (s : St) (p : ObjId) (code : Nat) (b : Body) : St × List Out :=
  ({ s with obj := upd s.obj p { s.obj p with last := s.now } }, [Out.resp p s.now code b])

/-! ### the driver side -/

/-- what `async_send_event` does to protocol object `q` (it is reached through the registry entry of
    a subscribed address other than the sender's); ghost: `since` is set for every registered
    subscriber, the sender included -/
def pubObj (c : Cfg) (s : St) (x : Cid) (v : Val) (sender : Option Addr) (subs : List Addr) (q : ObjId) : Obj :=
  let o := s.obj q
  if s.reg o.addr = some q ∧ o.addr ∈ subs then
    if some o.addr = sender then { o with since := upd o.since x true }
    else { (enqueue o x v (c.imm x) sender s.now) with since := upd o.since x true }
  else o

/-- the subscriber set of the topic after `async_send_event` pruned the addresses without a
    registry entry (`push_event` returned False); the sender is skipped before the push -/
def pubTopic (s : St) (sender : Option Addr) (subs : List Addr) : Option (List Addr) :=
  let unsubs := subs.filter (fun a => some a ≠ sender ∧ s.reg a = none)
  let keep := subs.filter (fun a => ¬ (some a ≠ sender ∧ s.reg a = none))
  if unsubs = [] then some subs else (if keep = [] then none else some keep)

/-- `Characteristic.notify → Accessory.publish → AccessoryDriver.publish → async_send_event`
    for a change of `x` to `v` caused by `sender` (closed form of the subscriber loop). -/
def publish (c : Cfg) (s : St) (x : Cid) (v : Val) (sender : Option Addr) : St :=
  match s.topics x with
  | none => s
  | some subs =>
    if s.stopped then s else
    { s with
      obj := pubObj c s x v sender subs
      topics := upd s.topics x (pubTopic s sender subs) }

/-- `HAPServer.discard_stale_event(aid, iid, char.value, client_addr)` (C12 repair) -/
def discardStale (c : Cfg) (s : St) (a : Addr) (x : Cid) : St :=
  if c.fix12 then
    match s.reg a with
    | none => s
    | some q =>
      let o := s.obj q
      match aget o.queue x with
      | none => s
      | some w => if some w ≠ s.value x then { s with obj := upd s.obj q { o with queue := adel o.queue x } } else s
  else s

/-- value assignment + change detection + `notify` + always-null reset, common to
    `Characteristic.set_value(v)` (sender = none) and `client_update_value(v, sender)`
    (no setter callback installed) -/
def writeVal (c : Cfg) (s : St) (x : Cid) (v : Val) (sender : Option Addr) : St :=
  let changed := s.value x ≠ some v
  let s1 := { s with value := upd s.value x (some v) }
  let s2 := if changed then publish c s1 x v sender else s1
  if c.nul x then { s2 with value := upd s2.value x none } else s2

/-- the state in which callbacks and `notify` run: the new value is already stored -/
def setVal (s : St) (x : Cid) (v : Val) : St := { s with value := upd s.value x (some v) }

/-- `self.setter_callback(value)`: the application's reaction, each a `set_value` on the loop thread -/
def runCallback (c : Cfg) (s : St) (x : Cid) (v : Val) : St :=
  match c.cb x with
  | .none => s
  | .echo => writeVal c s x v none
  | .setTo v2 => writeVal c s x v2 none
  | .setOther y w => writeVal c s y w none
  | .raise => s   -- not reached: a raising callback is dealt with in `putChars` (`failVal`)

/-- `Characteristic.client_update_value(v, sender)` in statement order: `previous_value`, assign,
    callback, `changed = self._value != previous_value`, `notify(sender)` iff changed (it publishes
    `self.value` as it is by then), always-null reset -/
def clientUpdate (c : Cfg) (s : St) (x : Cid) (v : Val) (sender : Option Addr) : St :=
  let prev := s.value x
  let s2 := runCallback c (setVal s x v) x v
  let s3 := match s2.value x with
    | some u => if s2.value x ≠ prev then publish c s2 x u sender else s2
    | none => s2
  if c.nul x then { s3 with value := upd s3.value x none } else s3

/-- `Characteristic.set_value(v)` from the application -/
def appSet (c : Cfg) (s : St) (x : Cid) (v : Val) : St := writeVal c s x v none

/-- `HAPServer.discard_event(aid, iid, client_addr)` (repair: a client that unsubscribes loses
    what is still queued for that characteristic) -/
def dropEvent (c : Cfg) (s : St) (a : Addr) (x : Cid) : St :=
  if c.fixResub then
    match s.reg a with
    | none => s
    | some q => { s with obj := upd s.obj q { s.obj q with queue := adel (s.obj q).queue x } }
  else s

/-- `async_subscribe_client_topic(a, topic, False)` for the requesting connection
    (ghost: `since` ends with an unsubscription) -/
def unsubSt (s : St) (p : ObjId) (x : Cid) : St :=
  { s with topics := upd s.topics x (subDel (s.topics x) (s.obj p).addr)
           obj := upd s.obj p { s.obj p with since := upd (s.obj p).since x false } }

/-- `Characteristic.set_value(v)` on a worker thread: `changed` test and assignment happen at once,
    `AccessoryDriver.publish` tests `topic not in self.topics` on the worker thread and defers
    `async_send_event` with the captured value through `call_soon_threadsafe` -/
def appSetWorker (c : Cfg) (s : St) (x : Cid) (v : Val) : St :=
  let changed := s.value x ≠ some v
  let s1 := { s with value := upd s.value x (if c.nul x then none else some v) }
  if changed ∧ (s.topics x).isSome then { s1 with handoffs := s.handoffs ++ [(x, v)] } else s1

/-- the deferred `async_send_event` (originator none; immediate flag of the characteristic type) -/
def handOff (c : Cfg) (s : St) : St :=
  match s.handoffs with
  | [] => s
  | (x, v) :: rest =>
    -- `_async_send_deferred_event`: overtaken by a newer change (which publishes itself) -> dropped;
    -- characteristics that hold no value (always-null: every event is an occurrence) are never dropped
    if c.fixHand ∧ s.value x ≠ none ∧ s.value x ≠ some v then { s with handoffs := rest }
    else publish c { s with handoffs := rest } x v none

/-- `_notify`: the `ev` member of a write query -/
def putSub (c : Cfg) (s : St) (p : ObjId) (x : Cid) (ev : Option Bool) : St :=
  let a := (s.obj p).addr
  match ev with
  | none => s
  | some true => { s with topics := upd s.topics x (subAdd (s.topics x) a) }
  | some false =>
    dropEvent c (unsubSt s p x) a x

/-- the `value` member of a write query: `client_update_value`, then the stale-entry discard;
    ghost: the writer has learned `v` from its own acknowledged write -/
def putVal (c : Cfg) (s : St) (p : ObjId) (x : Cid) (v : Val) : St :=
  let a := (s.obj p).addr
  let s5 := discardStale c (clientUpdate c s x v (some a)) a x
  { s5 with obj := upd s5.obj p { s5.obj p with learned := upd (s5.obj p).learned x (some v) } }

/-- the setter callback of `x` raises -/
def cbFails (c : Cfg) (x : Cid) : Bool :=
  match c.cb x with
  | .raise => true
  | _ => false

/-- a `value` member whose setter callback raises: `client_update_value` has assigned the value and
    the exception skips `notify` and the always-null reset; `_wrap_char_setter` turns it into status
    -70402, so there is no stale-entry discard and the writer has no acknowledged write. With the
    repair (`fixRaise`) the previous value is restored before the exception propagates. -/
def failVal (c : Cfg) (s : St) (x : Cid) (v : Val) : St :=
  if c.fixRaise then s else setVal s x v

/-- `AccessoryDriver.set_characteristics` for one query from a verified connection -/
def putChars (c : Cfg) (s : St) (p : ObjId) (x : Cid) (ev : Option Bool) (val : Option Val) : St :=
  let s1 := putSub c s p x ev
  match val with
  | none => s1
  | some v => if cbFails c x then failVal c s1 x v else putVal c s1 p x v

/-- the per-characteristic statuses of a write request (queries without a `value` member are not
    answered) -/
def putStatus (c : Cfg) (qs : List (Cid × Option Bool × Option Val)) : List (Cid × Int) :=
  qs.filterMap (fun q => match q.2.2 with
                         | some _ => some (q.1, if cbFails c q.1 then (-70402 : Int) else 0)
                         | none => none)

def putFailed (c : Cfg) (qs : List (Cid × Option Bool × Option Val)) : Bool :=
  (putStatus c qs).any (fun e => e.2 ≠ 0)

/-- 204 when every written characteristic succeeded, else 207 Multi-Status -/
def putCode (c : Cfg) (qs : List (Cid × Option Bool × Option Val)) : Nat := if putFailed c qs then 207 else 204

def putBody (c : Cfg) (qs : List (Cid × Option Bool × Option Val)) : Body :=
  if putFailed c qs then Body.multi (putStatus c qs) else Body.none

/-- `AccessoryDriver.prepare` -/
def addPid (l : Option (List Pid)) (pid : Pid) : Option (List Pid) :=
  match l with
  | none => some [pid]
  | some l => if pid ∈ l then some l else some (l ++ [pid])

/-- `self.last_activity = time.time()` at the top of `data_received` -/
def touch (s : St) (p : ObjId) : St := { s with obj := upd s.obj p { s.obj p with last := s.now } }

/-- a `PUT /characteristics` request: 401 when the session is not verified, else the write and 204;
    with `Connection: close` h11 is in MUST_CLOSE after the response: `finish_and_close()` -/
def onPut (c : Cfg) (s : St) (p : ObjId) (x : Cid) (ev : Option Bool) (val : Option Val) (cl : Bool) :
    St × List Out :=
  let r := if (s.obj p).verified then respond (putChars c s p x ev val) p (putCode c [(x, ev, val)]) (putBody c [(x, ev, val)])
           else respond s p 401 Body.none
  if cl then ((closeP c r.1 p).1, r.2 ++ (closeP c r.1 p).2) else r

/-- `set_characteristics` for a list of queries: every `ev` member first (`_notify`), then the
    `value` members in request order (each: `client_update_value`, `discard_stale_event`) -/
def putAll (c : Cfg) (s : St) (p : ObjId) (qs : List (Cid × Option Bool × Option Val)) : St :=
  let s1 := qs.foldl (fun t q => putChars c t p q.1 q.2.1 none) s
  qs.foldl (fun t q => match q.2.2 with
                       | none => t
                       | some v => putChars c t p q.1 none (some v)) s1

def onPutMany (c : Cfg) (s : St) (p : ObjId) (qs : List (Cid × Option Bool × Option Val)) (cl : Bool) :
    St × List Out :=
  let r := if (s.obj p).verified then respond (putAll c s p qs) p (putCode c qs) (putBody c qs)
           else respond s p 401 Body.none
  if cl then ((closeP c r.1 p).1, r.2 ++ (closeP c r.1 p).2) else r

/-- dispatch of one complete request on a connection whose transport is open -/
def onReq (c : Cfg) (s : St) (p : ObjId) (r : Req) : St × List Out :=
  if (s.obj p).pending then
    -- h11 is PAUSED until the delayed response is sent; `start_next_cycle` raises
    -- LocalProtocolError → `_handle_invalid_conn_state` → close()
    closeP c s p
  else
  match r with
  | .badHttp => closeP c s p
  | .badFrame => closeP c s p
  | .put x ev val cl => onPut c s p x ev val cl
  | .putMany qs cl => onPutMany c s p qs cl
  | .get x =>
    if (s.obj p).verified then respond s p 200 (Body.value (s.value x))
    else respond s p 401 (Body.status (-70401))
  | .prepare pid =>
    if (s.obj p).verified then
      respond { s with prepared := upd s.prepared (s.obj p).addr (addPid (s.prepared (s.obj p).addr) pid) }
        p 200 (Body.status 0)
    else respond s p 401 Body.none
  | .snapshot =>
    -- handle_resource: UnprivilegedRequestException → 401 {"status": -70401} unless verified;
    -- otherwise the response is delayed until the snapshot task finishes
    if (s.obj p).verified then ({ s with obj := upd s.obj p { s.obj p with pending := true } }, [])
    else respond s p 401 (Body.status (-70401))

/-- `data_received` with one complete request, on a connection whose transport is open. -/
def onData (c : Cfg) (s : St) (p : ObjId) (r : Req) : St × List Out := onReq c (touch s p) p r

/-- objects that are in the registry under their own address -/
def registered (s : St) (q : ObjId) : Prop := s.reg (s.obj q).addr = some q

instance (s : St) (q : ObjId) : Decidable (registered s q) := by unfold registered; infer_instance

/-- `check_idle(now)` would close `q` -/
def idleDue (s : St) (q : ObjId) : Prop := registered s q ∧ (s.obj q).last + IDLE < s.now

instance (s : St) (q : ObjId) : Decidable (idleDue s q) := by unfold idleDue; infer_instance

/-- `AccessoryDriver.connection_lost(a)`: unsubscribe `a` everywhere, pop its prepared writes -/
def dropConn (s : St) (a : Addr) : St :=
  { s with topics := fun x => lostDel (s.topics x) a, prepared := upd s.prepared a none }

/-- `connection_lost` has been processed for `p` -/
def markLost (s : St) (p : ObjId) : St := { s with obj := upd s.obj p { s.obj p with lost := true } }

def step (c : Cfg) (s : St) : Ev → St × List Out
  | .tick dt => ({ s with now := s.now + dt }, [])
  | .connect a =>
    if s.stopped then (s, []) else
    ({ s with nobj := s.nobj + 1
              obj := upd s.obj s.nobj { addr := a, last := s.now }
              reg := upd s.reg a (some s.nobj) }, [])
  | .verify p =>
    if p < s.nobj then ({ s with obj := upd s.obj p { s.obj p with verified := true } }, []) else (s, [])
  | .data p r =>
    if p < s.nobj ∧ (s.obj p).closing = false then onData c s p r else (s, [])
  | .appSet x v => (appSet c s x v, [])
  | .appSetWorker x v => (appSetWorker c s x v, [])
  | .handOff => (handOff c s, [])
  | .timerFire p =>
    if p < s.nobj ∧ (s.obj p).timer.isSome then sendEvents s p else (s, [])
  | .soonFlush p =>
    if p < s.nobj ∧ 0 < (s.obj p).soon then
      sendEvents { s with obj := upd s.obj p { s.obj p with soon := (s.obj p).soon - 1 } } p
    else (s, [])
  | .respReady p ok =>
    if p < s.nobj ∧ (s.obj p).pending then
      let s1 := { s with obj := upd s.obj p { s.obj p with pending := false } }
      if (s1.obj p).closing then (s1, [])
      else if ok then respond s1 p 200 Body.image
      else respond s1 p 500 (Body.status (-70402))
    else (s, [])
  | .lose p =>
    if p < s.nobj ∧ (s.obj p).lost = false then
      (markLost (closeP c (dropConn s (s.obj p).addr) p).1 p, (closeP c (dropConn s (s.obj p).addr) p).2)
    else (s, [])
  | .idleSweep =>
    ({ s with
        obj := fun q => if q < s.nobj ∧ idleDue s q then closeO c (s.obj q) else s.obj q
        reg := fun a => match s.reg a with
                        | some q => if idleDue s q then none else some q
                        | none => none },
     ((List.range s.nobj).filter (fun q => idleDue s q)).flatMap (fun q => closeOuts q s.now))
  | .stop =>
    ({ s with
        stopped := true
        obj := fun q => if q < s.nobj ∧ registered s q then closeO c (s.obj q) else s.obj q
        reg := fun _ => none },
     ((List.range s.nobj).filter (fun q => registered s q)).flatMap (fun q => closeOuts q s.now))

/-- run a trace, collecting outputs in chronological order -/
def run (c : Cfg) : St → List Ev → St × List Out
  | s, [] => (s, [])
  | s, e :: es => ((run c (step c s e).1 es).1, (step c s e).2 ++ (run c (step c s e).1 es).2)

/-- initial state: no connection; always-null characteristics hold null, the others their default -/
def init (c : Cfg) : St := { value := fun x => if c.nul x then none else some 0 }

/-- a flush is pending on `p` -/
def pendingFlush (s : St) (p : ObjId) : Prop := (s.obj p).timer.isSome ∨ 0 < (s.obj p).soon

/-- `a` is in the subscriber set of `x` -/
def subscribed (s : St) (x : Cid) (a : Addr) : Prop := memT (s.topics x) a = true

/-- all protocol objects with peer address `a` have had their loss processed -/
def allLost (s : St) (a : Addr) : Prop := ∀ p, p < s.nobj → (s.obj p).addr = a → (s.obj p).lost = true

/-- **Address-reuse hypothesis** (stated in C12/C13): a connection from address `a` is accepted only
    when the loss of every earlier connection from `a` has been processed (TCP 4-tuple uniqueness). -/
def ReuseOK (c : Cfg) : St → List Ev → Prop
  | _, [] => True
  | s, e :: es =>
    (match e with
     | .connect a => allLost s a
     | _ => True) ∧ ReuseOK c (step c s e).1 es

end Hap.Sys
