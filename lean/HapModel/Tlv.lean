/-
  Model of pyhap/tlv.py (`encode`, `decode`).  Tags are single bytes, as every caller
  in pyhap passes them.
-/
import HapModel.Bytes
namespace Hap.Tlv
open Hap

abbrev Items := List (UInt8 × Bytes)

/-- fragment size; kept behind a `def` (large literals upset `simp`) -/
def FRAG : Nat := 255

/-- `for y in range(0, n): encoded += tag + b"\xff" + data[y*255:(y+1)*255]`, `k` iterations left. -/
def fullLoop (tag : UInt8) (data : Bytes) (n : Nat) : Nat → Bytes → Bytes
  | 0, acc => acc
  | k+1, acc =>
    let y := n - (k+1)
    fullLoop tag data n k (acc ++ tag :: UInt8.ofNat FRAG :: ((data.drop (y*FRAG)).take FRAG))

/-- `tlv.encode` for one `(tag, value)` pair — the code as it is now
    (remainder fragment emitted only when `remaining` is non-zero). -/
def encodeItem (tag : UInt8) (data : Bytes) : Bytes :=
  if data.length ≤ FRAG then tag :: UInt8.ofNat data.length :: data
  else
    let n := data.length / FRAG
    let r := data.length % FRAG
    fullLoop tag data n n [] ++ (if r = 0 then [] else tag :: UInt8.ofNat r :: pyLast data r)

/-- The encoder before the repair: the remainder fragment is emitted unconditionally and
    `data[-0:]` is the whole value. Kept only for the counterexample theorem. -/
def encodeItemLegacy (tag : UInt8) (data : Bytes) : Bytes :=
  if data.length ≤ FRAG then tag :: UInt8.ofNat data.length :: data
  else
    let n := data.length / FRAG
    let r := data.length % FRAG
    fullLoop tag data n n [] ++ (tag :: UInt8.ofNat r :: pyLast data r)

def encode : Items → Bytes
  | [] => []
  | (t, v) :: rest => encodeItem t v ++ encode rest

def encodeLegacy : Items → Bytes
  | [] => []
  | (t, v) :: rest => encodeItemLegacy t v ++ encodeLegacy rest

/-- dict update of `decode`: append to an existing key, else insert at the end
    (Python dicts keep insertion order). -/
def upsert : Items → UInt8 → Bytes → Items
  | [], t, v => [(t, v)]
  | (t', v') :: rest, t, v => if t' = t then (t', v' ++ v) :: rest else (t', v') :: upsert rest t v

/-- `tlv.decode`; `none` = IndexError on a lone trailing byte. A value that is cut short by
    the end of input is silently truncated, as in the code. -/
def decode (data : Bytes) (acc : Items) : Option Items :=
  match data with
  | [] => some acc
  | [_] => none
  | tag :: len :: rest => decode (rest.drop len.toNat) (upsert acc tag (rest.take len.toNat))
termination_by data.length
decreasing_by simp [List.length_drop]; omega

/-- what a dict-producing decoder must return for a list of items -/
def merge : Items → Items → Items
  | acc, [] => acc
  | acc, (t, v) :: rest => merge (upsert acc t v) rest

/-! ### Independent specification encoder (TLV8 rule, written from the spec) -/

/-- split into chunks of `n` (> 0) bytes; the empty list has no chunks -/
def chunks (n : Nat) (l : Bytes) : List Bytes :=
  if h : n = 0 ∨ l = [] then [] else l.take n :: chunks n (l.drop n)
termination_by l.length
decreasing_by
  have h1 : n ≠ 0 := fun e => h (Or.inl e)
  have h2 : l ≠ [] := fun e => h (Or.inr e)
  have : 0 < l.length := List.length_pos_iff.mpr h2
  simp [List.length_drop]; omega

/-- TLV8: an empty value is one empty fragment; otherwise one fragment per 255-byte chunk. -/
def specEncodeItem (tag : UInt8) (v : Bytes) : Bytes :=
  if v = [] then [tag, 0]
  else (chunks FRAG v).flatMap fun c => tag :: UInt8.ofNat c.length :: c

def specEncode : Items → Bytes
  | [] => []
  | (t, v) :: rest => specEncodeItem t v ++ specEncode rest

end Hap.Tlv
