/-
  Model of the controller write path of pyhap (C10):
    accessory_driver._wrap_char_setter / _wrap_service_setter / _wrap_acc_setter,
    AccessoryDriver.set_characteristics, AccessoryDriver.prepare,
    AccessoryDriver.connection_lost (the `prepared_writes.pop`),
    HAPServerHandler.handle_set_characteristics / handle_prepare (status selection on a
    verified session).

  The model mirrors the REPAIRED `set_characteristics`: design/fixes/C10.patch (no setter and no
  callback collection when `expired`; flag `fixed`) and design/fixes/C10b.patch (after a successful
  setter the service / accessory callbacks are handed the normalised value; flag `nu`).
  `fixed := false` / `nu := false` give the code as shipped and are used only by the
  counterexample theorems.

  Parameters (behaviour of objects outside this function, supplied per request):
    * `Query.valid`  – what `Characteristic.to_valid_value` + `valid_value_or_raise` do with the
                       request value: `none` = raise, `some n` = the normalised value `n`;
    * `Query.cb`     – the characteristic's `setter_callback`: absent / returns r / raises;
    * `Behav`        – whether a service's / an accessory's `setter_callback` raises;
    * `Topo`         – the attribute database: service of a characteristic, which services and
                       accessories carry a `setter_callback`.
  Values are opaque (`Val`, a canonical rendering of the Python value); only `is None` matters.
  A batch is an arbitrary list of entries: the same (aid, iid) may occur several times (the dict
  stores `results[aid][iid] = …`, `updates[acc][service][char] = …` then overwrite in place: `upsert`),
  and an entry may name something that is not a characteristic of the bridge (`Topo.known`; mirrors
  the repaired code, design/fixes/C10-nonexistent-characteristic.patch: the entry alone is answered
  RESOURCE_DOES_NOT_EXIST; as shipped the whole request was aborted by an AttributeError).
  `_notify` (the 'ev' flags) is C12's business and not modelled: it reads only the 'ev' key and
  touches only subscriptions.
  Python dicts that keep insertion order (`results[aid][iid]`,
  `updates_by_accessories_services[acc][service][char]`) are modelled by an association list
  with in-place overwrite (`upsert`) plus `firsts` (keys in first-insertion order) and `filter`
  (the group of a key).
  No Mathlib import: this file is loaded by the line-protocol driver.
-/
namespace Hap.Writes

abbrev Val := String
abbrev Conn := Nat
abbrev Pid := Int

structure CharId where
  aid : Nat
  iid : Nat
deriving DecidableEq, Repr

/-- HAP_SERVER_STATUS.SUCCESS -/
def OK : Int := 0
/-- HAP_SERVER_STATUS.SERVICE_COMMUNICATION_FAILURE -/
def FAIL : Int := -70402
/-- HAP_SERVER_STATUS.INVALID_VALUE_IN_REQUEST -/
def INVALID : Int := -70410
/-- HAP_SERVER_STATUS.RESOURCE_DOES_NOT_EXIST -/
def NOEXIST : Int := -70409

structure Topo where
  /-- index (within its accessory) of the service that holds the characteristic -/
  svc : CharId → Nat
  /-- `service.setter_callback` is set, for service `s` of accessory `a` -/
  svcCb : Nat → Nat → Bool
  /-- `acc.setter_callback` is set -/
  accCb : Nat → Bool
  /-- `acc.get_characteristic(aid, iid)` finds a characteristic (the accessory exists and the
      iid is that of a characteristic, not of a service) -/
  known : CharId → Bool := fun _ => true

inductive CharCb where
  | absent
  | returns (r : Option Val)
  | raises
deriving DecidableEq, Repr

/-- One element of `chars_query["characteristics"]` together with the behaviour of the addressed
    characteristic on it. -/
structure Query where
  id : CharId
  /-- the key "value" is present -/
  hasValue : Bool
  /-- `query.get("value")` (`none` = JSON null; ignored when the key is absent) -/
  value : Option Val
  /-- `query.get("r", False)` -/
  wr : Bool
  valid : Option Val
  cb : CharCb
  /-- the characteristic's type is in ALWAYS_NULL (an event type such as ProgrammableSwitchEvent):
      `client_update_value` ends with `self.value = None` -/
  nulls : Bool := false
deriving Repr

structure Behav where
  svcRaises : Nat → Nat → Bool
  accRaises : Nat → Bool

abbrev Upd := CharId × Option Val

/-- A recorded callback invocation. -/
inductive Ev where
  /-- `char.setter_callback(v)` -/
  | char (c : CharId) (v : Val)
  /-- `service.setter_callback({char.display_name: value, ...})` for service `s` of accessory `a` -/
  | svc (a s : Nat) (args : List Upd)
  /-- `acc.setter_callback({service: {char: value, ...}, ...})` -/
  | acc (a : Nat) (args : List (Nat × List Upd))
deriving DecidableEq, Repr

structure Res where
  status : Int
  /-- write-response value, present only if requested and returned -/
  value : Option Val
deriving DecidableEq, Repr

/-- characteristic values and the callback log -/
structure CharSt where
  vals : CharId → Val
  log : List Ev

/-- rendering of Python `None` as a characteristic value -/
def NULLV : Val := "null"

/-- the value the characteristic holds when `client_update_value` is over: the normalised value, or
    `None` for an ALWAYS_NULL type whose callback did not raise (`if self._always_null: self.value = None`
    is the last statement; an exception from the callback skips it) -/
def kept (q : Query) (n : Val) : Val := if q.nulls && q.cb != CharCb.raises then NULLV else n

/-- `Characteristic.client_update_value(value, client_addr)`; second component `none` = raised.
    (`notify` is C12's.) -/
def clientUpdate (q : Query) (st : CharSt) : CharSt × Option (Option Val) :=
  match q.valid with
  | none => (st, none)                       -- to_valid_value / valid_value_or_raise raised
  | some n =>
    -- self.value = value ... (callback) ... if self._always_null: self.value = None
    let st1 : CharSt := { st with vals := fun c => if c = q.id then kept q n else st.vals c }
    match q.cb with
    | .absent => (st1, some none)
    | .returns r => ({ st1 with log := st1.log ++ [Ev.char q.id n] }, some r)
    | .raises => ({ st1 with log := st1.log ++ [Ev.char q.id n] }, none)

/-- `_wrap_char_setter` -/
def wrapCharSetter (q : Query) (st : CharSt) : CharSt × Int × Option Val :=
  match clientUpdate q st with
  | (st', none) => (st', FAIL, none)
  | (st', some r) => (st', OK, r)

structure L1 where
  st : CharSt
  /-- `results[aid][iid] = result`, in insertion order -/
  results : List (CharId × Res)
  /-- `updates_by_accessories_services[acc][service][char] = value`, in insertion order -/
  updates : List Upd

/-- `d[k] = v` on an insertion-ordered dict: overwrite in place, or append a new key -/
def upsert {κ α : Type} [DecidableEq κ] (k : κ) (v : α) : List (κ × α) → List (κ × α)
  | [] => [(k, v)]
  | (k', v') :: t => if k' = k then (k, v) :: t else (k', v') :: upsert k v t

/-- body of `for query in queries:` -/
def step1 (fixed nu expired : Bool) (T : Topo) (s : L1) (q : Query) : L1 :=
  if !q.hasValue && !expired then s else                         -- continue
  if !T.known q.id then                                          -- not a characteristic: this entry alone fails
    { s with results := upsert q.id ⟨NOEXIST, none⟩ s.results } else
  let value : Option Val := if q.hasValue then q.value else none -- query.get("value")
  let run : Bool := value.isSome && (!fixed || !expired)         -- `value is not None [and not expired]`
  let r : CharSt × Int × Option Val :=
    if run then wrapCharSetter q s.st else (s.st, INVALID, none)
  let res : Res := if r.2.2.isSome && q.wr then ⟨r.2.1, r.2.2⟩ else ⟨r.2.1, none⟩
  -- `if set_result == SUCCESS: value = char.to_valid_value(value)` (C10b)
  let up : Option Val := if nu && run && r.2.1 == OK then q.valid else value
  let results := upsert q.id res s.results                       -- results[aid][iid] = result
  if fixed && expired then { st := r.1, results := results, updates := s.updates }  -- continue
  else { st := r.1, results := results, updates := upsert q.id up s.updates }

def loop1 (fixed nu expired : Bool) (T : Topo) : L1 → List Query → L1
  | s, [] => s
  | s, q :: qs => loop1 fixed nu expired T (step1 fixed nu expired T s q) qs

/-- keys of an insertion-ordered dict: first occurrences, in order -/
def firsts {κ : Type} [DecidableEq κ] : List κ → List κ
  | [] => []
  | k :: t => k :: (firsts t).filter (fun x => x ≠ k)

/-- Python `a or b` on `Optional[int]` (0 and None are falsy) -/
def pyOr (a b : Option Int) : Option Int :=
  match a with
  | some x => if x ≠ 0 then some x else b
  | none => b

/-- `updates_by_service[service]` of accessory `a` -/
def svcGroup (T : Topo) (ups : List Upd) (a s : Nat) : List Upd :=
  ups.filter (fun u => u.1.aid = a ∧ T.svc u.1 = s)

/-- keys of `updates_by_accessories_services[acc]` -/
def svcsOf (T : Topo) (ups : List Upd) (a : Nat) : List Nat :=
  firsts ((ups.filter (fun u => u.1.aid = a)).map (fun u => T.svc u.1))

/-- keys of `updates_by_accessories_services` -/
def accsOf (ups : List Upd) : List Nat := firsts (ups.map (fun u => u.1.aid))

/-- `for char in chars: aid_results[char_to_iid[char]]["status"] = set_result` -/
def setStatus (ids : List CharId) (r : Int) (results : List (CharId × Res)) : List (CharId × Res) :=
  results.map (fun cr => if cr.1 ∈ ids then (cr.1, { cr.2 with status := r }) else cr)

def cbResult (raises : Bool) : Int := if raises then FAIL else OK

/-- body of `for service, chars in updates_by_service.items():` -/
def pass2Svc (T : Topo) (B : Behav) (ups : List Upd) (a : Nat) (accRes : Option Int)
    (acc : List (CharId × Res) × List Ev) (s : Nat) : List (CharId × Res) × List Ev :=
  let chars := svcGroup T ups a s
  let svcRes : Option Int := if T.svcCb a s then some (cbResult (B.svcRaises a s)) else none
  let log := if T.svcCb a s then acc.2 ++ [Ev.svc a s chars] else acc.2
  match pyOr svcRes accRes with
  | none => (acc.1, log)
  | some x => if x = 0 then (acc.1, log) else (setStatus (chars.map (·.1)) x acc.1, log)

def pass2Svcs (T : Topo) (B : Behav) (ups : List Upd) (a : Nat) (accRes : Option Int) :
    List (CharId × Res) × List Ev → List Nat → List (CharId × Res) × List Ev
  | acc, [] => acc
  | acc, s :: ss => pass2Svcs T B ups a accRes (pass2Svc T B ups a accRes acc s) ss

/-- body of `for acc, updates_by_service in updates_by_accessories_services.items():` -/
def pass2Acc (T : Topo) (B : Behav) (ups : List Upd)
    (acc : List (CharId × Res) × List Ev) (a : Nat) : List (CharId × Res) × List Ev :=
  let svcs := svcsOf T ups a
  let accRes : Option Int := if T.accCb a then some (cbResult (B.accRaises a)) else none
  let log := if T.accCb a then acc.2 ++ [Ev.acc a (svcs.map (fun s => (s, svcGroup T ups a s)))] else acc.2
  pass2Svcs T B ups a accRes (acc.1, log) svcs

def pass2Accs (T : Topo) (B : Behav) (ups : List Upd) :
    List (CharId × Res) × List Ev → List Nat → List (CharId × Res) × List Ev
  | acc, [] => acc
  | acc, a :: as => pass2Accs T B ups (pass2Acc T B ups acc a) as

def pass2 (T : Topo) (B : Behav) (ups : List Upd) (results : List (CharId × Res)) (log : List Ev) :
    List (CharId × Res) × List Ev :=
  pass2Accs T B ups (results, log) (accsOf ups)

/-- `for aid, iid_results in results.items(): for iid, result in iid_results.items():` -/
def assemble (results : List (CharId × Res)) : List (CharId × Res) :=
  (firsts (results.map (fun cr => cr.1.aid))).flatMap (fun a => results.filter (fun cr => cr.1.aid = a))

/-- `nonempty_results_exist` -/
def nonempty (chars : List (CharId × Res)) : Bool :=
  chars.any (fun cr => cr.2.status ≠ OK || cr.2.value.isSome)

structure WriteOut where
  vals : CharId → Val
  log : List Ev
  /-- the "characteristics" list that was assembled -/
  chars : List (CharId × Res)
  /-- return value of `set_characteristics`: `none` = None -/
  body : Option (List (CharId × Res))

/-- `set_characteristics` after the pid / expiry block. -/
def setChars (fixed nu : Bool) (T : Topo) (B : Behav) (expired : Bool) (vals : CharId → Val)
    (queries : List Query) : WriteOut :=
  let l1 := loop1 fixed nu expired T ⟨⟨vals, []⟩, [], []⟩ queries
  let p2 := pass2 T B l1.updates l1.results l1.st.log
  let chars := assemble p2.1
  { vals := l1.st.vals, log := p2.2, chars := chars,
    body := if nonempty chars then some chars else none }

/-! ### the driver state across requests -/

structure State where
  /-- virtual clock, milliseconds -/
  now : Nat
  /-- `prepared_writes[conn][pid]` = expiry (ms) -/
  prep : Conn → Pid → Option Nat
  vals : CharId → Val

structure Batch where
  pid : Option Pid
  queries : List Query
  behav : Behav

/-- the pid block: `expire_time = prepared_writes.get(conn, {}).pop(pid, None)`;
    `expired = expire_time is None or time.time() > expire_time` -/
def popPid (s : State) (c : Conn) : Option Pid → Bool × (Conn → Pid → Option Nat)
  | none => (false, s.prep)
  | some p =>
    let expired := match s.prep c p with
      | none => true
      | some e => decide (s.now > e)
    (expired, fun c' p' => if c' = c ∧ p' = p then none else s.prep c' p')

/-- `AccessoryDriver.set_characteristics(chars_query, client_addr)` -/
def write (fixed nu : Bool) (T : Topo) (s : State) (c : Conn) (b : Batch) : State × WriteOut :=
  let pp := popPid s c b.pid
  let out := setChars fixed nu T b.behav pp.1 s.vals b.queries
  ({ s with prep := pp.2, vals := out.vals }, out)

/-- `AccessoryDriver.prepare(prepare_query, client_addr)`: a missing key is a KeyError, answered
    with INVALID_VALUE_IN_REQUEST; otherwise the expiry `time.time() + ttl/1000` is recorded. -/
def prepare (s : State) (c : Conn) (ttl : Option Nat) (pid : Option Pid) : State × Int :=
  match ttl, pid with
  | some t, some p =>
    ({ s with prep := fun c' p' => if c' = c ∧ p' = p then some (s.now + t) else s.prep c' p' }, OK)
  | _, _ => (s, INVALID)

/-- The connection with peer address `c` ends: `AccessoryDriver.connection_lost` does
    `self.prepared_writes.pop(client, None)`. It is reached from `HAPServerProtocol.connection_lost`
    both when the peer goes away and — on the loop turn after `HAPServerProtocol.close()` — when the
    server itself closed the connection (Connection: close / HTTP/1.0 request, undecryptable frame,
    idle sweep). `prepared_writes` is keyed by the peer address, so whatever is issued under `c`
    afterwards is a new connection from the same address and port. -/
def lose (s : State) (c : Conn) : State :=
  { s with prep := fun c' p' => if c' = c then none else s.prep c' p' }

/-- `handle_set_characteristics` on a verified session: 204 NO_CONTENT iff the driver returned None,
    else 207 MULTI_STATUS with the body. -/
def httpOfWrite (o : WriteOut) : Nat := match o.body with | none => 204 | some _ => 207

/-- `handle_prepare` on a verified session always answers 200 with the status object. -/
def httpOfPrepare (_status : Int) : Nat := 200

inductive Op where
  | prepare (c : Conn) (ttl : Option Nat) (pid : Option Pid)
  | advance (dt : Nat)
  | write (c : Conn) (b : Batch)
  | lose (c : Conn)

def step (fixed nu : Bool) (T : Topo) (s : State) : Op → State
  | .prepare c ttl pid => (prepare s c ttl pid).1
  | .advance dt => { s with now := s.now + dt }
  | .write c b => (write fixed nu T s c b).1
  | .lose c => lose s c

/-- State after a history given most-recent-first. -/
def runRev (fixed nu : Bool) (T : Topo) (s0 : State) : List Op → State
  | [] => s0
  | op :: earlier => step fixed nu T (runRev fixed nu T s0 earlier) op

/-- State after a history given in chronological order. -/
def run (fixed nu : Bool) (T : Topo) (s0 : State) (h : List Op) : State := runRev fixed nu T s0 h.reverse

end Hap.Writes
