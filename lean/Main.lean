/-
  Line-protocol driver: one JSON object per input line, one JSON object per output line.
  Run with `lake env lean --run Main.lean` (imports no Mathlib).
-/
import HapModel.Drv.Util
import HapModel.Drv.Tlv
open Lean Hap.Drv

def dispatch (j : Json) : R Json := do
  let layer ← getStr j "layer"
  match layer with
  | "tlv" => Hap.Drv.Tlv.handle j
  | _ => throw s!"unknown layer {layer}"

def answer (line : String) : String :=
  match Json.parse line with
  | .error e => (Json.mkObj [("fatal", Json.str s!"parse: {e}")]).compress
  | .ok j =>
    match dispatch j with
    | .ok r => r.compress
    | .error e => (Json.mkObj [("fatal", Json.str e)]).compress

partial def loop (h : IO.FS.Stream) (out : IO.FS.Stream) : IO Unit := do
  let line ← h.getLine
  if line.isEmpty then return ()
  let t := line.trimAscii.toString
  if t.isEmpty then loop h out else
  out.putStrLn (answer t)
  loop h out

def main : IO Unit := do
  let out ← IO.getStdout
  loop (← IO.getStdin) out
  out.flush
