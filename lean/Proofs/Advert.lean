/-
  Lemmas for the Advert layer (C18): name sanitising, base36, bit packing, config number.
  Core only (no Mathlib).
-/
import HapModel.Advert
namespace Hap.Advert

/-! ## generic list facts -/

theorem getLast?_dropWhile {α : Type} (p : α → Bool) (l : List α) (h : l.dropWhile p ≠ []) :
    (l.dropWhile p).getLast? = l.getLast? := by
  induction l with
  | nil => simp at h
  | cons a t ih =>
    by_cases hp : p a = true
    · simp only [List.dropWhile_cons_of_pos hp] at h ⊢
      have ht : t ≠ [] := by intro e; subst e; simp at h
      rw [ih h]
      cases t with
      | nil => exact absurd rfl ht
      | cons b t' => simp [List.getLast?_cons_cons]
    · simp [List.dropWhile_cons_of_neg hp]

theorem stripBoth_sublist (p : Char → Bool) (s : List Char) : (stripBoth p s).Sublist s := by
  unfold stripBoth
  have h1 : ((s.dropWhile p).reverse.dropWhile p).Sublist (s.dropWhile p).reverse :=
    List.dropWhile_sublist p
  have h2 := List.reverse_sublist.mpr h1
  rw [List.reverse_reverse] at h2
  exact h2.trans (List.dropWhile_sublist p)

/-- after stripping, the last character does not satisfy `p` -/
theorem stripBoth_getLast (p : Char → Bool) (s : List Char) (c : Char)
    (h : (stripBoth p s).getLast? = some c) : p c = false := by
  unfold stripBoth at h
  rw [List.getLast?_reverse] at h
  have := List.head?_dropWhile_not p (s.dropWhile p).reverse
  rw [h] at this
  exact this

/-- after stripping, the first character does not satisfy `p` -/
theorem stripBoth_head (p : Char → Bool) (s : List Char) (c : Char)
    (h : (stripBoth p s).head? = some c) : p c = false := by
  unfold stripBoth at h
  rw [List.head?_reverse] at h
  by_cases hne : (s.dropWhile p).reverse.dropWhile p = []
  · rw [hne] at h; simp at h
  · rw [getLast?_dropWhile p _ hne, List.getLast?_reverse] at h
    have := List.head?_dropWhile_not p s
    rw [h] at this
    exact this

/-! ## character classes -/

theorem okChar_ascii {c : Char} (h : okChar c = true) : c.toNat ≤ 127 := by
  simp only [okChar, Bool.or_eq_true, Bool.and_eq_true, decide_eq_true_eq] at h
  omega

theorem okChar_ne_space {c : Char} (h : okChar c = true) : c ≠ SPACE := by
  intro e; subst e; revert h; decide

theorem okChar_dash : okChar DASH = true := by decide

/-- every character produced by `re.sub(VALID_MDNS_REGEX, " ", s)` is in the class or a space -/
theorem subInvalidAux_chars (b : Bool) (s : List Char) :
    ∀ c ∈ subInvalidAux b s, okChar c = true ∨ c = SPACE := by
  induction s generalizing b with
  | nil => simp [subInvalidAux]
  | cons a t ih =>
    intro c hc
    unfold subInvalidAux at hc
    by_cases ha : okChar a = true
    · simp only [ha, if_true, List.mem_cons] at hc
      rcases hc with rfl | hc
      · exact Or.inl ha
      · exact ih false c hc
    · simp only [ha, Bool.false_eq_true, if_false] at hc
      cases b with
      | true => simp only [if_true] at hc; exact ih true c hc
      | false =>
        simp only [Bool.false_eq_true, if_false, List.mem_cons] at hc
        rcases hc with rfl | hc
        · exact Or.inr rfl
        · exact ih true c hc

theorem subInvalid_chars (s : List Char) : ∀ c ∈ subInvalid s, okChar c = true ∨ c = SPACE :=
  subInvalidAux_chars false s

theorem collapseDashesAux_sublist (b : Bool) (s : List Char) : (collapseDashesAux b s).Sublist s := by
  induction s generalizing b with
  | nil => simp [collapseDashesAux]
  | cons a t ih =>
    unfold collapseDashesAux
    by_cases ha : a = DASH
    · subst ha
      cases b with
      | true => simp only [if_true]; exact (ih true).cons _
      | false => simp only [if_true, Bool.false_eq_true, if_false]; exact (ih true).cons_cons _
    · simp only [ha, if_false]; exact (ih false).cons_cons _

theorem collapseDashes_sublist (s : List Char) : (collapseDashes s).Sublist s :=
  collapseDashesAux_sublist false s

theorem replaceSpaceDash_chars (s : List Char) (h : ∀ c ∈ s, okChar c = true ∨ c = SPACE) :
    ∀ c ∈ replaceSpaceDash s, okChar c = true := by
  intro c hc
  simp only [replaceSpaceDash, List.mem_map] at hc
  obtain ⟨a, ha, rfl⟩ := hc
  by_cases e : a = SPACE
  · simp [e, okChar_dash]
  · simp only [e, if_false]
    rcases h a ha with h | h
    · exact h
    · exact absurd h e

/-- the un-truncated host name consists of class characters only -/
theorem validHostNameLegacy_chars (d : List Char) : ∀ c ∈ validHostNameLegacy d, okChar c = true := by
  intro c hc
  unfold validHostNameLegacy at hc
  have h1 := (collapseDashes_sublist _).mem hc
  have h2 := (stripBoth_sublist _ _).mem h1
  refine replaceSpaceDash_chars _ ?_ c h2
  intro x hx
  exact subInvalid_chars d x ((stripBoth_sublist _ _).mem hx)

theorem validNameLegacy_chars (d : List Char) :
    ∀ c ∈ validNameLegacy d, okChar c = true ∨ c = SPACE := by
  intro c hc
  exact subInvalid_chars d c ((stripBoth_sublist _ _).mem hc)

/-- `str.strip()` strips Unicode white space; on the output of `subInvalid` that is the same as
    stripping ' ', for every white-space predicate that contains ' ' and none of `[A-Za-z0-9-]`. -/
theorem dropWhile_ws_eq (ws : Char → Bool) (hsp : ws SPACE = true)
    (hok : ∀ c, okChar c = true → ws c = false) (s : List Char)
    (h : ∀ c ∈ s, okChar c = true ∨ c = SPACE) : s.dropWhile ws = s.dropWhile isSpace := by
  induction s with
  | nil => rfl
  | cons a t ih =>
    have ht : ∀ c ∈ t, okChar c = true ∨ c = SPACE := fun c hc => h c (List.mem_cons_of_mem _ hc)
    rcases h a (List.mem_cons_self ..) with ha | ha
    · have h1 : ws a = false := hok a ha
      have h2 : isSpace a = false := by simp [isSpace, okChar_ne_space ha]
      simp [h1, h2]
    · subst ha
      have h2 : isSpace SPACE = true := by simp [isSpace]
      simp [hsp, h2, ih ht]

theorem strip_ws_eq (ws : Char → Bool) (hsp : ws SPACE = true)
    (hok : ∀ c, okChar c = true → ws c = false) (d : List Char) :
    stripBoth ws (subInvalid d) = pyStrip (subInvalid d) := by
  unfold pyStrip stripBoth
  have h := subInvalid_chars d
  rw [dropWhile_ws_eq ws hsp hok _ h]
  have h' : ∀ c ∈ ((subInvalid d).dropWhile isSpace).reverse, okChar c = true ∨ c = SPACE := by
    intro c hc
    exact h c ((List.dropWhile_sublist _).mem (List.mem_reverse.mp hc))
  rw [dropWhile_ws_eq ws hsp hok _ h']

/-! ## base36: reference decoder (specification side) and round trip -/

/-- reference digit value (upper-case alphabet), `none` for any other character -/
def b36Val (c : Char) : Option Nat :=
  if 48 ≤ c.toNat ∧ c.toNat ≤ 57 then some (c.toNat - 48)
  else if 65 ≤ c.toNat ∧ c.toNat ≤ 90 then some (c.toNat - 55)
  else none

def b36Step (a : Option Nat) (c : Char) : Option Nat :=
  match a, b36Val c with
  | some x, some v => some (x * 36 + v)
  | _, _ => none

/-- reference decoder: most significant digit first -/
def b36Decode (s : List Char) : Option Nat := s.foldl b36Step (some 0)

theorem b36Val_digit : ∀ d : Fin 36, b36Val (b36Digit d.val).toUpper = some d.val := by decide

theorem b36Step_digit (x d : Nat) (h : d < 36) :
    b36Step (some x) (b36Digit d).toUpper = some (x * 36 + d) := by
  have := b36Val_digit ⟨d, h⟩
  simp only at this
  simp [b36Step, this]

theorem b36Loop_decode (fuel n : Nat) (acc : List Char) (h : n ≤ fuel) :
    ((b36Loop fuel n acc).map Char.toUpper).foldl b36Step (some 0)
      = (acc.map Char.toUpper).foldl b36Step (some n) := by
  induction fuel generalizing n acc with
  | zero =>
    have : n = 0 := by omega
    subst this; simp [b36Loop]
  | succ f ih =>
    unfold b36Loop
    by_cases hn : n = 0
    · subst hn; simp
    · simp only [hn, if_false]
      rw [ih (n / 36) _ (by omega)]
      simp only [List.map_cons, List.foldl_cons]
      rw [b36Step_digit _ _ (Nat.mod_lt _ (by decide))]
      congr 2
      omega

theorem b36Loop_length_ge (fuel n : Nat) (acc : List Char) : acc.length ≤ (b36Loop fuel n acc).length := by
  induction fuel generalizing n acc with
  | zero => simp [b36Loop]
  | succ f ih =>
    unfold b36Loop
    by_cases hn : n = 0
    · simp [hn]
    · simp only [hn, if_false]
      have := ih (n / 36) (b36Digit (n % 36) :: acc)
      simp only [List.length_cons] at this
      omega

theorem b36Loop_length_le (fuel n k : Nat) (acc : List Char) (h : n < 36 ^ k) :
    (b36Loop fuel n acc).length ≤ k + acc.length := by
  induction fuel generalizing n k acc with
  | zero => simp [b36Loop]
  | succ f ih =>
    unfold b36Loop
    by_cases hn : n = 0
    · simp [hn]
    · simp only [hn, if_false]
      cases k with
      | zero => simp at h; exact absurd h hn
      | succ k' =>
        have h' : n / 36 < 36 ^ k' := by
          rw [Nat.pow_succ] at h
          exact Nat.div_lt_of_lt_mul (by rw [Nat.mul_comm]; exact h)
        have := ih (n / 36) k' (b36Digit (n % 36) :: acc) h'
        simp only [List.length_cons] at this
        omega

theorem b36Dumps_decode (n : Nat) : b36Decode ((b36Dumps n).map Char.toUpper) = some n := by
  have hv := b36Loop_decode n n [] (Nat.le_refl _)
  simp only [List.map_nil, List.foldl_nil] at hv
  unfold b36Dumps b36Decode
  by_cases he : (b36Loop n n []).isEmpty = true
  · simp only [he, if_true]
    have : b36Loop n n [] = [] := List.isEmpty_iff.mp he
    rw [this] at hv
    simp only [List.map_nil, List.foldl_nil, Option.some.injEq] at hv
    subst hv
    decide
  · simp only [he, Bool.false_eq_true, if_false]
    exact hv

theorem b36Dumps_length (n k : Nat) (h : n < 36 ^ k) (hk : 1 ≤ k) : (b36Dumps n).length ≤ k := by
  unfold b36Dumps
  have := b36Loop_length_le n n k [] h
  by_cases he : (b36Loop n n []).isEmpty = true
  · simp [he]; exact hk
  · simp only [he, Bool.false_eq_true, if_false]; simpa using this

theorem b36Decode_zeros (k : Nat) (s : List Char) :
    b36Decode (List.replicate k '0' ++ s) = b36Decode s := by
  unfold b36Decode
  induction k with
  | zero => simp
  | succ k ih =>
    simp only [List.replicate_succ, List.cons_append, List.foldl_cons]
    have : b36Step (some 0) '0' = some 0 := by decide
    rw [this]; exact ih


/-! ## setup payload: bit packing as arithmetic, reference decoder, round trip -/

theorem xhmPayload_arith (category code : Nat) (hc : code < 134217728) :
    xhmPayload category code = ((category % 256) * 16 + 2) * 134217728 + code := by
  unfold xhmPayload
  have h1 : category &&& 0xFF = category % 256 := Nat.and_two_pow_sub_one_eq_mod category 8
  have h2 : code &&& 0x7FFFFFFF = code % 2147483648 := Nat.and_two_pow_sub_one_eq_mod code 31
  have h3 : code % 2147483648 = code := Nat.mod_eq_of_lt (by omega)
  have h4 : (0:Nat) &&& 0x7 = 0 := by decide
  have h5 : (0:Nat) &&& 0xF = 0 := by decide
  have h6 : (2:Nat) &&& 0xF = 2 := by decide
  simp only [h1, h2, h3, h4, h5, h6]
  have e1 : (0 ||| 0 : Nat) <<< 4 = 0 := by decide
  rw [e1]
  have e2 : ((0 ||| 0 : Nat) <<< 8 ||| category % 256) = category % 256 := by simp
  rw [e2]
  have hcat : category % 256 < 256 := Nat.mod_lt _ (by decide)
  have e3 : (category % 256) <<< 4 ||| 2 = (category % 256) <<< 4 + 2 :=
    (Nat.shiftLeft_add_eq_or_of_lt (i := 4) (b := 2) (by decide) _).symm
  rw [e3]
  have e4 : ((category % 256) <<< 4 + 2) <<< 27 ||| code = ((category % 256) <<< 4 + 2) <<< 27 + code :=
    (Nat.shiftLeft_add_eq_or_of_lt (i := 27) (b := code) (by simpa using hc) _).symm
  rw [e4, Nat.shiftLeft_eq, Nat.shiftLeft_eq]

theorem xhmPayload_lt (category code : Nat) (hc : code < 134217728) :
    xhmPayload category code < 36 ^ 9 := by
  rw [xhmPayload_arith category code hc]
  have : category % 256 < 256 := Nat.mod_lt _ (by decide)
  have e : (36:Nat) ^ 9 = 101559956668416 := by decide
  rw [e]; omega

/-- the fields of a decoded setup payload -/
structure XhmFields where
  version : Nat
  reserved : Nat
  category : Nat
  flags : Nat
  code : Nat
  setupId : List Char
deriving DecidableEq, Repr

/-- reference decoder of `X-HM://<9 base-36 digits><setup id>` (HAP setup payload layout:
    version 3 bits, reserved 4, category 8, flags 4, setup code 27) -/
def xhmDecode (uri : List Char) : Option XhmFields :=
  if uri.take 7 = XHM_PREFIX then
    match b36Decode ((uri.drop 7).take 9) with
    | some n =>
      some { version := n / 8796093022208 % 8, reserved := n / 549755813888 % 16,
             category := n / 2147483648 % 256, flags := n / 134217728 % 16,
             code := n % 134217728, setupId := uri.drop 16 }
    | none => none
  else none

theorem rjust0_length (s : List Char) (h : s.length ≤ 9) : (rjust0 9 s).length = 9 := by
  simp [rjust0]; omega

theorem xhm_decode_uri (category code : Nat) (setupId : List Char) (hcat : category < 256)
    (hc : code < 134217728) :
    xhmDecode (xhmUri category code setupId)
      = some { version := 0, reserved := 0, category := category, flags := 2, code := code,
               setupId := setupId } := by
  have hlen : ((b36Dumps (xhmPayload category code)).map Char.toUpper).length ≤ 9 := by
    rw [List.length_map]
    exact b36Dumps_length _ 9 (xhmPayload_lt category code hc) (by decide)
  have hp9 := rjust0_length _ hlen
  have hpre : XHM_PREFIX.length = 7 := by decide
  unfold xhmDecode xhmUri
  rw [List.append_assoc]
  have t7 : (XHM_PREFIX ++ (rjust0 9 ((b36Dumps (xhmPayload category code)).map Char.toUpper) ++ setupId)).take 7
      = XHM_PREFIX := List.take_left' hpre
  have d7 : (XHM_PREFIX ++ (rjust0 9 ((b36Dumps (xhmPayload category code)).map Char.toUpper) ++ setupId)).drop 7
      = rjust0 9 ((b36Dumps (xhmPayload category code)).map Char.toUpper) ++ setupId := List.drop_left' hpre
  have d16 : (XHM_PREFIX ++ (rjust0 9 ((b36Dumps (xhmPayload category code)).map Char.toUpper) ++ setupId)).drop 16
      = setupId := by
    rw [← List.append_assoc]
    exact List.drop_left' (by rw [List.length_append, hpre, hp9])
  rw [t7, d7, d16, List.take_left' hp9]
  simp only [if_true]
  have hdec : b36Decode (rjust0 9 ((b36Dumps (xhmPayload category code)).map Char.toUpper))
      = some (xhmPayload category code) := by
    unfold rjust0
    rw [b36Decode_zeros, b36Dumps_decode]
  rw [hdec, xhmPayload_arith category code hc]
  have hm : category % 256 = category := Nat.mod_eq_of_lt hcat
  rw [hm]
  simp only [Option.some.injEq, XhmFields.mk.injEq, and_true]
  omega


/-! ## pincode value -/

def isDigit (c : Char) : Bool := 48 ≤ c.toNat && c.toNat ≤ 57

theorem digits_foldl_lt (l : List Char) (a : Nat) (h : ∀ c ∈ l, isDigit c = true) :
    l.foldl (fun a c => a * 10 + (c.toNat - 48)) a < (a + 1) * 10 ^ l.length := by
  induction l generalizing a with
  | nil => simp
  | cons c t ih =>
    have hc := h c (List.mem_cons_self ..)
    simp only [isDigit, Bool.and_eq_true, decide_eq_true_eq] at hc
    have ht := ih (a * 10 + (c.toNat - 48)) (fun x hx => h x (List.mem_cons_of_mem _ hx))
    simp only [List.foldl_cons, List.length_cons]
    calc _ < (a * 10 + (c.toNat - 48) + 1) * 10 ^ t.length := ht
      _ ≤ ((a + 1) * 10) * 10 ^ t.length := Nat.mul_le_mul_right _ (by omega)
      _ = (a + 1) * 10 ^ (t.length + 1) := by rw [Nat.pow_succ, Nat.mul_assoc, Nat.mul_comm 10]

/-- a pincode made of dashes and at most 8 digits (the format is `xxx-xx-xxx`) is below 10^8,
    hence below 2^27: the `& 0x7FFFFFFF` mask and the 27-bit field lose nothing -/
theorem pinValue_lt (pin : List Char) (hd : ∀ c ∈ pin, c = '-' ∨ isDigit c = true)
    (h8 : (pin.filter fun c => c ≠ '-').length ≤ 8) : pinValue pin < 100000000 := by
  unfold pinValue
  have hall : ∀ c ∈ pin.filter (fun c => c ≠ '-'), isDigit c = true := by
    intro c hc
    simp only [List.mem_filter, decide_eq_true_eq] at hc
    rcases hd c hc.1 with h | h
    · exact absurd h hc.2
    · exact h
  have := digits_foldl_lt _ 0 hall
  have hp : 10 ^ (pin.filter fun c => c ≠ '-').length ≤ 10 ^ 8 := Nat.pow_le_pow_right (by decide) h8
  have e : (10:Nat) ^ 8 = 100000000 := by decide
  omega

/-! ## config number -/

theorem incr_cfg_ne {Hsh : Type} (st : Cfg Hsh) : (incr st).cfg ≠ st.cfg := by
  simp only [incr, MAX_CONFIG_VERSION]
  by_cases h : st.cfg + 1 > 65535 <;> simp only [h, if_true, if_false] <;> omega

theorem incr_range {Hsh : Type} (st : Cfg Hsh) : 1 ≤ (incr st).cfg ∧ (incr st).cfg ≤ 65535 := by
  simp only [incr, MAX_CONFIG_VERSION]
  by_cases h : st.cfg + 1 > 65535 <;> simp only [h, if_true, if_false] <;> omega

theorem incr_hsh {Hsh : Type} (st : Cfg Hsh) : (incr st).hsh = st.hsh := rfl

/-! ## value-free rendering -/

theorem Chr.noval_upd {M V : Type} (iid : Nat) (f : V → V) (c : Chr M V) :
    (Chr.upd iid f c).noval = c.noval := by
  unfold Chr.upd; split <;> rfl

theorem Svc.noval_upd {M V : Type} (iid : Nat) (f : V → V) (s : Svc M V) :
    (Svc.upd iid f s).noval = s.noval := by
  simp [Svc.upd, Svc.noval, List.map_map, Function.comp_def, Chr.noval_upd]

theorem Acc.noval_upd {M V : Type} (aid iid : Nat) (f : V → V) (a : Acc M V) :
    (Acc.upd aid iid f a).noval = a.noval := by
  unfold Acc.upd
  split
  · simp [Acc.noval, List.map_map, Function.comp_def, Svc.noval_upd]
  · rfl

theorem renderNoVal_valueOp {M V : Type} (aid iid : Nat) (f : V → V) (db : Db M V) :
    renderNoVal (valueOp aid iid f db) = renderNoVal db := by
  simp [renderNoVal, valueOp, List.map_map, Function.comp_def, Acc.noval_upd]

theorem renderNoVal_valueOps {M V : Type} (ops : List (Nat × Nat × (V → V))) (db : Db M V) :
    renderNoVal (valueOps ops db) = renderNoVal db := by
  induction ops generalizing db with
  | nil => rfl
  | cons op rest ih =>
    obtain ⟨aid, iid, f⟩ := op
    simp only [valueOps]
    rw [ih, renderNoVal_valueOp]


/-! ## label validity (specification side) and the assembled name lemmas -/

def isHex (c : Char) : Bool :=
  (48 ≤ c.toNat && c.toNat ≤ 57) || (65 ≤ c.toNat && c.toNat ≤ 70) || (97 ≤ c.toNat && c.toNat ≤ 102)

/-- letters, digits, hyphen (RFC 952/1123) -/
def isLDH (c : Char) : Bool :=
  (65 ≤ c.toNat && c.toNat ≤ 90) || (97 ≤ c.toNat && c.toNat ≤ 122) ||
  (48 ≤ c.toNat && c.toNat ≤ 57) || c.toNat = 45   -- 45 = '-'

/-- number of bytes of the UTF-8 encoding -/
def utf8Len (l : List Char) : Nat := (l.map Char.utf8Size).sum

/-- DNS-SD instance label: 1..63 bytes of UTF-8, no leading or trailing space -/
def ValidInstanceLabel (l : List Char) : Prop :=
  1 ≤ utf8Len l ∧ utf8Len l ≤ 63 ∧ l.head? ≠ some ' ' ∧ l.getLast? ≠ some ' '

/-- host label: 1..63 characters of `[A-Za-z0-9-]`, not starting or ending with '-' -/
def ValidHostLabel (l : List Char) : Prop :=
  1 ≤ l.length ∧ l.length ≤ 63 ∧ (∀ c ∈ l, isLDH c = true) ∧ l.head? ≠ some '-' ∧ l.getLast? ≠ some '-'

/-- `XX:XX:XX:XX:XX:XX` with hexadecimal digits (what `util.generate_mac` produces) -/
def WfMac (mac : List Char) : Prop :=
  ∃ a b c d e f g h i j k l : Char,
    mac = [a, b, ':', c, d, ':', e, f, ':', g, h, ':', i, j, ':', k, l] ∧
    ∀ x ∈ [a, b, c, d, e, f, g, h, i, j, k, l], isHex x = true

theorem isHex_ne_colon {c : Char} (h : isHex c = true) : c ≠ ':' := by
  intro e; subst e; revert h; decide

theorem shortMac_wf {mac : List Char} (h : WfMac mac) :
    (shortMac mac).length = 6 ∧ ∀ c ∈ shortMac mac, isHex c = true := by
  obtain ⟨a, b, c, d, e, f, g, h', i, j, k, l, rfl, hx⟩ := h
  have hg := isHex_ne_colon (hx g (by simp))
  have hh := isHex_ne_colon (hx h' (by simp))
  have hi := isHex_ne_colon (hx i (by simp))
  have hj := isHex_ne_colon (hx j (by simp))
  have hk := isHex_ne_colon (hx k (by simp))
  have hl := isHex_ne_colon (hx l (by simp))
  have e : shortMac [a, b, ':', c, d, ':', e, f, ':', g, h', ':', i, j, ':', k, l] = [g, h', i, j, k, l] := by
    simp [shortMac, List.filter, hg, hh, hi, hj, hk, hl]
  rw [e]
  refine ⟨rfl, ?_⟩
  intro x hx'
  simp only [List.mem_cons, List.not_mem_nil, or_false] at hx'
  rcases hx' with rfl | rfl | rfl | rfl | rfl | rfl <;> exact hx _ (by simp)

theorem utf8Size_ascii {c : Char} (h : c.toNat ≤ 127) : c.utf8Size = 1 := by
  unfold Char.utf8Size
  have : c.val ≤ 127 := UInt32.le_iff_toNat_le.mpr h
  simp [this]

theorem utf8Len_ascii (l : List Char) (h : ∀ c ∈ l, c.toNat ≤ 127) : utf8Len l = l.length := by
  unfold utf8Len
  induction l with
  | nil => rfl
  | cons a t ih =>
    simp only [List.map_cons, List.sum_cons, List.length_cons]
    rw [utf8Size_ascii (h a (List.mem_cons_self ..)), ih (fun c hc => h c (List.mem_cons_of_mem _ hc))]
    omega

theorem okChar_isLDH {c : Char} (h : okChar c = true) : isLDH c = true := by
  simpa [okChar, isLDH] using h

theorem isHex_isLDH {c : Char} (h : isHex c = true) : isLDH c = true := by
  simp only [isHex, isLDH, Bool.or_eq_true, Bool.and_eq_true, decide_eq_true_eq] at h ⊢
  omega

theorem isHex_ascii {c : Char} (h : isHex c = true) : c.toNat ≤ 127 := by
  simp only [isHex, Bool.or_eq_true, Bool.and_eq_true, decide_eq_true_eq] at h
  omega

theorem isHex_ne_dash {c : Char} (h : isHex c = true) : c ≠ DASH := by
  intro e; subst e; revert h; decide

theorem isHex_ne_space {c : Char} (h : isHex c = true) : c ≠ SPACE := by
  intro e; subst e; revert h; decide

theorem validHostName_spec (d : List Char) :
    validHostName d ≠ [] ∧ (validHostName d).length ≤ 56 ∧
    (∀ c ∈ validHostName d, okChar c = true) ∧
    (validHostName d).head? ≠ some DASH ∧ (validHostName d).getLast? ≠ some DASH := by
  unfold validHostName orDefault
  by_cases he : (stripBoth isDash ((validHostNameLegacy d).take MAX_MDNS_NAME_LENGTH)).isEmpty = true
  · simp only [he, if_true]; decide
  · simp only [he, Bool.false_eq_true, if_false]
    have hsub := stripBoth_sublist isDash ((validHostNameLegacy d).take MAX_MDNS_NAME_LENGTH)
    refine ⟨?_, ?_, ?_, ?_, ?_⟩
    · intro e; rw [e] at he; simp at he
    · have := hsub.length_le
      have h2 := List.length_take_le MAX_MDNS_NAME_LENGTH (validHostNameLegacy d)
      simp only [MAX_MDNS_NAME_LENGTH] at this h2 ⊢
      omega
    · intro c hc
      exact validHostNameLegacy_chars d c ((List.take_sublist _ _).mem (hsub.mem hc))
    · intro h
      have := stripBoth_head isDash _ DASH h
      simp [isDash] at this
    · intro h
      have := stripBoth_getLast isDash _ DASH h
      simp [isDash] at this

theorem validName_spec (d : List Char) :
    validName d ≠ [] ∧ (validName d).length ≤ 56 ∧
    (∀ c ∈ validName d, okChar c = true ∨ c = SPACE) ∧
    (validName d).head? ≠ some SPACE ∧ (validName d).getLast? ≠ some SPACE ∧
    (validName d).head? ≠ some DASH ∧ (validName d).getLast? ≠ some DASH := by
  unfold validName orDefault stripSpaceDash
  by_cases he : (stripBoth isSpaceDash ((validNameLegacy d).take MAX_MDNS_NAME_LENGTH)).isEmpty = true
  · simp only [he, if_true]; decide
  · simp only [he, Bool.false_eq_true, if_false]
    have hsub := stripBoth_sublist isSpaceDash ((validNameLegacy d).take MAX_MDNS_NAME_LENGTH)
    refine ⟨?_, ?_, ?_, ?_, ?_, ?_, ?_⟩
    · intro e; rw [e] at he; simp at he
    · have := hsub.length_le
      have h2 := List.length_take_le MAX_MDNS_NAME_LENGTH (validNameLegacy d)
      simp only [MAX_MDNS_NAME_LENGTH] at this h2 ⊢
      omega
    · intro c hc
      exact validNameLegacy_chars d c ((List.take_sublist _ _).mem (hsub.mem hc))
    · intro h
      have := stripBoth_head isSpaceDash _ SPACE h
      simp [isSpaceDash] at this
    · intro h
      have := stripBoth_getLast isSpaceDash _ SPACE h
      simp [isSpaceDash] at this
    · intro h
      have := stripBoth_head isSpaceDash _ DASH h
      simp [isSpaceDash] at this
    · intro h
      have := stripBoth_getLast isSpaceDash _ DASH h
      simp [isSpaceDash] at this

theorem getLast?_append_six (pre : List Char) (x : Char) (sm : List Char) (h : sm.length = 6) :
    ∃ c ∈ sm, (pre ++ x :: sm).getLast? = some c := by
  match sm, h with
  | [a, b, c, d, e, f], _ => exact ⟨f, by simp, by simp⟩

theorem hostLabel_valid (vh sm : List Char) (h1 : vh ≠ []) (h2 : vh.length ≤ 56)
    (h3 : ∀ c ∈ vh, okChar c = true) (h4 : vh.head? ≠ some DASH)
    (hs : sm.length = 6 ∧ ∀ c ∈ sm, isHex c = true) : ValidHostLabel (vh ++ DASH :: sm) := by
  refine ⟨?_, ?_, ?_, ?_, ?_⟩
  · simp only [List.length_append, List.length_cons]; omega
  · simp only [List.length_append, List.length_cons, hs.1]; omega
  · intro c hc
    simp only [List.mem_append, List.mem_cons] at hc
    rcases hc with hc | rfl | hc
    · exact okChar_isLDH (h3 c hc)
    · decide
    · exact isHex_isLDH (hs.2 c hc)
  · cases vh with
    | nil => exact absurd rfl h1
    | cons a t => simpa [DASH] using h4
  · obtain ⟨c, hc, e⟩ := getLast?_append_six vh DASH sm hs.1
    rw [e]
    intro h
    injection h with h
    exact isHex_ne_dash (hs.2 c hc) h

theorem instanceLabel_valid (vn sm : List Char) (h1 : vn ≠ []) (h2 : vn.length ≤ 56)
    (h3 : ∀ c ∈ vn, okChar c = true ∨ c = SPACE) (h4 : vn.head? ≠ some SPACE)
    (hs : sm.length = 6 ∧ ∀ c ∈ sm, isHex c = true) : ValidInstanceLabel (vn ++ SPACE :: sm) := by
  have hascii : ∀ c ∈ vn ++ SPACE :: sm, c.toNat ≤ 127 := by
    intro c hc
    simp only [List.mem_append, List.mem_cons] at hc
    rcases hc with hc | rfl | hc
    · rcases h3 c hc with h | rfl
      · exact okChar_ascii h
      · decide
    · decide
    · exact isHex_ascii (hs.2 c hc)
  unfold ValidInstanceLabel
  rw [utf8Len_ascii _ hascii]
  refine ⟨?_, ?_, ?_, ?_⟩
  · simp only [List.length_append, List.length_cons]; omega
  · simp only [List.length_append, List.length_cons, hs.1]; omega
  · cases vn with
    | nil => exact absurd rfl h1
    | cons a t => simpa [SPACE] using h4
  · obtain ⟨c, hc, e⟩ := getLast?_append_six vn SPACE sm hs.1
    rw [e]
    intro h
    injection h with h
    exact isHex_ne_space (hs.2 c hc) h


theorem collapseDashes_head (l : List Char) : (collapseDashes l).head? = l.head? := by
  cases l with
  | nil => rfl
  | cons c cs =>
    unfold collapseDashes collapseDashesAux
    by_cases h : c = DASH
    · simp [h]
    · simp [h]

theorem validHostNameLegacy_head (d : List Char) : (validHostNameLegacy d).head? ≠ some DASH := by
  unfold validHostNameLegacy
  rw [collapseDashes_head]
  intro h
  have := stripBoth_head isDash _ DASH h
  simp [isDash] at this

theorem validNameLegacy_head (d : List Char) : (validNameLegacy d).head? ≠ some SPACE := by
  unfold validNameLegacy stripSpaceDash
  intro h
  have := stripBoth_head isSpaceDash _ SPACE h
  simp [isSpaceDash] at this

/-! ## the sanitisers see a display name only through "is the symbol in `[A-Za-z0-9-]`" -/

theorem subInvalidAux_map (f : Char → Char) (hf1 : ∀ c, okChar c = true → f c = c)
    (hf2 : ∀ c, okChar c = false → okChar (f c) = false) (b : Bool) (s : List Char) :
    subInvalidAux b (s.map f) = subInvalidAux b s := by
  induction s generalizing b with
  | nil => rfl
  | cons c cs ih =>
    simp only [List.map_cons, subInvalidAux]
    cases h : okChar c
    · simp only [hf2 c h, Bool.false_eq_true, if_false]
      cases b <;> simp [ih]
    · simp only [hf1 c h, h, if_true, ih]

theorem subInvalid_map (f : Char → Char) (hf1 : ∀ c, okChar c = true → f c = c)
    (hf2 : ∀ c, okChar c = false → okChar (f c) = false) (s : List Char) :
    subInvalid (s.map f) = subInvalid s :=
  subInvalidAux_map f hf1 hf2 false s

/-! ## decidable forms of the specification-side predicates (run by the driver against the
    independent Python validators `harness/ref/dnslabel.py`) -/

instance (l : List Char) : Decidable (ValidInstanceLabel l) := by
  unfold ValidInstanceLabel; exact inferInstance

instance (l : List Char) : Decidable (ValidHostLabel l) := by
  unfold ValidHostLabel; exact inferInstance

/-- what the label theorems need of a MAC: its last eight characters hold, besides colons,
    exactly six hexadecimal digits (true of every `XX:XX:XX:XX:XX:XX`, see `shortMac_wf`) -/
def MacTailOk (mac : List Char) : Prop :=
  (shortMac mac).length = 6 ∧ ∀ c ∈ shortMac mac, isHex c = true

instance (mac : List Char) : Decidable (MacTailOk mac) := by
  unfold MacTailOk; exact inferInstance

/-- a pincode made of digits and dashes with at most eight digits (`xxx-xx-xxx`) -/
def PinShape (pin : List Char) : Prop :=
  (∀ c ∈ pin, c = '-' ∨ isDigit c = true) ∧ (pin.filter fun c => c ≠ '-').length ≤ 8

instance (pin : List Char) : Decidable (PinShape pin) := by
  unfold PinShape; exact inferInstance

end Hap.Advert
