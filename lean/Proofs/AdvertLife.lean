/-
  Invariants of the accessory-life model (HapModel/AdvertLife.lean). Core only.
-/
import HapModel.AdvertLife
import Proofs.Advert
namespace Hap.AdvertLife
open Hap.Advert

variable {M V Hsh : Type} [DecidableEq Hsh]

def InRange (c : Cfg Hsh) : Prop := 1 ≤ c.cfg ∧ c.cfg ≤ 65535

theorem setHash_range (st : Cfg Hsh) (h : Hsh) (hr : InRange st) : InRange (setHash st h).1 := by
  unfold setHash
  by_cases e : st.hsh = some h
  · simp only [e, if_true]; exact hr
  · simp only [e, if_false]; exact incr_range _

theorem setHash_cfg_ne_iff (st : Cfg Hsh) (h : Hsh) : (setHash st h).1.cfg ≠ st.cfg ↔ st.hsh ≠ some h := by
  unfold setHash
  by_cases e : st.hsh = some h
  · simp [e]
  · simp only [e, if_false, ne_eq, not_false_eq_true, iff_true]
    exact incr_cfg_ne _

theorem setHash_hsh (st : Cfg Hsh) (h : Hsh) : (setHash st h).1.hsh = some h := by
  unfold setHash
  by_cases e : st.hsh = some h
  · simp [e]
  · simp [e, incr]

theorem setHash_false (st : Cfg Hsh) (h : Hsh) (hf : (setHash st h).2 = false) : (setHash st h).1 = st := by
  unfold setHash at hf ⊢
  by_cases e : st.hsh = some h
  · simp [e]
  · simp [e] at hf

/-- live and stored configuration numbers are within 1..65535 -/
structure Ok (l : Life M V Hsh) : Prop where
  st : InRange l.st
  disk : ∀ d, l.disk = some d → InRange d

omit [DecidableEq Hsh] in
theorem fresh_range : InRange (fresh : Cfg Hsh) := by
  simp [InRange, fresh, DEFAULT_CONFIG_VERSION]

omit [DecidableEq Hsh] in
theorem ok_life0 : Ok (life0 : Life M V Hsh) :=
  ⟨fresh_range, by intro d h; simp [life0] at h⟩

theorem ok_boot (H : NoVal M → Hsh) (l : Life M V Hsh) (db : Db M V) (h : Ok l) : Ok (boot H l db) := by
  have h0 : InRange (l.disk.getD fresh) := by
    cases hd : l.disk with
    | none => exact fresh_range
    | some d => exact h.disk d hd
  have h1 := setHash_range _ (accHash H db) h0
  refine ⟨h1, ?_⟩
  intro d hd
  simp only [boot] at hd
  split at hd
  · cases hd; exact h1
  · cases hd; exact h0

theorem ok_step (H : NoVal M → Hsh) (l : Life M V Hsh) (op : Op M V) (h : Ok l) : Ok (step H l op) := by
  cases op with
  | restart db => exact ok_boot H l db h
  | value aid iid f => exact ⟨h.st, h.disk⟩
  | mutate f => exact ⟨h.st, h.disk⟩
  | configChanged =>
    refine ⟨incr_range _, ?_⟩
    intro d hd
    simp only [step, Option.some.injEq] at hd
    subst hd
    exact incr_range _
  | persist =>
    refine ⟨h.st, ?_⟩
    intro d hd
    simp only [step, Option.some.injEq] at hd
    subst hd
    exact h.st

theorem ok_run (H : NoVal M → Hsh) (l : Life M V Hsh) (ops : List (Op M V)) (h : Ok l) :
    Ok (run H l ops) := by
  induction ops generalizing l with
  | nil => exact h
  | cons op rest ih => exact ih _ (ok_step H l op h)

/-- inside the process started with the accessories `d0`: the file holds the live state, and the
    stored hash is the hash of the accessories the process was started with -/
structure Started (H : NoVal M → Hsh) (d0 : Db M V) (l : Life M V Hsh) : Prop where
  synced : l.disk = some l.st
  hsh : l.st.hsh = some (accHash H d0)

theorem started_boot (H : NoVal M → Hsh) (l : Life M V Hsh) (db : Db M V) : Started H db (boot H l db) := by
  refine ⟨?_, setHash_hsh _ _⟩
  simp only [boot]
  split
  · rfl
  · rename_i hf
    have hf' : (setHash (l.disk.getD fresh) (accHash H db)).2 = false := by
      cases h : (setHash (l.disk.getD fresh) (accHash H db)).2
      · rfl
      · exact absurd h hf
    rw [setHash_false _ _ hf']

theorem started_step (H : NoVal M → Hsh) (d0 : Db M V) (l : Life M V Hsh) (op : Op M V)
    (hop : op.inProcess = true) (h : Started H d0 l) : Started H d0 (step H l op) := by
  cases op with
  | restart db => simp [Op.inProcess] at hop
  | value aid iid f => exact ⟨h.synced, h.hsh⟩
  | mutate f => exact ⟨h.synced, h.hsh⟩
  | configChanged => exact ⟨rfl, h.hsh⟩
  | persist => exact ⟨rfl, h.hsh⟩

theorem started_run (H : NoVal M → Hsh) (d0 : Db M V) (l : Life M V Hsh) (ops : List (Op M V))
    (hops : ∀ op ∈ ops, op.inProcess = true) (h : Started H d0 l) : Started H d0 (run H l ops) := by
  induction ops generalizing l with
  | nil => exact h
  | cons op rest ih =>
    exact ih _ (fun x hx => hops x (List.mem_cons_of_mem _ hx))
      (started_step H d0 l op (hops op List.mem_cons_self) h)

theorem quiet_inProcess {op : Op M V} (h : op.quiet = true) : op.inProcess = true := by
  cases op <;> simp_all [Op.quiet, Op.inProcess]

/-- value changes, `config_changed` and saves leave the value-free rendering alone -/
theorem render_step_quiet (H : NoVal M → Hsh) (l : Life M V Hsh) (op : Op M V) (hop : op.quiet = true) :
    renderNoVal (step H l op).db = renderNoVal l.db := by
  cases op with
  | restart db => simp [Op.quiet] at hop
  | value aid iid f => exact renderNoVal_valueOp aid iid f l.db
  | mutate f => simp [Op.quiet] at hop
  | configChanged => rfl
  | persist => rfl

theorem render_run_quiet (H : NoVal M → Hsh) (l : Life M V Hsh) (ops : List (Op M V))
    (hops : ∀ op ∈ ops, op.quiet = true) : renderNoVal (run H l ops).db = renderNoVal l.db := by
  induction ops generalizing l with
  | nil => rfl
  | cons op rest ih =>
    show renderNoVal (run H (step H l op) rest).db = _
    rw [ih _ (fun x hx => hops x (List.mem_cons_of_mem _ hx)),
      render_step_quiet H l op (hops op List.mem_cons_self)]

/-- the next start moves the number exactly when the hash of the new accessories differs from
    the hash of those the running process was started with -/
theorem boot_cfg_iff (H : NoVal M → Hsh) (d0 new : Db M V) (l : Life M V Hsh) (h : Started H d0 l) :
    (boot H l new).st.cfg ≠ l.st.cfg ↔ accHash H new ≠ accHash H d0 := by
  simp only [boot, h.synced, Option.getD_some]
  rw [setHash_cfg_ne_iff, h.hsh]
  constructor
  · intro hne e; exact hne (by rw [e])
  · intro hne e; injection e with e; exact hne e.symm

theorem run_append (H : NoVal M → Hsh) (l : Life M V Hsh) (a b : List (Op M V)) :
    run H l (a ++ b) = run H (run H l a) b := by
  induction a generalizing l with
  | nil => rfl
  | cons op rest ih => exact ih _

end Hap.AdvertLife
