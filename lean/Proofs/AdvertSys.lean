/-
  Invariants of the C18 event model (HapModel/AdvertSys.lean). Core only.
-/
import HapModel.AdvertSys
import Proofs.Advert
namespace Hap.AdvertSys
open Hap.Advert

/-- the response of request `rid` has been written (on some connection) -/
def Written (log : List Obs) (rid : Nat) : Prop := ∃ conn, Obs.write conn rid ∈ log

/-- newest-first log: every published record is preceded (deeper in the list) by the response
    write of the request that caused it -/
def Ordered : List Obs → Prop
  | [] => True
  | Obs.publish (some rid) _ :: rest => Written rest rid ∧ Ordered rest
  | Obs.publish none _ :: rest => Ordered rest
  | Obs.write _ _ :: rest => Ordered rest
  | Obs.cipher _ _ :: rest => Ordered rest

theorem Ordered.tail {o : Obs} {rest : List Obs} (h : Ordered (o :: rest)) : Ordered rest := by
  cases o with
  | publish c t =>
    cases c with
    | none => exact h
    | some r => exact h.2
  | write c r => exact h
  | cipher c r => exact h

theorem Written.cons {log : List Obs} {rid : Nat} (o : Obs) (h : Written log rid) :
    Written (o :: log) rid := by
  obtain ⟨c, hc⟩ := h
  exact ⟨c, List.mem_cons_of_mem _ hc⟩

theorem Ordered.split {log : List Obs} (h : Ordered log) :
    ∀ later earlier rid txt, log = later ++ Obs.publish (some rid) txt :: earlier → Written earlier rid := by
  induction log with
  | nil => intro later earlier rid txt e; simp at e
  | cons o rest ih =>
    intro later earlier rid txt e
    cases later with
    | nil =>
      simp only [List.nil_append, List.cons.injEq] at e
      obtain ⟨rfl, rfl⟩ := e
      exact h.1
    | cons o' later' =>
      simp only [List.cons_append, List.cons.injEq] at e
      obtain ⟨rfl, e⟩ := e
      exact ih h.tail later' earlier rid txt e

/-- the ordering invariant -/
structure Good (s : Sys) : Prop where
  execW : ∀ rid ∈ s.execQ, Written s.log rid
  loopW : ∀ rid, some rid ∈ s.loopQ → Written s.log rid
  ord : Ordered s.log

theorem good_init (info : Info) (p : Pairings) (ss : List (Nat × Client)) (safe : Bool := false) :
    Good (init info p ss safe) :=
  ⟨by simp [init], by simp [init], by simp [init, Ordered]⟩

/-- a response that reports a pairing change is never a deferred one -/
theorem handle_changed_not_task (p : Pairings) (ss : Option Client) (r : Req) :
    (handle p ss r).2.pairingChanged = true → (handle p ss r).2.task = false := by
  cases r <;> simp only [handle, plain] <;> (repeat' split) <;> simp

theorem mem_of_getElem? {α : Type} {l : List α} {i : Nat} {a : α} (h : l[i]? = some a) : a ∈ l :=
  List.mem_of_getElem? h

theorem good_write (s : Sys) (conn rid : Nat) (h : Good s) :
    Good { s with log := Obs.write conn rid :: s.log } :=
  ⟨fun x hx => (h.execW x hx).cons _, fun x hx => (h.loopW x hx).cons _, h.ord⟩

theorem good_cipher (s : Sys) (conn rid : Nat) (h : Good s) :
    Good { s with log := Obs.cipher conn rid :: s.log } :=
  ⟨fun x hx => (h.execW x hx).cons _, fun x hx => (h.loopW x hx).cons _, h.ord⟩

theorem good_deferred (s : Sys) (d : List (Nat × Nat)) (h : Good s) : Good { s with deferred := d } :=
  ⟨h.execW, h.loopW, h.ord⟩

theorem good_enqueue (s : Sys) (rid : Nat) (h : Good s) (hw : Written s.log rid) :
    Good { s with execQ := s.execQ ++ [rid] } := by
  refine ⟨?_, h.loopW, h.ord⟩
  intro x hx
  simp only [List.mem_append, List.mem_singleton] at hx
  rcases hx with hx | rfl
  · exact h.execW x hx
  · exact hw

/-- `Good` only looks at the log and the two queues -/
theorem Good.congr {s s' : Sys} (h : Good s) (h1 : s'.log = s.log) (h2 : s'.execQ = s.execQ)
    (h3 : s'.loopQ = s.loopQ) : Good s' :=
  ⟨by rw [h1, h2]; exact h.execW, by rw [h1, h3]; exact h.loopW, by rw [h1]; exact h.ord⟩

theorem good_processResponse (s : Sys) (conn rid : Nat) (r : Resp) (h : Good s)
    (hr : r.pairingChanged = true → r.task = false) : Good (processResponse s conn rid r) := by
  unfold processResponse
  cases hp : r.pairingChanged
  · -- nothing is scheduled
    cases ht : r.task <;> cases hk : r.sharedKey <;> cases hc : r.pairingRemoved <;>
      simp only [Bool.false_eq_true, if_true, if_false]
    · exact good_write _ _ _ h
    · exact (good_write _ conn rid h).congr rfl rfl rfl
    · exact good_cipher _ _ _ (good_write _ _ _ h)
    · exact (good_cipher _ conn rid (good_write _ conn rid h)).congr rfl rfl rfl
    · exact good_deferred _ _ h
    · exact h.congr rfl rfl rfl
    · exact ⟨fun x hx => (h.execW x hx).cons _, fun x hx => (h.loopW x hx).cons _, h.ord⟩
    · exact ⟨fun x hx => (h.execW x hx).cons _, fun x hx => (h.loopW x hx).cons _, h.ord⟩
  · have ht : r.task = false := hr hp
    cases hk : r.sharedKey <;> cases hc : r.pairingRemoved <;>
      simp only [ht, Bool.false_eq_true, if_true, if_false]
    · exact good_enqueue _ _ (good_write _ _ _ h) ⟨conn, List.mem_cons_self ..⟩
    · exact (good_enqueue _ rid (good_write _ conn rid h) ⟨conn, List.mem_cons_self ..⟩).congr rfl rfl rfl
    · exact good_enqueue _ _ (good_cipher _ _ _ (good_write _ _ _ h))
        ⟨conn, List.mem_cons_of_mem _ (List.mem_cons_self ..)⟩
    · exact (good_enqueue _ rid (good_cipher _ conn rid (good_write _ conn rid h))
        ⟨conn, List.mem_cons_of_mem _ (List.mem_cons_self ..)⟩).congr rfl rfl rfl

theorem good_step (s : Sys) (st : Step) (h : Good s) : Good (step s st) := by
  cases st with
  | request conn r =>
    simp only [step]
    by_cases hc : isClosed s conn = true
    · simp only [hc, if_true]; exact h
    · simp only [hc, Bool.false_eq_true, if_false]
      exact good_processResponse _ _ _ _ ⟨h.execW, h.loopW, h.ord⟩
        (handle_changed_not_task s.paired (sessionOf s conn) r)
  | taskDone i =>
    simp only [step]
    cases hd : s.deferred[i]? with
    | none => exact h
    | some cr =>
      obtain ⟨conn, rid⟩ := cr
      by_cases hc : isClosed s conn = true
      · simp only [hc, if_true]
        exact good_deferred _ _ h
      · simp only [hc, Bool.false_eq_true, if_false]
        exact good_deferred _ _ (good_write _ _ _ h)
  | execRun i =>
    simp only [step]
    cases hd : s.execQ[i]? with
    | none => exact h
    | some rid =>
      refine ⟨?_, ?_, h.ord⟩
      · intro x hx
        exact h.execW x ((List.eraseIdx_sublist _ _).mem hx)
      · intro x hx
        cases hsm : s.safeMode
        · simp only [hsm, Bool.false_eq_true, if_false, List.mem_append, List.mem_singleton,
            Option.some.injEq] at hx
          rcases hx with hx | rfl
          · exact h.loopW x hx
          · exact h.execW x (List.mem_of_getElem? hd)
        · simp only [hsm, if_true] at hx
          exact h.loopW x hx
  | loopRun i =>
    simp only [step]
    cases hd : s.loopQ[i]? with
    | none => exact h
    | some cause =>
      have hl : ∀ x, some x ∈ s.loopQ.eraseIdx i → Written (Obs.publish cause (record s) :: s.log) x :=
        fun x hx => (h.loopW x ((List.eraseIdx_sublist _ _).mem hx)).cons _
      have he : ∀ x ∈ s.execQ, Written (Obs.publish cause (record s) :: s.log) x :=
        fun x hx => (h.execW x hx).cons _
      cases cause with
      | none => exact ⟨he, hl, h.ord⟩
      | some rid =>
        have hw : Written s.log rid := h.loopW rid (List.mem_of_getElem? hd)
        exact ⟨he, hl, ⟨hw, h.ord⟩⟩
  | configChanged =>
    simp only [step]
    refine ⟨h.execW, ?_, h.ord⟩
    intro x hx
    simp only [List.mem_append, List.mem_singleton] at hx
    rcases hx with hx | hx
    · exact h.loopW x hx
    · cases hx
  | appRefresh =>
    simp only [step]
    refine ⟨h.execW, ?_, h.ord⟩
    intro x hx
    simp only [List.mem_append, List.mem_singleton] at hx
    rcases hx with hx | hx
    · exact h.loopW x hx
    · cases hx
  | appUnpair c =>
    simp only [step]
    split
    · exact h.congr rfl rfl rfl
    · exact h

theorem good_run (s : Sys) (steps : List Step) (h : Good s) : Good (run s steps) := by
  induction steps generalizing s with
  | nil => exact h
  | cons st rest ih => exact ih _ (good_step s st h)

/-! ## the advertised record follows the state -/

def sfFor (p : Pairings) : Option String := some (if p.isEmpty then "1" else "0")

theorem record_sf (s : Sys) : lookup "sf" (record s) = sfFor s.paired := by
  unfold record sfFor
  cases h : s.paired.isEmpty <;> simp [advertData, lookup]

theorem record_cfg (s : Sys) : lookup "c#" (record s) = some (toString s.info.cfg) := by
  simp [record, advertData, lookup]

/-- the record depends on the pairing table only through "is anybody paired" -/
theorem record_eq {s s' : Sys} (hi : s'.info = s.info) (hp : s'.paired.isEmpty = s.paired.isEmpty) :
    record s' = record s := by
  unfold record; rw [hi, hp]

theorem initialRecord_eq (info : Info) (p : Pairings) (ss : List (Nat × Client)) :
    initialRecord info p = record (init info p ss) := rfl

/-- a refresh is pending, or the advertiser holds the record of the current state -/
def Track (r0 : List (String × String)) (s : Sys) : Prop :=
  (s.execQ ≠ [] ∨ s.loopQ ≠ []) ∨ advertised r0 s.log = record s

theorem pr_execQ (s : Sys) (c rid : Nat) (r : Resp) :
    (processResponse s c rid r).execQ = if r.pairingChanged then s.execQ ++ [rid] else s.execQ := by
  unfold processResponse
  cases r.task <;> cases r.sharedKey <;> cases r.pairingRemoved <;> cases r.pairingChanged <;> rfl

theorem pr_loopQ (s : Sys) (c rid : Nat) (r : Resp) : (processResponse s c rid r).loopQ = s.loopQ := by
  unfold processResponse
  cases r.task <;> cases r.sharedKey <;> cases r.pairingRemoved <;> cases r.pairingChanged <;> rfl

theorem pr_paired (s : Sys) (c rid : Nat) (r : Resp) : (processResponse s c rid r).paired = s.paired := by
  unfold processResponse
  cases r.task <;> cases r.sharedKey <;> cases r.pairingRemoved <;> cases r.pairingChanged <;> rfl

theorem pr_info (s : Sys) (c rid : Nat) (r : Resp) : (processResponse s c rid r).info = s.info := by
  unfold processResponse
  cases r.task <;> cases r.sharedKey <;> cases r.pairingRemoved <;> cases r.pairingChanged <;> rfl

theorem pr_adv (r0 : List (String × String)) (s : Sys) (c rid : Nat) (r : Resp) :
    advertised r0 (processResponse s c rid r).log = advertised r0 s.log := by
  unfold processResponse
  cases r.task <;> cases r.sharedKey <;> cases r.pairingRemoved <;> cases r.pairingChanged <;> rfl

theorem isAdmin_nonempty {p : Pairings} {c : Client} (h : isAdmin p c = true) : p ≠ [] := by
  intro e; subst e; simp [isAdmin] at h

theorem addPairing_nonempty (p : Pairings) (c : Client) (a : Bool) : (addPairing p c a).isEmpty = false := by
  unfold addPairing
  split
  · rename_i h
    cases p with
    | nil => simp [isPaired] at h
    | cons x t => simp
  · cases p <;> simp

/-- a request that does not report a pairing change leaves the "paired at all" status alone -/
theorem handle_unchanged (p : Pairings) (s : Option Client) (r : Req)
    (h : (handle p s r).2.pairingChanged = false) : (handle p s r).1.isEmpty = p.isEmpty := by
  cases r with
  | pairSetupM5 c ok => cases ok <;> simp_all [handle, plain]
  | pairVerifyM3 ok => simp [handle]
  | addPairing c adm =>
    simp only [handle]
    split
    · rename_i ha
      cases s with
      | none => simp [authorized] at ha
      | some sc =>
        have hp : p ≠ [] := isAdmin_nonempty ha
        rw [addPairing_nonempty]
        cases p with
        | nil => exact absurd rfl hp
        | cons x t => rfl
    · rfl
  | removePairing c =>
    simp only [handle] at h ⊢
    split
    · rename_i ha
      simp only [ha, if_true, plain, Bool.and_eq_false_iff] at h
      cases s with
      | none => simp [authorized] at ha
      | some sc =>
        have hp : p ≠ [] := isAdmin_nonempty ha
        have hpe : p.isEmpty = false := by cases p with
          | nil => exact absurd rfl hp
          | cons x t => rfl
        rcases h with h | h
        · rw [h, hpe]
        · simp [hpe] at h
    · rfl
  | resource => simp [handle]
  | other => simp [handle]

/-- a pairing-changing response never carries a session key (so the early `return` of the
    smuggled-plaintext branch in `_process_response` cannot skip a refresh) -/
theorem handle_changed_not_sharedKey (p : Pairings) (ss : Option Client) (r : Req) :
    (handle p ss r).2.pairingChanged = true → (handle p ss r).2.sharedKey = false := by
  cases r <;> simp only [handle, plain] <;> (repeat' split) <;> simp

def Step.isAppUnpair : Step → Bool
  | .appUnpair _ => true
  | _ => false

theorem track_step (r0 : List (String × String)) (s : Sys) (st : Step) (hst : st.isAppUnpair = false)
    (hsm : s.safeMode = false) (h : Track r0 s) : Track r0 (step s st) := by
  cases st with
  | request conn r =>
    simp only [step]
    by_cases hc : isClosed s conn = true
    · simp only [hc, if_true]; exact h
    · simp only [hc, Bool.false_eq_true, if_false]
      unfold Track
      rw [pr_execQ, pr_loopQ, pr_adv]
      cases hp : (handle s.paired (sessionOf s conn) r).2.pairingChanged
      · simp only [Bool.false_eq_true, if_false]
        have e : record (processResponse
            { s with paired := (handle s.paired (sessionOf s conn) r).1, nextRid := s.nextRid + 1 }
            conn s.nextRid (handle s.paired (sessionOf s conn) r).2) = record s :=
          record_eq (by rw [pr_info]) (by rw [pr_paired]; exact handle_unchanged s.paired (sessionOf s conn) r hp)
        rw [e]
        exact h
      · simp
  | taskDone i =>
    simp only [step]
    cases hd : s.deferred[i]? with
    | none => exact h
    | some cr =>
      obtain ⟨conn, rid⟩ := cr
      by_cases hc : isClosed s conn = true
      · simp only [hc, if_true]; exact h
      · simp only [hc, Bool.false_eq_true, if_false]; exact h
  | execRun i =>
    simp only [step]
    cases hd : s.execQ[i]? with
    | none => exact h
    | some rid => exact Or.inl (Or.inr (by simp [hsm]))
  | loopRun i =>
    simp only [step]
    cases hd : s.loopQ[i]? with
    | none => exact h
    | some rid => exact Or.inr rfl
  | configChanged => exact Or.inl (Or.inr (by simp [step]))
  | appRefresh => exact Or.inl (Or.inr (by simp [step]))
  | appUnpair c => simp [Step.isAppUnpair] at hst

theorem pr_safeMode (s : Sys) (c rid : Nat) (r : Resp) : (processResponse s c rid r).safeMode = s.safeMode := by
  unfold processResponse
  cases r.task <;> cases r.sharedKey <;> cases r.pairingRemoved <;> cases r.pairingChanged <;> rfl

/-- nothing in a trace changes the `safe_mode` switch -/
theorem step_safeMode (s : Sys) (st : Step) : (step s st).safeMode = s.safeMode := by
  cases st with
  | request conn r =>
    simp only [step]
    split
    · rfl
    · rw [pr_safeMode]
  | taskDone i =>
    simp only [step]
    split
    · rfl
    · split <;> rfl
  | execRun i => simp only [step]; split <;> rfl
  | loopRun i => simp only [step]; split <;> rfl
  | configChanged => rfl
  | appRefresh => rfl
  | appUnpair c => simp only [step]; split <;> rfl

theorem run_safeMode (s : Sys) (steps : List Step) : (run s steps).safeMode = s.safeMode := by
  induction steps generalizing s with
  | nil => rfl
  | cons st rest ih => exact (ih _).trans (step_safeMode s st)

theorem track_run (r0 : List (String × String)) (s : Sys) (steps : List Step)
    (hst : ∀ st ∈ steps, st.isAppUnpair = false) (hsm : s.safeMode = false) (h : Track r0 s) :
    Track r0 (run s steps) := by
  induction steps generalizing s with
  | nil => exact h
  | cons st rest ih =>
    exact ih _ (fun x hx => hst x (List.mem_cons_of_mem _ hx)) ((step_safeMode s st).trans hsm)
      (track_step r0 s st (hst st List.mem_cons_self) hsm h)

theorem track_init (info : Info) (p : Pairings) (ss : List (Nat × Client)) :
    Track (initialRecord info p) (init info p ss) :=
  Or.inr rfl

theorem run_append (s : Sys) (a b : List Step) : run s (a ++ b) = run (run s a) b := by
  induction a generalizing s with
  | nil => rfl
  | cons st rest ih => exact ih _

/-- an explicit refresh request re-establishes the tracking invariant from *any* state -/
theorem track_refresh (r0 : List (String × String)) (s : Sys) : Track r0 (step s .appRefresh) :=
  Or.inl (Or.inr (by simp [step]))

/-! ## the configuration number and the static fields of every published record -/

theorem bump_range (n : Nat) : 1 ≤ bump n ∧ bump n ≤ 65535 := incr_range _

theorem bump_wrap : bump 65535 = 1 := by decide

theorem bump_succ (n : Nat) (h : n < 65535) : bump n = n + 1 := by
  simp only [bump, incr, MAX_CONFIG_VERSION]
  have : ¬ (n + 1 > 65535) := by omega
  simp [this]

/-- `txt` is the TXT record of the accessory `i0` (name, category, mac, setup hash) with some
    configuration number in 1..65535 and some pairing flag -/
def RecOk (i0 : Info) (txt : List (String × String)) : Prop :=
  ∃ n p, 1 ≤ n ∧ n ≤ 65535 ∧ txt = advertData { i0 with cfg := n, paired := p }

/-- static identity kept, configuration number in range, every published record well-formed -/
structure Pub (i0 : Info) (s : Sys) : Prop where
  ident : s.info.display = i0.display ∧ s.info.category = i0.category ∧ s.info.mac = i0.mac ∧
    s.info.setupHash = i0.setupHash
  cfg : 1 ≤ s.info.cfg ∧ s.info.cfg ≤ 65535
  log : ∀ c txt, Obs.publish c txt ∈ s.log → RecOk i0 txt

theorem pub_init (info : Info) (p : Pairings) (ss : List (Nat × Client))
    (h : 1 ≤ info.cfg ∧ info.cfg ≤ 65535) (safe : Bool := false) : Pub info (init info p ss safe) :=
  ⟨⟨rfl, rfl, rfl, rfl⟩, h, by simp [init]⟩

theorem record_recOk {i0 : Info} {s : Sys} (h : Pub i0 s) : RecOk i0 (record s) := by
  refine ⟨s.info.cfg, !s.paired.isEmpty, h.cfg.1, h.cfg.2, ?_⟩
  obtain ⟨h1, h2, h3, h4⟩ := h.ident
  unfold record
  congr 1
  cases hi : s.info
  cases i0
  simp_all

theorem pr_mem_log' (s : Sys) (c rid : Nat) (r : Resp) (o : Obs)
    (h : o ∈ (processResponse s c rid r).log) :
    o ∈ s.log ∨ o = Obs.write c rid ∨ o = Obs.cipher c rid := by
  unfold processResponse at h
  revert h
  cases r.task <;> cases r.sharedKey <;> cases r.pairingRemoved <;> cases r.pairingChanged <;>
    simp only [Bool.false_eq_true, if_true, if_false, List.mem_cons] <;> intro h <;>
    first
      | exact Or.inl h
      | (rcases h with rfl | h
         · first | exact Or.inr (Or.inl rfl) | exact Or.inr (Or.inr rfl)
         · first
            | exact Or.inl h
            | (rcases h with rfl | h
               · first | exact Or.inr (Or.inl rfl) | exact Or.inr (Or.inr rfl)
               · exact Or.inl h))

theorem pub_step (i0 : Info) (s : Sys) (st : Step) (h : Pub i0 s) : Pub i0 (step s st) := by
  cases st with
  | request conn r =>
    simp only [step]
    by_cases hc : isClosed s conn = true
    · simp only [hc, if_true]; exact h
    · simp only [hc, Bool.false_eq_true, if_false]
      refine ⟨by rw [pr_info]; exact h.ident, by rw [pr_info]; exact h.cfg, ?_⟩
      intro c txt hm
      rcases pr_mem_log' _ _ _ _ _ hm with hm | hm | hm
      · exact h.log c txt hm
      · cases hm
      · cases hm
  | taskDone i =>
    simp only [step]
    cases hd : s.deferred[i]? with
    | none => exact h
    | some cr =>
      obtain ⟨conn, rid⟩ := cr
      by_cases hc : isClosed s conn = true
      · simp only [hc, if_true]; exact ⟨h.ident, h.cfg, h.log⟩
      · simp only [hc, Bool.false_eq_true, if_false]
        refine ⟨h.ident, h.cfg, ?_⟩
        intro c txt hm
        simp only [List.mem_cons] at hm
        rcases hm with hm | hm
        · cases hm
        · exact h.log c txt hm
  | execRun i =>
    simp only [step]
    cases hd : s.execQ[i]? with
    | none => exact h
    | some rid => exact ⟨h.ident, h.cfg, h.log⟩
  | loopRun i =>
    simp only [step]
    cases hd : s.loopQ[i]? with
    | none => exact h
    | some cause =>
      refine ⟨h.ident, h.cfg, ?_⟩
      intro c txt hm
      simp only [List.mem_cons, Obs.publish.injEq] at hm
      rcases hm with ⟨_, rfl⟩ | hm
      · exact record_recOk h
      · exact h.log c txt hm
  | configChanged =>
    simp only [step]
    exact ⟨h.ident, bump_range _, h.log⟩
  | appRefresh => exact ⟨h.ident, h.cfg, h.log⟩
  | appUnpair c =>
    simp only [step]
    split
    · exact ⟨h.ident, h.cfg, h.log⟩
    · exact h

theorem pub_run (i0 : Info) (s : Sys) (steps : List Step) (h : Pub i0 s) : Pub i0 (run s steps) := by
  induction steps generalizing s with
  | nil => exact h
  | cons st rest ih => exact ih _ (pub_step i0 s st h)

/-! ## request identifiers are fresh -/

def Obs.rid : Obs → Option Nat
  | .write _ r => some r
  | .cipher _ r => some r
  | .publish c _ => c

/-- every identifier mentioned anywhere belongs to a request that was already dispatched -/
structure Fresh (s : Sys) : Prop where
  log : ∀ o ∈ s.log, ∀ r, o.rid = some r → r < s.nextRid
  deferred : ∀ d ∈ s.deferred, d.2 < s.nextRid
  execQ : ∀ r ∈ s.execQ, r < s.nextRid
  loopQ : ∀ r, some r ∈ s.loopQ → r < s.nextRid

theorem fresh_init (info : Info) (p : Pairings) (ss : List (Nat × Client)) (safe : Bool := false) :
    Fresh (init info p ss safe) :=
  ⟨by simp [init], by simp [init], by simp [init], by simp [init]⟩

theorem pr_nextRid (s : Sys) (c rid : Nat) (r : Resp) : (processResponse s c rid r).nextRid = s.nextRid := by
  unfold processResponse
  cases r.task <;> cases r.sharedKey <;> cases r.pairingRemoved <;> cases r.pairingChanged <;> rfl

theorem pr_mem_deferred (s : Sys) (c rid : Nat) (r : Resp) (d : Nat × Nat)
    (h : d ∈ (processResponse s c rid r).deferred) : d ∈ s.deferred ∨ d.2 = rid := by
  unfold processResponse at h
  revert h
  cases r.task <;> cases r.sharedKey <;> cases r.pairingRemoved <;> cases r.pairingChanged <;>
    simp only [Bool.false_eq_true, if_true, if_false, List.mem_append, List.mem_singleton] <;> intro h <;>
    first
      | exact Or.inl h
      | (rcases h with h | rfl
         · exact Or.inl h
         · exact Or.inr rfl)

theorem pr_mem_execQ (s : Sys) (c rid : Nat) (r : Resp) (x : Nat)
    (h : x ∈ (processResponse s c rid r).execQ) : x ∈ s.execQ ∨ x = rid := by
  rw [pr_execQ] at h
  cases hp : r.pairingChanged
  · rw [hp] at h; exact Or.inl (by simpa using h)
  · rw [hp] at h
    simp only [if_true, List.mem_append, List.mem_singleton] at h
    exact h

theorem fresh_processResponse (s : Sys) (conn : Nat) (r : Resp) (p : Pairings) (h : Fresh s) :
    Fresh (processResponse { s with paired := p, nextRid := s.nextRid + 1 } conn s.nextRid r) := by
  obtain ⟨h1, h2, h3, h4⟩ := h
  refine ⟨?_, ?_, ?_, ?_⟩
  · intro o ho x hx
    rw [pr_nextRid]
    show x < s.nextRid + 1
    rcases pr_mem_log' _ _ _ _ _ ho with ho | rfl | rfl
    · exact Nat.lt_succ_of_lt (h1 o ho x hx)
    · simp only [Obs.rid, Option.some.injEq] at hx; omega
    · simp only [Obs.rid, Option.some.injEq] at hx; omega
  · intro d hd
    rw [pr_nextRid]
    rcases pr_mem_deferred _ _ _ _ _ hd with hd | hd
    · exact Nat.lt_succ_of_lt (h2 d hd)
    · show d.2 < s.nextRid + 1
      omega
  · intro x hx
    rw [pr_nextRid]
    rcases pr_mem_execQ _ _ _ _ _ hx with hx | hx
    · exact Nat.lt_succ_of_lt (h3 x hx)
    · show x < s.nextRid + 1
      omega
  · intro x hx
    rw [pr_nextRid]
    rw [pr_loopQ] at hx
    exact Nat.lt_succ_of_lt (h4 x hx)

theorem fresh_step (s : Sys) (st : Step) (h : Fresh s) : Fresh (step s st) := by
  cases st with
  | request conn r =>
    simp only [step]
    by_cases hc : isClosed s conn = true
    · simp only [hc, if_true]; exact h
    · simp only [hc, Bool.false_eq_true, if_false]
      exact fresh_processResponse s conn _ _ h
  | taskDone i =>
    simp only [step]
    cases hd : s.deferred[i]? with
    | none => exact h
    | some cr =>
      obtain ⟨conn, rid⟩ := cr
      by_cases hc : isClosed s conn = true
      · simp only [hc, if_true]
        exact ⟨h.log, fun d hd' => h.deferred d ((List.eraseIdx_sublist _ _).mem hd'), h.execQ, h.loopQ⟩
      · simp only [hc, Bool.false_eq_true, if_false]
        refine ⟨?_, ?_, h.execQ, h.loopQ⟩
        · intro o ho x hx
          simp only [List.mem_cons] at ho
          rcases ho with rfl | ho
          · simp only [Obs.rid, Option.some.injEq] at hx
            subst hx
            exact h.deferred (conn, rid) (List.mem_of_getElem? hd)
          · exact h.log o ho x hx
        · intro d hd'
          exact h.deferred d ((List.eraseIdx_sublist _ _).mem hd')
  | execRun i =>
    simp only [step]
    cases hd : s.execQ[i]? with
    | none => exact h
    | some rid =>
      refine ⟨h.log, h.deferred, ?_, ?_⟩
      · intro x hx; exact h.execQ x ((List.eraseIdx_sublist _ _).mem hx)
      · intro x hx
        cases hsm : s.safeMode
        · simp only [hsm, Bool.false_eq_true, if_false, List.mem_append, List.mem_singleton,
            Option.some.injEq] at hx
          rcases hx with hx | rfl
          · exact h.loopQ x hx
          · exact h.execQ x (List.mem_of_getElem? hd)
        · simp only [hsm, if_true] at hx
          exact h.loopQ x hx
  | loopRun i =>
    simp only [step]
    cases hd : s.loopQ[i]? with
    | none => exact h
    | some cause =>
      refine ⟨?_, h.deferred, h.execQ, ?_⟩
      · intro o ho x hx
        simp only [List.mem_cons] at ho
        rcases ho with rfl | ho
        · simp only [Obs.rid] at hx
          subst hx
          exact h.loopQ x (List.mem_of_getElem? hd)
        · exact h.log o ho x hx
      · intro x hx; exact h.loopQ x ((List.eraseIdx_sublist _ _).mem hx)
  | configChanged =>
    simp only [step]
    refine ⟨h.log, h.deferred, h.execQ, ?_⟩
    intro x hx
    simp only [List.mem_append, List.mem_singleton] at hx
    rcases hx with hx | hx
    · exact h.loopQ x hx
    · cases hx
  | appRefresh =>
    simp only [step]
    refine ⟨h.log, h.deferred, h.execQ, ?_⟩
    intro x hx
    simp only [List.mem_append, List.mem_singleton] at hx
    rcases hx with hx | hx
    · exact h.loopQ x hx
    · cases hx
  | appUnpair c =>
    simp only [step]
    split
    · exact ⟨h.log, h.deferred, h.execQ, h.loopQ⟩
    · exact h

theorem fresh_run (s : Sys) (steps : List Step) (h : Fresh s) : Fresh (run s steps) := by
  induction steps generalizing s with
  | nil => exact h
  | cons st rest ih => exact ih _ (fresh_step s st h)

/-! ## a response is written on the connection its request arrived on -/

theorem pr_mem_deferred' (s : Sys) (c rid : Nat) (r : Resp) (d : Nat × Nat)
    (h : d ∈ (processResponse s c rid r).deferred) : d ∈ s.deferred ∨ d = (c, rid) := by
  unfold processResponse at h
  revert h
  cases r.task <;> cases r.sharedKey <;> cases r.pairingRemoved <;> cases r.pairingChanged <;>
    simp only [Bool.false_eq_true, if_true, if_false, List.mem_append, List.mem_singleton] <;> intro h <;>
    first
      | exact Or.inl h
      | (rcases h with h | rfl
         · exact Or.inl h
         · exact Or.inr rfl)

/-- request `rid` has been dispatched, and whatever is or will be written for it goes to `conn` -/
structure Own (conn rid : Nat) (s : Sys) : Prop where
  lt : rid < s.nextRid
  log : ∀ c, Obs.write c rid ∈ s.log → c = conn
  deferred : ∀ d ∈ s.deferred, d.2 = rid → d.1 = conn

theorem own_request (s : Sys) (conn : Nat) (r : Req) (hf : Fresh s) (hc : isClosed s conn = false) :
    Own conn s.nextRid (step s (.request conn r)) := by
  simp only [step, hc, Bool.false_eq_true, if_false]
  refine ⟨by rw [pr_nextRid]; exact Nat.lt_succ_self _, ?_, ?_⟩
  · intro c h
    rcases pr_mem_log' _ _ _ _ _ h with h | h | h
    · exact absurd (hf.log _ h s.nextRid rfl) (Nat.lt_irrefl _)
    · simp only [Obs.write.injEq] at h; exact h.1
    · cases h
  · intro d hd he
    rcases pr_mem_deferred' _ _ _ _ _ hd with hd | hd
    · exact absurd (he ▸ hf.deferred d hd) (Nat.lt_irrefl _)
    · rw [hd]

theorem own_step (conn rid : Nat) (s : Sys) (st : Step) (h : Own conn rid s) : Own conn rid (step s st) := by
  cases st with
  | request conn' r =>
    simp only [step]
    by_cases hc : isClosed s conn' = true
    · simp only [hc, if_true]; exact h
    · simp only [hc, Bool.false_eq_true, if_false]
      refine ⟨by rw [pr_nextRid]; exact Nat.lt_succ_of_lt h.lt, ?_, ?_⟩
      · intro c hm
        rcases pr_mem_log' _ _ _ _ _ hm with hm | hm | hm
        · exact h.log c hm
        · simp only [Obs.write.injEq] at hm
          exact absurd h.lt (by rw [hm.2]; exact Nat.lt_irrefl _)
        · cases hm
      · intro d hd he
        rcases pr_mem_deferred' _ _ _ _ _ hd with hd | hd
        · exact h.deferred d hd he
        · rw [hd] at he
          exact absurd h.lt (by rw [← he]; exact Nat.lt_irrefl _)
  | taskDone i =>
    simp only [step]
    cases hd : s.deferred[i]? with
    | none => exact h
    | some cr =>
      obtain ⟨conn', rid'⟩ := cr
      have hsub : ∀ d ∈ s.deferred.eraseIdx i, d.2 = rid → d.1 = conn :=
        fun d hd' => h.deferred d ((List.eraseIdx_sublist _ _).mem hd')
      by_cases hc : isClosed s conn' = true
      · simp only [hc, if_true]
        exact ⟨h.lt, h.log, hsub⟩
      · simp only [hc, Bool.false_eq_true, if_false]
        refine ⟨h.lt, ?_, hsub⟩
        intro c hm
        simp only [List.mem_cons] at hm
        rcases hm with hm | hm
        · simp only [Obs.write.injEq] at hm
          rw [hm.1]
          exact h.deferred (conn', rid') (List.mem_of_getElem? hd) hm.2.symm
        · exact h.log c hm
  | execRun i =>
    simp only [step]
    cases hd : s.execQ[i]? with
    | none => exact h
    | some r => exact ⟨h.lt, h.log, h.deferred⟩
  | loopRun i =>
    simp only [step]
    cases hd : s.loopQ[i]? with
    | none => exact h
    | some cause =>
      refine ⟨h.lt, ?_, h.deferred⟩
      intro c hm
      simp only [List.mem_cons] at hm
      rcases hm with hm | hm
      · cases hm
      · exact h.log c hm
  | configChanged => exact ⟨h.lt, h.log, h.deferred⟩
  | appRefresh => exact ⟨h.lt, h.log, h.deferred⟩
  | appUnpair c =>
    simp only [step]
    split
    · exact ⟨h.lt, h.log, h.deferred⟩
    · exact h

theorem own_run (conn rid : Nat) (s : Sys) (steps : List Step) (h : Own conn rid s) :
    Own conn rid (run s steps) := by
  induction steps generalizing s with
  | nil => exact h
  | cons st rest ih => exact ih _ (own_step conn rid s st h)

/-! ## safe mode: no refresh is ever caused by a request -/

structure Quiet (s : Sys) : Prop where
  safe : s.safeMode = true
  loopQ : ∀ r, some r ∉ s.loopQ
  log : ∀ r txt, Obs.publish (some r) txt ∉ s.log

theorem quiet_init (info : Info) (p : Pairings) (ss : List (Nat × Client)) : Quiet (init info p ss true) :=
  ⟨rfl, by simp [init], by simp [init]⟩

theorem quiet_step (s : Sys) (st : Step) (h : Quiet s) : Quiet (step s st) := by
  refine ⟨(step_safeMode s st).trans h.safe, ?_, ?_⟩
  · cases st with
    | request conn r =>
      simp only [step]
      split
      · exact h.loopQ
      · rw [pr_loopQ]; exact h.loopQ
    | taskDone i =>
      simp only [step]
      split
      · exact h.loopQ
      · split <;> exact h.loopQ
    | execRun i =>
      simp only [step]
      split
      · exact h.loopQ
      · simp only [h.safe, if_true]; exact h.loopQ
    | loopRun i =>
      simp only [step]
      split
      · exact h.loopQ
      · intro r hr; exact h.loopQ r ((List.eraseIdx_sublist _ _).mem hr)
    | configChanged =>
      intro r hr
      simp only [step, List.mem_append, List.mem_singleton] at hr
      rcases hr with hr | hr
      · exact h.loopQ r hr
      · cases hr
    | appRefresh =>
      intro r hr
      simp only [step, List.mem_append, List.mem_singleton] at hr
      rcases hr with hr | hr
      · exact h.loopQ r hr
      · cases hr
    | appUnpair c => simp only [step]; split <;> exact h.loopQ
  · cases st with
    | request conn r =>
      simp only [step]
      split
      · exact h.log
      · intro r' txt hm
        rcases pr_mem_log' _ _ _ _ _ hm with hm | hm | hm
        · exact h.log r' txt hm
        · cases hm
        · cases hm
    | taskDone i =>
      simp only [step]
      split
      · exact h.log
      · split
        · exact h.log
        · intro r' txt hm
          simp only [List.mem_cons] at hm
          rcases hm with hm | hm
          · cases hm
          · exact h.log r' txt hm
    | execRun i => simp only [step]; split <;> exact h.log
    | loopRun i =>
      simp only [step]
      split
      · exact h.log
      · rename_i cause hd
        intro r' txt hm
        simp only [List.mem_cons, Obs.publish.injEq] at hm
        rcases hm with ⟨hc, _⟩ | hm
        · exact h.loopQ r' (hc ▸ List.mem_of_getElem? hd)
        · exact h.log r' txt hm
    | configChanged => exact h.log
    | appRefresh => exact h.log
    | appUnpair c => simp only [step]; split <;> exact h.log

theorem quiet_run (s : Sys) (steps : List Step) (h : Quiet s) : Quiet (run s steps) := by
  induction steps generalizing s with
  | nil => exact h
  | cons st rest ih => exact ih _ (quiet_step s st h)

end Hap.AdvertSys
