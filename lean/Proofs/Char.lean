/-
  Lemmas for the Characteristic layer (C09).  Core Lean only.
-/
import HapModel.Char
import HapModel.Gen.Chars
namespace Hap.Char
open Gen

/-! ### order facts (only two are needed: `<` implies `≤`, and `≤` is reflexive off NaN) -/

theorem Num.le_of_lt {a b : Num} (h : a.lt b = true) : a.le b = true := by
  cases a <;> cases b <;> simp_all [Num.lt, Num.le]
  exact Rat.le_of_lt h

theorem Num.le_refl_fin (q : Rat) : (Num.fin q).le (.fin q) = true := by
  simp [Num.le]

theorem Num.lt_not_nan_left {a b : Num} (h : a.lt b = true) : a ≠ .nan := by
  cases a <;> simp_all [Num.lt]

/-- an integral rational is the cast of its numerator -/
theorem rat_eq_num_of_den_one {q : Rat} (h : q.den = 1) : q = (q.num : Rat) := by
  apply Rat.ext <;> simp [h]

/-- `int()` of a rational inside `[a, b]` with integer bounds stays inside `[a, b]` -/
theorem truncRat_bounds (q : Rat) :
    (∀ a : Int, (a : Rat) ≤ q → (a : Rat) ≤ ((truncRat q : Int) : Rat)) ∧
    (∀ b : Int, q ≤ (b : Rat) → ((truncRat q : Int) : Rat) ≤ (b : Rat)) := by
  unfold truncRat
  constructor
  · intro a ha
    split
    · exact Rat.intCast_le_intCast.mpr (Rat.le_floor_iff.mpr ha)
    · exact Rat.le_trans ha Rat.le_ceil
  · intro b hb
    split
    · exact Rat.le_trans (Rat.floor_le q) hb
    · exact Rat.intCast_le_intCast.mpr (Rat.ceil_le_iff.mpr hb)


/-! ### values -/

theorem Val.le_of_lt {a b : Val} (h : a.lt b = true) : a.le b = true := by
  unfold Val.lt at h; unfold Val.le
  cases ha : a.num <;> cases hb : b.num <;> simp_all
  exact Num.le_of_lt h

theorem isFinNum_num {v : Val} (h : isFinNum v = true) : ∃ q, v.num = some (.fin q) := by
  cases v with
  | int i => exact ⟨_, rfl⟩
  | float x => cases x <;> simp_all [isFinNum, Val.num]
  | _ => simp [isFinNum] at h

theorem Val.le_refl_fin {v : Val} (h : isFinNum v = true) : v.le v = true := by
  obtain ⟨q, hq⟩ := isFinNum_num h
  simp [Val.le, hq, Num.le]

theorem isFinNum_isNumeric {v : Val} (h : isFinNum v = true) : v.isNumeric = true := by
  obtain ⟨q, hq⟩ := isFinNum_num h
  simp [Val.isNumeric, hq]

/-- The well-formedness of bounds that `consistent` gives for numeric formats. -/
structure BoundsOk (p : Props) : Prop where
  lo : ∀ lo, p.minV = some lo → isFinNum lo = true
  hi : ∀ hi, p.maxV = some hi → isFinNum hi = true
  le : ∀ lo hi, p.minV = some lo → p.maxV = some hi → lo.le hi = true


/-- **clamp lands in `[min, max]`** whatever goes in (NaN, ±inf, huge), when `min ≤ max` -/
theorem clamp_inBounds {p : Props} (h : BoundsOk p) (v : Val) : inBounds p (clamp p v) = true := by
  unfold clamp inBounds Val.pyMin Val.pyMax
  cases hlo : p.minV with
  | none =>
    cases hhi : p.maxV with
    | none => simp
    | some hi =>
      have hh := Val.le_refl_fin (h.hi hi hhi)
      simp only [Option.getD_some]
      repeat' split
      all_goals simp_all [Val.le_of_lt]
  | some lo =>
    have hl := Val.le_refl_fin (h.lo lo hlo)
    cases hhi : p.maxV with
    | none =>
      simp only [Option.getD_some, Option.getD_none]
      repeat' split
      all_goals simp_all [Val.le_of_lt]
    | some hi =>
      have hh := Val.le_refl_fin (h.hi hi hhi)
      have hlh := h.le lo hi hlo hhi
      simp only [Option.getD_some]
      repeat' split
      all_goals simp_all [Val.le_of_lt]


/-- the clamp returns its argument or one of the declared bounds -/
theorem clamp_cases (p : Props) (v : Val) :
    clamp p v = v ∨ p.maxV = some (clamp p v) ∨ p.minV = some (clamp p v) := by
  unfold clamp Val.pyMin Val.pyMax
  cases hlo : p.minV <;> cases hhi : p.maxV <;> simp only [Option.getD_some, Option.getD_none] <;>
    (repeat' split) <;> simp_all

/-! ### `int()` keeps a value inside integral bounds -/

theorem intBound_num {v : Val} (h1 : isFinNum v = true) (h2 : isIntegralVal v = true) :
    ∃ a : Int, v.num = some (.fin (a : Rat)) := by
  cases v with
  | int i => exact ⟨i, rfl⟩
  | float x =>
    cases x with
    | fin q =>
      refine ⟨q.num, ?_⟩
      have hd : q.den = 1 := by simpa [isIntegralVal, Num.isIntegral] using h2
      have := rat_eq_num_of_den_one hd
      simp only [Val.num]; rw [← this]
    | _ => simp [isFinNum] at h1
  | _ => simp [isFinNum] at h1

theorem bool_num (b : Bool) : (Val.bool b).num = (Val.int (if b then 1 else 0)).num := by
  cases b <;> simp [Val.num]

theorem toInt_le_lo {lo v : Val} {i : Int} (h1 : isFinNum lo = true) (h2 : isIntegralVal lo = true)
    (hle : lo.le v = true) (hi : toInt v = .ok i) : lo.le (.int i) = true := by
  obtain ⟨a, ha⟩ := intBound_num h1 h2
  cases v with
  | int j => simp [toInt] at hi; subst hi; exact hle
  | bool b =>
    simp [toInt] at hi; subst hi
    unfold Val.le at hle ⊢; rw [bool_num] at hle; exact hle
  | float x =>
    cases x with
    | fin q =>
      simp [toInt] at hi; subst hi
      unfold Val.le at hle ⊢
      rw [ha] at hle ⊢
      simp only [Val.num, Num.le, decide_eq_true_eq] at hle ⊢
      exact (truncRat_bounds q).1 a hle
    | _ => simp [toInt] at hi
  | _ => simp [toInt] at hi

theorem toInt_le_hi {hi v : Val} {i : Int} (h1 : isFinNum hi = true) (h2 : isIntegralVal hi = true)
    (hle : v.le hi = true) (hi' : toInt v = .ok i) : (Val.int i).le hi = true := by
  obtain ⟨a, ha⟩ := intBound_num h1 h2
  cases v with
  | int j => simp [toInt] at hi'; subst hi'; exact hle
  | bool b =>
    simp [toInt] at hi'; subst hi'
    unfold Val.le at hle ⊢; rw [bool_num] at hle; exact hle
  | float x =>
    cases x with
    | fin q =>
      simp [toInt] at hi'; subst hi'
      unfold Val.le at hle ⊢
      rw [ha] at hle ⊢
      simp only [Val.num, Num.le, decide_eq_true_eq] at hle ⊢
      exact (truncRat_bounds q).2 a hle
    | _ => simp [toInt] at hi'
  | _ => simp [toInt] at hi'


/-! ### what `consistent` provides -/

theorem optAll_some {f : Val → Bool} {o : Option Val} (h : optAll f o = true) :
    ∀ v, o = some v → f v = true := by
  intro v hv; subst hv; exact h

theorem consistent_boundsOk {p : Props} (hc : consistent p = true) (hn : p.fmt.isNumeric = true) :
    BoundsOk p := by
  simp only [consistent, hn, if_true, Bool.and_eq_true] at hc
  obtain ⟨_, ⟨⟨⟨⟨hlo, hhi⟩, hle⟩, _⟩, _⟩, _⟩ := hc
  refine ⟨optAll_some hlo, optAll_some hhi, ?_⟩
  intro lo hi h1 h2
  simpa [h1, h2] using hle

theorem consistent_integral {p : Props} (hc : consistent p = true) (hi : p.fmt.isInteger = true) :
    (∀ lo, p.minV = some lo → isIntegralVal lo = true) ∧
    (∀ hi, p.maxV = some hi → isIntegralVal hi = true) := by
  have hn : p.fmt.isNumeric = true := by cases h : p.fmt <;> simp_all [Fmt.isNumeric, Fmt.isInteger]
  simp only [consistent, hn, hi, if_true, Bool.and_eq_true, Bool.not_true, Bool.false_or] at hc
  obtain ⟨_, ⟨⟨_, h1, h2⟩, _⟩, _⟩ := hc
  exact ⟨optAll_some h1, optAll_some h2⟩

theorem consistent_vv {p : Props} (hc : consistent p = true) (hn : p.fmt.isNumeric = true) :
    ∀ i ∈ p.vv, inBounds p (.int i) = true := by
  simp only [consistent, hn, if_true, Bool.and_eq_true, List.all_eq_true] at hc
  exact hc.2.1.2

theorem consistent_step {p : Props} (hc : consistent p = true) (hn : p.fmt.isNumeric = true) :
    ∀ s, p.minStep = some s → s.isNumeric = true := by
  simp only [consistent, hn, if_true, Bool.and_eq_true] at hc
  exact optAll_some hc.2.2

theorem consistent_vv_nil {p : Props} (hc : consistent p = true) (hn : p.fmt.isNumeric = false) :
    p.vv = [] := by
  simp only [consistent, hn, Bool.and_eq_true] at hc
  simpa using hc.2

/-! ### `to_valid_value` produces a value of the right class inside the bounds -/

theorem toValid_numeric (E : Ext) {p : Props} (hn : p.fmt.isNumeric = true) (v : Val) :
    toValid E p v = toValidNum E p v := by
  unfold toValid
  cases hf : p.fmt <;> simp_all [Fmt.isNumeric]

theorem confBase_numeric {p : Props} (hn : p.fmt.isNumeric = true) (v : Val) :
    confBase p v = confNum p v := by
  unfold confBase
  cases hf : p.fmt <;> simp_all [Fmt.isNumeric]

theorem stepped_numeric {E : Ext} {p : Props} {v v1 : Val} (hv : v.isNumeric = true)
    (h : stepped E p v = .ok v1) : v1.isNumeric = true := by
  unfold stepped at h
  split at h
  · rename_i s _
    split at h
    · cases hs : E.stepRound v s with
      | error e => simp [hs, Except.map] at h
      | ok r =>
        simp [hs, Except.map] at h; subst h
        cases r <;> simp [PNum.toVal, Val.isNumeric, Val.num]
    · simp at h; subst h; exact hv
  · simp at h; subst h; exact hv

theorem clamp_numeric {p : Props} (h : BoundsOk p) {v : Val} (hv : v.isNumeric = true) :
    (clamp p v).isNumeric = true := by
  rcases clamp_cases p v with h1 | h1 | h1
  · rw [h1]; exact hv
  · exact isFinNum_isNumeric (h.hi _ h1)
  · exact isFinNum_isNumeric (h.lo _ h1)

theorem toValid_confBase {E : Ext} {p : Props} (hc : consistent p = true) {v v' : Val}
    (h : toValid E p v = .ok v') : confBase p v' = true := by
  by_cases hn : p.fmt.isNumeric = true
  · have hb := consistent_boundsOk hc hn
    rw [toValid_numeric E hn] at h
    rw [confBase_numeric hn]
    unfold toValidNum at h
    unfold confNum
    split at h
    · simp at h
    · rename_i hvn
      have hvn : v.isNumeric = true := by simpa using hvn
      split at h
      · simp at h
      · rename_i v1 hs
        have h1n := stepped_numeric hvn hs
        have hcl := clamp_inBounds hb v1
        by_cases hi : p.fmt.isInteger = true
        · simp only [hi, if_true] at h ⊢
          cases ht : toInt (clamp p v1) with
          | error e => simp [ht, Except.map] at h
          | ok i =>
            simp [ht, Except.map] at h; subst h
            obtain ⟨ilo, ihi⟩ := consistent_integral hc hi
            simp only [inBounds, Bool.and_eq_true] at hcl ⊢
            constructor
            · cases hlo : p.minV with
              | none => rfl
              | some lo =>
                simp only [hlo] at hcl ⊢
                exact toInt_le_lo (hb.lo _ hlo) (ilo _ hlo) hcl.1 ht
            · cases hhi : p.maxV with
              | none => rfl
              | some hi' =>
                simp only [hhi] at hcl ⊢
                exact toInt_le_hi (hb.hi _ hhi) (ihi _ hhi) hcl.2 ht
        · simp only [hi] at h ⊢
          simp at h; subst h
          simp [clamp_numeric hb h1n, hcl]
  · have hn' : p.fmt.isNumeric = false := by simpa using hn
    unfold toValid at h
    unfold confBase
    cases hf : p.fmt with
    | string =>
      simp only [hf] at h
      injection h with h; subst h
      simp only [List.length_take, decide_eq_true_eq]
      exact Nat.min_le_left _ _
    | bool => simp only [hf] at h; injection h with h; subst h; rfl
    | _ => simp_all [Fmt.isNumeric]


/-! ### exception classes, the valid-values check, the default value -/

/-- Assumption on the external step-rounding expression: on `int`/`float`/`bool` operands
    (the only ones it is evaluated on under a consistent property set) Python's `/`, `*`, `round`
    raise nothing but `ValueError` (NaN) or `OverflowError` (inf, huge ints).  Nothing is assumed
    about other operands (a string step raises `TypeError` in Python). -/
def StepExnOk (E : Ext) : Prop :=
  ∀ v s e, v.isNumeric = true → s.isNumeric = true → E.stepRound v s = .error e →
    e = .valueError ∨ e = .overflowError

theorem toInt_fin {v : Val} (h : isFinNum v = true) : ∃ i, toInt v = .ok i := by
  cases v with
  | int i => exact ⟨i, rfl⟩
  | float x => cases x <;> simp_all [isFinNum, toInt]
  | _ => simp [isFinNum] at h

theorem toInt_exn {v : Val} {e : Exn} (hv : v.isNumeric = true) (h : toInt v = .error e) :
    e = .valueError ∨ e = .overflowError := by
  cases v with
  | float x => cases x <;> simp_all [toInt]
  | _ => simp_all [toInt, Val.isNumeric, Val.num]

theorem stepped_exn {E : Ext} (hE : StepExnOk E) {p : Props} {v : Val} {e : Exn}
    (hv : v.isNumeric = true) (hstep : ∀ s, p.minStep = some s → s.isNumeric = true)
    (h : stepped E p v = .error e) : e = .valueError ∨ e = .overflowError := by
  unfold stepped at h
  split at h
  · rename_i s hs0
    split at h
    · cases hs : E.stepRound v s with
      | error e' => simp [hs, Except.map] at h; subst h; exact hE _ _ _ hv (hstep s hs0) hs
      | ok r => simp [hs, Except.map] at h
    · simp at h
  · simp at h

theorem toValid_exn {E : Ext} (hE : StepExnOk E) {p : Props} (hc : consistent p = true) {v : Val}
    {e : Exn} (h : toValid E p v = .error e) : e = .valueError ∨ e = .overflowError := by
  by_cases hn : p.fmt.isNumeric = true
  · have hb := consistent_boundsOk hc hn
    rw [toValid_numeric E hn] at h
    unfold toValidNum at h
    split at h
    · simp at h; exact Or.inl h.symm
    · rename_i hvn
      have hvn : v.isNumeric = true := by simpa using hvn
      split at h
      · rename_i e' hs
        simp at h; subst h; exact stepped_exn hE hvn (consistent_step hc hn) hs
      · rename_i v1 hs
        have h1n := stepped_numeric hvn hs
        split at h
        · cases ht : toInt (clamp p v1) with
          | error e' =>
            simp [ht, Except.map] at h; subst h
            exact toInt_exn (clamp_numeric hb h1n) ht
          | ok i => simp [ht, Except.map] at h
        · simp at h
  · unfold toValid at h
    cases hf : p.fmt <;> simp_all [Fmt.isNumeric]

theorem validOrRaise_ok {L : Variant} (hL : L.nullSkipsAll = false) {cfg : Cfg} {p : Props} {v : Val}
    (h : validOrRaise L cfg p v = .ok ()) :
    (cfg.alwaysNull = true ∧ v = .null) ∨ (p.vv.isEmpty || v.memInts p.vv) = true := by
  unfold validOrRaise at h
  simp only [hL, Bool.false_or] at h
  split at h
  · rename_i hh
    simp only [Bool.and_eq_true, beq_iff_eq] at hh
    exact Or.inl hh
  · split at h
    · rename_i hh; right; simp [hh]
    · split at h
      · rename_i hh; right; simp [hh]
      · simp at h

theorem validOrRaise_exn {L : Variant} {cfg : Cfg} {p : Props} {v : Val} {e : Exn}
    (h : validOrRaise L cfg p v = .error e) : e = .valueError := by
  unfold validOrRaise at h
  repeat' split at h
  all_goals simp_all

theorem foldl_min_mem (xs : List Int) (x : Int) : xs.foldl min x = x ∨ xs.foldl min x ∈ xs := by
  induction xs generalizing x with
  | nil => left; rfl
  | cons y ys ih =>
    simp only [List.foldl_cons, List.mem_cons]
    rcases ih (min x y) with h | h
    · rw [h]
      rcases Int.min_def x y ▸ (by split <;> simp : (if x ≤ y then x else y) = x ∨ (if x ≤ y then x else y) = y) with h' | h'
      · left; exact h'
      · right; left; exact h'
    · right; right; exact h

theorem minInts_mem {vv : List Int} (h : vv ≠ []) : minInts vv ∈ vv := by
  cases vv with
  | nil => exact absurd rfl h
  | cons x xs =>
    simp only [minInts, List.mem_cons]
    exact foldl_min_mem xs x

theorem mem_memInts {i : Int} {vv : List Int} (h : i ∈ vv) : (Val.int i).memInts vv = true := by
  simp only [Val.memInts, Val.num, List.any_eq_true]
  exact ⟨i, h, by simp [Num.eq]⟩

theorem fmtDefault_numeric {f : Fmt} (h : f.isNumeric = true) :
    isFinNum (fmtDefault f) = true ∧ (fmtDefault f).truthy = false := by
  cases f <;> simp [Fmt.isNumeric] at h <;> decide

theorem clamp_fin {p : Props} (h : BoundsOk p) {v : Val} (hv : isFinNum v = true) :
    isFinNum (clamp p v) = true := by
  rcases clamp_cases p v with h1 | h1 | h1
  · rw [h1]; exact hv
  · exact h.hi _ h1
  · exact h.lo _ h1

theorem toValid_default_ok (E : Ext) {p : Props} (hc : consistent p = true) :
    ∃ d, toValid E p (fmtDefault p.fmt) = .ok d := by
  by_cases hn : p.fmt.isNumeric = true
  · have hb := consistent_boundsOk hc hn
    obtain ⟨hfin, hfal⟩ := fmtDefault_numeric hn
    rw [toValid_numeric E hn]
    unfold toValidNum
    have hst : stepped E p (fmtDefault p.fmt) = .ok (fmtDefault p.fmt) := by
      unfold stepped; split <;> simp [hfal]
    simp only [isFinNum_isNumeric hfin, Bool.not_true, Bool.false_eq_true, if_false, hst]
    split
    · obtain ⟨i, hi⟩ := toInt_fin (clamp_fin hb hfin)
      exact ⟨.int i, by simp [hi, Except.map]⟩
    · exact ⟨_, rfl⟩
  · unfold toValid
    cases hf : p.fmt <;> simp_all [Fmt.isNumeric]

/-! ### the three notions of conformance -/

/-- strict conformance: `null` for the always-null type, or base conformance and membership in
    the declared valid values (no opt-in exemption) -/
theorem confStrict_of {cfg : Cfg} {p : Props} {v : Val} (h1 : confBase p v = true)
    (h2 : (cfg.alwaysNull = true ∧ v = .null) ∨ (p.vv.isEmpty || v.memInts p.vv) = true) :
    confStrict cfg p v = true := by
  unfold confStrict conf confFmt inValid
  rcases h2 with ⟨ha, hv⟩ | h2
  · simp [ha, hv]
  · simp only [Bool.or_eq_true] at h2
    rcases h2 with h2 | h2 <;> simp [h1, h2]

theorem conf_of_strict {cfg : Cfg} {p : Props} {v : Val} (h : confStrict cfg p v = true) :
    conf cfg p v = true := by
  unfold confStrict conf confFmt inValid at *
  simp only [Bool.or_eq_true, Bool.and_eq_true, Bool.false_eq_true, or_false] at h ⊢
  rcases h with h | ⟨h1, h2⟩
  · exact Or.inl h
  · right
    refine ⟨h1, ?_⟩
    rcases h2 with h2 | h2
    · exact Or.inl (Or.inl h2)
    · exact Or.inr h2

theorem confB_of_conf {cfg : Cfg} {p : Props} {v : Val} (h : conf cfg p v = true) :
    confB cfg p v = true := by
  unfold conf confFmt at h
  unfold confB
  simp only [Bool.or_eq_true, Bool.and_eq_true] at h ⊢
  rcases h with h | ⟨h1, _⟩
  · exact Or.inl h
  · exact Or.inr h1

theorem confB_of_base {cfg : Cfg} {p : Props} {v : Val} (h : confBase p v = true) :
    confB cfg p v = true := by
  simp [confB, h]

/-- conformance: `null` for the always-null type, or base conformance and valid-value membership -/
theorem conf_of {cfg : Cfg} {p : Props} {v : Val} (h1 : confBase p v = true)
    (h2 : (cfg.alwaysNull = true ∧ v = .null) ∨ inValid cfg p v = true) : conf cfg p v = true := by
  unfold conf confFmt
  rcases h2 with ⟨ha, hv⟩ | h2
  · simp [ha, hv]
  · simp [h1, h2]

theorem conf_null {cfg : Cfg} (h : cfg.alwaysNull = true) (p : Props) : conf cfg p .null = true := by
  simp [conf, h]

theorem confStrict_null {cfg : Cfg} (h : cfg.alwaysNull = true) (p : Props) :
    confStrict cfg p .null = true := by
  simp [confStrict, conf, h]

/-- `_get_default_value` never raises on a consistent set and returns a (strictly) conforming value -/
theorem default_conf (E : Ext) (cfg : Cfg) {p : Props} (hc : consistent p = true) :
    ∃ d, defaultValue E cfg p = .ok d ∧ confStrict cfg p d = true := by
  unfold defaultValue
  by_cases ha : cfg.alwaysNull = true
  · exact ⟨.null, by simp [ha], confStrict_null ha p⟩
  · simp only [ha, Bool.false_eq_true, if_false]
    by_cases hv : p.vv.isEmpty = true
    · simp only [hv, Bool.not_true, Bool.false_eq_true, if_false]
      obtain ⟨d, hd⟩ := toValid_default_ok E hc
      exact ⟨d, hd, confStrict_of (toValid_confBase hc hd) (Or.inr (by simp [hv]))⟩
    · simp only [hv, Bool.not_false, if_true]
      have hne : p.vv ≠ [] := by intro h; simp [h] at hv
      have hmem := minInts_mem hne
      have hn : p.fmt.isNumeric = true := by
        by_cases hn : p.fmt.isNumeric = true
        · exact hn
        · exact absurd (consistent_vv_nil hc (by simpa using hn)) hne
      refine ⟨_, rfl, confStrict_of ?_ (Or.inr ?_)⟩
      · rw [confBase_numeric hn]; unfold confNum
        have := consistent_vv hc hn _ hmem
        split <;> simp [this, Val.isNumeric, Val.num]
      · simp [mem_memInts hmem]


/-! ### the operations -/

/-- what passes the checks of `set_value` conforms strictly -/
theorem setCheck_ok {E : Ext} {L : Variant} (hL : L.nullSkipsAll = false) {cfg : Cfg} {p : Props}
    (hc : consistent p = true) {v v' : Val} (h : setCheck E L cfg p v = .ok v') :
    confStrict cfg p v' = true := by
  unfold setCheck at h
  split at h
  · simp at h
  · rename_i w hw
    split at h
    · simp at h
    · rename_i hvo
      simp at h; subst h
      exact confStrict_of (toValid_confBase hc hw) (validOrRaise_ok hL hvo)

/-- what passes the checks of `client_update_value` conforms (strictly unless the application
    opted in to invalid controller values) -/
theorem clientCheck_ok {E : Ext} {L : Variant} (hL : L.nullSkipsAll = false) {cfg : Cfg} {p : Props}
    (hc : consistent p = true) {v v' : Val} (h : clientCheck E L cfg p v = .ok v') :
    conf cfg p v' = true ∧ (cfg.allowInvalid = false → confStrict cfg p v' = true) := by
  unfold clientCheck at h
  split at h
  · simp at h
  · rename_i w hw
    split at h
    · simp at h
    · rename_i hvo
      simp at h; subst h
      split at hw
      · -- converted by to_valid_value
        have hb := toValid_confBase hc hw
        split at hvo
        · have := confStrict_of (cfg := cfg) hb (validOrRaise_ok hL hvo)
          exact ⟨conf_of_strict this, fun _ => this⟩
        · rename_i hai
          simp only [Bool.not_eq_true', Bool.not_eq_false] at hai
          exact ⟨conf_of hb (Or.inr (by simp [inValid, hai])), fun h => by simp [h] at hai⟩
      · -- always-null type written with null
        rename_i hcond
        simp only [Bool.or_eq_true, Bool.not_eq_true', bne_iff_ne, ne_eq, not_or, Bool.not_eq_false,
          Decidable.not_not] at hcond
        simp at hw; subst hw
        rw [hcond.2]; exact ⟨conf_null hcond.1 _, fun _ => confStrict_null hcond.1 _⟩

/-- the effect of one operation on the invariant: the state is untouched, or the new stored value
    conforms, or (`weak`: a getter callback answered with an undeclared value) it conforms in
    format, type, range and length only; everything emitted conforms -/
structure StepFx (cfg : Cfg) (weak : Bool) (st : St) (r : Res) : Prop where
  state : r.st = st ∨ conf cfg r.st.props r.st.value = true ∨
    (weak = true ∧ r.st.props = st.props ∧ confB cfg r.st.props r.st.value = true)
  emitted : ∀ e ∈ r.out, conf cfg r.st.props e.val = true

theorem StepFx.mono {cfg : Cfg} {st : St} {r : Res} {w : Bool} (h : StepFx cfg false st r) :
    StepFx cfg w st r := by
  refine ⟨?_, h.emitted⟩
  rcases h.state with h1 | h1 | ⟨h1, _⟩
  · exact Or.inl h1
  · exact Or.inr (Or.inl h1)
  · cases h1

theorem setValue_props (E : Ext) (L : Variant) (cfg : Cfg) (st : St) (v : Val) (n : Bool) :
    (setValue E L cfg st v n).st.props = st.props := by
  unfold setValue
  cases h1 : setCheck E L cfg st.props v <;> rfl

theorem clientUpdate_props (E : Ext) (L : Variant) (cfg : Cfg) (st : St) (v : Val) (cb : Cb) :
    (clientUpdate E L cfg st v cb).st.props = st.props := by
  unfold clientUpdate
  cases h1 : clientCheck E L cfg st.props v with
  | error e1 => rfl
  | ok v' => cases cb <;> rfl

theorem getValue_props (E : Ext) (L : Variant) (cfg : Cfg) (st : St) (g : Getter) :
    (getValue E L cfg st g).st.props = st.props := by
  unfold getValue
  cases g with
  | absent => rfl
  | raises e => rfl
  | returns x =>
    simp only []
    cases h1 : toValid E st.props x with
    | error e => rfl
    | ok v =>
      simp only []
      cases h2 : (if L.getterChecks = true then validOrRaise L cfg st.props v else .ok ()) <;> rfl

theorem readOp_props (E : Ext) (L : Variant) (cfg : Cfg) (st : St) (g : Getter) (h : Bool) :
    (readOp E L cfg st g h).st.props = st.props := by
  unfold readOp; split
  · rfl
  · exact getValue_props ..

/-- a successful `set_value` stores and notifies a strictly conforming value: the opt-in to
    invalid controller values does not exempt application updates -/
theorem setValue_strict {E : Ext} {L : Variant} (hL : L.nullSkipsAll = false) {cfg : Cfg} {st : St}
    (hc : consistent st.props = true) (v : Val) (n : Bool)
    (hok : (setValue E L cfg st v n).exn = none) :
    confStrict cfg st.props (setValue E L cfg st v n).st.value = true ∧
    ∀ e ∈ (setValue E L cfg st v n).out, confStrict cfg st.props e.val = true := by
  unfold setValue at hok ⊢
  cases h1 : setCheck E L cfg st.props v with
  | error e => simp [h1] at hok
  | ok v' =>
    have hconf := setCheck_ok hL hc h1
    simp only []
    constructor
    · show confStrict cfg st.props (if cfg.alwaysNull = true then Val.null else v') = true
      split
      · rename_i ha; exact confStrict_null ha _
      · exact hconf
    · intro e he
      split at he
      · simp at he; subst he; exact hconf
      · simp at he

theorem setValue_ok {E : Ext} {L : Variant} (hL : L.nullSkipsAll = false) {cfg : Cfg} {st : St}
    (hc : consistent st.props = true) (v : Val) (n : Bool) :
    StepFx cfg false st (setValue E L cfg st v n) := by
  cases hx : (setValue E L cfg st v n).exn with
  | none =>
    obtain ⟨h1, h2⟩ := setValue_strict hL hc v n hx
    refine ⟨Or.inr (Or.inl ?_), ?_⟩
    · rw [setValue_props]; exact conf_of_strict h1
    · intro e he; rw [setValue_props]; exact conf_of_strict (h2 e he)
  | some e =>
    unfold setValue at hx ⊢
    cases h1 : setCheck E L cfg st.props v with
    | error e1 => exact ⟨Or.inl rfl, by simp⟩
    | ok v' => simp [h1] at hx

theorem clientUpdate_ok {E : Ext} {L : Variant} (hL : L.nullSkipsAll = false) {cfg : Cfg} {st : St}
    (hc : consistent st.props = true) (v : Val) (cb : Cb) :
    StepFx cfg false st (clientUpdate E L cfg st v cb) := by
  unfold clientUpdate
  cases h1 : clientCheck E L cfg st.props v with
  | error e1 => exact ⟨Or.inl rfl, by simp⟩
  | ok v' =>
    have hconf := (clientCheck_ok hL hc h1).1
    have hnull : conf cfg st.props (if cfg.alwaysNull = true then Val.null else v') = true := by
      split
      · rename_i ha; exact conf_null ha _
      · exact hconf
    cases cb with
    | raises e =>
      refine ⟨Or.inr (Or.inl hconf), ?_⟩
      intro ev he
      simp at he; subst he; exact hconf
    | absent =>
      refine ⟨Or.inr (Or.inl hnull), ?_⟩
      intro ev he
      simp only [] at he
      simp only [List.mem_append] at he
      rcases he with he | he
      · simp at he
      · split at he
        · simp at he; subst he; exact hconf
        · simp at he
    | returns =>
      refine ⟨Or.inr (Or.inl hnull), ?_⟩
      intro ev he
      simp only [] at he
      simp only [List.mem_append] at he
      rcases he with he | he
      · simp at he; subst he; exact hconf
      · split at he
        · simp at he; subst he; exact hconf
        · simp at he

/-- a rejected write leaves everything as it was and emits nothing (any variant, any parameters) -/
theorem setValue_reject {E : Ext} {L : Variant} {cfg : Cfg} {st : St} {v : Val} {n : Bool} {e : Exn}
    (h : (setValue E L cfg st v n).exn = some e) :
    (setValue E L cfg st v n).st = st ∧ (setValue E L cfg st v n).out = [] := by
  unfold setValue at h ⊢
  cases h1 : setCheck E L cfg st.props v with
  | error e1 => simp
  | ok v' => simp [h1] at h

/-- `set_value` raises exactly when its conversion-and-validation prefix does -/
theorem setValue_exn (E : Ext) (L : Variant) (cfg : Cfg) (st : St) (v : Val) (n : Bool) (e : Exn) :
    (setValue E L cfg st v n).exn = some e ↔ setCheck E L cfg st.props v = .error e := by
  unfold setValue
  cases h1 : setCheck E L cfg st.props v <;> simp

/-- a controller write refused by conversion / validation: nothing changes, the setter callback is
    not invoked, nothing is notified -/
theorem clientUpdate_rejected {E : Ext} {L : Variant} {cfg : Cfg} {st : St} {v : Val} {cb : Cb} {e : Exn}
    (h : clientCheck E L cfg st.props v = .error e) :
    clientUpdate E L cfg st v cb = ⟨st, some e, []⟩ := by
  unfold clientUpdate; simp [h]

/-- `client_update_value` raises exactly when its checks refuse the value or when the checks pass
    and the application's setter callback (then invoked with the checked value) raises -/
theorem clientUpdate_exn (E : Ext) (L : Variant) (cfg : Cfg) (st : St) (v : Val) (cb : Cb) (e : Exn) :
    (clientUpdate E L cfg st v cb).exn = some e ↔
      clientCheck E L cfg st.props v = .error e ∨
      (∃ v', clientCheck E L cfg st.props v = .ok v' ∧ cb = .raises e ∧
        (clientUpdate E L cfg st v cb).out = [.callback v']) := by
  unfold clientUpdate
  cases h1 : clientCheck E L cfg st.props v with
  | error e1 => simp
  | ok v' => cases cb <;> simp

theorem clientUpdate_reject {E : Ext} {L : Variant} {cfg : Cfg} {st : St} {v : Val} {cb : Cb} {e : Exn}
    (hcb : ∀ e', cb ≠ .raises e') (h : (clientUpdate E L cfg st v cb).exn = some e) :
    (clientUpdate E L cfg st v cb).st = st ∧ (clientUpdate E L cfg st v cb).out = [] := by
  rcases (clientUpdate_exn E L cfg st v cb e).mp h with h1 | ⟨_, _, h2, _⟩
  · rw [clientUpdate_rejected h1]; exact ⟨rfl, rfl⟩
  · exact absurd h2 (hcb e)

/-- on success, everything a write emits is the value it assigned -/
theorem setValue_emits_assigned {E : Ext} {L : Variant} {cfg : Cfg} {st : St} {v v' : Val} {n : Bool}
    (h : setCheck E L cfg st.props v = .ok v') :
    (∀ e ∈ (setValue E L cfg st v n).out, e = .notify v') ∧
    (setValue E L cfg st v n).st.value = (if cfg.alwaysNull then .null else v') := by
  unfold setValue
  simp only [h]
  refine ⟨?_, by first | rfl | trivial⟩
  intro e he
  split at he
  · simpa using he
  · simp at he

theorem clientUpdate_emits_assigned {E : Ext} {L : Variant} {cfg : Cfg} {st : St} {v v' : Val} {cb : Cb}
    (h : clientCheck E L cfg st.props v = .ok v') :
    (∀ e ∈ (clientUpdate E L cfg st v cb).out, e.val = v') ∧
    ((clientUpdate E L cfg st v cb).st.value = v' ∨
      (cfg.alwaysNull = true ∧ (clientUpdate E L cfg st v cb).st.value = .null)) := by
  unfold clientUpdate
  simp only [h]
  cases cb with
  | raises e => exact ⟨by intro ev he; simp at he; subst he; rfl, Or.inl rfl⟩
  | absent =>
    refine ⟨?_, ?_⟩
    · intro ev he
      simp only [List.mem_append] at he
      rcases he with he | he
      · simp at he
      · split at he
        · simp at he; subst he; rfl
        · simp at he
    · by_cases ha : cfg.alwaysNull = true
      · right; simp [ha]
      · left; simp [ha]
  | returns =>
    refine ⟨?_, ?_⟩
    · intro ev he
      simp only [List.mem_append] at he
      rcases he with he | he
      · simp at he; subst he; rfl
      · split at he
        · simp at he; subst he; rfl
        · simp at he
    · by_cases ha : cfg.alwaysNull = true
      · right; simp [ha]
      · left; simp [ha]

/-! #### reads -/

theorem getValue_out (E : Ext) (L : Variant) (cfg : Cfg) (st : St) (g : Getter) :
    (getValue E L cfg st g).out = [] := by
  unfold getValue
  cases g with
  | absent => rfl
  | raises e => rfl
  | returns x =>
    simp only []
    cases h1 : toValid E st.props x with
    | error e => rfl
    | ok v =>
      simp only []
      cases h2 : (if L.getterChecks = true then validOrRaise L cfg st.props v else .ok ()) <;> rfl

theorem readOp_out (E : Ext) (L : Variant) (cfg : Cfg) (st : St) (g : Getter) (h : Bool) :
    (readOp E L cfg st g h).out = [] := by
  unfold readOp; split
  · rfl
  · exact getValue_out ..

/-- a read that raises (the getter raised, or its answer was refused) changes nothing -/
theorem readOp_reject {E : Ext} {L : Variant} {cfg : Cfg} {st : St} {g : Getter} {hp : Bool} {e : Exn}
    (h : (readOp E L cfg st g hp).exn = some e) : (readOp E L cfg st g hp).st = st := by
  unfold readOp at h ⊢
  split
  · rfl
  · rename_i hh
    simp only [hh] at h
    unfold getValue at h ⊢
    cases g with
    | absent => rfl
    | raises e' => rfl
    | returns x =>
      simp only [] at h ⊢
      cases h1 : toValid E st.props x with
      | error e' => rfl
      | ok v =>
        simp only [h1] at h ⊢
        cases h2 : (if L.getterChecks = true then validOrRaise L cfg st.props v else .ok ()) with
        | error e' => rfl
        | ok u => simp [h2] at h

/-- weak outcome allowed for this operation: the variant does not check getter answers and the
    answer is not acceptable -/
def weakOp (E : Ext) (L : Variant) (cfg : Cfg) (p : Props) (op : Op) : Bool :=
  !L.getterChecks && !readOk E cfg p op

theorem validOrRaise_variant (L : Variant) (hL : L.nullSkipsAll = false) (cfg : Cfg) (p : Props) (v : Val) :
    validOrRaise L cfg p v = validOrRaise repaired cfg p v := by
  unfold validOrRaise; simp [hL, repaired]

theorem readOp_ok {E : Ext} {L : Variant} (hL : L.nullSkipsAll = false) {cfg : Cfg} {st : St}
    (hc : consistent st.props = true) (g : Getter) (hp : Bool) :
    StepFx cfg (weakOp E L cfg st.props (.read g hp)) st (readOp E L cfg st g hp) := by
  refine ⟨?_, by rw [readOp_out]; simp⟩
  unfold readOp
  by_cases hh : (hp && !st.props.readable) = true
  · simp only [hh, if_true]; exact Or.inl (by first | rfl | trivial)
  · simp only [hh, Bool.false_eq_true, if_false]
    unfold getValue
    cases g with
    | absent => exact Or.inl rfl
    | raises e => exact Or.inl rfl
    | returns x =>
      simp only []
      cases h1 : toValid E st.props x with
      | error e => exact Or.inl rfl
      | ok v =>
        have hb := toValid_confBase hc h1
        simp only []
        by_cases hg : L.getterChecks = true
        · simp only [hg, if_true]
          cases h2 : validOrRaise L cfg st.props v with
          | error e => exact Or.inl rfl
          | ok u =>
            right; left
            exact conf_of_strict (confStrict_of hb (validOrRaise_ok hL h2))
        · simp only [hg, Bool.false_eq_true, if_false]
          cases h2 : validOrRaise repaired cfg st.props v with
          | ok u =>
            right; left
            exact conf_of_strict (confStrict_of hb (validOrRaise_ok rfl h2))
          | error e =>
            right; right
            refine ⟨?_, by first | rfl | trivial, confB_of_base hb⟩
            have hg' : L.getterChecks = false := by simpa using hg
            have hh' : (hp && !st.props.readable) = false := by simpa using hh
            simp [weakOp, readOk, hg', hh', h1, h2]

/-! #### overrides -/

theorem overrideHandler_ok {E : Ext} {L : Variant} (hO : L.overflowEscapes = false) (cfg : Cfg)
    {p : Props} (hc : consistent p = true) (cur : Val)
    {e : Exn} (he : e = .valueError ∨ e = .overflowError) :
    ∃ d, overrideHandler E L cfg p cur e = ⟨⟨p, d⟩, none, []⟩ ∧ confStrict cfg p d = true := by
  obtain ⟨d, hd, hconf⟩ := default_conf E cfg hc
  refine ⟨d, ?_, hconf⟩
  unfold overrideHandler
  rcases he with rfl | rfl <;> simp [hO, hd]

/-- an `override_properties` that is not refused up front: the new property set is in force,
    nothing is emitted, no exception escapes and the stored value conforms strictly to the new set
    (re-validated, or replaced by the conforming default). -/
theorem override_accepted {E : Ext} (hE : StepExnOk E) {L : Variant} (hL : L.sound = true) {cfg : Cfg} {st : St}
    (u : Upd) (vv : List Int) (hr : overrideRefused u vv = false)
    (hc' : consistent (overrideProps st.props u vv) = true) :
    (override E L cfg st u vv).exn = none ∧ (override E L cfg st u vv).out = [] ∧
     (override E L cfg st u vv).st.props = overrideProps st.props u vv ∧
     confStrict cfg (overrideProps st.props u vv) (override E L cfg st u vv).st.value = true := by
  have hN : L.nullSkipsAll = false := by
    simp only [Variant.sound, Bool.and_eq_true, Bool.not_eq_true'] at hL; exact hL.1
  have hO : L.overflowEscapes = false := by
    simp only [Variant.sound, Bool.and_eq_true, Bool.not_eq_true'] at hL; exact hL.2
  unfold overrideRefused at hr
  simp only [Bool.or_eq_false_iff] at hr
  obtain ⟨h1, h2⟩ := hr
  unfold override
  simp only [h1, h2, Bool.false_eq_true, if_false]
  by_cases ha : cfg.alwaysNull = true
  · simp only [ha, if_true]; exact ⟨by first | rfl | trivial, by first | rfl | trivial, by first | rfl | trivial, confStrict_null ha _⟩
  · simp only [ha, Bool.false_eq_true, if_false]
    cases hv : toValid E (overrideProps st.props u vv) st.value with
    | error e =>
      obtain ⟨d, hd, hconf⟩ := overrideHandler_ok (E := E) hO cfg hc' st.value (toValid_exn hE hc' hv)
      simp only [hd]; exact ⟨by first | rfl | trivial, by first | rfl | trivial, by first | rfl | trivial, hconf⟩
    | ok v =>
      simp only []
      cases hvo : validOrRaise L cfg (overrideProps st.props u vv) v with
      | ok _ =>
        exact ⟨by first | rfl | trivial, by first | rfl | trivial, by first | rfl | trivial, confStrict_of (toValid_confBase hc' hv) (validOrRaise_ok hN hvo)⟩
      | error e =>
        obtain ⟨d, hd, hconf⟩ :=
          overrideHandler_ok (E := E) hO cfg hc' v (Or.inl (validOrRaise_exn hvo))
        simp only [hd]; exact ⟨by first | rfl | trivial, by first | rfl | trivial, by first | rfl | trivial, hconf⟩

/-- a refused `override_properties` changes nothing (any variant) -/
theorem override_refused (E : Ext) (L : Variant) (cfg : Cfg) (st : St) (u : Upd) (vv : List Int)
    (hr : overrideRefused u vv = true) : override E L cfg st u vv = ⟨st, some .valueError, []⟩ := by
  unfold override overrideRefused at *
  by_cases h1 : (u.isEmpty && vv.isEmpty) = true
  · simp [h1]
  · simp only [h1, Bool.false_or] at hr
    simp [h1, hr]

/-- `override_properties` (repaired): either rejected up front with nothing changed, or accepted -/
theorem override_ok {E : Ext} (hE : StepExnOk E) {L : Variant} (hL : L.sound = true) {cfg : Cfg} {st : St}
    (u : Upd) (vv : List Int)
    (hc' : consistent (overrideProps st.props u vv) = true) :
    override E L cfg st u vv = ⟨st, some .valueError, []⟩ ∨
    ((override E L cfg st u vv).exn = none ∧ (override E L cfg st u vv).out = [] ∧
     (override E L cfg st u vv).st.props = overrideProps st.props u vv ∧
     confStrict cfg (overrideProps st.props u vv) (override E L cfg st u vv).st.value = true) := by
  cases hr : overrideRefused u vv with
  | true => exact Or.inl (override_refused E L cfg st u vv hr)
  | false => exact Or.inr (override_accepted hE hL u vv hr hc')

theorem overrideHandler_props (E : Ext) (L : Variant) (cfg : Cfg) (p : Props) (cur : Val) (e : Exn) :
    (overrideHandler E L cfg p cur e).st.props = p ∧ (overrideHandler E L cfg p cur e).out = [] := by
  unfold overrideHandler
  split
  · cases defaultValue E cfg p <;> exact ⟨rfl, rfl⟩
  · exact ⟨rfl, rfl⟩

/-- an override is either rejected up front (nothing changes) or installs the new property set;
    it never emits anything (any variant) -/
theorem override_props_cases (E : Ext) (L : Variant) (cfg : Cfg) (st : St) (u : Upd) (vv : List Int) :
    (overrideRefused u vv = true ∧ override E L cfg st u vv = ⟨st, some .valueError, []⟩) ∨
    (overrideRefused u vv = false ∧ (override E L cfg st u vv).st.props = overrideProps st.props u vv ∧
     (override E L cfg st u vv).out = []) := by
  unfold override overrideRefused
  by_cases h1 : (u.isEmpty && vv.isEmpty) = true
  · left; simp [h1]
  · by_cases h2 : tooLong u.maxLen = true
    · left; simp [h1, h2]
    · right
      simp only [h1, h2, Bool.false_eq_true, if_false, Bool.or_self, true_and]
      by_cases ha : cfg.alwaysNull = true
      · simp only [ha, if_true]; exact ⟨by first | rfl | trivial, by first | rfl | trivial⟩
      · simp only [ha, Bool.false_eq_true, if_false]
        cases hv : toValid E (overrideProps st.props u vv) st.value with
        | error e => exact overrideHandler_props ..
        | ok v =>
          simp only []
          cases hvo : validOrRaise L cfg (overrideProps st.props u vv) v with
          | ok _ => exact ⟨rfl, rfl⟩
          | error e => exact overrideHandler_props ..

theorem override_props (E : Ext) (L : Variant) (cfg : Cfg) (st : St) (u : Upd) (vv : List Int) :
    (override E L cfg st u vv).st.props = propsAfter st.props (.override u vv) := by
  rcases override_props_cases E L cfg st u vv with ⟨hr, h⟩ | ⟨hr, hp, _⟩
  · rw [h]; simp [propsAfter, hr]
  · rw [hp]; simp [propsAfter, hr]

theorem override_stepOk {E : Ext} (hE : StepExnOk E) {L : Variant} (hL : L.sound = true) {cfg : Cfg} {st : St}
    (u : Upd) (vv : List Int)
    (hc' : consistent (override E L cfg st u vv).st.props = true) :
    StepFx cfg false st (override E L cfg st u vv) := by
  rcases override_props_cases E L cfg st u vv with ⟨_, h⟩ | ⟨_, hp, _⟩
  · rw [h]; exact ⟨Or.inl rfl, by simp⟩
  · rw [hp] at hc'
    rcases override_ok hE hL (cfg := cfg) (st := st) u vv hc' with h | ⟨_, ho, hp', hconf⟩
    · rw [h]; exact ⟨Or.inl rfl, by simp⟩
    · exact ⟨Or.inr (Or.inl (by rw [hp']; exact conf_of_strict hconf)), by rw [ho]; simp⟩

theorem override_out (E : Ext) (L : Variant) (cfg : Cfg) (st : St) (u : Upd) (vv : List Int) :
    (override E L cfg st u vv).out = [] := by
  rcases override_props_cases E L cfg st u vv with ⟨_, h⟩ | ⟨_, _, h⟩
  · rw [h]
  · exact h

theorem setValue_silent (E : Ext) (L : Variant) (cfg : Cfg) (st : St) (v : Val) :
    (setValue E L cfg st v false).out = [] := by
  unfold setValue
  cases h1 : setCheck E L cfg st.props v with
  | error e1 => rfl
  | ok v' => simp

theorem configurePre_out (E : Ext) (L : Variant) (cfg : Cfg) (st : St) (u : Upd) (vv : List Int) :
    (configurePre E L cfg st u vv).out = [] := by
  unfold configurePre; split
  · exact override_out ..
  · rfl

theorem configurePre_stepOk {E : Ext} (hE : StepExnOk E) {L : Variant} (hL : L.sound = true) {cfg : Cfg} {st : St}
    (u : Upd) (vv : List Int)
    (hc' : consistent (configurePre E L cfg st u vv).st.props = true) :
    StepFx cfg false st (configurePre E L cfg st u vv) := by
  unfold configurePre at hc' ⊢
  split
  · rename_i h; simp only [h, if_true] at hc'; exact override_stepOk hE hL u vv hc'
  · exact ⟨Or.inl rfl, by simp⟩

/-- `configure_char` never emits (its `set_value` is called with `should_notify=False`) -/
theorem configure_out (E : Ext) (L : Variant) (cfg : Cfg) (st : St) (u : Upd) (vv : List Int) (v : Val) :
    (configure E L cfg st u vv v).out = [] := by
  unfold configure
  simp only []
  split
  · exact configurePre_out ..
  · split
    · simp [configurePre_out, setValue_silent]
    · exact configurePre_out ..

theorem configure_props (E : Ext) (L : Variant) (cfg : Cfg) (st : St) (u : Upd) (vv : List Int) (v : Val) :
    (configure E L cfg st u vv v).st.props = (configurePre E L cfg st u vv).st.props := by
  unfold configure
  simp only []
  split
  · rfl
  · split
    · exact setValue_props ..
    · rfl

theorem configurePre_props (E : Ext) (L : Variant) (cfg : Cfg) (st : St) (u : Upd) (vv : List Int) (v : Val) :
    (configurePre E L cfg st u vv).st.props = propsAfter st.props (.configure u vv v) := by
  unfold configurePre
  by_cases h : (!u.isEmpty || !vv.isEmpty) = true
  · simp only [h, if_true]
    rw [override_props]
    simp only [propsAfter, h, Bool.true_and]
    cases overrideRefused u vv <;> simp
  · simp [propsAfter, h]

theorem configure_ok {E : Ext} (hE : StepExnOk E) {L : Variant} (hL : L.sound = true) {cfg : Cfg} {st : St}
    (u : Upd) (vv : List Int) (v : Val)
    (hc' : consistent (configure E L cfg st u vv v).st.props = true) :
    StepFx cfg false st (configure E L cfg st u vv v) := by
  have hN : L.nullSkipsAll = false := by
    simp only [Variant.sound, Bool.and_eq_true, Bool.not_eq_true'] at hL; exact hL.1
  rw [configure_props] at hc'
  have h1 := configurePre_stepOk hE hL u vv hc'
  unfold configure
  simp only []
  split
  · exact h1
  · split
    · have h2 := setValue_ok (E := E) hN (cfg := cfg) hc' v false
      refine ⟨?_, ?_⟩
      · rcases h2.state with h2s | h2s | ⟨hf, _⟩
        · show (setValue E L cfg (configurePre E L cfg st u vv).st v false).st = st ∨ _
          rw [h2s]; exact h1.state
        · exact Or.inr (Or.inl h2s)
        · cases hf
      · intro e he
        simp only [configurePre_out, List.nil_append] at he
        exact h2.emitted e he
    · exact h1

/-- what a raising `configure_char` leaves behind: nothing if the override part raised (it can
    only be refused up front), otherwise the state right after the override part -/
theorem configure_reject_state {E : Ext} {L : Variant} {cfg : Cfg} {st : St} {u : Upd} {vv : List Int}
    {v : Val} {e : Exn} (h : (configure E L cfg st u vv v).exn = some e) :
    (configure E L cfg st u vv v).st = (configurePre E L cfg st u vv).st := by
  unfold configure at h ⊢
  simp only [] at h ⊢
  split
  · rfl
  · rename_i hn
    split
    · rename_i ht
      simp only [hn, ht, if_true] at h
      exact (setValue_reject h).1
    · rfl

/-! #### one step, whole histories -/

/-- the property set after an operation is `propsAfter`: it does not depend on the stored value,
    the variant, the configuration or the external parameters -/
theorem step_props (E : Ext) (L : Variant) (cfg : Cfg) (st : St) (op : Op) :
    (step E L cfg st op).st.props = propsAfter st.props op := by
  cases op with
  | set v n => exact setValue_props ..
  | client v cb => exact clientUpdate_props ..
  | override u vv => exact override_props ..
  | configure u vv v => simp only [step]; rw [configure_props, configurePre_props E L cfg st u vv v]
  | read g h => exact readOp_props ..

theorem step_fx {E : Ext} (hE : StepExnOk E) {L : Variant} (hL : L.sound = true) {cfg : Cfg} {st : St}
    (hc : consistent st.props = true) (op : Op)
    (hc' : consistent (propsAfter st.props op) = true) :
    StepFx cfg (weakOp E L cfg st.props op) st (step E L cfg st op) := by
  have hN : L.nullSkipsAll = false := by
    simp only [Variant.sound, Bool.and_eq_true, Bool.not_eq_true'] at hL; exact hL.1
  rw [← step_props E L cfg st op] at hc'
  cases op with
  | set v n => exact (setValue_ok hN hc v n).mono
  | client v cb => exact (clientUpdate_ok hN hc v cb).mono
  | override u vv => exact (override_stepOk hE hL u vv hc').mono
  | configure u vv v => exact (configure_ok hE hL u vv v hc').mono
  | read g h => exact readOp_ok hN hc g h

/-- an `override_properties` that raises leaves the whole state as it was and emits nothing -/
theorem override_reject {E : Ext} (hE : StepExnOk E) {L : Variant} (hL : L.sound = true) {cfg : Cfg} {st : St}
    (u : Upd) (vv : List Int)
    (hc' : consistent (propsAfter st.props (.override u vv)) = true) {e : Exn}
    (h : (override E L cfg st u vv).exn = some e) :
    (override E L cfg st u vv).st = st ∧ (override E L cfg st u vv).out = [] := by
  rw [← override_props E L cfg st u vv] at hc'
  rcases override_props_cases E L cfg st u vv with ⟨_, h'⟩ | ⟨_, hp, _⟩
  · rw [h']; exact ⟨rfl, rfl⟩
  · rw [hp] at hc'
    rcases override_ok hE hL (cfg := cfg) (st := st) u vv hc' with h' | ⟨hn, _⟩
    · rw [h']; exact ⟨rfl, rfl⟩
    · rw [hn] at h; cases h

/-- operations whose exception is, by definition, a refusal by the characteristic itself (not an
    exception of an application callback, and not `configure_char`, which is two calls) -/
def plainOp : Op → Bool
  | .client _ (.raises _) => false
  | .configure _ _ _ => false
  | _ => true

/-- an operation that raises leaves the whole state as it was and emits nothing -/
theorem step_reject {E : Ext} (hE : StepExnOk E) {L : Variant} (hL : L.sound = true) {cfg : Cfg} {st : St}
    (op : Op) (hop : plainOp op = true)
    (hc' : consistent (propsAfter st.props op) = true) {e : Exn}
    (h : (step E L cfg st op).exn = some e) :
    (step E L cfg st op).st = st ∧ (step E L cfg st op).out = [] := by
  cases op with
  | set v n => exact setValue_reject h
  | client v cb =>
    refine clientUpdate_reject ?_ h
    intro e' he; subst he; simp [plainOp] at hop
  | override u vv => exact override_reject hE hL u vv hc' h
  | configure u vv v => simp [plainOp] at hop
  | read g hp => exact ⟨readOp_reject h, readOp_out ..⟩

theorem consistentAlong_head {p : Props} {ops : List Op} (h : consistentAlong p ops = true) :
    consistent p = true := by
  cases ops with
  | nil => exact h
  | cons _ _ => simp only [consistentAlong, Bool.and_eq_true] at h; exact h.1

/-- **the invariant over whole histories**: under a variant that checks getter answers, or when
    every getter answer is acceptable -/
theorem run_ok {E : Ext} (hE : StepExnOk E) {L : Variant} (hL : L.sound = true) {cfg : Cfg} (ops : List Op) :
    ∀ st : St, consistentAlong st.props ops = true →
      (L.getterChecks = true ∨ readsOkAlong E cfg st.props ops = true) →
      conf cfg st.props st.value = true →
      conf cfg (runSt E L cfg st ops).props (runSt E L cfg st ops).value = true ∧
      ∀ pe ∈ runLog E L cfg st ops, conf cfg pe.1 pe.2.val = true := by
  induction ops with
  | nil => intro st _ _ hg; exact ⟨hg, by simp [runLog]⟩
  | cons op ops ih =>
    intro st hall hr hg
    simp only [consistentAlong, Bool.and_eq_true] at hall
    obtain ⟨hc, hrest⟩ := hall
    have hs := step_fx hE hL (cfg := cfg) (st := st) hc op (consistentAlong_head hrest)
    have hw : weakOp E L cfg st.props op = false := by
      rcases hr with hr | hr
      · simp [weakOp, hr]
      · simp only [readsOkAlong, Bool.and_eq_true] at hr
        simp [weakOp, hr.1]
    have hr' : L.getterChecks = true ∨ readsOkAlong E cfg (step E L cfg st op).st.props ops = true := by
      rcases hr with hr | hr
      · exact Or.inl hr
      · simp only [readsOkAlong, Bool.and_eq_true] at hr
        right; rw [step_props]; exact hr.2
    have hstored : conf cfg (step E L cfg st op).st.props (step E L cfg st op).st.value = true := by
      rcases hs.state with h | h | ⟨h, _⟩
      · rw [h]; exact hg
      · exact h
      · rw [hw] at h; cases h
    obtain ⟨h1, h2⟩ := ih _ (by rw [step_props]; exact hrest) hr' hstored
    refine ⟨h1, ?_⟩
    intro pe hpe
    simp only [runLog, List.mem_append, List.mem_map] at hpe
    rcases hpe with ⟨e, he, rfl⟩ | hpe
    · exact hs.emitted e he
    · exact h2 pe hpe

/-- **the base invariant over whole histories, arbitrary getter answers included**: the stored
    value always conforms in format, type, range and length; everything emitted conforms fully -/
theorem run_base {E : Ext} (hE : StepExnOk E) {L : Variant} (hL : L.sound = true) {cfg : Cfg} (ops : List Op) :
    ∀ st : St, consistentAlong st.props ops = true →
      confB cfg st.props st.value = true →
      confB cfg (runSt E L cfg st ops).props (runSt E L cfg st ops).value = true ∧
      ∀ pe ∈ runLog E L cfg st ops, conf cfg pe.1 pe.2.val = true := by
  induction ops with
  | nil => intro st _ hg; exact ⟨hg, by simp [runLog]⟩
  | cons op ops ih =>
    intro st hall hg
    simp only [consistentAlong, Bool.and_eq_true] at hall
    obtain ⟨hc, hrest⟩ := hall
    have hs := step_fx hE hL (cfg := cfg) (st := st) hc op (consistentAlong_head hrest)
    have hstored : confB cfg (step E L cfg st op).st.props (step E L cfg st op).st.value = true := by
      rcases hs.state with h | h | ⟨_, _, h⟩
      · rw [h]; exact hg
      · exact confB_of_conf h
      · exact h
    obtain ⟨h1, h2⟩ := ih _ (by rw [step_props]; exact hrest) hstored
    refine ⟨h1, ?_⟩
    intro pe hpe
    simp only [runLog, List.mem_append, List.mem_map] at hpe
    rcases hpe with ⟨e, he, rfl⟩ | hpe
    · exact hs.emitted e he
    · exact h2 pe hpe

/-- without overrides the property set never changes, so consistency of the declared set suffices -/
theorem consistentAlong_of_noOverride (ops : List Op) :
    ∀ p : Props, noOverride ops = true → consistent p = true → consistentAlong p ops = true := by
  induction ops with
  | nil => intro p _ hc; exact hc
  | cons op ops ih =>
    intro p hno hc
    cases op with
    | override u vv => simp [noOverride] at hno
    | configure u vv v => simp [noOverride] at hno
    | set v n => simp only [consistentAlong, hc, Bool.true_and, propsAfter]; exact ih p (by simpa [noOverride] using hno) hc
    | client v cb => simp only [consistentAlong, hc, Bool.true_and, propsAfter]; exact ih p (by simpa [noOverride] using hno) hc
    | read g h => simp only [consistentAlong, hc, Bool.true_and, propsAfter]; exact ih p (by simpa [noOverride] using hno) hc

/-- without getter answers every read is acceptable -/
theorem readsOkAlong_of_noGetter (E : Ext) (cfg : Cfg) (ops : List Op) :
    ∀ p : Props, noGetter ops = true → readsOkAlong E cfg p ops = true := by
  induction ops with
  | nil => intro p _; rfl
  | cons op ops ih =>
    intro p hno
    cases op with
    | read g h =>
      cases g with
      | returns x => simp [noGetter] at hno
      | absent => simp only [readsOkAlong, readOk, Bool.true_and]; exact ih _ (by simpa [noGetter] using hno)
      | raises e => simp only [readsOkAlong, readOk, Bool.true_and]; exact ih _ (by simpa [noGetter] using hno)
    | set v n => simp only [readsOkAlong, readOk, Bool.true_and]; exact ih _ (by simpa [noGetter] using hno)
    | client v cb => simp only [readsOkAlong, readOk, Bool.true_and]; exact ih _ (by simpa [noGetter] using hno)
    | override u vv => simp only [readsOkAlong, readOk, Bool.true_and]; exact ih _ (by simpa [noGetter] using hno)
    | configure u vv v => simp only [readsOkAlong, readOk, Bool.true_and]; exact ih _ (by simpa [noGetter] using hno)

/-- the history restricted to a prefix satisfies the same input conditions -/
theorem consistentAlong_take (ops : List Op) :
    ∀ (p : Props) (n : Nat), consistentAlong p ops = true → consistentAlong p (ops.take n) = true := by
  induction ops with
  | nil => intro p n h; simpa using h
  | cons op ops ih =>
    intro p n h
    cases n with
    | zero => simp only [List.take_zero, consistentAlong]; exact consistentAlong_head h
    | succ n =>
      simp only [consistentAlong, Bool.and_eq_true, List.take_succ_cons] at h ⊢
      exact ⟨h.1, ih _ n h.2⟩

theorem readsOkAlong_take (E : Ext) (cfg : Cfg) (ops : List Op) :
    ∀ (p : Props) (n : Nat), readsOkAlong E cfg p ops = true → readsOkAlong E cfg p (ops.take n) = true := by
  induction ops with
  | nil => intro p n h; simpa using h
  | cons op ops ih =>
    intro p n h
    cases n with
    | zero => rfl
    | succ n =>
      simp only [readsOkAlong, Bool.and_eq_true, List.take_succ_cons] at h ⊢
      exact ⟨h.1, ih _ n h.2⟩

/-- `__init__`: a consistent set yields a (strictly) conforming initial value -/
theorem init_ok (E : Ext) (cfg : Cfg) {p : Props} (hc : consistent p = true) :
    ∃ st, init E cfg p = .ok st ∧ st.props = p ∧ confStrict cfg p st.value = true := by
  obtain ⟨d, hd, hconf⟩ := default_conf E cfg hc
  have hl : tooLong p.maxLen = false := by
    simp only [consistent, Bool.and_eq_true] at hc
    have := hc.1
    unfold tooLong
    cases h : p.maxLen with
    | none => rfl
    | some n => simp [h] at this ⊢; omega
  exact ⟨⟨p, d⟩, by simp [init, hl, hd, Except.map], rfl, hconf⟩

/-- every shipped definition is a consistent property set (re-checked by the kernel against the
    regenerated table on every run) -/
theorem shipped_all_consistent : shipped.all (fun d => consistent d.props) = true := by
  decide +kernel

/-! #### the always-null type -/

theorem setValue_null {E : Ext} {L : Variant} {cfg : Cfg} (ha : cfg.alwaysNull = true) {st : St}
    (hv : st.value = .null) (v : Val) (n : Bool) : (setValue E L cfg st v n).st.value = .null := by
  unfold setValue
  cases h1 : setCheck E L cfg st.props v with
  | error e1 => exact hv
  | ok v' => simp [ha]

theorem override_null {E : Ext} {L : Variant} {cfg : Cfg} (ha : cfg.alwaysNull = true) {st : St}
    (hv : st.value = .null) (u : Upd) (vv : List Int) : (override E L cfg st u vv).st.value = .null := by
  unfold override
  by_cases h1 : (u.isEmpty && vv.isEmpty) = true
  · simp [h1, hv]
  · by_cases h2 : tooLong u.maxLen = true
    · simp [h1, h2, hv]
    · simp [h1, h2, ha]

/-- operations after which the always-null type is back at `null`: everything except a controller
    write whose setter callback raises (the reset is skipped) and a getter answer (it is stored) -/
def resetsNull : Op → Bool
  | .client _ (.raises _) => false
  | .read (.returns _) _ => false
  | _ => true

/-- the always-null type never keeps a value: whatever the operation and its outcome, the
    stored (hence reported) value stays `null` -/
theorem step_alwaysNull {E : Ext} {L : Variant} {cfg : Cfg} (ha : cfg.alwaysNull = true) {st : St}
    (hv : st.value = .null) (op : Op) (hq : resetsNull op = true) :
    (step E L cfg st op).st.value = .null := by
  cases op with
  | set v n => exact setValue_null ha hv v n
  | client v cb =>
    simp only [step]; unfold clientUpdate
    cases h1 : clientCheck E L cfg st.props v with
    | error e1 => exact hv
    | ok v' =>
      cases cb with
      | raises e => simp [resetsNull] at hq
      | absent => simp [ha]
      | returns => simp [ha]
  | override u vv => exact override_null ha hv u vv
  | configure u vv v =>
    have hpre : (configurePre E L cfg st u vv).st.value = .null := by
      unfold configurePre; split
      · exact override_null ha hv u vv
      · exact hv
    simp only [step]; unfold configure
    simp only []
    split
    · exact hpre
    · split
      · exact setValue_null ha hpre v false
      · exact hpre
  | read g h =>
    simp only [step]; unfold readOp
    split
    · exact hv
    · cases g with
      | returns x => simp [resetsNull] at hq
      | absent => exact hv
      | raises e => exact hv

end Hap.Char
