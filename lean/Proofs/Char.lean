/-
  Lemmas for the Characteristic layer (C09).  Core Lean only.
-/
import HapModel.Char
import HapModel.Gen.Chars
namespace Hap.Char
open Gen

/-! ### order facts (only two are needed: `<` implies `≤`, and `≤` is reflexive off NaN) -/

theorem Num.le_of_lt {a b : Num} (h : a.lt b = true) : a.le b = true := by
  cases a <;> cases b <;> simp_all [Num.lt, Num.le]
  exact Rat.le_of_lt h

theorem Num.le_refl_fin (q : Rat) : (Num.fin q).le (.fin q) = true := by
  simp [Num.le]

theorem Num.lt_not_nan_left {a b : Num} (h : a.lt b = true) : a ≠ .nan := by
  cases a <;> simp_all [Num.lt]

/-- an integral rational is the cast of its numerator -/
theorem rat_eq_num_of_den_one {q : Rat} (h : q.den = 1) : q = (q.num : Rat) := by
  apply Rat.ext <;> simp [h]

/-- `int()` of a rational inside `[a, b]` with integer bounds stays inside `[a, b]` -/
theorem truncRat_bounds (q : Rat) :
    (∀ a : Int, (a : Rat) ≤ q → (a : Rat) ≤ ((truncRat q : Int) : Rat)) ∧
    (∀ b : Int, q ≤ (b : Rat) → ((truncRat q : Int) : Rat) ≤ (b : Rat)) := by
  unfold truncRat
  constructor
  · intro a ha
    split
    · exact Rat.intCast_le_intCast.mpr (Rat.le_floor_iff.mpr ha)
    · exact Rat.le_trans ha Rat.le_ceil
  · intro b hb
    split
    · exact Rat.le_trans (Rat.floor_le q) hb
    · exact Rat.intCast_le_intCast.mpr (Rat.ceil_le_iff.mpr hb)


/-! ### values -/

theorem Val.le_of_lt {a b : Val} (h : a.lt b = true) : a.le b = true := by
  unfold Val.lt at h; unfold Val.le
  cases ha : a.num <;> cases hb : b.num <;> simp_all
  exact Num.le_of_lt h

theorem isFinNum_num {v : Val} (h : isFinNum v = true) : ∃ q, v.num = some (.fin q) := by
  cases v with
  | int i => exact ⟨_, rfl⟩
  | float x => cases x <;> simp_all [isFinNum, Val.num]
  | _ => simp [isFinNum] at h

theorem Val.le_refl_fin {v : Val} (h : isFinNum v = true) : v.le v = true := by
  obtain ⟨q, hq⟩ := isFinNum_num h
  simp [Val.le, hq, Num.le]

theorem isFinNum_isNumeric {v : Val} (h : isFinNum v = true) : v.isNumeric = true := by
  obtain ⟨q, hq⟩ := isFinNum_num h
  simp [Val.isNumeric, hq]

/-- The well-formedness of bounds that `consistent` gives for numeric formats. -/
structure BoundsOk (p : Props) : Prop where
  lo : ∀ lo, p.minV = some lo → isFinNum lo = true
  hi : ∀ hi, p.maxV = some hi → isFinNum hi = true
  le : ∀ lo hi, p.minV = some lo → p.maxV = some hi → lo.le hi = true


/-- **clamp lands in `[min, max]`** whatever goes in (NaN, ±inf, huge), when `min ≤ max` -/
theorem clamp_inBounds {p : Props} (h : BoundsOk p) (v : Val) : inBounds p (clamp p v) = true := by
  unfold clamp inBounds Val.pyMin Val.pyMax
  cases hlo : p.minV with
  | none =>
    cases hhi : p.maxV with
    | none => simp
    | some hi =>
      have hh := Val.le_refl_fin (h.hi hi hhi)
      simp only [Option.getD_some]
      repeat' split
      all_goals simp_all [Val.le_of_lt]
  | some lo =>
    have hl := Val.le_refl_fin (h.lo lo hlo)
    cases hhi : p.maxV with
    | none =>
      simp only [Option.getD_some, Option.getD_none]
      repeat' split
      all_goals simp_all [Val.le_of_lt]
    | some hi =>
      have hh := Val.le_refl_fin (h.hi hi hhi)
      have hlh := h.le lo hi hlo hhi
      simp only [Option.getD_some]
      repeat' split
      all_goals simp_all [Val.le_of_lt]


/-- the clamp returns its argument or one of the declared bounds -/
theorem clamp_cases (p : Props) (v : Val) :
    clamp p v = v ∨ p.maxV = some (clamp p v) ∨ p.minV = some (clamp p v) := by
  unfold clamp Val.pyMin Val.pyMax
  cases hlo : p.minV <;> cases hhi : p.maxV <;> simp only [Option.getD_some, Option.getD_none] <;>
    (repeat' split) <;> simp_all

/-! ### `int()` keeps a value inside integral bounds -/

theorem intBound_num {v : Val} (h1 : isFinNum v = true) (h2 : isIntegralVal v = true) :
    ∃ a : Int, v.num = some (.fin (a : Rat)) := by
  cases v with
  | int i => exact ⟨i, rfl⟩
  | float x =>
    cases x with
    | fin q =>
      refine ⟨q.num, ?_⟩
      have hd : q.den = 1 := by simpa [isIntegralVal, Num.isIntegral] using h2
      have := rat_eq_num_of_den_one hd
      simp only [Val.num]; rw [← this]
    | _ => simp [isFinNum] at h1
  | _ => simp [isFinNum] at h1

theorem bool_num (b : Bool) : (Val.bool b).num = (Val.int (if b then 1 else 0)).num := by
  cases b <;> simp [Val.num]

theorem toInt_le_lo {lo v : Val} {i : Int} (h1 : isFinNum lo = true) (h2 : isIntegralVal lo = true)
    (hle : lo.le v = true) (hi : toInt v = .ok i) : lo.le (.int i) = true := by
  obtain ⟨a, ha⟩ := intBound_num h1 h2
  cases v with
  | int j => simp [toInt] at hi; subst hi; exact hle
  | bool b =>
    simp [toInt] at hi; subst hi
    unfold Val.le at hle ⊢; rw [bool_num] at hle; exact hle
  | float x =>
    cases x with
    | fin q =>
      simp [toInt] at hi; subst hi
      unfold Val.le at hle ⊢
      rw [ha] at hle ⊢
      simp only [Val.num, Num.le, decide_eq_true_eq] at hle ⊢
      exact (truncRat_bounds q).1 a hle
    | _ => simp [toInt] at hi
  | _ => simp [toInt] at hi

theorem toInt_le_hi {hi v : Val} {i : Int} (h1 : isFinNum hi = true) (h2 : isIntegralVal hi = true)
    (hle : v.le hi = true) (hi' : toInt v = .ok i) : (Val.int i).le hi = true := by
  obtain ⟨a, ha⟩ := intBound_num h1 h2
  cases v with
  | int j => simp [toInt] at hi'; subst hi'; exact hle
  | bool b =>
    simp [toInt] at hi'; subst hi'
    unfold Val.le at hle ⊢; rw [bool_num] at hle; exact hle
  | float x =>
    cases x with
    | fin q =>
      simp [toInt] at hi'; subst hi'
      unfold Val.le at hle ⊢
      rw [ha] at hle ⊢
      simp only [Val.num, Num.le, decide_eq_true_eq] at hle ⊢
      exact (truncRat_bounds q).2 a hle
    | _ => simp [toInt] at hi'
  | _ => simp [toInt] at hi'


/-! ### what `consistent` provides -/

theorem optAll_some {f : Val → Bool} {o : Option Val} (h : optAll f o = true) :
    ∀ v, o = some v → f v = true := by
  intro v hv; subst hv; exact h

theorem consistent_boundsOk {p : Props} (hc : consistent p = true) (hn : p.fmt.isNumeric = true) :
    BoundsOk p := by
  simp only [consistent, hn, if_true, Bool.and_eq_true] at hc
  obtain ⟨_, ⟨⟨⟨hlo, hhi⟩, hle⟩, _⟩, _⟩ := hc
  refine ⟨optAll_some hlo, optAll_some hhi, ?_⟩
  intro lo hi h1 h2
  simpa [h1, h2] using hle

theorem consistent_integral {p : Props} (hc : consistent p = true) (hi : p.fmt.isInteger = true) :
    (∀ lo, p.minV = some lo → isIntegralVal lo = true) ∧
    (∀ hi, p.maxV = some hi → isIntegralVal hi = true) := by
  have hn : p.fmt.isNumeric = true := by cases h : p.fmt <;> simp_all [Fmt.isNumeric, Fmt.isInteger]
  simp only [consistent, hn, hi, if_true, Bool.and_eq_true, Bool.not_true, Bool.false_or] at hc
  obtain ⟨_, ⟨_, h1, h2⟩, _⟩ := hc
  exact ⟨optAll_some h1, optAll_some h2⟩

theorem consistent_vv {p : Props} (hc : consistent p = true) (hn : p.fmt.isNumeric = true) :
    ∀ i ∈ p.vv, inBounds p (.int i) = true := by
  simp only [consistent, hn, if_true, Bool.and_eq_true, List.all_eq_true] at hc
  exact hc.2.2

theorem consistent_vv_nil {p : Props} (hc : consistent p = true) (hn : p.fmt.isNumeric = false) :
    p.vv = [] := by
  simp only [consistent, hn, Bool.and_eq_true] at hc
  simpa using hc.2

/-! ### `to_valid_value` produces a value of the right class inside the bounds -/

theorem toValid_numeric (E : Ext) {p : Props} (hn : p.fmt.isNumeric = true) (v : Val) :
    toValid E p v = toValidNum E p v := by
  unfold toValid
  cases hf : p.fmt <;> simp_all [Fmt.isNumeric]

theorem confBase_numeric {p : Props} (hn : p.fmt.isNumeric = true) (v : Val) :
    confBase p v = confNum p v := by
  unfold confBase
  cases hf : p.fmt <;> simp_all [Fmt.isNumeric]

theorem stepped_numeric {E : Ext} {p : Props} {v v1 : Val} (hv : v.isNumeric = true)
    (h : stepped E p v = .ok v1) : v1.isNumeric = true := by
  unfold stepped at h
  split at h
  · rename_i s _
    split at h
    · cases hs : E.stepRound v s with
      | error e => simp [hs, Except.map] at h
      | ok r =>
        simp [hs, Except.map] at h; subst h
        cases r <;> simp [PNum.toVal, Val.isNumeric, Val.num]
    · simp at h; subst h; exact hv
  · simp at h; subst h; exact hv

theorem clamp_numeric {p : Props} (h : BoundsOk p) {v : Val} (hv : v.isNumeric = true) :
    (clamp p v).isNumeric = true := by
  rcases clamp_cases p v with h1 | h1 | h1
  · rw [h1]; exact hv
  · exact isFinNum_isNumeric (h.hi _ h1)
  · exact isFinNum_isNumeric (h.lo _ h1)

theorem toValid_confBase {E : Ext} {p : Props} (hc : consistent p = true) {v v' : Val}
    (h : toValid E p v = .ok v') : confBase p v' = true := by
  by_cases hn : p.fmt.isNumeric = true
  · have hb := consistent_boundsOk hc hn
    rw [toValid_numeric E hn] at h
    rw [confBase_numeric hn]
    unfold toValidNum at h
    unfold confNum
    split at h
    · simp at h
    · rename_i hvn
      have hvn : v.isNumeric = true := by simpa using hvn
      split at h
      · simp at h
      · rename_i v1 hs
        have h1n := stepped_numeric hvn hs
        have hcl := clamp_inBounds hb v1
        by_cases hi : p.fmt.isInteger = true
        · simp only [hi, if_true] at h ⊢
          cases ht : toInt (clamp p v1) with
          | error e => simp [ht, Except.map] at h
          | ok i =>
            simp [ht, Except.map] at h; subst h
            obtain ⟨ilo, ihi⟩ := consistent_integral hc hi
            simp only [inBounds, Bool.and_eq_true] at hcl ⊢
            constructor
            · cases hlo : p.minV with
              | none => rfl
              | some lo =>
                simp only [hlo] at hcl ⊢
                exact toInt_le_lo (hb.lo _ hlo) (ilo _ hlo) hcl.1 ht
            · cases hhi : p.maxV with
              | none => rfl
              | some hi' =>
                simp only [hhi] at hcl ⊢
                exact toInt_le_hi (hb.hi _ hhi) (ihi _ hhi) hcl.2 ht
        · simp only [hi] at h ⊢
          simp at h; subst h
          simp [clamp_numeric hb h1n, hcl]
  · have hn' : p.fmt.isNumeric = false := by simpa using hn
    unfold toValid at h
    unfold confBase
    cases hf : p.fmt with
    | string =>
      simp only [hf] at h
      injection h with h; subst h
      simp only [List.length_take, decide_eq_true_eq]
      exact Nat.min_le_left _ _
    | bool => simp only [hf] at h; injection h with h; subst h; rfl
    | _ => simp_all [Fmt.isNumeric]


/-! ### exception classes, the valid-values check, the default value -/

/-- Assumption on the external step-rounding expression: on `int`/`float` operands Python's
    `/`, `*`, `round` raise nothing but `ValueError` (NaN) or `OverflowError` (inf, huge ints). -/
def StepExnOk (E : Ext) : Prop :=
  ∀ v s e, E.stepRound v s = .error e → e = .valueError ∨ e = .overflowError

theorem toInt_fin {v : Val} (h : isFinNum v = true) : ∃ i, toInt v = .ok i := by
  cases v with
  | int i => exact ⟨i, rfl⟩
  | float x => cases x <;> simp_all [isFinNum, toInt]
  | _ => simp [isFinNum] at h

theorem toInt_exn {v : Val} {e : Exn} (hv : v.isNumeric = true) (h : toInt v = .error e) :
    e = .valueError ∨ e = .overflowError := by
  cases v with
  | float x => cases x <;> simp_all [toInt]
  | _ => simp_all [toInt, Val.isNumeric, Val.num]

theorem stepped_exn {E : Ext} (hE : StepExnOk E) {p : Props} {v : Val} {e : Exn}
    (h : stepped E p v = .error e) : e = .valueError ∨ e = .overflowError := by
  unfold stepped at h
  split at h
  · rename_i s _
    split at h
    · cases hs : E.stepRound v s with
      | error e' => simp [hs, Except.map] at h; subst h; exact hE _ _ _ hs
      | ok r => simp [hs, Except.map] at h
    · simp at h
  · simp at h

theorem toValid_exn {E : Ext} (hE : StepExnOk E) {p : Props} (hc : consistent p = true) {v : Val}
    {e : Exn} (h : toValid E p v = .error e) : e = .valueError ∨ e = .overflowError := by
  by_cases hn : p.fmt.isNumeric = true
  · have hb := consistent_boundsOk hc hn
    rw [toValid_numeric E hn] at h
    unfold toValidNum at h
    split at h
    · simp at h; exact Or.inl h.symm
    · rename_i hvn
      have hvn : v.isNumeric = true := by simpa using hvn
      split at h
      · rename_i e' hs
        simp at h; subst h; exact stepped_exn hE hs
      · rename_i v1 hs
        have h1n := stepped_numeric hvn hs
        split at h
        · cases ht : toInt (clamp p v1) with
          | error e' =>
            simp [ht, Except.map] at h; subst h
            exact toInt_exn (clamp_numeric hb h1n) ht
          | ok i => simp [ht, Except.map] at h
        · simp at h
  · unfold toValid at h
    cases hf : p.fmt <;> simp_all [Fmt.isNumeric]

theorem validOrRaise_ok {cfg : Cfg} {p : Props} {v : Val}
    (h : validOrRaise repaired cfg p v = .ok ()) :
    (cfg.alwaysNull = true ∧ v = .null) ∨ inValid cfg p v = true := by
  unfold validOrRaise at h
  unfold inValid
  simp only [repaired, Bool.false_or] at h
  split at h
  · rename_i hh
    simp only [Bool.and_eq_true, beq_iff_eq] at hh
    exact Or.inl hh
  · split at h
    · rename_i hh; right; simp [hh]
    · split at h
      · rename_i hh; right; simp [hh]
      · simp at h

theorem validOrRaise_exn {L : Variant} {cfg : Cfg} {p : Props} {v : Val} {e : Exn}
    (h : validOrRaise L cfg p v = .error e) : e = .valueError := by
  unfold validOrRaise at h
  repeat' split at h
  all_goals simp_all

theorem foldl_min_mem (xs : List Int) (x : Int) : xs.foldl min x = x ∨ xs.foldl min x ∈ xs := by
  induction xs generalizing x with
  | nil => left; rfl
  | cons y ys ih =>
    simp only [List.foldl_cons, List.mem_cons]
    rcases ih (min x y) with h | h
    · rw [h]
      rcases Int.min_def x y ▸ (by split <;> simp : (if x ≤ y then x else y) = x ∨ (if x ≤ y then x else y) = y) with h' | h'
      · left; exact h'
      · right; left; exact h'
    · right; right; exact h

theorem minInts_mem {vv : List Int} (h : vv ≠ []) : minInts vv ∈ vv := by
  cases vv with
  | nil => exact absurd rfl h
  | cons x xs =>
    simp only [minInts, List.mem_cons]
    exact foldl_min_mem xs x

theorem mem_memInts {i : Int} {vv : List Int} (h : i ∈ vv) : (Val.int i).memInts vv = true := by
  simp only [Val.memInts, Val.num, List.any_eq_true]
  exact ⟨i, h, by simp [Num.eq]⟩

theorem fmtDefault_numeric {f : Fmt} (h : f.isNumeric = true) :
    isFinNum (fmtDefault f) = true ∧ (fmtDefault f).truthy = false := by
  cases f <;> simp [Fmt.isNumeric] at h <;> decide

theorem clamp_fin {p : Props} (h : BoundsOk p) {v : Val} (hv : isFinNum v = true) :
    isFinNum (clamp p v) = true := by
  rcases clamp_cases p v with h1 | h1 | h1
  · rw [h1]; exact hv
  · exact h.hi _ h1
  · exact h.lo _ h1

theorem toValid_default_ok (E : Ext) {p : Props} (hc : consistent p = true) :
    ∃ d, toValid E p (fmtDefault p.fmt) = .ok d := by
  by_cases hn : p.fmt.isNumeric = true
  · have hb := consistent_boundsOk hc hn
    obtain ⟨hfin, hfal⟩ := fmtDefault_numeric hn
    rw [toValid_numeric E hn]
    unfold toValidNum
    have hst : stepped E p (fmtDefault p.fmt) = .ok (fmtDefault p.fmt) := by
      unfold stepped; split <;> simp [hfal]
    simp only [isFinNum_isNumeric hfin, Bool.not_true, Bool.false_eq_true, if_false, hst]
    split
    · obtain ⟨i, hi⟩ := toInt_fin (clamp_fin hb hfin)
      exact ⟨.int i, by simp [hi, Except.map]⟩
    · exact ⟨_, rfl⟩
  · unfold toValid
    cases hf : p.fmt <;> simp_all [Fmt.isNumeric]

/-- conformance: `null` for the always-null type, or base conformance and valid-value membership -/
theorem conf_of {cfg : Cfg} {p : Props} {v : Val} (h1 : confBase p v = true)
    (h2 : (cfg.alwaysNull = true ∧ v = .null) ∨ inValid cfg p v = true) : conf cfg p v = true := by
  unfold conf confFmt
  rcases h2 with ⟨ha, hv⟩ | h2
  · simp [ha, hv]
  · simp [h1, h2]

theorem conf_null {cfg : Cfg} (h : cfg.alwaysNull = true) (p : Props) : conf cfg p .null = true := by
  simp [conf, h]

/-- `_get_default_value` never raises on a consistent set and returns a conforming value -/
theorem default_conf (E : Ext) (cfg : Cfg) {p : Props} (hc : consistent p = true) :
    ∃ d, defaultValue E cfg p = .ok d ∧ conf cfg p d = true := by
  unfold defaultValue
  by_cases ha : cfg.alwaysNull = true
  · exact ⟨.null, by simp [ha], conf_null ha p⟩
  · simp only [ha, Bool.false_eq_true, if_false]
    by_cases hv : p.vv.isEmpty = true
    · simp only [hv, Bool.not_true, Bool.false_eq_true, if_false]
      obtain ⟨d, hd⟩ := toValid_default_ok E hc
      exact ⟨d, hd, conf_of (toValid_confBase hc hd) (Or.inr (by simp [inValid, hv]))⟩
    · simp only [hv, Bool.not_false, if_true]
      have hne : p.vv ≠ [] := by intro h; simp [h] at hv
      have hmem := minInts_mem hne
      have hn : p.fmt.isNumeric = true := by
        by_cases hn : p.fmt.isNumeric = true
        · exact hn
        · exact absurd (consistent_vv_nil hc (by simpa using hn)) hne
      refine ⟨_, rfl, conf_of ?_ (Or.inr ?_)⟩
      · rw [confBase_numeric hn]; unfold confNum
        have := consistent_vv hc hn _ hmem
        split <;> simp [this, Val.isNumeric, Val.num]
      · simp [inValid, mem_memInts hmem]


/-! ### the three operations -/

/-- what one operation must establish: the state afterwards conforms, everything emitted
    conforms (to the property set in force afterwards, which for writes is the one before) -/
structure StepOk (cfg : Cfg) (r : Res) : Prop where
  stored : conf cfg r.st.props r.st.value = true
  emitted : ∀ e ∈ r.out, conf cfg r.st.props e.val = true

theorem setValue_props (E : Ext) (L : Variant) (cfg : Cfg) (st : St) (v : Val) (n : Bool) :
    (setValue E L cfg st v n).st.props = st.props := by
  unfold setValue
  cases h1 : toValid E st.props v with
  | error e1 => rfl
  | ok v' =>
    simp only []
    cases h2 : validOrRaise L cfg st.props v' with
    | error e2 => rfl
    | ok u => rfl

theorem clientUpdate_props (E : Ext) (L : Variant) (cfg : Cfg) (st : St) (v : Val) :
    (clientUpdate E L cfg st v).st.props = st.props := by
  unfold clientUpdate
  simp only []
  cases h1 : (if (!cfg.alwaysNull || v != .null) = true then toValid E st.props v else .ok v) with
  | error e1 => rfl
  | ok v' =>
    simp only []
    cases h2 : (if (!cfg.allowInvalid) = true then validOrRaise L cfg st.props v' else .ok ()) with
    | error e2 => rfl
    | ok u => rfl

theorem setValue_ok {E : Ext} {cfg : Cfg} {st : St} (hc : consistent st.props = true)
    (hg : conf cfg st.props st.value = true) (v : Val) (n : Bool) :
    StepOk cfg (setValue E repaired cfg st v n) := by
  unfold setValue
  split
  · exact ⟨hg, by simp⟩
  · rename_i v' hv
    split
    · exact ⟨hg, by simp⟩
    · rename_i hvo
      have hconf : conf cfg st.props v' = true :=
        conf_of (toValid_confBase hc hv) (validOrRaise_ok hvo)
      constructor
      · show conf cfg st.props (if cfg.alwaysNull = true then Val.null else v') = true
        split
        · rename_i ha; exact conf_null ha _
        · exact hconf
      · intro e he
        show conf cfg st.props e.val = true
        simp only [] at he
        split at he
        · simp at he; subst he; exact hconf
        · simp at he

theorem clientUpdate_ok {E : Ext} {cfg : Cfg} {st : St} (hc : consistent st.props = true)
    (hg : conf cfg st.props st.value = true) (v : Val) :
    StepOk cfg (clientUpdate E repaired cfg st v) := by
  unfold clientUpdate
  simp only []
  split
  · exact ⟨hg, by simp⟩
  · rename_i v' hv
    split
    · exact ⟨hg, by simp⟩
    · rename_i hvo
      have hconf : conf cfg st.props v' = true := by
        split at hv
        · -- converted by to_valid_value
          apply conf_of (toValid_confBase hc hv)
          split at hvo
          · exact validOrRaise_ok hvo
          · rename_i hai
            right; simp only [Bool.not_eq_true', Bool.not_eq_false] at hai
            simp [inValid, hai]
        · -- always-null type written with null
          rename_i hcond
          simp only [Bool.or_eq_true, Bool.not_eq_true', bne_iff_ne, ne_eq, not_or, Bool.not_eq_false,
            Decidable.not_not] at hcond
          simp at hv; subst hv
          rw [hcond.2]; exact conf_null hcond.1 _
      constructor
      · show conf cfg st.props (if cfg.alwaysNull = true then Val.null else v') = true
        split
        · rename_i ha; exact conf_null ha _
        · exact hconf
      · intro e he
        show conf cfg st.props e.val = true
        simp only [List.mem_append] at he
        rcases he with he | he
        · split at he
          · simp at he; subst he; exact hconf
          · simp at he
        · split at he
          · simp at he; subst he; exact hconf
          · simp at he

/-- a rejected write leaves everything as it was and emits nothing (any variant, any parameters) -/
theorem setValue_reject {E : Ext} {L : Variant} {cfg : Cfg} {st : St} {v : Val} {n : Bool} {e : Exn}
    (h : (setValue E L cfg st v n).exn = some e) :
    (setValue E L cfg st v n).st = st ∧ (setValue E L cfg st v n).out = [] := by
  unfold setValue at h ⊢
  cases h1 : toValid E st.props v with
  | error e1 => simp
  | ok v' =>
    simp only [h1] at h ⊢
    cases h2 : validOrRaise L cfg st.props v' with
    | error e2 => simp
    | ok u => simp [h2] at h

theorem clientUpdate_reject {E : Ext} {L : Variant} {cfg : Cfg} {st : St} {v : Val} {e : Exn}
    (h : (clientUpdate E L cfg st v).exn = some e) :
    (clientUpdate E L cfg st v).st = st ∧ (clientUpdate E L cfg st v).out = [] := by
  unfold clientUpdate at h ⊢
  simp only [] at h ⊢
  cases h1 : (if (!cfg.alwaysNull || v != .null) = true then toValid E st.props v else .ok v) with
  | error e1 => simp
  | ok v' =>
    simp only [h1] at h ⊢
    cases h2 : (if (!cfg.allowInvalid) = true then validOrRaise L cfg st.props v' else .ok ()) with
    | error e2 => simp
    | ok u => simp only [Bool.not_eq_true'] at h2; simp [h2] at h


theorem overrideHandler_ok {E : Ext} (cfg : Cfg) {p : Props} (hc : consistent p = true) (cur : Val)
    {e : Exn} (he : e = .valueError ∨ e = .overflowError) :
    ∃ d, overrideHandler E repaired cfg p cur e = ⟨⟨p, d⟩, none, []⟩ ∧ conf cfg p d = true := by
  obtain ⟨d, hd, hconf⟩ := default_conf E cfg hc
  refine ⟨d, ?_, hconf⟩
  unfold overrideHandler
  rcases he with rfl | rfl <;> simp [repaired, hd]

/-- `override_properties` (repaired): either rejected up front with nothing changed, or the new
    property set is in force, nothing is emitted, no exception escapes and the stored value
    conforms to the new set (re-validated, or replaced by the conforming default). -/
theorem override_ok {E : Ext} (hE : StepExnOk E) {cfg : Cfg} {st : St} (u : Upd) (vv : List Int)
    (hc' : consistent (overrideProps st.props u vv) = true) :
    override E repaired cfg st u vv = ⟨st, some .valueError, []⟩ ∨
    ((override E repaired cfg st u vv).exn = none ∧ (override E repaired cfg st u vv).out = [] ∧
     (override E repaired cfg st u vv).st.props = overrideProps st.props u vv ∧
     conf cfg (overrideProps st.props u vv) (override E repaired cfg st u vv).st.value = true) := by
  unfold override
  by_cases h1 : (u.isEmpty && vv.isEmpty) = true
  · left; simp [h1]
  · by_cases h2 : tooLong u.maxLen = true
    · left; simp [h1, h2]
    · right
      simp only [h1, h2, Bool.false_eq_true, if_false]
      by_cases ha : cfg.alwaysNull = true
      · simp only [ha, if_true]; exact ⟨by first | rfl | trivial, by first | rfl | trivial, by first | rfl | trivial, conf_null ha _⟩
      · simp only [ha, Bool.false_eq_true, if_false]
        cases hv : toValid E (overrideProps st.props u vv) st.value with
        | error e =>
          obtain ⟨d, hd, hconf⟩ := overrideHandler_ok (E := E) cfg hc' st.value (toValid_exn hE hc' hv)
          simp only [hd]; exact ⟨by first | rfl | trivial, by first | rfl | trivial, by first | rfl | trivial, hconf⟩
        | ok v =>
          simp only []
          cases hvo : validOrRaise repaired cfg (overrideProps st.props u vv) v with
          | ok _ =>
            exact ⟨by first | rfl | trivial, by first | rfl | trivial, by first | rfl | trivial, conf_of (toValid_confBase hc' hv) (validOrRaise_ok hvo)⟩
          | error e =>
            obtain ⟨d, hd, hconf⟩ :=
              overrideHandler_ok (E := E) cfg hc' v (Or.inl (validOrRaise_exn hvo))
            simp only [hd]; exact ⟨by first | rfl | trivial, by first | rfl | trivial, by first | rfl | trivial, hconf⟩


theorem overrideHandler_props (E : Ext) (L : Variant) (cfg : Cfg) (p : Props) (cur : Val) (e : Exn) :
    (overrideHandler E L cfg p cur e).st.props = p ∧ (overrideHandler E L cfg p cur e).out = [] := by
  unfold overrideHandler
  split
  · cases defaultValue E cfg p <;> exact ⟨rfl, rfl⟩
  · exact ⟨rfl, rfl⟩

/-- an override is either rejected up front (nothing changes) or installs the new property set;
    it never emits anything (any variant) -/
theorem override_props_cases (E : Ext) (L : Variant) (cfg : Cfg) (st : St) (u : Upd) (vv : List Int) :
    override E L cfg st u vv = ⟨st, some .valueError, []⟩ ∨
    ((override E L cfg st u vv).st.props = overrideProps st.props u vv ∧
     (override E L cfg st u vv).out = []) := by
  unfold override
  by_cases h1 : (u.isEmpty && vv.isEmpty) = true
  · left; simp [h1]
  · by_cases h2 : tooLong u.maxLen = true
    · left; simp [h1, h2]
    · right
      simp only [h1, h2, Bool.false_eq_true, if_false]
      by_cases ha : cfg.alwaysNull = true
      · simp only [ha, if_true]; exact ⟨by first | rfl | trivial, by first | rfl | trivial⟩
      · simp only [ha, Bool.false_eq_true, if_false]
        cases hv : toValid E (overrideProps st.props u vv) st.value with
        | error e => exact overrideHandler_props ..
        | ok v =>
          simp only []
          cases hvo : validOrRaise L cfg (overrideProps st.props u vv) v with
          | ok _ => exact ⟨rfl, rfl⟩
          | error e => exact overrideHandler_props ..

theorem override_stepOk {E : Ext} (hE : StepExnOk E) {cfg : Cfg} {st : St}
    (hg : conf cfg st.props st.value = true) (u : Upd) (vv : List Int)
    (hc' : consistent (override E repaired cfg st u vv).st.props = true) :
    StepOk cfg (override E repaired cfg st u vv) := by
  rcases override_props_cases E repaired cfg st u vv with h | ⟨hp, _⟩
  · rw [h]; exact ⟨hg, by simp⟩
  · rw [hp] at hc'
    rcases override_ok hE (cfg := cfg) (st := st) u vv hc' with h | ⟨_, ho, hp', hconf⟩
    · rw [h]; exact ⟨hg, by simp⟩
    · exact ⟨by rw [hp']; exact hconf, by rw [ho]; simp⟩

theorem override_out (E : Ext) (L : Variant) (cfg : Cfg) (st : St) (u : Upd) (vv : List Int) :
    (override E L cfg st u vv).out = [] := by
  rcases override_props_cases E L cfg st u vv with h | ⟨_, h⟩
  · rw [h]
  · exact h

theorem setValue_silent (E : Ext) (L : Variant) (cfg : Cfg) (st : St) (v : Val) :
    (setValue E L cfg st v false).out = [] := by
  unfold setValue
  cases h1 : toValid E st.props v with
  | error e1 => rfl
  | ok v' =>
    simp only []
    cases h2 : validOrRaise L cfg st.props v' with
    | error e2 => rfl
    | ok u => simp

theorem configurePre_out (E : Ext) (L : Variant) (cfg : Cfg) (st : St) (u : Upd) (vv : List Int) :
    (configurePre E L cfg st u vv).out = [] := by
  unfold configurePre; split
  · exact override_out ..
  · rfl

theorem configurePre_stepOk {E : Ext} (hE : StepExnOk E) {cfg : Cfg} {st : St}
    (hg : conf cfg st.props st.value = true) (u : Upd) (vv : List Int)
    (hc' : consistent (configurePre E repaired cfg st u vv).st.props = true) :
    StepOk cfg (configurePre E repaired cfg st u vv) := by
  unfold configurePre at hc' ⊢
  split
  · rename_i h; simp only [h, if_true] at hc'; exact override_stepOk hE hg u vv hc'
  · exact ⟨hg, by simp⟩

/-- `configure_char` never emits (its `set_value` is called with `should_notify=False`) -/
theorem configure_out (E : Ext) (L : Variant) (cfg : Cfg) (st : St) (u : Upd) (vv : List Int) (v : Val) :
    (configure E L cfg st u vv v).out = [] := by
  unfold configure
  simp only []
  split
  · exact configurePre_out ..
  · split
    · simp [configurePre_out, setValue_silent]
    · exact configurePre_out ..

theorem configure_props (E : Ext) (L : Variant) (cfg : Cfg) (st : St) (u : Upd) (vv : List Int) (v : Val) :
    (configure E L cfg st u vv v).st.props = (configurePre E L cfg st u vv).st.props := by
  unfold configure
  simp only []
  split
  · rfl
  · split
    · exact setValue_props ..
    · rfl

theorem configure_ok {E : Ext} (hE : StepExnOk E) {cfg : Cfg} {st : St}
    (hg : conf cfg st.props st.value = true) (u : Upd) (vv : List Int) (v : Val)
    (hc' : consistent (configure E repaired cfg st u vv v).st.props = true) :
    StepOk cfg (configure E repaired cfg st u vv v) := by
  rw [configure_props] at hc'
  have h1 := configurePre_stepOk hE hg u vv hc'
  unfold configure
  simp only []
  split
  · exact h1
  · split
    · have h2 := setValue_ok (E := E) hc' h1.stored v false
      exact ⟨h2.stored, by
        intro e he
        simp only [configurePre_out, List.nil_append] at he
        exact h2.emitted e he⟩
    · exact h1

/-- what a raising `configure_char` leaves behind: nothing if the override part raised (it can
    only be refused up front), otherwise the state right after the override part -/
theorem configure_reject_state {E : Ext} {L : Variant} {cfg : Cfg} {st : St} {u : Upd} {vv : List Int}
    {v : Val} {e : Exn} (h : (configure E L cfg st u vv v).exn = some e) :
    (configure E L cfg st u vv v).st = (configurePre E L cfg st u vv).st := by
  unfold configure at h ⊢
  simp only [] at h ⊢
  split
  · rfl
  · rename_i hn
    split
    · rename_i ht
      simp only [hn, ht, if_true] at h
      exact (setValue_reject h).1
    · rfl

theorem step_ok {E : Ext} (hE : StepExnOk E) {cfg : Cfg} {st : St} (hc : consistent st.props = true)
    (hg : conf cfg st.props st.value = true) (op : Op)
    (hc' : consistent (step E repaired cfg st op).st.props = true) :
    StepOk cfg (step E repaired cfg st op) := by
  cases op with
  | set v n => exact setValue_ok hc hg v n
  | client v => exact clientUpdate_ok hc hg v
  | override u vv => exact override_stepOk hE hg u vv hc'
  | configure u vv v => exact configure_ok hE hg u vv v hc'

/-- an operation that raises leaves the whole state as it was and emits nothing -/
theorem step_reject {E : Ext} (hE : StepExnOk E) {cfg : Cfg} {st : St} (op : Op)
    (hop : ∀ u vv v, op ≠ .configure u vv v)
    (hc' : consistent (step E repaired cfg st op).st.props = true) {e : Exn}
    (h : (step E repaired cfg st op).exn = some e) :
    (step E repaired cfg st op).st = st ∧ (step E repaired cfg st op).out = [] := by
  cases op with
  | set v n => exact setValue_reject h
  | client v => exact clientUpdate_reject h
  | override u vv =>
    simp only [step] at hc' h ⊢
    rcases override_props_cases E repaired cfg st u vv with h' | ⟨hp, _⟩
    · rw [h']; exact ⟨rfl, rfl⟩
    · rw [hp] at hc'
      rcases override_ok hE (cfg := cfg) (st := st) u vv hc' with h' | ⟨hn, _⟩
      · rw [h']; exact ⟨rfl, rfl⟩
      · rw [hn] at h; cases h
  | configure u vv v => exact absurd rfl (hop u vv v)

theorem AllConsistent.head {E : Ext} {L : Variant} {cfg : Cfg} {st : St} {ops : List Op}
    (h : AllConsistent E L cfg st ops) : consistent st.props = true := by
  cases ops with
  | nil => exact h
  | cons _ _ => exact h.1

/-- the invariant over whole histories -/
theorem run_ok {E : Ext} (hE : StepExnOk E) {cfg : Cfg} (ops : List Op) :
    ∀ st : St, AllConsistent E repaired cfg st ops → conf cfg st.props st.value = true →
      conf cfg (runSt E repaired cfg st ops).props (runSt E repaired cfg st ops).value = true ∧
      ∀ pe ∈ runLog E repaired cfg st ops, conf cfg pe.1 pe.2.val = true := by
  induction ops with
  | nil => intro st _ hg; exact ⟨hg, by simp [runLog]⟩
  | cons op ops ih =>
    intro st hall hg
    obtain ⟨hc, hrest⟩ := hall
    have hs := step_ok hE hc hg op hrest.head
    obtain ⟨h1, h2⟩ := ih _ hrest hs.stored
    refine ⟨h1, ?_⟩
    intro pe hpe
    simp only [runLog, List.mem_append, List.mem_map] at hpe
    rcases hpe with ⟨e, he, rfl⟩ | hpe
    · exact hs.emitted e he
    · exact h2 pe hpe

/-- without overrides the property set never changes, so consistency of the declared set suffices -/
theorem allConsistent_of_noOverride (E : Ext) (L : Variant) (cfg : Cfg) (ops : List Op) :
    ∀ st : St, noOverride ops = true → consistent st.props = true → AllConsistent E L cfg st ops := by
  induction ops with
  | nil => intro st _ hc; exact hc
  | cons op ops ih =>
    intro st hno hc
    cases op with
    | set v n =>
      refine ⟨hc, ih _ (by simpa [noOverride] using hno) ?_⟩
      simp only [step]; rw [setValue_props]; exact hc
    | client v =>
      refine ⟨hc, ih _ (by simpa [noOverride] using hno) ?_⟩
      simp only [step]; rw [clientUpdate_props]; exact hc
    | override u vv => simp [noOverride] at hno
    | configure u vv v => simp [noOverride] at hno

/-- `__init__`: a consistent set yields a conforming initial value -/
theorem init_ok (E : Ext) (cfg : Cfg) {p : Props} (hc : consistent p = true) :
    ∃ st, init E cfg p = .ok st ∧ st.props = p ∧ conf cfg p st.value = true := by
  obtain ⟨d, hd, hconf⟩ := default_conf E cfg hc
  have hl : tooLong p.maxLen = false := by
    simp only [consistent, Bool.and_eq_true] at hc
    have := hc.1
    unfold tooLong
    cases h : p.maxLen with
    | none => rfl
    | some n => simp [h] at this ⊢; omega
  exact ⟨⟨p, d⟩, by simp [init, hl, hd, Except.map], rfl, hconf⟩

/-- every shipped definition is a consistent property set (re-checked by the kernel against the
    regenerated table on every run) -/
theorem shipped_all_consistent : shipped.all (fun d => consistent d.props) = true := by
  decide +kernel


theorem setValue_null {E : Ext} {L : Variant} {cfg : Cfg} (ha : cfg.alwaysNull = true) {st : St}
    (hv : st.value = .null) (v : Val) (n : Bool) : (setValue E L cfg st v n).st.value = .null := by
  unfold setValue
  cases h1 : toValid E st.props v with
  | error e1 => exact hv
  | ok v' =>
    simp only []
    cases h2 : validOrRaise L cfg st.props v' with
    | error e2 => exact hv
    | ok u => simp [ha]

theorem override_null {E : Ext} {L : Variant} {cfg : Cfg} (ha : cfg.alwaysNull = true) {st : St}
    (hv : st.value = .null) (u : Upd) (vv : List Int) : (override E L cfg st u vv).st.value = .null := by
  unfold override
  by_cases h1 : (u.isEmpty && vv.isEmpty) = true
  · simp [h1, hv]
  · by_cases h2 : tooLong u.maxLen = true
    · simp [h1, h2, hv]
    · simp [h1, h2, ha]

/-- the always-null type never keeps a value: whatever the operation and its outcome, the
    stored (hence reported) value stays `null` -/
theorem step_alwaysNull {E : Ext} {L : Variant} {cfg : Cfg} (ha : cfg.alwaysNull = true) {st : St}
    (hv : st.value = .null) (op : Op) : (step E L cfg st op).st.value = .null := by
  cases op with
  | set v n => exact setValue_null ha hv v n
  | client v =>
    simp only [step]; unfold clientUpdate
    simp only []
    cases h1 : (if (!cfg.alwaysNull || v != .null) = true then toValid E st.props v else .ok v) with
    | error e1 => exact hv
    | ok v' =>
      simp only []
      cases h2 : (if (!cfg.allowInvalid) = true then validOrRaise L cfg st.props v' else .ok ()) with
      | error e2 => exact hv
      | ok u => simp [ha]
  | override u vv => exact override_null ha hv u vv
  | configure u vv v =>
    have hpre : (configurePre E L cfg st u vv).st.value = .null := by
      unfold configurePre; split
      · exact override_null ha hv u vv
      · exact hv
    simp only [step]; unfold configure
    simp only []
    split
    · exact hpre
    · split
      · exact setValue_null ha hpre v false
      · exact hpre

end Hap.Char
