/-
  C17 lemmas, part 1: the automatic aid search of `Bridge.add_accessory`
  (`next(aid for aid in itertools.count(2) if aid != 7 and aid not in self.accessories)`)
  terminates and returns the least admissible aid.
-/
import HapModel.Db
namespace Hap.Db
open Hap

/-- number of keys that are ≥ a -/
def cntGe (keys : List Nat) (a : Nat) : Nat := (keys.filter (fun k => a ≤ k)).length

theorem cntGe_succ_le (keys : List Nat) (a : Nat) : cntGe keys (a + 1) ≤ cntGe keys a := by
  induction keys with
  | nil => simp [cntGe]
  | cons k ks ih =>
    simp only [cntGe, List.filter_cons] at ih ⊢
    by_cases h1 : a + 1 ≤ k
    · have h2 : a ≤ k := by omega
      simp [h1, h2]; exact ih
    · by_cases h2 : a ≤ k
      · simp [h1, h2]; omega
      · simp [h1, h2]; exact ih

theorem cntGe_succ_lt (keys : List Nat) (a : Nat) (h : a ∈ keys) : cntGe keys (a + 1) < cntGe keys a := by
  induction keys with
  | nil => cases h
  | cons k ks ih =>
    simp only [cntGe, List.filter_cons]
    by_cases hk : k = a
    · subst hk
      have := cntGe_succ_le ks k
      simp only [cntGe] at this
      have hn : ¬ (k + 1 ≤ k) := by omega
      simp [hn]; omega
    · have hm : a ∈ ks := by
        cases h with
        | head => exact absurd rfl hk
        | tail _ h => exact h
      have := ih hm
      simp only [cntGe] at this
      by_cases h1 : a + 1 ≤ k
      · have h2 : a ≤ k := by omega
        simp [h1, h2]; exact this
      · have h2 : ¬ a ≤ k := by omega
        simp [h1, h2]; exact this

/-- the bounded search succeeds whenever the fuel exceeds the number of inadmissible
    candidates still ahead (keys ≥ a, plus 7 if not yet passed) -/
theorem findAidFrom_some (keys : List Nat) (fuel a : Nat)
    (h : cntGe keys a + (if a ≤ 7 then 1 else 0) < fuel) :
    ∃ r, findAidFrom keys a fuel = some r := by
  induction fuel generalizing a with
  | zero => omega
  | succ fuel ih =>
    simp only [findAidFrom]
    by_cases hc : a ≠ 7 ∧ ¬ a ∈ keys
    · exact ⟨a, by rw [if_pos hc]⟩
    · rw [if_neg hc]
      apply ih
      have hle := cntGe_succ_le keys a
      by_cases h7 : a = 7
      · subst h7
        have h8 : cntGe keys 8 ≤ cntGe keys 7 := cntGe_succ_le keys 7
        simp at h ⊢; omega
      · have hm : a ∈ keys := by
          by_cases hm : a ∈ keys
          · exact hm
          · exact absurd ⟨h7, hm⟩ hc
        have hlt := cntGe_succ_lt keys a hm
        split at h <;> split <;> omega

theorem cntGe_le_length (keys : List Nat) (a : Nat) : cntGe keys a ≤ keys.length := by
  simp only [cntGe]; exact List.length_filter_le _ _

/-- what a successful bounded search returns -/
theorem findAidFrom_spec (keys : List Nat) (fuel a r : Nat) (h : findAidFrom keys a fuel = some r) :
    a ≤ r ∧ r ≠ 7 ∧ ¬ r ∈ keys ∧ ∀ j, a ≤ j → j < r → j = 7 ∨ j ∈ keys := by
  induction fuel generalizing a with
  | zero => simp [findAidFrom] at h
  | succ fuel ih =>
    simp only [findAidFrom] at h
    by_cases hc : a ≠ 7 ∧ ¬ a ∈ keys
    · rw [if_pos hc] at h
      cases h
      exact ⟨Nat.le_refl _, hc.1, hc.2, fun j h1 h2 => by omega⟩
    · rw [if_neg hc] at h
      obtain ⟨h1, h2, h3, h4⟩ := ih (a + 1) h
      refine ⟨by omega, h2, h3, ?_⟩
      intro j hj1 hj2
      by_cases hja : j = a
      · subst hja
        by_cases h7 : j = 7
        · exact Or.inl h7
        · right
          by_cases hm : j ∈ keys
          · exact hm
          · exact absurd ⟨h7, hm⟩ hc
      · exact h4 j (by omega) hj2

/-- **Termination / existence**: the search over `count(2)` always finds an aid. -/
theorem findAid_exists (keys : List Nat) : ∃ r, findAid keys = some r := by
  apply findAidFrom_some
  have := cntGe_le_length keys 2
  simp; omega

/-- **What it finds**: the least aid ≥ 2 that is not 7 and not in use — in particular never
    1 or 7, and different from every existing aid. -/
theorem findAid_spec (keys : List Nat) (r : Nat) (h : findAid keys = some r) :
    2 ≤ r ∧ r ≠ 1 ∧ r ≠ 7 ∧ ¬ r ∈ keys ∧ ∀ j, 2 ≤ j → j < r → j = 7 ∨ j ∈ keys := by
  obtain ⟨h1, h2, h3, h4⟩ := findAidFrom_spec keys _ 2 r h
  exact ⟨h1, by omega, h2, h3, h4⟩

end Hap.Db
