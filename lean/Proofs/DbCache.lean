/-
  Lemmas for C11: the cache invariant of `Characteristic`, lifted through services,
  accessories and the database; shape of the read path.
-/
import HapModel.Db
namespace Hap.Db
open Hap

set_option linter.unusedSectionVars false
variable {V P : Type} [PropsLike P] [Inhabited V]

/-! ### characteristic level -/
namespace Char

theorem cacheOk_clear (c : Char V P) (iid : Option Nat) : (c.clearCache).CacheOk iid := by
  simp [CacheOk, clearCache]

theorem cacheOk_setVal (c : Char V P) (v : V) (iid : Option Nat) : (c.setVal v).CacheOk iid := by
  simp [CacheOk, setVal, clearCache]

theorem cacheOk_setDisplay (c : Char V P) (n : Option String) (iid : Option Nat) :
    (c.setDisplay n).CacheOk iid := by
  simp [CacheOk, setDisplay, clearCache]

theorem cacheOk_setGetter (c : Char V P) (b : Bool) (iid : Option Nat) (h : c.CacheOk iid) :
    (c.setGetter b).CacheOk iid := h

theorem cacheOk_setValue (c : Char V P) (vres : Option V) (iid : Option Nat) (h : c.CacheOk iid) :
    (c.setValue vres).CacheOk iid := by
  unfold setValue
  cases vres with
  | none => exact h
  | some v =>
    simp only
    split
    · exact cacheOk_setVal _ _ _
    · exact cacheOk_setVal _ _ _

theorem cacheOk_clientUpdate (c : Char V P) (vres : Option V) (cb : Bool) (iid : Option Nat)
    (h : c.CacheOk iid) : (c.clientUpdate vres cb).CacheOk iid := by
  unfold clientUpdate
  cases vres with
  | none => exact h
  | some v =>
    simp only
    split
    · exact cacheOk_setVal _ _ _
    · split
      · exact cacheOk_setVal _ _ _
      · exact cacheOk_setVal _ _ _

theorem cacheOk_overrideProps (c : Char V P) (ov : Override V P) (iid : Option Nat)
    (h : c.CacheOk iid) : (c.overrideProps ov).CacheOk iid := by
  cases ov with
  | noArgs => exact h
  | invalid => exact cacheOk_clear _ _
  | done upd nv =>
    cases nv with
    | none => simp [overrideProps, CacheOk, clearCache]
    | some v => simp only [overrideProps]; exact cacheOk_setVal _ _ _

theorem obj_setVal (c : Char V P) (v : V) : (c.setVal v).obj = c.obj := rfl
theorem obj_setDisplay (c : Char V P) (n : Option String) : (c.setDisplay n).obj = c.obj := rfl
theorem obj_setGetter (c : Char V P) (b : Bool) : (c.setGetter b).obj = c.obj := rfl

theorem obj_setValue (c : Char V P) (vres : Option V) : (c.setValue vres).obj = c.obj := by
  unfold setValue; cases vres <;> simp only <;> try split <;> rfl

theorem obj_clientUpdate (c : Char V P) (vres : Option V) (cb : Bool) :
    (c.clientUpdate vres cb).obj = c.obj := by
  unfold clientUpdate; cases vres <;> simp only
  split
  · rfl
  · split <;> rfl

theorem obj_overrideProps (c : Char V P) (ov : Override V P) : (c.overrideProps ov).obj = c.obj := by
  cases ov with
  | noArgs => rfl
  | invalid => rfl
  | done upd nv => cases nv <;> rfl

theorem getValue_obj (c : Char V P) (g : Option V) : (c.getValue g).2.obj = c.obj := by
  unfold getValue; split
  · cases g <;> rfl
  · rfl

theorem getValue_cacheOk (c : Char V P) (g : Option V) (iid : Option Nat) (h : c.CacheOk iid) :
    (c.getValue g).2.CacheOk iid := by
  unfold getValue; split
  · cases g with
    | none => exact h
    | some v => exact cacheOk_setVal _ _ _
  · exact h

/-- The core of C11: with valid caches `to_HAP` returns what a from-scratch rendering of the
    current state returns, leaves valid caches, and has the same effect on the stored state
    (the value written by a getter), for every outcome of the getter. -/
theorem toHap_spec (c : Char V P) (iid : Option Nat) (incl : Bool) (g : Option V)
    (h : c.CacheOk iid) :
    (c.toHap iid incl g).1 = (c.toHapFresh iid incl g).1 ∧
    (c.toHap iid incl g).2.CacheOk iid ∧
    (c.toHap iid incl g).2.obj = c.obj ∧
    (c.toHap iid incl g).2.clearCache = (c.toHapFresh iid incl g).2.clearCache := by
  obtain ⟨hN, hV⟩ := h
  cases incl with
  | false =>
    cases hc : c.cacheN with
    | some r =>
      rw [hc] at hN
      simp only [Option.some.injEq, reduceCtorEq, false_or] at hN
      subst hN
      refine ⟨?_, ⟨Or.inr ?_, ?_⟩, ?_, ?_⟩ <;> simp [toHap, toHapFresh, hc, hV]
    | none =>
      refine ⟨?_, ⟨Or.inr ?_, ?_⟩, ?_, ?_⟩ <;>
        simp [toHap, toHapFresh, build, hc, clearCache, baseRep, descOf, repV]
      simpa [repV, baseRep, descOf] using hV
  | true =>
    cases hr : PropsLike.readable c.props <;> cases hg : c.getter <;> cases hc : c.cacheV <;>
      cases g <;>
      (rw [hc] at hV
       refine ⟨?_, ⟨?_, ?_⟩, ?_, ?_⟩) <;>
      simp_all [toHap, toHapFresh, build, getValue, clearCache, setVal, baseRep, descOf, repV]

end Char

/-! ### list comprehension with failure -/

theorem traverse_agree {α β : Type} (f g : α → Option β × α) (I : α → Prop) (l : List α)
    (h : ∀ a ∈ l, I a → (f a).1 = (g a).1 ∧ I (f a).2) (hl : ∀ a ∈ l, I a) :
    (traverse f l).1 = (traverse g l).1 ∧ (∀ a ∈ (traverse f l).2, I a) := by
  induction l with
  | nil => simp [traverse]
  | cons a as ih =>
    have ha := h a (by simp) (hl a (by simp))
    have ih' := ih (fun b hb => h b (by simp [hb])) (fun b hb => hl b (by simp [hb]))
    simp only [traverse]
    rcases hfa : f a with ⟨rf, af⟩
    rcases hga : g a with ⟨rg, ag⟩
    rw [hfa, hga] at ha
    obtain ⟨e1, i1⟩ := ha
    simp only at e1 i1
    subst e1
    cases rf with
    | none =>
      simp only
      refine ⟨by first | rfl | trivial, ?_⟩
      intro b hb
      simp only [List.mem_cons] at hb
      rcases hb with rfl | hb
      · exact i1
      · exact hl b (by simp [hb])
    | some b =>
      simp only
      rcases hft : traverse f as with ⟨rft, aft⟩
      rcases hgt : traverse g as with ⟨rgt, agt⟩
      rw [hft, hgt] at ih'
      obtain ⟨e2, i2⟩ := ih'
      simp only at e2 i2
      subst e2
      cases rft with
      | none =>
        simp only
        refine ⟨by first | rfl | trivial, ?_⟩
        intro x hx
        simp only [List.mem_cons] at hx
        rcases hx with rfl | hx
        · exact i1
        · exact i2 x hx
      | some bs =>
        simp only
        refine ⟨by first | rfl | trivial, ?_⟩
        intro x hx
        simp only [List.mem_cons] at hx
        rcases hx with rfl | hx
        · exact i1
        · exact i2 x hx


end Hap.Db
