/-
  C17 lemmas, part 2: the well-formedness invariant of the database under construction
  histories (fresh objects, managers consistent, aids distinct) and its preservation.
-/
import Proofs.Iid
import Proofs.DbAid
namespace Hap.Db
open Hap
set_option linter.unusedSectionVars false
variable {V P : Type} [PropsLike P] [Inhabited V]

/-- the top-level accessory under key 1, then the bridge's `accessories` dict -/
def Db.assoc (s : Db V P) : List (Nat × Accessory V P) := (STANDALONE_AID, s.main) :: s.bridged

/-- one accessory is in order: it knows its aid, its manager is consistent, its objects are
    pairwise distinct and were allocated below `n` -/
def AccGood (n : Nat) (ka : Nat × Accessory V P) : Prop :=
  ka.2.aid = some ka.1 ∧ Iid.Good ka.2.iidm ∧ ka.2.objList.Nodup ∧ ∀ o ∈ ka.2.objList, o < n

/-- two accessories have different aids and share no object -/
def Sep (x y : Nat × Accessory V P) : Prop :=
  x.1 ≠ y.1 ∧ ∀ o, o ∈ x.2.objList → o ∈ y.2.objList → False

structure Db.GoodN (s : Db V P) (n : Nat) : Prop where
  accs : ∀ ka ∈ s.assoc, AccGood n ka
  sep : s.assoc.Pairwise Sep
  plain : s.isBridge = false → s.bridged = []

/-- the invariant of construction histories -/
def Db.Good (s : Db V P) : Prop := s.GoodN s.nextObj

theorem Sep.symm {x y : Nat × Accessory V P} (h : Sep x y) : Sep y x :=
  ⟨fun e => h.1 e.symm, fun o h1 h2 => h.2 o h2 h1⟩

theorem pairwise_symm_mem {α : Type} {R : α → α → Prop} (hs : ∀ a b, R a b → R b a) {l : List α}
    (h : l.Pairwise R) : ∀ a ∈ l, ∀ b ∈ l, a ≠ b → R a b := by
  induction l with
  | nil => intro a ha; cases ha
  | cons x xs ih =>
    rw [List.pairwise_cons] at h
    intro a ha b hb hne
    simp only [List.mem_cons] at ha hb
    rcases ha with rfl | ha <;> rcases hb with rfl | hb
    · exact absurd rfl hne
    · exact h.1 b hb
    · exact hs _ _ (h.1 a ha)
    · exact ih h.2 a ha b hb hne

/-- an aid names at most one accessory -/
theorem key_unique {l : List (Nat × Accessory V P)} (h : l.Pairwise Sep) {x y : Nat × Accessory V P}
    (hx : x ∈ l) (hy : y ∈ l) (hk : x.1 = y.1) : x = y := by
  by_cases hne : x = y
  · exact hne
  · exact absurd hk (pairwise_symm_mem (fun _ _ => Sep.symm) h x hx y hy hne).1

theorem lookup_mem' {α : Type} (k : Nat) (l : List (Nat × α)) (a : α) (h : lookup k l = some a) :
    (k, a) ∈ l := by
  induction l with
  | nil => simp [lookup] at h
  | cons x xs ih =>
    obtain ⟨k', a'⟩ := x
    simp only [lookup] at h
    split at h
    · rename_i hk; cases h; subst hk; simp
    · simp [ih h]

theorem lookup_of_mem {l : List (Nat × Accessory V P)} (h : l.Pairwise Sep) {k : Nat} {a : Accessory V P}
    (hm : (k, a) ∈ l) : lookup k l = some a := by
  induction l with
  | nil => cases hm
  | cons x xs ih =>
    obtain ⟨k', a'⟩ := x
    rw [List.pairwise_cons] at h
    simp only [List.mem_cons, Prod.mk.injEq] at hm
    simp only [lookup]
    rcases hm with ⟨rfl, rfl⟩ | hm
    · simp
    · have : k' ≠ k := (h.1 _ hm).1
      simp [this, ih h.2 hm]

theorem lookup_none_of_not_mem {α : Type} (k : Nat) (l : List (Nat × α)) (h : ¬ k ∈ l.map (·.1)) :
    lookup k l = none := by
  induction l with
  | nil => rfl
  | cons x xs ih =>
    obtain ⟨k', a'⟩ := x
    simp only [List.map_cons, List.mem_cons, not_or] at h
    simp only [lookup]
    have : k' ≠ k := fun e => h.1 e.symm
    simp [this, ih h.2]

/-! ### fresh services -/

theorem numberFrom_objs (o : Nat) (ds : List (CharDef V P)) :
    (numberFrom o ds).map (·.obj) = List.range' o ds.length := by
  induction ds generalizing o with
  | nil => rfl
  | cons d ds ih => simp [numberFrom, mkChar, ih, List.range'_succ]

theorem numberFrom_length (o : Nat) (ds : List (CharDef V P)) : (numberFrom o ds).length = ds.length := by
  induction ds generalizing o with
  | nil => rfl
  | cons d ds ih => simp [numberFrom, ih]

theorem mkService_objList (o : Nat) (d : SvcDef V P) :
    (mkService o d).objList = List.range' o ((mkService o d).chars.length + 1) := by
  simp only [Service.objList, mkService, numberFrom_objs, numberFrom_length]
  rw [List.range'_succ]

theorem foldl_assign_good (l : List Nat) (m : Iid) (h : Iid.Good m) : Iid.Good (l.foldl Iid.assign m) := by
  induction l generalizing m with
  | nil => exact h
  | cons x xs ih => exact ih _ (Iid.good_assign h x)

theorem addService_objList (a : Accessory V P) (sv : Service V P) :
    (a.addService sv).objList = a.objList ++ sv.objList := by
  simp [Accessory.addService, Accessory.objList, List.flatMap_append]

/-- adding a fresh service numbered from `o` (≥ every object so far) -/
theorem addService_good (k : Nat) (a : Accessory V P) (n o : Nat) (d : SvcDef V P)
    (h : AccGood n (k, a)) (hn : n ≤ o) :
    AccGood (o + 1 + (mkService o d).chars.length) (k, a.addService (mkService o d)) ∧
    ∀ x ∈ (a.addService (mkService o d)).objList, x ∈ a.objList ∨ o ≤ x := by
  obtain ⟨h1, h2, h3, h4⟩ := h
  have hmem : ∀ x, x ∈ (mkService o d).objList ↔ o ≤ x ∧ x < o + ((mkService o d).chars.length + 1) := by
    intro x; rw [mkService_objList]; exact List.mem_range'_1
  refine ⟨⟨h1, ?_, ?_, ?_⟩, ?_⟩
  · exact foldl_assign_good _ _ (Iid.good_assign h2 _)
  · show (a.addService (mkService o d)).objList.Nodup
    rw [addService_objList, List.nodup_append]
    refine ⟨h3, ?_, ?_⟩
    · rw [mkService_objList]; exact List.nodup_range' 1
    · intro x hx y hy e
      subst e
      have := h4 x hx
      have := (hmem x).mp hy
      omega
  · intro x hx
    show x < _
    change x ∈ (a.addService (mkService o d)).objList at hx
    rw [addService_objList, List.mem_append] at hx
    rcases hx with hx | hx
    · have := h4 x hx; omega
    · have := (hmem x).mp hx; omega
  · intro x hx
    rw [addService_objList, List.mem_append] at hx
    rcases hx with hx | hx
    · exact Or.inl hx
    · exact Or.inr ((hmem x).mp hx).1

theorem AccGood.mono {n m : Nat} {ka : Nat × Accessory V P} (h : AccGood n ka) (hnm : n ≤ m) :
    AccGood m ka :=
  ⟨h.1, h.2.1, h.2.2.1, fun o ho => Nat.lt_of_lt_of_le (h.2.2.2 o ho) hnm⟩

/-- a fresh accessory built by `mkAccessory` -/
theorem mkAccessory_spec (aid : Option Nat) (defs : List (SvcDef V P)) (o : Nat) (a : Accessory V P)
    (hg : Iid.Good a.iidm) (hnd : a.objList.Nodup) (hlt : ∀ x ∈ a.objList, x < o) :
    (mkAccessory aid o defs a).1.aid = aid ∧ Iid.Good (mkAccessory aid o defs a).1.iidm ∧
    (mkAccessory aid o defs a).1.objList.Nodup ∧ o ≤ (mkAccessory aid o defs a).2 ∧
    (∀ x ∈ (mkAccessory aid o defs a).1.objList, x < (mkAccessory aid o defs a).2) ∧
    (∀ x ∈ (mkAccessory aid o defs a).1.objList, x ∈ a.objList ∨ o ≤ x) := by
  induction defs generalizing o a with
  | nil => exact ⟨rfl, hg, hnd, Nat.le_refl _, hlt, fun x hx => Or.inl hx⟩
  | cons d ds ih =>
    simp only [mkAccessory]
    have hk : AccGood o ((0 : Nat), { a with aid := some 0 }) := ⟨rfl, hg, hnd, hlt⟩
    obtain ⟨⟨_, g2, g3, g4⟩, g5⟩ := addService_good 0 { a with aid := some 0 } o o d hk (Nat.le_refl _)
    have e1 : (({ a with aid := some 0 } : Accessory V P).addService (mkService o d)).iidm
        = (a.addService (mkService o d)).iidm := rfl
    have e2 : (({ a with aid := some 0 } : Accessory V P).addService (mkService o d)).objList
        = (a.addService (mkService o d)).objList := rfl
    simp only [e1, e2] at g2 g3 g4 g5
    obtain ⟨r1, r2, r3, r4, r5, r6⟩ := ih (o + 1 + (mkService o d).chars.length)
      (a.addService (mkService o d)) g2 g3 g4
    refine ⟨r1, r2, r3, by omega, r5, ?_⟩
    intro x hx
    rcases r6 x hx with h | h
    · rcases g5 x h with h' | h'
      · exact Or.inl h'
      · exact Or.inr h'
    · exact Or.inr (by omega)

/-! ### dropping cached representations does not touch identities -/

theorem Service.objList_modChar (sv : Service V P) (o : Nat) (f : Char V P → Char V P)
    (hf : ∀ c, (f c).obj = c.obj) : (sv.modChar o f).objList = sv.objList := by
  simp only [Service.objList, Service.modChar, List.map_map]
  congr 1
  apply List.map_congr_left
  intro c _
  simp only [Function.comp]
  split
  · exact hf c
  · rfl

theorem Accessory.objList_modChar (a : Accessory V P) (o : Nat) (f : Char V P → Char V P)
    (hf : ∀ c, (f c).obj = c.obj) : (a.modChar o f).objList = a.objList := by
  simp only [Accessory.objList, Accessory.modChar, List.flatMap_map]
  congr 1
  funext sv
  exact Service.objList_modChar sv o f hf

theorem Accessory.objList_forget (a : Accessory V P) (o : Nat) : (a.forget o).objList = a.objList :=
  Accessory.objList_modChar a o _ (fun _ => rfl)

theorem Accessory.objList_forget? (a : Accessory V P) (o : Option Nat) : (a.forget? o).objList = a.objList := by
  cases o with
  | none => rfl
  | some o => exact Accessory.objList_forget a o

theorem AccGood.forget {n k : Nat} {a : Accessory V P} (h : AccGood n (k, a)) (o : Nat) :
    AccGood n (k, a.forget o) := by
  obtain ⟨h1, h2, h3, h4⟩ := h
  refine ⟨h1, h2, ?_, ?_⟩
  · show (a.forget o).objList.Nodup
    rw [Accessory.objList_forget]; exact h3
  · intro x hx
    change x ∈ (a.forget o).objList at hx
    rw [Accessory.objList_forget] at hx; exact h4 x hx

theorem AccGood.forget? {n k : Nat} {a : Accessory V P} (h : AccGood n (k, a)) (o : Option Nat) :
    AccGood n (k, a.forget? o) := by
  cases o with
  | none => exact h
  | some o => exact h.forget o

/-! ### updating one accessory -/

/-- `f` applied to the accessory under key `k` -/
def updKey (k : Nat) (F : Accessory V P → Accessory V P) (ka : Nat × Accessory V P) : Nat × Accessory V P :=
  if ka.1 = k then (ka.1, F ka.2) else ka

theorem updKey_fst (k : Nat) (F : Accessory V P → Accessory V P) (ka : Nat × Accessory V P) :
    (updKey k F ka).1 = ka.1 := by
  unfold updKey; split <;> rfl

/-- replacing the accessory under one key by `F` of it keeps the invariant when `F` keeps the
    accessory in order and adds only objects numbered ≥ `n` -/
theorem goodN_map (l : List (Nat × Accessory V P)) (n n' : Nat) (k : Nat)
    (F : Accessory V P → Accessory V P) (hnn : n ≤ n')
    (hacc : ∀ ka ∈ l, AccGood n ka) (hsep : l.Pairwise Sep)
    (hF : ∀ ka ∈ l, ka.1 = k → AccGood n' (ka.1, F ka.2) ∧ ∀ x ∈ (F ka.2).objList, x ∈ ka.2.objList ∨ n ≤ x) :
    (∀ ka ∈ l.map (updKey k F), AccGood n' ka) ∧ (l.map (updKey k F)).Pairwise Sep := by
  constructor
  · intro kb hkb
    rw [List.mem_map] at hkb
    obtain ⟨ka, hka, rfl⟩ := hkb
    unfold updKey
    split
    · rename_i hk; exact (hF ka hka hk).1
    · exact (hacc ka hka).mono hnn
  · rw [List.pairwise_map]
    refine List.Pairwise.imp_of_mem ?_ hsep
    intro x y hx hy hxy
    refine ⟨by rw [updKey_fst, updKey_fst]; exact hxy.1, ?_⟩
    intro o h1 h2
    unfold updKey at h1 h2
    by_cases hxk : x.1 = k <;> by_cases hyk : y.1 = k
    · exact hxy.1 (hxk.trans hyk.symm)
    · simp only [hxk, if_true, hyk, if_false] at h1 h2
      rcases (hF x hx hxk).2 o h1 with h | h
      · exact hxy.2 o h h2
      · have := (hacc y hy).2.2.2 o h2; omega
    · simp only [hxk, if_false, hyk, if_true] at h1 h2
      rcases (hF y hy hyk).2 o h2 with h | h
      · exact hxy.2 o h1 h
      · have := (hacc x hx).2.2.2 o h1; omega
    · simp only [hxk, if_false, hyk] at h1 h2
      exact hxy.2 o h1 h2

/-- what `onAcc` does to the association list, when `f` succeeds with `F` on the target -/
theorem onAcc_assoc (s : Db V P) (n : Nat) (aid : Nat) (f : Accessory V P → Option (Accessory V P × Res))
    (F : Accessory V P → Accessory V P) (hs : s.GoodN n)
    (hf : ∀ ka ∈ s.assoc, ka.1 = aid → ∃ r, f ka.2 = some (F ka.2, r)) :
    ((s.onAcc aid f).1.assoc = s.assoc.map (updKey aid F) ∨ (s.onAcc aid f).1 = s) ∧
    (s.onAcc aid f).1.isBridge = s.isBridge ∧ (s.onAcc aid f).1.nextObj = s.nextObj := by
  have hsep := hs.sep
  have h1notin : ∀ kb ∈ s.bridged, kb.1 ≠ STANDALONE_AID := by
    intro kb hkb
    have : Sep (STANDALONE_AID, s.main) kb := (List.pairwise_cons.mp hsep).1 kb hkb
    exact fun e => this.1 e.symm
  unfold Db.onAcc
  by_cases h1 : aid = STANDALONE_AID
  · simp only [h1, if_true]
    obtain ⟨r, hr⟩ := hf (STANDALONE_AID, s.main) (by simp [Db.assoc]) h1.symm
    simp only at hr
    rw [hr]
    refine ⟨Or.inl ?_, rfl, rfl⟩
    · simp only [Db.assoc, List.map_cons, updKey, h1, if_true]
      congr 1
      symm
      calc List.map (updKey STANDALONE_AID F) s.bridged = List.map id s.bridged := by
            apply List.map_congr_left
            intro kb hkb
            simp [updKey, h1notin kb hkb]
        _ = s.bridged := List.map_id _
  · simp only [h1, if_false]
    cases hl : lookup aid s.bridged with
    | none => exact ⟨Or.inr rfl, rfl, rfl⟩
    | some a =>
      have hmem : (aid, a) ∈ s.bridged := lookup_mem' _ _ _ hl
      obtain ⟨r, hr⟩ := hf (aid, a) (by simp [Db.assoc, hmem]) rfl
      simp only at hr
      simp only [hr]
      refine ⟨Or.inl ?_, rfl, rfl⟩
      · simp only [Db.assoc, Db.setBridged, List.map_cons]
        have h1' : ¬ STANDALONE_AID = aid := fun e => h1 e.symm
        simp only [updKey, h1', if_false]
        congr 1
        apply List.map_congr_left
        intro kb hkb
        by_cases hk : kb.1 = aid
        · have : kb = (aid, a) :=
            key_unique (List.pairwise_cons.mp hsep).2 hkb hmem hk
          subst this
          simp [updKey]
        · simp [updKey, hk]


/-! ### the three manager operations as updates of one accessory -/

def fAssign (o : Nat) (a : Accessory V P) : Option (Accessory V P × Res) :=
  some (({ a with iidm := a.iidm.assign o } : Accessory V P).forget o, .ok none)
def FAssign (o : Nat) (a : Accessory V P) : Accessory V P :=
  ({ a with iidm := a.iidm.assign o } : Accessory V P).forget o

def fRemoveObj (o : Nat) (a : Accessory V P) : Option (Accessory V P × Res) :=
  (a.iidm.removeObj o).map (fun mr => (({ a with iidm := mr.1 } : Accessory V P).forget o, .ok mr.2))
def FRemoveObj (o : Nat) (a : Accessory V P) : Accessory V P :=
  ({ a with iidm := ((a.iidm.removeObj o).map (·.1)).getD a.iidm } : Accessory V P).forget o

def fRemoveIid (i : Nat) (a : Accessory V P) : Option (Accessory V P × Res) :=
  (a.iidm.removeIid i).map (fun mr => (({ a with iidm := mr.1 } : Accessory V P).forget? mr.2, .ok mr.2))
def FRemoveIid (i : Nat) (a : Accessory V P) : Accessory V P :=
  ({ a with iidm := ((a.iidm.removeIid i).map (·.1)).getD a.iidm } : Accessory V P).forget?
    ((a.iidm.removeIid i).bind (·.2))

theorem step_assign (s : Db V P) (aid o : Nat) : s.step (.assign aid o) = s.onAcc aid (fAssign o) := rfl
theorem step_removeObj (s : Db V P) (aid o : Nat) : s.step (.removeObj aid o) = s.onAcc aid (fRemoveObj o) := rfl
theorem step_removeIid (s : Db V P) (aid i : Nat) : s.step (.removeIid aid i) = s.onAcc aid (fRemoveIid i) := rfl

theorem fAssign_eq (o : Nat) (a : Accessory V P) :
    ∃ r, fAssign o a = some (FAssign o a, r) ∧ r ≠ .keyError := ⟨.ok none, rfl, by simp⟩

theorem fRemoveObj_eq (o : Nat) (a : Accessory V P) (h : Iid.Good a.iidm) :
    ∃ r, fRemoveObj o a = some (FRemoveObj o a, r) ∧ r ≠ .keyError := by
  obtain ⟨m', r, e, _⟩ := Iid.removeObj_good h o
  exact ⟨.ok r, by simp [fRemoveObj, FRemoveObj, e], by simp⟩

theorem fRemoveIid_eq (i : Nat) (a : Accessory V P) (h : Iid.Good a.iidm) :
    ∃ r, fRemoveIid i a = some (FRemoveIid i a, r) ∧ r ≠ .keyError := by
  obtain ⟨m', r, e, _⟩ := Iid.removeIid_good h i
  exact ⟨.ok r, by simp [fRemoveIid, FRemoveIid, e], by simp⟩

theorem FAssign_good {n k : Nat} {a : Accessory V P} (o : Nat) (h : AccGood n (k, a)) :
    AccGood n (k, FAssign o a) ∧ (FAssign o a).objList = a.objList := by
  obtain ⟨a1, a2, a3, a4⟩ := h
  have : AccGood n (k, ({ a with iidm := a.iidm.assign o } : Accessory V P)) :=
    ⟨a1, Iid.good_assign a2 o, a3, a4⟩
  exact ⟨this.forget o, Accessory.objList_forget _ o⟩

theorem FRemoveObj_good {n k : Nat} {a : Accessory V P} (o : Nat) (h : AccGood n (k, a)) :
    AccGood n (k, FRemoveObj o a) ∧ (FRemoveObj o a).objList = a.objList := by
  obtain ⟨a1, a2, a3, a4⟩ := h
  obtain ⟨m', r, e, g, _⟩ := Iid.removeObj_good a2 o
  have : AccGood n (k, ({ a with iidm := ((a.iidm.removeObj o).map (·.1)).getD a.iidm } : Accessory V P)) :=
    ⟨a1, by show Iid.Good (((a.iidm.removeObj o).map (·.1)).getD a.iidm); rw [e]; exact g, a3, a4⟩
  exact ⟨this.forget o, Accessory.objList_forget _ o⟩

theorem FRemoveIid_good {n k : Nat} {a : Accessory V P} (i : Nat) (h : AccGood n (k, a)) :
    AccGood n (k, FRemoveIid i a) ∧ (FRemoveIid i a).objList = a.objList := by
  obtain ⟨a1, a2, a3, a4⟩ := h
  obtain ⟨m', r, e, g, _⟩ := Iid.removeIid_good a2 i
  have : AccGood n (k, ({ a with iidm := ((a.iidm.removeIid i).map (·.1)).getD a.iidm } : Accessory V P)) :=
    ⟨a1, by show Iid.Good (((a.iidm.removeIid i).map (·.1)).getD a.iidm); rw [e]; exact g, a3, a4⟩
  exact ⟨this.forget? _, Accessory.objList_forget? _ _⟩

end Hap.Db
