/-
  C17 lemmas, part 7: construction histories with reads in between.  With the repaired
  IIDManager (assign / remove_obj / remove_iid drop the object's cached representation)
  * every construction operation keeps C11's cache invariant, and
  * every read keeps the well-formedness invariant,
  so after any interleaving the document served through the caches is the from-scratch one.
-/
import Proofs.DbUncached
import Proofs.DbLift
namespace Hap.Db
open Hap
set_option linter.unusedSectionVars false
variable {V P : Type} [PropsLike P] [Inhabited V]

/-! ### construction operations keep the cache invariant -/

theorem assign_iids_ne (m : Iid) (o o' : Nat) (h : o' ≠ o) : (m.assign o).iids o' = m.iids o' := by
  unfold Iid.assign
  split
  · rfl
  · simp [Iid.upd, h]

theorem foldl_assign_iids (l : List Nat) (m : Iid) (o' : Nat) (h : ¬ o' ∈ l) :
    (l.foldl Iid.assign m).iids o' = m.iids o' := by
  induction l generalizing m with
  | nil => rfl
  | cons x xs ih =>
    simp only [List.mem_cons, not_or] at h
    simp only [List.foldl_cons]
    rw [ih _ h.2, assign_iids_ne _ _ _ h.1]

theorem removeObj_iids_ne (m : Iid) (o o' : Nat) (h : o' ≠ o) :
    (((m.removeObj o).map (·.1)).getD m).iids o' = m.iids o' := by
  cases h1 : m.iids o with
  | none => simp [Iid.removeObj, h1]
  | some i =>
    cases h2 : m.objs i with
    | none => simp [Iid.removeObj, h1, h2]
    | some _ => simp [Iid.removeObj, h1, h2, Iid.upd, h]

theorem removeIid_iids_ne (m : Iid) (i o' : Nat)
    (h : ∀ o, (m.removeIid i).bind (·.2) = some o → o' ≠ o) :
    (((m.removeIid i).map (·.1)).getD m).iids o' = m.iids o' := by
  cases h1 : m.objs i with
  | none => simp [Iid.removeIid, h1]
  | some o =>
    cases h2 : m.iids o with
    | none => simp [Iid.removeIid, h1, h2]
    | some _ =>
      have : o' ≠ o := h o (by simp [Iid.removeIid, h1, h2])
      simp [Iid.removeIid, h1, h2, Iid.upd, this]

/-- replacing the manager by one that agrees on every object but `o`, and dropping `o`'s caches -/
theorem cacheOk_forget_of (a : Accessory V P) (m' : Iid) (o : Nat) (h : a.CacheOk)
    (hm : ∀ o', o' ≠ o → m'.iids o' = a.iidm.iids o') :
    (({ a with iidm := m' } : Accessory V P).forget o).CacheOk := by
  intro sv' hsv' c' hc'
  simp only [Accessory.forget, Accessory.modChar, List.mem_map] at hsv'
  obtain ⟨sv, hsv, rfl⟩ := hsv'
  simp only [Service.modChar, List.mem_map] at hc'
  obtain ⟨c, hc, rfl⟩ := hc'
  show Char.CacheOk _ (m'.iids _)
  split
  · exact Char.cacheOk_clear _ _
  · rename_i hne
    rw [hm c.obj hne]
    exact h sv hsv c hc

theorem cacheOk_setIidm_of (a : Accessory V P) (m' : Iid) (h : a.CacheOk)
    (hm : ∀ sv ∈ a.services, ∀ c ∈ sv.chars, m'.iids c.obj = a.iidm.iids c.obj) :
    ({ a with iidm := m' } : Accessory V P).CacheOk := by
  intro sv hsv c hc
  show Char.CacheOk _ (m'.iids _)
  rw [hm sv hsv c hc]
  exact h sv hsv c hc

theorem FAssign_cacheOk (o : Nat) (a : Accessory V P) (h : a.CacheOk) : (FAssign o a).CacheOk :=
  cacheOk_forget_of a _ o h (fun o' ho => assign_iids_ne _ _ _ ho)

theorem FRemoveObj_cacheOk (o : Nat) (a : Accessory V P) (h : a.CacheOk) : (FRemoveObj o a).CacheOk :=
  cacheOk_forget_of a _ o h (fun o' ho => removeObj_iids_ne _ _ _ ho)

theorem FRemoveIid_cacheOk (i : Nat) (a : Accessory V P) (h : a.CacheOk) : (FRemoveIid i a).CacheOk := by
  unfold FRemoveIid
  cases hb : (a.iidm.removeIid i).bind (·.2) with
  | none =>
    apply cacheOk_setIidm_of a _ h
    intro sv _ c _
    exact removeIid_iids_ne _ _ _ (fun o ho => by rw [hb] at ho; cases ho)
  | some o =>
    exact cacheOk_forget_of a _ o h (fun o' ho => removeIid_iids_ne _ _ _ (fun o2 h2 => by
      rw [hb] at h2; cases h2; exact ho))

theorem mem_objList_of_char (a : Accessory V P) (sv : Service V P) (c : Char V P)
    (hsv : sv ∈ a.services) (hc : c ∈ sv.chars) : c.obj ∈ a.objList := by
  simp only [Accessory.objList, List.mem_flatMap]
  exact ⟨sv, hsv, by simp [Service.objList]; exact Or.inr ⟨c, hc, rfl⟩⟩

theorem addService_cacheOk (k n o : Nat) (a : Accessory V P) (d : SvcDef V P)
    (hg : AccGood n (k, a)) (hn : n ≤ o) (h : a.CacheOk) :
    (a.addService (mkService o d)).CacheOk := by
  intro sv hsv c hc
  simp only [Accessory.addService, List.mem_append, List.mem_singleton] at hsv
  show Char.CacheOk _ ((a.addService (mkService o d)).iidm.iids _)
  rcases hsv with hsv | rfl
  · have hlt : c.obj < n := hg.2.2.2 _ (mem_objList_of_char a sv c hsv hc)
    have e : (a.addService (mkService o d)).iidm.iids c.obj = a.iidm.iids c.obj := by
      simp only [Accessory.addService]
      rw [foldl_assign_iids, assign_iids_ne]
      · show c.obj ≠ o; omega
      · intro hm
        have : c.obj ∈ (mkService o d).objList := by
          simp only [Service.objList, List.mem_cons]; exact Or.inr hm
        rw [mkService_objList] at this
        have := (List.mem_range'_1.mp this).1
        omega
    rw [e]; exact h sv hsv c hc
  · obtain ⟨h1, h2⟩ := numberFrom_uncached _ _ c hc
    exact ⟨Or.inl h2, Or.inl h1⟩

theorem cacheOk_of_uncached (a : Accessory V P) (h : AccUncached a) : a.CacheOk := by
  intro sv hsv c hc
  obtain ⟨h1, h2⟩ := h sv hsv c hc
  exact ⟨Or.inl h2, Or.inl h1⟩

theorem Db.accList_eq' (s : Db V P) : s.accList = s.assoc.map (·.2) := rfl

theorem Db.cacheOk_iff (s : Db V P) : s.CacheOk ↔ ∀ ka ∈ s.assoc, ka.2.CacheOk := by
  constructor
  · intro h ka hka
    exact h _ (by rw [Db.accList_eq']; exact List.mem_map_of_mem hka)
  · intro h a ha
    rw [Db.accList_eq', List.mem_map] at ha
    obtain ⟨ka, hka, rfl⟩ := ha
    exact h ka hka

theorem onAcc_cacheOk (s : Db V P) (n : Nat) (aid : Nat) (f : Accessory V P → Option (Accessory V P × Res))
    (F : Accessory V P → Accessory V P) (hs : s.GoodN n) (hc : s.CacheOk)
    (hf : ∀ ka ∈ s.assoc, ka.1 = aid → ∃ r, f ka.2 = some (F ka.2, r))
    (hF : ∀ ka ∈ s.assoc, ka.1 = aid → ka.2.CacheOk → (F ka.2).CacheOk) :
    (s.onAcc aid f).1.CacheOk := by
  obtain ⟨h1, _, _⟩ := onAcc_assoc s n aid f F hs hf
  rcases h1 with h1 | h1
  · rw [Db.cacheOk_iff, h1]
    intro kb hkb
    rw [List.mem_map] at hkb
    obtain ⟨ka, hka, rfl⟩ := hkb
    have := (Db.cacheOk_iff s).mp hc ka hka
    unfold updKey
    split
    · rename_i hk; exact hF ka hka hk this
    · exact this
  · rw [h1]; exact hc

theorem addAccessory_cacheOk (s : Db V P) (aid : Option Nat) (cb : Bool) (defs : List (SvcDef V P))
    (hc : s.CacheOk) : (s.addAccessory aid cb defs).1.CacheOk := by
  have hmk := mkAccessory_uncached aid defs s.nextObj (emptyAccessory : Accessory V P) emptyAccessory_uncached
  unfold Db.addAccessory
  by_cases hb : (!s.isBridge) = true
  · rw [if_pos hb]; exact hc
  rw [if_neg hb]
  by_cases hcb : cb = true
  · rw [if_pos hcb]; exact hc
  rw [if_neg hcb]
  rcases hm : mkAccessory aid s.nextObj defs (emptyAccessory : Accessory V P) with ⟨acc, next⟩
  rw [hm] at hmk
  have happ : ∀ (k : Nat) (acc' : Accessory V P), acc'.services = acc.services →
      Db.CacheOk { s with bridged := s.bridged ++ [(k, acc')], nextObj := next } := by
    intro k acc' hsv
    rw [Db.cacheOk_iff]
    intro kb hkb
    simp only [Db.assoc, List.mem_cons, List.mem_append, List.not_mem_nil, or_false] at hkb
    rcases hkb with rfl | hkb | rfl
    · exact (Db.cacheOk_iff s).mp hc _ (by simp [Db.assoc])
    · exact (Db.cacheOk_iff s).mp hc _ (by simp [Db.assoc, hkb])
    · apply cacheOk_of_uncached
      intro sv hsv'; simp only at hsv'; rw [hsv] at hsv'; exact hmk sv hsv'
  cases aid with
  | none =>
    simp only
    cases hfa : findAid s.keys with
    | none => exact hc
    | some k => exact happ k _ rfl
  | some k =>
    simp only
    by_cases hdup : some k = s.main.aid ∨ k ∈ s.keys
    · rw [if_pos hdup]; exact hc
    · rw [if_neg hdup]; exact happ k _ rfl

/-- every construction operation (of the repaired code) keeps the cache invariant -/
theorem step_cacheOk (s : Db V P) (op : Op V P) (hs : s.Good) (hc : s.CacheOk) : (s.step op).1.CacheOk := by
  cases op with
  | addService aid d =>
    simp only [Db.step]
    have key := onAcc_cacheOk s s.nextObj aid
      (fun a => some (a.addService (mkService s.nextObj d), Res.ok none))
      (fun a => a.addService (mkService s.nextObj d)) hs hc
      (fun ka _ _ => ⟨_, rfl⟩)
      (fun ka hka _ h => addService_cacheOk ka.1 s.nextObj s.nextObj ka.2 d (hs.accs ka hka) (Nat.le_refl _) h)
    rcases hr : s.onAcc aid (fun a => some (a.addService (mkService s.nextObj d), Res.ok none)) with ⟨s', r⟩
    rw [hr] at key
    cases r with
    | ok n => exact key
    | valueError => exact hc
    | keyError => exact hc
    | badTarget => exact hc
  | addAccessory aid cb defs => exact addAccessory_cacheOk s aid cb defs hc
  | removeAccessory aid =>
    rw [Db.cacheOk_iff]
    intro kb hkb
    simp only [Db.step, Db.removeAccessory, Db.assoc, List.mem_cons, List.mem_filter] at hkb
    rcases hkb with rfl | ⟨hkb, _⟩
    · exact (Db.cacheOk_iff s).mp hc _ (by simp [Db.assoc])
    · exact (Db.cacheOk_iff s).mp hc _ (by simp [Db.assoc, hkb])
  | assign aid o =>
    rw [step_assign]
    exact onAcc_cacheOk s s.nextObj aid (fAssign o) (FAssign o) hs hc
      (fun ka _ _ => let ⟨r, e, _⟩ := fAssign_eq o ka.2; ⟨r, e⟩) (fun ka _ _ h => FAssign_cacheOk o ka.2 h)
  | removeObj aid o =>
    rw [step_removeObj]
    exact onAcc_cacheOk s s.nextObj aid (fRemoveObj o) (FRemoveObj o) hs hc
      (fun ka hka _ => let ⟨r, e, _⟩ := fRemoveObj_eq o ka.2 (hs.accs ka hka).2.1; ⟨r, e⟩)
      (fun ka _ _ h => FRemoveObj_cacheOk o ka.2 h)
  | removeIid aid i =>
    rw [step_removeIid]
    exact onAcc_cacheOk s s.nextObj aid (fRemoveIid i) (FRemoveIid i) hs hc
      (fun ka hka _ => let ⟨r, e, _⟩ := fRemoveIid_eq i ka.2 (hs.accs ka hka).2.1; ⟨r, e⟩)
      (fun ka _ _ h => FRemoveIid_cacheOk i ka.2 h)

/-! ### reads keep the well-formedness invariant -/

theorem traverse_proj {α β γ : Type} (f : α → Option β × α) (π : α → γ) (l : List α)
    (h : ∀ a ∈ l, π (f a).2 = π a) : (traverse f l).2.map π = l.map π := by
  induction l with
  | nil => rfl
  | cons a as ih =>
    have ha := h a (by simp)
    have ih' := ih (fun b hb => h b (by simp [hb]))
    simp only [traverse]
    rcases hfa : f a with ⟨r, a'⟩
    rw [hfa] at ha
    cases r with
    | none => simp [ha]
    | some b =>
      simp only
      rcases hft : traverse f as with ⟨rt, as'⟩
      rw [hft] at ih'
      cases rt <;> simp [ha, ih']

theorem Char.toHap_obj (c : Char V P) (iid : Option Nat) (incl : Bool) (g : Option V) :
    (c.toHap iid incl g).2.obj = c.obj := by
  cases incl <;> cases hr : PropsLike.readable c.props <;> cases hg : c.getter <;>
    cases hc : c.cacheV <;> cases hn : c.cacheN <;> cases g <;>
    simp [Char.toHap, Char.build, Char.getValue, Char.setVal, Char.clearCache, hr, hg, hc, hn]

theorem Service.toHap_skel (iids : Nat → Option Nat) (incl : Bool) (g : Nat → Option V) (sv : Service V P) :
    (Service.toHap Char.toHap iids incl g sv).2.objList = sv.objList := by
  have key := traverse_proj (fun c : Char V P => Char.toHap c (iids c.obj) incl (g c.obj)) (·.obj) sv.chars
    (fun c _ => Char.toHap_obj c _ _ _)
  simp only [Service.toHap]
  rcases hf : traverse (fun c : Char V P => Char.toHap c (iids c.obj) incl (g c.obj)) sv.chars with ⟨r, cs⟩
  rw [hf] at key
  cases r <;> simp [Service.objList, key]

/-- what the invariants look at in an accessory -/
def Accessory.skel (a : Accessory V P) : Option Nat × Iid × List Nat := (a.aid, a.iidm, a.objList)

theorem Accessory.toHap_skel (incl : Bool) (g : Nat → Option V) (a : Accessory V P) :
    (Accessory.toHap Char.toHap incl g a).2.skel = a.skel := by
  have key := traverse_proj (Service.toHap Char.toHap a.iidm.iids incl g) Service.objList a.services
    (fun sv _ => Service.toHap_skel _ _ _ sv)
  simp only [Accessory.toHap]
  rcases hf : traverse (Service.toHap Char.toHap a.iidm.iids incl g) a.services with ⟨r, ss⟩
  rw [hf] at key
  have e : ss.flatMap Service.objList = a.services.flatMap Service.objList := by
    rw [List.flatMap_def, List.flatMap_def, key]
  cases r <;> simp [Accessory.skel, Accessory.objList, e]

def keySkel (ka : Nat × Accessory V P) : Nat × (Option Nat × Iid × List Nat) := (ka.1, ka.2.skel)

theorem accGood_skel {n : Nat} {ka kb : Nat × Accessory V P} (h : keySkel ka = keySkel kb)
    (hg : AccGood n kb) : AccGood n ka := by
  simp only [keySkel, Accessory.skel, Prod.mk.injEq] at h
  obtain ⟨h1, h2, h3, h4⟩ := h
  obtain ⟨g1, g2, g3, g4⟩ := hg
  exact ⟨by rw [h1, h2]; exact g1, by rw [h3]; exact g2, by rw [h4]; exact g3, by rw [h4]; exact g4⟩

theorem sep_skel {x y x' y' : Nat × Accessory V P} (hx : keySkel x = keySkel x') (hy : keySkel y = keySkel y')
    (h : Sep x' y') : Sep x y := by
  simp only [keySkel, Accessory.skel, Prod.mk.injEq] at hx hy
  refine ⟨by rw [hx.1, hy.1]; exact h.1, ?_⟩
  intro o h1 h2
  rw [hx.2.2.2] at h1
  rw [hy.2.2.2] at h2
  exact h.2 o h1 h2

/-- two association lists that agree on keys and skeletons satisfy the same invariant -/
theorem goodN_of_skel (l l' : List (Nat × Accessory V P)) (n : Nat) (h : l'.map keySkel = l.map keySkel)
    (hacc : ∀ ka ∈ l, AccGood n ka) (hsep : l.Pairwise Sep) :
    (∀ ka ∈ l', AccGood n ka) ∧ l'.Pairwise Sep := by
  induction l generalizing l' with
  | nil =>
    cases l' with
    | nil => exact ⟨fun _ h => (by cases h), List.Pairwise.nil⟩
    | cons _ _ => simp at h
  | cons x xs ih =>
    cases l' with
    | nil => simp at h
    | cons x' xs' =>
      simp only [List.map_cons, List.cons.injEq] at h
      obtain ⟨hx, hxs⟩ := h
      rw [List.pairwise_cons] at hsep
      obtain ⟨i1, i2⟩ := ih xs' hxs (fun ka hka => hacc ka (by simp [hka])) hsep.2
      constructor
      · intro ka hka
        simp only [List.mem_cons] at hka
        rcases hka with rfl | hka
        · exact accGood_skel hx (hacc x (by simp))
        · exact i1 ka hka
      · rw [List.pairwise_cons]
        refine ⟨?_, i2⟩
        intro y' hy'
        -- the element of xs at the same position as y' in xs'
        have : keySkel y' ∈ xs.map keySkel := by rw [← hxs]; exact List.mem_map_of_mem hy'
        rw [List.mem_map] at this
        obtain ⟨y, hy, hyk⟩ := this
        exact sep_skel hx hyk.symm (hsep.1 y hy)

/-- GET /accessories (through the caches) keeps the well-formedness invariant -/
theorem renderCached_good (s : Db V P) (incl : Bool) (g : Nat → Option V) (hs : s.Good) :
    (s.renderCached incl g).2.Good := by
  have hm := Accessory.toHap_skel incl g s.main
  have hb := traverse_proj (fun ka : Nat × Accessory V P =>
        match Accessory.toHap Char.toHap incl g ka.2 with
        | (r, a) => (r, (ka.1, a))) keySkel s.bridged
    (fun ka _ => by simp only [keySkel]; rw [Accessory.toHap_skel])
  -- shape of the resulting state
  have shape : ∃ m b, (s.renderCached incl g).2 = { s with main := m, bridged := b } ∧
      m.skel = s.main.skel ∧ b.map keySkel = s.bridged.map keySkel := by
    simp only [Db.renderCached, Db.renderWith]
    rcases hf : Accessory.toHap Char.toHap incl g s.main with ⟨r, m⟩
    rw [hf] at hm
    cases r with
    | none => exact ⟨m, s.bridged, rfl, hm, rfl⟩
    | some r =>
      simp only
      rcases hft : traverse (fun ka : Nat × Accessory V P =>
          match Accessory.toHap Char.toHap incl g ka.2 with
          | (r, a) => (r, (ka.1, a))) s.bridged with ⟨rt, b⟩
      rw [hft] at hb
      cases rt <;> exact ⟨m, b, rfl, hm, hb⟩
  obtain ⟨m, b, e, em, eb⟩ := shape
  rw [e]
  have hl : (Db.assoc { s with main := m, bridged := b }).map keySkel = s.assoc.map keySkel := by
    simp only [Db.assoc, List.map_cons, keySkel, em, eb]
  obtain ⟨g1, g2⟩ := goodN_of_skel s.assoc _ s.nextObj hl hs.accs hs.sep
  refine ⟨g1, g2, ?_⟩
  intro hbr
  have := hs.plain hbr
  rw [this] at eb
  cases b with
  | nil => rfl
  | cons _ _ => simp at eb

theorem cacheOk_of_db_uncached (s : Db V P) (h : s.Uncached) : s.CacheOk := by
  rw [Db.cacheOk_iff]
  intro ka hka
  exact cacheOk_of_uncached ka.2 (h ka hka)

/-! ### histories with reads -/

theorem step17_inv (s : Db V P) (op : Op17 V P) (hs : s.Good) (hc : s.CacheOk) :
    (s.step17 op).Good ∧ (s.step17 op).CacheOk := by
  cases op with
  | con op => exact ⟨step_good s op hs, step_cacheOk s op hs hc⟩
  | read incl g => exact ⟨renderCached_good s incl g hs, (Db.renderCached_spec s incl g hc).2⟩

theorem run17_inv (s : Db V P) (ops : List (Op17 V P)) (hs : s.Good) (hc : s.CacheOk) :
    (s.run17 ops).Good ∧ (s.run17 ops).CacheOk := by
  induction ops generalizing s with
  | nil => exact ⟨hs, hc⟩
  | cons op rest ih =>
    obtain ⟨h1, h2⟩ := step17_inv s op hs hc
    exact ih _ h1 h2

end Hap.Db
