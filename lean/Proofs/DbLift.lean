/-
  C11 lemmas, part 2: the cache invariant on services / accessories / the database, the
  rendering pass, mutators, and the read path.
-/
import Proofs.DbCache
namespace Hap.Db
open Hap
set_option linter.unusedSectionVars false
variable {V P : Type} [PropsLike P] [Inhabited V]

/-! ### the invariant on services, accessories, the database -/

def Service.CacheOk (iids : Nat → Option Nat) (sv : Service V P) : Prop :=
  ∀ c ∈ sv.chars, c.CacheOk (iids c.obj)

def Accessory.CacheOk (a : Accessory V P) : Prop :=
  ∀ sv ∈ a.services, Service.CacheOk a.iidm.iids sv

/-- every cache field of every characteristic is empty or equals the from-scratch rendering
    of the characteristic's current state -/
def Db.CacheOk (s : Db V P) : Prop := ∀ a ∈ s.accList, a.CacheOk

theorem Service.toHap_spec (iids : Nat → Option Nat) (incl : Bool) (g : Nat → Option V)
    (sv : Service V P) (h : Service.CacheOk iids sv) :
    (Service.toHap Char.toHap iids incl g sv).1 = (Service.toHap Char.toHapFresh iids incl g sv).1 ∧
    Service.CacheOk iids (Service.toHap Char.toHap iids incl g sv).2 := by
  have key := traverse_agree
    (fun c : Char V P => Char.toHap c (iids c.obj) incl (g c.obj))
    (fun c : Char V P => Char.toHapFresh c (iids c.obj) incl (g c.obj))
    (fun c => c.CacheOk (iids c.obj)) sv.chars
    (fun c _ hc => by
      have := Char.toHap_spec c (iids c.obj) incl (g c.obj) hc
      refine ⟨this.1, ?_⟩
      rw [this.2.2.1]
      exact this.2.1)
    h
  simp only [Service.toHap]
  rcases hf : traverse (fun c : Char V P => Char.toHap c (iids c.obj) incl (g c.obj)) sv.chars with ⟨rf, cf⟩
  rcases hg : traverse (fun c : Char V P => Char.toHapFresh c (iids c.obj) incl (g c.obj)) sv.chars with ⟨rg, cg⟩
  rw [hf, hg] at key
  obtain ⟨e, i⟩ := key
  simp only at e i
  subst e
  cases rf <;> exact ⟨by first | rfl | trivial, i⟩

theorem Accessory.toHap_spec (incl : Bool) (g : Nat → Option V) (a : Accessory V P)
    (h : a.CacheOk) :
    (Accessory.toHap Char.toHap incl g a).1 = (Accessory.toHap Char.toHapFresh incl g a).1 ∧
    (Accessory.toHap Char.toHap incl g a).2.CacheOk := by
  have key := traverse_agree
    (Service.toHap Char.toHap a.iidm.iids incl g)
    (Service.toHap Char.toHapFresh a.iidm.iids incl g)
    (Service.CacheOk a.iidm.iids) a.services
    (fun sv _ hsv => Service.toHap_spec a.iidm.iids incl g sv hsv)
    h
  simp only [Accessory.toHap]
  rcases hf : traverse (Service.toHap Char.toHap a.iidm.iids incl g) a.services with ⟨rf, cf⟩
  rcases hg : traverse (Service.toHap Char.toHapFresh a.iidm.iids incl g) a.services with ⟨rg, cg⟩
  rw [hf, hg] at key
  obtain ⟨e, i⟩ := key
  simp only at e i
  subst e
  cases rf <;> exact ⟨by first | rfl | trivial, i⟩

/-- GET /accessories through the caches answers exactly what a from-scratch rendering of the
    current state answers, and leaves valid caches. -/
theorem Db.renderCached_spec (s : Db V P) (incl : Bool) (g : Nat → Option V) (h : s.CacheOk) :
    (s.renderCached incl g).1 = (s.render incl g).1 ∧ (s.renderCached incl g).2.CacheOk := by
  have hm : s.main.CacheOk := h _ (by simp [Db.accList])
  have hb : ∀ ka ∈ s.bridged, ka.2.CacheOk := fun ka hka =>
    h _ (by simp only [Db.accList, List.mem_cons, List.mem_map]; exact Or.inr ⟨ka, hka, rfl⟩)
  have km := Accessory.toHap_spec incl g s.main hm
  have key := traverse_agree
    (fun ka : Nat × Accessory V P =>
        match Accessory.toHap Char.toHap incl g ka.2 with
        | (r, a) => (r, (ka.1, a)))
    (fun ka : Nat × Accessory V P =>
        match Accessory.toHap Char.toHapFresh incl g ka.2 with
        | (r, a) => (r, (ka.1, a)))
    (fun ka => ka.2.CacheOk) s.bridged
    (fun ka _ hka => by
      have := Accessory.toHap_spec incl g ka.2 hka
      exact ⟨this.1, this.2⟩)
    hb
  simp only [Db.renderCached, Db.render, Db.renderWith]
  rcases hf : Accessory.toHap Char.toHap incl g s.main with ⟨rf, mf⟩
  rcases hg : Accessory.toHap Char.toHapFresh incl g s.main with ⟨rg, mg⟩
  rw [hf, hg] at km
  obtain ⟨e, i⟩ := km
  simp only at e i
  subst e
  cases rf with
  | none =>
    refine ⟨by first | rfl | trivial, ?_⟩
    intro a ha
    simp only [Db.accList, List.mem_cons, List.mem_map] at ha
    rcases ha with rfl | ⟨ka, hka, rfl⟩
    · exact i
    · exact hb ka hka
  | some r =>
    simp only
    rcases hft : traverse (fun ka : Nat × Accessory V P =>
        match Accessory.toHap Char.toHap incl g ka.2 with
        | (r, a) => (r, (ka.1, a))) s.bridged with ⟨rft, bf⟩
    rcases hgt : traverse (fun ka : Nat × Accessory V P =>
        match Accessory.toHap Char.toHapFresh incl g ka.2 with
        | (r, a) => (r, (ka.1, a))) s.bridged with ⟨rgt, bg⟩
    rw [hft, hgt] at key
    obtain ⟨e2, i2⟩ := key
    simp only at e2 i2
    subst e2
    have hall : ∀ a ∈ (Db.accList { s with main := mf, bridged := bf }), a.CacheOk := by
      intro a ha
      simp only [Db.accList, List.mem_cons, List.mem_map] at ha
      rcases ha with rfl | ⟨ka, hka, rfl⟩
      · exact i
      · exact i2 ka hka
    cases rft <;> exact ⟨by first | rfl | trivial, hall⟩


/-! ### mutators keep the invariant -/

theorem Accessory.cacheOk_modChar (a : Accessory V P) (o : Nat) (f : Char V P → Char V P)
    (hf : ∀ c iid, c.CacheOk iid → (f c).CacheOk iid) (hobj : ∀ c, (f c).obj = c.obj)
    (h : a.CacheOk) : (a.modChar o f).CacheOk := by
  intro sv' hsv'
  simp only [Accessory.modChar, List.mem_map] at hsv'
  obtain ⟨sv, hsv, rfl⟩ := hsv'
  intro c' hc'
  simp only [Service.modChar, List.mem_map] at hc'
  obtain ⟨c, hc, rfl⟩ := hc'
  have := h sv hsv c hc
  show Char.CacheOk _ (a.iidm.iids _)
  split
  · rw [hobj]; exact hf _ _ this
  · exact this

theorem Db.accList_mapAccs (s : Db V P) (f : Accessory V P → Accessory V P) :
    (s.mapAccs f).accList = s.accList.map f := by
  simp [Db.mapAccs, Db.accList, List.map_map, Function.comp_def]

theorem Db.cacheOk_mapAccs (s : Db V P) (f : Accessory V P → Accessory V P)
    (hf : ∀ a, a.CacheOk → (f a).CacheOk) (h : s.CacheOk) : (s.mapAccs f).CacheOk := by
  intro a ha
  rw [Db.accList_mapAccs, List.mem_map] at ha
  obtain ⟨a0, ha0, rfl⟩ := ha
  exact hf _ (h a0 ha0)

theorem Db.cacheOk_modChar (s : Db V P) (o : Nat) (f : Char V P → Char V P)
    (hf : ∀ c iid, c.CacheOk iid → (f c).CacheOk iid) (hobj : ∀ c, (f c).obj = c.obj)
    (h : s.CacheOk) : (s.modChar o f).CacheOk :=
  Db.cacheOk_mapAccs s _ (fun a ha => Accessory.cacheOk_modChar a o f hf hobj ha) h

theorem Db.cacheOk_modAcc (s : Db V P) (aid : Nat) (f : Accessory V P → Accessory V P)
    (hf : ∀ a, a.CacheOk → (f a).CacheOk) (h : s.CacheOk) : (s.modAcc aid f).CacheOk := by
  intro a ha
  unfold Db.modAcc at ha
  split at ha
  · simp only [Db.accList, List.mem_cons, List.mem_map] at ha
    rcases ha with rfl | ⟨ka, hka, rfl⟩
    · exact hf _ (h _ (by simp [Db.accList]))
    · exact h _ (by simp only [Db.accList, List.mem_cons, List.mem_map]; exact Or.inr ⟨ka, hka, rfl⟩)
  · simp only [Db.accList, List.mem_cons, List.mem_map] at ha
    rcases ha with rfl | ⟨ka', ⟨ka, hka, rfl⟩, rfl⟩
    · exact h _ (by simp [Db.accList])
    · have hk : ka.2.CacheOk :=
        h _ (by simp only [Db.accList, List.mem_cons, List.mem_map]; exact Or.inr ⟨ka, hka, rfl⟩)
      split
      · exact hf _ hk
      · exact hk

theorem Db.cacheOk_setBridged (s : Db V P) (aid : Nat) (a' : Accessory V P) (ha' : a'.CacheOk)
    (h : s.CacheOk) : (s.setBridged aid a').CacheOk := by
  intro a ha
  simp only [Db.setBridged, Db.accList, List.mem_cons, List.mem_map] at ha
  rcases ha with rfl | ⟨ka', ⟨ka, hka, rfl⟩, rfl⟩
  · exact h _ (by simp [Db.accList])
  · split
    · exact ha'
    · exact h _ (by simp only [Db.accList, List.mem_cons, List.mem_map]; exact Or.inr ⟨ka, hka, rfl⟩)

theorem lookup_mem {α : Type} (k : Nat) (l : List (Nat × α)) (a : α) (h : lookup k l = some a) :
    (k, a) ∈ l := by
  induction l with
  | nil => simp [lookup] at h
  | cons x xs ih =>
    obtain ⟨k', a'⟩ := x
    simp only [lookup] at h
    split at h
    · rename_i hk; cases h; subst hk; simp
    · simp [ih h]

theorem Accessory.cacheOk_setPrimary (a : Accessory V P) (typ : String) (h : a.CacheOk) :
    (a.setPrimary typ).CacheOk := by
  intro sv' hsv'
  simp only [Accessory.setPrimary, List.mem_map] at hsv'
  obtain ⟨sv, hsv, rfl⟩ := hsv'
  exact h sv hsv

theorem Accessory.cacheOk_addLinked (a : Accessory V P) (svc other : Nat) (h : a.CacheOk) :
    (a.addLinked svc other).CacheOk := by
  intro sv' hsv'
  simp only [Accessory.addLinked, List.mem_map] at hsv'
  obtain ⟨sv, hsv, rfl⟩ := hsv'
  have := h sv hsv
  split
  · split
    · exact this
    · exact this
  · exact this

/-! ### the read path keeps the invariant -/

theorem Accessory.read_cacheOk (a : Accessory V P) (iid : Nat) (g : Option V) (h : a.CacheOk) :
    (a.read iid g).2.CacheOk := by
  unfold Accessory.read
  split
  · exact h
  · split
    · exact h
    · exact Accessory.cacheOk_modChar a _ _ (fun c i hc => Char.getValue_cacheOk c g i hc)
        (fun c => Char.getValue_obj c g) h

theorem Db.readOne_cacheOk (s : Db V P) (aid iid : Nat) (g : Option V) (h : s.CacheOk) :
    (s.readOne aid iid g).2.CacheOk := by
  have hm : s.main.CacheOk := h _ (by simp [Db.accList])
  have hmain : ∀ m : Accessory V P, m.CacheOk → Db.CacheOk { s with main := m } := by
    intro m hmm a ha
    simp only [Db.accList, List.mem_cons, List.mem_map] at ha
    rcases ha with rfl | ⟨ka, hka, rfl⟩
    · exact hmm
    · exact h _ (by simp only [Db.accList, List.mem_cons, List.mem_map]; exact Or.inr ⟨ka, hka, rfl⟩)
  unfold Db.readOne
  split
  · have := Accessory.read_cacheOk s.main iid g hm
    rcases hr : s.main.read iid g with ⟨v, m⟩
    rw [hr] at this
    cases v <;> exact hmain _ this
  · split
    · exact h
    · split
      · exact h
      · rename_i a hl
        have ha : a.CacheOk :=
          h _ (by simp only [Db.accList, List.mem_cons, List.mem_map]
                  exact Or.inr ⟨(aid, a), lookup_mem _ _ _ hl, rfl⟩)
        split
        · exact h
        · have := Accessory.read_cacheOk a iid g ha
          rcases hr : a.read iid g with ⟨v, a'⟩
          rw [hr] at this
          cases v <;> exact Db.cacheOk_setBridged s aid _ this h

theorem Db.getChars_cacheOk (s : Db V P) (g : Nat → Option V) (ids : List (Nat × Nat)) (k : Nat)
    (h : s.CacheOk) : (s.getChars g ids k).2.CacheOk := by
  induction ids generalizing s k with
  | nil => exact h
  | cons p rest ih =>
    obtain ⟨aid, iid⟩ := p
    simp only [Db.getChars]
    have h1 := Db.readOne_cacheOk s aid iid (g k) h
    rcases hr : s.readOne aid iid (g k) with ⟨e, s1⟩
    rw [hr] at h1
    have h2 := ih s1 (k + 1) h1
    rcases hr2 : Db.getChars s1 g rest (k + 1) with ⟨es, s2⟩
    rw [hr2] at h2
    exact h2

theorem Db.handleGet_cacheOk (s : Db V P) (ids : List (Nat × Nat)) (g : Nat → Option V)
    (h : s.CacheOk) : (s.handleGet ids g).2.CacheOk := by
  have := Db.getChars_cacheOk s g ids 0 h
  unfold Db.handleGet
  rcases hr : s.getChars g ids 0 with ⟨es, s'⟩
  rw [hr] at this
  exact this

/-- every operation of a C11 history keeps the invariant -/
theorem Db.step11_cacheOk (s : Db V P) (op : Op11 V P) (h : s.CacheOk) : (s.step11 op).1.CacheOk := by
  cases op with
  | setValue o vres =>
    exact Db.cacheOk_modChar s o _ (fun c i hc => Char.cacheOk_setValue c vres i hc)
      (fun c => Char.obj_setValue c vres) h
  | assignValue o v =>
    exact Db.cacheOk_modChar s o _ (fun c i _ => Char.cacheOk_setVal c v i)
      (fun c => Char.obj_setVal c v) h
  | clientUpdate o vres cb =>
    exact Db.cacheOk_modChar s o _ (fun c i hc => Char.cacheOk_clientUpdate c vres cb i hc)
      (fun c => Char.obj_clientUpdate c vres cb) h
  | overrideProps o ov =>
    exact Db.cacheOk_modChar s o _ (fun c i hc => Char.cacheOk_overrideProps c ov i hc)
      (fun c => Char.obj_overrideProps c ov) h
  | setDisplay o n =>
    exact Db.cacheOk_modChar s o _ (fun c i _ => Char.cacheOk_setDisplay c n i)
      (fun c => Char.obj_setDisplay c n) h
  | setGetter o b =>
    exact Db.cacheOk_modChar s o _ (fun c i hc => Char.cacheOk_setGetter c b i hc)
      (fun c => Char.obj_setGetter c b) h
  | setAvailable aid b =>
    exact Db.cacheOk_modAcc s aid _ (fun a ha => ha) h
  | setPrimary aid typ =>
    exact Db.cacheOk_modAcc s aid _ (fun a ha => Accessory.cacheOk_setPrimary a typ ha) h
  | addLinked aid svc other =>
    exact Db.cacheOk_modAcc s aid _ (fun a ha => Accessory.cacheOk_addLinked a svc other ha) h
  | readAll incl g =>
    have := (Db.renderCached_spec s incl g h).2
    simp only [Db.step11]
    rcases hr : s.renderCached incl g with ⟨r, s'⟩
    rw [hr] at this
    exact this
  | readChars ids g =>
    have := Db.handleGet_cacheOk s ids g h
    simp only [Db.step11]
    rcases hr : s.handleGet ids g with ⟨r, s'⟩
    rw [hr] at this
    exact this

theorem Db.run11_cacheOk (s : Db V P) (ops : List (Op11 V P)) (h : s.CacheOk) :
    (s.run11 ops).CacheOk := by
  induction ops generalizing s with
  | nil => exact h
  | cons op rest ih => exact ih _ (Db.step11_cacheOk s op h)

end Hap.Db
