/-
  C11 lemmas, part 3: shape of `get_characteristics` + the handler's 200/207 selection.
-/
import HapModel.Db
namespace Hap.Db
open Hap
set_option linter.unusedSectionVars false
variable {V P : Type} [PropsLike P] [Inhabited V]

/-- the request names an accessory for which `get_characteristics` produces an entry: the
    top-level accessory (aid 1), a bridged accessory — or anything at all when the top-level
    accessory is not a bridge (the AttributeError is caught and the failure entry kept) -/
def Db.answers (s : Db V P) (aid : Nat) : Bool :=
  aid == STANDALONE_AID || !s.isBridge || (lookup aid s.bridged).isSome

/-- an entry as `get_characteristics` builds it: success with a value, or the failure status
    without a value -/
def Entry.Built (e : Entry V) (aid iid : Nat) : Prop :=
  (∃ v, e = okEntry aid iid v) ∨ e = failEntry aid iid

theorem lookup_setBridged_isSome (l : List (Nat × Accessory V P)) (aid k : Nat) (a' : Accessory V P) :
    (lookup k (l.map (fun ka => if ka.1 = aid then (ka.1, a') else ka))).isSome = (lookup k l).isSome := by
  induction l with
  | nil => rfl
  | cons x xs ih =>
    obtain ⟨k', a⟩ := x
    by_cases h1 : k' = aid
    · subst h1
      by_cases h2 : k' = k
      · subst h2; simp [lookup]
      · simp [lookup, h2, ih]
    · by_cases h2 : k' = k
      · subst h2; simp [lookup, h1]
      · simp [lookup, h1, h2, ih]

theorem lookup_setBridged_isSome' (l : List (Nat × Accessory V P)) (aid k : Nat) (a' : Accessory V P) :
    (lookup k (l.map (fun ka => if ka.1 = aid then (aid, a') else ka))).isSome = (lookup k l).isSome := by
  have : (fun ka : Nat × Accessory V P => if ka.1 = aid then (aid, a') else ka)
       = (fun ka => if ka.1 = aid then (ka.1, a') else ka) := by
    funext ka; split
    · rename_i h; rw [h]
    · rfl
  rw [this]; exact lookup_setBridged_isSome l aid k a'

local macro "tv" : tactic => `(tactic| first | rfl | trivial)

/-- one loop iteration: whether an entry is produced, its shape, and what it leaves alone -/
theorem Db.readOne_shape (s : Db V P) (aid iid : Nat) (g : Option V) :
    ((s.readOne aid iid g).1.isSome = s.answers aid) ∧
    (∀ e, (s.readOne aid iid g).1 = some e → e.Built aid iid) ∧
    ((s.readOne aid iid g).2.isBridge = s.isBridge) ∧
    (∀ k, (lookup k (s.readOne aid iid g).2.bridged).isSome = (lookup k s.bridged).isSome) := by
  unfold Db.readOne Db.answers
  refine ⟨?_, ?_, ?_, ?_⟩
  all_goals (repeat' split)
  all_goals simp_all [Entry.Built, Db.setBridged]
  all_goals first
    | exact Or.inl ⟨_, rfl⟩
    | (intro k; exact lookup_setBridged_isSome' _ _ _ _)

/-- the (aid, iid) of an entry -/
def Entry.key (e : Entry V) : Nat × Nat := (e.aid, e.iid)

theorem Entry.Built.key {e : Entry V} {aid iid : Nat} (h : e.Built aid iid) : e.key = (aid, iid) := by
  rcases h with ⟨v, rfl⟩ | rfl <;> rfl

/-- an entry in `get_characteristics`' result: succeeded with a value or failed with
    −70402 and no value -/
def Entry.Wellformed (e : Entry V) : Prop :=
  (e.status = some SUCCESS ∧ e.value.isSome) ∨ (e.status = some COMM_FAILURE ∧ e.value = none)

theorem Entry.Built.wf {e : Entry V} {aid iid : Nat} (h : e.Built aid iid) : e.Wellformed := by
  rcases h with ⟨v, rfl⟩ | rfl
  · exact Or.inl ⟨rfl, rfl⟩
  · exact Or.inr ⟨rfl, rfl⟩

theorem Db.getChars_shape (s : Db V P) (g : Nat → Option V) (ids : List (Nat × Nat)) (k : Nat) :
    ((s.getChars g ids k).1.map Entry.key = ids.filter (fun p => s.answers p.1)) ∧
    (∀ e ∈ (s.getChars g ids k).1, e.Wellformed) := by
  induction ids generalizing s k with
  | nil => simp [Db.getChars]
  | cons p rest ih =>
    obtain ⟨aid, iid⟩ := p
    simp only [Db.getChars]
    obtain ⟨r1, r2, r3, r4⟩ := Db.readOne_shape s aid iid (g k)
    rcases hr : s.readOne aid iid (g k) with ⟨e, s1⟩
    rw [hr] at r1 r2 r3 r4
    simp only at r1 r2 r3 r4
    have hans : ∀ a, s1.answers a = s.answers a := by
      intro a; simp [Db.answers, r3, r4]
    obtain ⟨i1, i2⟩ := ih s1 (k + 1)
    rcases hr2 : Db.getChars s1 g rest (k + 1) with ⟨es, s2⟩
    rw [hr2] at i1 i2
    simp only at i1 i2
    simp only [hans] at i1
    cases e with
    | none =>
      simp only [Option.isSome_none] at r1
      simp only [List.filter_cons, ← r1, Bool.false_eq_true, if_false]
      exact ⟨i1, i2⟩
    | some e =>
      simp only [Option.isSome_some] at r1
      have hb := r2 e rfl
      simp only [List.filter_cons, ← r1, if_true, List.map_cons, hb.key, i1]
      refine ⟨by first | rfl | trivial, ?_⟩
      intro x hx
      simp only [List.mem_cons] at hx
      rcases hx with rfl | hx
      · exact hb.wf
      · exact i2 x hx

/-- the handler's selection: 200 with every status member removed iff no entry failed,
    else 207 with the entries (each carrying its status) unchanged -/
theorem selectStatus_shape (es : List (Entry V)) (h : ∀ e ∈ es, e.Wellformed) :
    ((selectStatus es).entries.map Entry.key = es.map Entry.key) ∧
    (((selectStatus es).code = 200 ∧ (∀ e ∈ es, e.status = some SUCCESS) ∧
        ∀ e ∈ (selectStatus es).entries, e.status = none ∧ e.value.isSome) ∨
     ((selectStatus es).code = 207 ∧ (∃ e ∈ es, e.status = some COMM_FAILURE) ∧
        (selectStatus es).entries = es)) := by
  unfold selectStatus
  by_cases hany : es.any (fun e => e.status != some SUCCESS) = true
  · simp only [hany, if_true]
    refine ⟨by tv, Or.inr ⟨by tv, ?_, by tv⟩⟩
    simp only [List.any_eq_true, bne_iff_ne, ne_eq] at hany
    obtain ⟨e, he, hne⟩ := hany
    refine ⟨e, he, ?_⟩
    rcases h e he with ⟨h1, _⟩ | ⟨h1, _⟩
    · exact absurd h1 hne
    · exact h1
  · simp only [hany, Bool.false_eq_true, if_false]
    have hall : ∀ e ∈ es, e.status = some SUCCESS := by
      intro e he
      simp only [List.any_eq_true, bne_iff_ne, ne_eq, not_exists, not_and, Decidable.not_not] at hany
      exact hany e he
    refine ⟨by simp [List.map_map, Function.comp_def, Entry.key], Or.inl ⟨by tv, hall, ?_⟩⟩
    intro e he
    simp only [List.mem_map] at he
    obtain ⟨e0, he0, rfl⟩ := he
    refine ⟨rfl, ?_⟩
    rcases h e0 he0 with ⟨_, h2⟩ | ⟨h1, _⟩
    · exact h2
    · rw [hall e0 he0] at h1; cases h1

/-- what one read returns: failure when the iid names no characteristic of the accessory,
    else the getter's outcome when a getter is installed, else the stored value -/
theorem Accessory.read_value (a : Accessory V P) (iid : Nat) (g : Option V) :
    (a.read iid g).1 =
      match (a.iidm.getObj iid).bind a.findChar with
      | none => none
      | some c => if c.getter then g else some c.value := by
  unfold Accessory.read
  cases h1 : a.iidm.getObj iid with
  | none => rfl
  | some o =>
    simp only [Option.bind_some]
    cases h2 : a.findChar o with
    | none => rfl
    | some c =>
      simp only [Char.getValue]
      split
      · cases g <;> rfl
      · rfl

end Hap.Db
