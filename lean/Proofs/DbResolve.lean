/-
  C17 lemmas, part 4: in a well-formed database every listed (aid, iid) pair is listed once
  and the three resolution paths agree on it; the listing is what the rendering shows.
-/
import Proofs.DbStep
namespace Hap.Db
open Hap
set_option linter.unusedSectionVars false
variable {V P : Type} [PropsLike P] [Inhabited V]

theorem Db.accList_eq (s : Db V P) : s.accList = s.assoc.map (·.2) := rfl

theorem Db.listing_eq (s : Db V P) : s.listing = s.assoc.flatMap (fun ka => ka.2.listing) := by
  simp [Db.listing, Db.accList_eq, List.flatMap_map]

/-- a listed pair with an instance id is not listed a second time -/
def Once (x y : (Option Nat × Option Nat) × Nat) : Prop := x.1.2 ≠ none → x.1 ≠ y.1

theorem acc_listing_once (n : Nat) (ka : Nat × Accessory V P) (h : AccGood n ka) :
    ka.2.listing.Pairwise Once := by
  obtain ⟨_, hg, hnd, _⟩ := h
  simp only [Accessory.listing, List.pairwise_map]
  refine List.Pairwise.imp ?_ hnd
  intro o1 o2 hne hsome heq
  simp only [Prod.mk.injEq, true_and] at heq
  simp only [ne_eq] at hsome
  cases h1 : ka.2.iidm.getIid o1 with
  | none => exact hsome h1
  | some i =>
    rw [h1] at heq
    have a1 := (hg.1 o1 i).mp h1
    have a2 := (hg.1 o2 i).mp heq.symm
    rw [a1] at a2
    exact hne (Option.some.inj a2)

theorem listing_once (s : Db V P) (hs : s.Good) : s.listing.Pairwise Once := by
  rw [Db.listing_eq, List.pairwise_flatMap]
  refine ⟨fun ka hka => acc_listing_once _ ka (hs.accs ka hka), ?_⟩
  refine List.Pairwise.imp_of_mem ?_ hs.sep
  intro x y hx hy hxy p hp q hq _ heq
  simp only [Accessory.listing, List.mem_map] at hp hq
  obtain ⟨o1, _, rfl⟩ := hp
  obtain ⟨o2, _, rfl⟩ := hq
  simp only [Prod.mk.injEq] at heq
  have a1 := (hs.accs x hx).1
  have a2 := (hs.accs y hy).1
  rw [a1, a2] at heq
  exact hxy.1 (Option.some.inj heq.1)

theorem bridged_of_mem (s : Db V P) (ka : Nat × Accessory V P) (hka : ka ∈ s.assoc)
    (hk : ka.1 ≠ STANDALONE_AID) : ka ∈ s.bridged := by
  simp only [Db.assoc, List.mem_cons] at hka
  rcases hka with rfl | h
  · exact absurd rfl hk
  · exact h

/-- the resolution theorem on one listed entry -/
theorem resolve_listed (s : Db V P) (hs : s.Good) (aid iid o : Nat)
    (h : ((some aid, some iid), o) ∈ s.listing) :
    s.resolveRead aid iid = some o ∧ s.resolveWrite aid iid = some o ∧
    s.eventId o = some (some aid, some iid) := by
  rw [Db.listing_eq, List.mem_flatMap] at h
  obtain ⟨ka, hka, hin⟩ := h
  simp only [Accessory.listing, List.mem_map, Prod.mk.injEq] at hin
  obtain ⟨o', ho', ⟨haid, hiid⟩, rfl⟩ := hin
  obtain ⟨g1, g2, _, _⟩ := hs.accs ka hka
  have hk : ka.1 = aid := by rw [g1] at haid; exact Option.some.inj haid
  have hobj : ka.2.iidm.getObj iid = some o' := (g2.1 o' iid).mp hiid
  have hmainmem : (STANDALONE_AID, s.main) ∈ s.assoc := by simp [Db.assoc]
  have hmainaid : s.main.aid = some STANDALONE_AID := (hs.accs _ hmainmem).1
  have hsepb : s.bridged.Pairwise Sep := (List.pairwise_cons.mp hs.sep).2
  -- the event id: the first accessory whose structure holds the object is this one
  have hev : s.eventId o' = some (some aid, some iid) := by
    unfold Db.eventId
    have hex : ∃ a ∈ s.accList, a.objList.contains o' = true :=
      ⟨ka.2, by rw [Db.accList_eq]; exact List.mem_map_of_mem hka, by simpa using ho'⟩
    cases hf : s.accList.find? (fun a => a.objList.contains o') with
    | none =>
      rw [List.find?_eq_none] at hf
      obtain ⟨a, ha, hc⟩ := hex
      exact absurd hc (hf a ha)
    | some a' =>
      have hm := List.mem_of_find?_eq_some hf
      have hc := List.find?_some hf
      rw [Db.accList_eq, List.mem_map] at hm
      obtain ⟨kb, hkb, rfl⟩ := hm
      have : kb = ka := by
        by_cases hne : kb = ka
        · exact hne
        · have := pairwise_symm_mem (fun _ _ => Sep.symm) hs.sep kb hkb ka hka hne
          exact absurd ho' (fun h => this.2 o' (by simpa using hc) h)
      subst this
      simp only [Option.map_some, Option.some.injEq, Prod.mk.injEq]
      exact ⟨haid, hiid⟩
  refine ⟨?_, ?_, hev⟩
  · -- read path
    unfold Db.resolveRead
    by_cases h1 : aid = STANDALONE_AID
    · have : ka = (STANDALONE_AID, s.main) := key_unique hs.sep hka hmainmem (hk.trans h1)
      subst this
      simp only [h1, if_true]
      exact hobj
    · simp only [h1, if_false]
      have hb : ka ∈ s.bridged := bridged_of_mem s ka hka (by rw [hk]; exact h1)
      have hbr : s.isBridge = true := by
        cases hbb : s.isBridge with
        | true => rfl
        | false => rw [hs.plain hbb] at hb; cases hb
      have hl : lookup aid s.bridged = some ka.2 :=
        lookup_of_mem hsepb (by rw [← hk]; exact hb)
      simp [hbr, hl, hobj]
  · -- write path
    unfold Db.resolveWrite
    by_cases h1 : aid = STANDALONE_AID
    · have : ka = (STANDALONE_AID, s.main) := key_unique hs.sep hka hmainmem (hk.trans h1)
      subst this
      simp only [hmainaid, h1, if_true]
      exact hobj
    · have hne : ¬ (s.main.aid = some aid) := by
        rw [hmainaid]; intro e; exact h1 (Option.some.inj e).symm
      simp only [hne, if_false]
      have hb : ka ∈ s.bridged := bridged_of_mem s ka hka (by rw [hk]; exact h1)
      have hbr : s.isBridge = true := by
        cases hbb : s.isBridge with
        | true => rfl
        | false => rw [hs.plain hbb] at hb; cases hb
      have hl : lookup aid s.bridged = some ka.2 :=
        lookup_of_mem hsepb (by rw [← hk]; exact hb)
      simp [hbr, hl, Accessory.getCharacteristic, haid, hobj]

/-! ### the listing is what GET /accessories shows -/

theorem traverse_pure {α β : Type} (h : α → β) (l : List α) :
    traverse (fun a => (some (h a), a)) l = (some (l.map h), l) := by
  induction l with
  | nil => rfl
  | cons a as ih => simp [traverse, ih]

/-- the rendering without values, as a pure function of the state -/
def Service.plain (iids : Nat → Option Nat) (sv : Service V P) : SvcRep V P :=
  { iid := iids sv.obj, typ := sv.typ, chars := sv.chars.map (fun c => c.baseRep (iids c.obj)),
    primary := sv.primary, linked := sv.linked.map iids }

def Accessory.plain (a : Accessory V P) : AccRep V P :=
  { aid := a.aid, services := a.services.map (Service.plain a.iidm.iids) }

theorem Service.toHapFresh_false (iids : Nat → Option Nat) (g : Nat → Option V) (sv : Service V P) :
    Service.toHap Char.toHapFresh iids false g sv = (some (Service.plain iids sv), sv) := by
  have : (fun c : Char V P => Char.toHapFresh c (iids c.obj) false (g c.obj))
       = (fun c => (some (c.baseRep (iids c.obj)), c)) := by
    funext c; simp [Char.toHapFresh]
  simp only [Service.toHap, this, traverse_pure]
  rfl

theorem Accessory.toHapFresh_false (g : Nat → Option V) (a : Accessory V P) :
    Accessory.toHap Char.toHapFresh false g a = (some a.plain, a) := by
  have : Service.toHap (V := V) (P := P) Char.toHapFresh a.iidm.iids false g
       = (fun sv : Service V P => (some (Service.plain a.iidm.iids sv), sv)) := by
    funext sv; exact Service.toHapFresh_false _ _ _
  simp only [Accessory.toHap, this, traverse_pure]
  rfl

/-- GET /accessories (from scratch, without values) never fails and lists the accessories in
    order -/
theorem Db.render_false (s : Db V P) (g : Nat → Option V) :
    (s.render false g).1 = some (s.accList.map Accessory.plain) := by
  have : (fun ka : Nat × Accessory V P =>
        match Accessory.toHap Char.toHapFresh false g ka.2 with
        | (r, a) => (r, (ka.1, a)))
       = (fun ka => (some ka.2.plain, ka)) := by
    funext ka; rw [Accessory.toHapFresh_false]
  simp only [Db.render, Db.renderWith, Accessory.toHapFresh_false, this, traverse_pure]
  simp [Db.accList, List.map_map, Function.comp_def]

theorem Accessory.plain_pairs (a : Accessory V P) : a.plain.pairs = a.listing.map (·.1) := by
  simp only [AccRep.pairs, Accessory.plain, Accessory.listing, Accessory.objList, List.map_flatMap,
    List.flatMap_map]
  congr 1
  funext sv
  simp [Service.plain, Service.objList, Char.baseRep, Iid.getIid, List.map_map, Function.comp_def]

/-- the (aid, iid) pairs of the rendering are exactly the listing, in order -/
theorem Db.render_pairs (s : Db V P) (g : Nat → Option V) :
    ∃ reps, (s.render false g).1 = some reps ∧ reps.flatMap AccRep.pairs = s.listing.map (·.1) := by
  refine ⟨s.accList.map Accessory.plain, Db.render_false s g, ?_⟩
  simp only [Db.listing, List.flatMap_map, List.map_flatMap]
  congr 1
  funext a
  exact Accessory.plain_pairs a

end Hap.Db
