/-
  C17 lemmas, part 9: identifier stability lifted from the manager in isolation to every
  accessory of the database under unified histories (construction + mutation + reads), and the
  link between the listing, the resolution paths and the read specification.
-/
import Proofs.DbUnified
import Proofs.DbResolve

namespace Hap.Iid

/-- `m2` is a later state of the manager `m1`: the counter did not go back, and every binding of
    `m2` whose iid lies within `m1`'s counter was already a binding of `m1` (for the same object) -/
def NoReissue (m1 m2 : Iid) : Prop :=
  m1.counter ≤ m2.counter ∧ ∀ o i, m2.iids o = some i → i ≤ m1.counter → m1.iids o = some i

theorem NoReissue.refl (m : Iid) : NoReissue m m := ⟨Nat.le_refl _, fun _ _ e _ => e⟩

theorem NoReissue.trans {m1 m2 m3 : Iid} (h12 : NoReissue m1 m2) (h23 : NoReissue m2 m3) : NoReissue m1 m3 :=
  ⟨Nat.le_trans h12.1 h23.1, fun o i e hi => h12.2 o i (h23.2 o i e (Nat.le_trans hi h12.1)) hi⟩

theorem assign_noReissue {m : Iid} (h : Good m) (o : Nat) : NoReissue m (m.assign o) :=
  ⟨assign_counter_le m o, fun o' i e hi => assign_old h o o' i e hi⟩

theorem foldl_assign_noReissue (l : List Nat) {m : Iid} (h : Good m) : NoReissue m (l.foldl assign m) := by
  induction l generalizing m with
  | nil => exact NoReissue.refl m
  | cons o os ih => exact (assign_noReissue h o).trans (ih (good_assign h o))

/-- an iid that `m1` has issued denotes the same object in every later state, or nothing -/
theorem NoReissue.same_object {m1 m2 : Iid} (h : NoReissue m1 m2) (g1 : Good m1) {o o' i : Nat}
    (e1 : m1.iids o = some i) (e2 : m2.iids o' = some i) : o' = o := by
  have hi : i ≤ m1.counter := (g1.2 i o ((g1.1 o i).mp e1)).2
  have e3 := h.2 o' i e2 hi
  have a := (g1.1 o i).mp e1
  have b := (g1.1 o' i).mp e3
  rw [a] at b
  exact (Option.some.inj b).symm

end Hap.Iid

namespace Hap.Db
open Hap
set_option linter.unusedSectionVars false
variable {V P : Type} [PropsLike P] [Inhabited V]

/-- the accessory registered under key `k` (1 = the top-level accessory) -/
def Db.accAt (s : Db V P) (k : Nat) : Option (Accessory V P) := lookup k s.assoc

theorem lookup_skel (l l' : List (Nat × Accessory V P)) (k : Nat) (h : l'.map keySkel = l.map keySkel) :
    (lookup k l').map Accessory.skel = (lookup k l).map Accessory.skel := by
  induction l generalizing l' with
  | nil =>
    cases l' with
    | nil => rfl
    | cons _ _ => simp at h
  | cons x xs ih =>
    cases l' with
    | nil => simp at h
    | cons x' xs' =>
      simp only [List.map_cons, List.cons.injEq] at h
      obtain ⟨hx, hxs⟩ := h
      obtain ⟨k1, a1⟩ := x
      obtain ⟨k2, a2⟩ := x'
      simp only [keySkel, Prod.mk.injEq] at hx
      obtain ⟨hk, ha⟩ := hx
      subst hk
      simp only [lookup]
      split
      · simp [ha]
      · exact ih xs' hxs

theorem lookup_map_updKey (l : List (Nat × Accessory V P)) (aid k : Nat) (F : Accessory V P → Accessory V P) :
    lookup k (l.map (updKey aid F)) = if k = aid then (lookup k l).map F else lookup k l := by
  induction l with
  | nil => simp [lookup]
  | cons x xs ih =>
    obtain ⟨k', a⟩ := x
    by_cases h1 : k' = aid <;> by_cases h2 : k' = k
    · subst h1; subst h2; simp [lookup, updKey]
    · subst h1
      have : ¬ k = k' := fun e => h2 e.symm
      simp [lookup, updKey, h2, this, ih]
    · subst h2; simp [lookup, updKey, h1]
    · simp [lookup, updKey, h1, h2, ih]

theorem lookup_append_some {α : Type} (l r : List (Nat × α)) (k : Nat) (a : α) (h : lookup k l = some a) :
    lookup k (l ++ r) = some a := by
  induction l with
  | nil => simp [lookup] at h
  | cons x xs ih =>
    obtain ⟨k', a'⟩ := x
    simp only [lookup, List.cons_append] at h ⊢
    split
    · rename_i hk; simp only [hk, if_true] at h; exact h
    · rename_i hk; simp only [hk, if_false] at h; exact ih h

theorem lookup_filter_ne {α : Type} (l : List (Nat × α)) (k k' : Nat) (h : k ≠ k') :
    lookup k (l.filter (fun ka => ka.1 ≠ k')) = lookup k l := by
  induction l with
  | nil => rfl
  | cons x xs ih =>
    obtain ⟨k1, a⟩ := x
    by_cases h1 : k1 = k'
    · subst h1
      have hk : ¬ k1 = k := fun e => h e.symm
      have hf : List.filter (fun ka : Nat × α => decide (ka.1 ≠ k1)) ((k1, a) :: xs)
          = List.filter (fun ka : Nat × α => decide (ka.1 ≠ k1)) xs := by
        simp [List.filter_cons]
      rw [hf, ih]
      simp only [lookup, hk, if_false]
    · have hf : List.filter (fun ka : Nat × α => decide (ka.1 ≠ k')) ((k1, a) :: xs)
          = (k1, a) :: List.filter (fun ka : Nat × α => decide (ka.1 ≠ k')) xs := by
        simp [List.filter_cons, h1]
      rw [hf]
      simp only [lookup, ih]

/-- `a'` is a later state of the accessory `a`: same aid, the same objects in the same order
    followed by those added since, and a manager that only moved forward -/
def Later (a a' : Accessory V P) : Prop :=
  Iid.NoReissue a.iidm a'.iidm ∧ a'.aid = a.aid ∧ a.objList <+: a'.objList

theorem Later.refl (a : Accessory V P) : Later a a := ⟨Iid.NoReissue.refl _, rfl, List.prefix_refl _⟩

theorem Later.trans {a1 a2 a3 : Accessory V P} (h12 : Later a1 a2) (h23 : Later a2 a3) : Later a1 a3 :=
  ⟨h12.1.trans h23.1, h23.2.1.trans h12.2.1, h12.2.2.trans h23.2.2⟩

theorem Later.of_skel {a a' : Accessory V P} (h : a'.skel = a.skel) : Later a a' := by
  simp only [Accessory.skel, Prod.mk.injEq] at h
  exact ⟨by rw [h.2.1]; exact Iid.NoReissue.refl _, h.1, by rw [h.2.2]; exact List.prefix_refl _⟩

/-- same skeleton: the accessory under every key keeps its manager -/
theorem SameSkel.accAt {s s' : Db V P} (h : SameSkel s s') (k : Nat) (a : Accessory V P)
    (ha : s.accAt k = some a) : ∃ a', s'.accAt k = some a' ∧ a'.skel = a.skel := by
  have := lookup_skel s.assoc s'.assoc k h.1
  unfold Db.accAt at ha ⊢
  rw [ha] at this
  cases hl : lookup k s'.assoc with
  | none => rw [hl] at this; simp at this
  | some a' =>
    rw [hl] at this
    simp only [Option.map_some, Option.some.injEq] at this
    exact ⟨a', rfl, this⟩

theorem accAt_good {s : Db V P} (hs : s.Good) {k : Nat} {a : Accessory V P} (ha : s.accAt k = some a) :
    Iid.Good a.iidm :=
  (hs.accs (k, a) (lookup_mem' _ _ _ ha)).2.1

/-- an update of the accessory under one key that moves its manager forward -/
theorem onAcc_stable (s : Db V P) (hs : s.Good) (aid : Nat) (f : Accessory V P → Option (Accessory V P × Res))
    (F : Accessory V P → Accessory V P)
    (hf : ∀ ka ∈ s.assoc, ka.1 = aid → ∃ r, f ka.2 = some (F ka.2, r))
    (hF : ∀ a : Accessory V P, Iid.Good a.iidm → Later a (F a))
    (k : Nat) (a : Accessory V P) (ha : s.accAt k = some a) :
    ∃ a', (s.onAcc aid f).1.accAt k = some a' ∧ Later a a' := by
  obtain ⟨h1, _, _⟩ := onAcc_assoc s s.nextObj aid f F hs hf
  rcases h1 with h1 | h1
  · unfold Db.accAt at ha ⊢
    rw [h1, lookup_map_updKey, ha]
    by_cases hk : k = aid
    · simp only [hk, if_true, Option.map_some]
      exact ⟨F a, rfl, hF a (accAt_good hs ha)⟩
    · simp only [hk, if_false]
      exact ⟨a, rfl, Later.refl _⟩
  · rw [h1]; exact ⟨a, ha, Later.refl _⟩

theorem addService_iidm_noReissue (a : Accessory V P) (sv : Service V P) (h : Iid.Good a.iidm) :
    Iid.NoReissue a.iidm (a.addService sv).iidm :=
  (Iid.assign_noReissue h sv.obj).trans (Iid.foldl_assign_noReissue _ (Iid.good_assign h sv.obj))

theorem Accessory.iidm_forget (a : Accessory V P) (o : Nat) : (a.forget o).iidm = a.iidm := rfl
theorem Accessory.iidm_forget? (a : Accessory V P) (o : Option Nat) : (a.forget? o).iidm = a.iidm := by
  cases o <;> rfl

theorem step_good' (s : Db V P) (op : OpU V P) (hs : s.Good) : (s.stepU op).1.Good := by
  cases op with
  | con op =>
    have h1 := step_good s op hs
    simp only [Db.stepU]
    rcases hr : s.step op with ⟨s', r⟩
    rw [hr] at h1
    exact h1
  | db op =>
    have h1 := (sameSkel_step11 s hs op).good hs
    simp only [Db.stepU]
    rcases hr : s.step11 op with ⟨s', o⟩
    rw [hr] at h1
    exact h1

theorem runU_good (s : Db V P) (ops : List (OpU V P)) (hs : s.Good) : (s.runU ops).Good := by
  induction ops generalizing s with
  | nil => exact hs
  | cons op rest ih => exact ih _ (step_good' s op hs)

/-- **One step never reissues.**  Whatever the operation (construction, mutation, read), the
    accessory registered under `k` is still registered afterwards — unless the operation is the
    removal of that very accessory — and its manager has only moved forward. -/
theorem stepU_noReissue (s : Db V P) (hs : s.Good) (op : OpU V P) (k : Nat) (a : Accessory V P)
    (ha : s.accAt k = some a) (hop : k = STANDALONE_AID ∨ op ≠ .con (.removeAccessory k)) :
    ∃ a', (s.stepU op).1.accAt k = some a' ∧ Later a a' := by
  cases op with
  | db op =>
    have h1 := sameSkel_step11 s hs op
    simp only [Db.stepU]
    rcases hr : s.step11 op with ⟨s', o⟩
    rw [hr] at h1
    obtain ⟨a', e1, e2⟩ := h1.accAt k a ha
    exact ⟨a', e1, Later.of_skel e2⟩
  | con op =>
    simp only [Db.stepU]
    have goal : ∃ a', (s.step op).1.accAt k = some a' ∧ Later a a' := by
      cases op with
      | addService aid d =>
        simp only [Db.step]
        have key := onAcc_stable s hs aid
          (fun a => some (a.addService (mkService s.nextObj d), Res.ok none))
          (fun a => a.addService (mkService s.nextObj d))
          (fun ka _ _ => ⟨_, rfl⟩)
          (fun a h => ⟨addService_iidm_noReissue a _ h, rfl, by rw [addService_objList]; exact List.prefix_append _ _⟩) k a ha
        rcases hr : s.onAcc aid (fun a => some (a.addService (mkService s.nextObj d), Res.ok none)) with ⟨s', r⟩
        rw [hr] at key
        cases r with
        | ok n => exact key
        | valueError => exact ⟨a, ha, Later.refl _⟩
        | keyError => exact ⟨a, ha, Later.refl _⟩
        | badTarget => exact ⟨a, ha, Later.refl _⟩
      | addAccessory aid cb defs =>
        have same : ∃ a', s.accAt k = some a' ∧ Later a a' := ⟨a, ha, Later.refl _⟩
        simp only [Db.step]
        unfold Db.addAccessory
        by_cases hb : (!s.isBridge) = true
        · rw [if_pos hb]; exact same
        rw [if_neg hb]
        by_cases hcb : cb = true
        · rw [if_pos hcb]; exact same
        rw [if_neg hcb]
        rcases hm : mkAccessory aid s.nextObj defs (emptyAccessory : Accessory V P) with ⟨acc, next⟩
        have happ : ∀ (k' : Nat) (acc' : Accessory V P),
            ∃ a', Db.accAt { s with bridged := s.bridged ++ [(k', acc')], nextObj := next } k = some a' ∧
              Later a a' := by
          intro k' acc'
          refine ⟨a, ?_, Later.refl _⟩
          unfold Db.accAt at ha ⊢
          exact lookup_append_some s.assoc [(k', acc')] k a ha
        cases aid with
        | none =>
          simp only
          cases hfa : findAid s.keys with
          | none => exact same
          | some k' => exact happ k' _
        | some k' =>
          simp only
          by_cases hdup : some k' = s.main.aid ∨ k' ∈ s.keys
          · rw [if_pos hdup]; exact same
          · rw [if_neg hdup]; exact happ k' _
      | removeAccessory aid =>
        simp only [Db.step, Db.removeAccessory]
        unfold Db.accAt at ha ⊢
        simp only [Db.assoc, lookup] at ha ⊢
        by_cases h1 : STANDALONE_AID = k
        · simp only [h1, if_true] at ha ⊢
          exact ⟨a, ha, Later.refl _⟩
        · simp only [h1, if_false] at ha ⊢
          have hne : k ≠ aid := by
            rcases hop with hop | hop
            · exact absurd hop.symm h1
            · intro e; exact hop (by rw [e])
          rw [lookup_filter_ne _ _ _ hne]
          exact ⟨a, ha, Later.refl _⟩
      | assign aid o =>
        rw [step_assign]
        exact onAcc_stable s hs aid (fAssign o) (FAssign o)
          (fun ka _ _ => let ⟨r, e, _⟩ := fAssign_eq o ka.2; ⟨r, e⟩)
          (fun a h => ⟨by
            show Iid.NoReissue a.iidm (a.iidm.assign o)
            exact Iid.assign_noReissue h o, rfl, by
            show a.objList <+: (FAssign o a).objList
            unfold FAssign
            rw [Accessory.objList_forget]
            exact List.prefix_refl _⟩) k a ha
      | removeObj aid o =>
        rw [step_removeObj]
        exact onAcc_stable s hs aid (fRemoveObj o) (FRemoveObj o)
          (fun ka hka _ => let ⟨r, e, _⟩ := fRemoveObj_eq o ka.2 (hs.accs ka hka).2.1; ⟨r, e⟩)
          (fun a h => ⟨by
            obtain ⟨m', r, e, _, c, _, _, old⟩ := Iid.removeObj_good h o
            show Iid.NoReissue a.iidm (((a.iidm.removeObj o).map (·.1)).getD a.iidm)
            rw [e]
            exact ⟨by simp only [Option.map_some, Option.getD_some]; omega,
                   fun o' i e' _ => old o' i (by simpa using e')⟩, rfl, by
            show a.objList <+: (FRemoveObj o a).objList
            unfold FRemoveObj
            rw [Accessory.objList_forget]
            exact List.prefix_refl _⟩) k a ha
      | removeIid aid i =>
        rw [step_removeIid]
        exact onAcc_stable s hs aid (fRemoveIid i) (FRemoveIid i)
          (fun ka hka _ => let ⟨r, e, _⟩ := fRemoveIid_eq i ka.2 (hs.accs ka hka).2.1; ⟨r, e⟩)
          (fun a h => ⟨by
            obtain ⟨m', r, e, _, c, _, _, old⟩ := Iid.removeIid_good h i
            show Iid.NoReissue a.iidm (FRemoveIid i a).iidm
            unfold FRemoveIid
            rw [Accessory.iidm_forget?]
            show Iid.NoReissue a.iidm (((a.iidm.removeIid i).map (·.1)).getD a.iidm)
            rw [e]
            exact ⟨by simp only [Option.map_some, Option.getD_some]; omega,
                   fun o' i' e' _ => old o' i' (by simpa using e')⟩, by
            show (FRemoveIid i a).aid = a.aid
            unfold FRemoveIid
            cases (a.iidm.removeIid i).bind (·.2) <;> rfl, by
            show a.objList <+: (FRemoveIid i a).objList
            unfold FRemoveIid
            rw [Accessory.objList_forget?]
            exact List.prefix_refl _⟩) k a ha
    rcases hr : s.step op with ⟨s', r⟩
    rw [hr] at goal
    exact goal

/-- **No history reissues.**  Over any unified history that does not remove the accessory
    registered under `k` (the top-level accessory can never be removed), that accessory stays
    registered and its manager only moves forward. -/
theorem runU_noReissue (s : Db V P) (hs : s.Good) (ops : List (OpU V P)) (k : Nat) (a : Accessory V P)
    (ha : s.accAt k = some a)
    (hops : k = STANDALONE_AID ∨ ∀ op ∈ ops, op ≠ OpU.con (.removeAccessory k)) :
    ∃ a', (s.runU ops).accAt k = some a' ∧ Later a a' := by
  induction ops generalizing s a with
  | nil => exact ⟨a, ha, Later.refl _⟩
  | cons op rest ih =>
    obtain ⟨a1, e1, n1⟩ := stepU_noReissue s hs op k a ha
      (hops.imp id (fun h => h op (by simp)))
    obtain ⟨a2, e2, n2⟩ := ih (s.stepU op).1 (step_good' s op hs) a1 e1
      (hops.imp id (fun h op' hop' => h op' (by simp [hop'])))
    exact ⟨a2, e2, n1.trans n2⟩

/-- a listed pair is a binding of the manager of the accessory registered under that aid -/
theorem listing_binding (s : Db V P) (hs : s.Good) (aid iid o : Nat)
    (h : ((some aid, some iid), o) ∈ s.listing) :
    ∃ a, s.accAt aid = some a ∧ a.iidm.iids o = some iid ∧ o ∈ a.objList := by
  rw [Db.listing_eq, List.mem_flatMap] at h
  obtain ⟨ka, hka, hin⟩ := h
  simp only [Accessory.listing, List.mem_map, Prod.mk.injEq] at hin
  obtain ⟨o', ho', ⟨haid, hiid⟩, rfl⟩ := hin
  obtain ⟨g1, _, _, _⟩ := hs.accs ka hka
  have hk : ka.1 = aid := by rw [g1] at haid; exact Option.some.inj haid
  refine ⟨ka.2, ?_, hiid, ho'⟩
  unfold Db.accAt
  exact lookup_of_mem hs.sep (by rw [← hk]; exact hka)

/-! ### a listed characteristic pair is readable, and the read returns that characteristic's value -/

theorem find?_of_nodup_map {α : Type} (f : α → Nat) (l : List α) (h : (l.map f).Nodup) (c : α) (hc : c ∈ l) :
    l.find? (fun x => f x == f c) = some c := by
  induction l with
  | nil => cases hc
  | cons x xs ih =>
    simp only [List.map_cons, List.nodup_cons] at h
    simp only [List.find?_cons]
    by_cases hx : f x = f c
    · simp only [hx, beq_self_eq_true]
      simp only [List.mem_cons] at hc
      rcases hc with rfl | hc
      · rfl
      · exact absurd (by rw [hx]; exact List.mem_map_of_mem hc) h.1
    · have : (f x == f c) = false := by simpa using hx
      simp only [this]
      simp only [List.mem_cons] at hc
      rcases hc with rfl | hc
      · exact absurd rfl hx
      · exact ih h.2 hc

theorem chars_objs_sublist (a : Accessory V P) : (a.chars.map (·.obj)).Sublist a.objList := by
  unfold Accessory.chars Accessory.objList
  induction a.services with
  | nil => simp
  | cons sv svs ih =>
    simp only [List.flatMap_cons, List.map_append, Service.objList]
    exact List.Sublist.append (List.Sublist.cons _ (List.Sublist.refl _)) ih

/-- in a well-formed accessory `findChar` finds exactly the characteristic object asked for -/
theorem findChar_of_mem (a : Accessory V P) (hn : a.objList.Nodup) (c : Char V P) (hc : c ∈ a.chars) :
    a.findChar c.obj = some c := by
  unfold Accessory.findChar
  exact find?_of_nodup_map (·.obj) a.chars ((chars_objs_sublist a).nodup hn) c hc

/-- the read specification on a listed pair -/
theorem entrySpec_listed (s : Db V P) (hs : s.Good) (aid iid o : Nat)
    (h : ((some aid, some iid), o) ∈ s.listing) (gout : Option V) :
    ∃ a, a ∈ s.accList ∧ a.aid = some aid ∧ o ∈ a.objList ∧ s.accFor aid = some a ∧
      a.iidm.getObj iid = some o ∧
      s.entrySpec aid iid gout =
        some (if aid ≠ STANDALONE_AID ∧ a.available = false then failEntry aid iid
              else mkEntry aid iid ((a.findChar o).bind (fun c => if c.getter then gout else some c.value))) := by
  rw [Db.listing_eq, List.mem_flatMap] at h
  obtain ⟨ka, hka, hin⟩ := h
  simp only [Accessory.listing, List.mem_map, Prod.mk.injEq] at hin
  obtain ⟨o', ho', ⟨haid, hiid⟩, rfl⟩ := hin
  obtain ⟨g1, g2, _, _⟩ := hs.accs ka hka
  have hk : ka.1 = aid := by rw [g1] at haid; exact Option.some.inj haid
  have hobj : ka.2.iidm.getObj iid = some o' := (g2.1 o' iid).mp hiid
  have hmainmem : (STANDALONE_AID, s.main) ∈ s.assoc := by simp [Db.assoc]
  have hsepb : s.bridged.Pairwise Sep := (List.pairwise_cons.mp hs.sep).2
  have hspec : ∀ a : Accessory V P, a.iidm.getObj iid = some o' →
      a.valueSpec iid gout = (a.findChar o').bind (fun c => if c.getter then gout else some c.value) := by
    intro a hg
    unfold Accessory.valueSpec
    rw [hg]
    simp only [Option.bind_some]
    cases a.findChar o' <;> rfl
  refine ⟨ka.2, by rw [Db.accList_eq]; exact List.mem_map_of_mem hka, haid, ho', ?_, hobj, ?_⟩
  · unfold Db.accFor
    by_cases h1 : aid = STANDALONE_AID
    · have : ka = (STANDALONE_AID, s.main) := key_unique hs.sep hka hmainmem (hk.trans h1)
      subst this
      simp only [h1, if_true]
    · simp only [h1, if_false]
      have hb : ka ∈ s.bridged := bridged_of_mem s ka hka (by rw [hk]; exact h1)
      have hbr : s.isBridge = true := by
        cases hbb : s.isBridge with
        | true => rfl
        | false => rw [hs.plain hbb] at hb; cases hb
      have hl : lookup aid s.bridged = some ka.2 := lookup_of_mem hsepb (by rw [← hk]; exact hb)
      simp [hbr, hl]
  · unfold Db.entrySpec
    by_cases h1 : aid = STANDALONE_AID
    · have : ka = (STANDALONE_AID, s.main) := key_unique hs.sep hka hmainmem (hk.trans h1)
      subst this
      simp only [h1, if_true, ne_eq, not_true_eq_false, false_and, if_false]
      rw [hspec _ hobj]
    · simp only [h1, if_false]
      have hb : ka ∈ s.bridged := bridged_of_mem s ka hka (by rw [hk]; exact h1)
      have hbr : s.isBridge = true := by
        cases hbb : s.isBridge with
        | true => rfl
        | false => rw [hs.plain hbb] at hb; cases hb
      have hl : lookup aid s.bridged = some ka.2 := lookup_of_mem hsepb (by rw [← hk]; exact hb)
      simp only [hbr, hl, Bool.not_true, Bool.false_eq_true, if_false]
      cases hav : ka.2.available with
      | true => simp [hspec _ hobj, h1]
      | false => simp [h1]

end Hap.Db
