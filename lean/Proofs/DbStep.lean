/-
  C17 lemmas, part 3: every construction operation keeps the invariant `Db.Good`.
-/
import Proofs.DbIds
namespace Hap.Db
open Hap
set_option linter.unusedSectionVars false
variable {V P : Type} [PropsLike P] [Inhabited V]

theorem Db.GoodN.mono {s : Db V P} {n n' : Nat} (h : s.GoodN n) (hnn : n ≤ n') : s.GoodN n' :=
  ⟨fun ka hka => (h.accs ka hka).mono hnn, h.sep, h.plain⟩

theorem Db.GoodN.setNext {s : Db V P} {n : Nat} (h : s.GoodN n) (m : Nat) :
    Db.GoodN { s with nextObj := m } n :=
  ⟨h.accs, h.sep, h.plain⟩

theorem onAcc_good (s : Db V P) (n n' : Nat) (aid : Nat) (f : Accessory V P → Option (Accessory V P × Res))
    (F : Accessory V P → Accessory V P) (hs : s.GoodN n) (hnn : n ≤ n')
    (hf : ∀ ka ∈ s.assoc, ka.1 = aid → ∃ r, f ka.2 = some (F ka.2, r))
    (hF : ∀ ka ∈ s.assoc, ka.1 = aid →
      AccGood n' (ka.1, F ka.2) ∧ ∀ x ∈ (F ka.2).objList, x ∈ ka.2.objList ∨ n ≤ x) :
    (s.onAcc aid f).1.GoodN n' := by
  obtain ⟨h1, h2, _⟩ := onAcc_assoc s n aid f F hs hf
  rcases h1 with h1 | h1
  · obtain ⟨g1, g2⟩ := goodN_map s.assoc n n' aid F hnn hs.accs hs.sep hF
    refine ⟨by rw [h1]; exact g1, by rw [h1]; exact g2, ?_⟩
    intro hb
    rw [h2] at hb
    have hb' := hs.plain hb
    have : (s.onAcc aid f).1.bridged = ((s.onAcc aid f).1.assoc).tail := rfl
    rw [this, h1]
    simp [Db.assoc, hb']
  · rw [h1]; exact hs.mono hnn

theorem emptyAccessory_objList : (emptyAccessory : Accessory V P).objList = [] := rfl

theorem Db.keys_eq (s : Db V P) : s.keys = s.bridged.map (·.1) := rfl

/-- `Bridge.add_accessory` keeps the invariant -/
theorem addAccessory_good (s : Db V P) (aid : Option Nat) (cb : Bool) (defs : List (SvcDef V P))
    (hs : s.Good) : (s.addAccessory aid cb defs).1.Good := by
  unfold Db.addAccessory
  by_cases hb : s.isBridge = true
  case neg =>
    have hb' : (!s.isBridge) = true := by simpa using hb
    rw [if_pos hb']; exact hs
  have hb' : ¬ ((!s.isBridge) = true) := by simp [hb]
  rw [if_neg hb']
  by_cases hc : cb = true
  · rw [if_pos hc]; exact hs
  rw [if_neg hc]
  obtain ⟨m1, m2, m3, m4, m5, m6⟩ := mkAccessory_spec aid defs s.nextObj (emptyAccessory : Accessory V P)
    Iid.good_empty (by simp [emptyAccessory_objList]) (by simp [emptyAccessory_objList])
  rcases hmk : mkAccessory aid s.nextObj defs (emptyAccessory : Accessory V P) with ⟨acc, next⟩
  rw [hmk] at m1 m2 m3 m4 m5 m6
  simp only at m1 m2 m3 m4 m5 m6
  have hfresh : ∀ x ∈ acc.objList, s.nextObj ≤ x := by
    intro x hx
    rcases m6 x hx with h | h
    · simp [emptyAccessory_objList] at h
    · exact h
  have hmain : s.main.aid = some STANDALONE_AID := (hs.accs (STANDALONE_AID, s.main) (by simp [Db.assoc])).1
  -- appending a new accessory under a key that is not in use
  have happ : ∀ (k : Nat) (acc' : Accessory V P), acc'.aid = some k → acc'.iidm = acc.iidm →
      acc'.objList = acc.objList → k ≠ STANDALONE_AID → ¬ k ∈ s.keys →
      Db.Good { s with bridged := s.bridged ++ [(k, acc')], nextObj := next } := by
    intro k acc' ha hi ho hk1 hkn
    have hkey : ∀ kb ∈ s.assoc, kb.1 ≠ k := by
      intro kb hkb e
      simp only [Db.assoc, List.mem_cons] at hkb
      rcases hkb with rfl | hkb
      · exact hk1 e.symm
      · exact hkn (by rw [Db.keys_eq, List.mem_map]; exact ⟨kb, hkb, e⟩)
    refine ⟨?_, ?_, ?_⟩
    · intro ka hka
      simp only [Db.assoc, List.mem_cons, List.mem_append, List.not_mem_nil, or_false] at hka
      rcases hka with rfl | hka | rfl
      · exact (hs.accs (STANDALONE_AID, s.main) (by simp [Db.assoc])).mono m4
      · exact (hs.accs ka (by simp [Db.assoc, hka])).mono m4
      · exact ⟨ha, by rw [hi]; exact m2, by rw [ho]; exact m3, by rw [ho]; exact m5⟩
    · show List.Pairwise Sep ((STANDALONE_AID, s.main) :: (s.bridged ++ [(k, acc')]))
      rw [← List.cons_append, List.pairwise_append]
      refine ⟨hs.sep, by simp, ?_⟩
      intro x hx y hy
      simp only [List.mem_singleton] at hy
      subst hy
      refine ⟨hkey x hx, ?_⟩
      intro o h1 h2
      have := (hs.accs x hx).2.2.2 o h1
      rw [ho] at h2
      have := hfresh o h2
      omega
    · intro hb'; simp [hb] at hb'
  cases aid with
  | none =>
    simp only
    cases hfa : findAid s.keys with
    | none => exact hs
    | some k =>
      obtain ⟨_, k1, _, k3, _⟩ := findAid_spec s.keys k hfa
      exact happ k { acc with aid := some k } rfl rfl rfl k1 k3
  | some k =>
    simp only
    by_cases hdup : some k = s.main.aid ∨ k ∈ s.keys
    · rw [if_pos hdup]; exact hs
    · rw [if_neg hdup]
      rw [hmain] at hdup
      have k1 : k ≠ STANDALONE_AID := fun e => hdup (Or.inl (by rw [e]))
      have k3 : ¬ k ∈ s.keys := fun e => hdup (Or.inr e)
      exact happ k acc m1 rfl rfl k1 k3

theorem removeAccessory_good (s : Db V P) (aid : Nat) (hs : s.Good) : (s.removeAccessory aid).Good := by
  have hsub : (s.removeAccessory aid).assoc.Sublist s.assoc := by
    simp only [Db.assoc, Db.removeAccessory]
    exact List.Sublist.cons_cons _ List.filter_sublist
  refine ⟨fun ka hka => hs.accs ka (hsub.subset hka), hs.sep.sublist hsub, ?_⟩
  intro hb
  show List.filter _ s.bridged = []
  rw [hs.plain hb]; rfl

/-- every construction operation keeps the invariant -/
theorem step_good (s : Db V P) (op : Op V P) (hs : s.Good) : (s.step op).1.Good := by
  cases op with
  | addService aid d =>
    simp only [Db.step]
    have key := onAcc_good s s.nextObj (s.nextObj + 1 + (mkService s.nextObj d).chars.length) aid
      (fun a => some (a.addService (mkService s.nextObj d), Res.ok none))
      (fun a => a.addService (mkService s.nextObj d)) hs (by omega)
      (fun ka _ _ => ⟨_, rfl⟩)
      (fun ka hka _ => addService_good ka.1 ka.2 s.nextObj s.nextObj d (hs.accs ka hka) (Nat.le_refl _))
    rcases hr : s.onAcc aid (fun a => some (a.addService (mkService s.nextObj d), Res.ok none)) with ⟨s', r⟩
    rw [hr] at key
    cases r with
    | ok n => exact key.setNext _
    | valueError => exact hs
    | keyError => exact hs
    | badTarget => exact hs
  | addAccessory aid cb defs => exact addAccessory_good s aid cb defs hs
  | removeAccessory aid => exact removeAccessory_good s aid hs
  | assign aid o =>
    rw [step_assign]
    have hf : ∀ ka ∈ s.assoc, ka.1 = aid → ∃ r, fAssign o ka.2 = some (FAssign o ka.2, r) :=
      fun ka _ _ => let ⟨r, e, _⟩ := fAssign_eq o ka.2; ⟨r, e⟩
    have key := onAcc_good s s.nextObj s.nextObj aid (fAssign o) (FAssign o) hs (Nat.le_refl _) hf
      (fun ka hka _ => by
        obtain ⟨g, e⟩ := FAssign_good o (hs.accs ka hka)
        exact ⟨g, fun x hx => Or.inl (by rw [e] at hx; exact hx)⟩)
    have e := (onAcc_assoc s s.nextObj aid (fAssign o) (FAssign o) hs hf).2.2
    unfold Db.Good
    rw [e]
    exact key
  | removeObj aid o =>
    rw [step_removeObj]
    have hf : ∀ ka ∈ s.assoc, ka.1 = aid → ∃ r, fRemoveObj o ka.2 = some (FRemoveObj o ka.2, r) :=
      fun ka hka _ => let ⟨r, e, _⟩ := fRemoveObj_eq o ka.2 (hs.accs ka hka).2.1; ⟨r, e⟩
    have key := onAcc_good s s.nextObj s.nextObj aid (fRemoveObj o) (FRemoveObj o) hs (Nat.le_refl _) hf
      (fun ka hka _ => by
        obtain ⟨g, e⟩ := FRemoveObj_good o (hs.accs ka hka)
        exact ⟨g, fun x hx => Or.inl (by rw [e] at hx; exact hx)⟩)
    have e := (onAcc_assoc s s.nextObj aid (fRemoveObj o) (FRemoveObj o) hs hf).2.2
    unfold Db.Good
    rw [e]
    exact key
  | removeIid aid i =>
    rw [step_removeIid]
    have hf : ∀ ka ∈ s.assoc, ka.1 = aid → ∃ r, fRemoveIid i ka.2 = some (FRemoveIid i ka.2, r) :=
      fun ka hka _ => let ⟨r, e, _⟩ := fRemoveIid_eq i ka.2 (hs.accs ka hka).2.1; ⟨r, e⟩
    have key := onAcc_good s s.nextObj s.nextObj aid (fRemoveIid i) (FRemoveIid i) hs (Nat.le_refl _) hf
      (fun ka hka _ => by
        obtain ⟨g, e⟩ := FRemoveIid_good i (hs.accs ka hka)
        exact ⟨g, fun x hx => Or.inl (by rw [e] at hx; exact hx)⟩)
    have e := (onAcc_assoc s s.nextObj aid (fRemoveIid i) (FRemoveIid i) hs hf).2.2
    unfold Db.Good
    rw [e]
    exact key

theorem init_good (isBridge : Bool) (defs : List (SvcDef V P)) : (Db.init isBridge defs : Db V P).Good := by
  obtain ⟨m1, m2, m3, m4, m5, m6⟩ := mkAccessory_spec (some STANDALONE_AID) defs 0
    (emptyAccessory : Accessory V P) Iid.good_empty (by simp [emptyAccessory_objList])
    (by simp [emptyAccessory_objList])
  unfold Db.init
  rcases hmk : mkAccessory (some STANDALONE_AID) 0 defs (emptyAccessory : Accessory V P) with ⟨acc, next⟩
  rw [hmk] at m1 m2 m3 m4 m5 m6
  simp only at m1 m2 m3 m4 m5 m6
  refine ⟨?_, ?_, fun _ => rfl⟩
  · intro ka hka
    simp only [Db.assoc, List.mem_cons, List.not_mem_nil, or_false] at hka
    subst hka
    exact ⟨m1, m2, m3, m5⟩
  · simp [Db.assoc]

theorem run_good (s : Db V P) (ops : List (Op V P)) (hs : s.Good) : (s.run ops).Good := by
  induction ops generalizing s with
  | nil => exact hs
  | cons op rest ih => exact ih _ (step_good s op hs)

end Hap.Db
