/-
  C17 lemmas, part 5: `Service.add_characteristic`'s de-duplication keeps every
  characteristic of a definition whose types are pairwise distinct.
-/
import HapModel.Db
namespace Hap.Db
open Hap
set_option linter.unusedSectionVars false
variable {V P : Type} [PropsLike P] [Inhabited V]

theorem foldl_addCharDef (ds acc : List (CharDef V P))
    (h : ((acc ++ ds).map (·.typ)).Nodup) : ds.foldl addCharDef acc = acc ++ ds := by
  induction ds generalizing acc with
  | nil => simp
  | cons d ds ih =>
    simp only [List.foldl_cons]
    have hnot : (acc.any (fun k => k.typ == d.typ)) = false := by
      rw [Bool.eq_false_iff]
      intro hany
      simp only [List.any_eq_true, beq_iff_eq] at hany
      obtain ⟨k, hk, hkt⟩ := hany
      simp only [List.map_append, List.map_cons, List.nodup_append] at h
      exact h.2.2 k.typ (List.mem_map_of_mem hk) d.typ (by simp) hkt
    have e : addCharDef acc d = acc ++ [d] := by simp [addCharDef, hnot]
    rw [e, ih (acc ++ [d]) (by simpa [List.append_assoc] using h)]
    simp [List.append_assoc]

/-- distinct types: nothing is dropped -/
theorem keptDefs_of_nodup (ds : List (CharDef V P)) (h : (ds.map (·.typ)).Nodup) : keptDefs ds = ds := by
  have := foldl_addCharDef ds [] (by simpa using h)
  simpa [keptDefs] using this

end Hap.Db
