/-
  C17 lemmas, part 5: `Service.add_characteristic`'s de-duplication keeps every
  characteristic of a definition whose types are pairwise distinct.
-/
import HapModel.Db
namespace Hap.Db
open Hap
set_option linter.unusedSectionVars false
variable {V P : Type} [PropsLike P] [Inhabited V]

theorem foldl_addCharDef (ds acc : List (CharDef V P))
    (h : ((acc ++ ds).map (·.typ)).Nodup) : ds.foldl addCharDef acc = acc ++ ds := by
  induction ds generalizing acc with
  | nil => simp
  | cons d ds ih =>
    simp only [List.foldl_cons]
    have hnot : (acc.any (fun k => k.typ == d.typ)) = false := by
      rw [Bool.eq_false_iff]
      intro hany
      simp only [List.any_eq_true, beq_iff_eq] at hany
      obtain ⟨k, hk, hkt⟩ := hany
      simp only [List.map_append, List.map_cons, List.nodup_append] at h
      exact h.2.2 k.typ (List.mem_map_of_mem hk) d.typ (by simp) hkt
    have e : addCharDef acc d = acc ++ [d] := by simp [addCharDef, hnot]
    rw [e, ih (acc ++ [d]) (by simpa [List.append_assoc] using h)]
    simp [List.append_assoc]

/-- distinct types: nothing is dropped -/
theorem keptDefs_of_nodup (ds : List (CharDef V P)) (h : (ds.map (·.typ)).Nodup) : keptDefs ds = ds := by
  have := foldl_addCharDef ds [] (by simpa using h)
  simpa [keptDefs] using this

end Hap.Db

namespace Hap.Db
open Hap
set_option linter.unusedSectionVars false
variable {V P : Type} [PropsLike P] [Inhabited V]

theorem addCharDef_cases (acc : List (CharDef V P)) (d : CharDef V P) :
    ((∃ k ∈ acc, k.typ = d.typ) ∧ addCharDef acc d = acc) ∨
    ((∀ k ∈ acc, k.typ ≠ d.typ) ∧ addCharDef acc d = acc ++ [d]) := by
  unfold addCharDef
  by_cases h : (acc.any (fun k => k.typ == d.typ)) = true
  · left
    simp only [List.any_eq_true, beq_iff_eq] at h
    exact ⟨h, by simp [List.any_eq_true, h]⟩
  · right
    have h' : ∀ k ∈ acc, k.typ ≠ d.typ := by
      intro k hk e
      exact h (by simp only [List.any_eq_true, beq_iff_eq]; exact ⟨k, hk, e⟩)
    exact ⟨h', by simp [h]⟩

/-- sequential de-duplication, whatever the split into `add_characteristic` calls: the types
    stay pairwise distinct, the result is `acc` followed by a sublist of the new definitions
    (order kept), and for every type the definition kept is the first one of that type -/
theorem foldl_addCharDef_spec (ds acc : List (CharDef V P)) (h : (acc.map (·.typ)).Nodup) :
    ((ds.foldl addCharDef acc).map (·.typ)).Nodup ∧
    (∃ rest, ds.foldl addCharDef acc = acc ++ rest ∧ rest.Sublist ds) ∧
    (∀ t, (ds.foldl addCharDef acc).find? (fun d => d.typ == t) = (acc ++ ds).find? (fun d => d.typ == t)) := by
  induction ds generalizing acc with
  | nil => exact ⟨h, ⟨[], by simp, List.Sublist.refl _⟩, fun _ => by simp⟩
  | cons d ds ih =>
    simp only [List.foldl_cons]
    rcases addCharDef_cases acc d with ⟨⟨k, hk, hkt⟩, e⟩ | ⟨hno, e⟩
    · rw [e]
      obtain ⟨i1, ⟨rest, i2, i3⟩, i4⟩ := ih acc h
      refine ⟨i1, ⟨rest, i2, i3.cons _⟩, ?_⟩
      intro t
      rw [i4 t, List.find?_append, List.find?_append, List.find?_cons]
      by_cases ht : d.typ = t
      · -- the type is already present in acc: the search never reaches d
        have : (acc.find? (fun d => d.typ == t)).isSome := by
          rw [List.find?_isSome]; exact ⟨k, hk, by simp [hkt, ht]⟩
        cases hf : acc.find? (fun d => d.typ == t) with
        | none => rw [hf] at this; cases this
        | some x => simp
      · have : (d.typ == t) = false := by simpa using ht
        simp [this]
    · rw [e]
      have hn : ((acc ++ [d]).map (·.typ)).Nodup := by
        simp only [List.map_append, List.map_cons, List.map_nil, List.nodup_append]
        refine ⟨h, by simp, ?_⟩
        intro a ha b hb
        simp only [List.mem_singleton] at hb
        subst hb
        simp only [List.mem_map] at ha
        obtain ⟨k, hk, rfl⟩ := ha
        exact hno k hk
      obtain ⟨i1, ⟨rest, i2, i3⟩, i4⟩ := ih (acc ++ [d]) hn
      refine ⟨i1, ⟨d :: rest, by rw [i2]; simp, i3.cons_cons _⟩, ?_⟩
      intro t
      rw [i4 t]; simp [List.append_assoc]

end Hap.Db
