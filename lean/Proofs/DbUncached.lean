/-
  C17 lemmas, part 6: construction never fills a representation cache, and no construction
  operation lets a KeyError escape.
-/
import Proofs.DbStep
namespace Hap.Db
open Hap
set_option linter.unusedSectionVars false
variable {V P : Type} [PropsLike P] [Inhabited V]

def AccUncached (a : Accessory V P) : Prop :=
  ∀ sv ∈ a.services, ∀ c ∈ sv.chars, c.cacheV = none ∧ c.cacheN = none

/-- no characteristic of the database has anything cached -/
def Db.Uncached (s : Db V P) : Prop := ∀ ka ∈ s.assoc, AccUncached ka.2

theorem numberFrom_uncached (o : Nat) (ds : List (CharDef V P)) :
    ∀ c ∈ numberFrom o ds, c.cacheV = none ∧ c.cacheN = none := by
  induction ds generalizing o with
  | nil => intro c hc; cases hc
  | cons d ds ih =>
    intro c hc
    simp only [numberFrom, List.mem_cons] at hc
    rcases hc with rfl | hc
    · exact ⟨rfl, rfl⟩
    · exact ih _ c hc

theorem addService_uncached (a : Accessory V P) (o : Nat) (d : SvcDef V P) (h : AccUncached a) :
    AccUncached (a.addService (mkService o d)) := by
  intro sv hsv c hc
  simp only [Accessory.addService, List.mem_append, List.mem_singleton] at hsv
  rcases hsv with hsv | rfl
  · exact h sv hsv c hc
  · exact numberFrom_uncached _ _ c hc

theorem mkAccessory_uncached (aid : Option Nat) (defs : List (SvcDef V P)) (o : Nat) (a : Accessory V P)
    (h : AccUncached a) : AccUncached (mkAccessory aid o defs a).1 := by
  induction defs generalizing o a with
  | nil => exact h
  | cons d ds ih => exact ih _ _ (addService_uncached a o d h)

theorem emptyAccessory_uncached : AccUncached (emptyAccessory : Accessory V P) := by
  intro sv hsv; cases hsv

theorem forget_uncached (a : Accessory V P) (o : Nat) (h : AccUncached a) : AccUncached (a.forget o) := by
  intro sv' hsv' c' hc'
  simp only [Accessory.forget, Accessory.modChar, List.mem_map] at hsv'
  obtain ⟨sv, hsv, rfl⟩ := hsv'
  simp only [Service.modChar, List.mem_map] at hc'
  obtain ⟨c, hc, rfl⟩ := hc'
  split
  · exact ⟨rfl, rfl⟩
  · exact h sv hsv c hc

theorem forget?_uncached (a : Accessory V P) (o : Option Nat) (h : AccUncached a) :
    AccUncached (a.forget? o) := by
  cases o with
  | none => exact h
  | some o => exact forget_uncached a o h

theorem onAcc_uncached (s : Db V P) (n : Nat) (aid : Nat) (f : Accessory V P → Option (Accessory V P × Res))
    (F : Accessory V P → Accessory V P) (hs : s.GoodN n) (hu : s.Uncached)
    (hf : ∀ ka ∈ s.assoc, ka.1 = aid → ∃ r, f ka.2 = some (F ka.2, r))
    (hF : ∀ a, AccUncached a → AccUncached (F a)) :
    (s.onAcc aid f).1.Uncached := by
  obtain ⟨h1, _, _⟩ := onAcc_assoc s n aid f F hs hf
  rcases h1 with h1 | h1
  · intro kb hkb
    rw [h1, List.mem_map] at hkb
    obtain ⟨ka, hka, rfl⟩ := hkb
    unfold updKey
    split
    · exact hF _ (hu ka hka)
    · exact hu ka hka
  · rw [h1]; exact hu

theorem onAcc_no_keyError (s : Db V P) (aid : Nat) (f : Accessory V P → Option (Accessory V P × Res))
    (hf : ∀ ka ∈ s.assoc, ka.1 = aid → ∃ a' r, f ka.2 = some (a', r) ∧ r ≠ .keyError) :
    (s.onAcc aid f).2 ≠ .keyError := by
  unfold Db.onAcc
  by_cases h1 : aid = STANDALONE_AID
  · obtain ⟨a', r, hr, hne⟩ := hf (STANDALONE_AID, s.main) (by simp [Db.assoc]) h1.symm
    simp only at hr
    simp only [h1, if_true, hr]
    exact hne
  · simp only [h1, if_false]
    cases hl : lookup aid s.bridged with
    | none => simp
    | some a =>
      obtain ⟨a', r, hr, hne⟩ := hf (aid, a) (by simp [Db.assoc, lookup_mem' _ _ _ hl]) rfl
      simp only at hr
      simp only [hr]
      exact hne

theorem addAccessory_uncached (s : Db V P) (aid : Option Nat) (cb : Bool) (defs : List (SvcDef V P))
    (hu : s.Uncached) :
    (s.addAccessory aid cb defs).1.Uncached ∧ (s.addAccessory aid cb defs).2 ≠ .keyError := by
  have hmk := mkAccessory_uncached aid defs s.nextObj (emptyAccessory : Accessory V P) emptyAccessory_uncached
  unfold Db.addAccessory
  by_cases hb : (!s.isBridge) = true
  · rw [if_pos hb]; exact ⟨hu, by simp⟩
  rw [if_neg hb]
  by_cases hc : cb = true
  · rw [if_pos hc]; exact ⟨hu, by simp⟩
  rw [if_neg hc]
  rcases hm : mkAccessory aid s.nextObj defs (emptyAccessory : Accessory V P) with ⟨acc, next⟩
  rw [hm] at hmk
  have happ : ∀ (k : Nat) (acc' : Accessory V P), acc'.services = acc.services →
      Db.Uncached { s with bridged := s.bridged ++ [(k, acc')], nextObj := next } := by
    intro k acc' hsv kb hkb
    simp only [Db.assoc, List.mem_cons, List.mem_append, List.not_mem_nil, or_false] at hkb
    rcases hkb with rfl | hkb | rfl
    · exact hu _ (by simp [Db.assoc])
    · exact hu _ (by simp [Db.assoc, hkb])
    · intro sv hsv'; simp only at hsv'; rw [hsv] at hsv'; exact hmk sv hsv'
  cases aid with
  | none =>
    simp only
    cases hfa : findAid s.keys with
    | none => exact ⟨hu, by simp⟩
    | some k => exact ⟨happ k _ rfl, by simp⟩
  | some k =>
    simp only
    by_cases hdup : some k = s.main.aid ∨ k ∈ s.keys
    · rw [if_pos hdup]; exact ⟨hu, by simp⟩
    · rw [if_neg hdup]; exact ⟨happ k _ rfl, by simp⟩

/-- a construction step fills no cache and lets no KeyError escape -/
theorem step_uncached (s : Db V P) (op : Op V P) (hs : s.Good) (hu : s.Uncached) :
    (s.step op).1.Uncached ∧ (s.step op).2 ≠ .keyError := by
  cases op with
  | addService aid d =>
    simp only [Db.step]
    have key := onAcc_uncached s s.nextObj aid
      (fun a => some (a.addService (mkService s.nextObj d), Res.ok none))
      (fun a => a.addService (mkService s.nextObj d)) hs hu
      (fun ka _ _ => ⟨_, rfl⟩) (fun a ha => addService_uncached a _ d ha)
    have nk := onAcc_no_keyError s aid
      (fun a => some (a.addService (mkService s.nextObj d), Res.ok none))
      (fun ka _ _ => ⟨_, _, rfl, by simp⟩)
    rcases hr : s.onAcc aid (fun a => some (a.addService (mkService s.nextObj d), Res.ok none)) with ⟨s', r⟩
    rw [hr] at key nk
    cases r with
    | ok n => exact ⟨key, by simp⟩
    | valueError => exact ⟨hu, by simp⟩
    | keyError => exact absurd rfl nk
    | badTarget => exact ⟨hu, by simp⟩
  | addAccessory aid cb defs => exact addAccessory_uncached s aid cb defs hu
  | removeAccessory aid =>
    refine ⟨?_, by simp [Db.step]⟩
    intro kb hkb
    simp only [Db.step, Db.removeAccessory, Db.assoc, List.mem_cons, List.mem_filter] at hkb
    rcases hkb with rfl | ⟨hkb, _⟩
    · exact hu _ (by simp [Db.assoc])
    · exact hu _ (by simp [Db.assoc, hkb])
  | assign aid o =>
    rw [step_assign]
    exact ⟨onAcc_uncached s s.nextObj aid (fAssign o) (FAssign o) hs hu
        (fun ka _ _ => let ⟨r, e, _⟩ := fAssign_eq o ka.2; ⟨r, e⟩) (fun a ha => forget_uncached _ o ha),
      onAcc_no_keyError s aid _ (fun ka _ _ => let ⟨r, e, h⟩ := fAssign_eq o ka.2; ⟨_, r, e, h⟩)⟩
  | removeObj aid o =>
    rw [step_removeObj]
    exact ⟨onAcc_uncached s s.nextObj aid (fRemoveObj o) (FRemoveObj o) hs hu
        (fun ka hka _ => let ⟨r, e, _⟩ := fRemoveObj_eq o ka.2 (hs.accs ka hka).2.1; ⟨r, e⟩)
        (fun a ha => forget_uncached _ o ha),
      onAcc_no_keyError s aid _
        (fun ka hka _ => let ⟨r, e, h⟩ := fRemoveObj_eq o ka.2 (hs.accs ka hka).2.1; ⟨_, r, e, h⟩)⟩
  | removeIid aid i =>
    rw [step_removeIid]
    exact ⟨onAcc_uncached s s.nextObj aid (fRemoveIid i) (FRemoveIid i) hs hu
        (fun ka hka _ => let ⟨r, e, _⟩ := fRemoveIid_eq i ka.2 (hs.accs ka hka).2.1; ⟨r, e⟩)
        (fun a ha => forget?_uncached _ _ ha),
      onAcc_no_keyError s aid _
        (fun ka hka _ => let ⟨r, e, h⟩ := fRemoveIid_eq i ka.2 (hs.accs ka hka).2.1; ⟨_, r, e, h⟩)⟩

theorem init_uncached (isBridge : Bool) (defs : List (SvcDef V P)) :
    (Db.init isBridge defs : Db V P).Uncached := by
  have := mkAccessory_uncached (some STANDALONE_AID) defs 0 (emptyAccessory : Accessory V P)
    emptyAccessory_uncached
  unfold Db.init
  rcases hm : mkAccessory (some STANDALONE_AID) 0 defs (emptyAccessory : Accessory V P) with ⟨acc, next⟩
  rw [hm] at this
  intro kb hkb
  simp only [Db.assoc, List.mem_cons, List.not_mem_nil, or_false] at hkb
  subst hkb
  exact this

theorem run_uncached (s : Db V P) (ops : List (Op V P)) (hs : s.Good) (hu : s.Uncached) :
    (s.run ops).Uncached := by
  induction ops generalizing s with
  | nil => exact hu
  | cons op rest ih => exact ih _ (step_good s op hs) (step_uncached s op hs hu).1

end Hap.Db
