/-
  C11 / C17 lemmas, part 8: the read specification (a characteristic read is a pure function of
  the state in which the request arrives), and histories over the UNION of the two alphabets —
  construction operations, value / metadata mutations and reads in any order — keep both the
  well-formedness invariant and the cache invariant.
-/
import Proofs.DbInterleave
import Proofs.DbRead
namespace Hap.Db
open Hap
set_option linter.unusedSectionVars false
variable {V P : Type} [PropsLike P] [Inhabited V]

/-! ### the read specification -/

theorem Accessory.chars_modChar (a : Accessory V P) (o : Nat) (f : Char V P → Char V P) :
    (a.modChar o f).chars = a.chars.map (fun c => if c.obj = o then f c else c) := by
  simp only [Accessory.chars, Accessory.modChar, Service.modChar, List.flatMap_map, List.map_flatMap]

theorem Accessory.findChar_modChar (a : Accessory V P) (o o' : Nat) (f : Char V P → Char V P)
    (hf : ∀ c, (f c).obj = c.obj) :
    (a.modChar o f).findChar o' = (a.findChar o').map (fun c => if c.obj = o then f c else c) := by
  unfold Accessory.findChar
  rw [Accessory.chars_modChar, List.find?_map]
  have : ((fun c : Char V P => c.obj == o') ∘ fun c => if c.obj = o then f c else c)
      = (fun c : Char V P => c.obj == o') := by
    funext c
    simp only [Function.comp]
    split
    · rw [hf]
    · rfl
  rw [this]

theorem Char.getValue_getter (c : Char V P) (g : Option V) : (c.getValue g).2.getter = c.getter := by
  unfold Char.getValue
  split
  · cases g <;> rfl
  · rfl

theorem Char.getValue_value (c : Char V P) (g : Option V) (h : c.getter = false) :
    (c.getValue g).2.value = c.value := by
  unfold Char.getValue
  simp [h]

/-- a read changes nothing a later read of the same accessory looks at -/
theorem Accessory.valueSpec_read (a : Accessory V P) (iid iid' : Nat) (g gout : Option V) :
    (a.read iid g).2.valueSpec iid' gout = a.valueSpec iid' gout ∧
    (a.read iid g).2.available = a.available := by
  unfold Accessory.read
  cases h1 : a.iidm.getObj iid with
  | none => exact ⟨rfl, rfl⟩
  | some o =>
    simp only
    cases h2 : a.findChar o with
    | none => exact ⟨rfl, rfl⟩
    | some c0 =>
      simp only
      refine ⟨?_, rfl⟩
      unfold Accessory.valueSpec
      show (match (a.iidm.getObj iid').bind (a.modChar o fun c => (c.getValue g).2).findChar with
            | none => none
            | some c => if c.getter then gout else some c.value) = _
      cases h3 : a.iidm.getObj iid' with
      | none => rfl
      | some o' =>
        simp only [Option.bind_some]
        rw [Accessory.findChar_modChar a o o' _ (fun c => Char.getValue_obj c g)]
        cases h4 : a.findChar o' with
        | none => rfl
        | some c =>
          simp only [Option.map_some]
          by_cases hco : c.obj = o
          · simp only [hco, if_true]
            rw [Char.getValue_getter]
            cases hg : c.getter with
            | true => rfl
            | false => simp [Char.getValue_value c g hg]
          · simp only [hco, if_false]

theorem lookup_map_upd {α : Type} (l : List (Nat × α)) (aid k : Nat) (a' : α) :
    lookup k (l.map (fun ka => if ka.1 = aid then (ka.1, a') else ka)) =
      if k = aid then (lookup k l).map (fun _ => a') else lookup k l := by
  induction l with
  | nil => simp [lookup]
  | cons x xs ih =>
    obtain ⟨k', a⟩ := x
    by_cases h1 : k' = aid <;> by_cases h2 : k' = k
    · subst h1; subst h2; simp [lookup]
    · subst h1
      have : ¬ k = k' := fun e => h2 e.symm
      simp [lookup, h2, this, ih]
    · subst h2; simp [lookup, h1]
    · simp [lookup, h1, h2, ih]

theorem valueSpec_eq_read (a : Accessory V P) (iid : Nat) (g : Option V) :
    (a.read iid g).1 = a.valueSpec iid g := Accessory.read_value a iid g

/-- one loop iteration answers what the specification says, and leaves every later answer
    of the specification unchanged -/
theorem Db.readOne_spec (s : Db V P) (aid iid : Nat) (g : Option V) :
    (s.readOne aid iid g).1 = s.entrySpec aid iid g ∧
    ∀ aid' iid' gout, (s.readOne aid iid g).2.entrySpec aid' iid' gout = s.entrySpec aid' iid' gout := by
  unfold Db.readOne
  by_cases h1 : aid = STANDALONE_AID
  · simp only [h1, if_true]
    have hv := valueSpec_eq_read s.main iid g
    have hk := fun iid' gout => (Accessory.valueSpec_read s.main iid iid' g gout).1
    rcases hr : s.main.read iid g with ⟨v, m⟩
    rw [hr] at hv hk
    simp only at hv hk
    have hstate : ∀ aid' iid' gout,
        Db.entrySpec { s with main := m } aid' iid' gout = s.entrySpec aid' iid' gout := by
      intro aid' iid' gout
      unfold Db.entrySpec
      by_cases h2 : aid' = STANDALONE_AID
      · simp only [h2, if_true, hk]
      · simp only [h2, if_false]
    cases v with
    | none => exact ⟨by simp [Db.entrySpec, ← hv, mkEntry], hstate⟩
    | some v => exact ⟨by simp [Db.entrySpec, ← hv, mkEntry], hstate⟩
  · simp only [h1, if_false]
    by_cases hb : (!s.isBridge) = true
    · simp only [hb, if_true]
      exact ⟨by simp [Db.entrySpec, h1, hb], by intros; first | rfl | trivial⟩
    · simp only [hb, if_false]
      cases hl : lookup aid s.bridged with
      | none => exact ⟨by simp [Db.entrySpec, h1, hb, hl], by intros; first | rfl | trivial⟩
      | some a =>
        simp only
        by_cases hav : (!a.available) = true
        · simp only [hav, if_true]
          exact ⟨by simp [Db.entrySpec, h1, hb, hl, hav], by intros; first | rfl | trivial⟩
        · simp only [hav, if_false]
          have hv := valueSpec_eq_read a iid g
          have hk := fun iid' gout => Accessory.valueSpec_read a iid iid' g gout
          rcases hr : a.read iid g with ⟨v, a'⟩
          rw [hr] at hv hk
          simp only at hv hk
          have hstate : ∀ aid' iid' gout,
              (s.setBridged aid a').entrySpec aid' iid' gout = s.entrySpec aid' iid' gout := by
            intro aid' iid' gout
            unfold Db.entrySpec
            by_cases h2 : aid' = STANDALONE_AID
            · simp only [h2, if_true]; rfl
            · simp only [h2, if_false]
              show (if (!s.isBridge) = true then _ else
                match lookup aid' (s.setBridged aid a').bridged with
                | none => none
                | some a => _) = _
              by_cases hb' : (!s.isBridge) = true
              · simp only [hb', if_true]
              · simp only [hb', if_false]
                simp only [Db.setBridged]
                rw [lookup_map_upd]
                by_cases h3 : aid' = aid
                · subst h3
                  simp only [if_true, hl, Option.map_some, (hk iid' gout).1, (hk iid' gout).2]
                · rw [if_neg h3]
                  rfl
          cases v with
          | none => exact ⟨by simp [Db.entrySpec, h1, hb, hl, hav, ← hv, mkEntry], hstate⟩
          | some v => exact ⟨by simp [Db.entrySpec, h1, hb, hl, hav, ← hv, mkEntry], hstate⟩

theorem Db.readSpec_congr (s s' : Db V P) (h : ∀ aid iid gout, s'.entrySpec aid iid gout = s.entrySpec aid iid gout)
    (g : Nat → Option V) (ids : List (Nat × Nat)) (k : Nat) : s'.readSpec g ids k = s.readSpec g ids k := by
  induction ids generalizing k with
  | nil => rfl
  | cons p rest ih =>
    obtain ⟨aid, iid⟩ := p
    simp only [Db.readSpec, h, ih]

/-- **`get_characteristics` meets the read specification**: the entries are exactly those the
    specification demands of the state in which the request arrived -/
theorem Db.getChars_spec (s : Db V P) (g : Nat → Option V) (ids : List (Nat × Nat)) (k : Nat) :
    (s.getChars g ids k).1 = s.readSpec g ids k := by
  induction ids generalizing s k with
  | nil => rfl
  | cons p rest ih =>
    obtain ⟨aid, iid⟩ := p
    simp only [Db.getChars, Db.readSpec]
    obtain ⟨r1, r2⟩ := Db.readOne_spec s aid iid (g k)
    rcases hr : s.readOne aid iid (g k) with ⟨e, s1⟩
    rw [hr] at r1 r2
    simp only at r1 r2
    have i1 := ih s1 (k + 1)
    rw [Db.readSpec_congr s s1 r2] at i1
    rcases hr2 : Db.getChars s1 g rest (k + 1) with ⟨es, s2⟩
    rw [hr2] at i1
    simp only at i1
    rw [← r1]
    cases e <;> simp [i1]

theorem Db.handleGet_spec (s : Db V P) (ids : List (Nat × Nat)) (g : Nat → Option V) :
    (s.handleGet ids g).1 = selectStatus (s.readSpec g ids 0) := by
  have := Db.getChars_spec s g ids 0
  unfold Db.handleGet
  rcases hr : s.getChars g ids 0 with ⟨es, s'⟩
  rw [hr] at this
  simp only at this
  simp only [this]

/-! ### skeleton-preserving operations keep the well-formedness invariant -/

/-- keys, aids, managers, object lists, bridge flag and allocation counter are the same -/
def SameSkel (s s' : Db V P) : Prop :=
  s'.assoc.map keySkel = s.assoc.map keySkel ∧ s'.isBridge = s.isBridge ∧ s'.nextObj = s.nextObj

theorem SameSkel.refl (s : Db V P) : SameSkel s s := ⟨rfl, rfl, rfl⟩

theorem SameSkel.trans {s1 s2 s3 : Db V P} (h12 : SameSkel s1 s2) (h23 : SameSkel s2 s3) : SameSkel s1 s3 :=
  ⟨h23.1.trans h12.1, h23.2.1.trans h12.2.1, h23.2.2.trans h12.2.2⟩

theorem SameSkel.good {s s' : Db V P} (h : SameSkel s s') (hs : s.Good) : s'.Good := by
  obtain ⟨h1, h2, h3⟩ := h
  obtain ⟨g1, g2⟩ := goodN_of_skel s.assoc s'.assoc s.nextObj h1 hs.accs hs.sep
  unfold Db.Good
  rw [h3]
  refine ⟨g1, g2, ?_⟩
  intro hb
  rw [h2] at hb
  have hnil := hs.plain hb
  simp only [Db.assoc, List.map_cons, List.cons.injEq] at h1
  have := h1.2
  rw [hnil] at this
  cases hbr : s'.bridged with
  | nil => rfl
  | cons _ _ => rw [hbr] at this; simp at this

theorem sameSkel_mapAccs (s : Db V P) (f : Accessory V P → Accessory V P) (hf : ∀ a, (f a).skel = a.skel) :
    SameSkel s (s.mapAccs f) := by
  refine ⟨?_, rfl, rfl⟩
  simp only [Db.assoc, Db.mapAccs, List.map_cons, List.map_map, keySkel, hf]
  congr 1
  apply List.map_congr_left
  intro ka _
  simp only [Function.comp, keySkel, hf]

theorem Accessory.skel_modChar (a : Accessory V P) (o : Nat) (f : Char V P → Char V P)
    (hf : ∀ c, (f c).obj = c.obj) : (a.modChar o f).skel = a.skel := by
  simp only [Accessory.skel, Accessory.objList_modChar a o f hf]
  rfl

theorem sameSkel_modChar (s : Db V P) (o : Nat) (f : Char V P → Char V P) (hf : ∀ c, (f c).obj = c.obj) :
    SameSkel s (s.modChar o f) :=
  sameSkel_mapAccs s _ (fun a => Accessory.skel_modChar a o f hf)

theorem sameSkel_modAcc (s : Db V P) (aid : Nat) (f : Accessory V P → Accessory V P)
    (hf : ∀ a, (f a).skel = a.skel) : SameSkel s (s.modAcc aid f) := by
  unfold Db.modAcc
  split
  · refine ⟨?_, rfl, rfl⟩
    simp only [Db.assoc, List.map_cons, keySkel, hf]
  · refine ⟨?_, rfl, rfl⟩
    simp only [Db.assoc, List.map_cons, List.map_map]
    congr 1
    apply List.map_congr_left
    intro ka _
    simp only [Function.comp]
    split
    · simp only [keySkel, hf]
    · rfl

theorem Accessory.skel_setPrimary (a : Accessory V P) (typ : String) : (a.setPrimary typ).skel = a.skel := by
  simp only [Accessory.skel, Accessory.setPrimary, Accessory.objList, List.flatMap_map]
  rfl

theorem Accessory.skel_addLinked (a : Accessory V P) (svc other : Nat) : (a.addLinked svc other).skel = a.skel := by
  have hf : ∀ sv : Service V P,
      Service.objList (if sv.obj = svc then
        if sv.linked.any (fun l => a.iidm.getIid l == a.iidm.getIid other) then sv
        else { sv with linked := sv.linked ++ [other] }
      else sv) = sv.objList := by
    intro sv
    split
    · split <;> rfl
    · rfl
  have : (a.addLinked svc other).objList = a.objList := by
    simp only [Accessory.addLinked, Accessory.objList, List.flatMap_map]
    congr 1
    funext sv
    exact hf sv
  simp only [Accessory.skel, this]
  rfl

theorem Accessory.skel_read (a : Accessory V P) (iid : Nat) (g : Option V) : (a.read iid g).2.skel = a.skel := by
  unfold Accessory.read
  split
  · rfl
  · split
    · rfl
    · exact Accessory.skel_modChar a _ _ (fun c => Char.getValue_obj c g)

theorem sameSkel_renderCached (s : Db V P) (incl : Bool) (g : Nat → Option V) :
    SameSkel s (s.renderCached incl g).2 := by
  have hm := Accessory.toHap_skel incl g s.main
  have hb := traverse_proj (fun ka : Nat × Accessory V P =>
        match Accessory.toHap Char.toHap incl g ka.2 with
        | (r, a) => (r, (ka.1, a))) keySkel s.bridged
    (fun ka _ => by simp only [keySkel]; rw [Accessory.toHap_skel])
  have shape : ∃ m b, (s.renderCached incl g).2 = { s with main := m, bridged := b } ∧
      m.skel = s.main.skel ∧ b.map keySkel = s.bridged.map keySkel := by
    simp only [Db.renderCached, Db.renderWith]
    rcases hf : Accessory.toHap Char.toHap incl g s.main with ⟨r, m⟩
    rw [hf] at hm
    cases r with
    | none => exact ⟨m, s.bridged, rfl, hm, rfl⟩
    | some r =>
      simp only
      rcases hft : traverse (fun ka : Nat × Accessory V P =>
          match Accessory.toHap Char.toHap incl g ka.2 with
          | (r, a) => (r, (ka.1, a))) s.bridged with ⟨rt, b⟩
      rw [hft] at hb
      cases rt <;> exact ⟨m, b, rfl, hm, hb⟩
  obtain ⟨m, b, e, em, eb⟩ := shape
  rw [e]
  exact ⟨by simp only [Db.assoc, List.map_cons, keySkel, em, eb], rfl, rfl⟩

theorem sameSkel_readOne (s : Db V P) (hs : s.Good) (aid iid : Nat) (g : Option V) :
    SameSkel s (s.readOne aid iid g).2 := by
  unfold Db.readOne
  split
  · have := Accessory.skel_read s.main iid g
    rcases hr : s.main.read iid g with ⟨v, m⟩
    rw [hr] at this
    cases v <;> exact ⟨by simp only [Db.assoc, List.map_cons, keySkel]; rw [this], rfl, rfl⟩
  · split
    · exact SameSkel.refl s
    · split
      · exact SameSkel.refl s
      · rename_i a hl
        split
        · exact SameSkel.refl s
        · have := Accessory.skel_read a iid g
          rcases hr : a.read iid g with ⟨v, a'⟩
          rw [hr] at this
          have hmem : (aid, a) ∈ s.bridged := lookup_mem' _ _ _ hl
          have key : SameSkel s (s.setBridged aid a') := by
            refine ⟨?_, rfl, rfl⟩
            simp only [Db.assoc, Db.setBridged, List.map_cons, List.map_map]
            congr 1
            apply List.map_congr_left
            intro kb hkb
            simp only [Function.comp]
            split
            · rename_i hk
              have : kb = (aid, a) := key_unique (List.pairwise_cons.mp hs.sep).2 hkb hmem hk
              subst this
              simp only [keySkel]
              rw [‹a'.skel = a.skel›]
            · rfl
          cases v <;> exact key

theorem sameSkel_getChars (s : Db V P) (hs : s.Good) (g : Nat → Option V) (ids : List (Nat × Nat)) (k : Nat) :
    SameSkel s (s.getChars g ids k).2 := by
  induction ids generalizing s k with
  | nil => exact SameSkel.refl s
  | cons p rest ih =>
    obtain ⟨aid, iid⟩ := p
    simp only [Db.getChars]
    have h1 := sameSkel_readOne s hs aid iid (g k)
    rcases hr : s.readOne aid iid (g k) with ⟨e, s1⟩
    rw [hr] at h1
    have h2 := ih s1 (h1.good hs) (k + 1)
    rcases hr2 : Db.getChars s1 g rest (k + 1) with ⟨es, s2⟩
    rw [hr2] at h2
    exact h1.trans h2

/-- every mutation and every read leaves keys, aids, managers and object lists alone -/
theorem sameSkel_step11 (s : Db V P) (hs : s.Good) (op : Op11 V P) : SameSkel s (s.step11 op).1 := by
  cases op with
  | setValue o vres => exact sameSkel_modChar s o _ (fun c => Char.obj_setValue c vres)
  | assignValue o v => exact sameSkel_modChar s o _ (fun c => Char.obj_setVal c v)
  | clientUpdate o vres cb => exact sameSkel_modChar s o _ (fun c => Char.obj_clientUpdate c vres cb)
  | overrideProps o ov => exact sameSkel_modChar s o _ (fun c => Char.obj_overrideProps c ov)
  | setDisplay o n => exact sameSkel_modChar s o _ (fun c => Char.obj_setDisplay c n)
  | setGetter o b => exact sameSkel_modChar s o _ (fun c => Char.obj_setGetter c b)
  | setAvailable aid b => exact sameSkel_modAcc s aid _ (fun _ => rfl)
  | setPrimary aid typ => exact sameSkel_modAcc s aid _ (fun a => Accessory.skel_setPrimary a typ)
  | addLinked aid svc other => exact sameSkel_modAcc s aid _ (fun a => Accessory.skel_addLinked a svc other)
  | readAll incl g =>
    have := sameSkel_renderCached s incl g
    simp only [Db.step11]
    rcases hr : s.renderCached incl g with ⟨r, s'⟩
    rw [hr] at this
    exact this
  | readChars ids g =>
    have := sameSkel_getChars s hs g ids 0
    simp only [Db.step11, Db.handleGet]
    rcases hr : s.getChars g ids 0 with ⟨es, s'⟩
    rw [hr] at this
    exact this

/-! ### unified histories -/

theorem stepU_inv (s : Db V P) (op : OpU V P) (hs : s.Good) (hc : s.CacheOk) :
    (s.stepU op).1.Good ∧ (s.stepU op).1.CacheOk := by
  cases op with
  | con op =>
    have h1 := step_good s op hs
    have h2 := step_cacheOk s op hs hc
    simp only [Db.stepU]
    rcases hr : s.step op with ⟨s', r⟩
    rw [hr] at h1 h2
    exact ⟨h1, h2⟩
  | db op =>
    have h1 := (sameSkel_step11 s hs op).good hs
    have h2 := Db.step11_cacheOk s op hc
    simp only [Db.stepU]
    rcases hr : s.step11 op with ⟨s', o⟩
    rw [hr] at h1 h2
    exact ⟨h1, h2⟩

theorem runU_inv (s : Db V P) (ops : List (OpU V P)) (hs : s.Good) (hc : s.CacheOk) :
    (s.runU ops).Good ∧ (s.runU ops).CacheOk := by
  induction ops generalizing s with
  | nil => exact ⟨hs, hc⟩
  | cons op rest ih =>
    obtain ⟨h1, h2⟩ := stepU_inv s op hs hc
    exact ih _ h1 h2

end Hap.Db
