/-
  Lemmas about `HapModel/Dispatch.lean` (guards, refusals, totality of the repaired dispatch).
-/
import HapModel.Dispatch
namespace Hap.Http

variable {σ : Type}

/-- Every route of the table is exempt or carries a recognised privilege guard. -/
def TableGuarded (routes : List Route) : Prop :=
  ∀ r ∈ routes, r.exempt = true ∨ r.guard ≠ .none

theorem lookup_mem {routes : List Route} {c p : Bytes} {r : Route} (h : lookup routes c p = some r) :
    r ∈ routes := by
  unfold lookup at h
  exact List.mem_of_find?_eq_some h

theorem resolve_mem {routes : List Route} {P : Params σ} {req : Option Req} {body : Bytes}
    {r : Route} {ctx : ReqCtx} (h : resolve routes P req body = .ok (r, ctx)) : r ∈ routes := by
  unfold resolve at h
  split at h
  · cases h
  · split at h
    · cases h
    · split at h
      · cases h
      · split at h
        · cases h
        · rename_i hl
          cases h
          exact lookup_mem hl

/-- What the `except` clauses produce is never a 2xx answer. -/
theorem finishResp_exn_status (resp : Resp) (e : Exn) :
    (finishResp resp (some e)).status = 401 ∨ (finishResp resp (some e)).status = 500 := by
  cases e <;> simp [finishResp, withStatus]

theorem finishResp_flags (resp : Resp) (e : Option Exn) :
    (finishResp resp e).task = resp.task ∧ (finishResp resp e).sharedKey = resp.sharedKey ∧
    (finishResp resp e).pairingChanged = resp.pairingChanged := by
  cases e with
  | none => simp [finishResp]
  | some e => cases e <;> simp [finishResp, withStatus]

theorem refusal_of_exn_default (e : Exn) : (finishResp {} (some e)).refusal = true := by
  cases e <;> simp [finishResp, withStatus, Resp.refusal]

/-- On an unverified connection every guard other than `none` refuses, with a refusal response
    that does not depend on the world's state. -/
theorem guard_refuses (P : Params σ) (g : Guard) (w : World σ) (hg : g ≠ .none)
    (hv : w.verified = false) :
    ∃ resp e, guardRefusal P g w = some (resp, e) ∧ (finishResp resp e).refusal = true := by
  cases g with
  | none => exact absurd rfl hg
  | raiseUnpriv =>
    refine ⟨{}, some .unprivileged, ?_, ?_⟩
    · simp [guardRefusal, hv]
    · simp [finishResp, withStatus, Resp.refusal]
  | send401 =>
    refine ⟨{ status := 401 }, none, ?_, ?_⟩
    · simp [guardRefusal, hv]
    · simp [finishResp, Resp.refusal]
  | adminAuthErr a seq =>
    by_cases h : (a && w.clientUuid.isNone) = true
    · refine ⟨{}, some .assertion, ?_, ?_⟩
      · simp [guardRefusal, h]
      · simp [finishResp, withStatus, Resp.refusal]
    · refine ⟨authErrResp seq, none, ?_, ?_⟩
      · simp [guardRefusal, h, hv]
      · simp [finishResp, authErrResp, authErrTlv, Resp.refusal, isAuthErrTlv]

/-- The refusal of a guard is a function of the guard and of "is a controller id set" only. -/
theorem guardRefusal_unverified_indep (P : Params σ) (P' : Params σ') (g : Guard)
    (w : World σ) (w' : World σ') (hv : w.verified = false) (hv' : w'.verified = false)
    (hu : w.clientUuid.isNone = w'.clientUuid.isNone) (hg : g ≠ .none) :
    guardRefusal P g w = guardRefusal P' g w' := by
  cases g with
  | none => exact absurd rfl hg
  | raiseUnpriv => simp [guardRefusal, hv, hv']
  | send401 => simp [guardRefusal, hv, hv']
  | adminAuthErr a seq => simp [guardRefusal, hv, hv', hu]

/-- Core of C03: a request that resolves to a guarded route (or fails to resolve) on an unverified
    connection leaves the whole world untouched and is answered with a refusal. -/
theorem dispatch_unverified (routes : List Route) (P : Params σ) (w : World σ) (req : Option Req)
    (body : Bytes) (hv : w.verified = false)
    (hne : ∀ r ctx, resolve routes P req body = .ok (r, ctx) → r.guard ≠ .none) :
    (dispatch routes P w req body).1 = w ∧ (dispatch routes P w req body).2.refusal = true := by
  unfold dispatch protectedRegion
  cases hres : resolve routes P req body with
  | error e => exact ⟨rfl, refusal_of_exn_default e⟩
  | ok rc =>
    obtain ⟨r, ctx⟩ := rc
    obtain ⟨resp, e, hg, href⟩ := guard_refuses P r.guard w (hne r ctx hres) hv
    simp [runHandler, hg, href]

/-- The flag can only change through a route whose handler contains an assignment to it. -/
theorem dispatch_verified_change (routes : List Route) (P : Params σ) (w : World σ)
    (req : Option Req) (body : Bytes)
    (h : (dispatch routes P w req body).1.verified ≠ w.verified) :
    ∃ r ctx, resolve routes P req body = .ok (r, ctx) ∧ r.setsVerified = true ∧
      guardRefusal P r.guard w = none := by
  unfold dispatch protectedRegion at h
  cases hres : resolve routes P req body with
  | error e => simp [hres] at h
  | ok rc =>
    obtain ⟨r, ctx⟩ := rc
    refine ⟨r, ctx, rfl, ?_⟩
    simp only [hres, runHandler] at h
    cases hg : guardRefusal P r.guard w with
    | some x => simp [hg] at h
    | none =>
      simp only [hg] at h
      cases hs : r.setsVerified with
      | true => exact ⟨rfl, rfl⟩
      | false => simp [hs] at h

/-- Does the request resolve to one of the two exempt routes? (independent of the world) -/
def hitsExempt (routes : List Route) (P : Params σ) (x : Option Req × Bytes) : Bool :=
  match resolve routes P x.1 x.2 with
  | .ok (r, _) => r.exempt
  | .error _ => false

/-- The connection is unverified before every request of the sequence (and after the last). -/
def StaysUnverified (routes : List Route) (P : Params σ) : World σ → List (Option Req × Bytes) → Prop
  | w, [] => w.verified = false
  | w, x :: rest => w.verified = false ∧ StaysUnverified routes P (dispatch routes P w x.1 x.2).1 rest

theorem nonexempt_guarded {routes : List Route} (ht : TableGuarded routes) {P : Params σ}
    {x : Option Req × Bytes} (hx : hitsExempt routes P x = false) :
    ∀ r ctx, resolve routes P x.1 x.2 = .ok (r, ctx) → r.guard ≠ .none := by
  intro r ctx hres
  have hm := resolve_mem hres
  unfold hitsExempt at hx
  simp only [hres] at hx
  cases ht r hm with
  | inl h => simp [h] at hx
  | inr h => exact h

/-- Over a whole history short of a completed verify, the non-exempt requests are no-ops on the
    world: the final world is the one reached by the exempt requests alone. -/
theorem runReqs_filter (routes : List Route) (ht : TableGuarded routes) (P : Params σ) :
    ∀ (reqs : List (Option Req × Bytes)) (w : World σ), StaysUnverified routes P w reqs →
      (runReqs routes P w reqs).1 = (runReqs routes P w (reqs.filter (hitsExempt routes P))).1
  | [], _, _ => rfl
  | x :: rest, w, h => by
    obtain ⟨hv, hrest⟩ := h
    cases hx : hitsExempt routes P x with
    | true =>
      simp only [List.filter_cons, hx, if_true, runReqs]
      exact runReqs_filter routes ht P rest _ hrest
    | false =>
      have hd := (dispatch_unverified routes P w x.1 x.2 hv (nonexempt_guarded ht hx)).1
      simp only [List.filter_cons, hx, runReqs]
      rw [hd] at hrest ⊢
      simpa using runReqs_filter routes ht P rest w hrest

/-- … and every one of them is answered with a refusal. -/
theorem runReqs_refusals (routes : List Route) (ht : TableGuarded routes) (P : Params σ) :
    ∀ (reqs : List (Option Req × Bytes)) (w : World σ), StaysUnverified routes P w reqs →
      ∀ p ∈ List.zip reqs (runReqs routes P w reqs).2,
        hitsExempt routes P p.1 = false → p.2.refusal = true
  | [], _, _ => by simp [runReqs]
  | x :: rest, w, h => by
    obtain ⟨hv, hrest⟩ := h
    intro p hp hx
    simp only [runReqs, List.zip_cons_cons, List.mem_cons] at hp
    cases hp with
    | inl h0 =>
      subst h0
      exact (dispatch_unverified routes P w x.1 x.2 hv (nonexempt_guarded ht hx)).2
    | inr h1 => exact runReqs_refusals routes ht P rest _ hrest p h1 hx

/-- The repaired dispatch and the legacy one agree whenever the legacy one returns. -/
theorem dispatchLegacy_ok (routes : List Route) (P : Params σ) (w : World σ) (req : Option Req)
    (body : Bytes) (x : World σ × Resp) (h : dispatchLegacy routes P w req body = .ok x) :
    dispatch routes P w req body = x := by
  unfold dispatchLegacy at h
  unfold dispatch protectedRegion resolve
  split at h
  · cases h
  · split at h
    · cases h
    · rename_i hd
      split at h
      · cases h
      · rename_i hu
        split at h
        · rename_i hl
          cases h
          simp
        · rename_i hl
          split at h
          rename_i hr
          cases h
          simp [hr]

/-- The request fails before any handler body is entered: undecodable, `urlparse` raised, unknown
    route, or refused by the handler's guard. -/
def FailsEarly (routes : List Route) (P : Params σ) (w : World σ) (req : Option Req) (body : Bytes) : Prop :=
  match resolve routes P req body with
  | .error _ => True
  | .ok (r, _) => (guardRefusal P r.guard w).isSome = true

/-- Such a request changes nothing in the world and is answered by a response object built from
    constants only (no deferred task, no session key, no advertisement refresh). -/
theorem dispatch_fails_early (routes : List Route) (P : Params σ) (w : World σ) (req : Option Req)
    (body : Bytes) (h : FailsEarly routes P w req body) :
    (dispatch routes P w req body).1 = w := by
  unfold FailsEarly at h
  unfold dispatch protectedRegion
  cases hres : resolve routes P req body with
  | error e => rfl
  | ok rc =>
    obtain ⟨r, ctx⟩ := rc
    simp only [hres] at h
    cases hg : guardRefusal P r.guard w with
    | none => simp [hg] at h
    | some x => simp [runHandler, hg]

/-- The repaired dispatch always returns a response: totality is by construction (it is a total
    function into `World σ × Resp`); this lemma records the status it produces on early failures. -/
theorem dispatch_resolve_error (routes : List Route) (P : Params σ) (w : World σ) (req : Option Req)
    (body : Bytes) (e : Exn) (h : resolve routes P req body = .error e) :
    dispatch routes P w req body = (w, finishResp {} (some e)) := by
  unfold dispatch protectedRegion
  simp [h]

theorem guardRefusal_inert (P : Params σ) (g : Guard) (w : World σ) (resp : Resp) (e : Option Exn)
    (h : guardRefusal P g w = some (resp, e)) :
    resp.pairingRemoved = false ∧ resp.task = false ∧ resp.sharedKey = false ∧ resp.pairingChanged = false := by
  cases g with
  | none => simp [guardRefusal] at h
  | raiseUnpriv =>
    simp only [guardRefusal] at h
    split at h
    · cases h
    · cases h; simp
  | send401 =>
    simp only [guardRefusal] at h
    split at h
    · cases h
    · cases h; simp
  | adminAuthErr a seq =>
    simp only [guardRefusal] at h
    split at h
    · cases h; simp
    · split at h
      · cases h; simp [authErrResp]
      · cases h

theorem finishResp_removed (resp : Resp) (e : Option Exn) :
    (finishResp resp e).pairingRemoved = resp.pairingRemoved := by
  cases e with
  | none => rfl
  | some e => cases e <;> rfl

theorem dispatch_fails_early_inert (routes : List Route) (P : Params σ) (w : World σ) (req : Option Req)
    (body : Bytes) (h : FailsEarly routes P w req body) :
    (dispatch routes P w req body).2.pairingRemoved = false ∧ (dispatch routes P w req body).2.task = false ∧
    (dispatch routes P w req body).2.sharedKey = false ∧ (dispatch routes P w req body).2.pairingChanged = false := by
  unfold FailsEarly at h
  unfold dispatch protectedRegion
  cases hres : resolve routes P req body with
  | error e =>
    simp only []
    have := finishResp_flags {} (some e)
    have h2 := finishResp_removed {} (some e)
    simp_all
  | ok rc =>
    obtain ⟨r, ctx⟩ := rc
    simp only [hres] at h
    cases hg : guardRefusal P r.guard w with
    | none => simp [hg] at h
    | some x =>
      obtain ⟨resp, e⟩ := x
      have hi := guardRefusal_inert P r.guard w resp e hg
      have hf := finishResp_flags resp e
      have h2 := finishResp_removed resp e
      simp only [runHandler, hg]
      simp_all

end Hap.Http
