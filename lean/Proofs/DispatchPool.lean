/- Lemmas about several connections on one accessory (HapModel/DispatchPool.lean). -/
import HapModel.DispatchPool
import Proofs.Dispatch
namespace Hap.Http

variable {σ : Type}

/-- A request on another connection never RAISES this connection's flag. -/
theorem stepConn_frame (routes : List Route) (P : Params σ) (lower : σ → Nat → Bool) (p : Pool σ)
    (i j : Nat) (req : Option Req) (body : Bytes) (hij : j ≠ i)
    (h : (stepConn routes P lower p i req body).1.verified j = true) : p.verified j = true := by
  unfold stepConn at h
  split at h
  rename_i w' r _
  by_cases hr : r.pairingRemoved = true
  · simp [hr, hij] at h
    exact h.1
  · simp [hr, hij] at h
    exact h

theorem failsEarly_of_unverified (routes : List Route) (ht : TableGuarded routes) (P : Params σ)
    (w : World σ) (req : Option Req) (body : Bytes) (hv : w.verified = false)
    (hx : hitsExempt routes P (req, body) = false) : FailsEarly routes P w req body := by
  unfold FailsEarly
  cases hres : resolve routes P req body with
  | error e => trivial
  | ok rc =>
    obtain ⟨r, ctx⟩ := rc
    obtain ⟨resp, e, hg, _⟩ := guard_refuses P r.guard w (nonexempt_guarded ht hx r ctx hres) hv
    simp [hg]

/-- A non-exempt request on an unverified connection of the pool changes nothing in the pool —
    not the shared state, not its own fields, not any other connection's — and is refused. -/
theorem stepConn_unverified (routes : List Route) (ht : TableGuarded routes) (P : Params σ)
    (lower : σ → Nat → Bool) (p : Pool σ) (i : Nat) (req : Option Req) (body : Bytes)
    (hv : p.verified i = false) (hx : hitsExempt routes P (req, body) = false) :
    (stepConn routes P lower p i req body).1 = p ∧
    (stepConn routes P lower p i req body).2.refusal = true := by
  have hv' : (p.view i).verified = false := hv
  have h1 := dispatch_unverified routes P (p.view i) req body hv' (nonexempt_guarded ht hx)
  have h2 := dispatch_fails_early_inert routes P (p.view i) req body
    (failsEarly_of_unverified routes ht P (p.view i) req body hv' hx)
  unfold stepConn
  revert h1 h2
  generalize dispatch routes P (p.view i) req body = x
  obtain ⟨w', r⟩ := x
  intro h1 h2
  obtain ⟨hw, hr⟩ := h1
  simp only [] at hw hr h2
  subst hw
  simp only [h2.1]
  refine ⟨?_, hr⟩
  cases p with
  | mk st verified uuid =>
    simp only [Pool.view, Bool.false_eq_true, if_false]
    congr
    · funext j; by_cases h : j = i <;> simp [h]
    · funext j; by_cases h : j = i <;> simp [h]

/-- Whatever the other connections do (pairing administration included), a connection that only
    sends non-exempt requests stays unverified and every one of its requests is refused. -/
theorem runPool_stays_unverified (routes : List Route) (ht : TableGuarded routes) (P : Params σ)
    (lower : σ → Nat → Bool) (j : Nat) :
    ∀ (steps : List (Nat × Option Req × Bytes)) (p : Pool σ), p.verified j = false →
      (∀ s ∈ steps, s.1 = j → hitsExempt routes P s.2 = false) →
      (runPool routes P lower p steps).1.verified j = false ∧
      ∀ x ∈ (runPool routes P lower p steps).2, x.1 = j → x.2.refusal = true
  | [], p, hv, _ => ⟨hv, by simp [runPool]⟩
  | (i, rq, b) :: rest, p, hv, hs => by
    simp only [runPool]
    have hrest : ∀ s ∈ rest, s.1 = j → hitsExempt routes P s.2 = false :=
      fun s hm => hs s (List.mem_cons_of_mem _ hm)
    by_cases hij : i = j
    · subst hij
      have hx := hs (i, rq, b) (by simp) rfl
      obtain ⟨hp, href⟩ := stepConn_unverified routes ht P lower p i rq b hv hx
      have ih := runPool_stays_unverified routes ht P lower i rest (stepConn routes P lower p i rq b).1
        (by rw [hp]; exact hv) hrest
      refine ⟨ih.1, ?_⟩
      intro x hm hxj
      simp only [List.mem_cons] at hm
      cases hm with
      | inl h => subst h; exact href
      | inr h => exact ih.2 x h hxj
    · have hv1 : (stepConn routes P lower p i rq b).1.verified j = false := by
        cases hc : (stepConn routes P lower p i rq b).1.verified j with
        | false => rfl
        | true =>
          have := stepConn_frame routes P lower p i j rq b (fun h => hij h.symm) hc
          rw [hv] at this; cases this
      have ih := runPool_stays_unverified routes ht P lower j rest (stepConn routes P lower p i rq b).1 hv1 hrest
      refine ⟨ih.1, ?_⟩
      intro x hm hxj
      simp only [List.mem_cons] at hm
      cases hm with
      | inl h => subst h; exact absurd hxj hij
      | inr h => exact ih.2 x h hxj

/-- At every point of an interleaved history: a request that is not for an exempt route, on a
    connection that is unverified AT THAT POINT (whatever it did before: pair-setup attempts, a
    failed pair-verify, verify step 1), is a refused no-op on the whole pool. -/
def PoolAlways (routes : List Route) (P : Params σ) (lower : σ → Nat → Bool) :
    Pool σ → List (Nat × Option Req × Bytes) → Prop
  | _, [] => True
  | p, (i, rq, b) :: rest =>
    (p.verified i = false → hitsExempt routes P (rq, b) = false →
      (stepConn routes P lower p i rq b).1 = p ∧ (stepConn routes P lower p i rq b).2.refusal = true) ∧
    PoolAlways routes P lower (stepConn routes P lower p i rq b).1 rest

theorem poolAlways (routes : List Route) (ht : TableGuarded routes) (P : Params σ) (lower : σ → Nat → Bool) :
    ∀ (steps : List (Nat × Option Req × Bytes)) (p : Pool σ), PoolAlways routes P lower p steps
  | [], _ => trivial
  | (i, rq, b) :: rest, p =>
    ⟨fun hv hx => stepConn_unverified routes ht P lower p i rq b hv hx,
     poolAlways routes ht P lower rest _⟩

end Hap.Http
