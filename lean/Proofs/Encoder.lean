/- Lemmas for the Encoder model: hex and UUID text round trips, dict comprehensions over lists with
   distinct keys, the persist/load round trip. -/
import Proofs.PairState
import HapModel.Encoder
namespace Hap.Encoder
open Hap Hap.PairState

/-! ### `bytes.hex` / `bytes.fromhex` -/

theorem hexVal_hexDigit : ∀ n, n < 16 → hexVal (hexDigit n) = some n := by decide

theorem ofHexAux_toHex (b : Bytes) :
    ofHexAux (b.flatMap fun x => [hexDigit (x.toNat / 16), hexDigit (x.toNat % 16)]) = some b := by
  induction b with
  | nil => rfl
  | cons x r ih =>
    have h1 : x.toNat / 16 < 16 := by have := x.toNat_lt; omega
    have h2 : x.toNat % 16 < 16 := Nat.mod_lt _ (by decide)
    have h3 : UInt8.ofNat (x.toNat / 16 * 16 + x.toNat % 16) = x := by
      rw [Nat.div_add_mod']; simp
    simp [ofHexAux, hexVal_hexDigit _ h1, hexVal_hexDigit _ h2, ih]
    simpa using h3

theorem ofHex_toHex (b : Bytes) : ofHex (toHex b) = some b := by
  simp [ofHex, toHex, ofHexAux_toHex]

/-! ### `str(UUID)` / `UUID(str)` -/

theorem nibbles_length (w n : Nat) : (nibbles w n).length = w := by
  induction w generalizing n with
  | zero => rfl
  | succ w ih => simp [nibbles, ih]

theorem nibbles_lt (w n : Nat) : ∀ d ∈ nibbles w n, d < 16 := by
  induction w generalizing n with
  | zero => simp [nibbles]
  | succ w ih =>
    intro d hd
    simp only [nibbles, List.mem_append, List.mem_singleton] at hd
    rcases hd with hd | rfl
    · exact ih _ d hd
    · exact Nat.mod_lt _ (by decide)

def hexStep (acc : Option Nat) (c : Char) : Option Nat :=
  match acc, hexVal c with
  | some a, some d => some (a * 16 + d)
  | _, _ => none

theorem parseHexL_eq (s : List Char) : parseHexL s = s.foldl hexStep (some 0) := rfl

theorem parse_nibbles (w n : Nat) :
    ((nibbles w n).map hexDigit).foldl hexStep (some 0) = some (n % 16 ^ w) := by
  induction w generalizing n with
  | zero => simp [nibbles, Nat.mod_one]
  | succ w ih =>
    simp only [nibbles, List.map_append, List.foldl_append, ih, List.map_cons, List.map_nil,
      List.foldl_cons, List.foldl_nil]
    have h2 : n % 16 < 16 := Nat.mod_lt _ (by decide)
    simp only [hexStep, hexVal_hexDigit _ h2]
    congr 1
    rw [Nat.pow_succ, Nat.mul_comm (16 ^ w) 16, Nat.mod_mul]
    omega

/-- characters `str(UUID)` is made of -/
def Clean (s : List Char) : Prop := ∀ c ∈ s, (∃ n, n < 16 ∧ c = hexDigit n) ∨ c = '-'

theorem hexDigit_facts : ∀ n, n < 16 →
    hexDigit n ≠ '-' ∧ hexDigit n ≠ 'u' ∧ hexDigit n ≠ '{' ∧ hexDigit n ≠ '}' := by decide

theorem clean_hex32 (n : Nat) : ∀ c ∈ hex32 n, ∃ d, d < 16 ∧ c = hexDigit d := by
  intro c hc
  simp only [hex32, List.mem_map] at hc
  obtain ⟨d, hd, rfl⟩ := hc
  exact ⟨d, nibbles_lt 32 n d hd, rfl⟩

theorem clean_hyphenate (h : List Char) (hh : ∀ c ∈ h, ∃ d, d < 16 ∧ c = hexDigit d) :
    Clean (hyphenate h) := by
  intro c hc
  simp only [hyphenate, List.mem_append, List.mem_cons, or_assoc] at hc
  rcases hc with hc | rfl | hc | rfl | hc | rfl | hc | rfl | hc
  · exact Or.inl (hh c (List.mem_of_mem_take hc))
  · exact Or.inr rfl
  · exact Or.inl (hh c (List.mem_of_mem_drop (List.mem_of_mem_take hc)))
  · exact Or.inr rfl
  · exact Or.inl (hh c (List.mem_of_mem_drop (List.mem_of_mem_take hc)))
  · exact Or.inr rfl
  · exact Or.inl (hh c (List.mem_of_mem_drop (List.mem_of_mem_take hc)))
  · exact Or.inr rfl
  · exact Or.inl (hh c (List.mem_of_mem_drop hc))

theorem removeAll_of_not_mem (p : Char) (ps s : List Char) (h : p ∉ s) : removeAll (p :: ps) s = s := by
  induction s with
  | nil => rw [removeAll]
  | cons c cs ih =>
    have hc : p ≠ c := fun e => h (by simp [e])
    have hcs : p ∉ cs := fun e => h (by simp [e])
    rw [removeAll]
    simp [List.isPrefixOf, hc, ih hcs]

theorem dropWhile_of_none (p : Char → Bool) (s : List Char) (h : ∀ c ∈ s, p c = false) :
    s.dropWhile p = s := by
  cases s with
  | nil => rfl
  | cons c t => simp [List.dropWhile, h c (by simp)]

theorem stripSet_of_none (set s : List Char) (h : ∀ c ∈ s, c ∉ set) : stripSet set s = s := by
  unfold stripSet
  rw [dropWhile_of_none _ s (by intro c hc; simpa using h c hc)]
  rw [dropWhile_of_none _ s.reverse (by intro c hc; simpa using h c (List.mem_reverse.mp hc))]
  simp

theorem pieces (h : List Char) :
    h.take 8 ++ ((h.drop 8).take 4 ++ ((h.drop 12).take 4 ++ ((h.drop 16).take 4 ++ h.drop 20))) = h := by
  have e1 : h.drop 20 = (h.drop 16).drop 4 := by simp [List.drop_drop]
  have e2 : h.drop 16 = (h.drop 12).drop 4 := by simp [List.drop_drop]
  have e3 : h.drop 12 = (h.drop 8).drop 4 := by simp [List.drop_drop]
  rw [e1, List.take_append_drop, e2, List.take_append_drop, e3, List.take_append_drop,
    List.take_append_drop]

theorem filter_hyphenate (h : List Char) (hh : ∀ c ∈ h, ∃ d, d < 16 ∧ c = hexDigit d) :
    (hyphenate h).filter (· ≠ '-') = h := by
  have keep : ∀ l : List Char, (∀ c ∈ l, c ∈ h) → l.filter (· ≠ '-') = l := by
    intro l hl
    rw [List.filter_eq_self]
    intro c hc
    obtain ⟨d, hd, rfl⟩ := hh c (hl c hc)
    simpa using (hexDigit_facts d hd).1
  simp only [hyphenate, List.filter_append, List.filter_cons]
  rw [keep _ (fun c hc => List.mem_of_mem_take hc),
    keep _ (fun c hc => List.mem_of_mem_drop (List.mem_of_mem_take hc)),
    keep _ (fun c hc => List.mem_of_mem_drop (List.mem_of_mem_take hc)),
    keep _ (fun c hc => List.mem_of_mem_drop (List.mem_of_mem_take hc)),
    keep _ (fun c hc => List.mem_of_mem_drop hc)]
  simpa using pieces h

theorem pow_eq : (16 : Nat) ^ 32 = UMAX := by decide

theorem uuidOfStrL_strOfUuidL (u : Uuid) : uuidOfStrL (strOfUuidL u) = some u := by
  have hh := clean_hex32 u.val
  have hc : Clean (strOfUuidL u) := clean_hyphenate _ hh
  have hu : 'u' ∉ strOfUuidL u := by
    intro hm
    rcases hc _ hm with ⟨d, hd, e⟩ | e
    · exact (hexDigit_facts d hd).2.1 e.symm
    · exact absurd e (by decide)
  have hb : ∀ c ∈ strOfUuidL u, c ∉ ['{', '}'] := by
    intro c hm
    rcases hc _ hm with ⟨d, hd, rfl⟩ | rfl
    · have := hexDigit_facts d hd
      simp [this.2.2.1, this.2.2.2]
    · decide
  unfold uuidOfStrL
  have r1 : removeAll "urn:".toList (strOfUuidL u) = strOfUuidL u := removeAll_of_not_mem 'u' _ _ hu
  have r2 : removeAll "uuid:".toList (strOfUuidL u) = strOfUuidL u := removeAll_of_not_mem 'u' _ _ hu
  simp only [r1, r2, stripSet_of_none _ _ hb]
  have r3 : (strOfUuidL u).filter (· ≠ '-') = hex32 u.val := filter_hyphenate _ hh
  rw [r3]
  have hl : (hex32 u.val).length = 32 := by simp [hex32, nibbles_length]
  have hp : parseHexL (hex32 u.val) = some u.val := by
    rw [parseHexL_eq, hex32, parse_nibbles, pow_eq, Nat.mod_eq_of_lt u.isLt]
  simp [hl, hp, u.isLt]

theorem uuidOfStr_strOfUuid (u : Uuid) : uuidOfStr (strOfUuid u) = some u := by
  simp [uuidOfStr, strOfUuid, uuidOfStrL_strOfUuidL]

theorem strOfUuid_injective (u v : Uuid) (h : strOfUuid u = strOfUuid v) : u = v := by
  have := uuidOfStr_strOfUuid u
  rw [h, uuidOfStr_strOfUuid] at this
  exact (Option.some.inj this).symm

/-! ### dict comprehensions over lists with distinct keys -/

section Dict
variable {K V : Type} [DecidableEq K]

theorem aset_of_not_mem (l : List (K × V)) (k : K) (v : V) (h : k ∉ akeys l) :
    aset l k v = l ++ [(k, v)] := by
  induction l with
  | nil => rfl
  | cons x r ih =>
    obtain ⟨k', v'⟩ := x
    have h1 : k' ≠ k := fun e => h (by simp [akeys, e])
    have h2 : k ∉ akeys r := fun e => h (by simp only [akeys, List.map_cons, List.mem_cons]; exact Or.inr e)
    simp [aset, h1, ih h2]

theorem foldl_aset_nodup (l acc : List (K × V)) (h : (akeys (acc ++ l)).Nodup) :
    l.foldl (fun acc e => aset acc e.1 e.2) acc = acc ++ l := by
  induction l generalizing acc with
  | nil => simp
  | cons e r ih =>
    have hk : e.1 ∉ akeys acc := by
      intro hm
      simp only [akeys, List.map_append, List.map_cons, List.nodup_append] at h
      exact h.2.2 _ hm e.1 (by simp) rfl
    simp only [List.foldl_cons]
    rw [aset_of_not_mem _ _ _ hk, ih _ (by simpa using h)]
    simp

theorem dictOf_nodup (l : List (K × V)) (h : (akeys l).Nodup) : dictOf l = l := by
  simpa [dictOf] using foldl_aset_nodup l [] (by simpa using h)

end Dict

theorem nodup_map_str (l : List Uuid) (h : l.Nodup) : (l.map strOfUuid).Nodup :=
  List.Pairwise.map strOfUuid (fun a b hab e => hab (strOfUuid_injective a b e)) h

theorem dictOf_map_str {V W : Type} (g : Uuid × V → W) (l : List (Uuid × V)) (h : (akeys l).Nodup) :
    dictOf (l.map fun e => (strOfUuid e.1, g e)) = l.map fun e => (strOfUuid e.1, g e) := by
  apply dictOf_nodup
  have : akeys (l.map fun e => (strOfUuid e.1, g e)) = (akeys l).map strOfUuid := by
    simp [akeys, List.map_map, Function.comp_def]
  rw [this]; exact nodup_map_str _ h

theorem optMap_map {α β : Type} (f : β → Option α) (g : α → β) (l : List α)
    (h : ∀ a ∈ l, f (g a) = some a) : optMap f (l.map g) = some l := by
  induction l with
  | nil => rfl
  | cons a r ih =>
    simp only [List.map_cons, optMap, h a (by simp), ih (fun x hx => h x (by simp [hx]))]

/-! ### the round trip -/

/-- representation invariant of a real `State`: dict keys are unique; the two Ed25519 keys are
    32 raw bytes -/
structure WF (a : AccState) : Prop where
  paired : (akeys a.ps.paired).Nodup
  props : (akeys a.ps.props).Nodup
  u2b : (akeys a.ps.u2b).Nodup
  priv : a.privateKey.length = 32
  pub : a.publicKey.length = 32

theorem keyOfHex_toHex (b : Bytes) (h : b.length = 32) : keyOfHex (toHex b) = some b := by
  simp [keyOfHex, ofHex_toHex, h]

theorem load_persist (a : AccState) (h : WF a) : load (persist a) = some a := by
  obtain ⟨mac, cv, ah, priv, pub, ⟨paired, props, u2b⟩⟩ := a
  obtain ⟨h1, h2, h3, h4, h5⟩ := h
  simp only at h1 h2 h3 h4 h5
  have e1 := dictOf_map_str (fun e : Uuid × Bytes => toHex e.2) paired h1
  have e2 := dictOf_map_str (fun e : Uuid × Nat => e.2) props h2
  have e3 := dictOf_map_str (fun e : Uuid × Bytes => toHex e.2) u2b h3
  have o1 : optMap entryOfStr (paired.map fun e => (strOfUuid e.1, toHex e.2)) = some paired :=
    optMap_map _ _ _ (by intro x _; simp [entryOfStr, uuidOfStr_strOfUuid, ofHex_toHex])
  have o2 : optMap propOfStr (props.map fun e => (strOfUuid e.1, e.2)) = some props :=
    optMap_map _ _ _ (by intro x _; simp [propOfStr, uuidOfStr_strOfUuid])
  have o3 : optMap entryOfStr (u2b.map fun e => (strOfUuid e.1, toHex e.2)) = some u2b :=
    optMap_map _ _ _ (by intro x _; simp [entryOfStr, uuidOfStr_strOfUuid, ofHex_toHex])
  simp only [load, persist, e1, e2, e3, o1, o2, o3, Option.getD_some, keyOfHex_toHex _ h4,
    keyOfHex_toHex _ h5, dictOf_nodup _ h1, dictOf_nodup _ h2, dictOf_nodup _ h3]

/-! ### files written before permissions were stored -/

theorem optMap_map' {α β γ : Type} (f : β → Option γ) (g : α → β) (k : α → γ) (l : List α)
    (h : ∀ a ∈ l, f (g a) = some (k a)) : optMap f (l.map g) = some (l.map k) := by
  induction l with
  | nil => rfl
  | cons a r ih =>
    simp only [List.map_cons, optMap, h a (by simp), ih (fun x hx => h x (by simp [hx]))]

/-- the document `persist` writes, minus the `client_properties` member, loads; identity, keys
    and recorded identifier bytes are intact and every paired controller gets permission 1 -/
theorem load_persist_legacy (a : AccState) (h : WF a) :
    load { persist a with clientProperties := none } =
      some { a with ps := { a.ps with props := a.ps.paired.map fun e => (e.1, 1) } } := by
  obtain ⟨mac, cv, ah, priv, pub, ⟨paired, props, u2b⟩⟩ := a
  obtain ⟨h1, h2, h3, h4, h5⟩ := h
  simp only at h1 h2 h3 h4 h5
  have e1 := dictOf_map_str (fun e : Uuid × Bytes => toHex e.2) paired h1
  have e3 := dictOf_map_str (fun e : Uuid × Bytes => toHex e.2) u2b h3
  have o1 : optMap entryOfStr (paired.map fun e => (strOfUuid e.1, toHex e.2)) = some paired :=
    optMap_map _ _ _ (by intro x _; simp [entryOfStr, uuidOfStr_strOfUuid, ofHex_toHex])
  have o2 : optMap legacyProp (paired.map fun e => (strOfUuid e.1, toHex e.2))
      = some (paired.map fun e => (e.1, 1)) :=
    optMap_map' _ _ _ _ (by intro x _; simp [legacyProp, uuidOfStr_strOfUuid])
  have o3 : optMap entryOfStr (u2b.map fun e => (strOfUuid e.1, toHex e.2)) = some u2b :=
    optMap_map _ _ _ (by intro x _; simp [entryOfStr, uuidOfStr_strOfUuid, ofHex_toHex])
  have hk : (akeys (paired.map fun e => (e.1, (1 : Nat)))).Nodup := by
    have : akeys (paired.map fun e => (e.1, (1 : Nat))) = akeys paired := by
      simp [akeys, List.map_map, Function.comp_def]
    rw [this]; exact h1
  simp only [load, persist, e1, e3, o1, o2, o3, Option.getD_some, keyOfHex_toHex _ h4,
    keyOfHex_toHex _ h5, dictOf_nodup _ h1, dictOf_nodup _ hk, dictOf_nodup _ h3]

/-- files of the oldest generation: neither permissions nor identifier bytes stored -/
theorem load_persist_oldest (a : AccState) (h : WF a) :
    load { persist a with clientProperties := none, clientUuidToBytes := none } =
      some { a with ps := { a.ps with props := a.ps.paired.map fun e => (e.1, 1), u2b := [] } } := by
  obtain ⟨mac, cv, ah, priv, pub, ⟨paired, props, u2b⟩⟩ := a
  obtain ⟨h1, h2, h3, h4, h5⟩ := h
  simp only at h1 h2 h3 h4 h5
  have e1 := dictOf_map_str (fun e : Uuid × Bytes => toHex e.2) paired h1
  have o1 : optMap entryOfStr (paired.map fun e => (strOfUuid e.1, toHex e.2)) = some paired :=
    optMap_map _ _ _ (by intro x _; simp [entryOfStr, uuidOfStr_strOfUuid, ofHex_toHex])
  have o2 : optMap legacyProp (paired.map fun e => (strOfUuid e.1, toHex e.2))
      = some (paired.map fun e => (e.1, 1)) :=
    optMap_map' _ _ _ _ (by intro x _; simp [legacyProp, uuidOfStr_strOfUuid])
  have hk : (akeys (paired.map fun e => (e.1, (1 : Nat)))).Nodup := by
    have : akeys (paired.map fun e => (e.1, (1 : Nat))) = akeys paired := by
      simp [akeys, List.map_map, Function.comp_def]
    rw [this]; exact h1
  have o3 : optMap entryOfStr ([] : List (String × String)) = some [] := rfl
  have d0 : dictOf ([] : List (Uuid × Bytes)) = [] := rfl
  simp only [load, persist, e1, o1, o2, o3, d0, Option.getD_none, keyOfHex_toHex _ h4,
    keyOfHex_toHex _ h5, dictOf_nodup _ h1, dictOf_nodup _ hk]

/-- files of the middle generation: permissions stored, identifier bytes not yet -/
theorem load_persist_middle (a : AccState) (h : WF a) :
    load { persist a with clientUuidToBytes := none } = some { a with ps := { a.ps with u2b := [] } } := by
  obtain ⟨mac, cv, ah, priv, pub, ⟨paired, props, u2b⟩⟩ := a
  obtain ⟨h1, h2, h3, h4, h5⟩ := h
  simp only at h1 h2 h3 h4 h5
  have e1 := dictOf_map_str (fun e : Uuid × Bytes => toHex e.2) paired h1
  have e2 := dictOf_map_str (fun e : Uuid × Nat => e.2) props h2
  have o1 : optMap entryOfStr (paired.map fun e => (strOfUuid e.1, toHex e.2)) = some paired :=
    optMap_map _ _ _ (by intro x _; simp [entryOfStr, uuidOfStr_strOfUuid, ofHex_toHex])
  have o2 : optMap propOfStr (props.map fun e => (strOfUuid e.1, e.2)) = some props :=
    optMap_map _ _ _ (by intro x _; simp [propOfStr, uuidOfStr_strOfUuid])
  have o3 : optMap entryOfStr ([] : List (String × String)) = some [] := rfl
  have d0 : dictOf ([] : List (Uuid × Bytes)) = [] := rfl
  simp only [load, persist, e1, e2, o1, o2, o3, d0, Option.getD_none, keyOfHex_toHex _ h4,
    keyOfHex_toHex _ h5, dictOf_nodup _ h1, dictOf_nodup _ h2]

theorem akeys_foldl_aset {K V W : Type} [DecidableEq K] (l : List K) (f : K → V) (g : K → W)
    (acc1 : List (K × V)) (acc2 : List (K × W)) (h : akeys acc1 = akeys acc2) :
    akeys (l.foldl (fun acc k => aset acc k (f k)) acc1) = akeys (l.foldl (fun acc k => aset acc k (g k)) acc2) := by
  induction l generalizing acc1 acc2 with
  | nil => exact h
  | cons k r ih =>
    simp only [List.foldl_cons]
    apply ih
    simp only [akeys_aset, h]

theorem akeys_dictOf_congr {K V W : Type} [DecidableEq K] (l1 : List (K × V)) (l2 : List (K × W))
    (h : akeys l1 = akeys l2) : akeys (dictOf l1) = akeys (dictOf l2) := by
  induction l1 generalizing l2 with
  | nil =>
    cases l2 with
    | nil => rfl
    | cons _ _ => simp [akeys] at h
  | cons x r ih =>
    cases l2 with
    | nil => simp [akeys] at h
    | cons y r2 =>
      simp only [akeys, List.map_cons, List.cons.injEq] at h
      -- generalise over the accumulator
      have gen : ∀ (m1 : List (K × V)) (m2 : List (K × W)) (a1 : List (K × V)) (a2 : List (K × W)),
          akeys m1 = akeys m2 → akeys a1 = akeys a2 →
          akeys (m1.foldl (fun acc e => aset acc e.1 e.2) a1) = akeys (m2.foldl (fun acc e => aset acc e.1 e.2) a2) := by
        intro m1
        induction m1 with
        | nil =>
          intro m2 a1 a2 hm ha
          cases m2 with
          | nil => exact ha
          | cons _ _ => simp [akeys] at hm
        | cons e m1 ihm =>
          intro m2 a1 a2 hm ha
          cases m2 with
          | nil => simp [akeys] at hm
          | cons e2 m2 =>
            simp only [akeys, List.map_cons, List.cons.injEq] at hm
            simp only [List.foldl_cons]
            apply ihm
            · exact hm.2
            · simp only [akeys_aset, ha, hm.1]
      exact gen (x :: r) (y :: r2) [] [] (by simp [akeys, h.1, h.2]) rfl

theorem vals_foldl_aset_const {K V : Type} [DecidableEq K] (c : V) (l : List (K × V)) (acc : List (K × V))
    (hl : ∀ e ∈ l, e.2 = c) (ha : ∀ e ∈ acc, e.2 = c) :
    ∀ e ∈ l.foldl (fun acc e => aset acc e.1 e.2) acc, e.2 = c := by
  induction l generalizing acc with
  | nil => exact ha
  | cons x r ih =>
    simp only [List.foldl_cons]
    apply ih _ (fun e he => hl e (by simp [he]))
    intro e he
    have hx : x.2 = c := hl x (by simp)
    clear ih hl
    induction acc with
    | nil => simp [aset] at he; rw [he]; exact hx
    | cons y t iht =>
      by_cases hy : y.1 = x.1
      · simp only [aset, hy, if_true, List.mem_cons] at he
        rcases he with rfl | he
        · exact hx
        · exact ha e (by simp [he])
      · simp only [aset, hy, if_false, List.mem_cons] at he
        rcases he with rfl | he
        · exact ha _ (by simp)
        · exact iht (fun e he => ha e (by simp [he])) he

theorem aget_of_mem_keys {K V : Type} [DecidableEq K] (l : List (K × V)) (k : K) (h : k ∈ akeys l) :
    ∃ v, aget l k = some v ∧ (k, v) ∈ l := by
  induction l with
  | nil => simp [akeys] at h
  | cons x r ih =>
    obtain ⟨k', v'⟩ := x
    by_cases e : k' = k
    · subst e; exact ⟨v', by simp [aget], by simp⟩
    · have : k ∈ akeys r := by
        simp only [akeys, List.map_cons, List.mem_cons] at h
        rcases h with h | h
        · exact absurd h.symm e
        · exact h
      obtain ⟨v, h1, h2⟩ := ih this
      exact ⟨v, by simp [aget, e, h1], by simp [h2]⟩

theorem optMap_legacy (l : List (String × String)) (P : List (Uuid × Nat)) (Y : List (Uuid × Bytes))
    (h1 : optMap legacyProp l = some P) (h2 : optMap entryOfStr l = some Y) :
    akeys P = akeys Y ∧ ∀ e ∈ P, e.2 = 1 := by
  induction l generalizing P Y with
  | nil => simp only [optMap, Option.some.injEq] at h1 h2; subst h1 h2; simp [akeys]
  | cons x r ih =>
    simp only [optMap] at h1 h2
    cases hu : uuidOfStr x.1 with
    | none => simp [legacyProp, hu] at h1
    | some u =>
      cases hk : ofHex x.2 with
      | none => simp [entryOfStr, hu, hk] at h2
      | some k =>
        cases hP : optMap legacyProp r with
        | none => simp [hP] at h1
        | some P' =>
          cases hY : optMap entryOfStr r with
          | none => simp [hY] at h2
          | some Y' =>
            simp only [legacyProp, hu, hP, Option.map_some, Option.some.injEq] at h1
            simp only [entryOfStr, hu, hk, hY, Option.some.injEq] at h2
            subst h1 h2
            obtain ⟨i1, i2⟩ := ih P' Y' hP hY
            refine ⟨by simp only [akeys, List.map_cons] at i1 ⊢; rw [i1], ?_⟩
            intro e he
            rcases List.mem_cons.mp he with rfl | he
            · rfl
            · exact i2 e he

/-- a document without `client_properties` that loads: aligned maps, every permission entry is 1, every
    paired controller is admin -/
theorem load_legacy_spec (d : Doc) (a : AccState) (hd : d.clientProperties = none) (h : load d = some a) :
    Aligned a.ps ∧ (∀ e ∈ a.ps.props, e.2 = 1) ∧ ∀ u ∈ akeys a.ps.paired, isAdmin a.ps u = true := by
  unfold load at h
  simp only [hd] at h
  split at h
  · next P Y priv pub U hP hY _ _ _ =>
    cases h
    obtain ⟨k1, k2⟩ := optMap_legacy _ P Y hP hY
    have hal : Aligned ⟨dictOf Y, dictOf P, dictOf U⟩ := by
      unfold Aligned; exact (akeys_dictOf_congr P Y k1).symm
    have hone : ∀ e ∈ dictOf P, e.2 = 1 := vals_foldl_aset_const 1 P [] k2 (by simp)
    refine ⟨hal, hone, ?_⟩
    intro u hu
    have hu' : u ∈ akeys (dictOf P) := by
      have : akeys (dictOf Y) = akeys (dictOf P) := hal
      rw [← this]; exact hu
    obtain ⟨v, g1, g2⟩ := aget_of_mem_keys _ u hu'
    have : v = 1 := hone (u, v) g2
    subst this
    simp [isAdmin, g1]
  · cases h

/-- … and without `client_uuid_to_bytes` as well: no identifier bytes are recorded -/
theorem load_legacy_no_ids (d : Doc) (a : AccState) (hd : d.clientProperties = none)
    (hu : d.clientUuidToBytes = none) (h : load d = some a) :
    (∀ u ∈ akeys a.ps.paired, isAdmin a.ps u = true) ∧ a.ps.u2b = [] := by
  refine ⟨(load_legacy_spec d a hd h).2.2, ?_⟩
  unfold load at h
  simp only [hu, Option.getD_none] at h
  split at h
  · next P Y priv pub U _ _ _ _ hU =>
    cases h
    simp only [optMap, Option.some.injEq] at hU
    subst hU
    rfl
  · cases h

end Hap.Encoder
