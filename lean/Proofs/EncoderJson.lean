/- Lemmas for the JSON layer of the state file: reading back what was written for every document and
   every choice of distinct member names; files with a member removed; WF of loaded states. -/
import HapModel.EncoderJson
import Proofs.Encoder
namespace Hap.Encoder
open Hap Hap.PairState

theorem strPairs_jStrMap (l : List (String × String)) : strPairs (jStrMap l) = some l := by
  simp only [strPairs, jStrMap]
  induction l with
  | nil => rfl
  | cons e r ih => simp [optMap, strPair, ih]

theorem propPairs_jPropMap (pk : String) (l : List (String × Nat)) : propPairs pk (jPropMap pk l) = some l := by
  simp only [propPairs, jPropMap]
  induction l with
  | nil => rfl
  | cons e r ih =>
    simp only [List.map_cons, optMap, ih]
    simp [propPair, aget]

/-- distinct member names, as the 56 inequalities the lookups need -/
theorem Keys.ne_of_distinct (K : Keys) (h : K.Distinct) :
    (¬ K.mac = K.configVersion) ∧
    (¬ K.mac = K.pairedClients) ∧
    (¬ K.mac = K.clientProperties) ∧
    (¬ K.mac = K.accessoriesHash) ∧
    (¬ K.mac = K.clientUuidToBytes) ∧
    (¬ K.mac = K.privateKey) ∧
    (¬ K.mac = K.publicKey) ∧
    (¬ K.configVersion = K.mac) ∧
    (¬ K.configVersion = K.pairedClients) ∧
    (¬ K.configVersion = K.clientProperties) ∧
    (¬ K.configVersion = K.accessoriesHash) ∧
    (¬ K.configVersion = K.clientUuidToBytes) ∧
    (¬ K.configVersion = K.privateKey) ∧
    (¬ K.configVersion = K.publicKey) ∧
    (¬ K.pairedClients = K.mac) ∧
    (¬ K.pairedClients = K.configVersion) ∧
    (¬ K.pairedClients = K.clientProperties) ∧
    (¬ K.pairedClients = K.accessoriesHash) ∧
    (¬ K.pairedClients = K.clientUuidToBytes) ∧
    (¬ K.pairedClients = K.privateKey) ∧
    (¬ K.pairedClients = K.publicKey) ∧
    (¬ K.clientProperties = K.mac) ∧
    (¬ K.clientProperties = K.configVersion) ∧
    (¬ K.clientProperties = K.pairedClients) ∧
    (¬ K.clientProperties = K.accessoriesHash) ∧
    (¬ K.clientProperties = K.clientUuidToBytes) ∧
    (¬ K.clientProperties = K.privateKey) ∧
    (¬ K.clientProperties = K.publicKey) ∧
    (¬ K.accessoriesHash = K.mac) ∧
    (¬ K.accessoriesHash = K.configVersion) ∧
    (¬ K.accessoriesHash = K.pairedClients) ∧
    (¬ K.accessoriesHash = K.clientProperties) ∧
    (¬ K.accessoriesHash = K.clientUuidToBytes) ∧
    (¬ K.accessoriesHash = K.privateKey) ∧
    (¬ K.accessoriesHash = K.publicKey) ∧
    (¬ K.clientUuidToBytes = K.mac) ∧
    (¬ K.clientUuidToBytes = K.configVersion) ∧
    (¬ K.clientUuidToBytes = K.pairedClients) ∧
    (¬ K.clientUuidToBytes = K.clientProperties) ∧
    (¬ K.clientUuidToBytes = K.accessoriesHash) ∧
    (¬ K.clientUuidToBytes = K.privateKey) ∧
    (¬ K.clientUuidToBytes = K.publicKey) ∧
    (¬ K.privateKey = K.mac) ∧
    (¬ K.privateKey = K.configVersion) ∧
    (¬ K.privateKey = K.pairedClients) ∧
    (¬ K.privateKey = K.clientProperties) ∧
    (¬ K.privateKey = K.accessoriesHash) ∧
    (¬ K.privateKey = K.clientUuidToBytes) ∧
    (¬ K.privateKey = K.publicKey) ∧
    (¬ K.publicKey = K.mac) ∧
    (¬ K.publicKey = K.configVersion) ∧
    (¬ K.publicKey = K.pairedClients) ∧
    (¬ K.publicKey = K.clientProperties) ∧
    (¬ K.publicKey = K.accessoriesHash) ∧
    (¬ K.publicKey = K.clientUuidToBytes) ∧
    (¬ K.publicKey = K.privateKey) := by
  simp only [Keys.Distinct, Keys.toList, List.nodup_cons, List.mem_cons, List.not_mem_nil, or_false, not_or] at h
  have hs : ∀ a b : String, ¬ a = b → ¬ b = a := fun _ _ h e => h e.symm
  obtain ⟨⟨a1, a2, a3, a4, a5, a6, a7⟩, ⟨b2, b3, b4, b5, b6, b7⟩, ⟨c3, c4, c5, c6, c7⟩, ⟨d4, d5, d6, d7⟩, ⟨e5, e6, e7⟩, ⟨f6, f7⟩, g7, _⟩ := h
  refine ⟨a1, a2, a3, a4, a5, a6, a7, hs _ _ a1, b2, b3, b4, b5, b6, b7, hs _ _ a2, hs _ _ b2, c3, c4, c5, c6, c7,
    hs _ _ a3, hs _ _ b3, hs _ _ c3, d4, d5, d6, d7, hs _ _ a4, hs _ _ b4, hs _ _ c4, hs _ _ d4, e5, e6, e7,
    hs _ _ a5, hs _ _ b5, hs _ _ c5, hs _ _ d5, hs _ _ e5, f6, f7, hs _ _ a6, hs _ _ b6, hs _ _ c6, hs _ _ d6, hs _ _ e6, hs _ _ f6, g7,
    hs _ _ a7, hs _ _ b7, hs _ _ c7, hs _ _ d7, hs _ _ e7, hs _ _ f7, hs _ _ g7⟩

/-- Reading back what was written: for EVERY document (optional members present or absent, hash a
    string or null) and every choice of pairwise distinct member names. -/
theorem docOfJson_docToJson (K : Keys) (pk : String) (hK : K.Distinct) (d : Doc) :
    docOfJson K pk (docToJson K pk d) = some d := by
  obtain ⟨mac, cv, pc, cp, ah, ub, priv, pub⟩ := d
  have hne := K.ne_of_distinct hK
  cases cp <;> cases ah <;> cases ub <;>
    simp [docToJson, docOfJson, aget, hne, strPairs_jStrMap, propPairs_jPropMap]


/-- removing the `client_properties` member of a file = the document without permissions -/
theorem docToJson_without_cp (K : Keys) (pk : String) (hK : K.Distinct) (d : Doc) :
    (docToJson K pk d).without K.clientProperties = docToJson K pk { d with clientProperties := none } := by
  obtain ⟨mac, cv, pc, cp, ah, ub, priv, pub⟩ := d
  have hne := K.ne_of_distinct hK
  cases cp <;> cases ub <;> simp [docToJson, JV.without, adel, hne]

/-- removing the `client_uuid_to_bytes` member of a file = the document without identifier bytes -/
theorem docToJson_without_u2b (K : Keys) (pk : String) (hK : K.Distinct) (d : Doc) :
    (docToJson K pk d).without K.clientUuidToBytes = docToJson K pk { d with clientUuidToBytes := none } := by
  obtain ⟨mac, cv, pc, cp, ah, ub, priv, pub⟩ := d
  have hne := K.ne_of_distinct hK
  cases cp <;> cases ub <;> simp [docToJson, JV.without, adel, hne]

/-- removing the `accessories_hash` member reads like a stored `null` -/
theorem docOfJson_without_hash (K : Keys) (pk : String) (hK : K.Distinct) (d : Doc) :
    docOfJson K pk ((docToJson K pk d).without K.accessoriesHash) = some { d with accessoriesHash := none } := by
  obtain ⟨mac, cv, pc, cp, ah, ub, priv, pub⟩ := d
  have hne := K.ne_of_distinct hK
  cases cp <;> cases ah <;> cases ub <;>
    simp [docToJson, docOfJson, JV.without, adel, aget, hne, strPairs_jStrMap, propPairs_jPropMap]

/-- with agreeing, distinct name tables the file layer is transparent: `loadJ ∘ persistJ = load ∘ persist` -/
theorem loadJ_persistJ_eq (hn : persistKeys = loadKeys) (hd : persistKeys.Distinct) (a : AccState) :
    loadJ (persistJ a) = load (persist a) := by
  unfold loadJ persistJ
  rw [← hn, docOfJson_docToJson _ _ hd]; rfl

/-! ### whatever loads is well-formed -/

theorem nodup_foldl_aset {K V : Type} [DecidableEq K] (l acc : List (K × V)) (h : (akeys acc).Nodup) :
    (akeys (l.foldl (fun acc e => aset acc e.1 e.2) acc)).Nodup := by
  induction l generalizing acc with
  | nil => exact h
  | cons e r ih => exact ih _ (nodup_aset acc e.1 e.2 h)

theorem nodup_dictOf {K V : Type} [DecidableEq K] (l : List (K × V)) : (akeys (dictOf l)).Nodup :=
  nodup_foldl_aset l [] (by simp [akeys])

theorem keyOfHex_length (s : String) (b : Bytes) (h : keyOfHex s = some b) : b.length = 32 := by
  unfold keyOfHex at h
  split at h
  · split at h
    · cases h; assumption
    · cases h
  · cases h

/-- Every state `load_into` produces — from a current, a legacy or a hand-written document — satisfies the
    representation invariant (dict keys unique, 32-byte keys): the round-trip theorems apply to it. -/
theorem load_wf (d : Doc) (a : AccState) (h : load d = some a) : WF a := by
  unfold load at h
  cases hcp : d.clientProperties with
  | none =>
    simp only [hcp] at h
    split at h
    · next props paired priv pub u2b _ _ hpriv hpub _ =>
      cases h
      exact ⟨nodup_dictOf _, nodup_dictOf _, nodup_dictOf _, keyOfHex_length _ _ hpriv, keyOfHex_length _ _ hpub⟩
    · cases h
  | some cp =>
    simp only [hcp] at h
    split at h
    · next props paired priv pub u2b _ _ hpriv hpub _ =>
      cases h
      exact ⟨nodup_dictOf _, nodup_dictOf _, nodup_dictOf _, keyOfHex_length _ _ hpriv, keyOfHex_length _ _ hpub⟩
    · cases h

end Hap.Encoder
