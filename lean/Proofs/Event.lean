import HapModel.Event
namespace Hap.Event
open Hap

theorem decDigitsRev_lt (f n : Nat) : ∀ d ∈ decDigitsRev f n, d < 10 := by
  induction f generalizing n with
  | zero => simp [decDigitsRev]
  | succ f ih =>
    intro d hd
    simp only [decDigitsRev] at hd
    split at hd
    · simp at hd; omega
    · rcases List.mem_cons.mp hd with rfl | h
      · exact Nat.mod_lt _ (by omega)
      · exact ih _ d h

theorem decDigitsRev_ne_nil (f n : Nat) : decDigitsRev (f+1) n ≠ [] := by
  simp only [decDigitsRev]; split <;> simp

/-- value of little-endian decimal digits -/
def valRev : List Nat → Nat
  | [] => 0
  | d :: ds => d + 10 * valRev ds

theorem valRev_decDigitsRev (f n : Nat) (h : n < f) : valRev (decDigitsRev f n) = n := by
  induction f generalizing n with
  | zero => omega
  | succ f ih =>
    simp only [decDigitsRev]
    split
    · simp [valRev]
    · next hge =>
      simp only [valRev]
      rw [ih (n / 10) (by omega)]
      omega

theorem foldl_digits (ds : List Nat) (acc : Nat) :
    (ds.reverse.map fun d => UInt8.ofNat (48 + d)).foldl (fun a x => a * 10 + (x.toNat - 48)) acc
      = (ds.reverse.foldl (fun a d => a * 10 + ((UInt8.ofNat (48 + d)).toNat - 48)) acc) := by
  rw [List.foldl_map]

theorem digit_byte (d : Nat) (h : d < 10) : (UInt8.ofNat (48 + d)).toNat - 48 = d := by
  have : (UInt8.ofNat (48 + d)).toNat = 48 + d := by simp; omega
  omega

theorem foldl_rev_val (ds : List Nat) (hd : ∀ d ∈ ds, d < 10) :
    ds.reverse.foldl (fun a d => a * 10 + ((UInt8.ofNat (48 + d)).toNat - 48)) 0 = valRev ds := by
  induction ds with
  | nil => rfl
  | cons d ds ih =>
    simp only [List.reverse_cons, List.foldl_append, List.foldl_cons, List.foldl_nil, valRev]
    rw [ih (fun x hx => hd x (by simp [hx])), digit_byte d (hd d (by simp))]
    omega

theorem parseDec_decimal (n : Nat) : parseDec (decimal n) = n := by
  unfold parseDec decimal
  rw [foldl_digits, foldl_rev_val _ (decDigitsRev_lt _ _), valRev_decDigitsRev _ _ (by omega)]

theorem decimal_all_digits (n : Nat) : ∀ b ∈ decimal n, isDigit b = true := by
  intro b hb
  simp only [decimal, List.mem_map, List.mem_reverse] at hb
  obtain ⟨d, hd, rfl⟩ := hb
  have := decDigitsRev_lt _ _ d hd
  have h2 : (UInt8.ofNat (48 + d)).toNat = 48 + d := by simp; omega
  simp [isDigit, h2]; omega

theorem decimal_ne_nil (n : Nat) : decimal n ≠ [] := by
  simp [decimal, decDigitsRev_ne_nil]

theorem takeWhile_append_stop {p : UInt8 → Bool} (xs rest : Bytes) (h : ∀ b ∈ xs, p b = true)
    (c : UInt8) (hc : p c = false) :
    (xs ++ c :: rest).takeWhile p = xs ∧ (xs ++ c :: rest).dropWhile p = c :: rest := by
  induction xs with
  | nil => simp [List.takeWhile, List.dropWhile, hc]
  | cons x xs ih =>
    have hx := h x (by simp)
    have := ih (fun b hb => h b (by simp [hb]))
    simp [List.takeWhile, List.dropWhile, hx, this]

/-- the reader recovers exactly the body, whatever follows in the stream -/
theorem readEvent_createEvent (body rest : Bytes) :
    readEvent (createEvent body ++ rest) = some (body, rest) := by
  unfold readEvent createEvent
  have h1 : (stub ++ decimal body.length ++ crlf2 ++ body ++ rest).take stub.length = stub := by
    simp [List.append_assoc]
  have h2 : (stub ++ decimal body.length ++ crlf2 ++ body ++ rest).drop stub.length
      = decimal body.length ++ (13 : UInt8) :: ([10, 13, 10] ++ body ++ rest) := by
    simp [List.append_assoc, crlf2]
  simp only [h1, if_true, h2]
  obtain ⟨ht, hd⟩ := takeWhile_append_stop (p := isDigit) (decimal body.length)
    ([10, 13, 10] ++ body ++ rest) (decimal_all_digits _) 13 (by decide)
  rw [ht, hd]
  have hne := decimal_ne_nil body.length
  simp [hne, crlf2, parseDec_decimal, List.append_assoc]

end Hap.Event
