import HapModel.Frame
namespace Hap.Frame
open Hap

theorem rdLe16_le16 (n : Nat) (h : n < 65536) (rest : Bytes) : rdLe16 (le16 n ++ rest) = n := by
  simp [rdLe16, le16, UInt8.toNat_ofNat']
  omega

/-- a buffer from which the loop cannot take a frame -/
def Incomplete (t : Bytes) : Prop := t.length < MINBLK ∨ t.length < 2 + rdLe16 t + TAG

theorem drain_incomplete (A : Aead) (t : Bytes) (c : Nat) (acc : Bytes) (h : Incomplete t) :
    drain A t c acc = some (t, c, acc) := by
  rw [drain]
  rcases h with h | h
  · simp [show ¬ t.length ≥ MINBLK by omega]
  · by_cases h19 : t.length ≥ MINBLK <;> simp [h19, h]

theorem wire_length (A : Aead) (c : Nat) (p : Bytes) : (wire A c p).length = 2 + p.length + TAG := by
  simp [wire, le16, A.enc_len, TAG]; omega

/-- A correct AEAD opens what it sealed. -/
def Correct (A : Aead) : Prop := ∀ n a p, A.dec n a (A.enc n a p) = some p

theorem drain_wires (A : Aead) (hA : Correct A) (ps : List Bytes)
    (hps : ∀ p ∈ ps, 1 ≤ p.length ∧ p.length ≤ MAXBLK)
    (t : Bytes) (ht : Incomplete t) (c : Nat) (acc : Bytes) :
    drain A (wires A c ps ++ t) c acc = some (t, c + ps.length, acc ++ ps.flatten) := by
  induction ps generalizing c acc with
  | nil => simpa [wires] using drain_incomplete A t c acc ht
  | cons p ps ih =>
    have hp := hps p (by simp)
    have hp2 : p.length ≤ 1024 := by have := hp.2; simpa [MAXBLK] using this
    have hrest : ∀ q ∈ ps, 1 ≤ q.length ∧ q.length ≤ MAXBLK := fun q hq => hps q (by simp [hq])
    rw [drain]
    have hlen := wire_length A c p
    have hrd : rdLe16 (wires A c (p :: ps) ++ t) = p.length := by
      simp only [wires, wire, List.append_assoc]
      exact rdLe16_le16 _ (by omega) _
    have hge : (wires A c (p :: ps) ++ t).length ≥ MINBLK := by
      simp only [wires, List.length_append, hlen, MINBLK, TAG]; omega
    have hnot : ¬ (wires A c (p :: ps) ++ t).length < 2 + p.length + TAG := by
      simp only [wires, List.length_append, hlen]; omega
    simp only [hge, if_true, hrd, hnot, if_false]
    have htake2 : (wires A c (p :: ps) ++ t).take 2 = le16 p.length := by
      simp [wires, wire, le16]
    have hct : ((wires A c (p :: ps) ++ t).drop 2).take (p.length + TAG) = A.enc c (le16 p.length) p := by
      simp only [wires, wire, List.append_assoc]
      have h2 : List.drop 2 (le16 p.length ++ (A.enc c (le16 p.length) p ++ (wires A (c+1) ps ++ t)))
          = A.enc c (le16 p.length) p ++ (wires A (c+1) ps ++ t) := by simp [le16]
      rw [h2]
      exact List.take_left' (by simp [A.enc_len, TAG])
    have hdrop : (wires A c (p :: ps) ++ t).drop (2 + p.length + TAG) = wires A (c+1) ps ++ t := by
      simp only [wires]
      rw [List.append_assoc, ← hlen, List.drop_left']
      rfl
    rw [htake2, hct, hA, hdrop]
    simp only
    rw [ih hrest (c+1) (acc ++ p)]
    simp [List.flatten, Nat.add_comm, Nat.add_left_comm, Nat.add_assoc]

/-- chunk independence: what the loop did on `buf` it does on `buf ++ extra`, then continues -/
theorem drain_append (A : Aead) (buf : Bytes) (c : Nat) (acc : Bytes) (extra : Bytes)
    {buf' : Bytes} {c' : Nat} {acc' : Bytes}
    (h : drain A buf c acc = some (buf', c', acc')) :
    drain A (buf ++ extra) c acc = drain A (buf' ++ extra) c' acc' := by
  induction buf, c, acc using drain.induct A with
  | case1 buf c acc hge L hshort =>
    rw [drain] at h; simp only [hge, if_true] at h
    simp only [show buf.length < 2 + rdLe16 buf + TAG from hshort, if_true] at h
    cases h; rfl
  | case2 buf c acc hge L hlong hnone =>
    rw [drain] at h; simp only [hge, if_true] at h
    simp only [show ¬ buf.length < 2 + rdLe16 buf + TAG from hlong, if_false] at h
    rw [show A.dec c (buf.take 2) ((buf.drop 2).take (rdLe16 buf + TAG)) = none from hnone] at h
    cases h
  | case3 buf c acc hge L hlong pt hsome ih =>
    rw [drain] at h; simp only [hge, if_true] at h
    simp only [show ¬ buf.length < 2 + rdLe16 buf + TAG from hlong, if_false] at h
    rw [show A.dec c (buf.take 2) ((buf.drop 2).take (rdLe16 buf + TAG)) = some pt from hsome] at h
    simp only at h
    have := ih h
    rw [← this]
    conv => lhs; rw [drain]
    have hlen2 : 2 ≤ buf.length := by simp [MINBLK] at hge; omega
    have hrd : rdLe16 (buf ++ extra) = rdLe16 buf := by
      unfold rdLe16
      match buf, hlen2 with
      | a :: b :: rest, _ => simp
    have hge' : (buf ++ extra).length ≥ MINBLK := by simp; omega
    have hlong' : ¬ (buf ++ extra).length < 2 + rdLe16 buf + TAG := by simp; omega
    simp only [hge', if_true, hrd, hlong', if_false]
    have hlong'' : 2 + rdLe16 buf + TAG ≤ buf.length := Nat.le_of_not_lt hlong
    have t2 : (buf ++ extra).take 2 = buf.take 2 := List.take_append_of_le_length hlen2
    have tct : ((buf ++ extra).drop 2).take (rdLe16 buf + TAG) = (buf.drop 2).take (rdLe16 buf + TAG) := by
      rw [List.drop_append_of_le_length hlen2]
      exact List.take_append_of_le_length (by simp [List.length_drop]; omega)
    have tdrop : (buf ++ extra).drop (2 + rdLe16 buf + TAG) = buf.drop (2 + rdLe16 buf + TAG) ++ extra :=
      List.drop_append_of_le_length hlong''
    rw [t2, tct, hsome, tdrop]
  | case4 buf c acc hlt =>
    rw [drain] at h; simp only [hlt, if_false] at h
    cases h; rfl

/-- a failure on a prefix of the stream is a failure on the whole stream -/
theorem drain_append_none (A : Aead) (buf : Bytes) (c : Nat) (acc : Bytes) (extra : Bytes)
    (h : drain A buf c acc = none) : drain A (buf ++ extra) c acc = none := by
  induction buf, c, acc using drain.induct A with
  | case1 buf c acc hge L hshort =>
    rw [drain] at h; simp only [hge, if_true] at h
    simp only [show buf.length < 2 + rdLe16 buf + TAG from hshort, if_true] at h
    cases h
  | case2 buf c acc hge L hlong hnone =>
    rw [drain]
    have hlen2 : 2 ≤ buf.length := by simp [MINBLK] at hge; omega
    have hrd : rdLe16 (buf ++ extra) = rdLe16 buf := by
      unfold rdLe16
      match buf, hlen2 with
      | a :: b :: rest, _ => simp
    have hge' : (buf ++ extra).length ≥ MINBLK := by simp; omega
    have hlong' : ¬ (buf ++ extra).length < 2 + rdLe16 buf + TAG := by simp; omega
    simp only [hge', if_true, hrd, hlong', if_false]
    have t2 : (buf ++ extra).take 2 = buf.take 2 := List.take_append_of_le_length hlen2
    have tct : ((buf ++ extra).drop 2).take (rdLe16 buf + TAG) = (buf.drop 2).take (rdLe16 buf + TAG) := by
      rw [List.drop_append_of_le_length hlen2]
      exact List.take_append_of_le_length (by simp [List.length_drop]; omega)
    rw [t2, tct, show A.dec c (buf.take 2) ((buf.drop 2).take (rdLe16 buf + TAG)) = none from hnone]
  | case3 buf c acc hge L hlong pt hsome ih =>
    rw [drain] at h; simp only [hge, if_true] at h
    simp only [show ¬ buf.length < 2 + rdLe16 buf + TAG from hlong, if_false] at h
    rw [show A.dec c (buf.take 2) ((buf.drop 2).take (rdLe16 buf + TAG)) = some pt from hsome] at h
    simp only at h
    have := ih h
    rw [drain]
    have hlen2 : 2 ≤ buf.length := by simp [MINBLK] at hge; omega
    have hrd : rdLe16 (buf ++ extra) = rdLe16 buf := by
      unfold rdLe16
      match buf, hlen2 with
      | a :: b :: rest, _ => simp
    have hge' : (buf ++ extra).length ≥ MINBLK := by simp; omega
    have hlong' : ¬ (buf ++ extra).length < 2 + rdLe16 buf + TAG := by simp; omega
    simp only [hge', if_true, hrd, hlong', if_false]
    have hlong'' : 2 + rdLe16 buf + TAG ≤ buf.length := Nat.le_of_not_lt hlong
    have t2 : (buf ++ extra).take 2 = buf.take 2 := List.take_append_of_le_length hlen2
    have tct : ((buf ++ extra).drop 2).take (rdLe16 buf + TAG) = (buf.drop 2).take (rdLe16 buf + TAG) := by
      rw [List.drop_append_of_le_length hlen2]
      exact List.take_append_of_le_length (by simp [List.length_drop]; omega)
    have tdrop : (buf ++ extra).drop (2 + rdLe16 buf + TAG) = buf.drop (2 + rdLe16 buf + TAG) ++ extra :=
      List.drop_append_of_le_length hlong''
    rw [t2, tct, hsome, tdrop]
    exact this
  | case4 buf c acc hlt =>
    rw [drain] at h; simp only [hlt, if_false] at h
    cases h

/-- the accumulator is only ever appended to -/
theorem drain_acc' (A : Aead) (acc0 : Bytes) (buf : Bytes) (c : Nat) (acc : Bytes) :
    drain A buf c (acc0 ++ acc) = (drain A buf c acc).map (fun r => (r.1, r.2.1, acc0 ++ r.2.2)) := by
  induction buf, c, acc using drain.induct A with
  | case1 buf c acc hge L hshort =>
    rw [drain.eq_1 A buf c (acc0 ++ acc), drain.eq_1 A buf c acc]; simp only [hge, if_true]
    simp [show buf.length < 2 + rdLe16 buf + TAG from hshort]
  | case2 buf c acc hge L hlong hnone =>
    rw [drain.eq_1 A buf c (acc0 ++ acc), drain.eq_1 A buf c acc]; simp only [hge, if_true]
    simp only [show ¬ buf.length < 2 + rdLe16 buf + TAG from hlong, if_false]
    rw [show A.dec c (buf.take 2) ((buf.drop 2).take (rdLe16 buf + TAG)) = none from hnone]
    rfl
  | case3 buf c acc hge L hlong pt hsome ih =>
    rw [drain.eq_1 A buf c (acc0 ++ acc), drain.eq_1 A buf c acc]; simp only [hge, if_true]
    simp only [show ¬ buf.length < 2 + rdLe16 buf + TAG from hlong, if_false]
    rw [show A.dec c (buf.take 2) ((buf.drop 2).take (rdLe16 buf + TAG)) = some pt from hsome]
    simp only
    rw [List.append_assoc]
    exact ih
  | case4 buf c acc hlt =>
    rw [drain.eq_1 A buf c (acc0 ++ acc), drain.eq_1 A buf c acc]; simp [hlt]

theorem drain_acc (A : Aead) (buf : Bytes) (c : Nat) (acc : Bytes) :
    drain A buf c acc = (drain A buf c []).map (fun r => (r.1, r.2.1, acc ++ r.2.2)) := by
  have := drain_acc' A acc buf c []
  simpa using this

/-- what the loop leaves in the buffer is always incomplete -/
theorem drain_result_incomplete (A : Aead) (buf : Bytes) (c : Nat) (acc : Bytes)
    {b : Bytes} {c' : Nat} {acc' : Bytes} (h : drain A buf c acc = some (b, c', acc')) :
    Incomplete b := by
  induction buf, c, acc using drain.induct A with
  | case1 buf c acc hge L hshort =>
    rw [drain] at h; simp only [hge, if_true] at h
    simp only [show buf.length < 2 + rdLe16 buf + TAG from hshort, if_true] at h
    cases h; exact Or.inr hshort
  | case2 buf c acc hge L hlong hnone =>
    rw [drain] at h; simp only [hge, if_true] at h
    simp only [show ¬ buf.length < 2 + rdLe16 buf + TAG from hlong, if_false] at h
    rw [show A.dec c (buf.take 2) ((buf.drop 2).take (rdLe16 buf + TAG)) = none from hnone] at h
    cases h
  | case3 buf c acc hge L hlong pt hsome ih =>
    rw [drain] at h; simp only [hge, if_true] at h
    simp only [show ¬ buf.length < 2 + rdLe16 buf + TAG from hlong, if_false] at h
    rw [show A.dec c (buf.take 2) ((buf.drop 2).take (rdLe16 buf + TAG)) = some pt from hsome] at h
    exact ih h
  | case4 buf c acc hlt =>
    rw [drain] at h; simp only [hlt, if_false] at h
    cases h; exact Or.inl (by omega)

/-! ### the receive state machine over a list of reads -/

/-- reads only matter through their concatenation (success case) -/
theorem run_flatten (A : Aead) (cs : List Bytes) (r : Rx) (hopen : r.closed = false)
    (hinc : Incomplete r.buf) {b : Bytes} {c : Nat} {out : Bytes}
    (h : drain A (r.buf ++ cs.flatten) r.cnt [] = some (b, c, out)) :
    Rx.run A r cs = ({ buf := b, cnt := c, closed := false }, out) := by
  induction cs generalizing r out with
  | nil =>
    simp only [List.flatten_nil, List.append_nil] at h
    rw [drain_incomplete A _ _ _ hinc] at h
    cases h
    cases r; simp_all [Rx.run]
  | cons ch rest ih =>
    simp only [Rx.run, Rx.recv, hopen]
    simp only [List.flatten_cons, ← List.append_assoc] at h
    cases hd : drain A (r.buf ++ ch) r.cnt [] with
    | none =>
      rw [drain_append_none A _ _ _ _ hd] at h; cases h
    | some res =>
      obtain ⟨b1, c1, o1⟩ := res
      rw [drain_append A _ _ _ _ hd, drain_acc] at h
      cases hd2 : drain A (b1 ++ rest.flatten) c1 [] with
      | none => rw [hd2] at h; cases h
      | some res2 =>
        obtain ⟨b2, c2, o2⟩ := res2
        rw [hd2] at h
        simp only [Option.map_some, Option.some.injEq, Prod.mk.injEq] at h
        obtain ⟨rfl, rfl, rfl⟩ := h
        have := ih { buf := b1, cnt := c1, closed := false } rfl
          (drain_result_incomplete A _ _ _ hd) hd2
        simp [this]

/-- a closed connection hands nothing to the HTTP layer, whatever arrives -/
theorem run_closed (A : Aead) (cs : List Bytes) (r : Rx) (h : r.closed = true) :
    Rx.run A r cs = (r, []) := by
  induction cs with
  | nil => rfl
  | cons c cs ih => simp [Rx.run, Rx.recv, h, ih]

/-- Only what the sender sealed opens, and only at its own counter. -/
def Ideal (A : Aead) (ps : List Bytes) : Prop :=
  ∀ n aad ct pt, A.dec n aad ct = some pt → ∃ h : n < ps.length, pt = ps[n]

theorem take_succ_flatten (ps : List Bytes) (n : Nat) (h : n < ps.length) :
    (ps.take (n+1)).flatten = (ps.take n).flatten ++ ps[n] := by
  rw [List.take_succ_eq_append_getElem h]
  simp only [List.flatten_append, List.flatten_cons, List.flatten_nil, List.append_nil]

/-- with an ideal AEAD the loop can only ever append the next authentic payloads -/
theorem drain_ideal (A : Aead) (ps : List Bytes) (hI : Ideal A ps) (buf : Bytes) (c : Nat) (acc : Bytes)
    {b : Bytes} {c' : Nat} {acc' : Bytes} (h : drain A buf c acc = some (b, c', acc'))
    (hc : c ≤ ps.length) (hacc : acc = (ps.take c).flatten) :
    c' ≤ ps.length ∧ acc' = (ps.take c').flatten ∧ c ≤ c' := by
  induction buf, c, acc using drain.induct A with
  | case1 buf c acc hge L hshort =>
    rw [drain] at h; simp only [hge, if_true] at h
    simp only [show buf.length < 2 + rdLe16 buf + TAG from hshort, if_true] at h
    cases h; exact ⟨hc, hacc, Nat.le_refl _⟩
  | case2 buf c acc hge L hlong hnone =>
    rw [drain] at h; simp only [hge, if_true] at h
    simp only [show ¬ buf.length < 2 + rdLe16 buf + TAG from hlong, if_false] at h
    rw [show A.dec c (buf.take 2) ((buf.drop 2).take (rdLe16 buf + TAG)) = none from hnone] at h
    cases h
  | case3 buf c acc hge L hlong pt hsome ih =>
    rw [drain] at h; simp only [hge, if_true] at h
    simp only [show ¬ buf.length < 2 + rdLe16 buf + TAG from hlong, if_false] at h
    rw [show A.dec c (buf.take 2) ((buf.drop 2).take (rdLe16 buf + TAG)) = some pt from hsome] at h
    obtain ⟨hlt, hpt⟩ := hI _ _ _ _ hsome
    have := ih h hlt (by rw [take_succ_flatten ps c hlt, hacc, hpt])
    exact ⟨this.1, this.2.1, by omega⟩
  | case4 buf c acc hlt =>
    rw [drain] at h; simp only [hlt, if_false] at h
    cases h; exact ⟨hc, hacc, Nat.le_refl _⟩

/-- safety under arbitrary (adversarial) input: the bytes handed to the HTTP layer are always
    the next authentic payloads, in order -/
theorem run_ideal (A : Aead) (ps : List Bytes) (hI : Ideal A ps) (cs : List Bytes) (r : Rx)
    (hc : r.cnt ≤ ps.length) :
    (Rx.run A r cs).1.cnt ≤ ps.length ∧ r.cnt ≤ (Rx.run A r cs).1.cnt ∧
    (ps.take r.cnt).flatten ++ (Rx.run A r cs).2 = (ps.take (Rx.run A r cs).1.cnt).flatten := by
  induction cs generalizing r with
  | nil => simp [Rx.run, hc]
  | cons ch rest ih =>
    simp only [Rx.run, Rx.recv]
    cases hcl : r.closed with
    | true =>
      simp only [if_true]
      have := ih r hc
      simpa using this
    | false =>
      simp only [Bool.false_eq_true, if_false]
      cases hd : drain A (r.buf ++ ch) r.cnt [] with
      | none =>
        have := ih { r with closed := true } hc
        simpa using this
      | some res =>
        obtain ⟨b1, c1, o1⟩ := res
        have hd' : drain A (r.buf ++ ch) r.cnt (ps.take r.cnt).flatten
            = some (b1, c1, (ps.take r.cnt).flatten ++ o1) := by
          rw [drain_acc, hd]; rfl
        obtain ⟨h1, h2, h3⟩ := drain_ideal A ps hI _ _ _ hd' hc rfl
        have := ih { buf := b1, cnt := c1, closed := false } h1
        simp only at this ⊢
        refine ⟨this.1, by omega, ?_⟩
        rw [← List.append_assoc, h2]
        exact this.2.2

/-! ### strict prefixes of a frame are incomplete -/

theorem prefix_incomplete (A : Aead) (c : Nat) (p : Bytes) (hp : p.length ≤ MAXBLK) (t : Bytes)
    (k : Nat) (hk : k < (wire A c p).length) (ht : t = (wire A c p).take k) : Incomplete t := by
  have hlen := wire_length A c p
  have hp2 : p.length ≤ 1024 := by simpa [MAXBLK] using hp
  have htl : t.length = k := by rw [ht, List.length_take]; omega
  by_cases h19 : t.length < MINBLK
  · exact Or.inl h19
  · right
    have hk2 : 2 ≤ k := by simp [MINBLK] at h19; omega
    have : rdLe16 t = p.length := by
      have e : t = le16 p.length ++ (A.enc c (le16 p.length) p).take (k - 2) := by
        rw [ht, wire, List.take_append]
        have h2 : (le16 p.length).length = 2 := by simp [le16]
        rw [List.take_of_length_le (by omega), h2]
      rw [e]; exact rdLe16_le16 _ (by omega) _
    rw [this, htl]; simp only [TAG] at *; omega

/-! ### send side -/

theorem blocks_nil : blocks [] = [] := by rw [blocks]; simp

theorem blocks_cons (d : Bytes) (h : d ≠ []) : blocks d = d.take MAXBLK :: blocks (d.drop MAXBLK) := by
  rw [blocks]; simp [h]

theorem blocks_shape_aux (n : Nat) : ∀ d : Bytes, d.length ≤ n →
    (blocks d).flatten = d ∧
    (∀ b ∈ blocks d, 1 ≤ b.length ∧ b.length ≤ MAXBLK) ∧
    (∀ b ∈ (blocks d).dropLast, b.length = MAXBLK) := by
  have hM : 0 < MAXBLK := by simp [MAXBLK]
  induction n with
  | zero =>
    intro d hd
    have : d = [] := List.eq_nil_of_length_eq_zero (by omega)
    subst this; simp [blocks_nil]
  | succ n ih =>
    intro d hn
    by_cases hd : d = []
    · subst hd; simp [blocks_nil]
    · rw [blocks_cons d hd]
      have hpos : 0 < d.length := List.length_pos_iff.mpr hd
      have hdrop : (d.drop MAXBLK).length ≤ n := by rw [List.length_drop]; omega
      obtain ⟨h1, h2, h3⟩ := ih (d.drop MAXBLK) hdrop
      refine ⟨by simp [h1], ?_, ?_⟩
      · intro b hb
        rcases List.mem_cons.mp hb with rfl | hb
        · rw [List.length_take]; omega
        · exact h2 b hb
      · intro b hb
        by_cases hrest : blocks (d.drop MAXBLK) = []
        · simp [hrest] at hb
        · rw [List.dropLast_cons_of_ne_nil hrest] at hb
          rcases List.mem_cons.mp hb with rfl | hb
          · have hne : d.drop MAXBLK ≠ [] := by intro e; rw [e, blocks_nil] at hrest; exact hrest rfl
            have hp : 0 < (d.drop MAXBLK).length := List.length_pos_iff.mpr hne
            rw [List.length_drop] at hp
            rw [List.length_take]; omega
          · exact h3 b hb

theorem blocks_shape (d : Bytes) :
    (blocks d).flatten = d ∧
    (∀ b ∈ blocks d, 1 ≤ b.length ∧ b.length ≤ MAXBLK) ∧
    (∀ b ∈ (blocks d).dropLast, b.length = MAXBLK) :=
  blocks_shape_aux d.length d (Nat.le_refl _)

theorem wires_append (A : Aead) (c : Nat) (xs ys : List Bytes) :
    wires A c (xs ++ ys) = wires A c xs ++ wires A (c + xs.length) ys := by
  induction xs generalizing c with
  | nil => simp [wires]
  | cons x xs ih => simp [wires, ih, Nat.add_comm, Nat.add_left_comm, List.append_assoc]

/-- number of blocks of a message of exactly `k * 1024` bytes is `k` (no empty trailing frame) -/
theorem blocks_length_mul (k : Nat) : ∀ d : Bytes, d.length = k * MAXBLK → (blocks d).length = k := by
  induction k with
  | zero =>
    intro d hd
    have : d = [] := List.eq_nil_of_length_eq_zero (by omega)
    subst this; simp [blocks_nil]
  | succ k ih =>
    intro d hd
    have hM : 0 < MAXBLK := by simp [MAXBLK]
    have hne : d ≠ [] := by
      intro e; subst e; simp [Nat.add_mul] at hd; omega
    rw [blocks_cons d hne, List.length_cons, ih (d.drop MAXBLK)]
    rw [List.length_drop, hd, Nat.add_mul]; omega

end Hap.Frame

namespace Hap.Frame
open Hap

/-! ### instances showing the hypotheses are satisfiable -/

theorem mock_correct (k : Nat) : Correct (mockAead k) := by
  intro n a p
  simp [mockAead, mockTag]

/-- An AEAD that opens exactly the frames sealed for the payload list `ps` (a lookup table). -/
def tableAead (ps : List Bytes) : Aead where
  enc _ _ p := p ++ List.replicate 16 0
  dec n a ct :=
    if h : n < ps.length then
      if ct = ps[n] ++ List.replicate 16 0 ∧ a = le16 ps[n].length then some ps[n] else none
    else none
  enc_len n a p := by simp

theorem table_ideal (ps : List Bytes) : Ideal (tableAead ps) ps := by
  intro n aad ct pt h
  simp only [tableAead] at h
  split at h
  · next hn =>
    split at h
    · cases h; exact ⟨hn, rfl⟩
    · cases h
  · cases h

theorem table_opens_sealed (ps : List Bytes) (n : Nat) (h : n < ps.length) :
    (tableAead ps).dec n (le16 ps[n].length) ((tableAead ps).enc n (le16 ps[n].length) ps[n]) = some ps[n] := by
  simp [tableAead, h]

end Hap.Frame

namespace Hap.Frame
open Hap

theorem run_length (K : Nat → Aead) (ms : List Msg) (t : Tx) : (Tx.run K t ms).length = ms.length := by
  induction ms generalizing t with
  | nil => rfl
  | cons m ms ih => simp [Tx.run, ih]

theorem write_isPlain (K : Nat → Aead) (t : Tx) (d : Bytes) : (t.write K d).2.isPlain = t.key.isNone := by
  unfold Tx.write; cases t.key <;> simp [Out.isPlain]

theorem write_key (K : Nat → Aead) (t : Tx) (d : Bytes) : (t.write K d).1.key = t.key := by
  unfold Tx.write; cases h : t.key <;> simp [h]

theorem step_key_isNone (K : Nat → Aead) (t : Tx) (m : Msg) :
    (t.step K m).1.key.isNone = (t.key.isNone && !m.carriesKey) := by
  unfold Tx.step
  cases hm : m.carriesKey <;> simp [write_key]

theorem write_payload (K : Nat → Aead) (t : Tx) (d : Bytes) :
    match (t.write K d).2 with
    | .plain x => x = d
    | .frames _ _ blks _ => blks.flatten = d := by
  unfold Tx.write; cases t.key <;> simp [(blocks_shape d).1]

theorem flatMap_blocks_flatten (ms : List Msg) :
    (ms.flatMap fun m => blocks m.data).flatten = (ms.map Msg.data).flatten := by
  induction ms with
  | nil => simp
  | cons m ms ih => simp [(blocks_shape m.data).1, List.flatten_append, ih]

/-- all bytes written by a run of `Tx.step`s that start with cipher `k` installed and contain
    no further key-carrying response -/
def sessionBytes (K : Nat → Aead) (k : Nat) : Nat → List Msg → Bytes
  | _, [] => []
  | c, m :: ms => (encrypt (K k) c m.data).1 ++ sessionBytes K k (encrypt (K k) c m.data).2 ms

theorem sessionBytes_eq (K : Nat → Aead) (k : Nat) (c : Nat) (ms : List Msg) :
    sessionBytes K k c ms = wires (K k) c (ms.flatMap fun m => blocks m.data) := by
  induction ms generalizing c with
  | nil => simp [sessionBytes, wires]
  | cons m ms ih =>
    simp only [sessionBytes, encrypt, List.flatMap_cons, wires_append, ih]

theorem run_plain_aux (K : Nat → Aead) (ms : List Msg) (t : Tx) (j : Nat) (hj : j < ms.length) :
    ((Tx.run K t ms)[j]'(by rw [run_length]; exact hj)).isPlain
      = (t.key.isNone && (ms.take j).all (fun m => !m.carriesKey)) := by
  induction ms generalizing t j with
  | nil => simp at hj
  | cons m ms ih =>
    cases j with
    | zero =>
      simp only [Tx.run, List.getElem_cons_zero, List.take_zero, List.all_nil, Bool.and_true]
      exact write_isPlain K t m.data
    | succ j =>
      simp only [Tx.run, List.getElem_cons_succ, List.take_succ_cons, List.all_cons]
      rw [ih _ j (by simpa using hj), step_key_isNone, Bool.and_assoc]

end Hap.Frame
