/-
  The protocol constants found in pyhap/hap_handler.py and pyhap/const.py *now* (regenerated on
  every run by extract/handler_consts.py) are the ones the HAP specification prescribes — and the
  ones the reference controllers in harness/ref use independently.
-/
import HapModel.Gen.HandlerConsts
namespace Hap.Gen.Handler

def ascii (s : String) : List Nat := s.toList.map Char.toNat

/-- pair-verify: HKDF labels and AEAD nonces -/
theorem pair_verify_labels :
    h_PVERIFY_1_SALT = ascii "Pair-Verify-Encrypt-Salt" ∧
    h_PVERIFY_1_INFO = ascii "Pair-Verify-Encrypt-Info" ∧
    h_PVERIFY_1_NONCE = [0, 0, 0, 0] ++ ascii "PV-Msg02" ∧
    h_PVERIFY_2_NONCE = [0, 0, 0, 0] ++ ascii "PV-Msg03" := by decide

/-- pair-setup: HKDF labels and AEAD nonces -/
theorem pair_setup_labels :
    h_PAIRING_3_SALT = ascii "Pair-Setup-Encrypt-Salt" ∧
    h_PAIRING_3_INFO = ascii "Pair-Setup-Encrypt-Info" ∧
    h_PAIRING_3_NONCE = [0, 0, 0, 0] ++ ascii "PS-Msg05" ∧
    h_PAIRING_4_SALT = ascii "Pair-Setup-Controller-Sign-Salt" ∧
    h_PAIRING_4_INFO = ascii "Pair-Setup-Controller-Sign-Info" ∧
    h_PAIRING_5_SALT = ascii "Pair-Setup-Accessory-Sign-Salt" ∧
    h_PAIRING_5_INFO = ascii "Pair-Setup-Accessory-Sign-Info" ∧
    h_PAIRING_5_NONCE = [0, 0, 0, 0] ++ ascii "PS-Msg06" := by decide

/-- TLV8 item types, states and error codes of the pairing protocols (HAP spec tables) -/
theorem pairing_tlv_constants :
    tag_REQUEST_TYPE = [0] ∧ tag_USERNAME = [1] ∧ tag_SALT = [2] ∧ tag_PUBLIC_KEY = [3] ∧
    tag_PASSWORD_PROOF = [4] ∧ tag_ENCRYPTED_DATA = [5] ∧ tag_SEQUENCE_NUM = [6] ∧
    tag_ERROR_CODE = [7] ∧ tag_PROOF = [10] ∧ tag_PERMISSIONS = [11] ∧ tag_SEPARATOR = [255] ∧
    st_M1 = [1] ∧ st_M2 = [2] ∧ st_M3 = [3] ∧ st_M4 = [4] ∧ st_M5 = [5] ∧ st_M6 = [6] ∧
    err_AUTHENTICATION = [2] ∧ err_UNAVAILABLE = [6] ∧ err_BUSY = [7] ∧
    perm_USER = [0] ∧ perm_ADMIN = [1] ∧
    h_PAIRING_RESPONSE_TYPE = "application/pairing+tlv8" := by decide

/-- HAP status codes used in characteristic reads/writes -/
theorem hap_status_codes :
    status_SUCCESS = 0 ∧ status_INSUFFICIENT_PRIVILEGES = -70401 ∧
    status_SERVICE_COMMUNICATION_FAILURE = -70402 ∧ status_RESOURCE_BUSY = -70403 ∧
    status_READ_ONLY_CHARACTERISTIC = -70404 ∧ status_WRITE_ONLY_CHARACTERISTIC = -70405 ∧
    status_NOTIFICATION_NOT_SUPPORTED = -70406 ∧ status_OUT_OF_RESOURCE = -70407 ∧
    status_OPERATION_TIMED_OUT = -70408 ∧ status_RESOURCE_DOES_NOT_EXIST = -70409 ∧
    status_INVALID_VALUE_IN_REQUEST = -70410 ∧ status_INSUFFICIENT_AUTHORIZATION = -70411 ∧
    h_JSON_RESPONSE_TYPE = "application/hap+json" := by decide

end Hap.Gen.Handler
