import HapModel.Iid
namespace Hap.Iid

theorem good_empty : Good empty := by
  constructor
  · intro o i; simp [empty]
  · intro i o h; simp [empty] at h

theorem assign_counter_le (m : Iid) (o : Nat) : m.counter ≤ (m.assign o).counter := by
  unfold assign; split <;> simp

theorem good_assign {m : Iid} (h : Good m) (o : Nat) : Good (m.assign o) := by
  obtain ⟨h1, h2⟩ := h
  unfold assign
  split
  · exact ⟨h1, h2⟩
  · rename_i hn
    constructor
    · intro o' i
      simp only [upd]
      by_cases ho : o' = o <;> by_cases hi : i = m.counter + 1
      · subst ho; subst hi; simp
      · subst ho; simp [hi]
        constructor
        · intro e; exact absurd e.symm hi
        · intro e; have := (h1 o' i).mpr e; rw [hn] at this; cases this
      · subst hi; simp [ho]
        constructor
        · intro e; have := (h2 _ _ ((h1 _ _).mp e)).2; omega
        · intro e; exact absurd e.symm ho
      · simp [ho, hi]; exact h1 o' i
    · intro i o' hio
      simp only [upd] at hio
      by_cases hi : i = m.counter + 1
      · subst hi; simp
      · simp [hi] at hio
        have := h2 _ _ hio
        simp; omega

/-- the shared effect of both removals -/
theorem good_erase {m : Iid} (h : Good m) {o i : Nat} (hoi : m.iids o = some i) :
    Good { m with iids := upd m.iids o none, objs := upd m.objs i none } := by
  obtain ⟨h1, h2⟩ := h
  constructor
  · intro o' i'
    simp only [upd]
    by_cases ho : o' = o <;> by_cases hi : i' = i
    · simp [ho, hi]
    · subst ho; simp [hi]
      intro e; have := (h1 _ _).mpr e; rw [hoi] at this; cases this; exact hi rfl
    · subst hi; simp [ho]
      intro e; have := (h1 _ _).mpr ((h1 _ _).mp e)
      have h3 := (h1 _ _).mp hoi
      rw [(h1 _ _).mp e] at h3; cases h3; exact ho rfl
    · simp [ho, hi]; exact h1 o' i'
  · intro i' o' hio
    simp only [upd] at hio
    by_cases hi : i' = i
    · simp [hi] at hio
    · simp [hi] at hio; exact h2 _ _ hio

theorem removeObj_good {m : Iid} (h : Good m) (o : Nat) :
    ∃ m' r, m.removeObj o = some (m', r) ∧ Good m' ∧ m'.counter = m.counter ∧
      r = m.iids o ∧ m'.iids o = none ∧
      (∀ o' i, m'.iids o' = some i → m.iids o' = some i) := by
  unfold removeObj
  cases hoi : m.iids o with
  | none => exact ⟨m, none, rfl, h, rfl, rfl, hoi, fun _ _ e => e⟩
  | some i =>
    have hio := (h.1 _ _).mp hoi
    simp only [hio]
    refine ⟨_, _, rfl, good_erase h hoi, rfl, rfl, by simp [upd], ?_⟩
    intro o' i' e
    simp only [upd] at e
    by_cases ho : o' = o
    · simp [ho] at e
    · simpa [ho] using e

theorem removeIid_good {m : Iid} (h : Good m) (i : Nat) :
    ∃ m' r, m.removeIid i = some (m', r) ∧ Good m' ∧ m'.counter = m.counter ∧
      r = m.objs i ∧ m'.objs i = none ∧
      (∀ o' i', m'.iids o' = some i' → m.iids o' = some i') := by
  unfold removeIid
  cases hio : m.objs i with
  | none => exact ⟨m, none, rfl, h, rfl, rfl, hio, fun _ _ e => e⟩
  | some o =>
    have hoi := (h.1 _ _).mpr hio
    simp only [hoi]
    refine ⟨_, _, rfl, good_erase h hoi, rfl, rfl, by simp [upd], ?_⟩
    intro o' i' e
    simp only [upd] at e
    by_cases ho : o' = o
    · simp [ho] at e
    · simpa [ho] using e

/-- a binding present after `assign` whose iid is within the old counter was already there -/
theorem assign_old {m : Iid} (_h : Good m) (o o' i : Nat)
    (e : (m.assign o).iids o' = some i) (hi : i ≤ m.counter) : m.iids o' = some i := by
  unfold assign at e
  split at e
  · exact e
  · simp only [upd] at e
    by_cases ho : o' = o
    · simp [ho] at e; omega
    · simpa [ho] using e

/-- Everything one step guarantees. -/
theorem step_good {m : Iid} (h : Good m) (op : Op) :
    ∃ m', m.step op = some m' ∧ Good m' ∧ m.counter ≤ m'.counter ∧
      (∀ o i, m'.iids o = some i → i ≤ m.counter → m.iids o = some i) := by
  cases op with
  | assign o =>
    exact ⟨_, rfl, good_assign h o, assign_counter_le m o, fun o' i e hi => assign_old h o o' i e hi⟩
  | removeObj o =>
    obtain ⟨m', r, e, g, c, _, _, old⟩ := removeObj_good h o
    exact ⟨m', by simp [step, e], g, by omega, fun o' i e' _ => old o' i e'⟩
  | removeIid i =>
    obtain ⟨m', r, e, g, c, _, _, old⟩ := removeIid_good h i
    exact ⟨m', by simp [step, e], g, by omega, fun o' i e' _ => old o' i e'⟩

theorem run_good {m : Iid} (h : Good m) (ops : List Op) :
    ∃ m', m.run ops = some m' ∧ Good m' ∧ m.counter ≤ m'.counter ∧
      (∀ o i, m'.iids o = some i → i ≤ m.counter → m.iids o = some i) := by
  induction ops generalizing m with
  | nil => exact ⟨m, rfl, h, Nat.le_refl _, fun _ _ e _ => e⟩
  | cons op rest ih =>
    obtain ⟨m1, e1, g1, c1, o1⟩ := step_good h op
    obtain ⟨m2, e2, g2, c2, o2⟩ := ih g1
    refine ⟨m2, by simp [run, e1, e2], g2, by omega, ?_⟩
    intro o i e hi
    exact o1 o i (o2 o i e (by omega)) hi

end Hap.Iid
