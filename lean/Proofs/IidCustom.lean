/-
  C17 lemmas, part 10: managers whose application subclass overrides `get_iid_for_obj` and mixes
  explicit (recorded) iids with automatic ones.  Under the application's policy (`Iid.Allowed`) the
  two maps stay mutually inverse, so identifiers stay distinct, and an automatic iid is always one
  nobody holds.
-/
import Proofs.Iid
namespace Hap.Iid

theorem goodX_startAt (B start : Nat) (h : start ≤ B) : GoodX B (startAt start) := by
  refine ⟨?_, ?_, h⟩
  · intro o i; simp [startAt, empty]
  · intro i o e; simp [startAt, empty] at e

/-- inserting a binding between a free object and a free iid keeps the maps mutually inverse -/
theorem inverse_insert {f g : Nat → Option Nat} (h : ∀ o i, f o = some i ↔ g i = some o)
    {o i : Nat} (ho : f o = none) (hi : g i = none) :
    ∀ o' i', upd f o (some i) o' = some i' ↔ upd g i (some o) i' = some o' := by
  intro o' i'
  simp only [upd]
  by_cases h1 : o' = o <;> by_cases h2 : i' = i
  · subst h1; subst h2; simp
  · subst h1; simp [h2]
    constructor
    · intro e; exact absurd e.symm h2
    · intro e; have := (h o' i').mpr e; rw [ho] at this; cases this
  · subst h2; simp [h1]
    constructor
    · intro e; have := (h o' i').mp e; rw [hi] at this; cases this
    · intro e; exact absurd e.symm h1
  · simp [h1, h2]; exact h o' i'

theorem goodX_assign {B : Nat} {m : Iid} (h : GoodX B m) (hc : m.counter < B) (o : Nat) :
    GoodX B (m.assign o) := by
  obtain ⟨h1, h2, h3⟩ := h
  unfold assign
  split
  · exact ⟨h1, h2, h3⟩
  · rename_i hn
    have hfree : m.objs (m.counter + 1) = none := by
      cases e : m.objs (m.counter + 1) with
      | none => rfl
      | some o' => rcases h2 _ _ e with h | h <;> omega
    refine ⟨inverse_insert h1 hn hfree, ?_, by show m.counter + 1 ≤ B; omega⟩
    intro i o' hio
    simp only [upd] at hio
    by_cases hi : i = m.counter + 1
    · subst hi; exact Or.inl (Nat.le_refl _)
    · simp [hi] at hio
      rcases h2 _ _ hio with h | h
      · exact Or.inl (by show i ≤ m.counter + 1; omega)
      · exact Or.inr h

theorem goodX_assignAt {B : Nat} {m : Iid} (h : GoodX B m) (o i : Nat)
    (hfree : m.objs i = none) (hi : i ≤ m.counter ∨ B < i) : GoodX B (m.assignAt o i) := by
  obtain ⟨h1, h2, h3⟩ := h
  unfold assignAt
  split
  · exact ⟨h1, h2, h3⟩
  · rename_i hn
    refine ⟨inverse_insert h1 hn hfree, ?_, h3⟩
    intro i' o' hio
    simp only [upd] at hio
    by_cases he : i' = i
    · subst he; exact hi
    · simp [he] at hio; exact h2 _ _ hio

theorem goodX_erase {B : Nat} {m : Iid} (h : GoodX B m) {o i : Nat} (hoi : m.iids o = some i) :
    GoodX B { m with iids := upd m.iids o none, objs := upd m.objs i none } := by
  obtain ⟨h1, h2, h3⟩ := h
  refine ⟨?_, ?_, h3⟩
  · intro o' i'
    simp only [upd]
    by_cases ho : o' = o <;> by_cases hi : i' = i
    · simp [ho, hi]
    · subst ho; simp [hi]
      intro e; have := (h1 _ _).mpr e; rw [hoi] at this; cases this; exact hi rfl
    · subst hi; simp [ho]
      intro e
      have h3 := (h1 _ _).mp hoi
      rw [(h1 _ _).mp e] at h3; cases h3; exact ho rfl
    · simp [ho, hi]; exact h1 o' i'
  · intro i' o' hio
    simp only [upd] at hio
    by_cases hi : i' = i
    · simp [hi] at hio
    · simp [hi] at hio; exact h2 _ _ hio

theorem stepX_good {B : Nat} {m : Iid} (h : GoodX B m) (op : OpX) (ha : Allowed B m op) :
    ∃ m', m.stepX op = some m' ∧ GoodX B m' := by
  cases op with
  | auto o => exact ⟨_, rfl, goodX_assign h ha o⟩
  | explicit o i => exact ⟨_, rfl, goodX_assignAt h o i ha.1 ha.2⟩
  | removeObj o =>
    simp only [stepX, removeObj]
    cases hoi : m.iids o with
    | none => exact ⟨m, rfl, h⟩
    | some i =>
      have hio := (h.1 _ _).mp hoi
      simp only [hio]
      exact ⟨_, rfl, goodX_erase h hoi⟩
  | removeIid i =>
    simp only [stepX, removeIid]
    cases hio : m.objs i with
    | none => exact ⟨m, rfl, h⟩
    | some o =>
      have hoi := (h.1 _ _).mpr hio
      simp only [hoi]
      exact ⟨_, rfl, goodX_erase h hoi⟩

theorem runX_good {B : Nat} {m : Iid} (h : GoodX B m) (ops : List OpX) (ha : AllowedRun B m ops) :
    ∃ m', m.runX ops = some m' ∧ GoodX B m' := by
  induction ops generalizing m with
  | nil => exact ⟨m, rfl, h⟩
  | cons op rest ih =>
    obtain ⟨a1, a2⟩ := ha
    obtain ⟨m1, e1, g1⟩ := stepX_good h op a1
    obtain ⟨m2, e2, g2⟩ := ih g1 (a2 m1 e1)
    exact ⟨m2, by simp [runX, e1, e2], g2⟩

/-- mutually inverse maps give distinct identifiers -/
theorem GoodX.distinct {B : Nat} {m : Iid} (h : GoodX B m) {o o' i : Nat}
    (e1 : m.iids o = some i) (e2 : m.iids o' = some i) : o = o' := by
  have a := (h.1 o i).mp e1
  have b := (h.1 o' i).mp e2
  rw [a] at b
  exact Option.some.inj b

/-- the automatic iid `counter + 1` is held by nobody -/
theorem GoodX.auto_fresh {B : Nat} {m : Iid} (h : GoodX B m) (hc : m.counter < B) :
    m.objs (m.counter + 1) = none ∧ ∀ o, m.iids o ≠ some (m.counter + 1) := by
  have hfree : m.objs (m.counter + 1) = none := by
    cases e : m.objs (m.counter + 1) with
    | none => rfl
    | some o' => rcases h.2.1 _ _ e with h' | h' <;> omega
  refine ⟨hfree, ?_⟩
  intro o e
  have := (h.1 _ _).mp e
  rw [hfree] at this
  cases this

end Hap.Iid

namespace Hap.Iid

/-- executable form of the policy (for concrete histories) -/
def allowedB (B : Nat) (m : Iid) : OpX → Bool
  | .auto _ => decide (m.counter < B)
  | .explicit _ i => (m.objs i).isNone && (decide (i ≤ m.counter) || decide (B < i))
  | _ => true

def allowedRunB (B : Nat) : Iid → List OpX → Bool
  | _, [] => true
  | m, op :: rest =>
    allowedB B m op &&
      match m.stepX op with
      | some m' => allowedRunB B m' rest
      | none => true

theorem allowed_of_B {B : Nat} {m : Iid} {op : OpX} (h : allowedB B m op = true) : Allowed B m op := by
  cases op with
  | auto o => simpa [allowedB, Allowed] using h
  | explicit o i =>
    simp only [allowedB, Bool.and_eq_true, Bool.or_eq_true, decide_eq_true_eq, Option.isNone_iff_eq_none] at h
    exact h
  | removeObj o => trivial
  | removeIid i => trivial

theorem allowedRun_of_B {B : Nat} {m : Iid} {ops : List OpX} (h : allowedRunB B m ops = true) :
    AllowedRun B m ops := by
  induction ops generalizing m with
  | nil => trivial
  | cons op rest ih =>
    simp only [allowedRunB, Bool.and_eq_true] at h
    refine ⟨allowed_of_B h.1, ?_⟩
    intro m' e
    have h2 := h.2
    rw [e] at h2
    exact ih h2

end Hap.Iid
