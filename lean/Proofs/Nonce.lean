import HapModel.Nonce
import Proofs.Frame
namespace Hap.Frame
open Hap

theorem leBytes_length (k n : Nat) : (leBytes k n).length = k := by
  induction k generalizing n with
  | zero => rfl
  | succ k ih => simp [leBytes, ih]

theorem rdLe_leBytes (k n : Nat) (h : n < 256 ^ k) : rdLe (leBytes k n) = n := by
  induction k generalizing n with
  | zero => simp [leBytes, rdLe]; simp at h; omega
  | succ k ih =>
    have h2 : n / 256 < 256 ^ k := by
      rw [Nat.div_lt_iff_lt_mul (by decide)]; rw [Nat.pow_succ] at h; exact h
    simp only [leBytes, rdLe, ih _ h2]
    have : (UInt8.ofNat (n % 256)).toNat = n % 256 := by
      simp [UInt8.toNat_ofNat']
    rw [this]; omega

theorem rdLe_append_zero4 (b : Bytes) : rdLe (leBytes 4 0 ++ b) = 4294967296 * rdLe b := by
  simp [leBytes, rdLe]; omega

theorem nonceBytes_length (n : Nat) : (nonceBytes n).length = 12 := by
  simp [nonceBytes, leBytes_length]

/-- the counter can be read back from the nonce: skip 4 bytes, read LE64 -/
theorem nonce_roundtrip (n : Nat) (h : n < NONCE_LIMIT) : rdLe ((nonceBytes n).drop 4) = n := by
  have : (nonceBytes n).drop 4 = leBytes 8 n := by
    unfold nonceBytes
    rw [List.drop_left' (leBytes_length 4 0)]
  rw [this]
  exact rdLe_leBytes 8 n (by simpa [NONCE_LIMIT] using h)

theorem nonceBytes_inj (a b : Nat) (ha : a < NONCE_LIMIT) (hb : b < NONCE_LIMIT)
    (h : nonceBytes a = nonceBytes b) : a = b := by
  rw [← nonce_roundtrip a ha, ← nonce_roundtrip b hb, h]

/-- incrementing the little-endian bytes in place (full carry) is packing the next number -/
theorem incLe_leBytes (k n : Nat) : incLe (leBytes k n) = leBytes k (n + 1) := by
  induction k generalizing n with
  | zero => rfl
  | succ k ih =>
    simp only [leBytes, incLe]
    by_cases h : n % 256 = 255
    · have h1 : (n + 1) % 256 = 0 := by omega
      have h2 : (n + 1) / 256 = n / 256 + 1 := by omega
      rw [h, h1, h2, ih]
      simp
    · have h1 : (n + 1) % 256 = n % 256 + 1 := by omega
      have h2 : (n + 1) / 256 = n / 256 := by omega
      have hne : ¬ UInt8.ofNat (n % 256) = 255 := by
        intro e
        have := congrArg UInt8.toNat e
        simp [UInt8.toNat_ofNat'] at this
        omega
      rw [if_neg hne, h1, h2]
      congr 1
      apply UInt8.toNat_inj.mp
      simp [UInt8.toNat_ofNat', UInt8.toNat_add]

theorem bumpNonce_nonceBytes (n : Nat) : bumpNonce (nonceBytes n) = nonceBytes (n + 1) := by
  unfold bumpNonce nonceBytes
  rw [List.take_left' (leBytes_length 4 0), List.drop_left' (leBytes_length 4 0), incLe_leBytes]

theorem bumped_eq (n : Nat) : bumped n = nonceBytes n := by
  induction n with
  | zero => rfl
  | succ n ih => rw [bumped, ih, bumpNonce_nonceBytes]

theorem packLength_eq_le16 (n : Nat) (h : n < 65536) : packLength n = some (le16 n) := by
  simp only [packLength, h, if_true, leBytes, le16]
  congr 2
  simp only [List.cons.injEq, and_true]
  apply UInt8.toNat_inj.mp
  simp [UInt8.toNat_ofNat']

end Hap.Frame
