/-
  Lemmas about the pair-setup model (`HapModel/PairSetup.lean`): symbolic execution of the
  reference controller's three requests (C08) and the gate invariant (C01).
-/
import Proofs.Tlv
import Proofs.Srp
import HapModel.PairSetup
import Proofs.PairSetupGate
namespace Hap.PairSetup
open Hap Hap.Tlv Hap.Srp

/-! ### TLV bodies with distinct concrete tags decode to themselves -/

theorem decode_encode (items : Items) : Tlv.decode (Tlv.encode items) [] = some (merge [] items) :=
  decode_encode_acc items []

theorem decode2 (t1 t2 : UInt8) (v1 v2 : Bytes) (h : t1 ≠ t2) :
    Tlv.decode (Tlv.encode [(t1, v1), (t2, v2)]) [] = some [(t1, v1), (t2, v2)] := by
  rw [decode_encode]; simp [merge, upsert, h]

theorem decode3 (t1 t2 t3 : UInt8) (v1 v2 v3 : Bytes) (h12 : t1 ≠ t2) (h13 : t1 ≠ t3) (h23 : t2 ≠ t3) :
    Tlv.decode (Tlv.encode [(t1, v1), (t2, v2), (t3, v3)]) [] = some [(t1, v1), (t2, v2), (t3, v3)] := by
  rw [decode_encode]; simp [merge, upsert, h12, h13, h23]

/-! ### the reference controller's requests -/

def ctrlM1 : Bytes := Tlv.encode [(T_SEQUENCE_NUM, [1]), (T_METHOD, [0])]

def ctrlM3 (A M : Bytes) : Bytes :=
  Tlv.encode [(T_SEQUENCE_NUM, [3]), (T_PUBLIC_KEY, A), (T_PASSWORD_PROOF, M)]

/-- the controller's sub-TLV: identifier, long-term public key, signature -/
def ctrlSub (ident cltpk csig : Bytes) : Bytes :=
  Tlv.encode [(T_USERNAME, ident), (T_PUBLIC_KEY, cltpk), (T_PROOF, csig)]

/-- M5: the sub-TLV sealed under HKDF(K, "Pair-Setup-Encrypt-…") with nonce "PS-Msg05" -/
def ctrlM5 (c : Crypto) (K sub : Bytes) : Bytes :=
  Tlv.encode [(T_SEQUENCE_NUM, [5]), (T_ENCRYPTED_DATA, c.aeadEnc (c.hkdf K P3_SALT P3_INFO) NONCE5 sub)]

/-- the plaintext of the accessory's M6 -/
def accSub (ps : PS) (sig : Bytes) : Bytes :=
  Tlv.encode [(T_USERNAME, ps.mac), (T_PUBLIC_KEY, ps.ltpk), (T_PROOF, sig)]

theorem step_M1 (cfg : Cfg) (ps : PS) (salt bRand : Bytes) (hp : ps.paired = []) :
    step cfg ps ⟨ctrlM1, salt, bRand⟩
      = ({ ps with verifier := some (Srp.mk cfg.c.H cfg.G SRP_USER ps.pincode salt (bytesToNat bRand)) },
         .m2 salt (Srp.mk cfg.c.H cfg.G SRP_USER ps.pincode salt (bytesToNat bRand)).Bb, []) := by
  have hd : Tlv.decode ctrlM1 [] = some [(T_SEQUENCE_NUM, [1]), (T_METHOD, [0])] :=
    decode2 _ _ _ _ (by decide)
  simp [step, hp, hd, lookup, pairingOne, Srp.mk, Server.getChallenge, T_SEQUENCE_NUM, T_METHOD]

theorem step_M3 (cfg : Cfg) (ps : PS) (srv : Server) (A M salt bRand : Bytes) (hp : ps.paired = [])
    (hv : ps.verifier = some srv) :
    step cfg ps ⟨ctrlM3 A M, salt, bRand⟩
      = ({ ps with verifier := some (verify (setA cfg.c.H srv A) M).1 },
         (match (verify (setA cfg.c.H srv A) M).2 with | none => Out.m4AuthErr | some h => Out.m4 h), []) := by
  have hd : Tlv.decode (ctrlM3 A M) []
      = some [(T_SEQUENCE_NUM, [3]), (T_PUBLIC_KEY, A), (T_PASSWORD_PROOF, M)] :=
    decode3 _ _ _ _ _ _ (by decide) (by decide) (by decide)
  simp only [step, hp, hd, ne_eq, not_true_eq_false, if_false]
  simp only [lookup, T_SEQUENCE_NUM, T_PUBLIC_KEY, T_PASSWORD_PROOF, pairingTwo, hv]
  simp
  cases h : (verify (setA cfg.c.H srv A) M).2 <;> simp [h, hp]


/-- functional correctness assumed of the libraries (not hardness): decryption inverts encryption
    and the accessory's own signatures verify under its long-term public key -/
structure CryptoOK (c : Crypto) (ltpk : Bytes) : Prop where
  aead : ∀ k n p, c.aeadDec k n (c.aeadEnc k n p) = some p
  accSig : ∀ m, c.sigVerify ltpk (c.sign m) m = some true

theorem step_M5 (cfg : Cfg) (ps : PS) (srv : Server) (ss : Sess) (ident cltpk csig u salt bRand : Bytes)
    (hp : ps.paired = []) (hv : ps.verifier = some srv) (hver : srv.verified = true)
    (hss : srv.sess = some ss) (ok : CryptoOK cfg.c ps.ltpk)
    (huuid : cfg.c.uuidOf ident = some u)
    (hsig : cfg.c.sigVerify cltpk csig (cfg.c.hkdf ss.Kb P4_SALT P4_INFO ++ ident ++ cltpk) = some true) :
    (step cfg ps ⟨ctrlM5 cfg.c ss.Kb (ctrlSub ident cltpk csig), salt, bRand⟩).1
        = { ps with paired := [(u, cltpk, PERM_ADMIN)], verifier := none } ∧
    (step cfg ps ⟨ctrlM5 cfg.c ss.Kb (ctrlSub ident cltpk csig), salt, bRand⟩).2.1
        = .m6 (cfg.c.aeadEnc (cfg.c.hkdf ss.Kb P3_SALT P3_INFO) NONCE6
              (accSub ps (cfg.c.sign (cfg.c.hkdf ss.Kb P5_SALT P5_INFO ++ ps.mac ++ ps.ltpk)))) := by
  have hd : Tlv.decode (ctrlM5 cfg.c ss.Kb (ctrlSub ident cltpk csig)) []
      = some [(T_SEQUENCE_NUM, [5]), (T_ENCRYPTED_DATA,
          cfg.c.aeadEnc (cfg.c.hkdf ss.Kb P3_SALT P3_INFO) NONCE5 (ctrlSub ident cltpk csig))] :=
    decode2 _ _ _ _ (by decide)
  have hsub : Tlv.decode (ctrlSub ident cltpk csig) []
      = some [(T_USERNAME, ident), (T_PUBLIC_KEY, cltpk), (T_PROOF, csig)] :=
    decode3 _ _ _ _ _ _ (by decide) (by decide) (by decide)
  simp only [step, hp, hd, ne_eq, not_true_eq_false, if_false]
  simp only [lookup, T_SEQUENCE_NUM, T_ENCRYPTED_DATA, pairingThree, hv, hver, hss]
  have hsig' := hsig
  simp only [List.append_assoc] at hsig'
  simp [pairingThreeKey, ok.aead, hsub, lookup, T_USERNAME, T_PUBLIC_KEY, T_PROOF, pairingFour, hsig',
    pairingFive, huuid, hp, hv, setPairing, accSub]


/-! ### degenerate `A` (C01) -/

/-- repaired code: an M3 whose `A ≡ 0 (mod N)` is answered M4/authentication-error whatever the
    proof is; no success is recorded and the pairing table is untouched -/
theorem step_M3_degenerate (cfg : Cfg) (ps : PS) (srv : Server) (A M salt bRand : Bytes)
    (hp : ps.paired = []) (hv : ps.verifier = some srv) (hA : bytesToNat A % srv.G.N = 0) :
    step cfg ps ⟨ctrlM3 A M, salt, bRand⟩
      = ({ ps with verifier := some (setA cfg.c.H srv A) }, .m4AuthErr, []) := by
  rw [step_M3 cfg ps srv A M salt bRand hp hv]
  have h : verify (setA cfg.c.H srv A) M = (setA cfg.c.H srv A, none) := by
    simp [verify, setA, mkSess, hA]
  rw [h]

theorem stepLegacy_M1 (cfg : Cfg) (ps : PS) (salt bRand : Bytes) (hp : ps.paired = []) :
    stepLegacy cfg ps ⟨ctrlM1, salt, bRand⟩
      = ({ ps with verifier := some (Srp.mk cfg.c.H cfg.G SRP_USER ps.pincode salt (bytesToNat bRand)) },
         .m2 salt (Srp.mk cfg.c.H cfg.G SRP_USER ps.pincode salt (bytesToNat bRand)).Bb, []) := by
  have hd : Tlv.decode ctrlM1 [] = some [(T_SEQUENCE_NUM, [1]), (T_METHOD, [0])] :=
    decode2 _ _ _ _ (by decide)
  simp [stepLegacy, hp, hd, lookup, pairingOne, Srp.mk, Server.getChallenge, T_SEQUENCE_NUM, T_METHOD]

theorem stepLegacy_M3 (cfg : Cfg) (ps : PS) (srv : Server) (A M salt bRand : Bytes) (hp : ps.paired = [])
    (hv : ps.verifier = some srv) :
    stepLegacy cfg ps ⟨ctrlM3 A M, salt, bRand⟩
      = ({ ps with verifier := some (setALegacy cfg.c.H srv A) },
         (match verifyLegacy (setALegacy cfg.c.H srv A) M with
          | none => Out.m4AuthErr | some h => Out.m4 h), []) := by
  have hd : Tlv.decode (ctrlM3 A M) []
      = some [(T_SEQUENCE_NUM, [3]), (T_PUBLIC_KEY, A), (T_PASSWORD_PROOF, M)] :=
    decode3 _ _ _ _ _ _ (by decide) (by decide) (by decide)
  simp only [stepLegacy, hp, hd, ne_eq, not_true_eq_false, if_false]
  simp only [lookup, T_SEQUENCE_NUM, T_PUBLIC_KEY, T_PASSWORD_PROOF, pairingTwoLegacy, hv]
  simp
  cases h : verifyLegacy (setALegacy cfg.c.H srv A) M <;> simp [h, hp]

/-- a transparent crypto instance (satisfies `CryptoOK`); used for non-vacuity examples and for the
    concrete legacy counterexamples -/
def toyCrypto : Crypto where
  H d := 0 :: d
  hkdf k s i := k ++ s ++ i
  aeadEnc k _ p := p ++ k
  aeadDec k _ c := if c.drop (c.length - k.length) = k then some (c.take (c.length - k.length)) else none
  sigVerify pk sg m := some (sg = pk ++ m)
  sign m := [7] ++ m
  uuidOf b := some b

theorem toyCrypto_ok : CryptoOK toyCrypto [7] := by
  constructor
  · intro k n p; simp [toyCrypto]
  · intro m; simp [toyCrypto]

end Hap.PairSetup
