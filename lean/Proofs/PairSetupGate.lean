/-
  The C01 gate: which states and requests can make the pair-setup model emit
  O1 (M4 with the server proof), O2 (M6 with the accessory identity), O3 (a recorded pairing).
  Core Lean only (no algebra needed): every lemma is a case analysis of `step`.
-/
import HapModel.PairSetup
namespace Hap.PairSetup
open Hap Hap.Tlv Hap.Srp

/-- has the current verifier recorded a successful `verify` since its last `set_A`? -/
def verifiedNow (ps : PS) : Bool :=
  match ps.verifier with
  | some srv => srv.verified
  | none => false

/-- "the peer demonstrates knowledge of the code with this request": on an unpaired accessory, an M3
    for the current SRP session whose proof equals the proof expected for its own `A`, `A mod N ≠ 0`. -/
def goodM3 (cfg : Cfg) (ps : PS) (r : Req) : Bool :=
  ps.paired.isEmpty &&
  match Tlv.decode r.body [] with
  | none => false
  | some t =>
    (lookup t T_SEQUENCE_NUM == some [3]) &&
    match lookup t T_PUBLIC_KEY, lookup t T_PASSWORD_PROOF, ps.verifier with
    | some A, some M, some srv => ((mkSess cfg.c.H srv A).M == M) && (bytesToNat A % srv.G.N != 0)
    | _, _, _ => false

def isM2 : Out → Bool
  | .m2 _ _ => true
  | _ => false

/-- O1: an M4 that carries the server proof -/
def isO1 : Out → Bool
  | .m4 _ => true
  | _ => false

/-- O2: an M6 that carries the encrypted accessory identity (this is also the only answer that sets
    `pairing_changed`) -/
def isO2 : Out → Bool
  | .m6 _ => true
  | _ => false

theorem pairingChanged_iff (o : Out) : (render o).pairingChanged = isO2 o := by
  cases o <;> rfl

theorem verify_verified (srv : Server) (M : Bytes) :
    (verify srv M).1.verified = (verify srv M).2.isSome := by
  unfold verify
  split
  · rfl
  · next ss _ => by_cases h : (ss.A % srv.G.N != 0 && ss.M == M) = true <;> simp [h]

theorem verify_setA_some (H : Bytes → Bytes) (srv : Server) (A M : Bytes) :
    (verify (setA H srv A) M).2.isSome = (((mkSess H srv A).M == M) && (bytesToNat A % srv.G.N != 0)) := by
  simp only [verify, setA]
  have hA : (mkSess H srv A).A = bytesToNat A := rfl
  rw [hA]
  by_cases h1 : (bytesToNat A % srv.G.N != 0) = true <;>
    by_cases h2 : ((mkSess H srv A).M == M) = true <;> simp [h1, h2]

/-- the M3 branch of `step` in closed form -/
theorem pairingTwo_spec (cfg : Cfg) (ps : PS) (t : Items) :
    (∃ A M srv, lookup t T_PUBLIC_KEY = some A ∧ lookup t T_PASSWORD_PROOF = some M ∧
        ps.verifier = some srv ∧
        (pairingTwo cfg ps t).1 = { ps with verifier := some (verify (setA cfg.c.H srv A) M).1 } ∧
        (pairingTwo cfg ps t).2.1
          = (match (verify (setA cfg.c.H srv A) M).2 with | none => Out.m4AuthErr | some h => Out.m4 h))
    ∨ ((lookup t T_PUBLIC_KEY = none ∨ lookup t T_PASSWORD_PROOF = none ∨ ps.verifier = none) ∧
        (pairingTwo cfg ps t).1 = ps ∧ (pairingTwo cfg ps t).2.1 = .err500) := by
  unfold pairingTwo
  cases hA : lookup t T_PUBLIC_KEY with
  | none => right; simp
  | some A =>
    cases hM : lookup t T_PASSWORD_PROOF with
    | none => right; simp
    | some M =>
      cases hv : ps.verifier with
      | none => right; simp
      | some srv =>
        left
        refine ⟨A, M, srv, rfl, rfl, rfl, ?_, ?_⟩ <;>
          cases h : (verify (setA cfg.c.H srv A) M).2 <;> simp [h]


/-- the four shapes a step can have, with everything the gate needs to know about each -/
inductive Shape (cfg : Cfg) (ps : PS) (r : Req) (ps' : PS) (o : Out) : Prop
  /-- refused / ignored / failed: the state is untouched and nothing authorised is emitted -/
  | noop (hs : ps' = ps) (h1 : isO1 o = false) (h2 : isO2 o = false) (hm : isM2 o = false)
      (hg : goodM3 cfg ps r = false)
  /-- M1 served: a fresh, unverified verifier replaces the old one -/
  | m1 (srv : Server) (hs : ps' = { ps with verifier := some srv }) (hv : srv.verified = false)
      (hm : isM2 o = true) (h1 : isO1 o = false) (h2 : isO2 o = false) (hg : goodM3 cfg ps r = false)
  /-- M3 served: the proof is emitted and success recorded exactly when the request is a good M3 -/
  | m3 (srv : Server) (hs : ps' = { ps with verifier := some srv })
      (hv : srv.verified = goodM3 cfg ps r) (h1 : isO1 o = goodM3 cfg ps r) (h2 : isO2 o = false)
      (hm : isM2 o = false)
  /-- M5 served successfully: only from a verified state; the exchange is consumed (verifier discarded) -/
  | m5 (hver : verifiedNow ps = true) (hs : ps'.verifier = none) (h2 : isO2 o = true)
      (h1 : isO1 o = false) (hm : isM2 o = false) (hg : goodM3 cfg ps r = false)

theorem pairingFive_spec (cfg : Cfg) (ps : PS) (Kb user cltpk encKey : Bytes) (calls : List Call) :
    ((pairingFive cfg ps Kb user cltpk encKey calls).1 = ps ∧
        (pairingFive cfg ps Kb user cltpk encKey calls).2.1 = .err500)
    ∨ ((pairingFive cfg ps Kb user cltpk encKey calls).1.verifier = none ∧
        isO2 (pairingFive cfg ps Kb user cltpk encKey calls).2.1 = true) := by
  unfold pairingFive
  cases cfg.c.uuidOf user with
  | none => left; simp
  | some u => right; simp [isO2]

theorem pairingFour_spec (cfg : Cfg) (ps : PS) (Kb user cltpk cproof encKey : Bytes) (calls : List Call) :
    ((pairingFour cfg ps Kb user cltpk cproof encKey calls).1 = ps ∧
        (pairingFour cfg ps Kb user cltpk cproof encKey calls).2.1 = .err500)
    ∨ ((pairingFour cfg ps Kb user cltpk cproof encKey calls).1.verifier = none ∧
        isO2 (pairingFour cfg ps Kb user cltpk cproof encKey calls).2.1 = true) := by
  unfold pairingFour
  simp only []
  split
  · left; simp
  · left; simp
  · exact pairingFive_spec ..

theorem pairingThreeKey_spec (cfg : Cfg) (ps : PS) (Kb ed : Bytes) :
    ((pairingThreeKey cfg ps Kb ed).1 = ps ∧
        ((pairingThreeKey cfg ps Kb ed).2.1 = .err500 ∨ (pairingThreeKey cfg ps Kb ed).2.1 = .m6AuthErr))
    ∨ ((pairingThreeKey cfg ps Kb ed).1.verifier = none ∧
        isO2 (pairingThreeKey cfg ps Kb ed).2.1 = true) := by
  unfold pairingThreeKey
  simp only []
  split
  · left; simp
  · split
    · left; simp
    · split
      · left; simp
      · split
        · left; simp
        · split
          · left; simp
          · rcases pairingFour_spec cfg ps Kb _ _ _ _ _ with h | h
            · left; exact ⟨h.1, Or.inl h.2⟩
            · right; exact h

theorem pairingThree_spec (cfg : Cfg) (ps : PS) (t : Items) :
    ((pairingThree cfg ps t).1 = ps ∧
        ((pairingThree cfg ps t).2.1 = .err500 ∨ (pairingThree cfg ps t).2.1 = .m6AuthErr))
    ∨ (verifiedNow ps = true ∧ (pairingThree cfg ps t).1.verifier = none ∧
        isO2 (pairingThree cfg ps t).2.1 = true) := by
  unfold pairingThree
  split
  · left; simp
  · split
    · left; simp
    · next srv hv =>
      by_cases hver : srv.verified = true
      · simp only [hver, Bool.not_true, Bool.false_eq_true, if_false]
        split
        · left; simp
        · rcases pairingThreeKey_spec cfg ps _ _ with h | h
          · left; exact h
          · right; exact ⟨by simp [verifiedNow, hv, hver], h⟩
      · left; simp [hver]

theorem goodM3_seq (cfg : Cfg) (ps : PS) (r : Req) (t : Items) (seq : Bytes)
    (hd : Tlv.decode r.body [] = some t) (hs : lookup t T_SEQUENCE_NUM = some seq) (hne : seq ≠ [3]) :
    goodM3 cfg ps r = false := by
  simp [goodM3, hd, hs, hne]

theorem step_paired (cfg : Cfg) (ps : PS) (r : Req) (hp : ps.paired ≠ []) :
    step cfg ps r = (ps, .unavailable, []) := by
  simp [step, hp]

theorem step_nodecode (cfg : Cfg) (ps : PS) (r : Req) (hp : ps.paired = [])
    (hd : Tlv.decode r.body [] = none) : step cfg ps r = (ps, .err500, []) := by
  simp [step, hp, hd]

theorem step_noseq (cfg : Cfg) (ps : PS) (r : Req) (t : Items) (hp : ps.paired = [])
    (hd : Tlv.decode r.body [] = some t) (hs : lookup t T_SEQUENCE_NUM = none) :
    step cfg ps r = (ps, .err500, []) := by
  simp [step, hp, hd, hs]

theorem step_seq (cfg : Cfg) (ps : PS) (r : Req) (t : Items) (seq : Bytes) (hp : ps.paired = [])
    (hd : Tlv.decode r.body [] = some t) (hs : lookup t T_SEQUENCE_NUM = some seq) :
    step cfg ps r =
      if seq = [1] then pairingOne cfg ps r
      else if seq = [3] then pairingTwo cfg ps t
      else if seq = [5] then pairingThree cfg ps t
      else (ps, .silent, []) := by
  simp [step, hp, hd, hs]

/-- every step has one of the four shapes -/
theorem step_shape (cfg : Cfg) (ps : PS) (r : Req) :
    Shape cfg ps r (step cfg ps r).1 (step cfg ps r).2.1 := by
  by_cases hp : ps.paired = []
  · cases hd : Tlv.decode r.body [] with
    | none =>
      rw [step_nodecode cfg ps r hp hd]
      exact .noop rfl rfl rfl rfl (by simp [goodM3, hd])
    | some t =>
      cases hs : lookup t T_SEQUENCE_NUM with
      | none =>
        rw [step_noseq cfg ps r t hp hd hs]
        exact .noop rfl rfl rfl rfl (by simp [goodM3, hd, hs])
      | some seq =>
        rw [step_seq cfg ps r t seq hp hd hs]
        by_cases h1 : seq = [1]
        · rw [if_pos h1]
          exact .m1 _ rfl rfl rfl rfl rfl (goodM3_seq cfg ps r t seq hd hs (by simp [h1]))
        · rw [if_neg h1]
          by_cases h3 : seq = [3]
          · rw [if_pos h3]
            subst h3
            rcases pairingTwo_spec cfg ps t with ⟨A, M, srv, hA, hM, hv, e1, e2⟩ | ⟨hnone, e1, e2⟩
            · have hgood : goodM3 cfg ps r = (verify (setA cfg.c.H srv A) M).2.isSome := by
                rw [verify_setA_some]
                simp [goodM3, hp, hd, hs, hA, hM, hv]
              refine .m3 (verify (setA cfg.c.H srv A) M).1 e1 ?_ ?_ ?_ ?_
              · rw [verify_verified, hgood]
              · rw [e2, hgood]; cases (verify (setA cfg.c.H srv A) M).2 <;> rfl
              · rw [e2]; cases (verify (setA cfg.c.H srv A) M).2 <;> rfl
              · rw [e2]; cases (verify (setA cfg.c.H srv A) M).2 <;> rfl
            · refine .noop e1 (by rw [e2]; rfl) (by rw [e2]; rfl) (by rw [e2]; rfl) ?_
              rcases hnone with h | h | h
              · simp [goodM3, hd, hs, h]
              · cases hA : lookup t T_PUBLIC_KEY <;> simp [goodM3, hd, hs, h, hA]
              · cases hA : lookup t T_PUBLIC_KEY <;> cases hM : lookup t T_PASSWORD_PROOF <;>
                  simp [goodM3, hd, hs, h, hA, hM]
          · rw [if_neg h3]
            have hg : goodM3 cfg ps r = false := goodM3_seq cfg ps r t seq hd hs h3
            by_cases h5 : seq = [5]
            · rw [if_pos h5]
              rcases pairingThree_spec cfg ps t with ⟨e1, e2 | e2⟩ | ⟨hver, e1, e2⟩
              · exact .noop e1 (by rw [e2]; rfl) (by rw [e2]; rfl) (by rw [e2]; rfl) hg
              · exact .noop e1 (by rw [e2]; rfl) (by rw [e2]; rfl) (by rw [e2]; rfl) hg
              · refine .m5 hver e1 e2 ?_ ?_ hg
                · cases h : (pairingThree cfg ps t).2.1 <;> simp_all [isO1, isO2]
                · cases h : (pairingThree cfg ps t).2.1 <;> simp_all [isM2, isO2]
            · rw [if_neg h5]
              exact .noop rfl rfl rfl rfl hg
  · rw [step_paired cfg ps r hp]
    refine .noop rfl rfl rfl rfl ?_
    have : ps.paired.isEmpty = false := by
      cases h : ps.paired with
      | nil => exact absurd h hp
      | cons _ _ => rfl
    simp [goodM3, this]


/-! ### bystander events -/

theorem run_eq (cfg : Cfg) (ps : PS) (r : Req) (rs : List Req) :
    run cfg ps (r :: rs)
      = ((run cfg (step cfg ps r).1 rs).1, (step cfg ps r).2.1 :: (run cfg (step cfg ps r).1 rs).2) := by
  simp [run]

/-- bystander events are invisible to pair-setup: a history of events in which the accessory is not
    unpaired by its owner behaves exactly like the sequence of its pair-setup requests -/
theorem runEv_eq_run (cfg : Cfg) (evs : List Ev) : ∀ ps, (∀ e ∈ evs, e.isOwner = false) →
    runEv cfg ps evs = run cfg ps (reqsOf evs) := by
  induction evs with
  | nil => intro ps _; rfl
  | cons e es ih =>
    intro ps h
    have hes : ∀ e' ∈ es, e'.isOwner = false := fun e' he' => h e' (List.mem_cons_of_mem _ he')
    cases e with
    | req r => simp only [runEv, stepEv, reqsOf, ih _ hes]; rw [run_eq]
    | connLost => simp only [runEv, stepEv, reqsOf, ih _ hes]
    | other => simp only [runEv, stepEv, reqsOf, ih _ hes]
    | unpair => exact absurd (h _ (List.mem_cons_self)) (by simp [Ev.isOwner])
    | setCode c => exact absurd (h _ (List.mem_cons_self)) (by simp [Ev.isOwner])

/-- a served M1 always installs a fresh, unverified verifier made from this request's randomness,
    whatever verifier (or none) was there before -/
theorem m1_fresh (cfg : Cfg) (ps : PS) (r : Req) (t : Items) (hp : ps.paired = [])
    (hd : Tlv.decode r.body [] = some t) (hs : lookup t T_SEQUENCE_NUM = some [1]) :
    (step cfg ps r).1.verifier
        = some (Srp.mk cfg.c.H cfg.G SRP_USER ps.pincode r.salt (bytesToNat r.bRand)) ∧
    verifiedNow (step cfg ps r).1 = false ∧
    (step cfg ps r).2.1
        = .m2 r.salt (Srp.mk cfg.c.H cfg.G SRP_USER ps.pincode r.salt (bytesToNat r.bRand)).Bb := by
  rw [step_seq cfg ps r t [1] hp hd hs]
  simp [pairingOne, verifiedNow, Srp.mk, Server.getChallenge]

/-- no request changes the accessory's setup code, identifier or long-term key -/
theorem step_identity (cfg : Cfg) (ps : PS) (r : Req) :
    (step cfg ps r).1.pincode = ps.pincode ∧ (step cfg ps r).1.mac = ps.mac ∧
    (step cfg ps r).1.ltpk = ps.ltpk := by
  unfold step pairingOne pairingTwo pairingThree pairingThreeKey pairingFour pairingFive
  simp only []
  repeat' split
  all_goals simp

/-! ### histories -/

/-- Specification ghost, independent of the code's own record: "in the exchange opened by the most
    recent M2 answer, the peer has sent an M3 whose proof is the expected one for its `A`, `A mod N ≠ 0`".
    Reset by every served M1, set by a good M3, and used up by an accepted M5 (O2): the exchange is
    single use. -/
def ghostNext (cfg : Cfg) (ps : PS) (d : Bool) (r : Req) : Bool :=
  if isM2 (step cfg ps r).2.1 || isO2 (step cfg ps r).2.1 then false else d || goodM3 cfg ps r

/-- one served request: state before, ghost before, request, state after, answer -/
structure Event where
  pre : PS
  demo : Bool
  req : Req
  post : PS
  out : Out

/-- the events of a whole request sequence -/
def trace (cfg : Cfg) : PS → Bool → List Req → List Event
  | _, _, [] => []
  | ps, d, r :: rs =>
    ⟨ps, d, r, (step cfg ps r).1, (step cfg ps r).2.1⟩
      :: trace cfg (step cfg ps r).1 (ghostNext cfg ps d r) rs

theorem shape_paired {cfg : Cfg} {ps : PS} {r : Req} {ps' : PS} {o : Out}
    (h : Shape cfg ps r ps' o) (hne : ps'.paired ≠ ps.paired) : verifiedNow ps = true := by
  cases h with
  | noop hs => subst hs; exact absurd rfl hne
  | m1 srv hs => subst hs; exact absurd rfl hne
  | m3 srv hs => subst hs; exact absurd rfl hne
  | m5 hver => exact hver

/-- the code's record implies the specification ghost, and this is preserved by every step -/
theorem inv_step (cfg : Cfg) (ps : PS) (d : Bool) (r : Req)
    (hinv : verifiedNow ps = true → d = true) :
    verifiedNow (step cfg ps r).1 = true → ghostNext cfg ps d r = true := by
  intro hv
  unfold ghostNext
  cases step_shape cfg ps r with
  | noop hs h1 h2 hm hg => rw [hs] at hv; simp [hm, h2, hg, hinv hv]
  | m1 srv hs hvf => rw [hs] at hv; simp [verifiedNow, hvf] at hv
  | m3 srv hs hvf h1 h2 hm =>
    rw [hs] at hv
    have : goodM3 cfg ps r = true := by simpa [verifiedNow, hvf] using hv
    simp [hm, h2, this]
  | m5 hver hs h2 h1 hm hg => simp [verifiedNow, hs] at hv

/-- **Gate, all histories.**  Along any request sequence started in a state whose record implies the
    ghost: an M4 carrying the proof is only ever the answer to a good M3, and an M6 carrying the
    accessory identity or a change of the pairing table only ever happens when the peer has
    demonstrated knowledge of the code in the current exchange. -/
theorem gate_trace (cfg : Cfg) (rs : List Req) : ∀ (ps : PS) (d : Bool),
    (verifiedNow ps = true → d = true) →
    ∀ e ∈ trace cfg ps d rs,
      (isO1 e.out = true → goodM3 cfg e.pre e.req = true) ∧
      ((isO2 e.out = true ∨ e.post.paired ≠ e.pre.paired) → e.demo = true) := by
  induction rs with
  | nil => intro ps d _ e he; simp [trace] at he
  | cons r rs ih =>
    intro ps d hinv e he
    simp only [trace, List.mem_cons] at he
    rcases he with rfl | he
    · refine ⟨?_, ?_⟩
      · intro h1
        cases step_shape cfg ps r with
        | noop hs h1' => simp [h1'] at h1
        | m1 srv hs hv hm h1' => simp [h1'] at h1
        | m3 srv hs hv h1' => simpa [h1'] using h1
        | m5 hver hs h2 h1' => simp [h1'] at h1
      · rintro (h2 | hp)
        · cases step_shape cfg ps r with
          | noop hs h1 h2' => simp [h2'] at h2
          | m1 srv hs hv hm h1 h2' => simp [h2'] at h2
          | m3 srv hs hv h1 h2' => simp [h2'] at h2
          | m5 hver => exact hinv hver
        · exact hinv (shape_paired (step_shape cfg ps r) hp)
    · exact ih _ _ (inv_step cfg ps d r hinv) e he

/-- if no request of the sequence is a good M3, the ghost stays false -/
theorem ghost_false (cfg : Cfg) (rs : List Req) : ∀ (ps : PS),
    (∀ e ∈ trace cfg ps false rs, goodM3 cfg e.pre e.req = false) →
    ∀ e ∈ trace cfg ps false rs, e.demo = false := by
  induction rs with
  | nil => intro ps _ e he; simp [trace] at he
  | cons r rs ih =>
    intro ps hno e he
    have hg : goodM3 cfg ps r = false :=
      hno ⟨ps, false, r, (step cfg ps r).1, (step cfg ps r).2.1⟩ (by simp [trace])
    have hnext : ghostNext cfg ps false r = false := by
      unfold ghostNext; split <;> simp [hg]
    simp only [trace, List.mem_cons] at he
    rcases he with rfl | he
    · rfl
    · refine ih _ ?_ e (by rw [hnext] at he; exact he)
      intro e' he'
      exact hno e' (by simp only [trace, List.mem_cons]; right; rw [hnext]; exact he')


/-! ### histories of events (requests, bystander activity, the owner unpairing the accessory) -/

/-- the pair-setup requests served along a history of events, each with the state and the ghost in
    which it was served; an `unpair` empties the pairing table and leaves everything else (verifier,
    ghost) as it is -/
def traceEv (cfg : Cfg) : PS → Bool → List Ev → List Event
  | _, _, [] => []
  | ps, d, .req r :: es =>
    ⟨ps, d, r, (step cfg ps r).1, (step cfg ps r).2.1⟩
      :: traceEv cfg (step cfg ps r).1 (ghostNext cfg ps d r) es
  | ps, d, .unpair :: es => traceEv cfg { ps with paired := [] } d es
  | ps, d, .setCode c :: es => traceEv cfg { ps with pincode := c } d es
  | ps, d, .connLost :: es => traceEv cfg ps d es
  | ps, d, .other :: es => traceEv cfg ps d es

/-- the gate over all histories of events -/
theorem gate_traceEv (cfg : Cfg) (evs : List Ev) : ∀ (ps : PS) (d : Bool),
    (verifiedNow ps = true → d = true) →
    ∀ e ∈ traceEv cfg ps d evs,
      (isO1 e.out = true → goodM3 cfg e.pre e.req = true) ∧
      ((isO2 e.out = true ∨ e.post.paired ≠ e.pre.paired) → e.demo = true) := by
  induction evs with
  | nil => intro ps d _ e he; simp [traceEv] at he
  | cons ev evs ih =>
    intro ps d hinv e he
    cases ev with
    | req r =>
      simp only [traceEv, List.mem_cons] at he
      rcases he with rfl | he
      · exact gate_trace cfg [r] ps d hinv _ (by simp [trace])
      · exact ih _ _ (inv_step cfg ps d r hinv) e he
    | unpair =>
      exact ih { ps with paired := [] } d (by simpa [verifiedNow] using hinv) e (by simpa [traceEv] using he)
    | setCode c =>
      exact ih { ps with pincode := c } d (by simpa [verifiedNow] using hinv) e (by simpa [traceEv] using he)
    | connLost => exact ih _ _ hinv e (by simpa [traceEv] using he)
    | other => exact ih _ _ hinv e (by simpa [traceEv] using he)

end Hap.PairSetup
