/-
  C01: the Dolev–Yao attacker of `Proofs/PairSetupSym.lean` against the EXECUTABLE accessory
  (`HapModel/PairSetup.lean`, the model that the differential run ties to pyhap), not against a separate
  symbolic accessory.

  * `interp` gives every symbolic term its byte denotation, computed with the executable model's own
    functions (`Srp.mk`, `mkSess`, the configured hash): `bval salt b` denotes the `B` that
    `setup_srp_verifier` publishes, `skey salt b A` the premaster secret `set_A` computes, and
    `expM salt b A` — field by field — the proof `verify` expects (`interp_expM`, a theorem).
  * The hybrid system: the accessory is `PairSetup.step` on BYTES.  The attacker owns a knowledge set of
    TERMS; every request it sends is arbitrary bytes, except that the `A` and `M` items of a complete M3
    are denotations of terms it can derive (a symbolic attacker does not guess a 64-byte proof).  The
    randomness a served M1 consumes denotes fresh atoms; what the accessory answers is learnt.
  * Hardness enters as ONE hypothesis, `NoForge` (DESIGN 2.2, "SRP-6a is a PAKE for A ≢ 0 mod N" + hash
    collision freedom, made precise): for a public value `A ≢ 0 (mod N)`, no term that is `safe` — i.e.
    computable without the setup code, honest secrets and session secrets — denotes the bytes of the
    proof expected in an exchange made from a public salt atom and a SECRET atom `b`.  The restriction to `A ≢ 0` is essential: for `A ≡ 0` such a term exists (this is the
    defect the repair removed), and the executable model refuses those `A` by itself (`C01_reject_kN`).
  * `hybrid_secure`: from a driver without verifier and safe knowledge, along every run, the knowledge
    stays safe and NO request is answered with the accessory's proof, with M6, or by recording a pairing.
  Core Lean only.
-/
import Proofs.PairSetupOrigin
import Proofs.PairSetupSym
namespace Hap.PairSetupHybrid
open Hap Hap.Tlv Hap.Srp Hap.PairSetup Hap.PairSetupSym
open Hap.PairSetupSym.Tm

/-- an interpretation of the symbolic world: the accessory's configuration and setup code, and the byte
    values of the atoms -/
structure Interp where
  cfg : Cfg
  code : Bytes
  nonceB : Nat → Bytes
  secB : Nat → Bytes

/-- the verifier `setup_srp_verifier` builds from the code, a salt and a secret -/
def Interp.srv (I : Interp) (salt b : Bytes) : Server :=
  Srp.mk I.cfg.c.H I.cfg.G SRP_USER I.code salt (bytesToNat b)

/-- byte denotation of a term, computed with the executable model's own functions -/
def interp (I : Interp) : Tm → Bytes
  | .code => I.code
  | .nonce n => I.nonceB n
  | .sec n => I.secB n
  | .zero => []
  | .pair a b => interp I a ++ interp I b
  | .hsh t => I.cfg.c.H (interp I t)
  | .gexp a => natToBytes (powMod I.cfg.G.g (bytesToNat (interp I a)) I.cfg.G.N)
  | .bval salt b => (I.srv (interp I salt) (interp I b)).Bb
  | .skey salt b A => (mkSess I.cfg.c.H (I.srv (interp I salt) (interp I b)) (interp I A)).Sb
  | .aenc k m => I.cfg.c.aeadEnc (interp I k) NONCE5 (interp I m)
  | .sign sk m => interp I sk ++ interp I m
  | .pk sk => interp I sk

/-- the public constant `nonce 0` denotes the group/user prefix of the proof format -/
def PubConst (I : Interp) : Prop :=
  I.nonceB 0 = xorBytes (I.cfg.c.H (natToBytes I.cfg.G.N)) (I.cfg.c.H (natToBytes I.cfg.G.g))
                ++ I.cfg.c.H SRP_USER

/-- the exchange a pair of (salt, secret) terms denotes -/
def exchOf (I : Interp) (sb : Tm × Tm) : Exch := ⟨I.code, interp I sb.1, bytesToNat (interp I sb.2)⟩

theorem srvOf_exchOf (I : Interp) (sb : Tm × Tm) :
    srvOf I.cfg (exchOf I sb) = I.srv (interp I sb.1) (interp I sb.2) := rfl

/-- **Format faithfulness**: for `A ≠ zero` the symbolic expected proof denotes exactly the proof the
    executable `verify` compares with, and the symbolic accessory proof denotes the `HAMK` it returns. -/
theorem interp_expM (I : Interp) (hpub : PubConst I) (salt b A : Tm) (hA : A ≠ zero) :
    interp I (expM salt b A) = (sessOf I.cfg (exchOf I (salt, b)) (interp I A)).M ∧
    interp I (PairSetupSym.hamk salt b A) = (sessOf I.cfg (exchOf I (salt, b)) (interp I A)).HAMK := by
  unfold PubConst at hpub
  have hM : interp I (expM salt b A) = (sessOf I.cfg (exchOf I (salt, b)) (interp I A)).M := by
    simp only [expM, sessS, hA, if_false, interp, sessOf, srvOf_exchOf, mkSess, proofM, hpub]
    simp [Interp.srv, Srp.mk, List.append_assoc]
  refine ⟨hM, ?_⟩
  have : interp I (PairSetupSym.hamk salt b A)
      = I.cfg.c.H (interp I A ++ (interp I (expM salt b A)
          ++ I.cfg.c.H (mkSess I.cfg.c.H (I.srv (interp I salt) (interp I b)) (interp I A)).Sb)) := by
    simp only [PairSetupSym.hamk, sessS, hA, if_false, interp]
  rw [this, hM]
  simp [sessOf, srvOf_exchOf, mkSess, List.append_assoc]

/-- `zero` denotes a degenerate public value -/
theorem interp_zero_degenerate (I : Interp) : bytesToNat (interp I zero) % I.cfg.G.N = 0 := by
  simp [interp, bytesToNat]

/-- **The hardness assumption**, as a hypothesis on the interpretation: for a non-degenerate `A`, no
    term computable without the code / honest secrets / session secrets (`safe`) denotes the bytes of
    the expected proof. -/
def NoForge (I : Interp) : Prop :=
  ∀ Mt k n At, safe Mt → bytesToNat (interp I At) % I.cfg.G.N ≠ 0 →
    interp I Mt ≠ interp I (expM (nonce k) (sec n) At)

/-! ### the hybrid system -/

structure HState where
  ps : PS
  g : Ghost
  kn : Tm → Prop
  /-- the (salt, secret) terms of the open exchange -/
  cur : Option (Tm × Tm)
  /-- number of requests served so far: request `n` draws the fresh atoms `nonce (2n+4)`, `sec n` -/
  n : Nat

def freshSalt (n : Nat) : Tm := nonce (2 * n + 4)
def freshSec (n : Nat) : Tm := sec n

/-- a request that is not an M3 carrying both an `A` and a proof item -/
def completeM3 (r : Req) : Bool :=
  match Tlv.decode r.body [] with
  | none => false
  | some t => (lookup t T_SEQUENCE_NUM == some [3]) && (lookup t T_PUBLIC_KEY).isSome &&
      (lookup t T_PASSWORD_PROOF).isSome

/-- what the attacker may send in state `s`: ANY bytes, except that the `A` and proof items of a complete
    M3 denote terms it can derive (`am` remembers them) -/
inductive Sendable (I : Interp) (s : HState) : Req → Option (Tm × Tm) → Prop
  | sym (r : Req) (At Mt : Tm) (dA : Der s.kn At) (dM : Der s.kn Mt)
      (hA : reqA r = some (interp I At)) (hM : reqM r = some (interp I Mt)) : Sendable I s r (some (At, Mt))
  | other (r : Req) (h : completeM3 r = false) : Sendable I s r none

/-- what the attacker learns from an answer: M2 teaches `(salt, B)`, an M4 with the proof teaches `HAMK`;
    error answers are public constants.  (An M6 is never produced: `hybrid_secure`.) -/
def learnAns (s : HState) (am : Option (Tm × Tm)) : Out → (Tm → Prop)
  | .m2 _ _ => learn s.kn (pair (freshSalt s.n) (bval (freshSalt s.n) (freshSec s.n)))
  | .m4 _ =>
    match s.cur, am with
    | some (salt, b), some (At, _) => learn s.kn (PairSetupSym.hamk salt b At)
    | _, _ => s.kn
  | _ => s.kn

def curNext (s : HState) (o : Out) : Option (Tm × Tm) :=
  if isM2 o then some (freshSalt s.n, freshSec s.n) else if isO2 o then none else s.cur

/-- one move: a request of the attacker served by the executable accessory (the randomness a served M1
    would consume denotes this request's fresh atoms), or the owner unpairing the accessory -/
inductive HStep (I : Interp) : HState → Option XEvent → HState → Prop
  | req (s : HState) (r : Req) (am : Option (Tm × Tm)) (hs : Sendable I s r am)
      (hsalt : r.salt = interp I (freshSalt s.n)) (hb : r.bRand = interp I (freshSec s.n)) :
      HStep I s (some ⟨s.ps, s.g, r, (step I.cfg s.ps r).1, (step I.cfg s.ps r).2.1⟩)
        { ps := (step I.cfg s.ps r).1, g := gNext I.cfg s.ps s.g r,
          kn := learnAns s am (step I.cfg s.ps r).2.1, cur := curNext s (step I.cfg s.ps r).2.1,
          n := s.n + 1 }
  | unpair (s : HState) : HStep I s none { s with ps := { s.ps with paired := [] } }

/-- runs, with the served requests in reverse order -/
inductive HReach (I : Interp) (s0 : HState) : HState → List XEvent → Prop
  | refl : HReach I s0 s0 []
  | step {s s' es} (e : Option XEvent) : HReach I s0 s es → HStep I s e s' →
      HReach I s0 s' (match e with | some x => x :: es | none => es)

structure HInv (I : Interp) (s : HState) : Prop where
  ginv : GInv I.cfg s.ps s.g
  code : s.ps.pincode = I.code
  safe : ∀ t, s.kn t → safe t
  unverified : verifiedNow s.ps = false
  cur : s.g.exch = s.cur.map (exchOf I)
  /-- the open exchange was made from a public salt atom and a secret atom -/
  atoms : ∀ sb, s.cur = some sb → ∃ k n, sb = (nonce k, sec n)

theorem goodM3_complete (cfg : Cfg) (ps : PS) (r : Req) (h : goodM3 cfg ps r = true) :
    completeM3 r = true := by
  unfold goodM3 at h
  unfold completeM3
  cases hd : Tlv.decode r.body [] with
  | none => simp [hd] at h
  | some t =>
    simp only [hd, Bool.and_eq_true] at h ⊢
    obtain ⟨_, hseq, hrest⟩ := h
    cases hA : lookup t T_PUBLIC_KEY <;> cases hM : lookup t T_PASSWORD_PROOF <;>
      simp_all

/-- the core step: in a state satisfying the invariant no sendable request is a good M3 -/
theorem no_good_m3 (I : Interp) (hpub : PubConst I) (hnf : NoForge I) (s : HState) (hi : HInv I s)
    (r : Req) (am : Option (Tm × Tm)) (hs : Sendable I s r am) : goodM3 I.cfg s.ps r = false := by
  cases hg : goodM3 I.cfg s.ps r with
  | false => rfl
  | true =>
    exfalso
    cases hs with
    | other h => rw [goodM3_complete I.cfg s.ps r hg] at h; exact absurd h (by decide)
    | sym At Mt dA dM hA hM =>
      have h1 : isO1 (step I.cfg s.ps r).2.1 = true := by rw [← goodM3_eq_isO1]; exact hg
      obtain ⟨x, A, M, hx, hA', hM', hMe, hAne, _⟩ := (gate_code_step I.cfg s.ps s.g r hi.ginv).1 h1
      rw [hA] at hA'
      rw [hM] at hM'
      simp only [Option.some.injEq] at hA' hM'
      subst hA' hM'
      -- the open exchange denotes the current (salt, secret) terms
      have hcur := hi.cur
      rw [hx] at hcur
      cases hc : s.cur with
      | none => rw [hc] at hcur; simp at hcur
      | some sb =>
        rw [hc] at hcur
        simp only [Option.map_some, Option.some.injEq] at hcur
        have hAz : At ≠ zero := by
          intro h; subst h
          exact hAne (interp_zero_degenerate I)
        have hfmt := (interp_expM I hpub sb.1 sb.2 At hAz).1
        have : interp I Mt = interp I (expM sb.1 sb.2 At) := by
          rw [hfmt, hMe, hcur]
        obtain ⟨k, n, hsb⟩ := hi.atoms sb hc
        rw [hsb] at this
        exact hnf Mt k n At (der_safe hi.safe dM) hAne this

/-- one move preserves the invariant, and a served request yields no authorised output -/
theorem hstep_secure (I : Interp) (hpub : PubConst I) (hnf : NoForge I) (s s' : HState)
    (e : Option XEvent) (hi : HInv I s) (st : HStep I s e s') :
    HInv I s' ∧ ∀ x, e = some x →
      isO1 x.out = false ∧ isO2 x.out = false ∧ x.post.paired = x.pre.paired ∧
      x.post = (step I.cfg x.pre x.req).1 ∧ x.out = (step I.cfg x.pre x.req).2.1 := by
  cases st with
  | unpair =>
    refine ⟨⟨⟨hi.ginv.exch, hi.ginv.demo⟩, hi.code, hi.safe, ?_, hi.cur, hi.atoms⟩, by intro x h; cases h⟩
    have := hi.unverified
    simpa [verifiedNow] using this
  | req r am hs hsalt hb =>
    have hg := no_good_m3 I hpub hnf s hi r am hs
    have h1 : isO1 (step I.cfg s.ps r).2.1 = false := by rw [← goodM3_eq_isO1]; exact hg
    have hsh := step_shape I.cfg s.ps r
    have h2 : isO2 (step I.cfg s.ps r).2.1 = false ∧ (step I.cfg s.ps r).1.paired = s.ps.paired ∧
        verifiedNow (step I.cfg s.ps r).1 = false := by
      cases hsh with
      | noop hs' h1' h2' hm hg' => rw [hs']; exact ⟨h2', rfl, hi.unverified⟩
      | m1 srv hs' hv hm h1' h2' hg' => rw [hs']; exact ⟨h2', rfl, by simp [verifiedNow, hv]⟩
      | m3 srv hs' hv h1' h2' hm => rw [hs']; exact ⟨h2', rfl, by simp [verifiedNow, hv, hg]⟩
      | m5 hver => rw [hi.unverified] at hver; exact absurd hver (by decide)
    refine ⟨⟨ginv_step I.cfg s.ps s.g r hi.ginv, ?_, ?_, h2.2.2, ?_, ?_⟩, ?_⟩
    · rw [(step_identity I.cfg s.ps r).1]; exact hi.code
    · -- knowledge stays safe
      intro t ht
      cases ho : (step I.cfg s.ps r).2.1 with
      | m2 sl B =>
        simp only [ho, learnAns] at ht
        rcases ht with ht | rfl
        · exact hi.safe t ht
        · simp [PairSetupSym.safe, freshSalt]
      | m4 hk => rw [ho] at h1; simp [isO1] at h1
      | unavailable => simp only [ho, learnAns] at ht; exact hi.safe t ht
      | m4AuthErr => simp only [ho, learnAns] at ht; exact hi.safe t ht
      | m6 enc => simp only [ho, learnAns] at ht; exact hi.safe t ht
      | m6AuthErr => simp only [ho, learnAns] at ht; exact hi.safe t ht
      | err500 => simp only [ho, learnAns] at ht; exact hi.safe t ht
      | silent => simp only [ho, learnAns] at ht; exact hi.safe t ht
    · -- the open exchange still denotes the current terms
      show (gNext I.cfg s.ps s.g r).exch = (curNext s (step I.cfg s.ps r).2.1).map (exchOf I)
      unfold gNext curNext
      by_cases hm : isM2 (step I.cfg s.ps r).2.1 = true
      · simp [hm, exchOf, hi.code, hsalt, hb]
      · simp only [hm, h2.1, hg, Bool.false_eq_true, if_false]
        exact hi.cur
    · -- … and is made from atoms
      intro sb hsb
      show ∃ k n, sb = (nonce k, sec n)
      have hsb' : curNext s (step I.cfg s.ps r).2.1 = some sb := hsb
      unfold curNext at hsb'
      by_cases hm : isM2 (step I.cfg s.ps r).2.1 = true
      · simp only [hm, if_true, Option.some.injEq] at hsb'
        exact ⟨2 * s.n + 4, s.n, hsb'.symm⟩
      · simp only [hm, h2.1, Bool.false_eq_true, if_false] at hsb'
        exact hi.atoms sb hsb'
    · intro x hx
      simp only [Option.some.injEq] at hx
      subst hx
      exact ⟨h1, h2.1, h2.2.1, rfl, rfl⟩

/-- **The Dolev–Yao attacker against the executable accessory.**  From a state that satisfies the
    invariant (e.g. `hinit`), along every run: the invariant is kept — in particular the knowledge stays
    safe, the setup code is never learnt — and every served request is answered without the accessory's
    proof (O1), without M6 (O2) and without a change of the pairing table (O3). -/
theorem hybrid_secure (I : Interp) (hpub : PubConst I) (hnf : NoForge I) (s0 s : HState) (es : List XEvent)
    (h0 : HInv I s0) (hr : HReach I s0 s es) :
    HInv I s ∧ ∀ x ∈ es,
      isO1 x.out = false ∧ isO2 x.out = false ∧ x.post.paired = x.pre.paired ∧
      x.post = (step I.cfg x.pre x.req).1 ∧ x.out = (step I.cfg x.pre x.req).2.1 := by
  induction hr with
  | refl => exact ⟨h0, by intro x hx; cases hx⟩
  | step e _ st ih =>
    obtain ⟨hi, hall⟩ := ih
    obtain ⟨hi', hev⟩ := hstep_secure I hpub hnf _ _ e hi st
    refine ⟨hi', ?_⟩
    intro x hx
    cases e with
    | none => exact hall x hx
    | some y =>
      simp only [List.mem_cons] at hx
      rcases hx with rfl | hx
      · exact hev _ rfl
      · exact hall x hx

/-- the initial state: a driver without verifier whose setup code is the interpretation's, facing an
    attacker with safe knowledge -/
theorem hinit (I : Interp) (ps : PS) (kn : Tm → Prop) (hv : ps.verifier = none) (hc : ps.pincode = I.code)
    (hk : ∀ t, kn t → safe t) : HInv I ⟨ps, Ghost.init, kn, none, 0⟩ :=
  ⟨ginv_init I.cfg ps hv, hc, hk, by simp [verifiedNow, hv], by simp [Ghost.init], by intro sb h; cases h⟩

end Hap.PairSetupHybrid
