/-
  C01, end to end: the EXECUTABLE accessory (`PairSetup.step`, bytes), a Dolev–Yao attacker in the
  middle, and an HONEST CONTROLLER that knows the setup code (`Proofs/PairSetupMitm.lean`'s role).

  * The attacker sends arbitrary request bytes (M1, M5, unknown steps, garbage, incomplete M3 …); only the
    `A` and proof items of a COMPLETE M3 must denote terms derivable from its knowledge.
  * The honest controller, handed the `B` of any exchange, emits `A = g^a` and its proof; both are learnt.
    (It may also emit its M5 ciphertext — an opaque blob for the attacker.)  The accessory's M2 and its M4
    proof are learnt.  (The bytes of an M6 can be used by the attacker anywhere except as an M3 item:
    the symbolic M5/M6 formats are not given a faithful byte denotation here.)
  * Hardness: `NoForgeE` — a term that is computable from public values and honest BLOBS and denotes the
    proof expected for `A ≢ 0 (mod N)` in an exchange made from a public salt atom and a secret atom IS
    that expected-proof term (no collisions with the target).
  Result (`xhybrid_secure`), for every run: the accessory issues its proof only for the `A` of an honest
  controller session run against the exchange that is open at that moment, and every M6 / recorded pairing
  answers an M5 that opens under the session key the executable model computes for that honest `A` — by
  `sess_agree` the honest controller's own `K`.  What is then left to cryptography is only "sealing under
  `K` needs `K`" (AEAD) and "`K` needs the code or `b`" (SRP-6a).
  Core Lean only.
-/
import Proofs.PairSetupHybrid
import Proofs.PairSetupMitm
namespace Hap.PairSetupHybridMitm
open Hap Hap.Tlv Hap.Srp Hap.PairSetup Hap.PairSetupSym Hap.PairSetupHybrid Hap.PairSetupMitm
open Hap.PairSetupSym.Tm

/-- hardness, with honest blobs in the attacker's hands -/
def NoForgeE (I : Interp) : Prop :=
  ∀ (E : Tm → Prop) (hon : HSess → Prop), (∀ t, E t → Emitted hon t) →
    ∀ Mt k n At, safeE E Mt → bytesToNat (interp I At) % I.cfg.G.N ≠ 0 →
      interp I Mt = interp I (expM (nonce k) (sec n) At) → Mt = expM (nonce k) (sec n) At

structure XState where
  ps : PS
  g : Ghost
  kn : Tm → Prop
  em : Tm → Prop
  hon : HSess → Prop
  cur : Option (Tm × Tm)
  n : Nat

/-- what the attacker may send: as in `PairSetupHybrid.Sendable`, over the knowledge of an `XState` -/
inductive XSendable (I : Interp) (s : XState) : Req → Option (Tm × Tm) → Prop
  | sym (r : Req) (At Mt : Tm) (dA : Der s.kn At) (dM : Der s.kn Mt)
      (hA : reqA r = some (interp I At)) (hM : reqM r = some (interp I Mt)) : XSendable I s r (some (At, Mt))
  | other (r : Req) (h : completeM3 r = false) : XSendable I s r none

/-- the term learnt from an answer (M2: `(salt, B)`; M4 with the proof: `HAMK`), if any -/
def ansTerm (s : XState) (am : Option (Tm × Tm)) : Out → Option Tm
  | .m2 _ _ => some (pair (freshSalt s.n) (bval (freshSalt s.n) (freshSec s.n)))
  | .m4 _ =>
    match s.cur, am with
    | some (salt, b), some (At, _) => some (PairSetupSym.hamk salt b At)
    | _, _ => none
  | _ => none

def learnOpt (kn : Tm → Prop) : Option Tm → (Tm → Prop)
  | some t => learn kn t
  | none => kn

/-- the accessory's proof is an honest blob, M2 is not -/
def blobOf (s : XState) (am : Option (Tm × Tm)) : Out → Option Tm
  | .m4 h => ansTerm s am (.m4 h)
  | _ => none

def xcurNext (s : XState) (o : Out) : Option (Tm × Tm) :=
  if isM2 o then some (freshSalt s.n, freshSec s.n) else if isO2 o then none else s.cur

inductive XStep (I : Interp) : XState → Option XEvent → XState → Prop
  | req (s : XState) (r : Req) (am : Option (Tm × Tm)) (hs : XSendable I s r am)
      (hsalt : r.salt = interp I (freshSalt s.n)) (hb : r.bRand = interp I (freshSec s.n)) :
      XStep I s (some ⟨s.ps, s.g, r, (step I.cfg s.ps r).1, (step I.cfg s.ps r).2.1⟩)
        { s with ps := (step I.cfg s.ps r).1, g := gNext I.cfg s.ps s.g r,
                 kn := learnOpt s.kn (ansTerm s am (step I.cfg s.ps r).2.1),
                 em := learnOpt s.em (blobOf s am (step I.cfg s.ps r).2.1),
                 cur := xcurNext s (step I.cfg s.ps r).2.1, n := s.n + 1 }
  | unpair (s : XState) : XStep I s none { s with ps := { s.ps with paired := [] } }
  /-- honest controller: handed some `B`, starts a session and sends `A = g^a` and its proof -/
  | hm3 (s : XState) (x : HSess) (dB : Der s.kn (bval x.salt x.b)) :
      XStep I s none { s with kn := learn (learn s.kn (gexp x.a)) (expM x.salt x.b (gexp x.a)),
                              em := learn s.em (expM x.salt x.b (gexp x.a)),
                              hon := fun y => s.hon y ∨ y = x }
  /-- honest controller: sends the M5 of one of its sessions (an opaque blob for the attacker) -/
  | hm5 (s : XState) (x : HSess) (hx : s.hon x) :
      XStep I s none { s with kn := learn s.kn (m5For (skey x.salt x.b (gexp x.a)) x.id x.sk),
                              em := learn s.em (m5For (skey x.salt x.b (gexp x.a)) x.id x.sk) }

structure XInv (I : Interp) (s : XState) : Prop where
  ginv : GInv I.cfg s.ps s.g
  code : s.ps.pincode = I.code
  kn : ∀ t, s.kn t → safeE s.em t
  em : ∀ t, s.em t → Emitted s.hon t
  cur : s.g.exch = s.cur.map (exchOf I)
  atoms : ∀ sb, s.cur = some sb → ∃ k n, sb = (nonce k, sec n)
  /-- the demonstrating `A` is an honest controller's, for the open exchange -/
  demo : ∀ A, s.g.demoA = some A → s.g.exch ≠ none →
    ∃ x, s.hon x ∧ s.cur = some (x.salt, x.b) ∧ A = interp I (gexp x.a)

/-- what is claimed of one served request, relative to the honest sessions `hon` -/
def Concl (I : Interp) (hon : HSess → Prop) (x : XEvent) : Prop :=
  x.post = (step I.cfg x.pre x.req).1 ∧ x.out = (step I.cfg x.pre x.req).2.1 ∧
  (isO1 x.out = true → ∃ h : HSess, hon h ∧ x.g.exch = some (exchOf I (h.salt, h.b)) ∧
      reqA x.req = some (interp I (gexp h.a))) ∧
  ((isO2 x.out = true ∨ x.post.paired ≠ x.pre.paired) →
    ∃ h : HSess, hon h ∧ x.g.exch = some (exchOf I (h.salt, h.b)) ∧
      AcceptedM5 I.cfg (sessOf I.cfg (exchOf I (h.salt, h.b)) (interp I (gexp h.a))).Kb
        x.pre x.req x.post)

theorem Concl.mono {I : Interp} {hon hon' : HSess → Prop} (hm : ∀ y, hon y → hon' y) {x : XEvent}
    (h : Concl I hon x) : Concl I hon' x := by
  obtain ⟨a, b, c, d⟩ := h
  refine ⟨a, b, ?_, ?_⟩
  · intro h1
    obtain ⟨y, hy, r1, r2⟩ := c h1
    exact ⟨y, hm y hy, r1, r2⟩
  · intro h2
    obtain ⟨y, hy, r1, r2⟩ := d h2
    exact ⟨y, hm y hy, r1, r2⟩

/-- a good M3 of the attacker is a relayed honest M3 of the open exchange -/
theorem good_m3_is_honest (I : Interp) (hpub : PubConst I) (hnf : NoForgeE I) (s : XState) (hi : XInv I s)
    (r : Req) (am : Option (Tm × Tm)) (hs : XSendable I s r am) (hg : goodM3 I.cfg s.ps r = true) :
    ∃ At Mt sb x, am = some (At, Mt) ∧ s.cur = some sb ∧ s.hon x ∧ sb = (x.salt, x.b) ∧ At = gexp x.a ∧
      At ≠ zero ∧ reqA r = some (interp I At) := by
  cases hs with
  | other h => rw [goodM3_complete I.cfg s.ps r hg] at h; exact absurd h (by decide)
  | sym At Mt dA dM hA hM =>
    have h1 : isO1 (step I.cfg s.ps r).2.1 = true := by rw [← goodM3_eq_isO1]; exact hg
    obtain ⟨x, A, M, hx, hA', hM', hMe, hAne, _⟩ := (gate_code_step I.cfg s.ps s.g r hi.ginv).1 h1
    rw [hA] at hA'
    rw [hM] at hM'
    simp only [Option.some.injEq] at hA' hM'
    subst hA' hM'
    have hcur := hi.cur
    rw [hx] at hcur
    cases hc : s.cur with
    | none => rw [hc] at hcur; simp at hcur
    | some sb =>
      rw [hc] at hcur
      simp only [Option.map_some, Option.some.injEq] at hcur
      have hAz : At ≠ zero := by
        intro h; subst h
        exact hAne (interp_zero_degenerate I)
      have hfmt := (interp_expM I hpub sb.1 sb.2 At hAz).1
      have heq : interp I Mt = interp I (expM sb.1 sb.2 At) := by rw [hfmt, hMe, hcur]
      obtain ⟨k, n, hsb⟩ := hi.atoms sb hc
      have hkeys : ∀ k m, s.em (aenc k m) → ¬ safeE s.em k := fun k m h => emitted_keys hi.em k m h
      have hsafe : safeE s.em Mt := der_safeE hi.kn hkeys dM
      have hMt : Mt = expM sb.1 sb.2 At := by
        rw [hsb] at heq ⊢
        exact hnf s.em s.hon hi.em Mt k n At hsafe hAne heq
      rw [hMt] at hsafe
      obtain ⟨y, hy, h1', h2', h3'⟩ :=
        emitted_expM sb.1 sb.2 At hAz (hi.em _ (safe_expM hi.em sb.1 sb.2 At hAz hsafe))
      exact ⟨At, Mt, sb, y, rfl, rfl, hy, by rw [h1', h2'], h3', hAz, hA⟩

theorem xstep_secure (I : Interp) (hpub : PubConst I) (hnf : NoForgeE I) (s s' : XState)
    (e : Option XEvent) (hi : XInv I s) (st : XStep I s e s') :
    XInv I s' ∧ (∀ y, s.hon y → s'.hon y) ∧ ∀ x, e = some x → Concl I s.hon x := by
  cases st with
  | unpair =>
    exact ⟨⟨⟨hi.ginv.exch, hi.ginv.demo⟩, hi.code, hi.kn, hi.em, hi.cur, hi.atoms, hi.demo⟩, fun _ h => h,
      by intro x h; cases h⟩
  | hm3 x dB =>
    have hmono : ∀ t, s.em t → learn s.em (expM x.salt x.b (gexp x.a)) t := fun t h => Or.inl h
    have hhon : ∀ y, s.hon y → (s.hon y ∨ y = x) := fun y h => Or.inl h
    refine ⟨⟨hi.ginv, hi.code, ?_, ?_, hi.cur, hi.atoms, ?_⟩, hhon, by intro x h; cases h⟩
    · intro t ht
      rcases ht with (ht | rfl) | rfl
      · exact safeE_mono hmono t (hi.kn t ht)
      · trivial
      · exact Or.inl (Or.inr rfl)
    · intro t ht
      rcases ht with ht | rfl
      · exact (hi.em t ht).mono hhon
      · exact .m x (Or.inr rfl)
    · intro A hA hne
      obtain ⟨y, hy, h1, h2⟩ := hi.demo A hA hne
      exact ⟨y, Or.inl hy, h1, h2⟩
  | hm5 x hx =>
    have hmono : ∀ t, s.em t → learn s.em (m5For (skey x.salt x.b (gexp x.a)) x.id x.sk) t :=
      fun t h => Or.inl h
    refine ⟨⟨hi.ginv, hi.code, ?_, ?_, hi.cur, hi.atoms, hi.demo⟩, fun _ h => h, by intro x h; cases h⟩
    · intro t ht
      rcases ht with ht | rfl
      · exact safeE_mono hmono t (hi.kn t ht)
      · exact Or.inl (Or.inr rfl)
    · intro t ht
      rcases ht with ht | rfl
      · exact hi.em t ht
      · exact .m5 x hx
  | req r am hs hsalt hb =>
    have hgi := ginv_step I.cfg s.ps s.g r hi.ginv
    have hcode : (step I.cfg s.ps r).1.pincode = I.code := by
      rw [(step_identity I.cfg s.ps r).1]; exact hi.code
    have hsh := step_shape I.cfg s.ps r
    have hgate := gate_code_step I.cfg s.ps s.g r hi.ginv
    -- the conclusions about this served request
    have hconc : (isO1 (step I.cfg s.ps r).2.1 = true → ∃ h, s.hon h ∧ s.g.exch = some (exchOf I (h.salt, h.b)) ∧
          reqA r = some (interp I (gexp h.a))) ∧
        ((isO2 (step I.cfg s.ps r).2.1 = true ∨ (step I.cfg s.ps r).1.paired ≠ s.ps.paired) →
          ∃ h, s.hon h ∧ s.g.exch = some (exchOf I (h.salt, h.b)) ∧
            AcceptedM5 I.cfg (sessOf I.cfg (exchOf I (h.salt, h.b)) (interp I (gexp h.a))).Kb
              s.ps r (step I.cfg s.ps r).1) := by
      refine ⟨?_, ?_⟩
      · intro h1
        have hg : goodM3 I.cfg s.ps r = true := by rw [goodM3_eq_isO1]; exact h1
        obtain ⟨At, Mt, sb, x, _, hc, hx, hsb, hAt, _, hA⟩ := good_m3_is_honest I hpub hnf s hi r am hs hg
        refine ⟨x, hx, ?_, by rw [hA, hAt]⟩
        rw [hi.cur, hc, hsb]; rfl
      · intro h2
        obtain ⟨ex, A, hex, hdA, _, hacc⟩ := hgate.2 h2
        obtain ⟨x, hx, hc, hA⟩ := hi.demo A hdA (by rw [hex]; simp)
        have hex' : ex = exchOf I (x.salt, x.b) := by
          have := hi.cur
          rw [hex, hc] at this
          simpa using this
        refine ⟨x, hx, by rw [hex, hex'], ?_⟩
        rw [← hex', ← hA]; exact hacc
    refine ⟨?_, fun _ h => h, ?_⟩
    · -- the invariant
      by_cases hg : goodM3 I.cfg s.ps r = true
      · -- a relayed honest M3: the accessory's proof is issued and learnt
        obtain ⟨At, Mt, sb, x, ham, hc, hx, hsb, hAt, hAz, hA⟩ := good_m3_is_honest I hpub hnf s hi r am hs hg
        have h1 : isO1 (step I.cfg s.ps r).2.1 = true := by rw [← goodM3_eq_isO1]; exact hg
        obtain ⟨hk, ho⟩ : ∃ hk, (step I.cfg s.ps r).2.1 = .m4 hk := by
          cases h : (step I.cfg s.ps r).2.1 <;> simp [h, isO1] at h1
          exact ⟨_, rfl⟩
        have hm : isM2 (step I.cfg s.ps r).2.1 = false := by rw [ho]; rfl
        have h2 : isO2 (step I.cfg s.ps r).2.1 = false := by rw [ho]; rfl
        have hans : ansTerm s am (step I.cfg s.ps r).2.1 = some (PairSetupSym.hamk sb.1 sb.2 At) := by
          rw [ho, ham]; simp [ansTerm, hc]
        have hblob : blobOf s am (step I.cfg s.ps r).2.1 = some (PairSetupSym.hamk sb.1 sb.2 At) := by
          rw [ho]; simp only [blobOf]; rw [← ho]; exact hans
        have hmono : ∀ t, s.em t → learn s.em (PairSetupSym.hamk sb.1 sb.2 At) t := fun t h => Or.inl h
        refine ⟨hgi, hcode, ?_, ?_, ?_, ?_, ?_⟩
        · intro t ht
          simp only [hans, hblob, learnOpt] at ht ⊢
          rcases ht with ht | rfl
          · exact safeE_mono hmono t (hi.kn t ht)
          · exact Or.inl (Or.inr rfl)
        · intro t ht
          simp only [hblob, learnOpt] at ht
          rcases ht with ht | rfl
          · exact hi.em t ht
          · exact .hamk sb.1 sb.2 At hAz
        · show (gNext I.cfg s.ps s.g r).exch = (xcurNext s (step I.cfg s.ps r).2.1).map (exchOf I)
          simp only [gNext, xcurNext, hm, h2, hg, Bool.false_eq_true, if_false, if_true]
          exact hi.cur
        · intro sb' hsb'
          have : xcurNext s (step I.cfg s.ps r).2.1 = some sb' := hsb'
          simp only [xcurNext, hm, h2, Bool.false_eq_true, if_false] at this
          exact hi.atoms sb' this
        · intro A hA' _
          have hdemo : (gNext I.cfg s.ps s.g r).demoA = some A := hA'
          simp only [gNext, hm, h2, hg, Bool.false_eq_true, if_false, if_true] at hdemo
          rw [hA] at hdemo
          simp only [Option.some.injEq] at hdemo
          refine ⟨x, hx, ?_, by rw [← hdemo, hAt]⟩
          show xcurNext s (step I.cfg s.ps r).2.1 = some (x.salt, x.b)
          simp only [xcurNext, hm, h2, Bool.false_eq_true, if_false]
          rw [hc, hsb]
      · -- anything else
        have hg' : goodM3 I.cfg s.ps r = false := by simpa using hg
        have h1 : isO1 (step I.cfg s.ps r).2.1 = false := by rw [← goodM3_eq_isO1]; exact hg'
        have hblob : blobOf s am (step I.cfg s.ps r).2.1 = none := by
          cases h : (step I.cfg s.ps r).2.1 <;> simp_all [blobOf, isO1]
        by_cases hm : isM2 (step I.cfg s.ps r).2.1 = true
        · -- a served M1 opens a new exchange
          obtain ⟨sl, B, ho⟩ : ∃ sl B, (step I.cfg s.ps r).2.1 = .m2 sl B := by
            cases h : (step I.cfg s.ps r).2.1 <;> simp [h, isM2] at hm
            exact ⟨_, _, rfl⟩
          refine ⟨hgi, hcode, ?_, ?_, ?_, ?_, ?_⟩
          · intro t ht
            simp only [hblob, learnOpt, ho, ansTerm] at ht ⊢
            rcases ht with ht | rfl
            · exact hi.kn t ht
            · simp [safeE, freshSalt]
          · intro t ht
            simp only [hblob, learnOpt] at ht
            exact hi.em t ht
          · show (gNext I.cfg s.ps s.g r).exch = (xcurNext s (step I.cfg s.ps r).2.1).map (exchOf I)
            simp [gNext, xcurNext, hm, exchOf, hi.code, hsalt, hb]
          · intro sb' hsb'
            have : xcurNext s (step I.cfg s.ps r).2.1 = some sb' := hsb'
            simp only [xcurNext, hm, if_true, Option.some.injEq] at this
            exact ⟨2 * s.n + 4, s.n, this.symm⟩
          · intro A hA' _
            have hdemo : (gNext I.cfg s.ps s.g r).demoA = some A := hA'
            simp [gNext, hm] at hdemo
        · have hm' : isM2 (step I.cfg s.ps r).2.1 = false := by simpa using hm
          have hans : ansTerm s am (step I.cfg s.ps r).2.1 = none := by
            cases h : (step I.cfg s.ps r).2.1 <;> simp_all [ansTerm, isO1, isM2]
          by_cases h2 : isO2 (step I.cfg s.ps r).2.1 = true
          · -- an accepted M5 consumes the exchange
            refine ⟨hgi, hcode, ?_, ?_, ?_, ?_, ?_⟩
            · intro t ht; simp only [hans, hblob, learnOpt] at ht ⊢; exact hi.kn t ht
            · intro t ht; simp only [hblob, learnOpt] at ht; exact hi.em t ht
            · show (gNext I.cfg s.ps s.g r).exch = (xcurNext s (step I.cfg s.ps r).2.1).map (exchOf I)
              simp [gNext, xcurNext, hm', h2]
            · intro sb' hsb'
              have : xcurNext s (step I.cfg s.ps r).2.1 = some sb' := hsb'
              simp [xcurNext, hm', h2] at this
            · intro A hA' hne
              exfalso; apply hne
              show (gNext I.cfg s.ps s.g r).exch = none
              simp [gNext, hm', h2]
          · have h2' : isO2 (step I.cfg s.ps r).2.1 = false := by simpa using h2
            have hgn : gNext I.cfg s.ps s.g r = s.g := by
              simp [gNext, hm', h2', hg']
            have hcn : xcurNext s (step I.cfg s.ps r).2.1 = s.cur := by
              simp [xcurNext, hm', h2']
            refine ⟨hgi, hcode, ?_, ?_, ?_, ?_, ?_⟩
            · intro t ht; simp only [hans, hblob, learnOpt] at ht ⊢; exact hi.kn t ht
            · intro t ht; simp only [hblob, learnOpt] at ht; exact hi.em t ht
            · show (gNext I.cfg s.ps s.g r).exch = (xcurNext s (step I.cfg s.ps r).2.1).map (exchOf I)
              rw [hgn, hcn]; exact hi.cur
            · intro sb' hsb'
              have : xcurNext s (step I.cfg s.ps r).2.1 = some sb' := hsb'
              rw [hcn] at this; exact hi.atoms sb' this
            · intro A hA' hne
              have hA'' : (gNext I.cfg s.ps s.g r).demoA = some A := hA'
              have hne' : (gNext I.cfg s.ps s.g r).exch ≠ none := hne
              rw [hgn] at hA'' hne'
              obtain ⟨x, hx, hc, hAx⟩ := hi.demo A hA'' hne'
              exact ⟨x, hx, by show xcurNext s (step I.cfg s.ps r).2.1 = _; rw [hcn]; exact hc, hAx⟩
    · intro x hx
      simp only [Option.some.injEq] at hx
      subst hx
      exact ⟨rfl, rfl, hconc.1, hconc.2⟩

inductive XReach (I : Interp) (s0 : XState) : XState → List XEvent → Prop
  | refl : XReach I s0 s0 []
  | step {s s' es} (e : Option XEvent) : XReach I s0 s es → XStep I s e s' →
      XReach I s0 s' (match e with | some x => x :: es | none => es)

/-- **End to end.**  Along every run of the hybrid system with an honest controller: every served request
    is a step of the executable model; the accessory's proof (O1) is only ever issued for the `A = g^a` of an
    honest controller session run against the exchange open at that moment; and every M6 / recorded
    pairing (O2, O3) answers an M5 that opens under the session key the executable model computes for such
    an honest `A` in that exchange and records exactly the identifier and key inside it. -/
theorem xhybrid_secure (I : Interp) (hpub : PubConst I) (hnf : NoForgeE I) (s0 s : XState) (es : List XEvent)
    (h0 : XInv I s0) (hr : XReach I s0 s es) :
    XInv I s ∧ (∀ y, s0.hon y → s.hon y) ∧ ∀ x ∈ es, Concl I s.hon x := by
  induction hr with
  | refl => exact ⟨h0, fun _ h => h, by intro x hx; cases hx⟩
  | step e _ st ih =>
    obtain ⟨hi, hmono0, hall⟩ := ih
    obtain ⟨hi', hmono, hev⟩ := xstep_secure I hpub hnf _ _ e hi st
    refine ⟨hi', fun y h => hmono y (hmono0 y h), ?_⟩
    intro x hx
    cases e with
    | none => exact (hall x hx).mono hmono
    | some y =>
      simp only [List.mem_cons] at hx
      rcases hx with rfl | hx
      · exact (hev _ rfl).mono hmono
      · exact (hall x hx).mono hmono

theorem xinit (I : Interp) (ps : PS) (hv : ps.verifier = none) (hc : ps.pincode = I.code) :
    XInv I ⟨ps, Ghost.init, fun t => ∃ n, t = nonce n, fun _ => False, fun _ => False, none, 0⟩ :=
  ⟨ginv_init I.cfg ps hv, hc, (by rintro t ⟨n, rfl⟩; trivial), (by intro t h; exact h.elim),
    (by simp [Ghost.init]), (by intro sb h; cases h), (by intro A h; simp [Ghost.init] at h)⟩

end Hap.PairSetupHybridMitm
