/-
  Dolev–Yao layer for C01 with an HONEST CONTROLLER in the picture (attacker as man in the middle).
  Core Lean only; terms, derivability and message formats are those of `Proofs/PairSetupSym.lean`.

  The honest controller knows the setup code.  For any exchange whose `B` it has been handed (the
  attacker delivers, delays, drops, re-orders and replays everything), it emits its M3 `(A, M)` with
  `A = g^a` and — at any time — its M5 ciphertext for that session; all of it becomes attacker knowledge,
  and so do the accessory's answers (M2, the M4 proof, M6).  The attacker does not know the code.

  `mitm_secure` (invariant over all runs):
    (a) whenever the accessory has a recorded success, the `A` in force is the public value of an honest
        controller session run against THIS exchange (same salt, same `b`): relaying the honest M3 is the
        only way to get the accessory's proof, and an honest M3 replayed into a later exchange is refused;
    (b) pairing origin: whenever a pairing is recorded, identifier and long-term key are those the
        honest controller of such a session put into its own M5 — the attacker cannot substitute its key.
  The proof is the usual one: secrets occur in the attacker's knowledge only inside opaque blobs emitted
  by honest parties (`safeE`), whose keys are not derivable, and blobs of different kinds never coincide.
-/
import Proofs.PairSetupSym
namespace Hap.PairSetupMitm
open Hap.PairSetupSym Hap.PairSetupSym.Tm

/-- safe relative to a set `E` of opaque blobs (hashes and ciphertexts emitted by honest parties):
    the code, honest secrets and session secrets occur only inside blobs -/
def safeE (E : Tm → Prop) : Tm → Prop
  | .code => False
  | .sec _ => False
  | .skey _ _ _ => False
  | .nonce _ => True
  | .zero => True
  | .pair a b => safeE E a ∧ safeE E b
  | .hsh t => E (.hsh t) ∨ safeE E t
  | .gexp _ => True
  | .bval s _ => safeE E s
  | .aenc k m => E (.aenc k m) ∨ (safeE E k ∧ safeE E m)
  | .sign sk m => safeE E sk ∧ safeE E m
  | .pk _ => True

theorem safeE_mono {E E' : Tm → Prop} (h : ∀ t, E t → E' t) : ∀ t, safeE E t → safeE E' t := by
  intro t
  induction t with
  | code => exact id
  | nonce n => exact id
  | sec n => exact id
  | zero => exact id
  | pair a b ia ib => exact fun ⟨x, y⟩ => ⟨ia x, ib y⟩
  | hsh t it => exact fun x => x.elim (fun e => Or.inl (h _ e)) (fun s => Or.inr (it s))
  | gexp a _ => exact id
  | bval s b is _ => exact is
  | skey _ _ _ _ _ _ => exact id
  | aenc k m ik im =>
    exact fun x => x.elim (fun e => Or.inl (h _ e)) (fun ⟨a, b⟩ => Or.inr ⟨ik a, im b⟩)
  | sign sk m is im => exact fun ⟨x, y⟩ => ⟨is x, im y⟩
  | pk _ _ => exact id

/-- derivation preserves `safeE`, provided the keys of the ciphertext blobs are not safe -/
theorem der_safeE {E Kn : Tm → Prop} (h : ∀ t, Kn t → safeE E t)
    (hkeys : ∀ k m, E (.aenc k m) → ¬ safeE E k) : ∀ {t}, Der Kn t → safeE E t := by
  intro t d
  induction d with
  | ax k => exact h _ k
  | zero => trivial
  | pair _ _ ia ib => exact ⟨ia, ib⟩
  | fst _ i => exact i.1
  | snd _ i => exact i.2
  | hsh _ i => exact Or.inr i
  | gexp _ _ => trivial
  | aenc _ _ ik im => exact Or.inr ⟨ik, im⟩
  | adec _ _ ic ik => exact ic.elim (fun he => absurd ik (hkeys _ _ he)) (fun x => x.2)
  | sign _ _ ik im => exact ⟨ik, im⟩
  | unsign _ i => exact i.2
  | pk _ _ => trivial
  | client _ _ _ _ ic _ _ _ => exact False.elim ic

/-- an honest controller session: the exchange it runs against, its ephemeral secret, its pairing
    identifier and its long-term secret key -/
structure HSess where
  salt : Tm
  b : Tm
  a : Tm
  id : Tm
  sk : Tm

/-- the accessory's M6 for session secret `S` -/
def m6For (S : Tm) : Tm := aenc (hsh (pair (hsh S) (nonce 1))) (sign (sec 0) (nonce 3))

/-- what honest parties have emitted, by kind -/
inductive Emitted (hon : HSess → Prop) : Tm → Prop
  | m (h : HSess) : hon h → Emitted hon (expM h.salt h.b (gexp h.a))
  | hamk (salt b A : Tm) : A ≠ zero → Emitted hon (PairSetupSym.hamk salt b A)
  | m5 (h : HSess) : hon h → Emitted hon (m5For (skey h.salt h.b (gexp h.a)) h.id h.sk)
  | m6 (salt b A : Tm) : A ≠ zero → Emitted hon (m6For (skey salt b A))

theorem Emitted.mono {hon hon' : HSess → Prop} (h : ∀ x, hon x → hon' x) {t : Tm} :
    Emitted hon t → Emitted hon' t
  | .m x hx => .m x (h x hx)
  | .hamk s b A hA => .hamk s b A hA
  | .m5 x hx => .m5 x (h x hx)
  | .m6 s b A hA => .m6 s b A hA

theorem sessS_ne {salt b A : Tm} (hA : A ≠ zero) : sessS salt b A = skey salt b A := by
  simp [sessS, hA]

/-- no emitted blob is the bare session key `H(S)` -/
theorem emitted_not_hS (hon : HSess → Prop) (salt b A : Tm) : ¬ Emitted hon (hsh (skey salt b A)) := by
  intro h
  generalize ht : hsh (skey salt b A) = t at h
  cases h <;> simp [expM, PairSetupSym.hamk, m5For, m6For] at ht

/-- no emitted blob is an M5/M6 encryption key -/
theorem emitted_not_key (hon : HSess → Prop) (S : Tm) : ¬ Emitted hon (hsh (pair (hsh S) (nonce 1))) := by
  intro h
  generalize ht : hsh (pair (hsh S) (nonce 1)) = t at h
  cases h <;> simp [expM, PairSetupSym.hamk, m5For, m6For] at ht

/-- the M5/M6 encryption key of a real session is not safe -/
theorem key_unsafe {E : Tm → Prop} {hon : HSess → Prop} (hE : ∀ t, E t → Emitted hon t) (salt b A : Tm) :
    ¬ safeE E (hsh (pair (hsh (skey salt b A)) (nonce 1))) := by
  intro h
  rcases h with h | h
  · exact emitted_not_key hon _ (hE _ h)
  · rcases h.1 with h1 | h1
    · exact emitted_not_hS hon _ _ _ (hE _ h1)
    · exact h1

/-- the keys of all emitted ciphertexts are unsafe -/
theorem emitted_keys {E : Tm → Prop} {hon : HSess → Prop} (hE : ∀ t, E t → Emitted hon t) (k m : Tm)
    (h : E (aenc k m)) : ¬ safeE E k := by
  have he := hE _ h
  generalize ht : aenc k m = t at he
  cases he with
  | m x hx => simp [expM] at ht
  | hamk s b A hA => simp [PairSetupSym.hamk] at ht
  | m5 x hx =>
    simp only [m5For, aenc.injEq] at ht
    rw [ht.1]; exact key_unsafe hE _ _ _
  | m6 s b A hA =>
    simp only [m6For, aenc.injEq] at ht
    rw [ht.1]; exact key_unsafe hE _ _ _

/-- a safe expected proof for `A ≠ zero` is an emitted blob -/
theorem safe_expM {E : Tm → Prop} {hon : HSess → Prop} (hE : ∀ t, E t → Emitted hon t) (salt b A : Tm)
    (hA : A ≠ zero) (h : safeE E (expM salt b A)) : E (expM salt b A) := by
  unfold expM at h ⊢
  rcases h with h | h
  · exact h
  · exfalso
    have h5 : safeE E (hsh (sessS salt b A)) := h.2.2.2.2
    rw [sessS_ne hA] at h5
    rcases h5 with h5 | h5
    · exact emitted_not_hS hon _ _ _ (hE _ h5)
    · exact h5

/-- … and it was emitted by an honest controller session against the same exchange, for its own `A` -/
theorem emitted_expM {hon : HSess → Prop} (salt b A : Tm) (hA : A ≠ zero)
    (h : Emitted hon (expM salt b A)) : ∃ x, hon x ∧ x.salt = salt ∧ x.b = b ∧ A = gexp x.a := by
  generalize ht : expM salt b A = t at h
  cases h with
  | m x hx =>
    refine ⟨x, hx, ?_⟩
    have hx' : gexp x.a ≠ zero := by simp
    simp only [expM, sessS_ne hA, sessS_ne hx', hsh.injEq, pair.injEq, bval.injEq, skey.injEq] at ht
    exact ⟨ht.2.1.symm, ht.2.2.2.1.2.symm, ht.2.2.1⟩
  | hamk s b' A' hA' => simp [expM, PairSetupSym.hamk] at ht
  | m5 x hx => simp [expM, m5For] at ht
  | m6 s b' A' hA' => simp [expM, m6For] at ht

/-- a safe M5 for a real session is an emitted blob -/
theorem safe_m5 {E : Tm → Prop} {hon : HSess → Prop} (hE : ∀ t, E t → Emitted hon t) (salt b A id sk : Tm)
    (h : safeE E (m5For (skey salt b A) id sk)) : E (m5For (skey salt b A) id sk) := by
  unfold m5For at h ⊢
  rcases h with h | h
  · exact h
  · exact absurd h.1 (key_unsafe hE _ _ _)

/-- … emitted by an honest controller session: same exchange, same `A`, and ITS identifier and key -/
theorem emitted_m5 {hon : HSess → Prop} (salt b A id sk : Tm)
    (h : Emitted hon (m5For (skey salt b A) id sk)) :
    ∃ x, hon x ∧ x.salt = salt ∧ x.b = b ∧ A = gexp x.a ∧ id = x.id ∧ pk sk = pk x.sk := by
  generalize ht : m5For (skey salt b A) id sk = t at h
  cases h with
  | m x hx => simp [expM, m5For] at ht
  | hamk s b' A' hA' => simp [PairSetupSym.hamk, m5For] at ht
  | m5 x hx =>
    refine ⟨x, hx, ?_⟩
    simp only [m5For, aenc.injEq, hsh.injEq, pair.injEq, skey.injEq, pk.injEq, sign.injEq] at ht
    obtain ⟨⟨⟨h1, h2, h3⟩, _⟩, h4, h5, _⟩ := ht
    exact ⟨h1.symm, h2.symm, h3, h4, by rw [h5]⟩
  | m6 s b' A' hA' => simp [m5For, m6For] at ht

/-! ### the system -/

structure MState where
  kn : Tm → Prop
  /-- opaque blobs emitted so far by the honest controller and by the accessory -/
  em : Tm → Prop
  hon : HSess → Prop
  sess : Option (Tm × Tm)
  lastA : Option Tm
  verified : Bool
  paired : Option (Tm × Tm)
  next : Nat

inductive MStep : MState → MState → Prop
  /-- accessory, M1: fresh salt (public) and secret `b`; M2 = (salt, B) is learnt -/
  | m1 (s : MState) (hp : s.paired = none) :
      MStep s { s with kn := learn s.kn (pair (nonce (2 * s.next + 4)) (bval (nonce (2 * s.next + 4)) (sec s.next))),
                       sess := some (nonce (2 * s.next + 4), sec s.next), lastA := none,
                       verified := false, next := s.next + 1 }
  /-- accessory, M3 with the expected proof and `A ≠ zero` (the repaired code): O1, `HAMK` is learnt -/
  | m3ok (s : MState) (salt b A M : Tm) (hp : s.paired = none) (hs : s.sess = some (salt, b))
      (dA : Der s.kn A) (dM : Der s.kn M) (hM : M = expM salt b A) (hg : A ≠ zero) :
      MStep s { s with kn := learn s.kn (PairSetupSym.hamk salt b A), em := learn s.em (PairSetupSym.hamk salt b A),
                       lastA := some A, verified := true }
  /-- accessory, any other M3: refused -/
  | m3bad (s : MState) (A M : Tm) (dA : Der s.kn A) (dM : Der s.kn M) :
      MStep s { s with lastA := some A, verified := false }
  /-- accessory, M5 accepted: O2 (M6 is learnt) and O3 (pairing recorded) -/
  | m5 (s : MState) (salt b A id sk ct : Tm) (hp : s.paired = none) (hs : s.sess = some (salt, b))
      (hA : s.lastA = some A) (hv : s.verified = true) (dc : Der s.kn ct)
      (hc : ct = m5For (sessS salt b A) id sk) :
      MStep s { s with kn := learn s.kn (m6For (sessS salt b A)), em := learn s.em (m6For (sessS salt b A)),
                       paired := some (id, pk sk) }
  /-- honest controller (knows the code): handed some `B`, it starts a session with secret `a`, identifier
      `id`, long-term key `sk` and sends its M3 — `A = g^a` and the proof — which the attacker sees -/
  | hm3 (s : MState) (x : HSess) (dB : Der s.kn (bval x.salt x.b)) :
      MStep s { s with kn := learn (learn s.kn (gexp x.a)) (expM x.salt x.b (gexp x.a)),
                       em := learn s.em (expM x.salt x.b (gexp x.a)),
                       hon := fun y => s.hon y ∨ y = x }
  /-- honest controller: sends the M5 of one of its sessions, which the attacker sees -/
  | hm5 (s : MState) (x : HSess) (hx : s.hon x) :
      MStep s { s with kn := learn s.kn (m5For (skey x.salt x.b (gexp x.a)) x.id x.sk),
                       em := learn s.em (m5For (skey x.salt x.b (gexp x.a)) x.id x.sk) }

inductive MReach (s0 : MState) : MState → Prop
  | refl : MReach s0 s0
  | step {s s'} : MReach s0 s → MStep s s' → MReach s0 s'

structure MInv (s : MState) : Prop where
  kn : ∀ t, s.kn t → safeE s.em t
  em : ∀ t, s.em t → Emitted s.hon t
  ver : s.verified = true →
    ∃ x, s.hon x ∧ s.sess = some (x.salt, x.b) ∧ s.lastA = some (gexp x.a)
  pr : ∀ i p, s.paired = some (i, p) → ∃ x, s.hon x ∧ i = x.id ∧ p = pk x.sk

theorem minv_step (s s' : MState) (hi : MInv s) (st : MStep s s') : MInv s' := by
  have hkeys : ∀ k m, s.em (aenc k m) → ¬ safeE s.em k := fun k m h => emitted_keys hi.em k m h
  cases st with
  | m1 hp =>
    refine ⟨?_, hi.em, (by intro h; cases h), hi.pr⟩
    intro t ht
    rcases ht with ht | rfl
    · exact hi.kn t ht
    · simp [safeE]
  | m3ok salt b A M hp hs dA dM hM hg =>
    have hsafe : safeE s.em M := der_safeE hi.kn hkeys dM
    rw [hM] at hsafe
    obtain ⟨x, hx, h1, h2, h3⟩ := emitted_expM salt b A hg (hi.em _ (safe_expM hi.em salt b A hg hsafe))
    have hmono : ∀ t, s.em t → learn s.em (PairSetupSym.hamk salt b A) t := fun t h => Or.inl h
    refine ⟨?_, ?_, ?_, hi.pr⟩
    · intro t ht
      rcases ht with ht | rfl
      · exact safeE_mono hmono t (hi.kn t ht)
      · exact Or.inl (Or.inr rfl)
    · intro t ht
      rcases ht with ht | rfl
      · exact hi.em t ht
      · exact .hamk salt b A hg
    · intro _
      exact ⟨x, hx, by rw [hs, h1, h2], by rw [h3]⟩
  | m3bad A M dA dM => exact ⟨hi.kn, hi.em, (by intro h; cases h), hi.pr⟩
  | m5 salt b A id sk ct hp hs hA hv dc hc =>
    obtain ⟨x, hx, hxs, hxa⟩ := hi.ver hv
    rw [hs] at hxs
    rw [hA] at hxa
    simp only [Option.some.injEq, Prod.mk.injEq] at hxs hxa
    have hne : A ≠ zero := by rw [hxa]; simp
    have hsafe : safeE s.em ct := der_safeE hi.kn hkeys dc
    rw [hc, sessS_ne hne] at hsafe
    obtain ⟨y, hy, _, _, _, hid, hpk⟩ := emitted_m5 salt b A id sk (hi.em _ (safe_m5 hi.em salt b A id sk hsafe))
    have hmono : ∀ t, s.em t → learn s.em (m6For (sessS salt b A)) t := fun t h => Or.inl h
    refine ⟨?_, ?_, fun h => hi.ver h, ?_⟩
    · intro t ht
      rcases ht with ht | rfl
      · exact safeE_mono hmono t (hi.kn t ht)
      · exact Or.inl (Or.inr rfl)
    · intro t ht
      rcases ht with ht | rfl
      · exact hi.em t ht
      · rw [sessS_ne hne]; exact .m6 salt b A hne
    · intro i p hp'
      simp only [Option.some.injEq, Prod.mk.injEq] at hp'
      exact ⟨y, hy, by rw [← hp'.1]; exact hid, by rw [← hp'.2]; exact hpk⟩
  | hm3 x dB =>
    have hmono : ∀ t, s.em t → learn s.em (expM x.salt x.b (gexp x.a)) t := fun t h => Or.inl h
    have hhon : ∀ y, s.hon y → (s.hon y ∨ y = x) := fun y h => Or.inl h
    refine ⟨?_, ?_, ?_, ?_⟩
    · intro t ht
      rcases ht with (ht | rfl) | rfl
      · exact safeE_mono hmono t (hi.kn t ht)
      · trivial
      · exact Or.inl (Or.inr rfl)
    · intro t ht
      rcases ht with ht | rfl
      · exact (hi.em t ht).mono hhon
      · exact .m x (Or.inr rfl)
    · intro hv
      obtain ⟨y, hy, h1, h2⟩ := hi.ver hv
      exact ⟨y, Or.inl hy, h1, h2⟩
    · intro i p hp
      obtain ⟨y, hy, h1, h2⟩ := hi.pr i p hp
      exact ⟨y, Or.inl hy, h1, h2⟩
  | hm5 x hx =>
    have hmono : ∀ t, s.em t → learn s.em (m5For (skey x.salt x.b (gexp x.a)) x.id x.sk) t := fun t h => Or.inl h
    refine ⟨?_, ?_, hi.ver, hi.pr⟩
    · intro t ht
      rcases ht with ht | rfl
      · exact safeE_mono hmono t (hi.kn t ht)
      · exact Or.inl (Or.inr rfl)
    · intro t ht
      rcases ht with ht | rfl
      · exact hi.em t ht
      · exact .m5 x hx

/-- the initial state: an unpaired accessory, no honest session yet, an attacker who knows every public
    value (and not the code) -/
def init : MState :=
  { kn := fun t => ∃ n, t = nonce n, em := fun _ => False, hon := fun _ => False, sess := none,
    lastA := none, verified := false, paired := none, next := 0 }

theorem minv_init : MInv init :=
  ⟨(by rintro t ⟨n, rfl⟩; trivial), (by intro t h; exact h.elim), (by intro h; cases h), (by intro i p h; cases h)⟩

/-- **Man in the middle.**  In every reachable state: (a) a recorded success means the `A` in force is the
    public value of an honest controller session run against the CURRENT exchange; (b) a recorded pairing
    carries the identifier and long-term key of an honest controller session; and the attacker still
    cannot derive the setup code. -/
theorem mitm_secure (s : MState) (hr : MReach init s) :
    (s.verified = true → ∃ x, s.hon x ∧ s.sess = some (x.salt, x.b) ∧ s.lastA = some (gexp x.a)) ∧
    (∀ i p, s.paired = some (i, p) → ∃ x, s.hon x ∧ i = x.id ∧ p = pk x.sk) ∧
    ¬ Der s.kn code := by
  have hi : MInv s := by
    induction hr with
    | refl => exact minv_init
    | step _ st ih => exact minv_step _ _ ih st
  refine ⟨hi.ver, hi.pr, ?_⟩
  intro d
  exact der_safeE hi.kn (fun k m h => emitted_keys hi.em k m h) d

/-- non-vacuity: the honest controller does get paired when the attacker merely relays — a reachable
    state with a recorded success and then a recorded pairing (identifier `nonce 50`, key `pk (sec 101)`) -/
theorem mitm_honest_run :
    ∃ s, MReach init s ∧ s.verified = true ∧ s.paired = some (nonce 50, pk (sec 101)) := by
  let salt := nonce 4
  let b := sec 0
  let x : HSess := ⟨salt, b, sec 100, nonce 50, sec 101⟩
  -- M1
  let s1 : MState := { init with kn := learn init.kn (pair salt (bval salt b)), sess := some (salt, b),
                                 lastA := none, verified := false, next := 1 }
  have r1 : MReach init s1 := MReach.step MReach.refl (MStep.m1 init rfl)
  have dB : Der s1.kn (bval salt b) := Der.snd (Der.ax (Or.inr rfl))
  -- the honest controller answers with its M3
  let s2 : MState := { s1 with kn := learn (learn s1.kn (gexp x.a)) (expM x.salt x.b (gexp x.a)),
                               em := learn s1.em (expM x.salt x.b (gexp x.a)),
                               hon := fun y => s1.hon y ∨ y = x }
  have r2 : MReach init s2 := MReach.step r1 (MStep.hm3 s1 x dB)
  -- the attacker relays it
  have dA : Der s2.kn (gexp x.a) := Der.ax (Or.inl (Or.inr rfl))
  have dM : Der s2.kn (expM salt b (gexp x.a)) := Der.ax (Or.inr rfl)
  let s3 : MState := { s2 with kn := learn s2.kn (PairSetupSym.hamk salt b (gexp x.a)),
                               em := learn s2.em (PairSetupSym.hamk salt b (gexp x.a)),
                               lastA := some (gexp x.a), verified := true }
  have r3 : MReach init s3 := MReach.step r2 (MStep.m3ok s2 salt b (gexp x.a) _ rfl rfl dA dM rfl (by simp))
  -- the honest controller sends its M5, the attacker relays it
  let s4 : MState := { s3 with kn := learn s3.kn (m5For (skey x.salt x.b (gexp x.a)) x.id x.sk),
                               em := learn s3.em (m5For (skey x.salt x.b (gexp x.a)) x.id x.sk) }
  have r4 : MReach init s4 := MReach.step r3 (MStep.hm5 s3 x (Or.inr rfl))
  have dc : Der s4.kn (m5For (sessS salt b (gexp x.a)) x.id x.sk) := by
    have : sessS salt b (gexp x.a) = skey salt b (gexp x.a) := sessS_ne (by simp)
    rw [this]; exact Der.ax (Or.inr rfl)
  exact ⟨_, MReach.step r4 (MStep.m5 s4 salt b (gexp x.a) x.id x.sk _ rfl rfl rfl rfl dc rfl), rfl, rfl⟩

end Hap.PairSetupMitm
