/-
  C01, second layer over `Proofs/PairSetupGate.lean`: the gate tied to the SETUP CODE and to the DATA.

  `PairSetupGate` proves the control fact (every O1 answers a good M3, every O2/O3 needs one in the
  current exchange) relative to whatever verifier record sits in the state.  Here the verifier itself
  is pinned down: along every history that starts without a verifier, the verifier in force is
  `Srp.mk H G "Pair-Setup" code salt b` for the setup code that was configured when the latest M1 was
  served and that M1's own randomness (`Exch`), so that "the expected proof" is the closed-form SRP-6a
  proof for THAT code; and an accepted M5 is characterised by its data (`AcceptedM5`): the ciphertext
  opens under HKDF of the session key of the very M3 that demonstrated knowledge of the code, and the
  recorded identifier / long-term key are the ones inside it, signed with that key over HKDF(K) ‖ id ‖ key.
  Core Lean only.
-/
import Proofs.PairSetupGate
namespace Hap.PairSetup
open Hap Hap.Tlv Hap.Srp

/-- the part of a verifier that `set_A` / `verify` never touch -/
def core (s : Server) : Server := { s with sess := none, verified := false }

/-- the parameters of an SRP exchange: the setup code in force when its M1 was served, and that M1's
    salt and secret -/
structure Exch where
  code : Bytes
  salt : Bytes
  b : Nat
  deriving DecidableEq, Repr

/-- the verifier `setup_srp_verifier` builds for an exchange -/
def srvOf (cfg : Cfg) (x : Exch) : Server := Srp.mk cfg.c.H cfg.G SRP_USER x.code x.salt x.b

/-- what `set_A(A)` computes in exchange `x` — a function of the code, the salt, `b` and `A` only -/
def sessOf (cfg : Cfg) (x : Exch) (A : Bytes) : Sess := mkSess cfg.c.H (srvOf cfg x) A

theorem mkSess_core (H : Bytes → Bytes) (srv : Server) (A : Bytes) :
    mkSess H srv A = mkSess H (core srv) A := rfl

theorem core_mk (H : Bytes → Bytes) (G : Group) (I p s : Bytes) (b : Nat) :
    core (Srp.mk H G I p s b) = Srp.mk H G I p s b := rfl

theorem core_verify_setA (H : Bytes → Bytes) (srv : Server) (A M : Bytes) :
    core (verify (setA H srv A) M).1 = core srv := by
  unfold verify setA; rfl

/-- the expected proof of exchange `x` for public value `A`, in closed form: SRP-6a with
    `x = H(salt ‖ H("Pair-Setup:" code))`, `v = g^x`, `B = k v + g^b`, `u = H(PAD A ‖ PAD B)`,
    `S = (A v^u)^b`, `K = H(S)`, `M = H(H(N) xor H(g) ‖ H(I) ‖ salt ‖ A ‖ B ‖ K)` -/
theorem sessOf_closed (cfg : Cfg) (x : Exch) (A : Bytes) :
    let H := cfg.c.H
    let G := cfg.G
    let v := powMod G.g (privKey H x.salt SRP_USER x.code) G.N
    let Bb := natToBytes ((multK H G * v + powMod G.g x.b G.N) % G.N)
    let S := premaster G (bytesToNat A) v (scramble H G A Bb) x.b
    (sessOf cfg x A).Kb = H (natToBytes S) ∧
    (sessOf cfg x A).M = proofM H G SRP_USER x.salt A Bb (H (natToBytes S)) ∧
    (sessOf cfg x A).HAMK = H (A ++ (sessOf cfg x A).M ++ H (natToBytes S)) ∧
    (srvOf cfg x).Bb = Bb ∧ (srvOf cfg x).s = x.salt ∧ (srvOf cfg x).G = G :=
  ⟨rfl, rfl, rfl, rfl, rfl, rfl⟩

/-- the `A` / `M` items of a request body, if any -/
def reqA (r : Req) : Option Bytes := (Tlv.decode r.body []).bind (lookup · T_PUBLIC_KEY)
def reqM (r : Req) : Option Bytes := (Tlv.decode r.body []).bind (lookup · T_PASSWORD_PROOF)

/-- **What an accepted M5 is**, in terms of the session key `Kb` it was served under: the request is an
    M5 whose encrypted item opens under `HKDF(Kb, "Pair-Setup-Encrypt-…")` / nonce `PS-Msg05` to a sub-TLV
    carrying an identifier, a long-term public key and a signature; the signature verifies under THAT
    public key over `HKDF(Kb, "Pair-Setup-Controller-Sign-…") ‖ identifier ‖ key`; the identifier parses as
    a UUID; and afterwards exactly that (uuid, key) is the one recorded pairing, admin, and the verifier is
    gone. -/
def AcceptedM5 (cfg : Cfg) (Kb : Bytes) (pre : PS) (r : Req) (post : PS) : Prop :=
  ∃ t ed sub d ident ltpk sig u,
    Tlv.decode r.body [] = some t ∧ lookup t T_SEQUENCE_NUM = some [5] ∧
    lookup t T_ENCRYPTED_DATA = some ed ∧
    cfg.c.aeadDec (cfg.c.hkdf Kb P3_SALT P3_INFO) NONCE5 ed = some sub ∧
    Tlv.decode sub [] = some d ∧ lookup d T_USERNAME = some ident ∧ lookup d T_PUBLIC_KEY = some ltpk ∧
    lookup d T_PROOF = some sig ∧
    cfg.c.sigVerify ltpk sig (cfg.c.hkdf Kb P4_SALT P4_INFO ++ ident ++ ltpk) = some true ∧
    cfg.c.uuidOf ident = some u ∧
    post = { pre with paired := [(u, ltpk, PERM_ADMIN)], verifier := none }

theorem pairingThree_acc (cfg : Cfg) (ps : PS) (t : Items) (hp : ps.paired = []) :
    ((pairingThree cfg ps t).1 = ps ∧
        ((pairingThree cfg ps t).2.1 = .err500 ∨ (pairingThree cfg ps t).2.1 = .m6AuthErr))
    ∨ ∃ srv ss ed sub d ident ltpk sig u,
        ps.verifier = some srv ∧ srv.verified = true ∧ srv.sess = some ss ∧
        lookup t T_ENCRYPTED_DATA = some ed ∧
        cfg.c.aeadDec (cfg.c.hkdf ss.Kb P3_SALT P3_INFO) NONCE5 ed = some sub ∧
        Tlv.decode sub [] = some d ∧ lookup d T_USERNAME = some ident ∧
        lookup d T_PUBLIC_KEY = some ltpk ∧ lookup d T_PROOF = some sig ∧
        cfg.c.sigVerify ltpk sig (cfg.c.hkdf ss.Kb P4_SALT P4_INFO ++ ident ++ ltpk) = some true ∧
        cfg.c.uuidOf ident = some u ∧
        (pairingThree cfg ps t).1 = { ps with paired := [(u, ltpk, PERM_ADMIN)], verifier := none } ∧
        isO2 (pairingThree cfg ps t).2.1 = true := by
  unfold pairingThree
  cases hed : lookup t T_ENCRYPTED_DATA with
  | none => left; simp
  | some ed =>
    cases hv : ps.verifier with
    | none => left; simp
    | some srv =>
      cases hver : srv.verified with
      | false => left; simp [hver]
      | true =>
        cases hss : srv.sess with
        | none => left; simp [hver, hss]
        | some ss =>
          cases hdec : cfg.c.aeadDec (cfg.c.hkdf ss.Kb P3_SALT P3_INFO) NONCE5 ed with
          | none => left; simp [hver, hss, pairingThreeKey, hdec]
          | some sub =>
            cases hd : Tlv.decode sub [] with
            | none => left; simp [hver, hss, pairingThreeKey, hdec, hd]
            | some d =>
              cases hu : lookup d T_USERNAME with
              | none => left; simp [hver, hss, pairingThreeKey, hdec, hd, hu]
              | some ident =>
                cases hk : lookup d T_PUBLIC_KEY with
                | none => left; simp [hver, hss, pairingThreeKey, hdec, hd, hu, hk]
                | some ltpk =>
                  cases hsg : lookup d T_PROOF with
                  | none => left; simp [hver, hss, pairingThreeKey, hdec, hd, hu, hk, hsg]
                  | some sig =>
                    cases hsv : cfg.c.sigVerify ltpk sig (cfg.c.hkdf ss.Kb P4_SALT P4_INFO ++ (ident ++ ltpk)) with
                    | none => left; simp [hver, hss, pairingThreeKey, hdec, hd, hu, hk, hsg, pairingFour, hsv]
                    | some ok =>
                      cases ok with
                      | false => left; simp [hver, hss, pairingThreeKey, hdec, hd, hu, hk, hsg, pairingFour, hsv]
                      | true =>
                        cases huu : cfg.c.uuidOf ident with
                        | none =>
                          left; simp [hver, hss, pairingThreeKey, hdec, hd, hu, hk, hsg, pairingFour, hsv, pairingFive, huu]
                        | some u =>
                          right
                          refine ⟨srv, ss, ed, sub, d, ident, ltpk, sig, u, rfl, hver, hss, rfl, hdec, hd, hu, hk,
                            hsg, by rw [List.append_assoc]; exact hsv, huu, ?_, ?_⟩
                          · simp [hver, hss, pairingThreeKey, hdec, hd, hu, hk, hsg, pairingFour, hsv, pairingFive, huu,
                              hp, setPairing]
                          · simp [hver, hss, pairingThreeKey, hdec, hd, hu, hk, hsg, pairingFour, hsv, pairingFive, huu,
                              isO2]

/-- the verifier a served M1 installs: made from the CURRENT setup code and this request's randomness -/
def m1Srv (cfg : Cfg) (ps : PS) (r : Req) : Server :=
  Srp.mk cfg.c.H cfg.G SRP_USER ps.pincode r.salt (bytesToNat r.bRand)

/-- the shapes a step can have, with the DATA of each -/
inductive Case (cfg : Cfg) (ps : PS) (r : Req) (ps' : PS) (o : Out) : Prop
  | noop (hs : ps' = ps) (h1 : isO1 o = false) (h2 : isO2 o = false) (hm : isM2 o = false)
      (hg : goodM3 cfg ps r = false)
  | m1 (hs : ps' = { ps with verifier := some (m1Srv cfg ps r) })
      (ho : o = .m2 r.salt (m1Srv cfg ps r).Bb)
      (hg : goodM3 cfg ps r = false)
  | m3 (A M : Bytes) (srv : Server) (hA : reqA r = some A) (hM : reqM r = some M)
      (hv : ps.verifier = some srv)
      (hs : ps' = { ps with verifier := some (verify (setA cfg.c.H srv A) M).1 })
      (ho : o = (match (verify (setA cfg.c.H srv A) M).2 with | none => Out.m4AuthErr | some h => Out.m4 h))
      (hg : goodM3 cfg ps r = (verify (setA cfg.c.H srv A) M).2.isSome)
  | m5 (srv : Server) (ss : Sess) (hv : ps.verifier = some srv) (hver : srv.verified = true)
      (hss : srv.sess = some ss) (hacc : AcceptedM5 cfg ss.Kb ps r ps') (h2 : isO2 o = true)
      (hg : goodM3 cfg ps r = false)

theorem step_case (cfg : Cfg) (ps : PS) (r : Req) :
    Case cfg ps r (step cfg ps r).1 (step cfg ps r).2.1 := by
  by_cases hp : ps.paired = []
  · cases hd : Tlv.decode r.body [] with
    | none =>
      rw [step_nodecode cfg ps r hp hd]
      exact .noop rfl rfl rfl rfl (by simp [goodM3, hd])
    | some t =>
      cases hs : lookup t T_SEQUENCE_NUM with
      | none =>
        rw [step_noseq cfg ps r t hp hd hs]
        exact .noop rfl rfl rfl rfl (by simp [goodM3, hd, hs])
      | some seq =>
        rw [step_seq cfg ps r t seq hp hd hs]
        by_cases h1 : seq = [1]
        · rw [if_pos h1]
          exact .m1 rfl rfl (goodM3_seq cfg ps r t seq hd hs (by simp [h1]))
        · rw [if_neg h1]
          by_cases h3 : seq = [3]
          · rw [if_pos h3]
            subst h3
            rcases pairingTwo_spec cfg ps t with ⟨A, M, srv, hA, hM, hv, e1, e2⟩ | ⟨hnone, e1, e2⟩
            · have hgood : goodM3 cfg ps r = (verify (setA cfg.c.H srv A) M).2.isSome := by
                rw [verify_setA_some]
                simp [goodM3, hp, hd, hs, hA, hM, hv]
              exact .m3 A M srv (by simp [reqA, hd, hA]) (by simp [reqM, hd, hM]) hv e1 e2 hgood
            · refine .noop e1 (by rw [e2]; rfl) (by rw [e2]; rfl) (by rw [e2]; rfl) ?_
              rcases hnone with h | h | h
              · simp [goodM3, hd, hs, h]
              · cases hA : lookup t T_PUBLIC_KEY <;> simp [goodM3, hd, hs, h, hA]
              · cases hA : lookup t T_PUBLIC_KEY <;> cases hM : lookup t T_PASSWORD_PROOF <;>
                  simp [goodM3, hd, hs, h, hA, hM]
          · rw [if_neg h3]
            have hg : goodM3 cfg ps r = false := goodM3_seq cfg ps r t seq hd hs h3
            by_cases h5 : seq = [5]
            · rw [if_pos h5]
              subst h5
              rcases pairingThree_acc cfg ps t hp with ⟨e1, e2 | e2⟩ |
                  ⟨srv, ss, ed, sub, d, ident, ltpk, sig, u, hv, hver, hss, hed, hdec, hdd, hu, hk, hsg, hsv, huu, e1, e2⟩
              · exact .noop e1 (by rw [e2]; rfl) (by rw [e2]; rfl) (by rw [e2]; rfl) hg
              · exact .noop e1 (by rw [e2]; rfl) (by rw [e2]; rfl) (by rw [e2]; rfl) hg
              · exact .m5 srv ss hv hver hss
                  ⟨t, ed, sub, d, ident, ltpk, sig, u, hd, hs, hed, hdec, hdd, hu, hk, hsg, hsv, huu, e1⟩ e2 hg
            · rw [if_neg h5]
              exact .noop rfl rfl rfl rfl hg
  · rw [step_paired cfg ps r hp]
    refine .noop rfl rfl rfl rfl ?_
    have : ps.paired.isEmpty = false := by
      cases h : ps.paired with
      | nil => exact absurd h hp
      | cons _ _ => rfl
    simp [goodM3, this]

/-! ### the ghost of an exchange, computed from the history -/

/-- `exch`: the exchange opened by the latest served M1 and not yet consumed by an accepted M5;
    `demoA`: the public value `A` of the latest good M3 received in it -/
structure Ghost where
  exch : Option Exch
  demoA : Option Bytes

def Ghost.init : Ghost := ⟨none, none⟩

def gNext (cfg : Cfg) (ps : PS) (g : Ghost) (r : Req) : Ghost :=
  if isM2 (step cfg ps r).2.1 then ⟨some ⟨ps.pincode, r.salt, bytesToNat r.bRand⟩, none⟩
  else if isO2 (step cfg ps r).2.1 then ⟨none, none⟩
  else if goodM3 cfg ps r then ⟨g.exch, reqA r⟩
  else g

/-- the accessory issues its proof exactly for good M3s (any state, any request) -/
theorem goodM3_eq_isO1 (cfg : Cfg) (ps : PS) (r : Req) : goodM3 cfg ps r = isO1 (step cfg ps r).2.1 := by
  cases step_shape cfg ps r with
  | noop hs h1 h2 hm hg => rw [h1, hg]
  | m1 srv hs hv hm h1 h2 hg => rw [h1, hg]
  | m3 srv hs hv h1 h2 hm => rw [h1]
  | m5 hver hs h2 h1 hm hg => rw [h1, hg]

/-- `gNext` from the answer already computed (what the line-protocol driver evaluates) -/
def gNextOut (ps : PS) (g : Ghost) (r : Req) (o : Out) : Ghost :=
  if isM2 o then ⟨some ⟨ps.pincode, r.salt, bytesToNat r.bRand⟩, none⟩
  else if isO2 o then ⟨none, none⟩
  else if isO1 o then ⟨g.exch, reqA r⟩
  else g

theorem gNext_eq_out (cfg : Cfg) (ps : PS) (g : Ghost) (r : Req) :
    gNext cfg ps g r = gNextOut ps g r (step cfg ps r).2.1 := by
  unfold gNext gNextOut
  rw [goodM3_eq_isO1]

/-- the code's state agrees with the ghost: the verifier in force is the one of the ghost exchange, and
    a recorded success means the session in force is the one of the ghost's demonstrating `A` -/
structure GInv (cfg : Cfg) (ps : PS) (g : Ghost) : Prop where
  exch : ps.verifier.map core = g.exch.map (srvOf cfg)
  demo : ∀ srv, ps.verifier = some srv → srv.verified = true →
    ∃ A, g.demoA = some A ∧ srv.sess = some (mkSess cfg.c.H srv A) ∧ bytesToNat A % srv.G.N ≠ 0

theorem ginv_init (cfg : Cfg) (ps : PS) (h : ps.verifier = none) : GInv cfg ps Ghost.init :=
  ⟨by simp [h, Ghost.init], by simp [h]⟩

theorem verify_setA_good (H : Bytes → Bytes) (srv : Server) (A M : Bytes)
    (h : (verify (setA H srv A) M).2.isSome = true) :
    (mkSess H srv A).M = M ∧ bytesToNat A % srv.G.N ≠ 0 ∧
    (verify (setA H srv A) M).1.sess = some (mkSess H srv A) ∧
    (verify (setA H srv A) M).2 = some (mkSess H srv A).HAMK := by
  rw [verify_setA_some] at h
  simp only [Bool.and_eq_true, beq_iff_eq, bne_iff_ne, ne_eq] at h
  have hA : (mkSess H srv A).A % srv.G.N ≠ 0 := h.2
  refine ⟨h.1, h.2, ?_, ?_⟩
  · simp [verify, setA]
  · simp [verify, setA, hA, h.1]

theorem ginv_step (cfg : Cfg) (ps : PS) (g : Ghost) (r : Req) (hi : GInv cfg ps g) :
    GInv cfg (step cfg ps r).1 (gNext cfg ps g r) := by
  unfold gNext
  cases step_case cfg ps r with
  | noop hs h1 h2 hm hg => rw [hs]; simpa [hm, h2, hg] using hi
  | m1 hs ho hg =>
    rw [hs, ho]
    refine ⟨by simp [isM2, srvOf]; rfl, ?_⟩
    intro srv hv hver
    simp only [Option.some.injEq] at hv
    subst hv
    simp [m1Srv, Srp.mk] at hver
  | m3 A M srv hA hM hv hs ho hg =>
    have hm : isM2 (step cfg ps r).2.1 = false := by
      rw [ho]; cases (verify (setA cfg.c.H srv A) M).2 <;> rfl
    have h2 : isO2 (step cfg ps r).2.1 = false := by
      rw [ho]; cases (verify (setA cfg.c.H srv A) M).2 <;> rfl
    rw [hs]
    simp only [hm, h2, Bool.false_eq_true, if_false]
    have hex : (some (verify (setA cfg.c.H srv A) M).1).map core = g.exch.map (srvOf cfg) := by
      have := hi.exch
      rw [hv] at this
      simpa [core_verify_setA] using this
    by_cases hgood : goodM3 cfg ps r = true
    · simp only [hgood, if_true]
      refine ⟨hex, ?_⟩
      intro srv' hv' _
      simp only [Option.some.injEq] at hv'
      subst hv'
      rw [hg] at hgood
      obtain ⟨_, hAne, hsess, _⟩ := verify_setA_good cfg.c.H srv A M hgood
      refine ⟨A, hA, ?_, ?_⟩
      · rw [hsess]
        congr 1
      · have : (verify (setA cfg.c.H srv A) M).1.G = srv.G := by unfold verify setA; rfl
        rw [this]; exact hAne
    · simp only [hgood, Bool.false_eq_true, if_false]
      refine ⟨hex, ?_⟩
      intro srv' hv' hver'
      simp only [Option.some.injEq] at hv'
      subst hv'
      rw [verify_verified, ← hg] at hver'
      exact absurd hver' hgood
  | m5 srv ss hv hver hss hacc h2 hg =>
    have hm : isM2 (step cfg ps r).2.1 = false := by
      cases h : (step cfg ps r).2.1 <;> simp_all [isM2, isO2]
    obtain ⟨t, ed, sub, d, ident, ltpk, sig, u, _, _, _, _, _, _, _, _, _, _, hpost⟩ := hacc
    rw [hpost]
    simp only [hm, h2, Bool.false_eq_true, if_false, if_true]
    exact ⟨by simp, by simp⟩

/-! ### histories of events with the ghost -/

structure XEvent where
  pre : PS
  g : Ghost
  req : Req
  post : PS
  out : Out

/-- the pair-setup requests served along a history of events (requests on any connection, bystander
    activity, the owner unpairing the accessory or changing the setup code), each with the state and
    the ghost in which it was served -/
def xtrace (cfg : Cfg) : PS → Ghost → List Ev → List XEvent
  | _, _, [] => []
  | ps, g, .req r :: es =>
    ⟨ps, g, r, (step cfg ps r).1, (step cfg ps r).2.1⟩ :: xtrace cfg (step cfg ps r).1 (gNext cfg ps g r) es
  | ps, g, .unpair :: es => xtrace cfg { ps with paired := [] } g es
  | ps, g, .setCode c :: es => xtrace cfg { ps with pincode := c } g es
  | ps, g, .connLost :: es => xtrace cfg ps g es
  | ps, g, .other :: es => xtrace cfg ps g es

/-- the invariant holds at every served request of every history -/
theorem xtrace_inv (cfg : Cfg) (evs : List Ev) : ∀ (ps : PS) (g : Ghost), GInv cfg ps g →
    ∀ e ∈ xtrace cfg ps g evs, GInv cfg e.pre e.g ∧
      e.post = (step cfg e.pre e.req).1 ∧ e.out = (step cfg e.pre e.req).2.1 := by
  induction evs with
  | nil => intro ps g _ e he; simp [xtrace] at he
  | cons ev evs ih =>
    intro ps g hi e he
    cases ev with
    | req r =>
      simp only [xtrace, List.mem_cons] at he
      rcases he with rfl | he
      · exact ⟨hi, rfl, rfl⟩
      · exact ih _ _ (ginv_step cfg ps g r hi) e he
    | unpair => exact ih { ps with paired := [] } g ⟨hi.exch, hi.demo⟩ e (by simpa [xtrace] using he)
    | setCode c => exact ih { ps with pincode := c } g ⟨hi.exch, hi.demo⟩ e (by simpa [xtrace] using he)
    | connLost => exact ih _ _ hi e (by simpa [xtrace] using he)
    | other => exact ih _ _ hi e (by simpa [xtrace] using he)

/-- one served request in a state that agrees with its ghost: what O1 and O2/O3 mean in terms of the
    setup code and the data -/
theorem gate_code_step (cfg : Cfg) (ps : PS) (g : Ghost) (r : Req) (hi : GInv cfg ps g) :
    (isO1 (step cfg ps r).2.1 = true →
      ∃ x A M, g.exch = some x ∧ reqA r = some A ∧ reqM r = some M ∧
        M = (sessOf cfg x A).M ∧ bytesToNat A % cfg.G.N ≠ 0 ∧
        (step cfg ps r).2.1 = .m4 (sessOf cfg x A).HAMK) ∧
    ((isO2 (step cfg ps r).2.1 = true ∨ (step cfg ps r).1.paired ≠ ps.paired) →
      ∃ x A, g.exch = some x ∧ g.demoA = some A ∧ bytesToNat A % cfg.G.N ≠ 0 ∧
        AcceptedM5 cfg (sessOf cfg x A).Kb ps r (step cfg ps r).1) := by
  have hexch : ∀ srv, ps.verifier = some srv → ∃ x, g.exch = some x ∧ core srv = srvOf cfg x := by
    intro srv hv
    have := hi.exch
    rw [hv] at this
    cases hx : g.exch with
    | none => rw [hx] at this; simp at this
    | some x => rw [hx] at this; exact ⟨x, rfl, by simpa using this⟩
  cases step_case cfg ps r with
  | noop hs h1 h2 hm hg =>
    refine ⟨by simp [h1], ?_⟩
    rintro (h | h)
    · simp [h2] at h
    · rw [hs] at h; exact absurd rfl h
  | m1 hs ho hg =>
    refine ⟨by simp [ho, isO1], ?_⟩
    rintro (h | h)
    · simp [ho, isO2] at h
    · rw [hs] at h; exact absurd rfl h
  | m3 A M srv hA hM hv hs ho hg =>
    obtain ⟨x, hx, hc⟩ := hexch srv hv
    have hG : srv.G = cfg.G := by
      have : (core srv).G = (srvOf cfg x).G := by rw [hc]
      exact this
    refine ⟨?_, ?_⟩
    · intro h1
      have hsome : (verify (setA cfg.c.H srv A) M).2.isSome = true := by
        rw [ho] at h1
        cases h : (verify (setA cfg.c.H srv A) M).2 with
        | none => rw [h] at h1; simp [isO1] at h1
        | some _ => rfl
      obtain ⟨hMe, hAne, _, hout⟩ := verify_setA_good cfg.c.H srv A M hsome
      have hse : mkSess cfg.c.H srv A = sessOf cfg x A := by
        rw [mkSess_core, hc]; rfl
      refine ⟨x, A, M, hx, hA, hM, ?_, ?_, ?_⟩
      · rw [← hse]; exact hMe.symm
      · rw [← hG]; exact hAne
      · rw [ho, hout, hse]
    · rintro (h | h)
      · rw [ho] at h; cases hh : (verify (setA cfg.c.H srv A) M).2 <;> rw [hh] at h <;> simp [isO2] at h
      · rw [hs] at h; exact absurd rfl h
  | m5 srv ss hv hver hss hacc h2 hg =>
    obtain ⟨x, hx, hc⟩ := hexch srv hv
    obtain ⟨A, hdA, hsess, hAne⟩ := hi.demo srv hv hver
    have hG : srv.G = cfg.G := by
      have : (core srv).G = (srvOf cfg x).G := by rw [hc]
      exact this
    have hse : ss = sessOf cfg x A := by
      rw [hss] at hsess
      simp only [Option.some.injEq] at hsess
      rw [hsess, mkSess_core, hc]; rfl
    refine ⟨by cases h : (step cfg ps r).2.1 <;> simp_all [isO1, isO2], ?_⟩
    intro _
    exact ⟨x, A, hx, hdA, by rw [← hG]; exact hAne, by rw [← hse]; exact hacc⟩

/-- the gate, tied to the code and the data, at every served request of every history -/
theorem gate_code_trace (cfg : Cfg) (ps0 : PS) (g0 : Ghost) (h0 : GInv cfg ps0 g0) (evs : List Ev) :
    ∀ e ∈ xtrace cfg ps0 g0 evs,
      (isO1 e.out = true →
        ∃ x A M, e.g.exch = some x ∧ reqA e.req = some A ∧ reqM e.req = some M ∧
          M = (sessOf cfg x A).M ∧ bytesToNat A % cfg.G.N ≠ 0 ∧ e.out = .m4 (sessOf cfg x A).HAMK) ∧
      ((isO2 e.out = true ∨ e.post.paired ≠ e.pre.paired) →
        ∃ x A, e.g.exch = some x ∧ e.g.demoA = some A ∧ bytesToNat A % cfg.G.N ≠ 0 ∧
          AcceptedM5 cfg (sessOf cfg x A).Kb e.pre e.req e.post) := by
  intro e he
  obtain ⟨hi, hpost, hout⟩ := xtrace_inv cfg evs ps0 g0 h0 e he
  rw [hpost, hout]
  exact gate_code_step cfg e.pre e.g e.req hi

/-- how the ghost moves (so that it can be read as a specification, not as a restatement of the code):
    an exchange is opened only by a served M1, with the code configured at that moment and that request's
    randomness, and lives until the next served M1 or accepted M5; the demonstrating `A` is set only by a
    good M3 of the open exchange and dies with it -/
theorem ghost_step (cfg : Cfg) (ps : PS) (g : Ghost) (r : Req) :
    (∀ x, (gNext cfg ps g r).exch = some x →
      (isM2 (step cfg ps r).2.1 = true ∧ x = ⟨ps.pincode, r.salt, bytesToNat r.bRand⟩) ∨
      (isM2 (step cfg ps r).2.1 = false ∧ isO2 (step cfg ps r).2.1 = false ∧ g.exch = some x)) ∧
    (∀ A, (gNext cfg ps g r).demoA = some A →
      isM2 (step cfg ps r).2.1 = false ∧ isO2 (step cfg ps r).2.1 = false ∧
      ((goodM3 cfg ps r = true ∧ reqA r = some A) ∨ (goodM3 cfg ps r = false ∧ g.demoA = some A))) := by
  unfold gNext
  cases hm : isM2 (step cfg ps r).2.1 <;> cases h2 : isO2 (step cfg ps r).2.1 <;>
    cases hg : goodM3 cfg ps r <;> simp

/-- ideal AEAD, authenticity half, as a hypothesis record (DESIGN 1.2): whatever opens under `k` is the
    sealing of its plaintext under `k` -/
def AeadAuth (c : Crypto) : Prop := ∀ k n ct p, c.aeadDec k n ct = some p → ct = c.aeadEnc k n p

end Hap.PairSetup
