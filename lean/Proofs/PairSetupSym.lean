/-
  Dolev–Yao layer for C01 (symbolic, core Lean only).

  Terms are a free algebra; the attacker's knowledge is closed under pairing/projection, hashing,
  exponentiation, encryption/decryption and signing with known keys, reading signed messages, and
  the honest-client SRP computation GIVEN the setup code.  The hardness of SRP-6a enters only as the
  SHAPE of the algebra (DESIGN 2.2): for a non-degenerate `A` the session secret is the opaque
  constructor `skey salt b A`, obtainable only through the client rule (which needs `code`); `B`
  (`bval salt b`) masks the verifier and cannot be taken apart.  The degenerate `A` is the term `zero`,
  for which everybody knows the secret (`zero`).

  The accessory is a symbolic transition system driven by the attacker (any derivable message, any
  order); its answers are added to the attacker's knowledge.  `sym_secure`: if the initial knowledge
  is `safe` (does not contain the code, honest secrets or session secrets in extractable position),
  no reachable state has a successful M3 (O1), an M6 (O2) or a pairing (O3).  `sym_legacy_attack`: the
  same system without the `A ≠ zero` test reaches a pairing from the empty knowledge.
-/
namespace Hap.PairSetupSym

inductive Tm
  | code
  | nonce (n : Nat)
  | sec (n : Nat)
  | zero
  | pair (a b : Tm)
  | hsh (t : Tm)
  | gexp (a : Tm)
  | bval (salt b : Tm)
  | skey (salt b A : Tm)
  | aenc (k m : Tm)
  | sign (sk m : Tm)
  | pk (sk : Tm)
  deriving DecidableEq

open Tm

/-- what the attacker can compute from a knowledge set -/
inductive Der (Kn : Tm → Prop) : Tm → Prop
  | ax {t} : Kn t → Der Kn t
  | zero : Der Kn zero
  | pair {a b} : Der Kn a → Der Kn b → Der Kn (pair a b)
  | fst {a b} : Der Kn (pair a b) → Der Kn a
  | snd {a b} : Der Kn (pair a b) → Der Kn b
  | hsh {t} : Der Kn t → Der Kn (hsh t)
  | gexp {a} : Der Kn a → Der Kn (gexp a)
  | aenc {k m} : Der Kn k → Der Kn m → Der Kn (aenc k m)
  | adec {k m} : Der Kn (aenc k m) → Der Kn k → Der Kn m
  | sign {sk m} : Der Kn sk → Der Kn m → Der Kn (sign sk m)
  | unsign {sk m} : Der Kn (sign sk m) → Der Kn m
  | pk {sk} : Der Kn sk → Der Kn (pk sk)
  /-- the honest-client computation: with the code, the M2 values and one's own secret `a` -/
  | client {salt b a} : Der Kn code → Der Kn salt → Der Kn (bval salt b) → Der Kn a →
      Der Kn (skey salt b (gexp a))

/-- the code, honest secrets and session secrets do not occur in an extractable position -/
def safe : Tm → Prop
  | .code => False
  | .sec _ => False
  | .skey _ _ _ => False
  | .nonce _ => True
  | .zero => True
  | .pair a b => safe a ∧ safe b
  | .hsh t => safe t
  | .gexp a => safe a
  | .bval s _ => safe s
  | .aenc k m => safe k ∧ safe m
  | .sign sk m => safe sk ∧ safe m
  | .pk _ => True

/-- derivation preserves safety: from safe knowledge only safe terms can be computed -/
theorem der_safe {Kn : Tm → Prop} (h : ∀ t, Kn t → safe t) : ∀ {t}, Der Kn t → safe t := by
  intro t d
  induction d with
  | ax k => exact h _ k
  | zero => trivial
  | pair _ _ ia ib => exact ⟨ia, ib⟩
  | fst _ i => exact i.1
  | snd _ i => exact i.2
  | hsh _ i => exact i
  | gexp _ i => exact i
  | aenc _ _ ik im => exact ⟨ik, im⟩
  | adec _ _ ic _ => exact ic.2
  | sign _ _ ik im => exact ⟨ik, im⟩
  | unsign _ i => exact i.2
  | pk _ _ => trivial
  | client _ _ _ _ ic _ _ _ => exact False.elim ic

/-- the premaster secret the accessory computes -/
def sessS (salt b A : Tm) : Tm := if A = zero then zero else skey salt b A

/-- the proof the accessory expects for `A`: `H(H(N) xor H(g) ‖ H(I) ‖ salt ‖ A ‖ B ‖ H(S))`, the public
    group/user prefix being the constant `nonce 0` (the term mirrors the byte format field by field, see
    `Proofs/PairSetupHybrid.lean`: its denotation IS the executable model's expected proof) -/
def expM (salt b A : Tm) : Tm :=
  hsh (pair (nonce 0) (pair salt (pair A (pair (bval salt b) (hsh (sessS salt b A))))))

/-- the accessory's own proof -/
def hamk (salt b A : Tm) : Tm := hsh (pair A (pair (expM salt b A) (hsh (sessS salt b A))))

/-- the M5 the accessory accepts in a session with secret `S`, for controller `id`, key `sk` -/
def m5For (S id sk : Tm) : Tm :=
  aenc (hsh (pair (hsh S) (nonce 1))) (pair id (pair (pk sk) (sign sk (pair (hsh (pair (hsh S) (nonce 2))) id))))

structure SState where
  kn : Tm → Prop
  /-- salt, b, and the `A` of the latest M3 -/
  sess : Option (Tm × Tm)
  lastA : Option Tm
  verified : Bool
  paired : Option (Tm × Tm)
  next : Nat

def learn (kn : Tm → Prop) (t : Tm) : Tm → Prop := fun x => kn x ∨ x = t

/-- one request of the attacker served by the accessory; `gate = true` is the repaired code
    (refuses `A = zero`), `gate = false` the shipped one -/
inductive Step (gate : Bool) : SState → SState → Prop
  /-- M1: fresh salt (public) and secret `b`; M2 = (salt, B) is learnt -/
  | m1 (s : SState) (hp : s.paired = none) :
      Step gate s { s with kn := learn s.kn (pair (nonce (2 * s.next + 4)) (bval (nonce (2 * s.next + 4)) (sec s.next))),
                           sess := some (nonce (2 * s.next + 4), sec s.next), lastA := none,
                           verified := false, next := s.next + 1 }
  /-- M3 with the expected proof (and, if gated, `A ≠ zero`): O1, the accessory's proof is learnt -/
  | m3ok (s : SState) (salt b A M : Tm) (hp : s.paired = none) (hs : s.sess = some (salt, b))
      (dA : Der s.kn A) (dM : Der s.kn M) (hM : M = expM salt b A) (hg : gate = true → A ≠ zero) :
      Step gate s { s with kn := learn s.kn (hamk salt b A), lastA := some A, verified := true }
  /-- any other M3: refused -/
  | m3bad (s : SState) (A M : Tm) (dA : Der s.kn A) (dM : Der s.kn M) :
      Step gate s { s with lastA := some A, verified := false }
  /-- M5 accepted: O2 (the accessory's M6 is learnt) and O3 (pairing recorded) -/
  | m5 (s : SState) (salt b A id sk ct : Tm) (hp : s.paired = none) (hs : s.sess = some (salt, b))
      (hA : s.lastA = some A) (hv : s.verified = true) (dc : Der s.kn ct)
      (hc : ct = m5For (sessS salt b A) id sk) :
      Step gate s { s with kn := learn s.kn (aenc (hsh (pair (hsh (sessS salt b A)) (nonce 1))) (sign (sec 0) (nonce 3))),
                           paired := some (id, pk sk) }

inductive Reach (gate : Bool) (s0 : SState) : SState → Prop
  | refl : Reach gate s0 s0
  | step {s s'} : Reach gate s0 s → Step gate s s' → Reach gate s0 s'

theorem expM_unsafe (salt b A : Tm) (hA : A ≠ zero) : ¬ safe (expM salt b A) := by
  simp [expM, sessS, hA, safe]

/-- **Symbolic secrecy.**  Against the repaired accessory, an attacker whose initial knowledge is safe
    (in particular does not contain the setup code) never obtains O1, O2 or O3, whatever messages it
    derives and in whatever order it sends them. -/
theorem sym_secure (s0 s : SState) (h0 : ∀ t, s0.kn t → safe t) (hv0 : s0.verified = false)
    (hp0 : s0.paired = none) (hr : Reach true s0 s) :
    (∀ t, s.kn t → safe t) ∧ s.verified = false ∧ s.paired = none := by
  induction hr with
  | refl => exact ⟨h0, hv0, hp0⟩
  | step _ st ih =>
    obtain ⟨hk, hv, hp⟩ := ih
    cases st with
    | m1 _ =>
      refine ⟨?_, rfl, hp⟩
      intro t ht
      rcases ht with ht | rfl
      · exact hk t ht
      · simp [safe]
    | m3ok salt b A M _ _ dA dM hM hg =>
      exfalso
      have : safe M := der_safe hk dM
      rw [hM] at this
      exact expM_unsafe salt b A (hg rfl) this
    | m3bad A M _ _ => exact ⟨hk, rfl, hp⟩
    | m5 salt b A id sk ct _ _ _ hv' _ _ => rw [hv] at hv'; exact absurd hv' (by decide)

/-- the initial state of an unpaired accessory facing an attacker that knows only public values -/
def init : SState :=
  { kn := fun t => ∃ n, t = nonce n, sess := none, lastA := none, verified := false, paired := none, next := 0 }

theorem init_safe : ∀ t, init.kn t → safe t := by
  rintro t ⟨n, rfl⟩; trivial

/-- **The shipped code in the same symbolic model**: without the `A ≠ zero` test the attacker, knowing
    nothing but public values, reaches a state in which its own key is paired. -/
theorem sym_legacy_attack : ∃ s, Reach false init s ∧ s.paired = some (nonce 7, pk (nonce 9)) := by
  let salt := nonce 4
  let b := sec 0
  let s1 : SState := { init with kn := learn init.kn (pair salt (bval salt b)), sess := some (salt, b),
                                  lastA := none, verified := false, next := 1 }
  have r1 : Reach false init s1 := Reach.step Reach.refl (Step.m1 init rfl)
  have dn : ∀ n, Der s1.kn (nonce n) := fun n => Der.ax (Or.inl ⟨n, rfl⟩)
  have dB : Der s1.kn (bval salt b) := Der.snd (Der.ax (Or.inr rfl))
  have dM : Der s1.kn (expM salt b zero) := by
    unfold expM sessS
    simp only [if_true]
    exact Der.hsh (Der.pair (dn 0) (Der.pair (dn 4) (Der.pair Der.zero (Der.pair dB (Der.hsh Der.zero)))))
  let s2 : SState := { s1 with kn := learn s1.kn (hamk salt b zero), lastA := some zero, verified := true }
  have r2 : Reach false init s2 :=
    Reach.step r1 (Step.m3ok s1 salt b zero _ rfl rfl Der.zero dM rfl (by intro h; cases h))
  have dn2 : ∀ n, Der s2.kn (nonce n) := fun n => Der.ax (Or.inl (Or.inl ⟨n, rfl⟩))
  have dct : Der s2.kn (m5For (sessS salt b zero) (nonce 7) (nonce 9)) := by
    unfold m5For sessS
    simp only [if_true]
    exact Der.aenc (Der.hsh (Der.pair (Der.hsh Der.zero) (dn2 1)))
      (Der.pair (dn2 7) (Der.pair (Der.pk (dn2 9))
        (Der.sign (dn2 9) (Der.pair (Der.hsh (Der.pair (Der.hsh Der.zero) (dn2 2))) (dn2 7)))))
  exact ⟨_, Reach.step r2 (Step.m5 s2 salt b zero (nonce 7) (nonce 9) _ rfl rfl rfl rfl dct rfl), rfl⟩

end Hap.PairSetupSym
