/- Lemmas about the PairState model: association lists with dict semantics, the case analysis of
   one `POST /pairings`, alignment of the maps. -/
import HapModel.PairState
namespace Hap.PairState
open Hap

section Assoc
variable {K V : Type} [DecidableEq K]

theorem ahas_iff (l : List (K × V)) (k : K) : ahas l k = true ↔ k ∈ akeys l := by
  induction l with
  | nil => simp [ahas, aget, akeys]
  | cons h t ih =>
    obtain ⟨k', v⟩ := h
    by_cases e : k' = k
    · simp [ahas, aget, akeys, e]
    · have : ¬ k = k' := fun h => e h.symm
      simpa [ahas, aget, akeys, e, this] using ih

theorem akeys_aset (l : List (K × V)) (k : K) (v : V) :
    akeys (aset l k v) = if k ∈ akeys l then akeys l else akeys l ++ [k] := by
  induction l with
  | nil => simp [aset, akeys]
  | cons h t ih =>
    obtain ⟨k', v'⟩ := h
    by_cases e : k' = k
    · simp [aset, akeys, e]
    · have ne : ¬ k = k' := fun h => e h.symm
      simp only [aset, e, if_false, akeys, List.map_cons, List.mem_cons, ne, false_or] at ih ⊢
      rw [ih]; split <;> simp_all

theorem akeys_adel (l : List (K × V)) (k : K) : akeys (adel l k) = (akeys l).erase k := by
  induction l with
  | nil => simp [adel, akeys]
  | cons h t ih =>
    obtain ⟨k', v'⟩ := h
    by_cases e : k' = k
    · simp [adel, akeys, e]
    · simp only [adel, e, if_false, akeys, List.map_cons] at ih ⊢
      rw [ih, List.erase_cons_tail (by simpa using e)]

theorem aget_aset (l : List (K × V)) (k k' : K) (v : V) :
    aget (aset l k v) k' = if k = k' then some v else aget l k' := by
  induction l with
  | nil => simp [aset, aget]
  | cons h t ih =>
    obtain ⟨k0, v0⟩ := h
    by_cases e : k0 = k
    · subst e; by_cases e2 : k0 = k' <;> simp [aset, aget, e2]
    · by_cases e2 : k0 = k'
      · subst e2; simp [aset, aget, e]; intro h; exact absurd h.symm e
      · simp [aset, aget, e, e2, ih]

theorem aget_adel_ne (l : List (K × V)) (k k' : K) (h : k ≠ k') :
    aget (adel l k) k' = aget l k' := by
  induction l with
  | nil => simp [adel, aget]
  | cons hd t ih =>
    obtain ⟨k0, v0⟩ := hd
    by_cases e : k0 = k
    · subst e; simp [adel, aget, h]
    · by_cases e2 : k0 = k'
      · subst e2; simp [adel, aget, e]
      · simp [adel, aget, e, e2, ih]

theorem aget_none_of_not_mem (l : List (K × V)) (k : K) (h : k ∉ akeys l) : aget l k = none := by
  cases e : aget l k with
  | none => rfl
  | some v => exact absurd ((ahas_iff l k).mp (by simp [ahas, e])) h

end Assoc

/-- the key lists of `paired_clients` and `client_properties` coincide (same keys, same order) -/
def Aligned (s : PState) : Prop := akeys s.paired = akeys s.props

instance (s : PState) : Decidable (Aligned s) := by unfold Aligned; infer_instance

theorem aligned_aset (s : PState) (u : Uuid) (k : Bytes) (p : Nat) (b' : List (Uuid × Bytes)) (h : Aligned s) :
    Aligned { u2b := b', paired := aset s.paired u k, props := aset s.props u p } := by
  unfold Aligned at *
  simp only [akeys_aset, h]

theorem addPairedClient_aligned (parse : Bytes → Option Uuid) (s s' : PState) (idb key perms : Bytes)
    (h : Aligned s) (e : addPairedClient parse s idb key perms = some s') : Aligned s' := by
  unfold addPairedClient at e
  split at e
  · cases e
  · split at e
    · cases e; unfold Aligned at *; simp only [akeys_aset, h]
    · cases e

/-- the state after both `pop`s -/
def popped (s : PState) (u : Uuid) : PState :=
  { paired := adel s.paired u, props := adel s.props u, u2b := adel s.u2b u }

theorem removePairedClient_eq (s : PState) (u : Uuid) :
    removePairedClient s u =
      if ahas s.paired u = false then (s, false)
      else if ahas s.props u = false then ({ s with paired := adel s.paired u }, false)
      else if (popped s u).paired.any (fun e => isAdmin (popped s u) e.1) = true then (popped s u, true)
      else ({ popped s u with paired := [], props := [] }, true) := by
  unfold removePairedClient popped
  by_cases h1 : ahas s.paired u = true <;> by_cases h2 : ahas s.props u = true <;> simp [h1, h2]

/-- on aligned maps `remove_paired_client` of a paired controller raises nothing -/
theorem removePairedClient_ok (s : PState) (u : Uuid) (h : Aligned s) (hu : ahas s.paired u = true) :
    (removePairedClient s u).2 = true := by
  have hp : ahas s.props u = true := by
    rw [ahas_iff] at hu ⊢; rw [← h]; exact hu
  rw [removePairedClient_eq]
  simp only [hu, hp, Bool.true_eq_false, if_false]
  split <;> rfl

theorem removePairedClient_aligned (s : PState) (u : Uuid) (h : Aligned s) :
    Aligned (removePairedClient s u).1 := by
  rw [removePairedClient_eq]
  split
  · exact h
  · split
    · next h1 h2 =>
      exfalso
      have : ahas s.paired u = true := by simpa using h1
      have hp : ahas s.props u = true := by
        rw [ahas_iff] at this ⊢; rw [← h]; exact this
      simp [hp] at h2
    · split
      · unfold Aligned popped at *; simp only [akeys_adel, h]
      · rfl

/-- after `remove_paired_client` either an admin is still paired or nothing is paired at all -/
theorem removePairedClient_last_admin (s : PState) (u : Uuid) (hok : (removePairedClient s u).2 = true) :
    let s' := (removePairedClient s u).1
    (∃ e ∈ s'.paired, isAdmin s' e.1 = true) ∨ (s'.paired = [] ∧ s'.props = []) := by
  rw [removePairedClient_eq] at hok ⊢
  split
  · next h => simp [h] at hok
  · split
    · next h1 h2 => simp [h1, h2] at hok
    · split
      · next h3 => left; simpa [List.any_eq_true] using h3
      · right; exact ⟨rfl, rfl⟩

theorem okResp_not_error (pc : Bool) : (okResp pc).isError = false := by
  cases pc <;> decide

/-! ### one request, by cases -/

/-- the add path either changes nothing and answers 500, or registers one controller -/
theorem handleAdd_cases (parse : Bytes → Option Uuid) (s : PState) (objs : Tlv.Items) :
    handleAdd parse s objs = (s, err500, false) ∨
    ∃ idb key perms s', addPairedClient parse s idb key perms = some s' ∧
      handleAdd parse s objs = (s', okResp, true) := by
  unfold handleAdd
  split
  · next idb key perms _ _ _ =>
    cases e : addPairedClient parse s idb key perms with
    | none => left; rfl
    | some s' => right; exact ⟨idb, key, perms, s', e, rfl⟩
  · left; rfl

/-- the remove path on aligned maps: an error answer with nothing changed, a success answer for an
    unknown id with nothing changed, or the removal -/
theorem handleRemove_cases (parse : Bytes → Option Uuid) (s : PState) (objs : Tlv.Items) (h : Aligned s) :
    handleRemove parse s objs = (s, err500, false) ∨
    (∃ pc, handleRemove parse s objs = (s, okResp pc, false)) ∨
    ∃ u pc, ahas s.paired u = true ∧ (removePairedClient s u).2 = true ∧
      handleRemove parse s objs = ((removePairedClient s u).1, okResp pc, true) := by
  unfold handleRemove
  split
  · left; rfl
  · split
    · left; rfl
    · next u _ =>
      by_cases hu : ahas s.paired u = true
      · right; right
        have hok := removePairedClient_ok s u h hu
        simp only [hu, if_true]
        generalize hr : removePairedClient s u = r at hok
        obtain ⟨s', ok⟩ := r
        simp only at hok; subst hok
        refine ⟨u, (s'.paired.isEmpty && !s.paired.isEmpty), hu, ?_, ?_⟩
        · rw [hr]
        · rw [hr]
      · right; left
        simp only [hu, Bool.false_eq_true, if_false]
        exact ⟨_, rfl⟩

/-- what one operation can do to aligned maps: nothing; register one controller (success
    answer, save scheduled); or remove one paired controller (success answer, save scheduled) -/
theorem step_cases (parse : Bytes → Option Uuid) (s : PState) (op : Op) (h : Aligned s) :
    (∃ resp, step parse s op = (s, resp, false)) ∨
    (∃ idb key perms s', addPairedClient parse s idb key perms = some s' ∧
      step parse s op = (s', okResp, true)) ∨
    (∃ u pc, ahas s.paired u = true ∧ (removePairedClient s u).2 = true ∧
      step parse s op = ((removePairedClient s u).1, okResp pc, true)) := by
  cases op with
  | setup idb key =>
    simp only [step]
    cases e : addPairedClient parse s idb key [1] with
    | none => left; exact ⟨_, rfl⟩
    | some s' => right; left; exact ⟨idb, key, [1], s', e, rfl⟩
  | req r =>
    show (∃ resp, handlePairings parse s r = _) ∨ (∃ idb key perms s', _ ∧ handlePairings parse s r = _) ∨
      (∃ u pc, _ ∧ _ ∧ handlePairings parse s r = _)
    unfold handlePairings
    split
    · left; exact ⟨_, rfl⟩
    · split
      · left; exact ⟨_, rfl⟩
      · split
        · left; exact ⟨_, rfl⟩
        · next objs _ =>
          split
          · left; exact ⟨_, rfl⟩
          · left; exact ⟨_, rfl⟩
          · split
            · rcases handleAdd_cases parse s objs with e | ⟨idb, key, perms, s', e1, e2⟩
              · left; exact ⟨_, e⟩
              · right; left; exact ⟨idb, key, perms, s', e1, e2⟩
            · split
              · rcases handleRemove_cases parse s objs h with e | ⟨pc, e⟩ | ⟨u, pc, e1, e2, e3⟩
                · left; exact ⟨_, e⟩
                · left; exact ⟨_, e⟩
                · right; right; exact ⟨u, pc, e1, e2, e3⟩
              · split
                · left; exact ⟨_, rfl⟩
                · left; exact ⟨_, rfl⟩

/-- what a successful `verifiesAs` means -/
theorem verifiesAs_some (parse : Bytes → Option Uuid) (s : PState) (v : VerifyAttempt) (u : Uuid) (idb : Bytes)
    (h : verifiesAs parse s v = some (u, idb)) :
    v.outerOk = true ∧ ∃ k, v.idb = some idb ∧ parse idb = some u ∧ aget s.paired u = some k ∧
      v.signer = some k := by
  unfold verifiesAs at h
  split at h
  · cases h
  · next ho =>
    split at h
    · cases h
    · next idb' hidb =>
      split at h
      · cases h
      · next u' hp =>
        split at h
        · cases h
        · next k hk =>
          split at h
          · next hs => cases h; exact ⟨by simpa using ho, k, hidb, hp, hk, hs⟩
          · cases h

theorem backfill_spec (s : PState) (u : Uuid) (idb : Bytes) :
    (backfill s u idb).1.paired = s.paired ∧ (backfill s u idb).1.props = s.props ∧
    (∀ u' b, aget s.u2b u' = some b → aget (backfill s u idb).1.u2b u' = some b) ∧
    ((backfill s u idb).1 = s ∨ (aget s.u2b u = none ∧ (backfill s u idb).1.u2b = aset s.u2b u idb)) := by
  unfold backfill
  cases h : aget s.u2b u with
  | some b => exact ⟨rfl, rfl, fun _ _ hb => hb, Or.inl rfl⟩
  | none =>
    refine ⟨rfl, rfl, ?_, Or.inr ⟨rfl, rfl⟩⟩
    intro u' b hb
    simp only [aget_aset]
    by_cases e : u = u'
    · subst e; rw [h] at hb; cases hb
    · simp [e, hb]

/-! ### dict keys stay unique -/

/-- representation invariant of Python dicts: no key occurs twice -/
def KeysNodup (s : PState) : Prop :=
  (akeys s.paired).Nodup ∧ (akeys s.props).Nodup ∧ (akeys s.u2b).Nodup

theorem nodup_aset {K V : Type} [DecidableEq K] (l : List (K × V)) (k : K) (v : V)
    (h : (akeys l).Nodup) : (akeys (aset l k v)).Nodup := by
  rw [akeys_aset]
  split
  · exact h
  · next hk =>
    rw [List.nodup_append]
    exact ⟨h, by simp, by intro a ha b hb; simp at hb; subst hb; intro e; exact hk (e ▸ ha)⟩

theorem nodup_adel {K V : Type} [DecidableEq K] (l : List (K × V)) (k : K)
    (h : (akeys l).Nodup) : (akeys (adel l k)).Nodup := by
  rw [akeys_adel]; exact h.erase k

theorem keysNodup_step (parse : Bytes → Option Uuid) (s : PState) (op : Op) (h : Aligned s)
    (hn : KeysNodup s) : KeysNodup (step parse s op).1 := by
  obtain ⟨n1, n2, n3⟩ := hn
  rcases step_cases parse s op h with ⟨resp, e⟩ | ⟨idb, key, perms, s', e1, e⟩ | ⟨u, pc, _, _, e⟩
  · rw [e]; exact ⟨n1, n2, n3⟩
  · rw [e]
    unfold addPairedClient at e1
    split at e1
    · cases e1
    · split at e1
      · cases e1; exact ⟨nodup_aset _ _ _ n1, nodup_aset _ _ _ n2, nodup_aset _ _ _ n3⟩
      · cases e1
  · rw [e, removePairedClient_eq]
    split
    · exact ⟨n1, n2, n3⟩
    · split
      · exact ⟨nodup_adel _ _ n1, n2, n3⟩
      · split
        · exact ⟨nodup_adel _ _ n1, nodup_adel _ _ n2, nodup_adel _ _ n3⟩
        · exact ⟨by simp [akeys], by simp [akeys], nodup_adel _ _ n3⟩

theorem keysNodup_run (parse : Bytes → Option Uuid) (ops : List Op) (s : PState) (h : Aligned s)
    (hn : KeysNodup s) : KeysNodup (run parse s ops) ∧ Aligned (run parse s ops) := by
  induction ops generalizing s with
  | nil => exact ⟨hn, h⟩
  | cons op rest ih =>
    refine ih _ ?_ (keysNodup_step parse s op h hn)
    rcases step_cases parse s op h with ⟨resp, e⟩ | ⟨idb, key, perms, s', e1, e⟩ | ⟨u, pc, _, _, e⟩
    · rw [e]; exact h
    · rw [e]; exact addPairedClient_aligned parse s s' idb key perms h e1
    · rw [e]; exact removePairedClient_aligned s u h

end Hap.PairState
