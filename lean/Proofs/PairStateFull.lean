/- Whole-life histories (HapModel/PairStateHist.lean): the observer of the answers over the full
   alphabet — pair-setup, pair-verify exchanges, POST /pairings, configuration / hash changes and
   restarts — and the invariant that ties the accessory's maps, session facts and state file to it. -/
import HapModel.PairStateHist
import Proofs.PairStateHist
import Proofs.EncoderJson
namespace Hap.PairState
open Hap Hap.Encoder

/-- on the three request kinds `hstep` is `sstep`, and the identity part of the state is untouched -/
theorem hstep_s (parse : Bytes → Option Uuid) (w : World) (op : SOp) :
    (hstep parse w (.s op)).1.acc.ps = (sstep parse w.acc.ps w.ss op).1 ∧
    (hstep parse w (.s op)).1.ss = (sstep parse w.acc.ps w.ss op).2.1 ∧
    (hstep parse w (.s op)).1.acc = { w.acc with ps := (sstep parse w.acc.ps w.ss op).1 } := by
  cases op with
  | setup idb key => exact ⟨rfl, rfl, rfl⟩
  | req c body => exact ⟨rfl, rfl, rfl⟩
  | verify c v =>
    simp only [hstep, sstep]
    cases verifiesAs parse w.acc.ps v with
    | none => exact ⟨rfl, rfl, rfl⟩
    | some p => exact ⟨rfl, rfl, rfl⟩

/-! ### the observer -/

/-- per connection: the controller that last PROVED its identity there (none yet / since the restart) -/
abbrev Who := Nat → Option Uuid

/-- the session facts a handler must hold for "last proved as" -/
def connOf : Option Uuid → Conn
  | none => ⟨false, none⟩
  | some u => ⟨true, some u⟩

/-- The observer over the full alphabet. It sees the operations and their answers, never the
    accessory's maps or handler fields: answers to pair-setup / POST /pairings advance the pairing list
    as in `observe`; an exchange answered M4-without-error on connection `c`, whose identifier parses to
    `u`, makes `u` the prover of `c` and (only if no bytes are known for `u`) records the presented
    bytes; a restart or a stop of the driver
    forgets every connection and keeps the pairing list. -/
def hobserve (parse : Bytes → Option Uuid) (a : Abs) (who : Who) : HOp → HAns → Abs × Who
  | .s (.setup idb key), .resp r _ => (observe parse a (.setup idb key) r, who)
  | .s (.req _ body), .resp r _ => (if r.isError then a else observeReq parse a body, who)
  | .s (.verify c v), .verified true _ =>
    match v.idb with
    | some b =>
      match parse b with
      | some u => (a.fill u b, fun c' => if c' = c then some u else who c')
      | none => (a, who)
    | none => (a, who)
  | .restart, _ => (a, fun _ => none)
  | .stop, _ => (a, fun _ => none)
  | _, _ => (a, who)

/-- run a history on the model and the observer side by side -/
def hrunBoth (parse : Bytes → Option Uuid) : World → Abs → Who → List HOp → World × Abs × Who
  | w, a, who, [] => (w, a, who)
  | w, a, who, op :: rest =>
    let r := hstep parse w op
    let o := hobserve parse a who op r.2
    hrunBoth parse r.1 o.1 o.2 rest

theorem hrunBoth_fst (parse : Bytes → Option Uuid) (ops : List HOp) (w : World) (a : Abs) (who : Who) :
    (hrunBoth parse w a who ops).1 = hrun parse w ops := by
  induction ops generalizing w a who with
  | nil => rfl
  | cons op rest ih => exact ih _ _ _

/-- the member-name tables of `persist` and `load_into` agree and name every field once -/
def NamesOK : Prop := persistKeys = loadKeys ∧ persistKeys.Distinct

instance : Decidable NamesOK := by unfold NamesOK; infer_instance

/-- The invariant of every whole-life history: the three maps represent the observer's pairing list
    (`Rel`), every connection's session facts are exactly "verified as its last prover", and the state
    is one the encoder round-trips (dict keys unique, 32-byte keys). -/
structure HRel (parse : Bytes → Option Uuid) (w : World) (a : Abs) (who : Who) : Prop where
  rel : Rel parse w.acc.ps a
  sess : ∀ c, w.ss c = connOf (who c)
  u2b : (akeys w.acc.ps.u2b).Nodup
  priv : w.acc.privateKey.length = 32
  pub : w.acc.publicKey.length = 32

theorem rel_keysNodup {parse : Bytes → Option Uuid} {s : PState} {a : Abs} (h : Rel parse s a)
    (hu : (akeys s.u2b).Nodup) : KeysNodup s :=
  ⟨by rw [h.paired, keys_map_fKey]; exact h.nodup, by rw [h.props, keys_map_fPerm]; exact h.nodup, hu⟩

theorem HRel.wf {parse : Bytes → Option Uuid} {w : World} {a : Abs} {who : Who} (h : HRel parse w a who) :
    WF w.acc :=
  let k := rel_keysNodup h.rel h.u2b
  ⟨k.1, k.2.1, k.2.2, h.priv, h.pub⟩

/-- a restart of a state satisfying the invariant loads exactly that state -/
theorem restart_identity (hN : NamesOK) (acc : AccState) (h : WF acc) : loadJ (persistJ acc) = some acc := by
  rw [loadJ_persistJ_eq hN.1 hN.2]; exact load_persist acc h

theorem aget_fKey (a : Abs) (x : Entry) (hn : (a.map (·.u)).Nodup) (h : x ∈ a) :
    aget (a.map fKey) x.u = some x.key := by
  induction a with
  | nil => simp at h
  | cons y r ih =>
    simp only [List.map_cons, List.nodup_cons] at hn
    rcases List.mem_cons.mp h with h | h
    · subst h; simp [aget, fKey]
    · have : y.u ≠ x.u := fun e => hn.1 (List.mem_map.mpr ⟨x, h, e.symm⟩)
      simp only [List.map_cons, aget, fKey, this, if_false]
      exact ih hn.2 h

/-- a key looked up in `paired_clients` is the key of the observer's entry for that controller -/
theorem rel_key {parse : Bytes → Option Uuid} {s : PState} {a : Abs} (h : Rel parse s a) (u : Uuid) (k : Bytes)
    (hk : aget s.paired u = some k) : ∃ e ∈ a, e.u = u ∧ e.key = k := by
  have hin : u ∈ a.map (·.u) := by
    rw [← keys_map_fKey, ← h.paired, ← ahas_iff]; simp [ahas, hk]
  obtain ⟨x, hx, rfl⟩ := List.mem_map.mp hin
  refine ⟨x, hx, rfl, ?_⟩
  have := aget_fKey a x h.nodup hx
  rw [← h.paired, hk] at this
  exact (Option.some.inj this).symm

/-- one operation of the full alphabet keeps the invariant -/
theorem hrel_step (parse : Bytes → Option Uuid) (hN : NamesOK) (w : World) (a : Abs) (who : Who)
    (h : HRel parse w a who) (op : HOp) :
    HRel parse (hstep parse w op).1 (hobserve parse a who op (hstep parse w op).2).1
      (hobserve parse a who op (hstep parse w op).2).2 := by
  have hal := rel_aligned h.rel
  have hkn := rel_keysNodup h.rel h.u2b
  cases op with
  | s sop =>
    cases sop with
    | setup idb key =>
      refine ⟨rel_step parse _ a h.rel (.setup idb key), h.sess, ?_, h.priv, h.pub⟩
      exact (keysNodup_step parse _ (.setup idb key) hal hkn).2.2
    | req c body =>
      refine ⟨?_, h.sess, ?_, h.priv, h.pub⟩
      · exact rel_step parse _ a h.rel (.req ⟨w.ss c, body⟩)
      · exact (keysNodup_step parse _ (.req ⟨w.ss c, body⟩) hal hkn).2.2
    | verify c v =>
      simp only [hstep]
      cases hv : verifiesAs parse w.acc.ps v with
      | none => exact h
      | some p =>
        obtain ⟨u, idb⟩ := p
        obtain ⟨_, k, h1, h2, _, _⟩ := verifiesAs_some parse _ v u idb hv
        simp only [hobserve, h1, h2]
        refine ⟨rel_backfill parse _ a h.rel u idb h2, ?_, ?_, h.priv, h.pub⟩
        · intro c'
          by_cases hc : c' = c
          · simp [hc, connOf]
          · simp [hc, h.sess c']
        · simp only [backfill]
          split
          · exact nodup_aset _ _ _ h.u2b
          · exact h.u2b
  | config => exact ⟨h.rel, h.sess, h.u2b, h.priv, h.pub⟩
  | hsh hh =>
    simp only [hstep, hobserve, setAccessoriesHash]
    split
    · exact h
    · exact ⟨h.rel, h.sess, h.u2b, h.priv, h.pub⟩
  | restart =>
    simp only [hstep, restart_identity hN w.acc h.wf, hobserve]
    exact ⟨h.rel, fun _ => rfl, h.u2b, h.priv, h.pub⟩
  | stop => exact ⟨h.rel, fun _ => rfl, h.u2b, h.priv, h.pub⟩

/-- after every whole-life history, started in corresponding states, the invariant holds -/
theorem hrel_run (parse : Bytes → Option Uuid) (hN : NamesOK) (ops : List HOp) (w : World) (a : Abs) (who : Who)
    (h : HRel parse w a who) :
    HRel parse (hrunBoth parse w a who ops).1 (hrunBoth parse w a who ops).2.1 (hrunBoth parse w a who ops).2.2 := by
  induction ops generalizing w a who with
  | nil => exact h
  | cons op rest ih => exact ih _ _ _ (hrel_step parse hN w a who h op)

/-- a brand-new accessory (nothing paired, no connection) with any identity -/
theorem hrel_fresh (parse : Bytes → Option Uuid) (mac : String) (cv : Int) (ah : Option String) (priv pub : Bytes)
    (h1 : priv.length = 32) (h2 : pub.length = 32) :
    HRel parse ⟨⟨mac, cv, ah, priv, pub, PState.empty⟩, Sessions.fresh⟩ [] (fun _ => none) :=
  ⟨rel_empty parse, fun _ => rfl, by simp [PState.empty, akeys], h1, h2⟩

/-- the admin test of a connection, in the observer's terms -/
def Abs.adminConn (a : Abs) (who : Who) (c : Nat) : Prop :=
  ∃ u, who c = some u ∧ a.any (fun e => e.u = u ∧ e.perm % 2 = 1) = true

theorem adminNow_iff {parse : Bytes → Option Uuid} {w : World} {a : Abs} {who : Who} (h : HRel parse w a who) (c : Nat) :
    (w.ss c).enc = true ∧ (∃ u, (w.ss c).cu = some u ∧ isAdmin w.acc.ps u = true) ↔ a.adminConn who c := by
  rw [h.sess c]
  unfold Abs.adminConn
  cases hw : who c with
  | none => simp [connOf]
  | some u =>
    simp only [connOf, true_and, Option.some.injEq]
    constructor
    · rintro ⟨u', hu, hadm⟩
      exact ⟨u', hu, by rw [← rel_isAdmin parse _ _ h.rel]; exact hadm⟩
    · rintro ⟨u', hu, hadm⟩
      exact ⟨u', hu, by rw [rel_isAdmin parse _ _ h.rel]; exact hadm⟩

end Hap.PairState
