/- Histories: the abstract pairing list an observer of the answers keeps, and the refinement
   relation between it and the three maps of the model. -/
import Proofs.PairState
namespace Hap.PairState
open Hap

/-- one pairing as the property speaks of it -/
structure Entry where
  u : Uuid
  /-- identifier bytes it was registered with; `none` = unknown to the observer AND to the accessory
      (a controller imported from a state file that does not record identifier bytes) -/
  idb : Option Bytes
  key : Bytes
  perm : Nat
deriving DecidableEq, Repr

/-- the abstract list of current pairings, in registration order -/
abbrev Abs := List Entry

namespace Abs

/-- register: overwrite the entry of the same controller in place, else append -/
def upsert : Abs → Entry → Abs
  | [], e => [e]
  | x :: r, e => if x.u = e.u then e :: r else x :: upsert r e

def erase : Abs → Uuid → Abs
  | [], _ => []
  | x :: r, u => if x.u = u then r else x :: erase r u

/-- remove a controller; removing the last admin leaves no pairing at all -/
def remove (a : Abs) (u : Uuid) : Abs :=
  if a.any (fun e => e.u = u) then
    if (erase a u).any (fun e => e.perm % 2 = 1) then erase a u else []
  else a

end Abs

/-- how a request reads under the TLV rules, applied to the abstract list -/
def observeReq (parse : Bytes → Option Uuid) (a : Abs) (body : Bytes) : Abs :=
  match Tlv.decode body [] with
  | none => a
  | some objs =>
    match aget objs tReq with
    | none => a
    | some [] => a
    | some (rt :: _) =>
      if rt = 3 then
        match aget objs tUser, aget objs tPub, aget objs tPerm with
        | some idb, some key, some perms =>
          match parse idb, perms with
          | some u, [p] => a.upsert ⟨u, some idb, key, p.toNat⟩
          | _, _ => a
        | _, _, _ => a
      else if rt = 4 then
        match aget objs tUser with
        | none => a
        | some idb =>
          match parse idb with
          | none => a
          | some u => a.remove u
      else a

/-- The observer's bookkeeping: an error answer changes nothing; a success answer to an add
    registers (identifier bytes, key, permission byte); a success answer to a remove removes;
    a finished pair-setup registers an admin. It never looks at the accessory's maps. -/
def observe (parse : Bytes → Option Uuid) (a : Abs) (op : Op) (resp : Resp) : Abs :=
  if resp.isError then a
  else match op with
    | .setup idb key =>
      match parse idb with
      | some u => a.upsert ⟨u, some idb, key, 1⟩
      | none => a
    | .req r => observeReq parse a r.body

/-- run a history on the model and the observer side by side -/
def runBoth (parse : Bytes → Option Uuid) : PState → Abs → List Op → PState × Abs
  | s, a, [] => (s, a)
  | s, a, op :: rest =>
    runBoth parse (step parse s op).1 (observe parse a op (step parse s op).2.1) rest

def fKey (e : Entry) : Uuid × Bytes := (e.u, e.key)
def fPerm (e : Entry) : Uuid × Nat := (e.u, e.perm)

/-- the maps represent the abstract list -/
structure Rel (parse : Bytes → Option Uuid) (s : PState) (a : Abs) : Prop where
  paired : s.paired = a.map fKey
  props : s.props = a.map fPerm
  ids : ∀ e ∈ a, aget s.u2b e.u = e.idb ∧ ∀ b, e.idb = some b → parse b = some e.u
  nodup : (a.map (·.u)).Nodup

theorem rel_empty (parse : Bytes → Option Uuid) : Rel parse PState.empty [] :=
  ⟨rfl, rfl, by simp, by simp⟩

theorem aset_map_upsert {V : Type} (g : Entry → V) (a : Abs) (e : Entry) :
    aset (a.map fun x => (x.u, g x)) e.u (g e) = (a.upsert e).map fun x => (x.u, g x) := by
  induction a with
  | nil => simp [aset, Abs.upsert]
  | cons x r ih =>
    by_cases h : x.u = e.u
    · simp [aset, Abs.upsert, h]
    · simp [aset, Abs.upsert, h, ih]

theorem adel_map_erase {V : Type} (g : Entry → V) (a : Abs) (u : Uuid) :
    adel (a.map fun x => (x.u, g x)) u = (a.erase u).map fun x => (x.u, g x) := by
  induction a with
  | nil => rfl
  | cons x r ih =>
    by_cases h : x.u = u
    · simp [adel, Abs.erase, h]
    · simp [adel, Abs.erase, h, ih]

theorem adel_fKey (a : Abs) (u : Uuid) : adel (a.map fKey) u = (a.erase u).map fKey :=
  adel_map_erase (·.key) a u
theorem adel_fPerm (a : Abs) (u : Uuid) : adel (a.map fPerm) u = (a.erase u).map fPerm :=
  adel_map_erase (·.perm) a u
theorem aset_fKey (a : Abs) (e : Entry) : aset (a.map fKey) e.u e.key = (a.upsert e).map fKey :=
  aset_map_upsert (·.key) a e
theorem aset_fPerm (a : Abs) (e : Entry) : aset (a.map fPerm) e.u e.perm = (a.upsert e).map fPerm :=
  aset_map_upsert (·.perm) a e

theorem mem_upsert (a : Abs) (e x : Entry) (hn : (a.map (·.u)).Nodup) (h : x ∈ a.upsert e) :
    x = e ∨ (x ∈ a ∧ x.u ≠ e.u) := by
  induction a with
  | nil => simp [Abs.upsert] at h; exact Or.inl h
  | cons y r ih =>
    simp only [List.map_cons, List.nodup_cons] at hn
    by_cases hy : y.u = e.u
    · simp only [Abs.upsert, hy, if_true, List.mem_cons] at h
      rcases h with h | h
      · exact Or.inl h
      · refine Or.inr ⟨List.mem_cons_of_mem _ h, ?_⟩
        intro hx
        exact hn.1 (List.mem_map.mpr ⟨x, h, by rw [hx, hy]⟩)
    · simp only [Abs.upsert, hy, if_false, List.mem_cons] at h
      rcases h with h | h
      · subst h; exact Or.inr ⟨by simp, hy⟩
      · rcases ih hn.2 h with h | ⟨h1, h2⟩
        · exact Or.inl h
        · exact Or.inr ⟨List.mem_cons_of_mem _ h1, h2⟩

theorem keys_map_fKey (a : Abs) : akeys (a.map fKey) = a.map (·.u) := by
  simp [akeys, fKey, List.map_map, Function.comp_def]

theorem keys_map_fPerm (a : Abs) : akeys (a.map fPerm) = a.map (·.u) := by
  simp [akeys, fPerm, List.map_map, Function.comp_def]

theorem mem_erase (a : Abs) (u : Uuid) (x : Entry) (hn : (a.map (·.u)).Nodup) (h : x ∈ a.erase u) :
    x ∈ a ∧ x.u ≠ u := by
  induction a with
  | nil => simp [Abs.erase] at h
  | cons y r ih =>
    simp only [List.map_cons, List.nodup_cons] at hn
    by_cases hy : y.u = u
    · simp only [Abs.erase, hy, if_true] at h
      refine ⟨List.mem_cons_of_mem _ h, ?_⟩
      intro hx
      exact hn.1 (List.mem_map.mpr ⟨x, h, by rw [hx, hy]⟩)
    · simp only [Abs.erase, hy, if_false, List.mem_cons] at h
      rcases h with h | h
      · subst h; exact ⟨by simp, hy⟩
      · exact ⟨List.mem_cons_of_mem _ (ih hn.2 h).1, (ih hn.2 h).2⟩

theorem aget_fPerm (a : Abs) (x : Entry) (hn : (a.map (·.u)).Nodup) (h : x ∈ a) :
    aget (a.map fPerm) x.u = some x.perm := by
  induction a with
  | nil => simp at h
  | cons y r ih =>
    simp only [List.map_cons, List.nodup_cons] at hn
    rcases List.mem_cons.mp h with h | h
    · subst h; simp [aget, fPerm]
    · have : y.u ≠ x.u := fun e => hn.1 (List.mem_map.mpr ⟨x, h, e.symm⟩)
      simp only [List.map_cons, aget, fPerm, this, if_false]
      exact ih hn.2 h

/-- registering a controller keeps the representation -/
theorem rel_add (parse : Bytes → Option Uuid) (s : PState) (a : Abs) (h : Rel parse s a)
    (u : Uuid) (idb key : Bytes) (p : Nat) (hp : parse idb = some u) :
    Rel parse { u2b := aset s.u2b u idb, paired := aset s.paired u key, props := aset s.props u p }
      (a.upsert ⟨u, some idb, key, p⟩) := by
  have e1 := aset_fKey a ⟨u, some idb, key, p⟩
  have e2 := aset_fPerm a ⟨u, some idb, key, p⟩
  refine ⟨?_, ?_, ?_, ?_⟩
  · simp only [h.paired]; exact e1
  · simp only [h.props]; exact e2
  · intro x hx
    rcases mem_upsert a _ x h.nodup hx with rfl | ⟨hx1, hx2⟩
    · refine ⟨by simp [aget_aset], ?_⟩
      intro b hb; cases hb; exact hp
    · simp only [aget_aset]
      have : ¬ u = x.u := fun e => hx2 e.symm
      simp only [this, if_false]
      exact h.ids x hx1
  · have : (a.upsert ⟨u, some idb, key, p⟩).map (·.u) = akeys (aset (a.map fKey) u key) := by
      rw [show aset (a.map fKey) u key = (a.upsert ⟨u, some idb, key, p⟩).map fKey from e1, keys_map_fKey]
    rw [this, akeys_aset, keys_map_fKey]
    split
    · exact h.nodup
    · next hnot =>
      rw [List.nodup_append]
      exact ⟨h.nodup, by simp, by intro x hx y hy; simp at hy; subst hy; intro e; exact hnot (e ▸ hx)⟩

theorem any_u_iff (a : Abs) (u : Uuid) : a.any (fun e => e.u = u) = true ↔ u ∈ a.map (·.u) := by
  simp [List.any_eq_true, List.mem_map]

/-- removing a paired controller keeps the representation (incl. the last-admin rule) -/
theorem rel_remove (parse : Bytes → Option Uuid) (s : PState) (a : Abs) (h : Rel parse s a)
    (u : Uuid) (hu : ahas s.paired u = true) :
    Rel parse (removePairedClient s u).1 (a.remove u) := by
  have hin : u ∈ a.map (·.u) := by
    rw [ahas_iff, h.paired, keys_map_fKey] at hu; exact hu
  have hprops : ahas s.props u = true := by
    rw [ahas_iff, h.props, keys_map_fPerm]; exact hin
  have hnd : ((a.erase u).map (·.u)).Nodup := by
    have : (a.erase u).map (·.u) = (a.map (·.u)).erase u := by
      rw [← keys_map_fKey, ← adel_fKey, akeys_adel, keys_map_fKey]
    rw [this]; exact h.nodup.erase u
  have hpop : popped s u = { paired := (a.erase u).map fKey, props := (a.erase u).map fPerm, u2b := adel s.u2b u } := by
    simp only [popped, h.paired, h.props, adel_fKey, adel_fPerm]
  have hany : (popped s u).paired.any (fun e => isAdmin (popped s u) e.1)
      = (a.erase u).any (fun e => e.perm % 2 = 1) := by
    rw [hpop]
    simp only [List.any_map]
    apply Bool.eq_iff_iff.mpr
    simp only [List.any_eq_true, Function.comp]
    constructor
    · rintro ⟨x, hx, hadm⟩
      refine ⟨x, hx, ?_⟩
      simpa [isAdmin, fKey, aget_fPerm _ x hnd hx] using hadm
    · rintro ⟨x, hx, hadm⟩
      refine ⟨x, hx, ?_⟩
      simpa [isAdmin, fKey, aget_fPerm _ x hnd hx] using hadm
  have hrem : a.remove u = if (a.erase u).any (fun e => e.perm % 2 = 1) then a.erase u else [] := by
    simp only [Abs.remove, (any_u_iff a u).mpr hin, if_true]
  have hids : ∀ e ∈ a.erase u, aget (adel s.u2b u) e.u = e.idb ∧ ∀ b, e.idb = some b → parse b = some e.u := by
    intro x hx
    obtain ⟨hx1, hx2⟩ := mem_erase a u x h.nodup hx
    rw [aget_adel_ne _ _ _ (fun e => hx2 e.symm)]
    exact h.ids x hx1
  rw [removePairedClient_eq, hrem]
  simp only [hu, hprops, Bool.true_eq_false, if_false, hany]
  split
  · rw [hpop]; exact ⟨rfl, rfl, hids, hnd⟩
  · rw [hpop]; exact ⟨rfl, rfl, by simp, by simp⟩

theorem remove_absent (a : Abs) (u : Uuid) (h : u ∉ a.map (·.u)) : a.remove u = a := by
  have : a.any (fun e => e.u = u) = false := by
    rw [Bool.eq_false_iff]; intro e; exact h ((any_u_iff a u).mp e)
  simp [Abs.remove, this]

theorem rel_aligned {parse : Bytes → Option Uuid} {s : PState} {a : Abs} (h : Rel parse s a) : Aligned s := by
  unfold Aligned; rw [h.paired, h.props, keys_map_fKey, keys_map_fPerm]

theorem observe_error (parse : Bytes → Option Uuid) (a : Abs) (op : Op) (resp : Resp)
    (h : resp.isError = true) : observe parse a op resp = a := by
  simp [observe, h]

/-- one operation keeps the representation: the maps of the model follow the observer's list -/
theorem rel_step (parse : Bytes → Option Uuid) (s : PState) (a : Abs) (h : Rel parse s a) (op : Op) :
    Rel parse (step parse s op).1 (observe parse a op (step parse s op).2.1) := by
  cases op with
  | setup idb key =>
    simp only [step, addPairedClient]
    cases hp : parse idb with
    | none => simpa [observe, err500, Resp.isError] using h
    | some u =>
      simp only [observe, okResp_not_error, hp]
      exact rel_add parse s a h u idb key _ hp
  | req r =>
    simp only [step]
    unfold handlePairings
    split
    · rw [observe_error _ _ _ _ rfl]; exact h
    · split
      · rw [observe_error _ _ _ _ rfl]; exact h
      · cases hd : Tlv.decode r.body [] with
        | none => simp only []; rw [observe_error _ _ _ _ rfl]; exact h
        | some objs =>
          simp only []
          cases hrt : aget objs tReq with
          | none => simp only []; rw [observe_error _ _ _ _ rfl]; exact h
          | some rtv =>
            cases rtv with
            | nil => simp only []; rw [observe_error _ _ _ _ rfl]; exact h
            | cons rt rest =>
              simp only []
              by_cases h3 : rt = 3
              · subst h3
                simp only [if_true]
                unfold handleAdd
                cases hi : aget objs tUser with
                | none => simp only []; rw [observe_error _ _ _ _ rfl]; exact h
                | some idb =>
                  cases hk : aget objs tPub with
                  | none => simp only []; rw [observe_error _ _ _ _ rfl]; exact h
                  | some key =>
                    cases hq : aget objs tPerm with
                    | none => simp only []; rw [observe_error _ _ _ _ rfl]; exact h
                    | some perms =>
                      simp only [addPairedClient]
                      cases hp : parse idb with
                      | none => simp only []; rw [observe_error _ _ _ _ rfl]; exact h
                      | some u =>
                        rcases perms with _ | ⟨p, _ | ⟨q, ps⟩⟩
                        · simp only []; rw [observe_error _ _ _ _ rfl]; exact h
                        · simp only [observe, okResp_not_error, observeReq, hd, hrt, hi, hk, hq, hp]
                          simpa using rel_add parse s a h u idb key p.toNat hp
                        · simp only []; rw [observe_error _ _ _ _ rfl]; exact h
              · simp only [h3, if_false]
                by_cases h4 : rt = 4
                · subst h4
                  simp only [if_true]
                  unfold handleRemove
                  cases hi : aget objs tUser with
                  | none => simp only []; rw [observe_error _ _ _ _ rfl]; exact h
                  | some idb =>
                    simp only []
                    cases hp : parse idb with
                    | none => simp only []; rw [observe_error _ _ _ _ rfl]; exact h
                    | some u =>
                      simp only []
                      by_cases hu : ahas s.paired u = true
                      · have hok := removePairedClient_ok s u (rel_aligned h) hu
                        have hrel := rel_remove parse s a h u hu
                        generalize hr : removePairedClient s u = res at hok hrel
                        obtain ⟨s', ok⟩ := res
                        simp only at hok hrel; subst hok
                        simp only [hu, if_true, observe, okResp_not_error, observeReq, hd, hrt, hi, hp]
                        simpa using hrel
                      · have hnot : u ∉ a.map (·.u) := by
                          intro hin; apply hu
                          rw [ahas_iff, h.paired, keys_map_fKey]; exact hin
                        simp only [hu, Bool.false_eq_true, if_false, observe, okResp_not_error, observeReq, hd, hrt, hi, hp]
                        simpa [remove_absent a u hnot] using h
                · simp only [h4, if_false]
                  split
                  · simp only [observe, observeReq, hd, hrt, h3, h4, if_false, ite_self]
                    exact h
                  · rw [observe_error _ _ _ _ rfl]; exact h

/-- after every history, started in corresponding states, the maps represent the observer's list -/
theorem rel_run (parse : Bytes → Option Uuid) (ops : List Op) (s : PState) (a : Abs) (h : Rel parse s a) :
    Rel parse (runBoth parse s a ops).1 (runBoth parse s a ops).2 := by
  induction ops generalizing s a with
  | nil => exact h
  | cons op rest ih => exact ih _ _ (rel_step parse s a h op)

/-- what the property expects a list operation to return for an abstract pairing list -/
def Abs.listing (a : Abs) : List (Bytes × Bytes × Bool) :=
  a.map fun e => (e.idb.getD (idFallback e.u), e.key, decide (e.perm % 2 = 1))

theorem rel_listing (parse : Bytes → Option Uuid) (hparse : parse [] = none) (s : PState) (a : Abs)
    (h : Rel parse s a) :
    (s.paired.map fun e => (regBytes s e.1, e.2, isAdmin s e.1)) = a.listing := by
  rw [h.paired, Abs.listing, List.map_map]
  apply List.map_congr_left
  intro x hx
  obtain ⟨h1, h2⟩ := h.ids x hx
  have hadm : isAdmin s x.u = decide (x.perm % 2 = 1) := by
    simp [isAdmin, h.props, aget_fPerm a x h.nodup hx]
  cases hi : x.idb with
  | none => simp [fKey, regBytes, h1, hi, hadm]
  | some b =>
    have hne : b ≠ [] := by intro e; have := h2 b hi; rw [e, hparse] at this; cases this
    simp [fKey, regBytes, h1, hi, hne, hadm]

theorem rel_isAdmin (parse : Bytes → Option Uuid) (s : PState) (a : Abs) (h : Rel parse s a) (u : Uuid) :
    isAdmin s u = a.any (fun e => e.u = u ∧ e.perm % 2 = 1) := by
  apply Bool.eq_iff_iff.mpr
  simp only [List.any_eq_true, decide_eq_true_eq]
  constructor
  · intro hadm
    have hin : u ∈ a.map (·.u) := by
      rw [← keys_map_fPerm, ← h.props, ← ahas_iff]
      unfold isAdmin at hadm; unfold ahas
      cases e : aget s.props u with
      | none => simp [e] at hadm
      | some p => rfl
    obtain ⟨x, hx, rfl⟩ := List.mem_map.mp hin
    refine ⟨x, hx, rfl, ?_⟩
    simpa [isAdmin, h.props, aget_fPerm a x h.nodup hx] using hadm
  · rintro ⟨x, hx, rfl, hp⟩
    simpa [isAdmin, h.props, aget_fPerm a x h.nodup hx] using hp


/-! ### the pair-verify back-fill, seen by the observer -/

/-- A controller proved its identity presenting `idb`: if the observer (like the accessory) knows no
    identifier bytes for it, these are now the recorded ones. Known bytes are never replaced. -/
def Abs.fill (a : Abs) (u : Uuid) (idb : Bytes) : Abs :=
  a.map fun e => if e.u = u ∧ e.idb = none then { e with idb := some idb } else e

theorem fill_map_u (a : Abs) (u : Uuid) (idb : Bytes) : (a.fill u idb).map (·.u) = a.map (·.u) := by
  simp only [Abs.fill, List.map_map]
  apply List.map_congr_left
  intro e _
  simp only [Function.comp]
  split <;> rfl

theorem fill_fKey (a : Abs) (u : Uuid) (idb : Bytes) : (a.fill u idb).map fKey = a.map fKey := by
  simp only [Abs.fill, List.map_map]
  apply List.map_congr_left
  intro e _
  simp only [Function.comp, fKey]
  split <;> rfl

theorem fill_fPerm (a : Abs) (u : Uuid) (idb : Bytes) : (a.fill u idb).map fPerm = a.map fPerm := by
  simp only [Abs.fill, List.map_map]
  apply List.map_congr_left
  intro e _
  simp only [Function.comp, fPerm]
  split <;> rfl

/-- the back-fill after a proving exchange keeps the representation -/
theorem rel_backfill (parse : Bytes → Option Uuid) (s : PState) (a : Abs) (h : Rel parse s a)
    (u : Uuid) (idb : Bytes) (hp : parse idb = some u) :
    Rel parse (backfill s u idb).1 (a.fill u idb) := by
  unfold backfill
  cases hg : aget s.u2b u with
  | some b =>
    have : a.fill u idb = a := by
      unfold Abs.fill
      conv => rhs; rw [← List.map_id a]
      apply List.map_congr_left
      intro e he
      have := (h.ids e he).1
      by_cases heu : e.u = u
      · rw [heu, hg] at this
        simp [heu, ← this]
      · simp [heu]
    rw [this]; exact h
  | none =>
    refine ⟨?_, ?_, ?_, ?_⟩
    · simp only [fill_fKey]; exact h.paired
    · simp only [fill_fPerm]; exact h.props
    · intro x hx
      simp only [Abs.fill, List.mem_map] at hx
      obtain ⟨e, he, rfl⟩ := hx
      obtain ⟨i1, i2⟩ := h.ids e he
      by_cases hc : e.u = u ∧ e.idb = none
      · simp only [hc, and_self, if_true, aget_aset]
        refine ⟨by simp, ?_⟩
        intro b hb; cases hb; exact hp
      · simp only [hc, if_false, aget_aset]
        have hne : ¬ u = e.u := by
          intro heq
          apply hc
          refine ⟨heq.symm, ?_⟩
          rw [← i1, ← heq, hg]
        simp only [hne, if_false]
        exact ⟨i1, i2⟩
    · rw [fill_map_u]; exact h.nodup

/-! ### every well-formed state represents some observer list (start states loaded from a file) -/

/-- the pairing list a state holds, read off its maps -/
def absOf (s : PState) : Abs :=
  s.paired.map fun e => ⟨e.1, aget s.u2b e.1, e.2, (aget s.props e.1).getD 0⟩

theorem assoc_eq_of_nodup {V : Type} (l : List (Uuid × V)) (d : V) (h : (akeys l).Nodup) :
    l = (akeys l).map fun k => (k, (aget l k).getD d) := by
  induction l with
  | nil => rfl
  | cons x r ih =>
    obtain ⟨k, v⟩ := x
    simp only [akeys, List.map_cons, List.nodup_cons] at h
    have ih' := ih h.2
    simp only [akeys, List.map_cons, aget, if_true, Option.getD_some, List.cons.injEq, true_and]
    conv => lhs; rw [ih']
    simp only [akeys, List.map_map]
    apply List.map_congr_left
    intro e he
    have : k ≠ e.1 := by
      intro heq; apply h.1; rw [heq]; exact List.mem_map.mpr ⟨e, he, rfl⟩
    simp [Function.comp, this]

/-- A state whose `paired_clients` and `client_properties` have the same keys (each once) and whose
    recorded identifier bytes name their controller represents the list `absOf s` — e.g. whatever
    `load_into` produced from a current or a legacy state file. -/
theorem rel_absOf (parse : Bytes → Option Uuid) (s : PState) (hal : Aligned s) (hn : (akeys s.paired).Nodup)
    (hid : ∀ u b, u ∈ akeys s.paired → aget s.u2b u = some b → parse b = some u) :
    Rel parse s (absOf s) := by
  refine ⟨?_, ?_, ?_, ?_⟩
  · simp only [absOf, List.map_map]
    conv => lhs; rw [← List.map_id s.paired]
    apply List.map_congr_left
    intro e _; rfl
  · have hp : (akeys s.props).Nodup := by rw [← hal]; exact hn
    conv => lhs; rw [assoc_eq_of_nodup s.props 0 hp, ← hal]
    simp only [absOf, akeys, List.map_map]
    apply List.map_congr_left
    intro e _; rfl
  · intro x hx
    simp only [absOf, List.mem_map] at hx
    obtain ⟨e, he, rfl⟩ := hx
    refine ⟨rfl, ?_⟩
    intro b hb
    exact hid e.1 b (List.mem_map.mpr ⟨e, he, rfl⟩) hb
  · simp only [absOf, List.map_map]
    exact hn

theorem runBoth_fst (parse : Bytes → Option Uuid) (ops : List Op) (s : PState) (a : Abs) :
    (runBoth parse s a ops).1 = run parse s ops := by
  induction ops generalizing s a with
  | nil => rfl
  | cons op rest ih => exact ih _ _

end Hap.PairState
