/- The independent TLV8 *list* decoder (items in wire order; tags may repeat across separators),
   its inverse property w.r.t. `tlv.encode`, and the reading of a list-pairings answer. -/
import Proofs.Tlv
import Proofs.PairState
namespace Hap.PairState
open Hap Hap.Tlv

/-! ### list decoder (specification side) -/

/-- raw records `(type, fragment)`; `none` on a truncated header or value -/
def records (data : Bytes) : Option Items :=
  match data with
  | [] => some []
  | [_] => none
  | t :: len :: rest =>
    if rest.length < len.toNat then none
    else (records (rest.drop len.toNat)).map ((t, rest.take len.toNat) :: ·)
termination_by data.length
decreasing_by simp [List.length_drop]; omega

/-- TLV8 item rule: a fragment continues the previous item iff it has the same type and the
    previous fragment was full (255 bytes) -/
def join : Items → Items
  | [] => []
  | [(t, f)] => [(t, f)]
  | (t, f) :: (t', f') :: rest =>
    if f.length = FRAG ∧ t' = t then
      match join ((t', f') :: rest) with
      | (_, v) :: items => (t, f ++ v) :: items
      | [] => [(t, f)]
    else (t, f) :: join ((t', f') :: rest)

def decodeList (data : Bytes) : Option Items := (records data).map join

/-- no two neighbouring items have the same type -/
def AdjDiff : Items → Prop
  | [] => True
  | [_] => True
  | a :: b :: r => a.1 ≠ b.1 ∧ AdjDiff (b :: r)

theorem records_frag (t : UInt8) (v rest : Bytes) (h : v.length ≤ FRAG) :
    records (t :: UInt8.ofNat v.length :: (v ++ rest)) = (records rest).map ((t, v) :: ·) := by
  rw [records]
  have e : (UInt8.ofNat v.length).toNat = v.length := by
    simp [FRAG] at h; simp; omega
  simp [e]
  omega

theorem wireRecords_append (a b : Items) : wireRecords (a ++ b) = wireRecords a ++ wireRecords b := by
  induction a with
  | nil => rfl
  | cons h t ih => obtain ⟨t', v⟩ := h; simp [wireRecords, ih]

theorem records_wire (rs : Items) (h : ∀ r ∈ rs, r.2.length ≤ FRAG) :
    records (wireRecords rs) = some rs := by
  induction rs with
  | nil => simp [wireRecords, records]
  | cons r rs ih =>
    obtain ⟨t, v⟩ := r
    have hv : v.length ≤ FRAG := h (t, v) (by simp)
    simp only [wireRecords]
    rw [show t :: UInt8.ofNat v.length :: v ++ wireRecords rs
          = t :: UInt8.ofNat v.length :: (v ++ wireRecords rs) by simp]
    rw [records_frag _ _ _ hv, ih (fun r hr => h r (by simp [hr]))]
    rfl

/-- the fragments of one value: one empty fragment for the empty value, else its 255-chunks -/
def fragList (v : Bytes) : List Bytes := if v = [] then [[]] else chunks FRAG v

/-- the record sequence of an item list under the TLV8 rule -/
def recsOf (items : Items) : Items := items.flatMap fun it => (fragList it.2).map fun c => (it.1, c)

theorem specEncodeItem_wire (t : UInt8) (v : Bytes) :
    specEncodeItem t v = wireRecords ((fragList v).map fun c => (t, c)) := by
  unfold specEncodeItem fragList
  by_cases hv : v = []
  · subst hv; simp [wireRecords]
  · simp only [hv, if_false]
    generalize chunks FRAG v = cs
    induction cs with
    | nil => rfl
    | cons c cs ih => simp [wireRecords, ih]

theorem specEncode_wire (items : Items) : specEncode items = wireRecords (recsOf items) := by
  induction items with
  | nil => rfl
  | cons it rest ih =>
    obtain ⟨t, v⟩ := it
    simp only [specEncode, recsOf, List.flatMap_cons, wireRecords_append]
    rw [specEncodeItem_wire, ih]; rfl

theorem fragList_shape (v : Bytes) :
    fragList v ≠ [] ∧ (fragList v).flatten = v ∧ (∀ c ∈ fragList v, c.length ≤ FRAG) ∧
    (∀ c ∈ (fragList v).dropLast, c.length = FRAG) := by
  unfold fragList
  by_cases hv : v = []
  · subst hv; simp
  · simp only [hv, if_false]
    obtain ⟨h1, h2, h3⟩ := chunks_shape v
    refine ⟨?_, h1, fun c hc => (h2 c hc).2, h3⟩
    intro e; rw [e] at h1; simp at h1; exact hv h1

theorem recsOf_short (items : Items) : ∀ r ∈ recsOf items, r.2.length ≤ FRAG := by
  intro r hr
  simp only [recsOf, List.mem_flatMap, List.mem_map] at hr
  obtain ⟨it, _, c, hc, rfl⟩ := hr
  exact (fragList_shape it.2).2.2.1 c hc

/-- joining the fragments of one item, followed by records that start with another type -/
theorem join_frags (t : UInt8) (cs : List Bytes) (R : Items) (hne : cs ≠ [])
    (hfull : ∀ c ∈ cs.dropLast, c.length = FRAG) (hR : ∀ r, R.head? = some r → r.1 ≠ t) :
    join (cs.map (fun c => (t, c)) ++ R) = (t, cs.flatten) :: join R := by
  induction cs with
  | nil => exact absurd rfl hne
  | cons c cs ih =>
    cases cs with
    | nil =>
      cases R with
      | nil => simp [join]
      | cons r R' =>
        obtain ⟨t', f'⟩ := r
        have : t' ≠ t := hR (t', f') rfl
        simp [join, this]
    | cons c' cs' =>
      have hc : c.length = FRAG := hfull c (by simp [List.dropLast])
      have ih' := ih (by simp) (fun x hx => hfull x (by
        simp only [List.dropLast_cons_cons, List.mem_cons] at hx ⊢
        exact Or.inr hx))
      simp only [List.map_cons, List.cons_append] at ih' ⊢
      simp only [join, hc, true_and, if_true]
      rw [ih']
      simp

theorem recsOf_head (items : Items) (r : UInt8 × Bytes) (h : (recsOf items).head? = some r) :
    ∃ it, items.head? = some it ∧ r.1 = it.1 := by
  cases items with
  | nil => simp [recsOf] at h
  | cons it rest =>
    refine ⟨it, rfl, ?_⟩
    obtain ⟨hne, _⟩ := fragList_shape it.2
    simp only [recsOf, List.flatMap_cons] at h
    cases hf : fragList it.2 with
    | nil => exact absurd hf hne
    | cons c cs => rw [hf] at h; simp at h; rw [← h]

theorem join_recsOf (items : Items) (h : AdjDiff items) : join (recsOf items) = items := by
  induction items with
  | nil => rfl
  | cons it rest ih =>
    obtain ⟨t, v⟩ := it
    obtain ⟨hne, hflat, _, hfull⟩ := fragList_shape v
    have hrest : AdjDiff rest := by
      cases rest with
      | nil => trivial
      | cons b r => exact h.2
    have hR : ∀ r, (recsOf rest).head? = some r → r.1 ≠ t := by
      intro r hr
      obtain ⟨it2, h2, e⟩ := recsOf_head rest r hr
      cases rest with
      | nil => simp at h2
      | cons b r' =>
        simp at h2; subst h2
        rw [e]; exact fun x => h.1 x.symm
    have : recsOf ((t, v) :: rest) = (fragList v).map (fun c => (t, c)) ++ recsOf rest := by
      simp [recsOf]
    rw [this, join_frags t _ _ hne hfull hR, hflat, ih hrest]

/-- The list decoder inverts `tlv.encode` on every item list without equal neighbouring types
    (any value lengths, including 0 and multiples of 255). -/
theorem decodeList_encode (items : Items) (h : AdjDiff items) :
    decodeList (encode items) = some items := by
  rw [encode_eq_spec, specEncode_wire, decodeList, records_wire _ (recsOf_short items)]
  simp [join_recsOf items h]

/-! ### reading a list-pairings answer -/

/-- one listed pairing: identifier bytes, public key, admin flag -/
abbrev PEntry := Bytes × Bytes × Bool

/-- `(identifier, key, permissions)` groups separated by separator items -/
def parseEntries (l : Items) : Option (List PEntry) :=
  match l with
  | (t1, idb) :: (t3, key) :: (t11, [p]) :: rest =>
    if t1 = tUser ∧ t3 = tPub ∧ t11 = tPerm ∧ (p = 0 ∨ p = 1) then
      match rest with
      | [] => some [(idb, key, p == 1)]
      | (ts, sv) :: rest' =>
        if ts = tSep ∧ sv = [] ∧ rest' ≠ [] then (parseEntries rest').map ((idb, key, p == 1) :: ·)
        else none
    else none
  | _ => none
termination_by l.length

/-- the pairings a controller reads out of a list-pairings answer body -/
def decodePairings (body : Bytes) : Option (List PEntry) :=
  match decodeList body with
  | some ((t, [2]) :: rest) =>
    if t = tSeq then (if rest = [] then some [] else parseEntries rest) else none
  | _ => none

/-! ### the answer built by `_handle_list_pairings` -/

/-- the three items of one pairing -/
def three (s : PState) (e : Uuid × Bytes) : Items :=
  [(tUser, regBytes s e.1), (tPub, e.2), (tPerm, [if isAdmin s e.1 then 1 else 0])]

/-- entries with separators *between* them -/
def entriesItems (s : PState) : List (Uuid × Bytes) → Items
  | [] => []
  | [e] => three s e
  | e :: e' :: r => three s e ++ (tSep, []) :: entriesItems s (e' :: r)

theorem listEntry_eq (s : PState) (e : Uuid × Bytes) : listEntry s e = three s e ++ [(tSep, [])] := rfl

theorem flatMap_entries (s : PState) (l : List (Uuid × Bytes)) (hl : l ≠ []) :
    l.flatMap (listEntry s) = entriesItems s l ++ [(tSep, [])] := by
  induction l with
  | nil => exact absurd rfl hl
  | cons e l ih =>
    cases l with
    | nil => simp [entriesItems, listEntry_eq]
    | cons e' r =>
      simp only [List.flatMap_cons] at ih ⊢
      rw [ih (by simp), listEntry_eq]
      simp [entriesItems]

theorem listItems_eq (s : PState) : listItems s = (tSeq, [2]) :: entriesItems s s.paired := by
  unfold listItems
  by_cases hl : s.paired = []
  · simp [hl, entriesItems, tSeq, tSep]
  · rw [flatMap_entries s _ hl]
    have : ((tSeq, ([2] : Bytes)) :: (entriesItems s s.paired ++ [(tSep, [])]))
        = ((tSeq, [2]) :: entriesItems s s.paired) ++ [(tSep, [])] := by simp
    simp only [this, List.getLast?_append, List.getLast?_singleton, List.dropLast_concat]
    simp

theorem adjDiff_entries (s : PState) (l : List (Uuid × Bytes)) (x : UInt8 × Bytes) (hx : x.1 ≠ tUser) :
    AdjDiff (x :: entriesItems s l) := by
  induction l generalizing x with
  | nil => simp [entriesItems, AdjDiff]
  | cons e l ih =>
    cases l with
    | nil => simpa [entriesItems, three, AdjDiff, tUser, tPub, tPerm] using hx
    | cons e' r =>
      have := ih (tSep, []) (by decide)
      simp only [entriesItems, three, List.cons_append, List.nil_append, AdjDiff] at this ⊢
      exact ⟨hx, by decide, by decide, by decide, this⟩

theorem parseEntries_entries (s : PState) (l : List (Uuid × Bytes)) (hl : l ≠ []) :
    parseEntries (entriesItems s l) = some (l.map fun e => (regBytes s e.1, e.2, isAdmin s e.1)) := by
  induction l with
  | nil => exact absurd rfl hl
  | cons e l ih =>
    have hp : ∀ b : Bool, ((if b then (1 : UInt8) else 0) = 0 ∨ (if b then (1 : UInt8) else 0) = 1) ∧
        ((if b then (1 : UInt8) else 0) == 1) = b := by intro b; cases b <;> decide
    cases l with
    | nil =>
      simp only [entriesItems, three]
      rw [parseEntries]
      simp [(hp (isAdmin s e.1)).2]
    | cons e' r =>
      have ih' := ih (by simp)
      have hne : entriesItems s (e' :: r) ≠ [] := by
        cases r <;> simp [entriesItems, three]
      simp only [entriesItems, three, List.cons_append, List.nil_append]
      rw [parseEntries]
      simp [(hp (isAdmin s e.1)).2, ih', hne, tSep]

/-- Decoding the list-pairings answer of state `s` with the independent list decoder yields
    exactly the entries of `paired_clients`, in order, each with the recorded identifier bytes
    (or the upper-cased canonical text when none are recorded), its key and its admin flag. -/
theorem decodePairings_list (s : PState) :
    decodePairings (encode (listItems s)) =
      some (s.paired.map fun e => (regBytes s e.1, e.2, isAdmin s e.1)) := by
  rw [listItems_eq, decodePairings, decodeList_encode _ (adjDiff_entries s _ _ (by decide))]
  by_cases hl : s.paired = []
  · simp [hl, entriesItems]
  · have hne : entriesItems s s.paired ≠ [] := by
      cases hp : s.paired with
      | nil => exact absurd hp hl
      | cons e r => cases r <;> simp [entriesItems, three]
    simp [hne, parseEntries_entries s _ hl]

end Hap.PairState
