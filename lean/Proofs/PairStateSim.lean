/- Identifier bytes recorded for controllers that are NOT paired are unobservable: states that differ only
   there answer every request and every pair-verify exchange alike and stay related. -/
import Proofs.PairStateFull
namespace Hap.PairState
open Hap

/-- two states that differ at most in identifier bytes recorded for controllers that are NOT paired -/
def SimU (s t : PState) : Prop :=
  s.paired = t.paired ∧ s.props = t.props ∧ ∀ u, u ∈ akeys s.paired → aget s.u2b u = aget t.u2b u

theorem simU_isAdmin {s t : PState} (h : SimU s t) (u : Uuid) : isAdmin s u = isAdmin t u := by
  simp [isAdmin, h.2.1]

theorem simU_listItems {s t : PState} (h : SimU s t) : listItems s = listItems t := by
  have : s.paired.flatMap (listEntry s) = t.paired.flatMap (listEntry t) := by
    rw [← h.1]
    have key : ∀ l : List (Uuid × Bytes), (∀ e ∈ l, e ∈ s.paired) → l.flatMap (listEntry s) = l.flatMap (listEntry t) := by
      intro l
      induction l with
      | nil => intro _; rfl
      | cons e r ih =>
        intro hl
        have he : e ∈ s.paired := hl e (by simp)
        have hk : e.1 ∈ akeys s.paired := List.mem_map.mpr ⟨e, he, rfl⟩
        simp only [List.flatMap_cons, ih (fun x hx => hl x (by simp [hx]))]
        simp [listEntry, regBytes, h.2.2 e.1 hk, simU_isAdmin h]
    exact key _ (fun _ he => he)
  unfold listItems
  rw [this]

theorem simU_add (parse : Bytes → Option Uuid) {s t : PState} (h : SimU s t) (idb key perms : Bytes) :
    match addPairedClient parse s idb key perms, addPairedClient parse t idb key perms with
    | some s', some t' => SimU s' t'
    | none, none => True
    | _, _ => False := by
  unfold addPairedClient
  cases parse idb with
  | none => trivial
  | some u =>
    rcases perms with _ | ⟨p, _ | ⟨q, r⟩⟩
    · trivial
    · refine ⟨by simp [h.1], by simp [h.2.1], ?_⟩
      intro u' hu'
      simp only [aget_aset]
      by_cases e : u = u'
      · simp [e]
      · simp only [e, if_false]
        apply h.2.2
        simp only [akeys_aset] at hu'
        split at hu'
        · exact hu'
        · rcases List.mem_append.mp hu' with h1 | h1
          · exact h1
          · simp at h1; exact absurd h1.symm e
    · trivial

theorem simU_remove {s t : PState} (h : SimU s t) (hs : KeysNodup s) (u : Uuid) :
    SimU (removePairedClient s u).1 (removePairedClient t u).1 ∧
      (removePairedClient s u).2 = (removePairedClient t u).2 := by
  have hp : popped s u = { popped t u with u2b := adel s.u2b u } := by simp [popped, h.1, h.2.1]
  have hsim : SimU (popped s u) (popped t u) := by
    refine ⟨by simp [popped, h.1], by simp [popped, h.2.1], ?_⟩
    intro u' hu'
    simp only [popped, akeys_adel] at hu'
    have hne : u ≠ u' := by
      intro e; subst e
      exact (List.Nodup.mem_erase_iff hs.1).mp hu' |>.1 rfl
    have hin : u' ∈ akeys s.paired := List.mem_of_mem_erase hu'
    simp only [popped, aget_adel_ne _ _ _ hne]
    exact h.2.2 u' hin
  have hany : (popped s u).paired.any (fun e => isAdmin (popped s u) e.1) = (popped t u).paired.any (fun e => isAdmin (popped t u) e.1) := by
    rw [hsim.1]; congr 1; funext e; exact simU_isAdmin hsim e.1
  rw [removePairedClient_eq, removePairedClient_eq, ← h.1, ← h.2.1, hany]
  split
  · exact ⟨h, rfl⟩
  · split
    · refine ⟨⟨by simp [h.1], rfl, ?_⟩, rfl⟩
      intro u' hu'
      simp only [akeys_adel] at hu'
      exact h.2.2 u' (List.mem_of_mem_erase hu')
    · split
      · exact ⟨hsim, rfl⟩
      · exact ⟨⟨rfl, rfl, by intro u' hu'; simp [akeys] at hu'⟩, rfl⟩


theorem simU_handleAdd (parse : Bytes → Option Uuid) {s t : PState} (h : SimU s t) (objs : Tlv.Items) :
    SimU (handleAdd parse s objs).1 (handleAdd parse t objs).1 ∧ (handleAdd parse s objs).2 = (handleAdd parse t objs).2 := by
  unfold handleAdd
  split
  · next idb key perms _ _ _ =>
    have := simU_add parse h idb key perms
    cases e1 : addPairedClient parse s idb key perms <;> cases e2 : addPairedClient parse t idb key perms <;>
      simp only [e1, e2] at this ⊢
    all_goals first | exact ⟨h, trivial⟩ | exact ⟨this, trivial⟩ | exact ⟨h, rfl⟩ | exact ⟨this, rfl⟩ | exact this.elim
  · exact ⟨h, rfl⟩

theorem simU_handleRemove (parse : Bytes → Option Uuid) {s t : PState} (h : SimU s t) (hs : KeysNodup s) (objs : Tlv.Items) :
    SimU (handleRemove parse s objs).1 (handleRemove parse t objs).1 ∧
      (handleRemove parse s objs).2 = (handleRemove parse t objs).2 := by
  unfold handleRemove
  split
  · exact ⟨h, rfl⟩
  · split
    · exact ⟨h, rfl⟩
    · next u _ =>
      obtain ⟨r1, r2⟩ := simU_remove h hs u
      rw [← h.1]
      by_cases hu : ahas s.paired u = true
      · simp only [hu, if_true]
        generalize removePairedClient s u = a at r1 r2
        generalize removePairedClient t u = b at r1 r2
        obtain ⟨s', f1⟩ := a
        obtain ⟨t', f2⟩ := b
        simp only at r1 r2
        subst r2
        cases f1
        · first | exact ⟨r1, rfl⟩ | exact ⟨r1, trivial⟩
        · first | exact ⟨r1, by simp [r1.1]⟩ | exact ⟨r1, trivial⟩
      · simp only [hu, Bool.false_eq_true, if_false]
        first | exact ⟨h, rfl⟩ | exact ⟨h, trivial⟩

/-- one `POST /pairings`: same answer, same save flag, and the states stay related -/
theorem simU_handlePairings (parse : Bytes → Option Uuid) {s t : PState} (h : SimU s t) (hs : KeysNodup s) (req : Req) :
    SimU (handlePairings parse s req).1 (handlePairings parse t req).1 ∧
      (handlePairings parse s req).2 = (handlePairings parse t req).2 := by
  unfold handlePairings
  split
  · exact ⟨h, rfl⟩
  · next cu _ =>
    rw [simU_isAdmin h cu]
    split
    · exact ⟨h, rfl⟩
    · split
      · exact ⟨h, rfl⟩
      · next objs _ =>
        split
        · exact ⟨h, rfl⟩
        · exact ⟨h, rfl⟩
        · split
          · exact simU_handleAdd parse h objs
          · split
            · exact simU_handleRemove parse h hs objs
            · split
              · exact ⟨h, by rw [simU_listItems h]⟩
              · exact ⟨h, rfl⟩

/-- a pair-verify exchange: same outcome, same back-fill decision, related states -/
theorem simU_verify (parse : Bytes → Option Uuid) {s t : PState} (h : SimU s t) (v : VerifyAttempt) :
    verifiesAs parse s v = verifiesAs parse t v ∧
    ∀ u idb, verifiesAs parse s v = some (u, idb) →
      SimU (backfill s u idb).1 (backfill t u idb).1 ∧ (backfill s u idb).2 = (backfill t u idb).2 := by
  refine ⟨by simp [verifiesAs, h.1], ?_⟩
  intro u idb hv
  obtain ⟨_, k, _, _, h3, _⟩ := verifiesAs_some parse s v u idb hv
  have hu : u ∈ akeys s.paired := (ahas_iff _ _).mp (by simp [ahas, h3])
  have e := h.2.2 u hu
  unfold backfill
  rw [← e]
  cases hg : aget s.u2b u with
  | some b => exact ⟨h, rfl⟩
  | none =>
    refine ⟨⟨h.1, h.2.1, ?_⟩, rfl⟩
    intro u' hu'
    simp only [aget_aset]
    split
    · rfl
    · exact h.2.2 u' hu'


/-- two worlds that differ at most in identifier bytes recorded for unpaired controllers -/
def SimW (w v : World) : Prop :=
  SimU w.acc.ps v.acc.ps ∧ w.ss = v.ss ∧ w.acc.mac = v.acc.mac ∧ w.acc.configVersion = v.acc.configVersion ∧
    w.acc.accessoriesHash = v.acc.accessoriesHash ∧ w.acc.privateKey = v.acc.privateKey ∧ w.acc.publicKey = v.acc.publicKey

/-- one operation of the full alphabet: same answer, and the worlds stay related -/
theorem simW_hstep (parse : Bytes → Option Uuid) (hN : NamesOK) {w v : World} (h : SimW w v)
    (hw : Encoder.WF w.acc) (hv : Encoder.WF v.acc) (op : HOp) :
    SimW (hstep parse w op).1 (hstep parse v op).1 ∧ (hstep parse w op).2 = (hstep parse v op).2 := by
  obtain ⟨hs, hss, h1, h2, h3, h4, h5⟩ := h
  have hk : KeysNodup w.acc.ps := ⟨hw.paired, hw.props, hw.u2b⟩
  cases op with
  | s sop =>
    cases sop with
    | setup idb key =>
      have := simU_add parse hs idb key [1]
      simp only [hstep, step]
      cases e1 : addPairedClient parse w.acc.ps idb key [1] <;> cases e2 : addPairedClient parse v.acc.ps idb key [1] <;>
        simp only [e1, e2] at this ⊢
      all_goals first | exact ⟨⟨hs, hss, h1, h2, h3, h4, h5⟩, trivial⟩ | exact ⟨⟨this, hss, h1, h2, h3, h4, h5⟩, trivial⟩ | exact ⟨⟨hs, hss, h1, h2, h3, h4, h5⟩, rfl⟩ | exact ⟨⟨this, hss, h1, h2, h3, h4, h5⟩, rfl⟩ | exact this.elim
    | req c body =>
      obtain ⟨r1, r2⟩ := simU_handlePairings parse hs hk ⟨w.ss c, body⟩
      simp only [hstep]
      rw [← hss]
      exact ⟨⟨r1, rfl, h1, h2, h3, h4, h5⟩, by rw [r2]⟩
    | verify c vv =>
      obtain ⟨e, hb⟩ := simU_verify parse hs vv
      simp only [hstep, ← e]
      cases hv' : verifiesAs parse w.acc.ps vv with
      | none => exact ⟨⟨hs, hss, h1, h2, h3, h4, h5⟩, rfl⟩
      | some p =>
        obtain ⟨u, idb⟩ := p
        obtain ⟨b1, b2⟩ := hb u idb hv'
        exact ⟨⟨b1, by simp only [hss], h1, h2, h3, h4, h5⟩, by simp only [b2]⟩
  | config =>
    refine ⟨⟨hs, hss, h1, ?_, h3, h4, h5⟩, rfl⟩
    simp only [hstep, incrementConfigVersion, h2]
  | hsh hh =>
    simp only [hstep, setAccessoriesHash, h3]
    split
    · exact ⟨⟨hs, hss, h1, h2, h3, h4, h5⟩, rfl⟩
    · exact ⟨⟨hs, hss, h1, by simp only [incrementConfigVersion, h2], rfl, h4, h5⟩, rfl⟩
  | restart =>
    simp only [hstep, restart_identity hN w.acc hw, restart_identity hN v.acc hv]
    first | exact ⟨⟨hs, rfl, h1, h2, h3, h4, h5⟩, trivial⟩ | exact ⟨⟨hs, rfl, h1, h2, h3, h4, h5⟩, rfl⟩
  | stop => exact ⟨⟨hs, rfl, h1, h2, h3, h4, h5⟩, rfl⟩

/-- the answers of a whole-life history -/
def hanswers (parse : Bytes → Option Uuid) : World → List HOp → List HAns
  | _, [] => []
  | w, op :: rest => (hstep parse w op).2 :: hanswers parse (hstep parse w op).1 rest

theorem simW_run (parse : Bytes → Option Uuid) (hN : NamesOK) (ops : List HOp) (w v : World) (a a' : Abs) (who who' : Who)
    (hw : HRel parse w a who) (hv : HRel parse v a' who') (h : SimW w v) :
    hanswers parse w ops = hanswers parse v ops := by
  induction ops generalizing w v a a' who who' with
  | nil => rfl
  | cons op rest ih =>
    obtain ⟨r1, r2⟩ := simW_hstep parse hN h hw.wf hv.wf op
    simp only [hanswers, r2]
    congr 1
    exact ih _ _ _ _ _ _ (hrel_step parse hN w a who hw op) (hrel_step parse hN v a' who' hv op) r1

end Hap.PairState
