/-
  Lemmas about the pair-verify model (HapModel/PairVerify.lean): the exact acceptance condition
  of the final step, step lemmas, the freshness invariant, pairing-map lemmas, and the "ideal
  cryptography" hypothesis records (never axioms; Proofs/PairVerifySym.lean proves them for a
  concrete free-constructor instance).
-/
import HapModel.PairVerify
import Proofs.Tlv
namespace Hap.PV
open Hap Hap.Tlv

/-! ### What a final message claims, as the accessory reads it -/

/-- The claim carried by a pair-verify body on connection state `c`: the body is a TLV with
    state 3 and encrypted data, the connection holds a context `ctx` (its own latest answered
    first step), the data opens under `ctx`'s pre-session key to a TLV with an identifier
    (and possibly a proof). -/
structure Claim where
  ctx : Ctx
  uname : Bytes
  proof : Option Bytes
deriving DecidableEq, Repr

def claimOf (C : Crypto) (c : Conn) (body : Bytes) : Option Claim :=
  match decode body [] with
  | none => none
  | some objs =>
    match lookupTag objs T_SEQUENCE_NUM with
    | none => none
    | some seq =>
      if seq = [1] then none
      else if seq = [3] then
        match lookupTag objs T_ENCRYPTED_DATA with
        | none => none
        | some enc =>
          match c.enc with
          | none => none
          | some ctx =>
            match C.aeadDec ctx.preKey NONCE3 enc with
            | none => none
            | some dec =>
              match decode dec [] with
              | none => none
              | some sub =>
                match lookupTag sub T_USERNAME with
                | none => none
                | some uname => some ⟨ctx, uname, lookupTag sub T_PROOF⟩
      else none

/-- The signed material the accessory checks: `client_public ‖ username bytes ‖ accessory
    ephemeral public` of the connection's own context. -/
def materialOf (C : Crypto) (ctx : Ctx) (uname : Bytes) : Bytes :=
  ctx.clientPublic ++ uname ++ C.pubOf ctx.priv

theorem claimOf_ctx (C : Crypto) (c : Conn) (body : Bytes) (cl : Claim)
    (h : claimOf C c body = some cl) : c.enc = some cl.ctx := by
  unfold claimOf at h
  repeat' split at h
  all_goals (cases h; try assumption)

/-- a claim exists only if the encrypted data of the body opens under the context's key -/
theorem claimOf_opens (C : Crypto) (c : Conn) (body : Bytes) (cl : Claim)
    (h : claimOf C c body = some cl) :
    ∃ objs enc dec, decode body [] = some objs ∧ lookupTag objs T_ENCRYPTED_DATA = some enc ∧
      C.aeadDec cl.ctx.preKey NONCE3 enc = some dec := by
  unfold claimOf at h
  repeat' split at h
  all_goals (cases h; try exact ⟨_, _, _, by assumption, by assumption, by assumption⟩)

theorem lookup_pair_fst (a b : UInt8) (x y : Bytes) : lookupTag [(a, x), (b, y)] a = some x := by
  simp [lookupTag]

theorem lookup_pair_snd (a b : UInt8) (x y : Bytes) (h : a ≠ b) : lookupTag [(a, x), (b, y)] b = some y := by
  simp [lookupTag, h]

theorem merge_pair (a b : UInt8) (x y : Bytes) (h : a ≠ b) : merge [] [(a, x), (b, y)] = [(a, x), (b, y)] := by
  simp [merge, upsert, h]

theorem seq_ne_enc : T_SEQUENCE_NUM ≠ T_ENCRYPTED_DATA := by decide
theorem user_ne_proof : T_USERNAME ≠ T_PROOF := by decide

/-- The verification conditions of C02 (right-hand side of the iff). -/
def Accepts (C : Crypto) (ps : Pairings) (c : Conn) (body : Bytes) : Prop :=
  ∃ cl proof u k,
    claimOf C c body = some cl ∧ cl.proof = some proof ∧
    C.parseUuid cl.uname = some u ∧ getKey ps u = some k ∧ C.keyOk k = true ∧
    C.verify k (materialOf C cl.ctx cl.uname) proof = true

theorem getKey_some_isPaired {ps : Pairings} {u : Uuid} {k : Key} (h : getKey ps u = some k) :
    isPaired ps = true := by
  cases ps with
  | nil => simp [getKey] at h
  | cons e r => simp [isPaired]

/-- Exact characterisation of the handler: a shared key is handed out iff the verification
    conditions hold; and then the connection is marked verified as the parsed identifier, the
    context is consumed and the key is the context's shared key. -/
theorem handler_shared_iff (C : Crypto) (ps : Pairings) (fresh : Nat) (c : Conn) (body : Bytes) :
    ((handlePairVerify C ps fresh c body).2.shared.isSome = true) ↔ Accepts C ps c body := by
  constructor
  · intro h
    unfold handlePairVerify at h
    split at h
    · simp at h
    · split at h
      · simp at h
      · next objs hobjs =>
        split at h
        · simp at h
        · next seq hseq =>
          split at h
          · next h1 =>
            unfold verifyOne at h
            split at h
            · simp at h
            · split at h <;> simp at h
          · split at h
            · next hn1 h3 =>
              unfold verifyTwo at h
              split at h
              · simp at h
              · next enc henc =>
                split at h
                · simp at h
                · next ctx hctx =>
                  split at h
                  · simp at h
                  · next dec hdec =>
                    split at h
                    · simp at h
                    · next sub hsub =>
                      split at h
                      · simp at h
                      · next uname hun =>
                        split at h
                        · simp at h
                        · next u hu =>
                          split at h
                          · simp at h
                          · next k hk =>
                            split at h
                            · simp at h
                            · next hok =>
                              split at h
                              · simp at h
                              · next proof hpr =>
                                split at h
                                · next hv =>
                                  refine ⟨⟨ctx, uname, some proof⟩, proof, u, k, ?_, rfl, hu, hk, ?_, ?_⟩
                                  · simp [claimOf, hobjs, hseq, h3, henc, hctx, hdec, hsub, hun, hpr]
                                  · simpa using hok
                                  · simpa [materialOf] using hv
                                · simp at h
            · simp at h
  · rintro ⟨cl, proof, u, k, hcl, hpr, hu, hk, hok, hv⟩
    have hp := getKey_some_isPaired hk
    unfold claimOf at hcl
    split at hcl
    · simp at hcl
    · next objs hobjs =>
      split at hcl
      · simp at hcl
      · next seq hseq =>
        split at hcl
        · simp at hcl
        · next hn1 =>
          split at hcl
          · next h3 =>
            split at hcl
            · simp at hcl
            · next enc henc =>
              split at hcl
              · simp at hcl
              · next ctx hctx =>
                split at hcl
                · simp at hcl
                · next dec hdec =>
                  split at hcl
                  · simp at hcl
                  · next sub hsub =>
                    split at hcl
                    · simp at hcl
                    · next uname hun =>
                      simp at hcl
                      subst hcl
                      simp at hpr hu hv
                      simp [handlePairVerify, hp, hobjs, hseq, h3, verifyTwo, henc, hctx, hdec, hsub,
                        hun, hu, hk, hok, hpr, materialOf] at hv ⊢
                      simp [hv]
          · simp at hcl

/-- In the accepting branch the handler's effects are exactly: verified, client := parsed id,
    context consumed, shared key of the context returned. -/
theorem handler_accept_effect (C : Crypto) (ps : Pairings) (fresh : Nat) (c : Conn) (body : Bytes)
    (cl : Claim) (proof : Bytes) (u : Uuid) (k : Key)
    (hcl : claimOf C c body = some cl) (hpr : cl.proof = some proof)
    (hu : C.parseUuid cl.uname = some u) (hk : getKey ps u = some k) (hok : C.keyOk k = true)
    (hv : C.verify k (materialOf C cl.ctx cl.uname) proof = true) :
    handlePairVerify C ps fresh c body =
      ({ c with enc := none, verified := true, client := some u },
       ⟨.pairing (encode [(T_SEQUENCE_NUM, [4])]), some cl.ctx.sharedKey⟩) := by
  have hp := getKey_some_isPaired hk
  unfold claimOf at hcl
  split at hcl
  · simp at hcl
  · next objs hobjs =>
    split at hcl
    · simp at hcl
    · next seq hseq =>
      split at hcl
      · simp at hcl
      · next hn1 =>
        split at hcl
        · next h3 =>
          split at hcl
          · simp at hcl
          · next enc henc =>
            split at hcl
            · simp at hcl
            · next ctx hctx =>
              split at hcl
              · simp at hcl
              · next dec hdec =>
                split at hcl
                · simp at hcl
                · next sub hsub =>
                  split at hcl
                  · simp at hcl
                  · next uname hun =>
                    simp at hcl
                    subst hcl
                    simp at hpr hu hv
                    simp [handlePairVerify, hp, hobjs, hseq, h3, verifyTwo, henc, hctx, hdec, hsub,
                      hun, hu, hk, hok, hpr, materialOf] at hv ⊢
                    simp [hv]
        · simp at hcl

/-- Without a shared key the final-step branch leaves the connection untouched; the first-step
    branch only replaces the context. In no case does a refusing answer set `verified`. -/
theorem handler_verified (C : Crypto) (ps : Pairings) (fresh : Nat) (c : Conn) (body : Bytes) :
    (handlePairVerify C ps fresh c body).1.verified = true →
      c.verified = true ∨ (handlePairVerify C ps fresh c body).2.shared.isSome = true := by
  unfold handlePairVerify verifyOne verifyTwo
  repeat' split
  all_goals simp_all

/-- What a pair-verify request can do to the context slot: keep it, replace it by a context
    named `fresh` (first step), or clear it (accepted final step). -/
theorem handler_enc (C : Crypto) (ps : Pairings) (fresh : Nat) (c : Conn) (body : Bytes) :
    let r := handlePairVerify C ps fresh c body
    r.1.enc = c.enc ∨
    (∃ cpub shared, C.dh fresh cpub = some shared ∧
        r.1.enc = some ⟨cpub, fresh, shared, C.hkdf shared⟩ ∧ r.2.shared = none) ∨
    (r.1.enc = none ∧ r.2.shared.isSome = true) := by
  unfold handlePairVerify verifyOne verifyTwo
  repeat' split
  all_goals first
    | (simp_all; done)
    | (right; left; exact ⟨_, _, by assumption, rfl, rfl⟩)

/-- A request that hands out no shared key leaves the identity and the privilege flag of the
    connection exactly as they were. -/
theorem handler_refused_identity (C : Crypto) (ps : Pairings) (fresh : Nat) (c : Conn) (body : Bytes) :
    (handlePairVerify C ps fresh c body).2.shared = none →
      (handlePairVerify C ps fresh c body).1.client = c.client ∧
      (handlePairVerify C ps fresh c body).1.verified = c.verified := by
  unfold handlePairVerify verifyOne verifyTwo
  repeat' split
  all_goals simp_all

/-! ### Pairing map -/

theorem getKey_filter_ne (ps : Pairings) (u : Uuid) :
    getKey (ps.filter (fun e => e.uuid != u)) u = none := by
  induction ps with
  | nil => simp [getKey]
  | cons e r ih =>
    rw [List.filter_cons]
    by_cases h : e.uuid = u
    · simp [h, ih]
    · simp [h, getKey, ih]

/-- After `remove_paired_client(u)` the identifier `u` is not paired (whether or not the
    last-admin rule fired). -/
theorem getKey_removePairing (ps : Pairings) (u : Uuid) : getKey (removePairing ps u) u = none := by
  unfold removePairing
  simp only
  split
  · exact getKey_filter_ne ps u
  · simp [getKey]

theorem getKey_filter_none (ps : Pairings) (p : PEntry → Bool) (v : Uuid) (h : getKey ps v = none) :
    getKey (ps.filter p) v = none := by
  induction ps with
  | nil => simp [getKey]
  | cons e r ih =>
    simp only [getKey] at h
    rw [List.filter_cons]
    split at h
    · simp at h
    · next hne =>
      by_cases hp : p e = true
      · simp [hp, getKey, hne, ih h]
      · simp [hp, ih h]

/-- removing any identifier never makes another one paired -/
theorem getKey_removePairing_none (ps : Pairings) (u v : Uuid) (h : getKey ps v = none) :
    getKey (removePairing ps u) v = none := by
  unfold removePairing
  simp only
  split
  · exact getKey_filter_none ps _ v h
  · simp [getKey]

theorem getKey_addPairing_ne (ps : Pairings) (u v : Uuid) (k : Key) (a : Bool) (hne : u ≠ v) :
    getKey (addPairing ps u k a) v = getKey ps v := by
  induction ps with
  | nil => simp [addPairing, getKey, hne]
  | cons e r ih =>
    by_cases h : e.uuid = u
    · have : e.uuid ≠ v := by rw [h]; exact hne
      simp [addPairing, h, getKey, hne]
    · simp [addPairing, h, getKey, ih]

theorem getKey_addPairing_self (ps : Pairings) (u : Uuid) (k : Key) (a : Bool) :
    getKey (addPairing ps u k a) u = some k := by
  induction ps with
  | nil => simp [addPairing, getKey]
  | cons e r ih =>
    by_cases h : e.uuid = u
    · simp [addPairing, h, getKey]
    · simp [addPairing, h, getKey, ih]

/-! ### System steps -/

@[simp] theorem setConn_same (f : Nat → Conn) (c : Nat) (v : Conn) : setConn f c v c = v := by
  simp [setConn]

theorem setConn_other (f : Nat → Conn) (c d : Nat) (v : Conn) (h : d ≠ c) : setConn f c v d = f d := by
  simp [setConn, h]

theorem installCipher_fields (c : Conn) (o : Out) :
    (installCipher c o).enc = c.enc ∧ (installCipher c o).verified = c.verified ∧
    (installCipher c o).client = c.client := by
  unfold installCipher
  split
  · split <;> simp
  · simp

theorem step_clock (C : Crypto) (s : Sys) (op : Op) : (step C s op).1.clock = s.clock + 1 := by
  cases op <;> simp [step]

theorem run_clock (C : Crypto) (s : Sys) (ops : List Op) : (run C s ops).clock = s.clock + ops.length := by
  induction ops generalizing s with
  | nil => simp [run]
  | cons op rest ih => simp [run, ih, step_clock]; omega

theorem run_append (C : Crypto) (s : Sys) (a b : List Op) : run C s (a ++ b) = run C (run C s a) b := by
  induction a generalizing s with
  | nil => simp [run]
  | cons op rest ih => simp [run, ih]

/-- Only a connection's own pair-verify requests touch its handler state. -/
theorem step_conn_other (C : Crypto) (s : Sys) (op : Op) (c : Nat)
    (h : ∀ body, op ≠ .verify c body) : (step C s op).1.conns c = s.conns c := by
  cases op with
  | pair u k a => simp [step]
  | unpair u => simp [step]
  | get d => simp [step]
  | list d => simp [step]
  | verify d body =>
    have : c ≠ d := by
      intro e; subst e; exact h body rfl
    simp [step, setConn, this]

theorem step_pairings_verify (C : Crypto) (s : Sys) (c : Nat) (body : Bytes) :
    (step C s (.verify c body)).1.pairings = s.pairings := by simp [step]

theorem step_pairings_get (C : Crypto) (s : Sys) (c : Nat) :
    (step C s (.get c)).1.pairings = s.pairings := by simp [step]

/-- the upgrade flag of a system step is the handler's shared key -/
theorem upgrades_step (C : Crypto) (s : Sys) (c : Nat) (body : Bytes) :
    upgrades (step C s (.verify c body)).2 =
      (handlePairVerify C s.pairings s.clock (s.conns c) body).2.shared.isSome := by
  simp only [step, upgrades]
  rcases (handlePairVerify C s.pairings s.clock (s.conns c) body).2 with ⟨r, sh⟩
  cases sh <;> simp

/-! ### Freshness invariant -/

/-- Every context in the system was created in an earlier step, carries that step's number as
    the name of its key pair, is internally consistent (shared = DH, pre-session key = HKDF of
    it), and different connections hold differently named key pairs. -/
structure Good (C : Crypto) (s : Sys) : Prop where
  lt : ∀ c ctx, (s.conns c).enc = some ctx → ctx.priv < s.clock
  consistent : ∀ c ctx, (s.conns c).enc = some ctx →
    C.dh ctx.priv ctx.clientPublic = some ctx.sharedKey ∧ ctx.preKey = C.hkdf ctx.sharedKey
  distinct : ∀ c d x y, c ≠ d → (s.conns c).enc = some x → (s.conns d).enc = some y → x.priv ≠ y.priv

theorem good_init (C : Crypto) : Good C {} := by
  constructor <;> intros <;> simp_all

theorem good_step (C : Crypto) (s : Sys) (op : Op) (g : Good C s) : Good C (step C s op).1 := by
  cases op with
  | pair u k a =>
    constructor
    · intro c ctx h; have := g.lt c ctx (by simpa [step] using h); simp [step]; omega
    · intro c ctx h; exact g.consistent c ctx (by simpa [step] using h)
    · intro c d x y hne hx hy; exact g.distinct c d x y hne (by simpa [step] using hx) (by simpa [step] using hy)
  | unpair u =>
    constructor
    · intro c ctx h; have := g.lt c ctx (by simpa [step] using h); simp [step]; omega
    · intro c ctx h; exact g.consistent c ctx (by simpa [step] using h)
    · intro c d x y hne hx hy; exact g.distinct c d x y hne (by simpa [step] using hx) (by simpa [step] using hy)
  | get e =>
    constructor
    · intro c ctx h; have := g.lt c ctx (by simpa [step] using h); simp [step]; omega
    · intro c ctx h; exact g.consistent c ctx (by simpa [step] using h)
    · intro c d x y hne hx hy; exact g.distinct c d x y hne (by simpa [step] using hx) (by simpa [step] using hy)
  | list e =>
    constructor
    · intro c ctx h; have := g.lt c ctx (by simpa [step] using h); simp [step]; omega
    · intro c ctx h; exact g.consistent c ctx (by simpa [step] using h)
    · intro c d x y hne hx hy; exact g.distinct c d x y hne (by simpa [step] using hx) (by simpa [step] using hy)
  | verify e body =>
    have henc := handler_enc C s.pairings s.clock (s.conns e) body
    -- the context of connection `a` after the step
    have key : ∀ a ctx, ((step C s (.verify e body)).1.conns a).enc = some ctx →
        ((s.conns a).enc = some ctx) ∨
        (a = e ∧ ctx.priv = s.clock ∧ C.dh ctx.priv ctx.clientPublic = some ctx.sharedKey ∧
          ctx.preKey = C.hkdf ctx.sharedKey) := by
      intro a ctx h
      by_cases hae : a = e
      · subst hae
        simp only [step, setConn_same] at h
        rw [(installCipher_fields _ _).1] at h
        rcases henc with h1 | ⟨cpub, shared, hdh, h2, _⟩ | ⟨h3, _⟩
        · left; rw [← h1]; exact h
        · right
          rw [h2] at h
          simp at h
          subst h
          exact ⟨rfl, rfl, hdh, rfl⟩
        · rw [h3] at h; simp at h
      · left
        simpa [step, setConn, hae] using h
    constructor
    · intro c ctx h
      rcases key c ctx h with h1 | ⟨_, h2, _⟩
      · have := g.lt c ctx h1; simp [step]; omega
      · simp [step]; omega
    · intro c ctx h
      rcases key c ctx h with h1 | ⟨_, _, h2, h3⟩
      · exact g.consistent c ctx h1
      · exact ⟨h2, h3⟩
    · intro c d x y hne hx hy
      rcases key c x hx with h1 | ⟨hc, hp, _⟩ <;> rcases key d y hy with h2 | ⟨hd, hq, _⟩
      · exact g.distinct c d x y hne h1 h2
      · have := g.lt c x h1; omega
      · have := g.lt d y h2; omega
      · exact absurd (hc.trans hd.symm) hne

theorem good_run (C : Crypto) (s : Sys) (ops : List Op) (g : Good C s) : Good C (run C s ops) := by
  induction ops generalizing s with
  | nil => simpa [run]
  | cons op rest ih => exact ih _ (good_step C s op g)

/-! ### Ideal cryptography as hypothesis records (satisfiable: see Proofs/PairVerifySym.lean) -/

/-- Signatures: honest signatures verify; a signature made with `sk` over `m` verifies only
    under `pkOf sk` and only for `m`. -/
structure IdealSig (C : Crypto) : Prop where
  complete : ∀ sk m, C.verify (C.pkOf sk) m (C.sign sk m) = true
  key_bound : ∀ k sk m m', C.verify k m (C.sign sk m') = true → k = C.pkOf sk
  msg_bound : ∀ k sk m m', C.verify k m (C.sign sk m') = true → m = m'

/-- AEAD: what was sealed under (key, nonce) opens to the plaintext, and under nothing else. -/
structure IdealAEAD (C : Crypto) : Prop where
  correct : ∀ k n pt, C.aeadDec k n (C.aeadEnc k n pt) = some pt
  key_bound : ∀ k k' n n' pt x, C.aeadDec k n (C.aeadEnc k' n' pt) = some x → k = k' ∧ n = n' ∧ x = pt

/-- X25519: both sides compute the same secret (controller key pairs are named too). -/
structure IdealDH (C : Crypto) : Prop where
  symm : ∀ a b, C.dh a (C.pubOf b) = C.dh b (C.pubOf a)
  defined : ∀ a b, (C.dh a (C.pubOf b)).isSome = true

/-- Freshly generated ephemeral public keys are pairwise different and of one length, for the
    first `bound` key pairs (an unbounded supply of distinct fixed-length keys cannot exist). -/
structure FreshKeys (C : Crypto) (bound len : Nat) : Prop where
  inj : ∀ a b, a < bound → b < bound → C.pubOf a = C.pubOf b → a = b
  length : ∀ a, a < bound → (C.pubOf a).length = len

theorem append_right_ne {a a' b b' : Bytes} (hl : b.length = b'.length) (hne : b ≠ b') :
    a ++ b ≠ a' ++ b' := by
  intro h
  have hlen : (a ++ b).length = (a' ++ b').length := by rw [h]
  simp at hlen
  have : a.length = a'.length := by omega
  have := List.append_inj h this
  exact hne this.2

/-- `fresh_inj`: the signed material of two exchanges with differently named accessory key
    pairs differs, whatever the other components are. -/
theorem fresh_inj (C : Crypto) {bound len : Nat} (F : FreshKeys C bound len)
    (n n' : Nat) (hn : n < bound) (hn' : n' < bound) (hne : n ≠ n') (p p' : Bytes) :
    p ++ C.pubOf n ≠ p' ++ C.pubOf n' := by
  apply append_right_ne
  · rw [F.length n hn, F.length n' hn']
  · intro h; exact hne (F.inj n n' hn hn' h)

end Hap.PV
