/-
  The Dolev–Yao rule for signatures, at term level.

  Over byte strings "the attacker cannot derive x" is not expressible (every string can be guessed),
  so the world theorem `C02_session_origin` takes the rule as a restriction on runs (`Obeys`).  This
  file proves that rule for the classic symbolic attacker: messages are terms of a free algebra, the
  attacker's messages are exactly the terms derivable (`Der`) from what it has observed, with all
  the usual constructors and destructors (pairing / projections, signing with known keys, reading a
  signed message, sealing / opening with known keys, key derivation, Diffie–Hellman with an own
  secret and a peer's public key).  Result (`sig_from_observed`): if an honest long-term secret
  occurs in the observed messages only as a signing key or under `pk`, then every signature under
  that secret that occurs ANYWHERE inside ANY message the attacker can build already occurs inside
  an observed message — i.e. it was issued by the key holder.  This is `Obeys`, for terms.
  (Not tied to the executable model by an encoding: see design/audit/verify.md.)
-/
import HapModel.Bytes
namespace Hap.PV.DY
open Hap

inductive Tm
  /-- secret atom: a long-term or ephemeral secret key -/
  | sec (n : Nat)
  /-- any public byte string -/
  | pub (b : Bytes)
  | pk (s : Tm)
  | cat (a b : Tm)
  | sig (s m : Tm)
  /-- sealing of `p` under `k` (the nonce is public) -/
  | aead (k p : Tm)
  | kdf (t : Tm)
  /-- X25519 (secret `a`, public key of secret `b`) -/
  | dh (a b : Tm)
deriving DecidableEq, Repr

/-- `Occ x t`: `x` occurs in `t` (at any position) -/
def Occ (x : Tm) : Tm → Prop
  | .sec n => x = .sec n
  | .pub b => x = .pub b
  | .pk s => x = .pk s ∨ Occ x s
  | .cat a b => x = .cat a b ∨ Occ x a ∨ Occ x b
  | .sig s m => x = .sig s m ∨ Occ x s ∨ Occ x m
  | .aead k p => x = .aead k p ∨ Occ x k ∨ Occ x p
  | .kdf t => x = .kdf t ∨ Occ x t
  | .dh a b => x = .dh a b ∨ Occ x a ∨ Occ x b

/-- what the attacker can build from the observed messages `K` -/
inductive Der (K : Tm → Prop) : Tm → Prop
  | known {t} : K t → Der K t
  | pub (b) : Der K (.pub b)
  | pkI {s} : Der K s → Der K (.pk s)
  | catI {a b} : Der K a → Der K b → Der K (.cat a b)
  | catL {a b} : Der K (.cat a b) → Der K a
  | catR {a b} : Der K (.cat a b) → Der K b
  | sigI {s m} : Der K s → Der K m → Der K (.sig s m)
  | sigM {s m} : Der K (.sig s m) → Der K m
  | aeadI {k p} : Der K k → Der K p → Der K (.aead k p)
  | aeadE {k p} : Der K (.aead k p) → Der K k → Der K p
  | kdfI {t} : Der K t → Der K (.kdf t)
  | dhI {a b} : Der K a → Der K (.pk b) → Der K (.dh a b)
  | dhI' {a b} : Der K b → Der K (.pk a) → Der K (.dh a b)

/-- **Signature origin.**  A signature occurring anywhere in a derivable term was made by the
    attacker with a key it can derive, or occurs in an observed message. -/
theorem sig_origin (K : Tm → Prop) {t : Tm} (h : Der K t) :
    ∀ s m, Occ (.sig s m) t → Der K s ∨ ∃ k, K k ∧ Occ (.sig s m) k := by
  induction h with
  | known hk => intro s m hs; exact Or.inr ⟨_, hk, hs⟩
  | pub b => intro s m hs; simp [Occ] at hs
  | pkI _ ih =>
    intro s m hs
    simp only [Occ] at hs
    rcases hs with hs | hs
    · cases hs
    · exact ih s m hs
  | catI _ _ iha ihb =>
    intro s m hs
    simp only [Occ] at hs
    rcases hs with hs | hs | hs
    · cases hs
    · exact iha s m hs
    · exact ihb s m hs
  | catL _ ih => intro s m hs; exact ih s m (by simp only [Occ]; exact Or.inr (Or.inl hs))
  | catR _ ih => intro s m hs; exact ih s m (by simp only [Occ]; exact Or.inr (Or.inr hs))
  | sigI hs' _ ihs ihm =>
    intro s m hs
    simp only [Occ] at hs
    rcases hs with hs | hs | hs
    · cases hs; exact Or.inl hs'
    · exact ihs s m hs
    · exact ihm s m hs
  | sigM _ ih => intro s m hs; exact ih s m (by simp only [Occ]; exact Or.inr (Or.inr hs))
  | aeadI _ _ ihk ihp =>
    intro s m hs
    simp only [Occ] at hs
    rcases hs with hs | hs | hs
    · cases hs
    · exact ihk s m hs
    · exact ihp s m hs
  | aeadE _ _ ih _ => intro s m hs; exact ih s m (by simp only [Occ]; exact Or.inr (Or.inr hs))
  | kdfI _ ih =>
    intro s m hs
    simp only [Occ] at hs
    rcases hs with hs | hs
    · cases hs
    · exact ih s m hs
  | dhI _ _ iha ihb =>
    intro s m hs
    simp only [Occ] at hs
    rcases hs with hs | hs | hs
    · cases hs
    · exact iha s m hs
    · exact ihb s m (by simp only [Occ]; exact Or.inr hs)
  | dhI' _ _ ihb iha =>
    intro s m hs
    simp only [Occ] at hs
    rcases hs with hs | hs | hs
    · cases hs
    · exact iha s m (by simp only [Occ]; exact Or.inr hs)
    · exact ihb s m hs

/-- `Hid n t`: the secret atom `n` occurs in `t` only as a signing key, under `pk`, or as the
    input of a Diffie–Hellman value (which reveals neither secret) -/
def Hid (n : Nat) : Tm → Prop
  | .sec k => k ≠ n
  | .pub _ => True
  | .pk s => s = .sec n ∨ Hid n s
  | .cat a b => Hid n a ∧ Hid n b
  | .sig s m => (s = .sec n ∨ Hid n s) ∧ Hid n m
  | .aead k p => Hid n k ∧ Hid n p
  | .kdf t => Hid n t
  | .dh a b => (a = .sec n ∨ Hid n a) ∧ (b = .sec n ∨ Hid n b)

/-- derivation preserves `Hid`: a secret that was never sent except as a signing key / under `pk`
    stays out of everything the attacker can build -/
theorem der_hid (K : Tm → Prop) (n : Nat) (hK : ∀ k, K k → Hid n k) {t : Tm} (h : Der K t) : Hid n t := by
  induction h with
  | known hk => exact hK _ hk
  | pub b => trivial
  | pkI _ ih => exact Or.inr ih
  | catI _ _ iha ihb => exact ⟨iha, ihb⟩
  | catL _ ih => exact ih.1
  | catR _ ih => exact ih.2
  | sigI _ _ ihs ihm => exact ⟨Or.inr ihs, ihm⟩
  | sigM _ ih => exact ih.2
  | aeadI _ _ ihk ihp => exact ⟨ihk, ihp⟩
  | aeadE _ _ ih _ => exact ih.2
  | kdfI _ ih => exact ih
  | dhI _ _ iha ihb => exact ⟨Or.inr iha, ihb⟩
  | dhI' _ _ ihb iha => exact ⟨iha, Or.inr ihb⟩

/-- the honest secret itself is not derivable -/
theorem secret_underivable (K : Tm → Prop) (n : Nat) (hK : ∀ k, K k → Hid n k) : ¬ Der K (.sec n) := by
  intro h
  exact der_hid K n hK h rfl

/-- **The Dolev–Yao rule for signatures** (what `Obeys` assumes of runs, proved for terms): if the
    honest secret `n` occurs in the observed messages only as a signing key, under `pk` or inside a
    Diffie–Hellman value, every signature under `n` occurring anywhere in any message the attacker
    can build occurs in an observed message: it was issued by the holder of `n`. -/
theorem sig_from_observed (K : Tm → Prop) (n : Nat) (hK : ∀ k, K k → Hid n k) {t : Tm} (h : Der K t)
    (m : Tm) (hs : Occ (.sig (.sec n) m) t) : ∃ k, K k ∧ Occ (.sig (.sec n) m) k := by
  rcases sig_origin K h (.sec n) m hs with hd | hk
  · exact absurd hd (secret_underivable K n hK)
  · exact hk

/-! ### A concrete observed exchange (used by the non-vacuity examples in Props/C02.lean) -/
namespace Demo

def idA : Tm := .pub [0xA1]
/-- controller long-term secret 1, controller ephemeral 10, accessory ephemeral 20 -/
def material : Tm := .cat (.pk (.sec 10)) (.cat idA (.pk (.sec 20)))
def obs : List Tm :=
  [.pk (.sec 1), .pk (.sec 10), .pk (.sec 20),
   .aead (.kdf (.dh (.sec 10) (.sec 20))) (.cat idA (.sig (.sec 1) material))]

theorem obs_hid : ∀ k, k ∈ obs → Hid 1 k := by
  intro k hk
  simp only [obs, List.mem_cons, List.not_mem_nil, or_false] at hk
  rcases hk with rfl | rfl | rfl | rfl <;> simp [Hid, material, idA]

end Demo

end Hap.PV.DY
