/-
  Provenance lemmas for pair-verify (deepening round):
  * hypothesis records of *symbolic strength* — ONLY signatures verify, ONLY sealed data opens —
    proved for the free-constructor instance `Sym.crypto` (never axioms);
  * the first step is answered and creates the context the final step needs;
  * pairing-map facts over arbitrary histories (an unpaired identifier stays unpaired until it is
    registered again; the last-admin rule empties the map);
  * "no context named n" invariant (a consumed exchange never comes back);
  * the world with honest signers: a signing log next to the system, and the Dolev–Yao rule for
    signatures stated as a restriction on runs (`Obeys`).
-/
import Proofs.PairVerifySym
namespace Hap.PV
open Hap Hap.Tlv

/-! ### Hypothesis records of symbolic strength -/

/-- Signatures as in a symbolic (Dolev–Yao) model: besides `IdealSig`, a byte string verifies
    under a key ONLY if it is the signature made with the matching secret key over that very
    message (so junk that is not a signature never verifies), and public keys determine their
    secret key. -/
structure StrongSig (C : Crypto) : Prop where
  ideal : IdealSig C
  only_sigs : ∀ k m s, C.verify k m s = true → ∃ sk, k = C.pkOf sk ∧ s = C.sign sk m
  pk_inj : ∀ a b, C.pkOf a = C.pkOf b → a = b

/-- a signature determines its key and its message -/
theorem StrongSig.sign_inj {C : Crypto} (S : StrongSig C) {sk sk' m m' : Bytes}
    (h : C.sign sk m = C.sign sk' m') : sk = sk' ∧ m = m' := by
  have hv : C.verify (C.pkOf sk) m (C.sign sk' m') = true := by
    rw [← h]; exact S.ideal.complete sk m
  exact ⟨S.pk_inj _ _ (S.ideal.key_bound _ _ _ _ hv), S.ideal.msg_bound _ _ _ _ hv⟩

/-- AEAD as in a symbolic model: besides `IdealAEAD`, ONLY data that was sealed under (key, nonce)
    opens under it. -/
structure StrongAEAD (C : Crypto) : Prop where
  ideal : IdealAEAD C
  only_sealed : ∀ k n ct pt, C.aeadDec k n ct = some pt → ct = C.aeadEnc k n pt

namespace Sym

theorem unframe_some : ∀ (x a y : Bytes), unframe x = some (a, y) → x = frame a ++ y
  | [], a, y, h => by simp [unframe] at h
  | [_], a, y, h => by simp [unframe] at h
  | x :: b :: rest, a, y, h => by
    rw [unframe] at h
    by_cases h0 : x = 0
    · simp only [h0, if_true, Option.some.injEq, Prod.mk.injEq] at h
      obtain ⟨rfl, rfl⟩ := h
      simp [frame, h0]
    · by_cases h1 : x = 1
      · simp only [h1] at h
        cases hr : unframe rest with
        | none => rw [hr] at h; simp at h
        | some pr =>
          rw [hr] at h
          have hh : some (b :: pr.fst, pr.snd) = some (a, y) := by simpa using h
          simp only [Option.some.injEq, Prod.mk.injEq] at hh
          have := unframe_some rest pr.1 pr.2 hr
          rw [← hh.1, ← hh.2, h1]
          simp only [frame, List.cons_append, List.cons.injEq, true_and]
          exact this
      · simp [h0, h1] at h

theorem dec_only_sealed (k n ct pt : Bytes) (h : dec k n ct = some pt) : ct = enc k n pt := by
  unfold dec at h
  split at h
  · simp at h
  · next k' r h1 =>
    split at h
    · simp at h
    · next n' r' h2 =>
      split at h
      · next hk =>
        split at h
        · simp at h
        · split at h
          · next pt' tail h3 =>
            split at h
            · next ht =>
              simp only [Option.some.injEq] at h
              subst h; subst ht
              have e1 := unframe_some _ _ _ h1
              have e2 := unframe_some _ _ _ h2
              have e3 := unframe_some _ _ _ h3
              have e4 : r' = frame pt' := List.append_cancel_right e3
              rw [e1, e2, e4, hk.1, hk.2]; rfl
            · simp at h
          · simp at h
      · simp at h

theorem strongSig : StrongSig crypto where
  ideal := idealSig
  only_sigs k m s h := by
    cases k with
    | nil => simp [crypto] at h
    | cons p sk =>
      simp only [crypto, Bool.and_eq_true, beq_iff_eq] at h
      exact ⟨sk, by simp [crypto, h.1], by simp [crypto, h.2]⟩
  pk_inj a b h := by simpa [crypto] using h

theorem strongAEAD : StrongAEAD crypto where
  ideal := idealAEAD
  only_sealed k n ct pt h := dec_only_sealed k n ct pt h

end Sym

/-! ### The first step -/

theorem seq_ne_pub : T_SEQUENCE_NUM ≠ T_PUBLIC_KEY := by decide

/-- `_pair_verify_one` on a paired accessory with a usable controller key: answered with M2, the
    context of this exchange is stored (named by the current step), nothing else changes. -/
theorem handler_first_step (C : Crypto) (ps : Pairings) (fresh : Nat) (c : Conn) (cpub shared : Bytes)
    (hp : isPaired ps = true) (hdh : C.dh fresh cpub = some shared) :
    handlePairVerify C ps fresh c (encode [(T_SEQUENCE_NUM, [1]), (T_PUBLIC_KEY, cpub)]) =
      ({ c with enc := some ⟨cpub, fresh, shared, C.hkdf shared⟩ },
       ⟨.pairing (m2Body C fresh cpub shared), none⟩) := by
  unfold handlePairVerify
  rw [decode_encode_acc, merge_pair _ _ _ _ seq_ne_pub]
  simp [hp, lookup_pair_fst, verifyOne, lookup_pair_snd _ _ _ _ seq_ne_pub, hdh]

/-! ### Pairing map over histories -/

/-- an unpaired identifier stays unpaired through every history that does not register it -/
theorem pv_run_getKey_none (C : Crypto) (t : Sys) (ops : List Op) (v : Uuid)
    (h0 : getKey t.pairings v = none) (hops : ∀ op ∈ ops, ∀ k a, op ≠ .pair v k a) :
    getKey (run C t ops).pairings v = none := by
  induction ops generalizing t with
  | nil => simpa [run]
  | cons op rest ih =>
    simp only [run]
    apply ih _ _ (fun o ho => hops o (List.mem_cons_of_mem _ ho))
    have hop := hops op List.mem_cons_self
    cases op with
    | pair w k a =>
      have : w ≠ v := by intro e; subst e; exact hop k a rfl
      simp only [step]; rw [getKey_addPairing_ne _ _ _ _ _ this]; exact h0
    | unpair w =>
      simp only [step]
      split
      · exact getKey_removePairing_none _ _ _ h0
      · exact h0
    | verify d b => simpa [step] using h0
    | get d => simpa [step] using h0
    | list d => simpa [step] using h0

/-- last-admin rule: when every admin entry belongs to `u`, removing `u` empties the map -/
theorem removePairing_last_admin (ps : Pairings) (u : Uuid)
    (honly : ∀ e ∈ ps, e.admin = true → e.uuid = u) : removePairing ps u = [] := by
  unfold removePairing
  simp only
  split
  · next hany =>
    exfalso
    simp only [List.any_eq_true, List.mem_filter] at hany
    obtain ⟨e, ⟨he, hne⟩, ha⟩ := hany
    have := honly e he ha
    simp [this] at hne
  · rfl

/-! ### A consumed exchange never comes back -/

/-- no connection holds a context whose accessory key pair is named `n` -/
def NoCtx (n : Nat) (s : Sys) : Prop := ∀ c ctx, (s.conns c).enc = some ctx → ctx.priv ≠ n

/-- the context of a connection after any step: the old one, or one named by the current step -/
theorem step_enc_cases (C : Crypto) (s : Sys) (op : Op) (a : Nat) (ctx : Ctx)
    (h : ((step C s op).1.conns a).enc = some ctx) : (s.conns a).enc = some ctx ∨ ctx.priv = s.clock := by
  by_cases hop : ∃ body, op = .verify a body
  · obtain ⟨body, rfl⟩ := hop
    simp only [step, setConn_same] at h
    rw [(installCipher_fields _ _).1] at h
    rcases handler_enc C s.pairings s.clock (s.conns a) body with h1 | ⟨_, _, _, h2, _⟩ | ⟨h3, _⟩
    · left; rw [← h1]; exact h
    · right; rw [h2] at h; simp at h; rw [← h]
    · rw [h3] at h; simp at h
  · left
    rw [step_conn_other C s op a (fun body e => hop ⟨body, e⟩)] at h
    exact h

theorem noCtx_step (C : Crypto) (n : Nat) (s : Sys) (op : Op) (h : NoCtx n s) (hn : n < s.clock) :
    NoCtx n (step C s op).1 := by
  intro a ctx hc
  rcases step_enc_cases C s op a ctx hc with h1 | h2
  · exact h a ctx h1
  · omega

theorem noCtx_run (C : Crypto) (n : Nat) (s : Sys) (ops : List Op) (h : NoCtx n s) (hn : n < s.clock) :
    NoCtx n (run C s ops) := by
  induction ops generalizing s with
  | nil => simpa [run]
  | cons op rest ih =>
    simp only [run]
    exact ih _ (noCtx_step C n s op h hn) (by rw [step_clock]; omega)

/-! ### The world with honest signers -/

/-- Operations of the world: a system operation (pairing change or a request with ARBITRARY bytes —
    the network is the attacker's), or the holder of the secret key `sk` signing the message `m`
    (what an honest controller does for its final message). -/
inductive WOp
  | sys (op : Op)
  | sign (sk m : Bytes)

structure World where
  sys : Sys := {}
  /-- every signature issued so far by a key holder: (secret key, message) -/
  log : List (Bytes × Bytes) := []

def wstep (C : Crypto) (w : World) : WOp → World
  | .sys op => { w with sys := (step C w.sys op).1 }
  | .sign sk m => { w with log := (sk, m) :: w.log }

def wrun (C : Crypto) : World → List WOp → World
  | w, [] => w
  | w, op :: rest => wrun C (wstep C w op) rest

/-- **The Dolev–Yao rule for signatures, as a restriction on runs.**  Whoever talks to the accessory
    may send any bytes whatsoever, except that a final message whose proof field is a signature
    under an `Honest` secret key carries a signature that the key's holder has issued before (the
    attacker can relay, reorder, re-encrypt and replay honest signatures, and sign with keys it
    holds itself — it cannot make an honest key's signature on a message the holder never signed). -/
def Obeys (C : Crypto) (Honest : Bytes → Prop) : World → List WOp → Prop
  | _, [] => True
  | w, op :: rest =>
    (match op with
      | .sys (.verify c body) =>
        ∀ cl sk m, claimOf C (w.sys.conns c) body = some cl → cl.proof = some (C.sign sk m) →
          Honest sk → (sk, m) ∈ w.log
      | _ => True) ∧ Obeys C Honest (wstep C w op) rest

theorem obeys_append (C : Crypto) (Honest : Bytes → Prop) (w : World) (a b : List WOp)
    (h : Obeys C Honest w (a ++ b)) : Obeys C Honest (wrun C w a) b := by
  induction a generalizing w with
  | nil => simpa [wrun] using h
  | cons op rest ih =>
    simp only [List.cons_append, Obeys] at h
    exact ih _ h.2

/-- the system component of a world run is a run of the system -/
def sysOps : List WOp → List Op
  | [] => []
  | .sys op :: rest => op :: sysOps rest
  | .sign _ _ :: rest => sysOps rest

theorem wrun_sys (C : Crypto) (w : World) (ops : List WOp) :
    (wrun C w ops).sys = run C w.sys (sysOps ops) := by
  induction ops generalizing w with
  | nil => simp [wrun, sysOps, run]
  | cons op rest ih =>
    cases op with
    | sys o => simp [wrun, sysOps, run, ih, wstep]
    | sign sk m => simp [wrun, sysOps, ih, wstep]

end Hap.PV
