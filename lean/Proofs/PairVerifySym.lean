/-
  A concrete "free constructor" instance `Sym` of the crypto parameters, for which the ideal
  hypothesis records of Proofs/PairVerify.lean are *proved*.  Purpose: the hypotheses of the C02
  corollaries are satisfiable (the theorems are not vacuous) and the model can be run on concrete
  exchanges inside Lean (`example`s in Props/C02.lean).
  Byte strings are framed self-delimitingly (`frame`), so that sealing / signing are injective.
-/
import Proofs.PairVerify
namespace Hap.PV.Sym
open Hap Hap.PV

/-- self-delimiting encoding: every byte is preceded by 1, the end is marked by 0 -/
def frame : Bytes → Bytes
  | [] => [0]
  | b :: r => 1 :: b :: frame r

/-- parse one frame off the front: (payload, rest) -/
def unframe : Bytes → Option (Bytes × Bytes)
  | [] => none
  | [_] => none
  | x :: b :: rest =>
    if x = 0 then some ([], b :: rest)
    else if x = 1 then (unframe rest).map fun pr => (b :: pr.1, pr.2)
    else none

theorem frame_inj (a b x y : Bytes) (h : frame a ++ x = frame b ++ y) : a = b ∧ x = y := by
  induction a generalizing b with
  | nil =>
    cases b with
    | nil => simpa [frame] using h
    | cons c r => simp [frame] at h
  | cons a0 ar ih =>
    cases b with
    | nil => simp [frame] at h
    | cons c r =>
      simp only [frame, List.cons_append, List.cons.injEq, true_and] at h
      obtain ⟨h1, h2⟩ := h
      have := ih r h2
      exact ⟨by rw [h1, this.1], this.2⟩

theorem unframe_zero (x : Bytes) : unframe (0 :: x) = (match x with | [] => none | _ => some ([], x)) := by
  cases x <;> simp [unframe]

/-- sealing with a non-empty tail: the tail is always non-empty in our uses (`frame _ ++ _`) -/
theorem unframe_frame (a x : Bytes) (hx : x ≠ []) : unframe (frame a ++ x) = some (a, x) := by
  induction a with
  | nil =>
    cases x with
    | nil => exact absurd rfl hx
    | cons c r => simp [frame, unframe]
  | cons a0 ar ih =>
    simp only [frame, List.cons_append]
    rw [unframe]
    simp [ih]

theorem frame_ne_nil (a : Bytes) : frame a ≠ [] := by cases a <;> simp [frame]

def PK : UInt8 := 80

/-- sealed = frame key ‖ frame nonce ‖ frame plaintext -/
def enc (k n pt : Bytes) : Bytes := frame k ++ (frame n ++ frame pt)

def dec (k n ct : Bytes) : Option Bytes :=
  match unframe ct with
  | none => none
  | some (k', r) =>
    match unframe r with
    | none => none
    | some (n', r') =>
      if k' = k ∧ n' = n then
        -- r' must be exactly one frame
        if r' = [] then none else
        match unframe (r' ++ [0, 0]) with
        | some (pt, tail) => if tail = [0, 0] then some pt else none
        | none => none
      else none

def zeros31 : Bytes := List.replicate 31 0

/-- The instance. Ephemeral key pair `n` has public key `n mod 256` followed by 31 zero bytes
    (32 bytes; injective for the first 256 names); the DH secret is the xor of both name bytes. -/
def crypto : Crypto where
  pubOf n := UInt8.ofNat n :: zeros31
  dh a peer :=
    match peer with
    | [] => none
    | b :: rest => if rest = zeros31 then some [UInt8.ofNat a ^^^ b] else none
  hkdf x := 72 :: x
  aeadEnc := enc
  aeadDec := dec
  pkOf sk := PK :: sk
  sign sk m := frame sk ++ m
  keyOk k := k.head? == some PK
  verify k m s :=
    match k with
    | [] => false
    | p :: sk => p == PK && s == frame sk ++ m
  parseUuid b := if b.length = 16 then some b else none
  mac := [77]
  accSk := [2]

theorem dec_enc (k n pt : Bytes) : dec k n (enc k n pt) = some pt := by
  unfold dec enc
  rw [unframe_frame k _ (by simp [frame_ne_nil])]
  simp only
  rw [unframe_frame n _ (frame_ne_nil pt)]
  simp only [and_self, if_true, frame_ne_nil, if_false]
  rw [unframe_frame pt [0, 0] (by simp)]
  simp

theorem dec_enc_bound (k k' n n' pt x : Bytes) (h : dec k n (enc k' n' pt) = some x) :
    k = k' ∧ n = n' ∧ x = pt := by
  unfold dec enc at h
  rw [unframe_frame k' _ (by simp [frame_ne_nil])] at h
  simp only at h
  rw [unframe_frame n' _ (frame_ne_nil pt)] at h
  simp only at h
  split at h
  · next hk =>
    simp only [frame_ne_nil, if_false] at h
    rw [unframe_frame pt [0, 0] (by simp)] at h
    simp at h
    exact ⟨hk.1.symm, hk.2.symm, h.symm⟩
  · simp at h

theorem idealSig : IdealSig crypto where
  complete sk m := by simp [crypto]
  key_bound k sk m m' h := by
    cases k with
    | nil => simp [crypto] at h
    | cons p r =>
      simp only [crypto, Bool.and_eq_true, beq_iff_eq] at h
      obtain ⟨hp, hs⟩ := h
      have := frame_inj sk r m' m hs
      simp [crypto, hp, this.1]
  msg_bound k sk m m' h := by
    cases k with
    | nil => simp [crypto] at h
    | cons p r =>
      simp only [crypto, Bool.and_eq_true, beq_iff_eq] at h
      exact (frame_inj sk r m' m h.2).2.symm

theorem idealAEAD : IdealAEAD crypto where
  correct k n pt := dec_enc k n pt
  key_bound k k' n n' pt x h := dec_enc_bound k k' n n' pt x h

theorem idealDH : IdealDH crypto where
  symm a b := by simp [crypto, UInt8.xor_comm]
  defined a b := by simp [crypto]

theorem freshKeys : FreshKeys crypto 256 32 where
  inj a b ha hb h := by
    simp only [crypto, List.cons.injEq, and_true] at h
    have := congrArg UInt8.toNat h
    simp at this
    omega
  length a _ := by simp [crypto, zeros31]

end Hap.PV.Sym
