/-
  Invariants of the Persist step relation (lemmas for Props/C15.lean).
-/
import HapModel.Persist
namespace Hap.Persist
set_option linter.unusedSimpArgs false
set_option linter.unusedVariables false

/-! ### list facts about reading a vector component by component -/

theorem take_snoc_getD (l : List Nat) (n : Nat) (h : n < l.length) :
    l.take n ++ [l[n]?.getD 0] = l.take (n + 1) := by
  induction l generalizing n with
  | nil => simp at h
  | cons x xs ih =>
    cases n with
    | zero => simp
    | succ n =>
      simp only [List.length_cons] at h
      simp only [List.take_succ_cons, List.cons_append, List.getElem?_cons_succ]
      rw [ih n (by omega)]

theorem take_full (l : List Nat) (n : Nat) (h : ¬ n < l.length) : l.take n = l :=
  List.take_of_length_le (by omega)

theorem mem_of_head? {α} {l : List α} {a : α} (h : l.head? = some a) : a ∈ l := by
  cases l with
  | nil => simp at h
  | cons x xs => simp at h; subst h; simp

theorem headD_of_head? {l : List Vec} {a : Vec} (h : l.head? = some a) : l.headD [] = a := by
  cases l with
  | nil => simp at h
  | cons x xs => simp at h; subst h; rfl

theorem bump_length (m : Vec) (c : Nat) : (bump m c).length = m.length := by
  induction m generalizing c with
  | nil => rfl
  | cons x xs ih => cases c <;> simp [bump, ih]

/-! ### atomicity invariant, structural part (any `locked`, any `slocked`, all labels) -/

/-- what the temp file of job `j` looks like, by program counter -/
def JobOk (snap : Vec → Content) (s : Sys) (j : Nat) : Prop :=
  match s.jobs j with
  | .unspawned => s.temps j = none
  | .start => s.temps j = none
  | .mktemp => s.temps j = none
  | .snapshot => s.temps j = some []
  | .reading _ => s.temps j = some []
  | .write v rest => ∃ cur, s.temps j = some cur ∧ cur ++ rest = snap v
  | .closing v => s.temps j = some (snap v)
  | .replace v => s.temps j = some (snap v)
  | .cleanup _ => True
  | .remove _ => True
  | .unlock r => r ≠ .cleanupRaised → s.temps j = none
  | .done r => r ≠ .cleanupRaised → s.temps j = none

structure AtomInv (snap : Vec → Content) (init : Option Content) (s : Sys) : Prop where
  target : s.target = init ∨ ∃ v, s.target = some (snap v)
  jobs : ∀ j, JobOk snap s j
  fresh : ∀ j, s.njobs ≤ j → s.jobs j = .unspawned

theorem atomInv_init (snap : Vec → Content) (init : Option Content) (mem0 : Vec) :
    AtomInv snap init (initSys init mem0) :=
  ⟨Or.inl rfl, fun _ => rfl, fun _ _ => rfl⟩

theorem resOf_ne (r : Bool) : resOf r ≠ .cleanupRaised := by
  cases r <;> simp [resOf]

/-- a step that touches neither the directory nor the jobs -/
theorem atomInv_frame {snap init} {s s' : Sys} (h : AtomInv snap init s)
    (ht : s'.target = s.target) (hp : s'.temps = s.temps) (hj : s'.jobs = s.jobs)
    (hn : s'.njobs = s.njobs) : AtomInv snap init s' := by
  refine ⟨by rw [ht]; exact h.target, ?_, ?_⟩
  · intro j
    have := h.jobs j
    unfold JobOk at this ⊢
    rw [hj, hp]; exact this
  · intro j hjn
    rw [hj]; exact h.fresh j (by omega)

theorem atomInv_spawn {snap init} {s : Sys} (h : AtomInv snap init s) :
    AtomInv snap init (spawn s) := by
  refine ⟨h.target, ?_, ?_⟩
  · intro j
    have hj := h.jobs j
    have hf := h.fresh j
    unfold JobOk at hj ⊢
    simp only [spawn]
    by_cases e : j = s.njobs
    · subst e
      have := hf (Nat.le_refl _)
      simp [this] at hj
      simp [hj]
    · simp only [e, if_false]
      exact hj
  · intro j hj
    simp only [spawn] at hj ⊢
    have : j ≠ s.njobs := by omega
    simp [this]
    exact h.fresh j (by omega)

theorem atomInv_adv {locked slocked snap init} {s s' : Sys} {j : Nat}
    (h : AtomInv snap init s) (hs : adv locked slocked snap s j = some s') :
    AtomInv snap init s' := by
  have hj := h.jobs j
  unfold adv at hs
  unfold JobOk at hj
  have hne : s.jobs j ≠ .unspawned := by
    intro e; simp [e] at hs
  have hlt : ∀ i, s.njobs ≤ i → i ≠ j := by
    intro i hi e; subst e; exact hne (h.fresh _ hi)
  split at hs
  all_goals (try split at hs)
  all_goals (try split at hs)
  all_goals (first | (cases hs; done) | skip)
  all_goals
    injection hs with hs
    subst hs
    refine ⟨?_, ?_, ?_⟩
    · have := h.target
      simp_all [setJob, setTemp] <;> grind
    · intro i
      have hi := h.jobs i
      unfold JobOk at hi ⊢
      by_cases e : i = j
      · subst e
        simp_all [setJob, setTemp, resOf_ne] <;> grind
      · simp_all [setJob, setTemp]
    · intro i hi
      have := hlt i hi
      have := h.fresh i hi
      simp_all [setJob, setTemp]

theorem atomInv_fault {slocked snap init} {s s' : Sys} {j : Nat}
    (h : AtomInv snap init s) (hs : fault slocked s j = some s') : AtomInv snap init s' := by
  have hj := h.jobs j
  unfold fault at hs
  unfold JobOk at hj
  have hne : s.jobs j ≠ .unspawned := by
    intro e; simp [e] at hs
  have hlt : ∀ i, s.njobs ≤ i → i ≠ j := by
    intro i hi e; subst e; exact hne (h.fresh _ hi)
  split at hs
  all_goals (first | (cases hs; done) | skip)
  all_goals
    injection hs with hs
    subst hs
    refine ⟨?_, ?_, ?_⟩
    · have := h.target
      simp_all [setJob, setTemp]
    · intro i
      have hi := h.jobs i
      unfold JobOk at hi ⊢
      by_cases e : i = j
      · subst e
        simp_all [setJob, setTemp]
      · simp_all [setJob, setTemp]
    · intro i hi
      have := hlt i hi
      have := h.fresh i hi
      simp_all [setJob, setTemp]

/-- the three steps of a state change and `spawn`, as seen by an invariant `P` that depends only on
    directory and jobs: case analysis of `step` done once -/
theorem step_cases {locked slocked snap} {s s' : Sys} {l : Label}
    (hs : step locked slocked snap s l = some s') :
    s.crashed = false ∧
    ((l = .mbegin ∧ s.chg = false ∧ (slocked = true → s.slock = none) ∧
        s' = { s with chg := true, slock := if slocked then some .changer else s.slock }) ∨
     (∃ c, l = .mwrite c ∧ s.chg = true ∧ s' = { s with mem := bump s.mem c }) ∨
     (∃ b, l = .mend b ∧ s.chg = true ∧
        s' = (if b then spawn { s with chg := false, hist := s.mem :: s.hist,
                                       slock := if slocked then none else s.slock }
              else { s with chg := false, hist := s.mem :: s.hist,
                            slock := if slocked then none else s.slock })) ∨
     (l = .spawn ∧ s' = spawn s) ∨
     (∃ j, l = .adv j ∧ adv locked slocked snap s j = some s') ∨
     (∃ j, l = .fault j ∧ fault slocked s j = some s') ∨
     (l = .crash ∧ s' = { s with crashed := true }) ∨
     (∃ j, l = .cancel j ∧ s.jobs j = .start ∧ s' = setJob s j (.done .cancelled))) := by
  unfold step at hs
  split at hs
  · cases hs
  · next hc =>
    refine ⟨by simpa using hc, ?_⟩
    cases l with
    | mbegin =>
      left
      simp only at hs
      split at hs
      · cases hs
      · next hm =>
        split at hs
        · next hsl =>
          split at hs
          · next hn =>
            injection hs with hs; subst hs
            exact ⟨rfl, by simpa using hm, fun _ => hn, by simp [hsl]⟩
          · cases hs
        · next hsl =>
          injection hs with hs; subst hs
          refine ⟨rfl, by simpa using hm, ?_, by simp [hsl]⟩
          intro h; exact absurd h hsl
    | mwrite c =>
      right; left
      simp only at hs
      split at hs
      · next hm => injection hs with hs; subst hs; exact ⟨c, rfl, hm, rfl⟩
      · cases hs
    | mend b =>
      right; right; left
      simp only at hs
      split at hs
      · next hm => injection hs with hs; subst hs; exact ⟨b, rfl, hm, rfl⟩
      · cases hs
    | spawn =>
      right; right; right; left
      injection hs with hs; subst hs; exact ⟨rfl, rfl⟩
    | adv j => right; right; right; right; left; exact ⟨j, rfl, hs⟩
    | fault j => right; right; right; right; right; left; exact ⟨j, rfl, hs⟩
    | crash =>
      right; right; right; right; right; right; left
      injection hs with hs; subst hs; exact ⟨rfl, rfl⟩
    | cancel j =>
      right; right; right; right; right; right; right
      simp only at hs
      split at hs
      · next hpc => injection hs with hs; subst hs; exact ⟨j, rfl, hpc, rfl⟩
      · cases hs

theorem atomInv_step {locked slocked snap init} {s s' : Sys} {l : Label}
    (h : AtomInv snap init s) (hs : step locked slocked snap s l = some s') :
    AtomInv snap init s' := by
  obtain ⟨_, hc⟩ := step_cases hs
  rcases hc with ⟨_, _, _, e⟩ | ⟨c, _, _, e⟩ | ⟨b, _, _, e⟩ | ⟨_, e⟩ | ⟨j, _, e⟩ | ⟨j, _, e⟩ | ⟨_, e⟩ |
    ⟨j, _, hpc, e⟩
  · subst e; exact atomInv_frame h rfl rfl rfl rfl
  · subst e; exact atomInv_frame h rfl rfl rfl rfl
  · subst e
    cases b
    · exact atomInv_frame h rfl rfl rfl rfl
    · exact atomInv_spawn (atomInv_frame h rfl rfl rfl rfl)
  · subst e; exact atomInv_spawn h
  · exact atomInv_adv h e
  · exact atomInv_fault h e
  · subst e; exact atomInv_frame h rfl rfl rfl rfl
  · -- cancel: a queued job has no temp file
    subst e
    have hj := h.jobs j
    unfold JobOk at hj
    rw [hpc] at hj
    refine ⟨h.target, ?_, ?_⟩
    · intro i
      have hi := h.jobs i
      unfold JobOk at hi ⊢
      by_cases e : i = j
      · subst e; simp [setJob, hj]
      · simp only [setJob, e, if_false]; exact hi
    · intro i hi
      have hne : i ≠ j := by
        intro e; subst e
        have := h.fresh i hi
        rw [hpc] at this; cases this
      simp only [setJob, hne, if_false]
      exact h.fresh i hi

theorem atomInv_exec {locked slocked snap init} (ls : List Label) {s s' : Sys}
    (h : AtomInv snap init s) (hs : exec locked slocked snap ls s = some s') :
    AtomInv snap init s' := by
  induction ls generalizing s with
  | nil => simp [exec] at hs; subst hs; exact h
  | cons l ls ih =>
    simp only [exec] at hs
    split at hs
    · next s1 h1 => exact ih (atomInv_step h h1) hs
    · cases hs

/-! ### the snapshot invariant (with `state.lock`, all labels): what a save reads, carries and
    installs is a state that existed at a change boundary -/

/-- the job is inside `with self.state.lock:` -/
def Pc.inRead : Pc → Bool
  | .reading _ => true
  | .write _ _ => true
  | _ => false

def SnapOk (s : Sys) (j : Nat) : Prop :=
  match s.jobs j with
  | .reading got => s.slock = some (.job j) ∧ got = s.mem.take got.length
  | .write v _ => s.slock = some (.job j) ∧ v ∈ s.hist
  | .closing v => v ∈ s.hist
  | .replace v => v ∈ s.hist
  | _ => True

structure SnapInv (snap : Vec → Content) (init : Option Content) (s : Sys) : Prop where
  jobs : ∀ j, SnapOk s j
  holder : ∀ j, s.slock = some (.job j) → (s.jobs j).inRead = true
  chgHeld : s.chg = true → s.slock = some .changer
  heldChg : s.slock = some .changer → s.chg = true
  memHist : s.chg = false → s.hist.head? = some s.mem
  target : s.target = init ∨ ∃ v, v ∈ s.hist ∧ s.target = some (snap v)

theorem snapInv_init (snap : Vec → Content) (init : Option Content) (mem0 : Vec) :
    SnapInv snap init (initSys init mem0) := by
  refine ⟨fun _ => ?_, ?_, ?_, ?_, ?_, Or.inl rfl⟩ <;> simp [initSys, SnapOk]

theorem snapInv_spawn {snap init} {s : Sys} (ha : AtomInv snap init s)
    (h : SnapInv snap init s) : SnapInv snap init (spawn s) := by
  have hfresh := ha.fresh s.njobs (Nat.le_refl _)
  refine ⟨?_, ?_, h.chgHeld, h.heldChg, h.memHist, h.target⟩
  · intro j
    have hj := h.jobs j
    unfold SnapOk at hj ⊢
    simp only [spawn]
    by_cases e : j = s.njobs
    · subst e; simp
    · simp only [e, if_false]; exact hj
  · intro j hj
    have := h.holder j hj
    simp only [spawn] at hj ⊢
    by_cases e : j = s.njobs
    · subst e; rw [hfresh] at this; simp [Pc.inRead] at this
    · simp only [e, if_false]; exact this

/-- job `j` moves to a pc outside the reading section from one outside it; memory, history, locks
    and the state file are untouched -/
theorem snapInv_move {snap init} {s s' : Sys} {j : Nat} {pc' : Pc}
    (h : SnapInv snap init s)
    (hjobs : s'.jobs = fun i => if i = j then pc' else s.jobs i)
    (hsl : s'.slock = s.slock) (hmem : s'.mem = s.mem) (hh : s'.hist = s.hist)
    (hc : s'.chg = s.chg) (ht : s'.target = s.target)
    (hold : (s.jobs j).inRead = false)
    (hnew : match pc' with
      | .reading _ => False | .write _ _ => False | .replace v => v ∈ s.hist
      | .closing v => v ∈ s.hist | _ => True) :
    SnapInv snap init s' := by
  refine ⟨?_, ?_, by rw [hc, hsl]; exact h.chgHeld, by rw [hc, hsl]; exact h.heldChg,
    by rw [hc, hh, hmem]; exact h.memHist, by rw [ht, hh]; exact h.target⟩
  · intro i
    have hi := h.jobs i
    unfold SnapOk at hi ⊢
    rw [hjobs, hsl, hmem, hh]
    by_cases e : i = j
    · subst e
      simp only [if_true]
      cases pc' <;> simp_all
    · simp only [e, if_false]; exact hi
  · intro i hi
    rw [hsl] at hi
    have := h.holder i hi
    rw [hjobs]
    by_cases e : i = j
    · subst e; rw [hold] at this; cases this
    · simp only [e, if_false]; exact this

theorem snapInv_adv {locked snap init} {s s' : Sys} {j : Nat}
    (ha : AtomInv snap init s) (h : SnapInv snap init s)
    (hs : adv locked true snap s j = some s') : SnapInv snap init s' := by
  have hj := h.jobs j
  have hjo := ha.jobs j
  have hho := h.holder
  have hc := h.chgHeld
  have hc' := h.heldChg
  have hm := h.memHist
  have ht := h.target
  unfold adv at hs
  unfold SnapOk at hj
  unfold JobOk at hjo
  split at hs
  · cases hs
  · -- start
    next hpc =>
    split at hs
    · split at hs
      · injection hs with hs; subst hs
        exact snapInv_move (j := j) (pc' := .mktemp) h rfl rfl rfl rfl rfl rfl
          (by simp [hpc, Pc.inRead]) trivial
      · cases hs
    · injection hs with hs; subst hs
      exact snapInv_move (j := j) (pc' := .mktemp) h rfl rfl rfl rfl rfl rfl
        (by simp [hpc, Pc.inRead]) trivial
  · -- mktemp
    next hpc =>
    injection hs with hs; subst hs
    exact snapInv_move (j := j) (pc' := .snapshot) h rfl rfl rfl rfl rfl rfl
      (by simp [hpc, Pc.inRead]) trivial
  · -- snapshot: acquire state.lock
    next hpc =>
    simp only [if_true] at hs
    split at hs
    · next hsl =>
      injection hs with hs; subst hs
      have hmut : s.chg = false := by
        cases hmm : s.chg with
        | false => rfl
        | true => have := hc hmm; rw [hsl] at this; cases this
      refine ⟨?_, ?_, ?_, ?_, hm, ht⟩
      · intro i; have hi := h.jobs i; unfold SnapOk at hi ⊢
        by_cases e : i = j
        · subst e; simp [setJob]
        · simp only [setJob, e, if_false]
          split <;> simp_all
      · intro i hi
        simp only [setJob] at hi ⊢
        simp only [Option.some.injEq, Owner.job.injEq] at hi
        subst hi; simp [Pc.inRead]
      · intro hmm; simp only [setJob] at hmm; rw [hmut] at hmm; cases hmm
      · intro hh; simp [setJob] at hh
    · cases hs
  · -- reading
    next got hpc =>
    rw [hpc] at hj
    split at hs
    · next hlt =>
      injection hs with hs; subst hs
      refine ⟨?_, ?_, hc, hc', hm, ht⟩
      · intro i; have hi := h.jobs i; unfold SnapOk at hi ⊢
        by_cases e : i = j
        · subst e
          simp only [setJob, if_true]
          refine ⟨hj.1, ?_⟩
          have h2 := hj.2
          rw [List.length_append, List.length_singleton]
          rw [← take_snoc_getD s.mem got.length hlt, ← h2]
        · simp only [setJob, e, if_false]; exact hi
      · intro i hi
        have := hho i hi
        simp only [setJob] at hi ⊢
        by_cases e : i = j
        · subst e; simp [Pc.inRead]
        · simp only [e, if_false]; exact this
    · next hlt =>
      injection hs with hs; subst hs
      have hmut : s.chg = false := by
        cases hmm : s.chg with
        | false => rfl
        | true => have := hc hmm; rw [hj.1] at this; cases this
      have hgot : got = s.mem := by
        have h2 := hj.2
        rw [take_full s.mem got.length hlt] at h2; exact h2
      refine ⟨?_, ?_, hc, hc', hm, ht⟩
      · intro i; have hi := h.jobs i; unfold SnapOk at hi ⊢
        by_cases e : i = j
        · subst e
          simp only [setJob, if_true]
          exact ⟨hj.1, by rw [hgot]; exact mem_of_head? (hm hmut)⟩
        · simp only [setJob, e, if_false]; exact hi
      · intro i hi
        have := hho i hi
        simp only [setJob] at hi ⊢
        by_cases e : i = j
        · subst e; simp [Pc.inRead]
        · simp only [e, if_false]; exact this
  · -- write chunk
    next v c rest hpc =>
    rw [hpc] at hj
    injection hs with hs; subst hs
    refine ⟨?_, ?_, hc, hc', hm, ht⟩
    · intro i; have hi := h.jobs i; unfold SnapOk at hi ⊢
      by_cases e : i = j
      · subst e; simp only [setJob, setTemp, if_true]; exact hj
      · simp only [setJob, setTemp, e, if_false]; exact hi
    · intro i hi; have := hho i hi
      by_cases e : i = j <;> simp_all [setJob, setTemp, Pc.inRead]
  · -- close: release state.lock
    next v hpc =>
    rw [hpc] at hj
    injection hs with hs; subst hs
    have hmut : s.chg = false := by
      cases hmm : s.chg with
      | false => rfl
      | true => have := hc hmm; rw [hj.1] at this; cases this
    refine ⟨?_, ?_, ?_, ?_, hm, ht⟩
    · intro i; have hi := h.jobs i; unfold SnapOk at hi ⊢
      by_cases e : i = j
      · subst e; simp only [setJob, if_true]; exact hj.2
      · simp only [setJob, e, if_false]
        have hji := hj.1
        split <;> simp_all
    · intro i hi; simp [setJob] at hi
    · intro hmm; simp only [setJob] at hmm; rw [hmut] at hmm; cases hmm
    · intro hh; simp [setJob] at hh
  · -- close
    next v hpc =>
    rw [hpc] at hj
    injection hs with hs; subst hs
    exact snapInv_move (j := j) (pc' := .replace v) h rfl rfl rfl rfl rfl rfl
      (by simp [hpc, Pc.inRead]) hj
  · -- replace: installs a state that existed
    next v hpc =>
    rw [hpc] at hj hjo
    injection hs with hs; subst hs
    have := snapInv_move (s' := setJob (setTemp s j none) j (.cleanup false)) (j := j)
      (pc' := .cleanup false) h rfl rfl rfl rfl rfl rfl (by simp [hpc, Pc.inRead]) trivial
    exact ⟨this.jobs, this.holder, this.chgHeld, this.heldChg, this.memHist,
      Or.inr ⟨v, hj, by simp [setJob, setTemp, hjo]⟩⟩
  · -- cleanup
    next r hpc =>
    split at hs
    · injection hs with hs; subst hs
      exact snapInv_move (j := j) (pc' := .remove r) h rfl rfl rfl rfl rfl rfl
        (by simp [hpc, Pc.inRead]) trivial
    · injection hs with hs; subst hs
      exact snapInv_move (j := j) (pc' := .unlock (resOf r)) h rfl rfl rfl rfl rfl rfl
        (by simp [hpc, Pc.inRead]) trivial
  · -- remove
    next r hpc =>
    injection hs with hs; subst hs
    exact snapInv_move (j := j) (pc' := .unlock (resOf r)) h rfl rfl rfl rfl rfl rfl
      (by simp [hpc, Pc.inRead]) trivial
  · -- unlock
    next r hpc =>
    injection hs with hs; subst hs
    exact snapInv_move (j := j) (pc' := .done r) h rfl rfl rfl rfl rfl rfl
      (by simp [hpc, Pc.inRead]) trivial
  · cases hs

theorem snapInv_fault {snap init} {s s' : Sys} {j : Nat}
    (h : SnapInv snap init s) (hs : fault true s j = some s') : SnapInv snap init s' := by
  have hj := h.jobs j
  have hc := h.chgHeld
  have hm := h.memHist
  have ht := h.target
  unfold fault at hs
  unfold SnapOk at hj
  have release : ∀ (hin : (s.jobs j).inRead = true) (hsl : s.slock = some (.job j)) (b : Bool),
      SnapInv snap init (setJob { s with slock := none } j (.cleanup b)) := by
    intro hin hsl b
    have hmut : s.chg = false := by
      cases hmm : s.chg with
      | false => rfl
      | true => have := hc hmm; rw [hsl] at this; cases this
    refine ⟨?_, ?_, ?_, ?_, hm, ht⟩
    · intro i; have hi := h.jobs i; unfold SnapOk at hi ⊢
      by_cases e : i = j
      · subst e; simp [setJob]
      · simp only [setJob, e, if_false]
        split <;> simp_all
    · intro i hi; simp [setJob] at hi
    · intro hmm; simp only [setJob] at hmm; rw [hmut] at hmm; cases hmm
    · intro hh; simp [setJob] at hh
  split at hs
  · next hpc =>
    injection hs with hs; subst hs
    exact snapInv_move (j := j) (pc' := .unlock .raised) h rfl rfl rfl rfl rfl rfl
      (by simp [hpc, Pc.inRead]) trivial
  · next hpc =>
    injection hs with hs; subst hs
    exact snapInv_move (j := j) (pc' := .cleanup true) h rfl rfl rfl rfl rfl rfl
      (by simp [hpc, Pc.inRead]) trivial
  · next got hpc =>
    injection hs with hs; subst hs
    rw [hpc] at hj
    exact release (by simp [hpc, Pc.inRead]) hj.1 true
  · next v rest hpc =>
    injection hs with hs; subst hs
    rw [hpc] at hj
    exact release (by simp [hpc, Pc.inRead]) hj.1 true
  · next hpc =>
    injection hs with hs; subst hs
    exact snapInv_move (j := j) (pc' := .cleanup true) h rfl rfl rfl rfl rfl rfl
      (by simp [hpc, Pc.inRead]) trivial
  · next hpc =>
    injection hs with hs; subst hs
    exact snapInv_move (j := j) (pc' := .cleanup true) h rfl rfl rfl rfl rfl rfl
      (by simp [hpc, Pc.inRead]) trivial
  · next hpc =>
    injection hs with hs; subst hs
    exact snapInv_move (j := j) (pc' := .unlock .cleanupRaised) h rfl rfl rfl rfl rfl rfl
      (by simp [hpc, Pc.inRead]) trivial
  · next hpc =>
    injection hs with hs; subst hs
    exact snapInv_move (j := j) (pc' := .unlock .cleanupRaised) h rfl rfl rfl rfl rfl rfl
      (by simp [hpc, Pc.inRead]) trivial
  · cases hs

theorem snapInv_step {locked snap init} {s s' : Sys} {l : Label}
    (ha : AtomInv snap init s) (h : SnapInv snap init s)
    (hs : step locked true snap s l = some s') : SnapInv snap init s' := by
  obtain ⟨_, hc⟩ := step_cases hs
  rcases hc with ⟨_, hm, hsl, e⟩ | ⟨c, _, hm, e⟩ | ⟨b, _, hm, e⟩ | ⟨_, e⟩ | ⟨j, _, e⟩ |
    ⟨j, _, e⟩ | ⟨_, e⟩ | ⟨j, _, hpc, e⟩
  · -- mbegin: the changer takes state.lock; nobody is reading
    subst e
    have hsl := hsl rfl
    refine ⟨?_, ?_, ?_, ?_, ?_, h.target⟩
    · intro i; have hi := h.jobs i; unfold SnapOk at hi ⊢
      simp only [if_true]
      split <;> simp_all
    · intro i hi; simp at hi
    · intro _; simp
    · intro _; rfl
    · intro hh; simp at hh
  · -- mwrite: only the changer, holding the lock, stores into memory
    subst e
    have hsl := h.chgHeld hm
    refine ⟨?_, ?_, h.chgHeld, h.heldChg, ?_, h.target⟩
    · intro i; have hi := h.jobs i; unfold SnapOk at hi ⊢
      simp only
      split <;> simp_all
    · intro i hi; exact h.holder i hi
    · intro hh; simp only at hh; rw [hm] at hh; cases hh
  · -- mend: the new memory becomes a state that existed
    subst e
    have hsl := h.chgHeld hm
    have base : SnapInv snap init { s with chg := false, hist := s.mem :: s.hist, slock := none } := by
      refine ⟨?_, ?_, ?_, ?_, ?_, ?_⟩
      · intro i; have hi := h.jobs i; unfold SnapOk at hi ⊢
        simp only
        split <;> simp_all
      · intro i hi; simp at hi
      · intro hh; simp at hh
      · intro hh; simp at hh
      · intro _; rfl
      · rcases h.target with t | ⟨v, hv, t⟩
        · exact Or.inl t
        · exact Or.inr ⟨v, by simp [hv], t⟩
    cases b
    · simpa using base
    · simp only [if_true]
      exact snapInv_spawn (atomInv_frame ha rfl rfl rfl rfl) base
  · subst e; exact snapInv_spawn ha h
  · exact snapInv_adv ha h e
  · exact snapInv_fault h e
  · subst e
    exact ⟨h.jobs, h.holder, h.chgHeld, h.heldChg, h.memHist, h.target⟩
  · subst e
    exact snapInv_move (j := j) (pc' := .done .cancelled) h rfl rfl rfl rfl rfl rfl
      (by simp [hpc, Pc.inRead]) trivial

theorem snapInv_exec {locked snap init} (ls : List Label) {s s' : Sys}
    (ha : AtomInv snap init s) (h : SnapInv snap init s)
    (hs : exec locked true snap ls s = some s') : SnapInv snap init s' := by
  induction ls generalizing s with
  | nil => simp [exec] at hs; subst hs; exact h
  | cons l ls ih =>
    simp only [exec] at hs
    split at hs
    · next s1 h1 => exact ih (atomInv_step ha h1) (snapInv_step ha h h1) hs
    · cases hs

/-! ### mutual exclusion on the persist lock (locked relation, all labels) -/

/-- the job is inside `with self._persist_lock:` -/
def Pc.inCS : Pc → Bool
  | .mktemp => true
  | .snapshot => true
  | .reading _ => true
  | .write _ _ => true
  | .closing _ => true
  | .replace _ => true
  | .cleanup _ => true
  | .remove _ => true
  | .unlock _ => true
  | _ => false

/-- the job will still read the state -/
def Pc.pre : Pc → Bool
  | .start => true
  | .mktemp => true
  | .snapshot => true
  | .reading _ => true
  | _ => false

/-- the snapshot the job holds and has not yet installed -/
def Pc.carries : Pc → Option Vec
  | .write v _ => some v
  | .closing v => some v
  | .replace v => some v
  | _ => none

theorem Pc.inCS_of_carries {pc : Pc} {v : Vec} (h : pc.carries = some v) : pc.inCS = true := by
  cases pc <;> simp_all [Pc.carries, Pc.inCS]

theorem Pc.inCS_of_inRead {pc : Pc} (h : pc.inRead = true) : pc.inCS = true := by
  cases pc <;> simp_all [Pc.inRead, Pc.inCS]

def Mutex (s : Sys) : Prop := ∀ j, (s.jobs j).inCS = true → s.lock = some j

theorem mutex_init (init : Option Content) (mem0 : Vec) : Mutex (initSys init mem0) := by
  intro j h; simp [initSys, Pc.inCS] at h

theorem mutex_unique {s : Sys} (h : Mutex s) {i j : Nat}
    (hi : (s.jobs i).inCS = true) (hj : (s.jobs j).inCS = true) : i = j := by
  have a := h i hi
  have b := h j hj
  rw [a] at b
  exact Option.some.inj b

theorem mutex_frame {s s' : Sys} (h : Mutex s) (hj : s'.jobs = s.jobs) (hl : s'.lock = s.lock) :
    Mutex s' := by
  intro j; rw [hj, hl]; exact h j

theorem mutex_spawn {s : Sys} (h : Mutex s) : Mutex (spawn s) := by
  intro j hj
  simp only [spawn] at hj ⊢
  by_cases e : j = s.njobs
  · simp [e, Pc.inCS] at hj
  · simp only [e, if_false] at hj
    exact h j hj

theorem mutex_adv {slocked snap} {s s' : Sys} {j : Nat}
    (h : Mutex s) (hs : adv true slocked snap s j = some s') : Mutex s' := by
  unfold adv at hs
  split at hs
  all_goals (try split at hs)
  all_goals (try split at hs)
  all_goals (first | (cases hs; done) | skip)
  all_goals
    injection hs with hs
    subst hs
    intro i hi
    have hm := h i
    have hmj := h j
    by_cases e : i = j
    · subst e
      simp_all [setJob, setTemp, Pc.inCS]
    · simp_all [setJob, setTemp, Pc.inCS] <;> grind

theorem mutex_fault {slocked} {s s' : Sys} {j : Nat}
    (h : Mutex s) (hs : fault slocked s j = some s') : Mutex s' := by
  unfold fault at hs
  split at hs
  all_goals (first | (cases hs; done) | skip)
  all_goals
    injection hs with hs
    subst hs
    intro i hi
    have hm := h i
    have hmj := h j
    by_cases e : i = j
    · subst e
      simp_all [setJob, setTemp, Pc.inCS]
    · simp_all [setJob, setTemp, Pc.inCS]

theorem mutex_step {slocked snap} {s s' : Sys} {l : Label}
    (h : Mutex s) (hs : step true slocked snap s l = some s') : Mutex s' := by
  obtain ⟨_, hc⟩ := step_cases hs
  rcases hc with ⟨_, _, _, e⟩ | ⟨c, _, _, e⟩ | ⟨b, _, _, e⟩ | ⟨_, e⟩ | ⟨j, _, e⟩ | ⟨j, _, e⟩ | ⟨_, e⟩ |
    ⟨j, _, hpc, e⟩
  · subst e; exact mutex_frame h rfl rfl
  · subst e; exact mutex_frame h rfl rfl
  · subst e
    cases b
    · exact mutex_frame h rfl rfl
    · exact mutex_spawn (mutex_frame h rfl rfl)
  · subst e; exact mutex_spawn h
  · exact mutex_adv h e
  · exact mutex_fault h e
  · subst e; exact mutex_frame h rfl rfl
  · subst e
    intro i hi
    by_cases e : i = j
    · subst e; simp [setJob, Pc.inCS] at hi
    · simp only [setJob, e, if_false] at hi ⊢; exact h i hi

theorem mutex_exec {slocked snap} (ls : List Label) {s s' : Sys}
    (h : Mutex s) (hs : exec true slocked snap ls s = some s') : Mutex s' := by
  induction ls generalizing s with
  | nil => simp [exec] at hs; subst hs; exact h
  | cons l ls ih =>
    simp only [exec] at hs
    split at hs
    · next s1 h1 => exact ih (mutex_step h h1) hs
    · cases hs

/-! ### the persist lock is held only by a job inside the critical section; progress -/

def Held (s : Sys) : Prop := ∀ j, s.lock = some j → (s.jobs j).inCS = true

theorem held_init (init : Option Content) (mem0 : Vec) : Held (initSys init mem0) := by
  intro j h; simp [initSys] at h

theorem held_frame {s s' : Sys} (h : Held s) (hj : s'.jobs = s.jobs) (hl : s'.lock = s.lock) :
    Held s' := by
  intro j; rw [hj, hl]; exact h j

theorem held_spawn {snap init} {s : Sys} (ha : AtomInv snap init s) (h : Held s) :
    Held (spawn s) := by
  intro j hj
  simp only [spawn] at hj ⊢
  have hcs := h j hj
  by_cases e : j = s.njobs
  · subst e
    have := ha.fresh s.njobs (Nat.le_refl _)
    rw [this] at hcs
    simp [Pc.inCS] at hcs
  · simp only [e, if_false]
    exact hcs

theorem held_adv {slocked snap} {s s' : Sys} {j : Nat}
    (hm : Mutex s) (h : Held s) (hs : adv true slocked snap s j = some s') : Held s' := by
  unfold adv at hs
  split at hs
  all_goals (try split at hs)
  all_goals (try split at hs)
  all_goals (first | (cases hs; done) | skip)
  all_goals
    injection hs with hs
    subst hs
    intro i hi
    have hh := h i
    have hmj := hm j
    by_cases e : i = j
    · subst e
      simp_all [setJob, setTemp, Pc.inCS]
    · simp_all [setJob, setTemp, Pc.inCS]

theorem held_fault {slocked} {s s' : Sys} {j : Nat}
    (h : Held s) (hs : fault slocked s j = some s') : Held s' := by
  unfold fault at hs
  split at hs
  all_goals (first | (cases hs; done) | skip)
  all_goals
    injection hs with hs
    subst hs
    intro i hi
    have hh := h i
    by_cases e : i = j
    · subst e
      simp_all [setJob, setTemp, Pc.inCS]
    · simp_all [setJob, setTemp, Pc.inCS]

theorem held_step {slocked snap init} {s s' : Sys} {l : Label}
    (ha : AtomInv snap init s) (hm : Mutex s) (h : Held s)
    (hs : step true slocked snap s l = some s') : Held s' := by
  obtain ⟨_, hc⟩ := step_cases hs
  rcases hc with ⟨_, _, _, e⟩ | ⟨c, _, _, e⟩ | ⟨b, _, _, e⟩ | ⟨_, e⟩ | ⟨j, _, e⟩ | ⟨j, _, e⟩ | ⟨_, e⟩ |
    ⟨j, _, hpc, e⟩
  · subst e; exact held_frame h rfl rfl
  · subst e; exact held_frame h rfl rfl
  · subst e
    cases b
    · exact held_frame h rfl rfl
    · exact held_spawn (atomInv_frame ha rfl rfl rfl rfl) (held_frame h rfl rfl)
  · subst e; exact held_spawn ha h
  · exact held_adv hm h e
  · exact held_fault h e
  · subst e; exact held_frame h rfl rfl
  · subst e
    intro i hi
    have := h i hi
    by_cases e : i = j
    · subst e; rw [hpc] at this; simp [Pc.inCS] at this
    · simp only [setJob, e, if_false]; exact this

theorem held_exec {slocked snap init} (ls : List Label) {s s' : Sys}
    (ha : AtomInv snap init s) (hm : Mutex s) (h : Held s)
    (hs : exec true slocked snap ls s = some s') : Held s' := by
  induction ls generalizing s with
  | nil => simp [exec] at hs; subst hs; exact h
  | cons l ls ih =>
    simp only [exec] at hs
    split at hs
    · next s1 h1 => exact ih (atomInv_step ha h1) (mutex_step hm h1) (held_step ha hm h h1) hs
    · cases hs

/-- a job inside the critical section can always take its next step, except that at `snapshot` it
    needs `state.lock` to be free -/
theorem adv_enabled_of_inCS {snap} {s : Sys} {j : Nat} (h : (s.jobs j).inCS = true)
    (hsn : s.jobs j = .snapshot → s.slock = none) :
    ∃ s', adv true true snap s j = some s' := by
  unfold adv
  split <;> simp_all [Pc.inCS]
  all_goals (split <;> simp)

/-! ### convergence invariant (both locks, quiet labels) -/

/-- Either nothing was ever submitted, or some job will still read the state, or the persist-lock
    holder carries the latest state, or the file already holds the latest state and nobody is about
    to overwrite it. -/
def Conv (snap : Vec → Content) (s : Sys) : Prop :=
  (∀ j, s.jobs j = .unspawned) ∨ (∃ j, (s.jobs j).pre = true) ∨
  (∃ j, (s.jobs j).carries = some (latest s)) ∨
  (s.target = some (snap (latest s)) ∧ ∀ j, (s.jobs j).carries = none)

theorem conv_init (snap : Vec → Content) (init : Option Content) (mem0 : Vec) :
    Conv snap (initSys init mem0) :=
  Or.inl fun _ => rfl

theorem conv_spawn {snap} {s : Sys} : Conv snap (spawn s) := by
  refine Or.inr (Or.inl ⟨s.njobs, ?_⟩)
  simp [spawn, Pc.pre]

theorem conv_frame {snap} {s s' : Sys} (h : Conv snap s) (hj : s'.jobs = s.jobs)
    (hh : s'.hist = s.hist) (ht : s'.target = s.target) : Conv snap s' := by
  unfold Conv latest at h ⊢
  rw [hj, hh, ht]; exact h

/-- frame lemma: job `j` moves from a spawned pc to `pc'`, target and history unchanged -/
theorem conv_update {snap} {s s' : Sys} {j : Nat} {pc' : Pc}
    (h : Conv snap s) (hv : s'.hist = s.hist) (ht : s'.target = s.target)
    (hjobs : s'.jobs = fun i => if i = j then pc' else s.jobs i)
    (hsp : s.jobs j ≠ .unspawned)
    (hpre : (s.jobs j).pre = true → pc'.pre = true ∨ pc'.carries = some (latest s))
    (hcar : (s.jobs j).carries = some (latest s) → pc'.carries = some (latest s))
    (hnone : (s.jobs j).carries = none →
      pc'.carries = none ∨ pc'.pre = true ∨ pc'.carries = some (latest s)) : Conv snap s' := by
  have hj' : s'.jobs j = pc' := by simp [hjobs]
  have hi' : ∀ i, i ≠ j → s'.jobs i = s.jobs i := by intro i hi; simp [hjobs, hi]
  have hl : latest s' = latest s := by unfold latest; rw [hv]
  rcases h with h | ⟨i, h⟩ | ⟨i, h⟩ | ⟨h1, h2⟩
  · exact absurd (h j) hsp
  · by_cases e : i = j
    · subst e
      rcases hpre h with p | p
      · exact Or.inr (Or.inl ⟨i, by rw [hj']; exact p⟩)
      · exact Or.inr (Or.inr (Or.inl ⟨i, by rw [hj', hl]; exact p⟩))
    · exact Or.inr (Or.inl ⟨i, by rw [hi' i e]; exact h⟩)
  · by_cases e : i = j
    · subst e
      exact Or.inr (Or.inr (Or.inl ⟨i, by rw [hj', hl]; exact hcar h⟩))
    · exact Or.inr (Or.inr (Or.inl ⟨i, by rw [hi' i e, hl]; exact h⟩))
  · rcases hnone (h2 j) with p | p | p
    · refine Or.inr (Or.inr (Or.inr ⟨by rw [ht, hl]; exact h1, ?_⟩))
      intro i
      by_cases e : i = j
      · subst e; rw [hj']; exact p
      · rw [hi' i e]; exact h2 i
    · exact Or.inr (Or.inl ⟨j, by rw [hj']; exact p⟩)
    · exact Or.inr (Or.inr (Or.inl ⟨j, by rw [hj', hl]; exact p⟩))

theorem conv_adv {snap init} {s s' : Sys} {j : Nat}
    (ha : AtomInv snap init s) (hsn : SnapInv snap init s) (hm : Mutex s) (h : Conv snap s)
    (hs : adv true true snap s j = some s') : Conv snap s' := by
  have hj := ha.jobs j
  have hsj := hsn.jobs j
  unfold JobOk at hj
  unfold SnapOk at hsj
  unfold adv at hs
  split at hs
  · cases hs
  · -- start: acquire
    next hpc =>
    split at hs
    · split at hs
      · injection hs with hs; subst hs
        exact conv_update (j := j) (pc' := .mktemp) h rfl rfl rfl (by simp [hpc])
          (by simp [Pc.pre]) (by simp [hpc, Pc.carries]) (by simp [Pc.pre])
      · cases hs
    · contradiction
  · next hpc =>
    injection hs with hs; subst hs
    exact conv_update (j := j) (pc' := .snapshot) h rfl rfl rfl (by simp [hpc])
      (by simp [Pc.pre]) (by simp [hpc, Pc.carries]) (by simp [Pc.pre])
  · -- snapshot: acquire state.lock
    next hpc =>
    simp only [if_true] at hs
    split at hs
    · injection hs with hs; subst hs
      exact conv_update (j := j) (pc' := .reading []) h rfl rfl rfl (by simp [hpc])
        (by simp [Pc.pre]) (by simp [hpc, Pc.carries]) (by simp [Pc.pre])
    · cases hs
  · -- reading
    next got hpc =>
    rw [hpc] at hsj
    split at hs
    · injection hs with hs; subst hs
      exact conv_update (j := j) (pc' := .reading _) h rfl rfl rfl (by simp [hpc])
        (by simp [Pc.pre]) (by simp [hpc, Pc.carries]) (by simp [Pc.pre])
    · next hlt =>
      injection hs with hs; subst hs
      -- the last read: what was read is the latest state, because nobody could change memory
      have hmut : s.chg = false := by
        cases hmm : s.chg with
        | false => rfl
        | true => have := hsn.chgHeld hmm; rw [hsj.1] at this; cases this
      have hgot : got = latest s := by
        have h2 := hsj.2
        rw [take_full s.mem got.length hlt] at h2
        rw [h2]; exact (headD_of_head? (hsn.memHist hmut)).symm
      exact conv_update (j := j) (pc' := .write got (snap got)) h rfl rfl rfl (by simp [hpc])
        (by simp [Pc.carries, hgot]) (by simp [hpc, Pc.carries]) (by simp [Pc.carries, hgot])
  · next v c rest hpc =>
    injection hs with hs; subst hs
    exact conv_update (j := j) (pc' := .write v rest) h rfl rfl rfl (by simp [hpc])
      (by simp [hpc, Pc.pre]) (by simp [hpc, Pc.carries]) (by simp [hpc, Pc.carries])
  · next v hpc =>
    injection hs with hs; subst hs
    exact conv_update (j := j) (pc' := .closing v) h rfl rfl rfl (by simp [hpc])
      (by simp [hpc, Pc.pre]) (by simp [hpc, Pc.carries]) (by simp [hpc, Pc.carries])
  · next v hpc =>
    injection hs with hs; subst hs
    exact conv_update (j := j) (pc' := .replace v) h rfl rfl rfl (by simp [hpc])
      (by simp [hpc, Pc.pre]) (by simp [hpc, Pc.carries]) (by simp [hpc, Pc.carries])
  · -- replace: the only step that changes the target
    next v hpc =>
    injection hs with hs; subst hs
    rw [hpc] at hj
    have hcs : (s.jobs j).inCS = true := by simp [hpc, Pc.inCS]
    have others : ∀ i, i ≠ j → (s.jobs i).carries = none := by
      intro i hi
      cases hc : (s.jobs i).carries with
      | none => rfl
      | some w => exact absurd (mutex_unique hm (Pc.inCS_of_carries hc) hcs) hi
    have hl : latest (setJob { setTemp s j none with target := s.temps j } j (.cleanup false))
        = latest s := rfl
    unfold Conv
    rw [hl]
    rcases h with h | ⟨i, h⟩ | ⟨i, h⟩ | ⟨_, h2⟩
    · exact absurd (h j) (by simp [hpc])
    · have e : i ≠ j := by intro e; subst e; simp [hpc, Pc.pre] at h
      exact Or.inr (Or.inl ⟨i, by simp [setJob, setTemp, e]; exact h⟩)
    · have e : i = j := by
        apply Classical.byContradiction; intro e
        rw [others i e] at h; cases h
      subst e
      rw [hpc] at h
      simp only [Pc.carries, Option.some.injEq] at h
      subst h
      refine Or.inr (Or.inr (Or.inr ⟨by simp [setJob, setTemp, hj], ?_⟩))
      intro k
      by_cases e : k = i
      · subst e; simp [setJob, Pc.carries]
      · simp [setJob, setTemp, e]; exact others k e
    · have := h2 j
      simp [hpc, Pc.carries] at this
  · -- cleanup
    next r hpc =>
    split at hs
    · injection hs with hs; subst hs
      exact conv_update (j := j) (pc' := .remove r) h rfl rfl rfl (by simp [hpc])
        (by simp [hpc, Pc.pre]) (by simp [hpc, Pc.carries]) (by simp [Pc.carries])
    · injection hs with hs; subst hs
      exact conv_update (j := j) (pc' := .unlock (resOf r)) h rfl rfl rfl (by simp [hpc])
        (by simp [hpc, Pc.pre]) (by simp [hpc, Pc.carries]) (by simp [Pc.carries])
  · next r hpc =>
    injection hs with hs; subst hs
    exact conv_update (j := j) (pc' := .unlock (resOf r)) h rfl rfl rfl (by simp [hpc])
      (by simp [hpc, Pc.pre]) (by simp [hpc, Pc.carries]) (by simp [Pc.carries])
  · next r hpc =>
    injection hs with hs; subst hs
    exact conv_update (j := j) (pc' := .done r) h rfl rfl rfl (by simp [hpc])
      (by simp [hpc, Pc.pre]) (by simp [hpc, Pc.carries]) (by simp [Pc.carries])
  · cases hs

theorem conv_step {snap init} {s s' : Sys} {l : Label}
    (ha : AtomInv snap init s) (hsn : SnapInv snap init s) (hm : Mutex s) (h : Conv snap s)
    (hq : l.quiet = true) (hs : step true true snap s l = some s') : Conv snap s' := by
  obtain ⟨_, hc⟩ := step_cases hs
  rcases hc with ⟨_, _, _, e⟩ | ⟨c, _, _, e⟩ | ⟨b, hl, _, e⟩ | ⟨_, e⟩ | ⟨j, _, e⟩ | ⟨j, hl, e⟩ |
    ⟨hl, e⟩ | ⟨j, hl, _, e⟩
  · subst e; exact conv_frame h rfl rfl rfl
  · subst e; exact conv_frame h rfl rfl rfl
  · subst e
    cases b
    · subst hl; simp [Label.quiet] at hq
    · exact conv_spawn
  · subst e; exact conv_spawn
  · exact conv_adv ha hsn hm h e
  · subst hl; simp [Label.quiet] at hq
  · subst hl; simp [Label.quiet] at hq
  · subst hl; simp [Label.quiet] at hq

theorem conv_exec {snap init} (ls : List Label) {s s' : Sys}
    (ha : AtomInv snap init s) (hsn : SnapInv snap init s) (hm : Mutex s) (h : Conv snap s)
    (hq : ∀ l ∈ ls, l.quiet = true)
    (hs : exec true true snap ls s = some s') : Conv snap s' := by
  induction ls generalizing s with
  | nil => simp [exec] at hs; subst hs; exact h
  | cons l ls ih =>
    simp only [exec] at hs
    split at hs
    · next s1 h1 =>
      exact ih (atomInv_step ha h1) (snapInv_step ha hsn h1) (mutex_step hm h1)
        (conv_step ha hsn hm h (hq l (by simp)) h1) (fun l' hl' => hq l' (by simp [hl'])) hs
    · cases hs

/-! ### convergence without `state.lock` (persist lock only, quiet labels): the last change's own job
    reads after it, whatever was read in between -/

/-- the job has not begun to read the state -/
def Pc.early : Pc → Bool
  | .start => true
  | .mktemp => true
  | .snapshot => true
  | _ => false

/-- what the job has read so far, or carries, agrees with the present memory -/
def Pc.good (mem : Vec) : Pc → Prop
  | .reading got => got = mem.take got.length
  | pc => pc.carries = some mem

/-- the job is neither reading nor carrying a snapshot -/
def Pc.idle : Pc → Bool
  | .reading _ => false
  | .write _ _ => false
  | .closing _ => false
  | .replace _ => false
  | _ => true

theorem Pc.inCS_of_not_idle {pc : Pc} (h : pc.idle = false) : pc.inCS = true := by
  cases pc <;> simp_all [Pc.idle, Pc.inCS]

def ConvU (snap : Vec → Content) (s : Sys) : Prop :=
  (∀ j, s.jobs j = .unspawned) ∨ s.chg = true ∨ (∃ j, (s.jobs j).early = true) ∨
  (∃ j, (s.jobs j).good s.mem) ∨ (s.target = some (snap s.mem) ∧ ∀ j, (s.jobs j).idle = true)

theorem convU_init (snap : Vec → Content) (init : Option Content) (mem0 : Vec) :
    ConvU snap (initSys init mem0) :=
  Or.inl fun _ => rfl

theorem convU_spawn {snap} {s : Sys} : ConvU snap (spawn s) := by
  refine Or.inr (Or.inr (Or.inl ⟨s.njobs, ?_⟩))
  simp [spawn, Pc.early]

/-- frame lemma: job `j` moves from a spawned pc to `pc'`; memory, `chg` and the target are unchanged -/
theorem convU_update {snap} {s s' : Sys} {j : Nat} {pc' : Pc}
    (h : ConvU snap s) (hm : s'.mem = s.mem) (hc : s'.chg = s.chg) (ht : s'.target = s.target)
    (hjobs : s'.jobs = fun i => if i = j then pc' else s.jobs i)
    (hsp : s.jobs j ≠ .unspawned)
    (hearly : (s.jobs j).early = true → pc'.early = true ∨ pc'.good s.mem)
    (hgood : (s.jobs j).good s.mem → pc'.good s.mem)
    (hidle : (s.jobs j).idle = true → pc'.idle = true ∨ pc'.early = true ∨ pc'.good s.mem) :
    ConvU snap s' := by
  have hj' : s'.jobs j = pc' := by simp [hjobs]
  have hi' : ∀ i, i ≠ j → s'.jobs i = s.jobs i := by intro i hi; simp [hjobs, hi]
  unfold ConvU
  rw [hm, hc, ht]
  rcases h with h | h | ⟨i, h⟩ | ⟨i, h⟩ | ⟨h1, h2⟩
  · exact absurd (h j) hsp
  · exact Or.inr (Or.inl h)
  · by_cases e : i = j
    · subst e
      rcases hearly h with p | p
      · exact Or.inr (Or.inr (Or.inl ⟨i, by rw [hj']; exact p⟩))
      · exact Or.inr (Or.inr (Or.inr (Or.inl ⟨i, by rw [hj']; exact p⟩)))
    · exact Or.inr (Or.inr (Or.inl ⟨i, by rw [hi' i e]; exact h⟩))
  · by_cases e : i = j
    · subst e
      exact Or.inr (Or.inr (Or.inr (Or.inl ⟨i, by rw [hj']; exact hgood h⟩)))
    · exact Or.inr (Or.inr (Or.inr (Or.inl ⟨i, by rw [hi' i e]; exact h⟩)))
  · rcases hidle (h2 j) with p | p | p
    · refine Or.inr (Or.inr (Or.inr (Or.inr ⟨h1, ?_⟩)))
      intro i
      by_cases e : i = j
      · subst e; rw [hj']; exact p
      · rw [hi' i e]; exact h2 i
    · exact Or.inr (Or.inr (Or.inl ⟨j, by rw [hj']; exact p⟩))
    · exact Or.inr (Or.inr (Or.inr (Or.inl ⟨j, by rw [hj']; exact p⟩)))

theorem convU_adv {snap init} {s s' : Sys} {j : Nat}
    (ha : AtomInv snap init s) (hm : Mutex s) (h : ConvU snap s)
    (hs : adv true false snap s j = some s') : ConvU snap s' := by
  have hj := ha.jobs j
  unfold JobOk at hj
  unfold adv at hs
  split at hs
  · cases hs
  · -- start: acquire
    next hpc =>
    split at hs
    · split at hs
      · injection hs with hs; subst hs
        exact convU_update (j := j) (pc' := .mktemp) h rfl rfl rfl rfl (by simp [hpc])
          (by simp [Pc.early]) (by simp [hpc, Pc.good, Pc.carries]) (by simp [Pc.early])
      · cases hs
    · contradiction
  · next hpc =>
    injection hs with hs; subst hs
    exact convU_update (j := j) (pc' := .snapshot) h rfl rfl rfl rfl (by simp [hpc])
      (by simp [Pc.early]) (by simp [hpc, Pc.good, Pc.carries]) (by simp [Pc.early])
  · -- snapshot: no state.lock to take; the job has read nothing yet
    next hpc =>
    simp only [Bool.false_eq_true, if_false] at hs
    injection hs with hs; subst hs
    exact convU_update (j := j) (pc' := .reading []) h rfl rfl rfl rfl (by simp [hpc])
      (by simp [Pc.good]) (by simp [hpc, Pc.good, Pc.carries]) (by simp [Pc.good])
  · -- reading
    next got hpc =>
    split at hs
    · next hlt =>
      injection hs with hs; subst hs
      refine convU_update (j := j) (pc' := .reading _) h rfl rfl rfl rfl (by simp [hpc])
        (by simp [hpc, Pc.early]) ?_ (by simp [hpc, Pc.idle])
      intro hg
      rw [hpc] at hg
      simp only [Pc.good] at hg ⊢
      rw [List.length_append, List.length_singleton]
      rw [← take_snoc_getD s.mem got.length hlt, ← hg]
    · next hlt =>
      injection hs with hs; subst hs
      refine convU_update (j := j) (pc' := .write got (snap got)) h rfl rfl rfl rfl (by simp [hpc])
        (by simp [hpc, Pc.early]) ?_ (by simp [hpc, Pc.idle])
      intro hg
      rw [hpc] at hg
      simp only [Pc.good] at hg
      rw [take_full s.mem got.length hlt] at hg
      simp [Pc.good, Pc.carries, hg]
  · next v c rest hpc =>
    injection hs with hs; subst hs
    exact convU_update (j := j) (pc' := .write v rest) h rfl rfl rfl rfl (by simp [hpc])
      (by simp [hpc, Pc.early]) (by simp [hpc, Pc.good, Pc.carries]) (by simp [hpc, Pc.idle])
  · next v hpc =>
    simp only [Bool.false_eq_true, if_false] at hs
    injection hs with hs; subst hs
    exact convU_update (j := j) (pc' := .closing v) h rfl rfl rfl rfl (by simp [hpc])
      (by simp [hpc, Pc.early]) (by simp [hpc, Pc.good, Pc.carries]) (by simp [hpc, Pc.idle])
  · next v hpc =>
    injection hs with hs; subst hs
    exact convU_update (j := j) (pc' := .replace v) h rfl rfl rfl rfl (by simp [hpc])
      (by simp [hpc, Pc.early]) (by simp [hpc, Pc.good, Pc.carries]) (by simp [hpc, Pc.idle])
  · -- replace: the only step that changes the target
    next v hpc =>
    injection hs with hs; subst hs
    rw [hpc] at hj
    have hcs : (s.jobs j).inCS = true := by simp [hpc, Pc.inCS]
    have others : ∀ i, i ≠ j → (s.jobs i).idle = true := by
      intro i hi
      cases hc : (s.jobs i).idle with
      | true => rfl
      | false => exact absurd (mutex_unique hm (Pc.inCS_of_not_idle hc) hcs) hi
    unfold ConvU
    rcases h with h | h | ⟨i, h⟩ | ⟨i, h⟩ | ⟨_, h2⟩
    · exact absurd (h j) (by simp [hpc])
    · exact Or.inr (Or.inl h)
    · have e : i ≠ j := by intro e; subst e; simp [hpc, Pc.early] at h
      exact Or.inr (Or.inr (Or.inl ⟨i, by simp [setJob, setTemp, e]; exact h⟩))
    · by_cases e : i = j
      · subst e
        rw [hpc] at h
        simp only [Pc.good, Pc.carries, Option.some.injEq] at h
        subst h
        refine Or.inr (Or.inr (Or.inr (Or.inr ⟨by simp [setJob, setTemp, hj], ?_⟩)))
        intro k
        by_cases e : k = i
        · subst e; simp [setJob, Pc.idle]
        · simp [setJob, setTemp, e]; exact others k e
      · exact Or.inr (Or.inr (Or.inr (Or.inl ⟨i, by simp [setJob, setTemp, e]; exact h⟩)))
    · have := h2 j
      simp [hpc, Pc.idle] at this
  · -- cleanup
    next r hpc =>
    split at hs
    · injection hs with hs; subst hs
      exact convU_update (j := j) (pc' := .remove r) h rfl rfl rfl rfl (by simp [hpc])
        (by simp [hpc, Pc.early]) (by simp [hpc, Pc.good, Pc.carries]) (by simp [Pc.idle])
    · injection hs with hs; subst hs
      exact convU_update (j := j) (pc' := .unlock (resOf r)) h rfl rfl rfl rfl (by simp [hpc])
        (by simp [hpc, Pc.early]) (by simp [hpc, Pc.good, Pc.carries]) (by simp [Pc.idle])
  · next r hpc =>
    injection hs with hs; subst hs
    exact convU_update (j := j) (pc' := .unlock (resOf r)) h rfl rfl rfl rfl (by simp [hpc])
      (by simp [hpc, Pc.early]) (by simp [hpc, Pc.good, Pc.carries]) (by simp [Pc.idle])
  · next r hpc =>
    injection hs with hs; subst hs
    exact convU_update (j := j) (pc' := .done r) h rfl rfl rfl rfl (by simp [hpc])
      (by simp [hpc, Pc.early]) (by simp [hpc, Pc.good, Pc.carries]) (by simp [Pc.idle])
  · cases hs

theorem convU_step {snap init} {s s' : Sys} {l : Label}
    (ha : AtomInv snap init s) (hm : Mutex s) (h : ConvU snap s)
    (hq : l.quiet = true) (hs : step true false snap s l = some s') : ConvU snap s' := by
  obtain ⟨_, hc⟩ := step_cases hs
  rcases hc with ⟨_, _, _, e⟩ | ⟨c, _, hch, e⟩ | ⟨b, hl, _, e⟩ | ⟨_, e⟩ | ⟨j, _, e⟩ | ⟨j, hl, e⟩ |
    ⟨hl, e⟩ | ⟨j, hl, _, e⟩
  · subst e; exact Or.inr (Or.inl rfl)
  · subst e; exact Or.inr (Or.inl hch)
  · subst e
    cases b
    · subst hl; simp [Label.quiet] at hq
    · exact convU_spawn
  · subst e; exact convU_spawn
  · exact convU_adv ha hm h e
  · subst hl; simp [Label.quiet] at hq
  · subst hl; simp [Label.quiet] at hq
  · subst hl; simp [Label.quiet] at hq

theorem convU_exec {snap init} (ls : List Label) {s s' : Sys}
    (ha : AtomInv snap init s) (hm : Mutex s) (h : ConvU snap s)
    (hq : ∀ l ∈ ls, l.quiet = true)
    (hs : exec true false snap ls s = some s') : ConvU snap s' := by
  induction ls generalizing s with
  | nil => simp [exec] at hs; subst hs; exact h
  | cons l ls ih =>
    simp only [exec] at hs
    split at hs
    · next s1 h1 =>
      exact ih (atomInv_step ha h1) (mutex_step hm h1)
        (convU_step ha hm h (hq l (by simp)) h1) (fun l' hl' => hq l' (by simp [hl'])) hs
    · cases hs
end Hap.Persist
