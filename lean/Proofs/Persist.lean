/-
  Invariants of the Persist step relation (lemmas for Props/C15.lean).
-/
import HapModel.Persist
namespace Hap.Persist
set_option linter.unusedSimpArgs false

/-! ### atomicity invariant (any `locked`, all labels) -/

/-- what the temp file of job `j` looks like, by program counter -/
def JobOk (snap : Nat → Content) (s : Sys) (j : Nat) : Prop :=
  match s.jobs j with
  | .unspawned => s.temps j = none
  | .start => s.temps j = none
  | .mktemp => s.temps j = none
  | .snapshot => s.temps j = some []
  | .write v rest => v ≤ s.ver ∧ ∃ cur, s.temps j = some cur ∧ cur ++ rest = snap v
  | .replace v => v ≤ s.ver ∧ s.temps j = some (snap v)
  | .cleanup _ => True
  | .remove _ => True
  | .unlock r => r ≠ .cleanupRaised → s.temps j = none
  | .done r => r ≠ .cleanupRaised → s.temps j = none

structure AtomInv (snap : Nat → Content) (init : Option Content) (s : Sys) : Prop where
  target : s.target = init ∨ ∃ v, v ≤ s.ver ∧ s.target = some (snap v)
  jobs : ∀ j, JobOk snap s j
  fresh : ∀ j, s.njobs ≤ j → s.jobs j = .unspawned

theorem atomInv_init (snap : Nat → Content) (init : Option Content) :
    AtomInv snap init (initSys init) :=
  ⟨Or.inl rfl, fun _ => rfl, fun _ _ => rfl⟩

theorem resOf_ne (r : Bool) : resOf r ≠ .cleanupRaised := by
  cases r <;> simp [resOf]

theorem atomInv_spawn {snap init} {s : Sys} (h : AtomInv snap init s) (k : Nat) :
    AtomInv snap init (spawn { s with ver := s.ver + k }) := by
  refine ⟨?_, ?_, ?_⟩
  · rcases h.target with h1 | ⟨v, hv, h1⟩
    · exact Or.inl h1
    · exact Or.inr ⟨v, by simp [spawn]; omega, h1⟩
  · intro j
    have hj := h.jobs j
    have hf := h.fresh j
    unfold JobOk at hj ⊢
    simp only [spawn]
    by_cases e : j = s.njobs
    · subst e
      have := hf (Nat.le_refl _)
      simp [this] at hj
      simp [hj]
    · simp only [e, if_false]
      split <;> simp_all <;> omega
  · intro j hj
    simp only [spawn] at hj ⊢
    have : j ≠ s.njobs := by omega
    simp [this]
    exact h.fresh j (by omega)

theorem atomInv_bump {snap init} {s : Sys} (h : AtomInv snap init s) :
    AtomInv snap init { s with ver := s.ver + 1 } := by
  refine ⟨?_, ?_, h.fresh⟩
  · rcases h.target with h1 | ⟨v, hv, h1⟩
    · exact Or.inl h1
    · exact Or.inr ⟨v, by simp; omega, h1⟩
  · intro j
    have hj := h.jobs j
    unfold JobOk at hj ⊢
    simp only
    split <;> simp_all <;> omega

theorem atomInv_adv {locked snap init} {s s' : Sys} {j : Nat}
    (h : AtomInv snap init s) (hs : adv locked snap s j = some s') : AtomInv snap init s' := by
  have hj := h.jobs j
  unfold adv at hs
  unfold JobOk at hj
  have hne : s.jobs j ≠ .unspawned := by
    intro e; simp [e] at hs
  have hlt : ∀ i, s.njobs ≤ i → i ≠ j := by
    intro i hi e; subst e; exact hne (h.fresh _ hi)
  split at hs
  all_goals (try split at hs)
  all_goals (try split at hs)
  all_goals (first | (cases hs; done) | skip)
  all_goals
    injection hs with hs
    subst hs
    refine ⟨?_, ?_, ?_⟩
    · have := h.target
      simp_all [setJob, setTemp] <;> grind
    · intro i
      have hi := h.jobs i
      unfold JobOk at hi ⊢
      by_cases e : i = j
      · subst e
        simp_all [setJob, setTemp, resOf_ne] <;> grind
      · simp_all [setJob, setTemp]
    · intro i hi
      have := hlt i hi
      have := h.fresh i hi
      simp_all [setJob, setTemp]

theorem atomInv_fault {snap init} {s s' : Sys} {j : Nat}
    (h : AtomInv snap init s) (hs : fault s j = some s') : AtomInv snap init s' := by
  have hj := h.jobs j
  unfold fault at hs
  unfold JobOk at hj
  have hne : s.jobs j ≠ .unspawned := by
    intro e; simp [e] at hs
  have hlt : ∀ i, s.njobs ≤ i → i ≠ j := by
    intro i hi e; subst e; exact hne (h.fresh _ hi)
  split at hs
  all_goals (first | (cases hs; done) | skip)
  all_goals
    injection hs with hs
    subst hs
    refine ⟨?_, ?_, ?_⟩
    · have := h.target
      simp_all [setJob, setTemp]
    · intro i
      have hi := h.jobs i
      unfold JobOk at hi ⊢
      by_cases e : i = j
      · subst e
        simp_all [setJob, setTemp]
      · simp_all [setJob, setTemp]
    · intro i hi
      have := hlt i hi
      have := h.fresh i hi
      simp_all [setJob, setTemp]

theorem atomInv_step {locked snap init} {s s' : Sys} {l : Label}
    (h : AtomInv snap init s) (hs : step locked snap s l = some s') : AtomInv snap init s' := by
  unfold step at hs
  split at hs
  · cases hs
  · cases l with
    | mutate => injection hs with hs; subst hs; exact atomInv_spawn h 1
    | spawn => injection hs with hs; subst hs; exact atomInv_spawn h 0
    | change => injection hs with hs; subst hs; exact atomInv_bump h
    | adv j => exact atomInv_adv h hs
    | fault j => exact atomInv_fault h hs
    | crash =>
      injection hs with hs; subst hs
      exact ⟨h.target, h.jobs, h.fresh⟩

theorem atomInv_exec {locked snap init} (ls : List Label) {s s' : Sys}
    (h : AtomInv snap init s) (hs : exec locked snap ls s = some s') : AtomInv snap init s' := by
  induction ls generalizing s with
  | nil => simp [exec] at hs; subst hs; exact h
  | cons l ls ih =>
    simp only [exec] at hs
    split at hs
    · next s1 h1 => exact ih (atomInv_step h h1) hs
    · cases hs

/-! ### mutual exclusion (locked relation, all labels) -/

/-- the job is inside `with self._persist_lock:` -/
def Pc.inCS : Pc → Bool
  | .mktemp => true
  | .snapshot => true
  | .write _ _ => true
  | .replace _ => true
  | .cleanup _ => true
  | .remove _ => true
  | .unlock _ => true
  | _ => false

/-- the job will still read the state -/
def Pc.pre : Pc → Bool
  | .start => true
  | .mktemp => true
  | .snapshot => true
  | _ => false

/-- the version whose snapshot the job holds and has not yet installed -/
def Pc.carries : Pc → Option Nat
  | .write v _ => some v
  | .replace v => some v
  | _ => none

theorem Pc.inCS_of_carries {pc : Pc} {v : Nat} (h : pc.carries = some v) : pc.inCS = true := by
  cases pc <;> simp_all [Pc.carries, Pc.inCS]

def Mutex (s : Sys) : Prop := ∀ j, (s.jobs j).inCS = true → s.lock = some j

theorem mutex_init (init : Option Content) : Mutex (initSys init) := by
  intro j h; simp [initSys, Pc.inCS] at h

theorem mutex_unique {s : Sys} (h : Mutex s) {i j : Nat}
    (hi : (s.jobs i).inCS = true) (hj : (s.jobs j).inCS = true) : i = j := by
  have a := h i hi
  have b := h j hj
  rw [a] at b
  exact Option.some.inj b

theorem mutex_spawn {s : Sys} (h : Mutex s) (k : Nat) : Mutex (spawn { s with ver := s.ver + k }) := by
  intro j hj
  simp only [spawn] at hj ⊢
  by_cases e : j = s.njobs
  · simp [e, Pc.inCS] at hj
  · simp only [e, if_false] at hj
    exact h j hj

theorem mutex_adv {snap} {s s' : Sys} {j : Nat}
    (h : Mutex s) (hs : adv true snap s j = some s') : Mutex s' := by
  unfold adv at hs
  split at hs
  all_goals (try split at hs)
  all_goals (try split at hs)
  all_goals (first | (cases hs; done) | skip)
  all_goals
    injection hs with hs
    subst hs
    intro i hi
    have hm := h i
    have hmj := h j
    by_cases e : i = j
    · subst e
      simp_all [setJob, setTemp, Pc.inCS]
    · simp_all [setJob, setTemp, Pc.inCS] <;> grind

theorem mutex_fault {s s' : Sys} {j : Nat}
    (h : Mutex s) (hs : fault s j = some s') : Mutex s' := by
  unfold fault at hs
  split at hs
  all_goals (first | (cases hs; done) | skip)
  all_goals
    injection hs with hs
    subst hs
    intro i hi
    have hm := h i
    have hmj := h j
    by_cases e : i = j
    · subst e
      simp_all [setJob, setTemp, Pc.inCS]
    · simp_all [setJob, setTemp, Pc.inCS]

theorem mutex_step {snap} {s s' : Sys} {l : Label}
    (h : Mutex s) (hs : step true snap s l = some s') : Mutex s' := by
  unfold step at hs
  split at hs
  · cases hs
  · cases l with
    | mutate => injection hs with hs; subst hs; exact mutex_spawn h 1
    | spawn => injection hs with hs; subst hs; exact mutex_spawn h 0
    | change => injection hs with hs; subst hs; exact h
    | adv j => exact mutex_adv h hs
    | fault j => exact mutex_fault h hs
    | crash => injection hs with hs; subst hs; exact h

theorem mutex_exec {snap} (ls : List Label) {s s' : Sys}
    (h : Mutex s) (hs : exec true snap ls s = some s') : Mutex s' := by
  induction ls generalizing s with
  | nil => simp [exec] at hs; subst hs; exact h
  | cons l ls ih =>
    simp only [exec] at hs
    split at hs
    · next s1 h1 => exact ih (mutex_step h h1) hs
    · cases hs

/-! ### the lock is held only by a job inside the critical section; progress -/

def Held (s : Sys) : Prop := ∀ j, s.lock = some j → (s.jobs j).inCS = true

theorem held_init (init : Option Content) : Held (initSys init) := by
  intro j h; simp [initSys] at h

theorem held_spawn {snap init} {s : Sys} (ha : AtomInv snap init s) (h : Held s) (k : Nat) :
    Held (spawn { s with ver := s.ver + k }) := by
  intro j hj
  simp only [spawn] at hj ⊢
  have hcs := h j hj
  by_cases e : j = s.njobs
  · subst e
    have := ha.fresh s.njobs (Nat.le_refl _)
    rw [this] at hcs
    simp [Pc.inCS] at hcs
  · simp only [e, if_false]
    exact hcs

theorem held_adv {snap} {s s' : Sys} {j : Nat}
    (hm : Mutex s) (h : Held s) (hs : adv true snap s j = some s') : Held s' := by
  unfold adv at hs
  split at hs
  all_goals (try split at hs)
  all_goals (try split at hs)
  all_goals (first | (cases hs; done) | skip)
  all_goals
    injection hs with hs
    subst hs
    intro i hi
    have hh := h i
    have hmj := hm j
    by_cases e : i = j
    · subst e
      simp_all [setJob, setTemp, Pc.inCS]
    · simp_all [setJob, setTemp, Pc.inCS]

theorem held_fault {s s' : Sys} {j : Nat}
    (h : Held s) (hs : fault s j = some s') : Held s' := by
  unfold fault at hs
  split at hs
  all_goals (first | (cases hs; done) | skip)
  all_goals
    injection hs with hs
    subst hs
    intro i hi
    have hh := h i
    by_cases e : i = j
    · subst e
      simp_all [setJob, setTemp, Pc.inCS]
    · simp_all [setJob, setTemp, Pc.inCS]

theorem held_step {snap init} {s s' : Sys} {l : Label}
    (ha : AtomInv snap init s) (hm : Mutex s) (h : Held s)
    (hs : step true snap s l = some s') : Held s' := by
  unfold step at hs
  split at hs
  · cases hs
  · cases l with
    | mutate => injection hs with hs; subst hs; exact held_spawn ha h 1
    | spawn => injection hs with hs; subst hs; exact held_spawn ha h 0
    | change => injection hs with hs; subst hs; exact h
    | adv j => exact held_adv hm h hs
    | fault j => exact held_fault h hs
    | crash => injection hs with hs; subst hs; exact h

theorem held_exec {snap init} (ls : List Label) {s s' : Sys}
    (ha : AtomInv snap init s) (hm : Mutex s) (h : Held s)
    (hs : exec true snap ls s = some s') : Held s' := by
  induction ls generalizing s with
  | nil => simp [exec] at hs; subst hs; exact h
  | cons l ls ih =>
    simp only [exec] at hs
    split at hs
    · next s1 h1 => exact ih (atomInv_step ha h1) (mutex_step hm h1) (held_step ha hm h h1) hs
    · cases hs

/-- a job inside the critical section can always take its next step -/
theorem adv_enabled_of_inCS {snap} {s : Sys} {j : Nat} (h : (s.jobs j).inCS = true) :
    ∃ s', adv true snap s j = some s' := by
  unfold adv
  split <;> simp_all [Pc.inCS]
  split <;> simp

/-! ### convergence invariant (locked relation, quiet labels) -/

/-- Either nothing was ever submitted, or some job will still read the state, or the lock holder
    carries the latest version, or the file already holds the latest version and nobody is about
    to overwrite it. -/
def Conv (snap : Nat → Content) (s : Sys) : Prop :=
  (∀ j, s.jobs j = .unspawned) ∨ (∃ j, (s.jobs j).pre = true) ∨
  (∃ j, (s.jobs j).carries = some s.ver) ∨
  (s.target = some (snap s.ver) ∧ ∀ j, (s.jobs j).carries = none)

theorem conv_init (snap : Nat → Content) (init : Option Content) : Conv snap (initSys init) :=
  Or.inl fun _ => rfl

theorem conv_spawn {snap} {s : Sys} (k : Nat) : Conv snap (spawn { s with ver := s.ver + k }) := by
  refine Or.inr (Or.inl ⟨s.njobs, ?_⟩)
  simp [spawn, Pc.pre]

/-- frame lemma: job `j` moves from a spawned pc to `pc'`, target and version unchanged -/
theorem conv_update {snap} {s s' : Sys} {j : Nat} {pc' : Pc}
    (h : Conv snap s) (hv : s'.ver = s.ver) (ht : s'.target = s.target)
    (hjobs : s'.jobs = fun i => if i = j then pc' else s.jobs i)
    (hsp : s.jobs j ≠ .unspawned)
    (hpre : (s.jobs j).pre = true → pc'.pre = true ∨ pc'.carries = some s.ver)
    (hcar : (s.jobs j).carries = some s.ver → pc'.carries = some s.ver)
    (hnone : (s.jobs j).carries = none →
      pc'.carries = none ∨ pc'.pre = true ∨ pc'.carries = some s.ver) : Conv snap s' := by
  have hj' : s'.jobs j = pc' := by simp [hjobs]
  have hi' : ∀ i, i ≠ j → s'.jobs i = s.jobs i := by intro i hi; simp [hjobs, hi]
  rcases h with h | ⟨i, h⟩ | ⟨i, h⟩ | ⟨h1, h2⟩
  · exact absurd (h j) hsp
  · by_cases e : i = j
    · subst e
      rcases hpre h with p | p
      · exact Or.inr (Or.inl ⟨i, by rw [hj']; exact p⟩)
      · exact Or.inr (Or.inr (Or.inl ⟨i, by rw [hj', hv]; exact p⟩))
    · exact Or.inr (Or.inl ⟨i, by rw [hi' i e]; exact h⟩)
  · by_cases e : i = j
    · subst e
      exact Or.inr (Or.inr (Or.inl ⟨i, by rw [hj', hv]; exact hcar h⟩))
    · exact Or.inr (Or.inr (Or.inl ⟨i, by rw [hi' i e, hv]; exact h⟩))
  · rcases hnone (h2 j) with p | p | p
    · refine Or.inr (Or.inr (Or.inr ⟨by rw [ht, hv]; exact h1, ?_⟩))
      intro i
      by_cases e : i = j
      · subst e; rw [hj']; exact p
      · rw [hi' i e]; exact h2 i
    · exact Or.inr (Or.inl ⟨j, by rw [hj']; exact p⟩)
    · exact Or.inr (Or.inr (Or.inl ⟨j, by rw [hj', hv]; exact p⟩))

theorem conv_adv {snap init} {s s' : Sys} {j : Nat}
    (ha : AtomInv snap init s) (hm : Mutex s) (h : Conv snap s)
    (hs : adv true snap s j = some s') : Conv snap s' := by
  have hj := ha.jobs j
  unfold JobOk at hj
  unfold adv at hs
  split at hs
  · cases hs
  · -- start: acquire
    next hpc =>
    split at hs
    · split at hs
      · injection hs with hs; subst hs
        exact conv_update (j := j) (pc' := .mktemp) h rfl rfl rfl (by simp [hpc])
          (by simp [Pc.pre]) (by simp [hpc, Pc.carries]) (by simp [Pc.pre])
      · cases hs
    · contradiction
  · next hpc =>
    injection hs with hs; subst hs
    exact conv_update (j := j) (pc' := .snapshot) h rfl rfl rfl (by simp [hpc])
      (by simp [Pc.pre]) (by simp [hpc, Pc.carries]) (by simp [Pc.pre])
  · next hpc =>
    injection hs with hs; subst hs
    exact conv_update (j := j) (pc' := .write s.ver (snap s.ver)) h rfl rfl rfl (by simp [hpc])
      (by simp [Pc.carries]) (by simp [Pc.carries]) (by simp [Pc.carries])
  · next v c rest hpc =>
    injection hs with hs; subst hs
    exact conv_update (j := j) (pc' := .write v rest) h rfl rfl rfl (by simp [hpc])
      (by simp [hpc, Pc.pre]) (by simp [hpc, Pc.carries]) (by simp [hpc, Pc.carries])
  · next v hpc =>
    injection hs with hs; subst hs
    exact conv_update (j := j) (pc' := .replace v) h rfl rfl rfl (by simp [hpc])
      (by simp [hpc, Pc.pre]) (by simp [hpc, Pc.carries]) (by simp [hpc, Pc.carries])
  · -- replace: the only step that changes the target
    next v hpc =>
    injection hs with hs; subst hs
    rw [hpc] at hj
    have hcs : (s.jobs j).inCS = true := by simp [hpc, Pc.inCS]
    have others : ∀ i, i ≠ j → (s.jobs i).carries = none := by
      intro i hi
      cases hc : (s.jobs i).carries with
      | none => rfl
      | some w => exact absurd (mutex_unique hm (Pc.inCS_of_carries hc) hcs) hi
    rcases h with h | ⟨i, h⟩ | ⟨i, h⟩ | ⟨_, h2⟩
    · exact absurd (h j) (by simp [hpc])
    · have e : i ≠ j := by intro e; subst e; simp [hpc, Pc.pre] at h
      exact Or.inr (Or.inl ⟨i, by simp [setJob, setTemp, e]; exact h⟩)
    · have e : i = j := by
        apply Classical.byContradiction; intro e
        rw [others i e] at h; cases h
      subst e
      rw [hpc] at h
      simp only [Pc.carries, Option.some.injEq] at h
      subst h
      refine Or.inr (Or.inr (Or.inr ⟨by simp [setJob, setTemp, hj.2], ?_⟩))
      intro k
      by_cases e : k = i
      · subst e; simp [setJob, Pc.carries]
      · simp [setJob, setTemp, e]; exact others k e
    · have := h2 j
      simp [hpc, Pc.carries] at this
  · -- cleanup
    next r hpc =>
    split at hs
    · injection hs with hs; subst hs
      exact conv_update (j := j) (pc' := .remove r) h rfl rfl rfl (by simp [hpc])
        (by simp [hpc, Pc.pre]) (by simp [hpc, Pc.carries]) (by simp [Pc.carries])
    · injection hs with hs; subst hs
      exact conv_update (j := j) (pc' := .unlock (resOf r)) h rfl rfl rfl (by simp [hpc])
        (by simp [hpc, Pc.pre]) (by simp [hpc, Pc.carries]) (by simp [Pc.carries])
  · next r hpc =>
    injection hs with hs; subst hs
    exact conv_update (j := j) (pc' := .unlock (resOf r)) h rfl rfl rfl (by simp [hpc])
      (by simp [hpc, Pc.pre]) (by simp [hpc, Pc.carries]) (by simp [Pc.carries])
  · next r hpc =>
    injection hs with hs; subst hs
    exact conv_update (j := j) (pc' := .done r) h rfl rfl rfl (by simp [hpc])
      (by simp [hpc, Pc.pre]) (by simp [hpc, Pc.carries]) (by simp [Pc.carries])
  · cases hs

theorem conv_step {snap init} {s s' : Sys} {l : Label}
    (ha : AtomInv snap init s) (hm : Mutex s) (h : Conv snap s) (hq : l.quiet = true)
    (hs : step true snap s l = some s') : Conv snap s' := by
  unfold step at hs
  split at hs
  · cases hs
  · cases l with
    | mutate => injection hs with hs; subst hs; exact conv_spawn 1
    | spawn => injection hs with hs; subst hs; exact conv_spawn 0
    | change => simp [Label.quiet] at hq
    | adv j => exact conv_adv ha hm h hs
    | fault j => simp [Label.quiet] at hq
    | crash => simp [Label.quiet] at hq

theorem conv_exec {snap init} (ls : List Label) {s s' : Sys}
    (ha : AtomInv snap init s) (hm : Mutex s) (h : Conv snap s)
    (hq : ∀ l ∈ ls, l.quiet = true)
    (hs : exec true snap ls s = some s') : Conv snap s' := by
  induction ls generalizing s with
  | nil => simp [exec] at hs; subst hs; exact h
  | cons l ls ih =>
    simp only [exec] at hs
    split at hs
    · next s1 h1 =>
      exact ih (atomInv_step ha h1) (mutex_step hm h1)
        (conv_step ha hm h (hq l (by simp)) h1) (fun l' hl' => hq l' (by simp [hl'])) hs
    · cases hs

end Hap.Persist
