/-
  Lemmas about `HapModel/Pump.lean`: frame facts for the response path, the accounting
  invariant, progress and isolation of the event pump.
-/
import HapModel.Pump
namespace Hap.Http

variable {H σ : Type}

/-! ### frame facts -/

theorem sendResponse_frame (I : H11 H) (c : Conn H σ) (r : Resp) (id : Nat) :
    (sendResponse I c r id).1.w = c.w ∧ (sendResponse I c r id).1.closing = c.closing ∧
    (sendResponse I c r id).1.registered = c.registered ∧
    (sendResponse I c r id).1.overlapped = c.overlapped ∧
    (sendResponse I c r id).1.eoms = c.eoms ∧ (sendResponse I c r id).1.pendingId = c.pendingId ∧
    (sendResponse I c r id).1.pending = c.pending ∧ (sendResponse I c r id).1.consumed = c.consumed ∧
    (sendResponse I c r id).1.idle = c.idle ∧
    ((sendResponse I c r id).2 = true →
      ∃ b, (sendResponse I c r id).1.out = c.out ++ [.write b] ∧
        (sendResponse I c r id).1.answered = c.answered ++ [id]) ∧
    ((sendResponse I c r id).2 = false →
      (sendResponse I c r id).1.out = c.out ∧ (sendResponse I c r id).1.answered = c.answered) := by
  unfold sendResponse
  simp only []
  split
  · simp
  · split
    · simp
    · split
      · simp
      · simp

/-- the `Out.write`s of a transport log -/
def writesOf (o : List Out) : List Out := o.filter Out.isWrite

theorem writesOf_close (c : Conn H σ) : writesOf c.close.out = writesOf c.out := by
  simp [writesOf, Conn.close, List.filter_append, List.filter, Out.isWrite]

theorem respFirst_frame (I : H11 H) (c : Conn H σ) (r : Resp) (id : Nat) :
    (respFirst I c r id).1.w = c.w ∧ (respFirst I c r id).1.closing = c.closing ∧
    (respFirst I c r id).1.registered = c.registered ∧
    (respFirst I c r id).1.overlapped = c.overlapped ∧
    (respFirst I c r id).1.eoms = c.eoms ∧
    (respFirst I c r id).1.consumed = c.consumed ∧
    (respFirst I c r id).1.idle = c.idle ∧
    (r.task = true → (respFirst I c r id).2 = true ∧
      (respFirst I c r id).1.pending = some r ∧ (respFirst I c r id).1.pendingId = some id ∧
      (respFirst I c r id).1.out = c.out ∧ (respFirst I c r id).1.answered = c.answered) ∧
    (r.task = false →
      (respFirst I c r id).1.pending = c.pending ∧ (respFirst I c r id).1.pendingId = c.pendingId ∧
      ((respFirst I c r id).2 = true →
        ∃ b, (respFirst I c r id).1.out = c.out ++ [.write b] ∧
          (respFirst I c r id).1.answered = c.answered ++ [id]) ∧
      ((respFirst I c r id).2 = false →
        (respFirst I c r id).1.out = c.out ∧ (respFirst I c r id).1.answered = c.answered)) := by
  have hs := sendResponse_frame I c r id
  unfold respFirst
  cases ht : r.task
  · simp only [Bool.false_eq_true, if_false]
    obtain ⟨h1, h2, h3, h4, h5, h6, h7, h8, h9, h10, h11⟩ := hs
    exact ⟨h1, h2, h3, h4, h5, h8, h9, by simp, fun _ => ⟨h7, h6, h10, h11⟩⟩
  · simp

/-- `_process_response` differs from its first statement only in the parser, the session-key flag
    and — when smuggled plaintext is found — by closing the connection. -/
theorem processResponse_cases (I : H11 H) (c : Conn H σ) (r : Resp) (id : Nat) :
    ((respFirst I c r id).2 = false ∧ processResponse I c r id = ((respFirst I c r id).1, .proto)) ∨
    ((respFirst I c r id).2 = true ∧
      ∃ h' e, (h' = (respFirst I c r id).1.h ∨ h' = (I.trailingData (respFirst I c r id).1.h).1) ∧
        processResponse I c r id = ({ (respFirst I c r id).1 with h := h', encrypted := e }, .ok)) ∨
    ((respFirst I c r id).2 = true ∧
      processResponse I c r id
        = ({ (respFirst I c r id).1 with
              h := I.fresh (I.trailingData (respFirst I c r id).1.h).1, encrypted := true }.close, .smuggled)) := by
  unfold processResponse
  generalize respFirst I c r id = x
  obtain ⟨c1, b⟩ := x
  cases b
  · left; simp
  · right
    simp only [Bool.not_true, Bool.false_eq_true, if_false]
    cases r.sharedKey
    · left; exact ⟨trivial, c1.h, c1.encrypted, Or.inl rfl, rfl⟩
    · simp only [if_true]
      cases he : c1.encrypted
      · simp only [Bool.false_eq_true, if_false]
        split
        · rename_i h' heq
          right; exact ⟨trivial, by rw [heq]⟩
        · rename_i h' heq
          left; exact ⟨trivial, h', true, Or.inr (by rw [heq]), rfl⟩
      · left
        refine ⟨trivial, c1.h, true, Or.inl rfl, ?_⟩
        simp [← he]

theorem processResponse_frame (I : H11 H) (c : Conn H σ) (r : Resp) (id : Nat) :
    (processResponse I c r id).1.w = c.w ∧
    (processResponse I c r id).1.overlapped = c.overlapped ∧
    (processResponse I c r id).1.eoms = c.eoms ∧
    (processResponse I c r id).1.consumed = c.consumed ∧
    (processResponse I c r id).1.idle = c.idle ∧
    ((processResponse I c r id).2 ≠ .smuggled →
      (processResponse I c r id).1.closing = c.closing ∧ (processResponse I c r id).1.registered = c.registered) ∧
    ((processResponse I c r id).2 = .smuggled →
      (processResponse I c r id).1.closing = true ∧ (processResponse I c r id).1.registered = false) ∧
    (r.task = true → (processResponse I c r id).2 ≠ .proto ∧
      (processResponse I c r id).1.pending = some r ∧ (processResponse I c r id).1.pendingId = some id ∧
      writesOf (processResponse I c r id).1.out = writesOf c.out ∧
      (processResponse I c r id).1.answered = c.answered) ∧
    (r.task = false →
      (processResponse I c r id).1.pending = c.pending ∧ (processResponse I c r id).1.pendingId = c.pendingId ∧
      ((processResponse I c r id).2 ≠ .proto →
        ∃ b, writesOf (processResponse I c r id).1.out = writesOf c.out ++ [.write b] ∧
          (processResponse I c r id).1.answered = c.answered ++ [id]) ∧
      ((processResponse I c r id).2 = .proto →
        (processResponse I c r id).1.out = c.out ∧ (processResponse I c r id).1.answered = c.answered)) := by
  obtain ⟨f1, f2, f3, f4, f5, f6, f7, ft, fn⟩ := respFirst_frame I c r id
  rcases processResponse_cases I c r id with ⟨hb, he⟩ | ⟨hb, h', e, _, he⟩ | ⟨hb, he⟩
  · rw [he]
    refine ⟨f1, f4, f5, f6, f7, fun _ => ⟨f2, f3⟩, fun h => by simp at h, ?_, ?_⟩
    · intro ht; rw [(ft ht).1] at hb; cases hb
    · intro ht
      obtain ⟨g1, g2, _, g4⟩ := fn ht
      exact ⟨g1, g2, fun h => absurd rfl h, fun _ => g4 hb⟩
  · rw [he]
    refine ⟨f1, f4, f5, f6, f7, fun _ => ⟨f2, f3⟩, fun h => by simp at h, ?_, ?_⟩
    · intro ht
      obtain ⟨_, g2, g3, g4, g5⟩ := ft ht
      exact ⟨by simp, g2, g3, by show writesOf (respFirst I c r id).1.out = _; rw [g4], g5⟩
    · intro ht
      obtain ⟨g1, g2, g3, _⟩ := fn ht
      obtain ⟨b, hb1, hb2⟩ := g3 hb
      refine ⟨g1, g2, fun _ => ⟨b, ?_, hb2⟩, fun h => by simp at h⟩
      show writesOf (respFirst I c r id).1.out = _
      rw [hb1]; simp [writesOf, List.filter_append, List.filter, Out.isWrite]
  · rw [he]
    refine ⟨f1, f4, f5, f6, f7, fun h => absurd rfl h, fun _ => ⟨rfl, rfl⟩, ?_, ?_⟩
    · intro ht
      obtain ⟨_, g2, g3, g4, g5⟩ := ft ht
      refine ⟨by simp, g2, g3, ?_, g5⟩
      rw [writesOf_close]
      show writesOf (respFirst I c r id).1.out = _; rw [g4]
    · intro ht
      obtain ⟨g1, g2, g3, _⟩ := fn ht
      obtain ⟨b, hb1, hb2⟩ := g3 hb
      refine ⟨g1, g2, fun _ => ⟨b, ?_, hb2⟩, fun h => by simp at h⟩
      rw [writesOf_close]
      show writesOf (respFirst I c r id).1.out = _
      rw [hb1]; simp [writesOf, List.filter_append, List.filter, Out.isWrite]

/-! ### the accounting invariant (C19_one_response, registry) -/

/-- Every EndOfMessage processed so far has been answered, in order, by exactly one write — or is
    the one delayed response still outstanding — unless the connection is closing (or h11
    delivered a message while a delayed response was outstanding); a closing connection is no
    longer in the registry. -/
structure Acct (c : Conn H σ) : Prop where
  order : c.closing = true ∨ c.overlapped = true ∨
    c.answered ++ c.pendingId.toList = List.range c.eoms
  count : (c.out.filter Out.isWrite).length = c.answered.length
  pend : c.pendingId.isSome = c.pending.isSome
  reg : c.closing = true → c.registered = false

theorem Acct.close_of {c : Conn H σ}
    (hc : (c.out.filter Out.isWrite).length = c.answered.length)
    (hp : c.pendingId.isSome = c.pending.isSome) : Acct c.close := by
  refine ⟨Or.inl rfl, ?_, hp, fun _ => rfl⟩
  simp [Conn.close, List.filter_append, List.filter, Out.isWrite, hc]

theorem Acct.close {c : Conn H σ} (h : Acct c) : Acct c.close :=
  Acct.close_of h.count h.pend

/-! ### the session-teardown step -/

theorem teardownStep_acct (td : Teardown σ) (c : Conn H σ) (r : Resp) (h : Acct c) :
    Acct (teardownStep td c r) := by
  unfold teardownStep
  split
  · split
    · exact Acct.close_of (c := { c with w := _ }) h.count h.pend
    · exact ⟨h.order, h.count, h.pend, h.reg⟩
  · exact h

theorem teardownStep_consumed (td : Teardown σ) (c : Conn H σ) (r : Resp) :
    (teardownStep td c r).consumed = c.consumed := by
  unfold teardownStep
  split
  · split <;> rfl
  · rfl

theorem teardownStep_world (td : Teardown σ) (Q : World σ → Prop) (ht : ∀ w, Q w → Q (td w).1)
    (c : Conn H σ) (r : Resp) (h : Q c.w) : Q (teardownStep td c r).w := by
  unfold teardownStep
  split
  · have := ht c.w h
    split
    · rename_i w' hw; rw [hw] at this; exact this
    · rename_i w' hw; rw [hw] at this; exact this
  · exact h

theorem finishPairStep_acct (c : Conn H σ) (r : Resp) (h : Acct c) : Acct (finishPairStep c r) := by
  unfold finishPairStep
  split
  · exact ⟨h.order, h.count, h.pend, h.reg⟩
  · exact h

theorem finishPairStep_frame (c : Conn H σ) (r : Resp) :
    (finishPairStep c r).w = c.w ∧ (finishPairStep c r).consumed = c.consumed ∧
    (finishPairStep c r).closing = c.closing ∧ (finishPairStep c r).registered = c.registered := by
  unfold finishPairStep
  split <;> simp

/-- what `_process_events` may rely on after one `_process_one_event` -/
def StepOk (x : Conn H σ × Step) : Prop :=
  match x.2 with
  | .cont _ => Acct x.1
  | .proto => (x.1.out.filter Out.isWrite).length = x.1.answered.length ∧
      x.1.pendingId.isSome = x.1.pending.isSome
  | .esc _ => True

/-- `_process_response` for the request with sequence number `id`, entered with `eoms` already
    counting that request. -/
theorem processResponse_acct (I : H11 H) (d : Conn H σ) (r : Resp) (id : Nat)
    (hc : (d.out.filter Out.isWrite).length = d.answered.length)
    (hp : d.pendingId.isSome = d.pending.isSome)
    (hr : d.closing = true → d.registered = false)
    (hov : d.pending.isSome = true → d.overlapped = true)
    (ho : d.closing = true ∨ d.overlapped = true ∨
      d.answered ++ d.pendingId.toList ++ [id] = List.range d.eoms) :
    (((processResponse I d r id).1.out.filter Out.isWrite).length
        = (processResponse I d r id).1.answered.length ∧
      (processResponse I d r id).1.pendingId.isSome = (processResponse I d r id).1.pending.isSome) ∧
    ((processResponse I d r id).2 ≠ .proto → Acct (processResponse I d r id).1) := by
  obtain ⟨_, hovl, heo, _, _, hns, hsm, ht, hnt⟩ := processResponse_frame I d r id
  simp only [writesOf] at ht hnt
  have hnone : d.overlapped = false → d.pendingId = none := by
    intro h
    cases hpe : d.pending with
    | some x => rw [hov (by simp [hpe])] at h; cases h
    | none => rw [hpe] at hp; simpa using hp
  -- closing ⇒ unregistered, whatever the ending
  have hreg : (processResponse I d r id).1.closing = true → (processResponse I d r id).1.registered = false := by
    by_cases hs : (processResponse I d r id).2 = .smuggled
    · exact fun _ => (hsm hs).2
    · obtain ⟨h1, h2⟩ := hns hs
      rw [h1, h2]; exact hr
  -- the order clause, given the new `answered ++ pendingId`
  have hord : ∀ (l : List Nat),
      (d.overlapped = false → l = d.answered ++ d.pendingId.toList ++ [id]) →
      (processResponse I d r id).1.closing = true ∨ (processResponse I d r id).1.overlapped = true ∨
        l = List.range (processResponse I d r id).1.eoms := by
    intro l hl
    rw [hovl, heo]
    by_cases hs : (processResponse I d r id).2 = .smuggled
    · exact Or.inl (hsm hs).1
    · rw [(hns hs).1]
      rcases ho with ho | ho | ho
      · exact Or.inl ho
      · exact Or.inr (Or.inl ho)
      · cases hov' : d.overlapped
        · exact Or.inr (Or.inr (by rw [hl hov']; exact ho))
        · exact Or.inr (Or.inl rfl)
  cases htask : r.task
  · obtain ⟨h1, h2, h3, h4⟩ := hnt htask
    by_cases hok : (processResponse I d r id).2 = .proto
    · obtain ⟨h5, h6⟩ := h4 hok
      exact ⟨⟨by rw [h5, h6]; exact hc, by rw [h1, h2]; exact hp⟩, fun h => absurd hok h⟩
    · obtain ⟨b, hb1, hb2⟩ := h3 hok
      have hcount : ((processResponse I d r id).1.out.filter Out.isWrite).length
          = (processResponse I d r id).1.answered.length := by
        rw [hb1, hb2]; simp [hc]
      have hpend : (processResponse I d r id).1.pendingId.isSome
          = (processResponse I d r id).1.pending.isSome := by rw [h1, h2]; exact hp
      refine ⟨⟨hcount, hpend⟩, fun _ => ⟨?_, hcount, hpend, hreg⟩⟩
      rw [hb2, h2]
      refine hord _ (fun hf => ?_)
      rw [hnone hf]; simp
  · obtain ⟨hok, h1, h2, h3, h4⟩ := ht htask
    have hcount : ((processResponse I d r id).1.out.filter Out.isWrite).length
        = (processResponse I d r id).1.answered.length := by rw [h3, h4]; exact hc
    have hpend : (processResponse I d r id).1.pendingId.isSome
        = (processResponse I d r id).1.pending.isSome := by rw [h1, h2]; rfl
    refine ⟨⟨hcount, hpend⟩, fun _ => ⟨?_, hcount, hpend, hreg⟩⟩
    rw [h4, h2]
    refine hord _ (fun hf => ?_)
    rw [hnone hf]; simp

theorem processOneEvent_acct (I : H11 H) (disp : Disp σ) (td : Teardown σ) (c : Conn H σ) (h : Acct c) :
    StepOk (processOneEvent I disp td c) := by
  obtain ⟨ho, hc, hp, hr⟩ := h
  unfold processOneEvent
  split
  rename_i h' ev _
  cases ev with
  | needData => exact ⟨ho, hc, hp, hr⟩
  | connectionClosed => exact ⟨ho, hc, hp, hr⟩
  | raiseRemote => exact ⟨hc, hp⟩
  | raiseLocal => exact ⟨hc, hp⟩
  | request r => exact ⟨ho, hc, hp, hr⟩
  | data d => exact ⟨ho, hc, hp, hr⟩
  | other => exact Acct.close_of hc hp
  | paused =>
    simp only []
    split
    · exact ⟨ho, hc, hp, hr⟩
    · exact ⟨hc, hp⟩
  | endOfMessage =>
    simp only []
    split
    · trivial
    · rename_i w' r hd
      have key := processResponse_acct I
        { c with h := h', idle := false, consumed := c.consumed + 1, eoms := c.eoms + 1,
                 overlapped := c.overlapped || c.pending.isSome, w := w' } r c.eoms hc hp hr
        (by intro hh; simp [hh])
        (by
          rcases ho with ho | ho | ho
          · exact Or.inl ho
          · exact Or.inr (Or.inl (by simp [ho]))
          · refine Or.inr (Or.inr ?_)
            show c.answered ++ c.pendingId.toList ++ [c.eoms] = List.range (c.eoms + 1)
            rw [ho, List.range_succ])
      split
      · rename_i c' hpr
        rw [hpr] at key
        exact key.1
      · rename_i c' hpr
        rw [hpr] at key
        have hA : Acct c' := key.2 (by simp)
        exact ⟨hA.order, hA.count, hA.pend, hA.reg⟩
      · rename_i c' hpr
        rw [hpr] at key
        have hA := finishPairStep_acct _ r (teardownStep_acct td c' r (key.2 (by simp)))
        exact ⟨hA.order, hA.count, hA.pend, hA.reg⟩

/-- the accounting invariant after a callback, unless a non-protocol exception escaped -/
def OutcomeOk (x : Conn H σ × Outcome) : Prop :=
  match x.2 with
  | .esc _ => True
  | _ => Acct x.1

theorem processEvents_acct (I : H11 H) (disp : Disp σ) (td : Teardown σ) :
    ∀ (n : Nat) (c : Conn H σ), Acct c → OutcomeOk (processEvents I disp td n c)
  | 0, c, h => h
  | n + 1, c, h => by
    have hs := processOneEvent_acct I disp td c h
    unfold processEvents
    split
    · trivial
    · rename_i c1 hpoe
      rw [hpoe] at hs
      exact Acct.close_of hs.1 hs.2
    · rename_i c1 hpoe
      rw [hpoe] at hs
      exact hs
    · rename_i c1 hpoe
      rw [hpoe] at hs
      have hs : Acct c1 := hs
      split
      · split
        exact Acct.close_of (c := { c1 with h := _ }) hs.count hs.pend
      · exact processEvents_acct I disp td n _ ⟨hs.order, hs.count, hs.pend, hs.reg⟩

/-! ### no exception other than h11.ProtocolError can come out of the pump if dispatch is total -/

def Total (disp : Disp σ) : Prop := ∀ w r b, ∃ x, disp w r b = .ok x

theorem processOneEvent_no_esc (I : H11 H) (disp : Disp σ) (td : Teardown σ) (hd : Total disp) (c : Conn H σ) (e : Exn) :
    (processOneEvent I disp td c).2 ≠ .esc e := by
  unfold processOneEvent
  split
  rename_i h' ev _
  cases ev with
  | paused => simp only []; split <;> simp
  | endOfMessage =>
    simp only []
    obtain ⟨x, hx⟩ := hd c.w c.request c.body.flatten
    rw [hx]
    simp only []
    split <;> simp
  | _ => simp

theorem processEvents_no_esc (I : H11 H) (disp : Disp σ) (td : Teardown σ) (hd : Total disp) :
    ∀ (n : Nat) (c : Conn H σ) (e : Exn), (processEvents I disp td n c).2 ≠ .esc e
  | 0, c, e => by simp [processEvents]
  | n + 1, c, e => by
    have hs := processOneEvent_no_esc I disp td hd c
    unfold processEvents
    split
    · rename_i c1 e' hpoe
      exact absurd (by rw [hpoe]) (hs e')
    · simp
    · simp
    · split
      · split; simp
      · exact processEvents_no_esc I disp td hd n _ e

theorem dispOk_total (routes : List Route) (P : Params σ) : Total (dispOk routes P) :=
  fun w r b => ⟨dispatch routes P w r b, rfl⟩

/-! ### progress -/

theorem processOneEvent_progress (I : H11 H) (disp : Disp σ) (td : Teardown σ) (c c' : Conn H σ) (s : Step)
    (hx : processOneEvent I disp td c = (c', s)) :
    (s = .cont false → c'.closing = true ∨ c'.idle = true) ∧
    (s = .cont true → c'.consumed = c.consumed + 1) := by
  unfold processOneEvent at hx
  split at hx
  rename_i h' ev _
  cases ev with
  | paused =>
    simp only [] at hx
    split at hx <;> cases hx <;> simp
  | endOfMessage =>
    simp only [] at hx
    split at hx
    · cases hx; simp
    · rename_i w' r hd
      have hf := processResponse_frame I
        { c with h := h', idle := false, consumed := c.consumed + 1, eoms := c.eoms + 1,
                 overlapped := c.overlapped || c.pending.isSome, w := w' } r c.eoms
      split at hx
      · cases hx; simp
      · rename_i c'' hpr
        rw [hpr] at hf
        cases hx
        have h1 := hf.2.2.2.1
        simp only [] at h1
        simp [h1]
      · rename_i c'' hpr
        rw [hpr] at hf
        cases hx
        have h1 := hf.2.2.2.1
        have h2 := teardownStep_consumed td c'' r
        have h3 := (finishPairStep_frame (teardownStep td c'' r) r).2.1
        simp only [] at h1
        simp [h3, h2, h1]
  | other => cases hx; simp [Conn.close]
  | _ => cases hx; simp

/-- The loop only returns normally when h11 has nothing more to give (NEED_DATA / ConnectionClosed)
    or the connection is closing; running out of fuel means `n` events were consumed. -/
theorem processEvents_progress (I : H11 H) (disp : Disp σ) (td : Teardown σ) :
    ∀ (n : Nat) (c c' : Conn H σ) (o : Outcome), processEvents I disp td n c = (c', o) →
      (o = .done → c'.closing = true ∨ c'.idle = true) ∧
      (o = .fuel → c'.consumed = c.consumed + n)
  | 0, c, c', o, hx => by
    simp only [processEvents] at hx
    cases hx; simp
  | n + 1, c, c', o, hx => by
    unfold processEvents at hx
    split at hx
    · cases hx; simp
    · cases hx; simp [Conn.close]
    · rename_i c1 hpoe
      cases hx
      have hs := processOneEvent_progress I disp td c _ _ hpoe
      simpa using hs.1 rfl
    · rename_i c1 hpoe
      have hs := (processOneEvent_progress I disp td c _ _ hpoe).2 rfl
      split at hx
      · split at hx
        cases hx; simp [Conn.close]
      · rename_i h2 _
        have ih := processEvents_progress I disp td n { c1 with h := h2 } c' o hx
        refine ⟨ih.1, fun ho => ?_⟩
        rw [ih.2 ho]
        show c1.consumed + n = c.consumed + (n + 1)
        omega

/-! ### isolation: the world changes only through `dispatch`; the registry only through `close` -/

theorem processOneEvent_world (I : H11 H) (disp : Disp σ) (td : Teardown σ) (Q : World σ → Prop)
    (hq : ∀ w r b w' resp, disp w r b = .ok (w', resp) → Q w → Q w') (ht : ∀ w, Q w → Q (td w).1) (c : Conn H σ) (h : Q c.w) :
    Q (processOneEvent I disp td c).1.w := by
  unfold processOneEvent
  split
  rename_i h' ev _
  cases ev with
  | paused => simp only []; split <;> exact h
  | endOfMessage =>
    simp only []
    split
    · exact h
    · rename_i w' r hd
      have hw' : Q w' := hq _ _ _ _ _ hd h
      have hf := (processResponse_frame I
        { c with h := h', idle := false, consumed := c.consumed + 1, eoms := c.eoms + 1,
                 overlapped := c.overlapped || c.pending.isSome, w := w' } r c.eoms).1
      split
      · rename_i c' hpr
        rw [hpr] at hf
        show Q c'.w
        rw [hf]; exact hw'
      · rename_i c' hpr
        rw [hpr] at hf
        show Q c'.w
        rw [hf]; exact hw'
      · rename_i c' hpr
        rw [hpr] at hf
        show Q (finishPairStep (teardownStep td c' r) r).w
        rw [(finishPairStep_frame _ r).1]
        exact teardownStep_world td Q ht c' r (by rw [hf]; exact hw')
  | _ => exact h

theorem processEvents_world (I : H11 H) (disp : Disp σ) (td : Teardown σ) (Q : World σ → Prop)
    (hq : ∀ w r b w' resp, disp w r b = .ok (w', resp) → Q w → Q w') (ht : ∀ w, Q w → Q (td w).1) :
    ∀ (n : Nat) (c : Conn H σ), Q c.w → Q (processEvents I disp td n c).1.w
  | 0, c, h => h
  | n + 1, c, h => by
    have hs := processOneEvent_world I disp td Q hq ht c h
    unfold processEvents
    split
    · rename_i c1 e hpoe; rw [hpoe] at hs; exact hs
    · rename_i c1 hpoe; rw [hpoe] at hs; exact hs
    · rename_i c1 hpoe; rw [hpoe] at hs; exact hs
    · rename_i c1 hpoe
      rw [hpoe] at hs
      split
      · split; exact hs
      · exact processEvents_world I disp td Q hq ht n _ hs

/-- closing is permanent; the registry entry of a connection is only ever removed, and only
    together with closing -/
def RegStep (c c' : Conn H σ) : Prop :=
  (c.closing = true → c'.closing = true) ∧
  (c'.registered = c.registered ∨ (c'.closing = true ∧ c'.registered = false))

theorem RegStep.refl (c : Conn H σ) : RegStep c c := ⟨id, Or.inl rfl⟩

theorem RegStep.close (c : Conn H σ) : RegStep c c.close := ⟨fun _ => rfl, Or.inr ⟨rfl, rfl⟩⟩

theorem RegStep.trans {a b c : Conn H σ} (h1 : RegStep a b) (h2 : RegStep b c) : RegStep a c := by
  refine ⟨fun h => h2.1 (h1.1 h), ?_⟩
  rcases h2.2 with h | h
  · rcases h1.2 with g | g
    · exact Or.inl (h.trans g)
    · exact Or.inr ⟨h2.1 g.1, h.trans g.2⟩
  · exact Or.inr h

theorem teardownStep_reg (td : Teardown σ) (c : Conn H σ) (r : Resp) : RegStep c (teardownStep td c r) := by
  unfold teardownStep
  split
  · split
    · exact ⟨fun _ => rfl, Or.inr ⟨rfl, rfl⟩⟩
    · exact ⟨id, Or.inl rfl⟩
  · exact RegStep.refl c

theorem processOneEvent_reg (I : H11 H) (disp : Disp σ) (td : Teardown σ) (c c' : Conn H σ) (s : Step)
    (hx : processOneEvent I disp td c = (c', s)) : RegStep c c' := by
  unfold processOneEvent at hx
  split at hx
  rename_i h' ev _
  cases ev with
  | paused =>
    simp only [] at hx
    split at hx <;> cases hx <;> exact ⟨id, Or.inl rfl⟩
  | endOfMessage =>
    simp only [] at hx
    split at hx
    · cases hx; exact ⟨id, Or.inl rfl⟩
    · rename_i w' r hd
      have hf := processResponse_frame I
        { c with h := h', idle := false, consumed := c.consumed + 1, eoms := c.eoms + 1,
                 overlapped := c.overlapped || c.pending.isSome, w := w' } r c.eoms
      obtain ⟨_, _, _, _, _, hns, hsm, _, _⟩ := hf
      split at hx
      · rename_i c'' hpr
        rw [hpr] at hns
        cases hx
        obtain ⟨g1, g2⟩ := hns (by simp)
        exact ⟨fun h => by rw [g1]; exact h, Or.inl g2⟩
      · rename_i c'' hpr
        rw [hpr] at hsm
        cases hx
        obtain ⟨g1, g2⟩ := hsm rfl
        exact ⟨fun _ => g1, Or.inr ⟨g1, g2⟩⟩
      · rename_i c'' hpr
        rw [hpr] at hns
        cases hx
        obtain ⟨g1, g2⟩ := hns (by simp)
        have h1 : RegStep c c'' := ⟨fun h => by rw [g1]; exact h, Or.inl g2⟩
        have h2 := teardownStep_reg td c'' r
        obtain ⟨_, _, f3, f4⟩ := finishPairStep_frame (teardownStep td c'' r) r
        have h3 : RegStep (teardownStep td c'' r) (finishPairStep (teardownStep td c'' r) r) :=
          ⟨fun h => by rw [f3]; exact h, Or.inl f4⟩
        have h4 := (h1.trans h2).trans h3
        exact ⟨h4.1, h4.2⟩
  | other => cases hx; exact ⟨fun _ => rfl, Or.inr ⟨rfl, rfl⟩⟩
  | _ => cases hx; exact ⟨id, Or.inl rfl⟩

theorem processEvents_reg (I : H11 H) (disp : Disp σ) (td : Teardown σ) :
    ∀ (n : Nat) (c : Conn H σ), RegStep c (processEvents I disp td n c).1
  | 0, c => RegStep.refl c
  | n + 1, c => by
    unfold processEvents
    split
    · rename_i c1 e hpoe; exact processOneEvent_reg I disp td c _ _ hpoe
    · rename_i c1 hpoe
      exact (processOneEvent_reg I disp td c _ _ hpoe).trans (RegStep.close c1)
    · rename_i c1 hpoe; exact processOneEvent_reg I disp td c _ _ hpoe
    · rename_i c1 hpoe
      have h1 := processOneEvent_reg I disp td c _ _ hpoe
      split
      · split
        rename_i h2 _ _ h3 _ _
        exact h1.trans (RegStep.close { c1 with h := h3 })
      · rename_i h2 _
        exact h1.trans (processEvents_reg I disp td n { c1 with h := h2 })

/-! ### the callbacks -/

theorem dataReceived_acct (I : H11 H) (disp : Disp σ) (td : Teardown σ) (dec : Bytes → Option Bytes) (n : Nat)
    (c : Conn H σ) (d : Bytes) (h : Acct c) : OutcomeOk (dataReceived I disp td dec n c d) := by
  unfold dataReceived
  split
  · split
    · exact h.close
    · split
      · exact h
      · exact processEvents_acct I disp td n _ ⟨h.order, h.count, h.pend, h.reg⟩
  · exact processEvents_acct I disp td n _ ⟨h.order, h.count, h.pend, h.reg⟩

theorem dataReceived_no_esc (I : H11 H) (disp : Disp σ) (td : Teardown σ) (hd : Total disp) (dec : Bytes → Option Bytes)
    (n : Nat) (c : Conn H σ) (d : Bytes) (e : Exn) : (dataReceived I disp td dec n c d).2 ≠ .esc e := by
  unfold dataReceived
  split
  · split
    · simp
    · split
      · simp
      · exact processEvents_no_esc I disp td hd n _ e
  · exact processEvents_no_esc I disp td hd n _ e

theorem dataReceived_reg (I : H11 H) (disp : Disp σ) (td : Teardown σ) (dec : Bytes → Option Bytes) (n : Nat)
    (c : Conn H σ) (d : Bytes) : RegStep c (dataReceived I disp td dec n c d).1 := by
  unfold dataReceived
  split
  · split
    · exact RegStep.close c
    · rename_i plain _
      split
      · exact RegStep.refl c
      · have key := processEvents_reg I disp td n { c with h := I.receiveData c.h plain }
        exact ⟨key.1, key.2⟩
  · have key := processEvents_reg I disp td n { c with h := I.receiveData c.h d }
    exact ⟨key.1, key.2⟩

theorem dataReceived_world (I : H11 H) (disp : Disp σ) (td : Teardown σ) (Q : World σ → Prop)
    (hq : ∀ w r b w' resp, disp w r b = .ok (w', resp) → Q w → Q w') (ht : ∀ w, Q w → Q (td w).1)
    (dec : Bytes → Option Bytes) (n : Nat) (c : Conn H σ) (d : Bytes) (h : Q c.w) :
    Q (dataReceived I disp td dec n c d).1.w := by
  unfold dataReceived
  split
  · split
    · exact h
    · split
      · exact h
      · exact processEvents_world I disp td Q hq ht n _ h
  · exact processEvents_world I disp td Q hq ht n _ h

/-- The delayed response: if `h11.send` accepts it, the accounting invariant is kept. -/
theorem responseReady_acct (I : H11 H) (c : Conn H σ) (res : Except Exn Bytes) (h : Acct c)
    (hok : (responseReady I c res).2 = true) : Acct (responseReady I c res).1 := by
  unfold responseReady at hok ⊢
  cases hp : c.pending with
  | none => simpa [hp] using h
  | some r =>
    simp only [hp] at hok ⊢
    have hid : ∃ k, c.pendingId = some k := by
      have := h.pend; rw [hp] at this
      cases hk : c.pendingId with
      | none => rw [hk] at this; cases this
      | some k => exact ⟨k, rfl⟩
    obtain ⟨k, hk⟩ := hid
    by_cases hcl : c.closing = true
    · rw [if_pos hcl]
      exact ⟨Or.inl hcl, h.count, rfl, h.reg⟩
    · rw [if_neg hcl] at hok ⊢
      have hf := sendResponse_frame I { c with pending := none, pendingId := none }
        (readyResp r res) (c.pendingId.getD 0)
      obtain ⟨_, h2, h3, h4, h5, h6, h7, _, _, h10, _⟩ := hf
      obtain ⟨b, hb1, hb2⟩ := h10 hok
      refine ⟨?_, ?_, ?_, ?_⟩
      · rw [h2, h4, h5, hb2, h6]
        rcases h.order with ho | ho | ho
        · exact Or.inl ho
        · exact Or.inr (Or.inl ho)
        · refine Or.inr (Or.inr ?_)
          rw [hk] at ho
          simpa [hk] using ho
      · rw [hb1, hb2]; simp [List.filter_append, List.filter, Out.isWrite, h.count]
      · rw [h6, h7]; rfl
      · rw [h2, h3]; exact h.reg

theorem connectionLost_acct (onLost : World σ → World σ) (c : Conn H σ) (h : Acct c) :
    Acct (connectionLost onLost c) :=
  Acct.close_of (c := { c with w := onLost c.w }) h.count h.pend

/-- Whatever sequence of callbacks a connection object lives through: unless a callback let an
    exception escape, the accounting invariant holds at the end. -/
theorem runCallbacks_acct (I : H11 H) (disp : Disp σ) (td : Teardown σ) (onLost : World σ → World σ) :
    ∀ (cbs : List Callback) (c : Conn H σ), Acct c →
      (∀ o ∈ (runCallbacks I disp td onLost c cbs).2, ∀ e, o ≠ .esc e) →
      Acct (runCallbacks I disp td onLost c cbs).1
  | [], c, h, _ => h
  | cb :: rest, c, h, hne => by
    simp only [runCallbacks] at hne ⊢
    have ho : ∀ e, (runCallback I disp td onLost c cb).2 ≠ .esc e := fun e => hne _ (by simp) e
    have hA : Acct (runCallback I disp td onLost c cb).1 := by
      cases cb with
      | data d dec fuel =>
        have := dataReceived_acct I disp td dec fuel c d h
        unfold OutcomeOk at this
        simp only [runCallback] at ho ⊢
        revert this ho
        cases (dataReceived I disp td dec fuel c d).2 <;> simp
      | ready res =>
        simp only [runCallback] at ho ⊢
        have := responseReady_acct I c res h
        revert this ho
        generalize responseReady I c res = x
        obtain ⟨c', b⟩ := x
        cases b <;> simp
      | lost => exact connectionLost_acct onLost c h
    exact runCallbacks_acct I disp td onLost rest _ hA (fun o hm e => hne o (by simp [hm]) e)

/-! ### a response without flags: `_process_response` is `send_response` and nothing else -/

theorem processResponse_plain (I : H11 H) (c : Conn H σ) (r : Resp) (id : Nat)
    (ht : r.task = false) (hk : r.sharedKey = false) :
    (processResponse I c r id).1 = (sendResponse I c r id).1 ∧
    (processResponse I c r id).2 = (if (sendResponse I c r id).2 then .ok else .proto) := by
  unfold processResponse respFirst
  simp only [ht, hk, Bool.false_eq_true, if_false]
  cases (sendResponse I c r id).2 <;> simp

theorem sendResponse_flags (I : H11 H) (c : Conn H σ) (r : Resp) (id : Nat) :
    (sendResponse I c r id).1.encrypted = c.encrypted ∧ (sendResponse I c r id).1.finishPair = c.finishPair := by
  unfold sendResponse
  simp only []
  split
  · exact ⟨rfl, rfl⟩
  · split
    · exact ⟨rfl, rfl⟩
    · split <;> exact ⟨rfl, rfl⟩

/-- what `_process_one_event` does with a response that carries no flag at all: one write (or h11
    refuses and nothing is written), nothing else of the connection object changes -/
theorem respond_plain (I : H11 H) (td : Teardown σ) (d : Conn H σ) (r : Resp) (id : Nat)
    (ht : r.task = false) (hk : r.sharedKey = false) (hr : r.pairingRemoved = false) (hc : r.pairingChanged = false) :
    let x : Conn H σ × Step :=
      match processResponse I d r id with
      | (c', .proto) => (c', .proto)
      | (c', .smuggled) => ({ c' with request := none, body := [] }, .cont true)
      | (c', .ok) => ({ finishPairStep (teardownStep td c' r) r with request := none, body := [] }, .cont true)
    x.1.w = d.w ∧ x.1.pending = d.pending ∧ x.1.encrypted = d.encrypted ∧ x.1.finishPair = d.finishPair ∧
    x.1.closing = d.closing ∧ (x.1.out = d.out ∨ ∃ b, x.1.out = d.out ++ [.write b]) := by
  obtain ⟨hp1, hp2⟩ := processResponse_plain I d r id ht hk
  obtain ⟨s1, s2, _, _, _, _, s7, _, _, s10, s11⟩ := sendResponse_frame I d r id
  obtain ⟨g1, g2⟩ := sendResponse_flags I d r id
  generalize processResponse I d r id = y at hp1 hp2
  obtain ⟨c1, res⟩ := y
  simp only [] at hp1 hp2
  subst hp1
  cases hok : (sendResponse I d r id).2
  · rw [hok] at hp2; simp only [Bool.false_eq_true, if_false] at hp2; subst hp2
    exact ⟨s1, s7, g1, g2, s2, Or.inl (s11 hok).1⟩
  · rw [hok] at hp2; simp only [if_true] at hp2; subst hp2
    obtain ⟨b, o1, _⟩ := s10 hok
    simp only [teardownStep, finishPairStep, hr, hc, Bool.false_eq_true, if_false]
    exact ⟨s1, s7, g1, g2, s2, Or.inr ⟨b, o1⟩⟩

end Hap.Http
