/-
  The pump under h11's documented connection state machine (`H11Contract`, relations in
  HapModel/Pump.lean): the synchronisation invariant `Sync` between the pump's own bookkeeping
  (`pending`, `overlapped`) and the two sides of the h11 connection, over arbitrary callback
  histories.  Consequences: the delayed-response callback always finds our side in SEND_RESPONSE
  (so nothing escapes it), and h11 never delivers a message while a delayed response is outstanding.
-/
import Proofs.Pump
namespace Hap.Http

variable {H σ : Type}

/-- h11 follows its documented state machine, read through `ours` / `theirs`
    (`Connection.our_state` / `their_state`). Every clause is a decidable relation on the states
    before and after ONE call, so the driver evaluates the same clauses on each recorded call of the
    real h11 in the differential run. -/
structure H11Contract (I : H11 H) (ours theirs : H → HState) : Prop where
  /-- `receive_data` only buffers -/
  recv : ∀ h d, ours (I.receiveData h d) = ours h ∧ theirs (I.receiveData h d) = theirs h
  next : ∀ h, NextOk (ours h) (theirs h) (I.nextEvent h).2 (ours (I.nextEvent h).1) (theirs (I.nextEvent h).1)
  cycle : ∀ h, CycleOk (ours h) (theirs h) (I.startNextCycle h).2
    (ours (I.startNextCycle h).1) (theirs (I.startNextCycle h).1)
  /-- reading `our_state` / `trailing_data` changes nothing -/
  peek : ∀ h, ours (I.ourStateMustClose h).1 = ours h ∧ theirs (I.ourStateMustClose h).1 = theirs h
  trail : ∀ h, ours (I.trailingData h).1 = ours h ∧ theirs (I.trailingData h).1 = theirs h
  send : ∀ h ev, SendOk (ours h) (theirs h) ev (I.send h ev).2.isSome
    (ours (I.send h ev).1) (theirs (I.send h ev).1)
  /-- a new connection starts IDLE / IDLE -/
  fresh : ∀ h, ours (I.fresh h) = .idle ∧ theirs (I.fresh h) = .idle

/-- h11 refuses no send that its state machine permits. (What this leaves out: framing refusals —
    a body on the answer to HEAD, more or fewer bytes than the declared Content-Length. The delayed
    answer is a 200/500 to a POST with Content-Length = len(body).) -/
def NoFramingRefusal (I : H11 H) (ours : H → HState) : Prop :=
  ∀ h ev, SendLegal (ours h) ev → (I.send h ev).2.isSome = true

/-- The pump and the h11 connection are in step (or the connection is closing):
    while the peer's body is being received, and while a delayed response is outstanding, our side
    awaits a response; the peer can only be IDLE if we are; a delayed response is outstanding only
    between messages of the peer; no message was ever delivered during one. -/
def Sync (ours theirs : H → HState) (c : Conn H σ) : Prop :=
  c.closing = true ∨
  ((theirs c.h = .sendBody → ours c.h = .sendResponse) ∧
   (theirs c.h = .idle → ours c.h = .idle) ∧
   (c.pending.isSome = true → ours c.h = .sendResponse ∧ (theirs c.h).quiet) ∧
   c.overlapped = false)

theorem Sync.of_quiet {ours theirs : H → HState} {c : Conn H σ} (hq : (theirs c.h).quiet)
    (hp : c.pending.isSome = true → ours c.h = .sendResponse) (ho : c.overlapped = false) :
    Sync ours theirs c :=
  Or.inr ⟨fun h => absurd h hq.2, fun h => absurd h hq.1, fun h => ⟨hp h, hq⟩, ho⟩

theorem Sync.close {ours theirs : H → HState} (c : Conn H σ) : Sync ours theirs c.close := Or.inl rfl

section
variable {I : H11 H} {ours theirs : H → HState} (hC : H11Contract I ours theirs)
include hC

theorem send_quiet (h : H) (ev : SendEv) (hq : (theirs h).quiet) : (theirs (I.send h ev).1).quiet := by
  obtain ⟨h1, h2, _⟩ := hC.send h ev
  exact ⟨fun e => hq.1 (h2 e), fun e => hq.2 (h1 e)⟩

theorem send_quiet' {h : H} {ev : SendEv} {h1 : H} {x : Option Bytes} (heq : I.send h ev = (h1, x))
    (hq : (theirs h).quiet) : (theirs h1).quiet := by
  have := send_quiet hC h ev hq; rw [heq] at this; exact this

theorem sendResponse_quiet (c : Conn H σ) (r : Resp) (id : Nat) (hq : (theirs c.h).quiet) :
    (theirs (sendResponse I c r id).1.h).quiet := by
  unfold sendResponse
  simp only []
  split
  · rename_i h1 heq
    exact send_quiet' hC heq hq
  · rename_i h1 b1 heq
    have q1 := send_quiet' hC heq hq
    split
    · rename_i h2 heq2
      exact send_quiet' hC heq2 q1
    · rename_i h2 b2 heq2
      have q2 := send_quiet' hC heq2 q1
      split
      · rename_i h3 heq3
        exact send_quiet' hC heq3 q2
      · rename_i h3 b3 heq3
        exact send_quiet' hC heq3 q2

theorem send_state_resp {h : H} {st : Nat} {hd : List (String × String)} {h1 : H} {b : Bytes}
    (heq : I.send h (.response st hd) = (h1, some b)) (ho : ours h = .sendResponse) : ours h1 = .sendBody := by
  have := (hC.send h (.response st hd)).2.2
  rw [heq] at this
  exact this rfl ho

theorem send_state_data {h : H} {d : Bytes} {h1 : H} {b : Bytes}
    (heq : I.send h (.data d) = (h1, some b)) (ho : ours h = .sendBody) : ours h1 = .sendBody := by
  have := (hC.send h (.data d)).2.2
  rw [heq] at this
  exact this rfl ho

omit hC in
theorem send_legal {hF : NoFramingRefusal I ours} {h : H} {ev : SendEv} {h1 : H}
    (heq : I.send h ev = (h1, none)) (hl : SendLegal (ours h) ev) : False := by
  have := hF h ev hl
  rw [heq] at this; cases this

/-- In SEND_RESPONSE, and if h11 refuses nothing the state machine permits, `send_response`
    goes through. -/
theorem sendResponse_ok (hF : NoFramingRefusal I ours) (c : Conn H σ) (r : Resp) (id : Nat)
    (ho : ours c.h = .sendResponse) : (sendResponse I c r id).2 = true := by
  unfold sendResponse
  simp only []
  split
  · rename_i h1 heq
    exact (send_legal (hF := hF) heq ho).elim
  · rename_i h1 b1 heq
    have o1 : ours h1 = .sendBody := send_state_resp hC heq ho
    split
    · rename_i h2 heq2
      exact (send_legal (hF := hF) heq2 o1).elim
    · rename_i h2 b2 heq2
      have o2 : ours h2 = .sendBody := send_state_data hC heq2 o1
      split
      · rename_i h3 heq3
        exact (send_legal (hF := hF) heq3 o2).elim
      · rfl

omit hC in
theorem sendResponse_fields (c : Conn H σ) (r : Resp) (id : Nat) :
    (sendResponse I c r id).1.pending = c.pending ∧ (sendResponse I c r id).1.overlapped = c.overlapped ∧
    (sendResponse I c r id).1.closing = c.closing := by
  have := sendResponse_frame I c r id
  exact ⟨this.2.2.2.2.2.2.1, this.2.2.2.1, this.2.1⟩

/-- `_process_response` for a message that has just ended (their side quiet, ours in
    SEND_RESPONSE, nothing outstanding). -/
theorem processResponse_sync (c : Conn H σ) (r : Resp) (id : Nat) (hq : (theirs c.h).quiet)
    (ho : ours c.h = .sendResponse) (hp : c.pending = none) (hov : c.overlapped = false) :
    Sync ours theirs (processResponse I c r id).1 := by
  have hfirst : (theirs (respFirst I c r id).1.h).quiet ∧ (respFirst I c r id).1.overlapped = false ∧
      ((respFirst I c r id).1.pending.isSome = true → ours (respFirst I c r id).1.h = .sendResponse) := by
    unfold respFirst
    split
    · exact ⟨hq, hov, fun _ => ho⟩
    · obtain ⟨f1, f2, _⟩ := sendResponse_fields (I := I) c r id
      refine ⟨sendResponse_quiet hC c r id hq, by rw [f2]; exact hov, fun h => ?_⟩
      rw [f1, hp] at h; cases h
  obtain ⟨q1, ov1, p1⟩ := hfirst
  rcases processResponse_cases I c r id with ⟨_, he⟩ | ⟨_, h', e, hcase, he⟩ | ⟨_, he⟩
  · rw [he]; exact Sync.of_quiet q1 p1 ov1
  · rw [he]
    have hsame : ours h' = ours (respFirst I c r id).1.h ∧ theirs h' = theirs (respFirst I c r id).1.h := by
      rcases hcase with h | h
      · rw [h]; exact ⟨rfl, rfl⟩
      · rw [h]; exact hC.trail _
    refine Sync.of_quiet (c := { (respFirst I c r id).1 with h := h', encrypted := e }) ?_ ?_ ov1
    · show (theirs h').quiet; rw [hsame.2]; exact q1
    · intro h; show ours h' = _; rw [hsame.1]; exact p1 h
  · rw [he]; exact Sync.close _

omit hC in
/-- `Sync` only looks at the two state readings of the parser, `closing`, `pending`, `overlapped`. -/
theorem Sync.congr {c c' : Conn H σ} (hs : Sync ours theirs c)
    (ho : ours c'.h = ours c.h) (ht : theirs c'.h = theirs c.h) (hc : c'.closing = c.closing)
    (hp : c'.pending = c.pending) (hv : c'.overlapped = c.overlapped) : Sync ours theirs c' := by
  rcases hs with h | ⟨s1, s2, s3, s4⟩
  · exact Or.inl (by rw [hc]; exact h)
  · refine Or.inr ⟨?_, ?_, ?_, ?_⟩
    · rw [ho, ht]; exact s1
    · rw [ho, ht]; exact s2
    · rw [ho, ht, hp]; exact s3
    · rw [hv]; exact s4

omit hC in
theorem teardownStep_sync (td : Teardown σ) (c : Conn H σ) (r : Resp) (hs : Sync ours theirs c) :
    Sync ours theirs (teardownStep td c r) := by
  unfold teardownStep
  split
  · split
    · exact Sync.close _
    · exact hs.congr rfl rfl rfl rfl rfl
  · exact hs

omit hC in
theorem finishPairStep_sync (c : Conn H σ) (r : Resp) (hs : Sync ours theirs c) :
    Sync ours theirs (finishPairStep c r) := by
  unfold finishPairStep
  split
  · exact hs.congr rfl rfl rfl rfl rfl
  · exact hs

/-- what `_process_events` may rely on after one `_process_one_event` -/
def SyncStep (ours theirs : H → HState) (x : Conn H σ × Step) : Prop :=
  match x.2 with
  | .cont _ => Sync ours theirs x.1
  | _ => True

theorem processOneEvent_sync (disp : Disp σ) (td : Teardown σ) (c : Conn H σ) (hs : Sync ours theirs c) :
    SyncStep ours theirs (processOneEvent I disp td c) := by
  rcases hs with hcl | ⟨s1, s2, s3, s4⟩
  · -- already closing: stays closing
    have hr := processOneEvent_reg I disp td c _ _ rfl
    unfold SyncStep
    split
    · exact Or.inl (hr.1 hcl)
    · trivial
  · have hn := hC.next c.h
    unfold processOneEvent
    split
    rename_i h' ev heq
    rw [heq] at hn
    simp only [] at hn
    -- the generic consequence for events that are not Request / Data / EndOfMessage
    have generic : ((theirs h' = .sendBody → theirs c.h = .sendBody) ∧
        (theirs h' = .idle → theirs c.h = .idle ∧ ours h' = ours c.h) ∧
        ((theirs c.h).quiet → (theirs h').quiet)) →
        ∀ c' : Conn H σ, c'.h = h' → c'.pending = c.pending → c'.overlapped = c.overlapped →
          Sync ours theirs c' := by
      intro ⟨g2, g3, g4⟩ c' hh hp hv
      refine Or.inr ⟨?_, ?_, ?_, ?_⟩
      · rw [hh]; exact fun h => hn.1 (s1 (g2 h))
      · rw [hh]; intro h; obtain ⟨a, b⟩ := g3 h; rw [b]; exact s2 a
      · rw [hh, hp]; intro h; obtain ⟨a, b⟩ := s3 h; exact ⟨hn.1 a, g4 b⟩
      · rw [hv]; exact s4
    cases ev with
    | raiseRemote => trivial
    | raiseLocal => trivial
    | needData => exact generic hn.2 _ rfl rfl rfl
    | connectionClosed => exact generic hn.2 _ rfl rfl rfl
    | other => exact Sync.close _
    | paused =>
      have hmid := generic hn.2 { c with h := h', idle := false } rfl rfl rfl
      have hcy := hC.cycle h'
      simp only []
      split
      · rename_i h'' hce
        rw [hce] at hcy
        simp only [CycleOk, if_true] at hcy
        obtain ⟨c1, c2, c3, c4⟩ := hcy
        refine Or.inr ⟨?_, ?_, ?_, s4⟩
        · show theirs h'' = _ → _; rw [c4]; intro h; cases h
        · show _ → ours h'' = _; exact fun _ => c3
        · show c.pending.isSome = true → _
          intro hp
          rcases hmid with hm | ⟨_, _, m3, _⟩
          · -- c.closing = true contradicts nothing here: but then Sync holds by closing
            exact absurd (s3 hp).1 (by
              have := hn.1 (s3 hp).1
              rw [c1] at this; cases this)
          · have := (m3 hp).1
            rw [show ours ({ c with h := h', idle := false } : Conn H σ).h = ours h' from rfl, c1] at this
            cases this
      · trivial
    | request r =>
      obtain ⟨hk, ht, ht', ho⟩ := hn
      refine Or.inr ⟨?_, ?_, ?_, s4⟩
      · show _ → ours h' = _; exact fun _ => ho (s2 ht)
      · show theirs h' = _ → _; rw [ht']; intro h; cases h
      · show c.pending.isSome = true → _
        intro hp; exact absurd ht (s3 hp).2.1
    | data d =>
      obtain ⟨hk, ht, ht'⟩ := hn
      refine Or.inr ⟨?_, ?_, ?_, s4⟩
      · show _ → ours h' = _; exact fun _ => hk (s1 ht)
      · show theirs h' = _ → _; rw [ht']; intro h; cases h
      · show c.pending.isSome = true → _
        intro hp; exact absurd ht (s3 hp).2.2
    | endOfMessage =>
      obtain ⟨hk, ht, hq'⟩ := hn
      have hpn : c.pending = none := by
        cases hp : c.pending with
        | none => rfl
        | some x => exact absurd ht (s3 (by simp [hp])).2.2
      simp only []
      split
      · trivial
      · rename_i w' r hd
        have key := processResponse_sync hC
          ({ c with h := h', idle := false, consumed := c.consumed + 1, eoms := c.eoms + 1,
                    overlapped := c.overlapped || c.pending.isSome, w := w' } : Conn H σ) r c.eoms
          hq' (hk (s1 ht)) hpn (by simp [s4, hpn])
        split
        · trivial
        · rename_i c' hpr
          rw [hpr] at key
          exact key.congr rfl rfl rfl rfl rfl
        · rename_i c' hpr
          rw [hpr] at key
          exact (finishPairStep_sync _ r (teardownStep_sync td c' r key)).congr rfl rfl rfl rfl rfl

/-- `Sync` after a callback, unless a non-protocol exception escaped -/
def OutcomeSync (ours theirs : H → HState) (x : Conn H σ × Outcome) : Prop :=
  match x.2 with
  | .esc _ => True
  | _ => Sync ours theirs x.1

theorem processEvents_sync (disp : Disp σ) (td : Teardown σ) :
    ∀ (n : Nat) (c : Conn H σ), Sync ours theirs c → OutcomeSync ours theirs (processEvents I disp td n c)
  | 0, c, h => h
  | n + 1, c, h => by
    have hs := processOneEvent_sync hC disp td c h
    unfold processEvents
    split
    · trivial
    · exact Sync.close _
    · rename_i c1 hpoe
      rw [hpoe] at hs
      exact hs
    · rename_i c1 hpoe
      rw [hpoe] at hs
      have hs : Sync ours theirs c1 := hs
      split
      · split
        exact Sync.close _
      · rename_i h2 hpk
        have hp := hC.peek c1.h
        rw [hpk] at hp
        exact processEvents_sync disp td n _ (hs.congr hp.1 hp.2 rfl rfl rfl)

theorem dataReceived_sync (disp : Disp σ) (td : Teardown σ) (dec : Bytes → Option Bytes) (n : Nat)
    (c : Conn H σ) (d : Bytes) (h : Sync ours theirs c) :
    OutcomeSync ours theirs (dataReceived I disp td dec n c d) := by
  unfold dataReceived
  split
  · split
    · exact Sync.close _
    · rename_i plain _
      split
      · exact h
      · exact processEvents_sync hC disp td n _
          (h.congr (hC.recv c.h plain).1 (hC.recv c.h plain).2 rfl rfl rfl)
  · exact processEvents_sync hC disp td n _ (h.congr (hC.recv c.h d).1 (hC.recv c.h d).2 rfl rfl rfl)

/-- The delayed response: the invariant is kept, and — if h11 refuses no send its state machine
    permits — `send_response` goes through, so nothing propagates out of the callback. -/
theorem responseReady_sync (c : Conn H σ) (res : Except Exn Bytes) (h : Sync ours theirs c) :
    Sync ours theirs (responseReady I c res).1 ∧
    (NoFramingRefusal I ours → (responseReady I c res).2 = true) := by
  unfold responseReady
  cases hp : c.pending with
  | none => exact ⟨h, fun _ => rfl⟩
  | some r =>
    simp only []
    by_cases hcl : c.closing = true
    · rw [if_pos hcl]
      exact ⟨Or.inl hcl, fun _ => rfl⟩
    · rw [if_neg hcl]
      rcases h with h | ⟨_, _, s3, s4⟩
      · exact absurd h hcl
      · obtain ⟨ho, hq⟩ := s3 (by simp [hp])
        refine ⟨?_, fun hF => sendResponse_ok hC hF _ _ _ ho⟩
        obtain ⟨f1, f2, _⟩ := sendResponse_fields (I := I)
          ({ c with pending := none, pendingId := none } : Conn H σ) (readyResp r res) (c.pendingId.getD 0)
        refine Sync.of_quiet (sendResponse_quiet hC _ _ _ hq) (fun hh => ?_) (by rw [f2]; exact s4)
        rw [f1] at hh; cases hh

/-- Whatever sequence of callbacks a connection object lives through, with a total `dispatch`, an
    h11 that follows its state machine and refuses no permitted send: NO callback lets an exception
    out, and the pump stays in step with the parser. -/
theorem runCallbacks_sync (disp : Disp σ) (hd : Total disp) (td : Teardown σ) (onLost : World σ → World σ)
    (hF : NoFramingRefusal I ours) :
    ∀ (cbs : List Callback) (c : Conn H σ), Sync ours theirs c →
      Sync ours theirs (runCallbacks I disp td onLost c cbs).1 ∧
      ∀ o ∈ (runCallbacks I disp td onLost c cbs).2, ∀ e, o ≠ .esc e
  | [], c, h => ⟨h, by simp [runCallbacks]⟩
  | cb :: rest, c, h => by
    simp only [runCallbacks]
    have hstep : Sync ours theirs (runCallback I disp td onLost c cb).1 ∧
        ∀ e, (runCallback I disp td onLost c cb).2 ≠ .esc e := by
      cases cb with
      | data d dec fuel =>
        have h1 := dataReceived_sync hC disp td dec fuel c d h
        have h2 := dataReceived_no_esc I disp td hd dec fuel c d
        simp only [runCallback]
        refine ⟨?_, h2⟩
        unfold OutcomeSync at h1
        revert h1 h2
        cases (dataReceived I disp td dec fuel c d).2 <;> simp
      | ready res =>
        obtain ⟨h1, h2⟩ := responseReady_sync hC c res h
        have h3 := h2 hF
        simp only [runCallback]
        revert h1 h3
        generalize responseReady I c res = x
        obtain ⟨c', b⟩ := x
        intro h1 h3
        simp only [] at h3
        subst h3
        exact ⟨h1, by simp⟩
      | lost => exact ⟨Sync.close _, by simp [runCallback]⟩
    obtain ⟨ih1, ih2⟩ := runCallbacks_sync disp hd td onLost hF rest _ hstep.1
    refine ⟨ih1, fun o hm e => ?_⟩
    simp only [List.mem_cons] at hm
    rcases hm with hm | hm
    · rw [hm]; exact hstep.2 e
    · exact ih2 o hm e

end

/-! ### the contract is satisfiable: the small executable h11 meets it -/

theorem miniH11_contract : H11Contract miniH11 Mini.o Mini.t where
  recv := fun _ _ => ⟨rfl, rfl⟩
  next := by
    intro m
    show NextOk m.o m.t (miniNext m).2 (miniNext m).1.o (miniNext m).1.t
    unfold miniNext
    split
    · simp [NextOk]
    · rename_i e rest _
      cases e <;> simp only [] <;> (try split) <;> simp_all [NextOk, HState.quiet]
  cycle := by
    intro m
    show CycleOk m.o m.t _ _ _
    simp only [miniH11]
    split <;> simp_all [CycleOk]
  peek := fun _ => ⟨rfl, rfl⟩
  trail := fun _ => ⟨rfl, rfl⟩
  send := by
    intro m ev
    show SendOk m.o m.t ev (miniSend m ev).2.isSome (miniSend m ev).1.o (miniSend m ev).1.t
    cases ev <;> simp only [miniSend] <;> (try split) <;> simp_all [SendOk]
  fresh := fun _ => ⟨rfl, rfl⟩

theorem miniH11_noFramingRefusal : NoFramingRefusal miniH11 Mini.o := by
  intro m ev hl
  show (miniSend m ev).2.isSome = true
  cases ev <;> simp_all [SendLegal, miniSend]

end Hap.Http
