/-
  Invariants of the two-thread model (HapModel/Race.lean), proved for every scheduler bit list.
-/
import HapModel.Race
namespace Hap.Race

/-! ## 1. No stale cache -/

/-- The worker has assigned `_value` and has not yet cleared the with-value cache. -/
def WorkerWillClear (s : Cfg) : Prop :=
  match s.wpc with
  | .wClear0 _ _ => True
  | .wClear1 _ _ => True
  | _ => False

/-- The loop thread is between storing the cache and the end of the re-check. -/
def LoopWillCheck (s : Cfg) : Prop :=
  match s.lpc with
  | .hRecheck _ => True
  | .hDrop _ => True
  | _ => False

/-- Invariant: a cache that renders another object than `_value` exists only inside one of the two
    windows, and inside the loop's window the cache is either gone or the object just stored. -/
def CacheInv (s : Cfg) : Prop :=
  (∀ r, s.lpc = .hRecheck r → s.cacheV = none ∨ s.cacheV = some r) ∧
  (Fresh s ∨ WorkerWillClear s ∨ LoopWillCheck s)

theorem cacheInv_stepLoop (s : Cfg) (h : CacheInv s) : CacheInv (stepLoop true s).1 := by
  obtain ⟨h1, h2⟩ := h
  unfold stepLoop
  split
  · -- idle
    split
    · exact ⟨h1, h2⟩
    · rename_i op rest hl
      have hf : Fresh s ∨ WorkerWillClear s := by
        rcases h2 with h | h | h
        · exact Or.inl h
        · exact Or.inr h
        · simp_all [LoopWillCheck]
      cases op <;> simp only [] <;> (try split) <;> (try split) <;>
        simp_all [CacheInv, Fresh, WorkerWillClear, LoopWillCheck]
  all_goals (try split) <;>
    simp_all [CacheInv, Fresh, WorkerWillClear, LoopWillCheck, ret] <;> grind

theorem cacheInv_stepWorker (s : Cfg) (h : CacheInv s) : CacheInv (stepWorker s).1 := by
  obtain ⟨h1, h2⟩ := h
  unfold stepWorker
  split
  · split
    · exact ⟨h1, h2⟩
    · split <;> simp_all [CacheInv, Fresh, WorkerWillClear, LoopWillCheck]
  all_goals (try split) <;>
    simp_all [CacheInv, Fresh, WorkerWillClear, LoopWillCheck] <;> grind

theorem cacheInv_run (bits : List Bool) (s : Cfg) (h : CacheInv s) : CacheInv (run true bits s) := by
  induction bits generalizing s with
  | nil => exact h
  | cons b bs ih =>
    apply ih
    unfold step
    split
    · exact cacheInv_stepLoop s h
    · exact cacheInv_stepWorker s h

theorem cacheInv_of_quiet_fresh (s : Cfg) (hq : Quiet s) (hf : Fresh s) : CacheInv s := by
  refine ⟨?_, Or.inl hf⟩
  intro r hr
  simp_all [Quiet]

/-! ## 2. Updates are not lost -/

/-- The value the run is heading for, seen from any intermediate configuration. -/
def target (s : Cfg) : Obj :=
  match s.wpc with
  | .wAssign o _ => lastValid o s.wups
  | _ => lastValid s.value s.wups

theorem target_stepLoop (fix : Bool) (s : Cfg) : target (stepLoop fix s).1 = target s := by
  unfold stepLoop
  split
  · split
    · rfl
    · rename_i op rest hl
      cases op <;> simp only [] <;> (try split) <;> (try split) <;> simp_all [target]
  all_goals (try split) <;> simp_all [target, ret]

theorem target_stepWorker (s : Cfg) : target (stepWorker s).1 = target s := by
  unfold stepWorker
  split
  · split
    · rfl
    · split <;> simp_all [target, lastValid]
  all_goals (try split) <;> simp_all [target] <;> (try split) <;> simp_all

theorem target_run (fix : Bool) (bits : List Bool) (s : Cfg) : target (run fix bits s) = target s := by
  induction bits generalizing s with
  | nil => rfl
  | cons b bs ih =>
    simp only [run]
    rw [ih]
    unfold step
    split
    · exact target_stepLoop fix s
    · exact target_stepWorker s

/-! ## 3. Events -/

theorem getLast?_cons_of (d : Obj) (q : List Obj) :
    (d :: q).getLast? = (match q.getLast? with | some e => some e | none => some d) := by
  cases q with
  | nil => rfl
  | cons e q' =>
    rw [List.getLast?_cons_cons]
    cases h : (e :: q').getLast? with
    | none => simp at h
    | some x => rfl

theorem latest_congr (c : Conn) (base : Obj) (t s : Cfg) (hq : t.queue = s.queue)
    (hp : t.pending c = s.pending c) (hd : t.delivered c = s.delivered c) :
    latest c base t = latest c base s := by
  simp only [latest, hq, hp, hd]

theorem latest_flush (c : Conn) (base : Obj) (t s : Cfg) (d : Obj) (hq : t.queue = s.queue)
    (hd : s.pending c = some d) (hp : t.pending c = none)
    (hdl : t.delivered c = s.delivered c ++ [d]) : latest c base t = latest c base s := by
  simp only [latest, hq, hp, hdl, hd, List.getLast?_append, List.getLast?_singleton]
  cases s.queue.getLast? <;> simp

theorem latest_pop (c : Conn) (base : Obj) (t s : Cfg) (d : Obj) (q : List Obj)
    (hs : s.queue = d :: q) (hq : t.queue = q) (hp : t.pending c = some d) :
    latest c base t = latest c base s := by
  simp only [latest, hs, hq, hp, getLast?_cons_of]
  cases q.getLast? <;> rfl

theorem latest_push (c : Conn) (base : Obj) (t s : Cfg) (d : Obj) (hq : t.queue = s.queue ++ [d]) :
    latest c base t = d := by
  simp [latest, hq]

/-- What must hold of connection `c`'s pipeline, depending on where the worker is. -/
def WClause (w : WPc) (v lat : Obj) : Prop :=
  match w with
  | .idle => lat.val = v.val
  | .wAssign o ch => lat.val = v.val ∧ ch = decide (v.val ≠ o.val)
  | .wClear0 o ch => v = o ∧ (ch = false → lat.val = v.val)
  | .wClear1 o ch => v = o ∧ (ch = false → lat.val = v.val)
  | .wTopic d => d = v
  | .wEnq d => d = v

/-- Invariant for a connection `c` that stays subscribed: its pipeline ends in the current value,
    or the worker is inside an update that will still enqueue it. -/
def EvInv (c : Conn) (base : Obj) (s : Cfg) : Prop :=
  s.topicKey = true ∧ c ∈ s.subs ∧ (∀ op ∈ s.lops, op ≠ LoopOp.unsub c) ∧
  s.lpc ≠ .uKey ∧ (∀ c', s.lpc ≠ .sKey c') ∧ WClause s.wpc s.value (latest c base s)

theorem evInv_frame (c : Conn) (base : Obj) (s t : Cfg) (h : EvInv c base s)
    (hk : t.topicKey = true) (hs : c ∈ t.subs) (hl : ∀ op ∈ t.lops, op ∈ s.lops)
    (hp1 : t.lpc ≠ .uKey) (hp2 : ∀ c', t.lpc ≠ .sKey c')
    (hw : t.wpc = s.wpc) (hv : t.value = s.value)
    (hlat : latest c base t = latest c base s) : EvInv c base t := by
  obtain ⟨_, _, a3, _, _, a6⟩ := h
  refine ⟨hk, hs, fun op ho => a3 op (hl op ho), hp1, hp2, ?_⟩
  rw [hw, hlat, hv]
  exact a6

theorem evInv_stepWorker (c : Conn) (base : Obj) (s : Cfg) (h : EvInv c base s) :
    EvInv c base (stepWorker s).1 := by
  obtain ⟨a1, a2, a3, a4, a5, a6⟩ := h
  unfold stepWorker
  split
  · -- idle
    rename_i hw
    rw [hw] at a6
    split
    · refine ⟨a1, a2, a3, a4, a5, ?_⟩
      rw [hw]; exact a6
    · split
      · refine ⟨a1, a2, a3, a4, a5, ?_⟩
        exact ⟨a6, rfl⟩
      · refine ⟨a1, a2, a3, a4, a5, ?_⟩
        show WClause s.wpc _ _
        rw [hw]; exact a6
  · -- wAssign
    rename_i o ch hw
    refine ⟨a1, a2, a3, a4, a5, ?_⟩
    rw [hw] at a6
    obtain ⟨b1, b2⟩ := a6
    refine ⟨rfl, ?_⟩
    intro hch
    subst hch
    have hv : s.value.val = o.val := by
      have := b2.symm
      simpa using this
    show (latest c base s).val = o.val
    rw [b1, hv]
  · -- wClear0
    rename_i o ch hw
    refine ⟨a1, a2, a3, a4, a5, ?_⟩
    rw [hw] at a6
    exact a6
  · -- wClear1
    rename_i o ch hw
    refine ⟨a1, a2, a3, a4, a5, ?_⟩
    rw [hw] at a6
    obtain ⟨b1, b2⟩ := a6
    cases ch with
    | true => exact b1.symm
    | false => exact b2 rfl
  · -- wTopic
    rename_i d hw
    rw [hw] at a6
    split
    · exact ⟨a1, a2, a3, a4, a5, a6⟩
    · rename_i hk; exact absurd a1 hk
  · -- wEnq
    rename_i d hw
    rw [hw] at a6
    refine ⟨a1, a2, a3, a4, a5, ?_⟩
    show (latest c base _).val = s.value.val
    rw [latest_push c base _ s d rfl, a6]

theorem evInv_stepLoop (fix : Bool) (c : Conn) (base : Obj) (s : Cfg) (h : EvInv c base s) :
    EvInv c base (stepLoop fix s).1 := by
  have h0 := h
  obtain ⟨a1, a2, a3, a4, a5, a6⟩ := h
  have keep : ∀ t : Cfg, t.topicKey = s.topicKey → t.subs = s.subs → t.lops = s.lops →
      t.lpc ≠ .uKey → (∀ c', t.lpc ≠ .sKey c') → t.wpc = s.wpc → t.value = s.value →
      t.queue = s.queue → t.pending = s.pending → t.delivered = s.delivered → EvInv c base t := by
    intro t hk hs hl hp1 hp2 hw hv hq hp hd
    exact evInv_frame c base s t h0 (hk ▸ a1) (hs ▸ a2) (fun op ho => hl ▸ ho) hp1 hp2 hw hv
      (latest_congr c base t s hq (by rw [hp]) (by rw [hd]))
  unfold stepLoop
  split
  · -- idle: begin the next operation
    rename_i hpc
    split
    · exact h0
    · rename_i op rest hl
      have hrest : ∀ o ∈ rest, o ∈ s.lops := by
        intro o ho; rw [hl]; exact List.mem_cons_of_mem _ ho
      have b4 : s.lpc ≠ .uKey := a4
      cases op with
      | toHAP => exact evInv_frame c base s _ h0 a1 a2 hrest (by simp) (by simp) rfl rfl rfl
      | toHAPnv => exact evInv_frame c base s _ h0 a1 a2 hrest (by simp) (by simp) rfl rfl rfl
      | getValue => exact evInv_frame c base s _ h0 a1 a2 hrest (by simp) (by simp) rfl rfl rfl
      | drain => exact evInv_frame c base s _ h0 a1 a2 hrest (by simp) (by simp) rfl rfl rfl
      | sub c' =>
        simp only []
        split
        · refine evInv_frame c base s _ h0 a1 ?_ hrest a4 a5 rfl rfl rfl
          show c ∈ addConn s.subs c'
          unfold addConn; split
          · exact a2
          · exact List.mem_append_left _ a2
        · rename_i hk; exact absurd a1 hk
      | unsub c' =>
        have hne : c' ≠ c := by
          intro e; subst e
          exact a3 (.unsub c') (by rw [hl]; exact List.mem_cons_self) rfl
        have hmem : c ∈ s.subs.erase c' := (List.mem_erase_of_ne (Ne.symm hne)).mpr a2
        have hnon : (s.subs.erase c').isEmpty = false := by
          cases hh : s.subs.erase c' with
          | nil => rw [hh] at hmem; simp at hmem
          | cons _ _ => rfl
        simp only []
        split
        · split
          · rename_i he; rw [hnon] at he; exact absurd he (by simp)
          · exact evInv_frame c base s _ h0 a1 hmem hrest a4 a5 rfl rfl rfl
        · rename_i hk; exact absurd a1 hk
      | flush c' =>
        simp only []
        split
        · exact evInv_frame c base s _ h0 a1 a2 hrest a4 a5 rfl rfl rfl
        · rename_i d hd
          by_cases hcc : c' = c
          · subst hcc
            split
            · exact evInv_frame c' base s _ h0 a1 a2 hrest a4 a5 rfl rfl
                (latest_flush c' base _ s d rfl hd (by simp) (by simp))
            · rename_i hm; exact absurd a2 hm
          · have hcc' : c ≠ c' := fun e => hcc e.symm
            split
            · exact evInv_frame c base s _ h0 a1 a2 hrest a4 a5 rfl rfl
                (latest_congr c base _ s rfl (by simp [hcc']) (by simp [hcc']))
            · exact evInv_frame c base s _ h0 a1 a2 hrest a4 a5 rfl rfl
                (latest_congr c base _ s rfl (by simp [hcc']) rfl)
  · -- hCheck
    split <;> exact keep _ rfl rfl rfl (by simp) (by simp) rfl rfl rfl rfl rfl
  · exact keep _ rfl rfl rfl (by simp [ret]) (by simp [ret]) rfl rfl rfl rfl rfl
  · exact keep _ rfl rfl rfl (by simp) (by simp) rfl rfl rfl rfl rfl
  · split
    · exact keep _ rfl rfl rfl (by simp) (by simp) rfl rfl rfl rfl rfl
    · exact keep _ rfl rfl rfl (by simp [ret]) (by simp [ret]) rfl rfl rfl rfl rfl
  · split
    · exact keep _ rfl rfl rfl (by simp [ret]) (by simp [ret]) rfl rfl rfl rfl rfl
    · exact keep _ rfl rfl rfl (by simp) (by simp) rfl rfl rfl rfl rfl
  · exact keep _ rfl rfl rfl (by simp [ret]) (by simp [ret]) rfl rfl rfl rfl rfl
  · split <;> exact keep _ rfl rfl rfl (by simp) (by simp) rfl rfl rfl rfl rfl
  · exact keep _ rfl rfl rfl (by simp [ret]) (by simp [ret]) rfl rfl rfl rfl rfl
  · exact keep _ rfl rfl rfl (by simp [ret]) (by simp [ret]) rfl rfl rfl rfl rfl
  · exact keep _ rfl rfl rfl (by simp [ret]) (by simp [ret]) rfl rfl rfl rfl rfl
  · -- sKey: impossible
    rename_i c' hpc
    exact absurd hpc (a5 c')
  · -- uKey: impossible
    rename_i hpc
    exact absurd hpc a4
  · -- dLoop
    rename_i hpc
    split
    · exact keep _ rfl rfl rfl (by simp) (by simp) rfl rfl rfl rfl rfl
    · rename_i d q hq
      exact evInv_frame c base s _ h0 a1 a2 (fun _ h => h) a4 a5 rfl rfl
        (latest_pop c base _ s d q hq rfl (by simp [a2]))

theorem evInv_run (fix : Bool) (c : Conn) (base : Obj) (bits : List Bool) (s : Cfg)
    (h : EvInv c base s) : EvInv c base (run fix bits s) := by
  induction bits generalizing s with
  | nil => exact h
  | cons b bs ih =>
    apply ih
    unfold step
    split
    · exact evInv_stepLoop fix c base s h
    · exact evInv_stepWorker c base s h

/-! ## 4. Exactly the changing updates are handed to the loop, in order -/

/-- What the worker still owes, seen from an intermediate configuration. -/
def owed (s : Cfg) : List Obj :=
  match s.wpc with
  | .idle => changes s.value s.wups
  | .wAssign o ch => (if ch then [o] else []) ++ changes o s.wups
  | .wClear0 o ch => (if ch then [o] else []) ++ changes o s.wups
  | .wClear1 o ch => (if ch then [o] else []) ++ changes o s.wups
  | .wTopic d => [d] ++ changes d s.wups
  | .wEnq d => [d] ++ changes d s.wups

theorem owed_stepLoop (fix : Bool) (s : Cfg) :
    (stepLoop fix s).1.enq = s.enq ∧ owed (stepLoop fix s).1 = owed s := by
  unfold stepLoop
  split
  · split
    · exact ⟨rfl, rfl⟩
    · rename_i op rest hl
      cases op <;> simp only [] <;> (try split) <;> (try split) <;> simp_all [owed]
  all_goals (try split) <;> simp_all [owed, ret]

theorem owed_stepWorker (c : Conn) (base : Obj) (s : Cfg) (h : EvInv c base s) :
    (stepWorker s).1.enq ++ owed (stepWorker s).1 = s.enq ++ owed s := by
  obtain ⟨a1, _, _, _, _, a6⟩ := h
  unfold stepWorker
  split
  · rename_i hw
    rw [hw] at a6
    split
    · rfl
    · rename_i u rest hl
      split
      · rename_i hv
        simp [owed, hw, hl, changes, hv]
      · rename_i hv
        simp [owed, hw, hl, changes, hv]
  · rename_i o ch hw
    simp [owed, hw]
  · rename_i o ch hw
    simp [owed, hw]
  · rename_i o ch hw
    rw [hw] at a6
    have hv : s.value = o := a6.1
    cases ch <;> simp [owed, hw, hv]
  · rename_i d hw
    split
    · simp [owed, hw]
    · rename_i hk; exact absurd a1 hk
  · rename_i d hw
    rw [hw] at a6
    have hv : d = s.value := a6
    simp [owed, hw, hv]

theorem handoff_run (fix : Bool) (c : Conn) (base : Obj) (bits : List Bool) (s : Cfg)
    (h : EvInv c base s) :
    (run fix bits s).enq ++ owed (run fix bits s) = s.enq ++ owed s := by
  induction bits generalizing s with
  | nil => rfl
  | cons b bs ih =>
    simp only [run]
    have hstep : EvInv c base (step fix b s) := by
      unfold step; split
      · exact evInv_stepLoop fix c base s h
      · exact evInv_stepWorker c base s h
    rw [ih _ hstep]
    unfold step
    split
    · obtain ⟨e1, e2⟩ := owed_stepLoop fix s
      rw [e1, e2]
    · exact owed_stepWorker c base s h

end Hap.Race
