/-
  Invariants of the two-thread model (HapModel/Race.lean), proved for every scheduler bit list.
-/
import HapModel.Race
namespace Hap.Race

/-! ## 0. What `_send_events` and a controller write leave alone -/

@[simp] theorem sendEvents_value (s : Cfg) (c : Conn) : (sendEvents s c).value = s.value := by
  unfold sendEvents; split <;> (try split) <;> rfl

@[simp] theorem sendEvents_cacheV (s : Cfg) (c : Conn) : (sendEvents s c).cacheV = s.cacheV := by
  unfold sendEvents; split <;> (try split) <;> rfl

@[simp] theorem sendEvents_cache (s : Cfg) (c : Conn) : (sendEvents s c).cache = s.cache := by
  unfold sendEvents; split <;> (try split) <;> rfl

@[simp] theorem sendEvents_topicKey (s : Cfg) (c : Conn) : (sendEvents s c).topicKey = s.topicKey := by
  unfold sendEvents; split <;> (try split) <;> rfl

@[simp] theorem sendEvents_queue (s : Cfg) (c : Conn) : (sendEvents s c).queue = s.queue := by
  unfold sendEvents; split <;> (try split) <;> rfl

@[simp] theorem sendEvents_enq (s : Cfg) (c : Conn) : (sendEvents s c).enq = s.enq := by
  unfold sendEvents; split <;> (try split) <;> rfl

@[simp] theorem sendEvents_subs (s : Cfg) (c : Conn) : (sendEvents s c).subs = s.subs := by
  unfold sendEvents; split <;> (try split) <;> rfl

@[simp] theorem sendEvents_results (s : Cfg) (c : Conn) : (sendEvents s c).results = s.results := by
  unfold sendEvents; split <;> (try split) <;> rfl

@[simp] theorem sendEvents_lpc (s : Cfg) (c : Conn) : (sendEvents s c).lpc = s.lpc := by
  unfold sendEvents; split <;> (try split) <;> rfl

@[simp] theorem sendEvents_lops (s : Cfg) (c : Conn) : (sendEvents s c).lops = s.lops := by
  unfold sendEvents; split <;> (try split) <;> rfl

@[simp] theorem sendEvents_wpc (s : Cfg) (c : Conn) : (sendEvents s c).wpc = s.wpc := by
  unfold sendEvents; split <;> (try split) <;> rfl

@[simp] theorem sendEvents_wups (s : Cfg) (c : Conn) : (sendEvents s c).wups = s.wups := by
  unfold sendEvents; split <;> (try split) <;> rfl

@[simp] theorem ctrlWrite_topicKey (s : Cfg) (w : Conn) (v : Obj) : (ctrlWrite s w v).topicKey = s.topicKey := rfl

@[simp] theorem ctrlWrite_queue (s : Cfg) (w : Conn) (v : Obj) : (ctrlWrite s w v).queue = s.queue := rfl

@[simp] theorem ctrlWrite_enq (s : Cfg) (w : Conn) (v : Obj) : (ctrlWrite s w v).enq = s.enq := rfl

@[simp] theorem ctrlWrite_subs (s : Cfg) (w : Conn) (v : Obj) : (ctrlWrite s w v).subs = s.subs := rfl

@[simp] theorem ctrlWrite_delivered (s : Cfg) (w : Conn) (v : Obj) : (ctrlWrite s w v).delivered = s.delivered := rfl

@[simp] theorem ctrlWrite_results (s : Cfg) (w : Conn) (v : Obj) : (ctrlWrite s w v).results = s.results := rfl

@[simp] theorem ctrlWrite_lpc (s : Cfg) (w : Conn) (v : Obj) : (ctrlWrite s w v).lpc = s.lpc := rfl

@[simp] theorem ctrlWrite_lops (s : Cfg) (w : Conn) (v : Obj) : (ctrlWrite s w v).lops = s.lops := rfl

@[simp] theorem ctrlWrite_wpc (s : Cfg) (w : Conn) (v : Obj) : (ctrlWrite s w v).wpc = s.wpc := rfl

@[simp] theorem ctrlWrite_wups (s : Cfg) (w : Conn) (v : Obj) : (ctrlWrite s w v).wups = s.wups := rfl

@[simp] theorem ctrlWrite_value (s : Cfg) (w : Conn) (v : Obj) : (ctrlWrite s w v).value = v := rfl
@[simp] theorem ctrlWrite_cacheV (s : Cfg) (w : Conn) (v : Obj) : (ctrlWrite s w v).cacheV = none := rfl
@[simp] theorem ctrlWrite_cache (s : Cfg) (w : Conn) (v : Obj) : (ctrlWrite s w v).cache = false := rfl

theorem sendEvents_other (s : Cfg) (c c' : Conn) (h : c ≠ c') :
    (sendEvents s c').pending c = s.pending c ∧ (sendEvents s c').timer c = s.timer c ∧
    (sendEvents s c').knows c = s.knows c := by
  unfold sendEvents; split <;> (try split) <;> simp [h]

theorem sendEvents_self_pending (s : Cfg) (c : Conn) : (sendEvents s c).pending c = none := by
  unfold sendEvents; split <;> (try split) <;> simp_all

/-- The steps of the loop thread only consume its program. -/
theorem stepLoop_lops_sub (fix : Variant) (s : Cfg) : ∀ op ∈ (stepLoop fix s).1.lops, op ∈ s.lops := by
  unfold stepLoop
  split
  · split
    · exact fun _ h => h
    · rename_i op rest hl
      have hr : ∀ o ∈ rest, o ∈ s.lops := by
        intro o ho; rw [hl]; exact List.mem_cons_of_mem _ ho
      cases op <;> simp only [] <;> (try split) <;> (try split) <;> simpa using hr
  all_goals (try split) <;> (try split) <;> simp [ret]

theorem stepWorker_lops (s : Cfg) : (stepWorker s).1.lops = s.lops := by
  unfold stepWorker
  split
  · split
    · rfl
    · split <;> rfl
  all_goals (try split) <;> rfl

theorem noWrite_step (fix : Variant) (b : Bool) (s : Cfg) (h : NoWrite s.lops) : NoWrite (step fix b s).lops := by
  unfold step
  split
  · exact fun op ho => h op (stepLoop_lops_sub fix s op ho)
  · rw [stepWorker_lops]; exact h

theorem not_atWrite_of_noWrite (s : Cfg) (h : NoWrite s.lops) : ¬ AtWrite s := by
  rintro ⟨_, hw⟩
  cases hl : s.lops with
  | nil => rw [hl] at hw; simp [headIsWrite] at hw
  | cons op rest =>
    cases op with
    | write w v => exact h (.write w v) (by rw [hl]; exact List.mem_cons_self) w v rfl
    | _ => rw [hl] at hw; simp [headIsWrite] at hw

theorem serial_of_noWrite (fix : Variant) (bits : List Bool) (s : Cfg) (h : NoWrite s.lops) :
    Serial fix bits s := by
  induction bits generalizing s with
  | nil => trivial
  | cons b bs ih =>
    exact ⟨fun _ ha => absurd ha (not_atWrite_of_noWrite s h), ih _ (noWrite_step fix b s h)⟩

/-! ## 1. No stale cache -/

/-- The worker has assigned `_value` and has not yet cleared the with-value cache. -/
def WorkerWillClear (s : Cfg) : Prop :=
  match s.wpc with
  | .wClear0 _ _ => True
  | .wClear1 _ _ => True
  | _ => False

/-- The loop thread is between storing the cache and the end of the re-check. -/
def LoopWillCheck (s : Cfg) : Prop :=
  match s.lpc with
  | .hRecheck _ => True
  | .hDrop _ => True
  | _ => False

/-- Invariant: a cache that renders another object than `_value` exists only inside one of the two
    windows, and inside the loop's window the cache is either gone or the object just stored. -/
def CacheInv (s : Cfg) : Prop :=
  (∀ r, s.lpc = .hRecheck r → s.cacheV = none ∨ s.cacheV = some r) ∧
  (Fresh s ∨ WorkerWillClear s ∨ LoopWillCheck s)

theorem cacheInv_stepLoop (sg : Bool) (s : Cfg) (h : CacheInv s) : CacheInv (stepLoop ⟨true, sg⟩ s).1 := by
  obtain ⟨h1, h2⟩ := h
  unfold stepLoop
  split
  · -- idle
    split
    · exact ⟨h1, h2⟩
    · rename_i op rest hl
      have hf : Fresh s ∨ WorkerWillClear s := by
        rcases h2 with h | h | h
        · exact Or.inl h
        · exact Or.inr h
        · simp_all [LoopWillCheck]
      cases op <;> simp only [] <;> (try split) <;> (try split) <;>
        simp_all [CacheInv, Fresh, WorkerWillClear, LoopWillCheck]
  all_goals (try split) <;> (try split) <;>
    simp_all [CacheInv, Fresh, WorkerWillClear, LoopWillCheck, ret] <;> grind

theorem cacheInv_stepWorker (s : Cfg) (h : CacheInv s) : CacheInv (stepWorker s).1 := by
  obtain ⟨h1, h2⟩ := h
  unfold stepWorker
  split
  · split
    · exact ⟨h1, h2⟩
    · split <;> simp_all [CacheInv, Fresh, WorkerWillClear, LoopWillCheck]
  all_goals (try split) <;>
    simp_all [CacheInv, Fresh, WorkerWillClear, LoopWillCheck] <;> grind

theorem cacheInv_run (sg : Bool) (bits : List Bool) (s : Cfg) (h : CacheInv s) :
    CacheInv (run ⟨true, sg⟩ bits s) := by
  induction bits generalizing s with
  | nil => exact h
  | cons b bs ih =>
    apply ih
    unfold step
    split
    · exact cacheInv_stepLoop sg s h
    · exact cacheInv_stepWorker s h

theorem cacheInv_of_quiet_fresh (s : Cfg) (hq : Quiet s) (hf : Fresh s) : CacheInv s := by
  refine ⟨?_, Or.inl hf⟩
  intro r hr
  simp_all [Quiet]

/-! ## 2. Updates are not lost (loop programs without controller writes) -/

/-- The value the run is heading for, seen from any intermediate configuration. -/
def target (s : Cfg) : Obj :=
  match s.wpc with
  | .wAssign o _ => lastValid o s.wups
  | _ => lastValid s.value s.wups

theorem target_stepLoop (fix : Variant) (s : Cfg) (hn : NoWrite s.lops) :
    target (stepLoop fix s).1 = target s := by
  unfold stepLoop
  split
  · split
    · rfl
    · rename_i op rest hl
      cases op with
      | write w v => exact absurd rfl (hn (.write w v) (by rw [hl]; exact List.mem_cons_self) w v)
      | _ => simp only [] <;> (try split) <;> (try split) <;> simp_all [target]
  all_goals (try split) <;> (try split) <;> simp_all [target, ret]

theorem target_stepWorker (s : Cfg) : target (stepWorker s).1 = target s := by
  unfold stepWorker
  split
  · split
    · rfl
    · split <;> simp_all [target, lastValid]
  all_goals (try split) <;> simp_all [target] <;> (try split) <;> simp_all

theorem target_run (fix : Variant) (bits : List Bool) (s : Cfg) (hn : NoWrite s.lops) :
    target (run fix bits s) = target s := by
  induction bits generalizing s with
  | nil => rfl
  | cons b bs ih =>
    simp only [run]
    rw [ih _ (noWrite_step fix b s hn)]
    unfold step
    split
    · exact target_stepLoop fix s hn
    · exact target_stepWorker s

/-! ## 3. Events -/

theorem getLast?_cons_of (d : Obj) (q : List Obj) :
    (d :: q).getLast? = (match q.getLast? with | some e => some e | none => some d) := by
  cases q with
  | nil => rfl
  | cons e q' =>
    rw [List.getLast?_cons_cons]
    cases h : (e :: q').getLast? with
    | none => simp at h
    | some x => rfl

theorem latest_congr (c : Conn) (t s : Cfg) (hq : t.queue = s.queue)
    (hp : t.pending c = s.pending c) (hk : t.knows c = s.knows c) :
    latest c t = latest c s := by
  simp only [latest, hq, hp, hk]

theorem latest_send_self (c : Conn) (s : Cfg) (hc : c ∈ s.subs) :
    latest c (sendEvents s c) = latest c s := by
  unfold sendEvents latest
  cases hp : s.pending c with
  | none => simp [hp]
  | some d => simp [hp, hc]

theorem latest_pop (c : Conn) (t s : Cfg) (d : Obj) (q : List Obj)
    (hs : s.queue = d :: q) (hq : t.queue = q) (hp : t.pending c = some d) :
    latest c t = latest c s := by
  simp only [latest, hs, hq, hp, getLast?_cons_of]
  cases q.getLast? <;> rfl

theorem latest_push (c : Conn) (t s : Cfg) (d : Obj) (hq : t.queue = s.queue ++ [d]) :
    latest c t = d := by
  simp [latest, hq]

/-- After a serialised controller write the pipeline of a subscriber ends in the written value:
    another connection's write is queued for it, its own write it knows. -/
theorem latest_ctrlWrite (c w : Conn) (v : Obj) (s : Cfg) (hq : s.queue = []) (hc : c ∈ s.subs)
    (h : (latest c s).val = s.value.val) : (latest c (ctrlWrite s w v)).val = v.val := by
  simp only [latest, hq, List.getLast?_nil] at h
  simp only [latest, ctrlWrite_queue, hq, List.getLast?_nil]
  by_cases hch : s.value.val = v.val
  · -- unchanged: nothing is pushed
    by_cases hcw : c = w
    · subst hcw
      cases hp : s.pending c with
      | none => simp [ctrlWrite, hch, hp]
      | some d =>
        by_cases hd : d.val = v.val <;> simp [ctrlWrite, hch, hp, hd]
    · cases hp : s.pending c with
      | none => rw [hp] at h; simp [ctrlWrite, hch, hp, hcw]; rw [← hch]; exact h
      | some d => rw [hp] at h; simp [ctrlWrite, hch, hp, hcw]; rw [← hch]; exact h
  · by_cases hcw : c = w
    · subst hcw
      cases hp : s.pending c with
      | none => simp [ctrlWrite, hch, hp]
      | some d =>
        by_cases hd : d.val = v.val <;> simp [ctrlWrite, hch, hp, hd]
    · simp [ctrlWrite, hch, hc, hcw]

/-- A queued entry keeps having a scheduled flush across a controller write. -/
theorem pt_ctrlWrite (c w : Conn) (v : Obj) (s : Cfg)
    (h : s.pending c ≠ none → s.timer c = true) :
    (ctrlWrite s w v).pending c ≠ none → (ctrlWrite s w v).timer c = true := by
  by_cases hch : s.value.val = v.val
  · -- nothing is pushed
    by_cases hcw : c = w
    · subst hcw
      intro hne
      have : s.pending c ≠ none := by
        intro hn; apply hne; simp [ctrlWrite, hch, hn]
      simpa [ctrlWrite, hch] using h this
    · intro hne
      have : s.pending c ≠ none := by
        intro hn; apply hne; simp [ctrlWrite, hch, hcw, hn]
      simpa [ctrlWrite, hch] using h this
  · by_cases hcw : c = w
    · subst hcw
      intro hne
      have : s.pending c ≠ none := by
        intro hn; apply hne; simp [ctrlWrite, hn]
      simpa [ctrlWrite] using h this
    · by_cases hc : c ∈ s.subs
      · intro _; simp [ctrlWrite, hch, hc, hcw]
      · intro hne
        have : s.pending c ≠ none := by
          intro hn; apply hne; simp [ctrlWrite, hc, hcw, hn]
        simpa [ctrlWrite, hc] using h this

/-- What must hold of connection `c`'s pipeline, depending on where the worker is. -/
def WClause (w : WPc) (v lat : Obj) : Prop :=
  match w with
  | .idle => lat.val = v.val
  | .wAssign o ch => lat.val = v.val ∧ ch = decide (v.val ≠ o.val)
  | .wClear0 o ch => v = o ∧ (ch = false → lat.val = v.val)
  | .wClear1 o ch => v = o ∧ (ch = false → lat.val = v.val)
  | .wTopic d => d = v
  | .wEnq d => d = v

/-- Invariant for a connection `c` that stays subscribed: a queued entry always has a scheduled
    flush, and its pipeline ends in the current value or the worker is inside an update that will
    still enqueue it. -/
def EvInv (c : Conn) (s : Cfg) : Prop :=
  s.topicKey = true ∧ c ∈ s.subs ∧ (∀ op ∈ s.lops, op ≠ LoopOp.unsub c ∧ op ≠ LoopOp.lost c) ∧
  s.lpc ≠ .uKey ∧ (∀ c', s.lpc ≠ .sKey c') ∧
  (s.pending c ≠ none → s.timer c = true) ∧
  WClause s.wpc s.value (latest c s)

theorem evInv_frame (c : Conn) (s t : Cfg) (h : EvInv c s)
    (hk : t.topicKey = true) (hs : c ∈ t.subs) (hl : ∀ op ∈ t.lops, op ∈ s.lops)
    (hp1 : t.lpc ≠ .uKey) (hp2 : ∀ c', t.lpc ≠ .sKey c')
    (hpt : t.pending c ≠ none → t.timer c = true)
    (hw : t.wpc = s.wpc) (hv : t.value = s.value)
    (hlat : latest c t = latest c s) : EvInv c t := by
  obtain ⟨_, _, a3, _, _, _, a7⟩ := h
  refine ⟨hk, hs, fun op ho => a3 op (hl op ho), hp1, hp2, hpt, ?_⟩
  rw [hw, hlat, hv]
  exact a7

theorem evInv_stepWorker (c : Conn) (s : Cfg) (h : EvInv c s) :
    EvInv c (stepWorker s).1 := by
  obtain ⟨a1, a2, a3, a4, a5, a6, a7⟩ := h
  unfold stepWorker
  split
  · -- idle
    rename_i hw
    rw [hw] at a7
    split
    · refine ⟨a1, a2, a3, a4, a5, a6, ?_⟩
      rw [hw]; exact a7
    · split
      · refine ⟨a1, a2, a3, a4, a5, a6, ?_⟩
        exact ⟨a7, rfl⟩
      · refine ⟨a1, a2, a3, a4, a5, a6, ?_⟩
        show WClause s.wpc _ _
        rw [hw]; exact a7
  · -- wAssign
    rename_i o ch hw
    refine ⟨a1, a2, a3, a4, a5, a6, ?_⟩
    rw [hw] at a7
    obtain ⟨b1, b2⟩ := a7
    refine ⟨rfl, ?_⟩
    intro hch
    subst hch
    have hv : s.value.val = o.val := by
      have := b2.symm
      simpa using this
    show (latest c s).val = o.val
    rw [b1, hv]
  · -- wClear0
    rename_i o ch hw
    refine ⟨a1, a2, a3, a4, a5, a6, ?_⟩
    rw [hw] at a7
    exact a7
  · -- wClear1
    rename_i o ch hw
    refine ⟨a1, a2, a3, a4, a5, a6, ?_⟩
    rw [hw] at a7
    obtain ⟨b1, b2⟩ := a7
    cases ch with
    | true => exact b1.symm
    | false => exact b2 rfl
  · -- wTopic
    rename_i d hw
    rw [hw] at a7
    split
    · exact ⟨a1, a2, a3, a4, a5, a6, a7⟩
    · rename_i hk; exact absurd a1 hk
  · -- wEnq
    rename_i d hw
    rw [hw] at a7
    refine ⟨a1, a2, a3, a4, a5, a6, ?_⟩
    show (latest c _).val = s.value.val
    rw [latest_push c _ s d rfl, a7]

theorem evInv_stepLoop (fix : Variant) (c : Conn) (s : Cfg) (h : EvInv c s)
    (hg : AtWrite s → s.wpc = .idle ∧ s.queue = []) :
    EvInv c (stepLoop fix s).1 := by
  have h0 := h
  obtain ⟨a1, a2, a3, a4, a5, a6, a7⟩ := h
  have keep : ∀ t : Cfg, t.topicKey = s.topicKey → t.subs = s.subs → t.lops = s.lops →
      t.lpc ≠ .uKey → (∀ c', t.lpc ≠ .sKey c') → t.wpc = s.wpc → t.value = s.value →
      t.queue = s.queue → t.pending = s.pending → t.timer = s.timer → t.knows = s.knows →
      EvInv c t := by
    intro t hk hs hl hp1 hp2 hw hv hq hp ht hkn
    exact evInv_frame c s t h0 (hk ▸ a1) (hs ▸ a2) (fun op ho => hl ▸ ho) hp1 hp2
      (by rw [hp, ht]; exact a6) hw hv
      (latest_congr c t s hq (by rw [hp]) (by rw [hkn]))
  unfold stepLoop
  split
  · -- idle: begin the next operation
    rename_i hpc
    split
    · exact h0
    · rename_i op rest hl
      have hrest : ∀ o ∈ rest, o ∈ s.lops := by
        intro o ho; rw [hl]; exact List.mem_cons_of_mem _ ho
      cases op with
      | toHAP => exact evInv_frame c s _ h0 a1 a2 hrest (by simp) (by simp) a6 rfl rfl rfl
      | toHAPnv => exact evInv_frame c s _ h0 a1 a2 hrest (by simp) (by simp) a6 rfl rfl rfl
      | getValue => exact evInv_frame c s _ h0 a1 a2 hrest (by simp) (by simp) a6 rfl rfl rfl
      | drain => exact evInv_frame c s _ h0 a1 a2 hrest (by simp) (by simp) a6 rfl rfl rfl
      | sub c' =>
        simp only []
        split
        · refine evInv_frame c s _ h0 a1 ?_ hrest a4 a5 a6 rfl rfl rfl
          show c ∈ addConn s.subs c'
          unfold addConn; split
          · exact a2
          · exact List.mem_append_left _ a2
        · rename_i hk; exact absurd a1 hk
      | unsub c' =>
        have hne : c' ≠ c := by
          intro e; subst e
          exact (a3 (.unsub c') (by rw [hl]; exact List.mem_cons_self)).1 rfl
        have hcc' : c ≠ c' := fun e => hne e.symm
        have hmem : c ∈ s.subs.erase c' := (List.mem_erase_of_ne (Ne.symm hne)).mpr a2
        have hnon : (s.subs.erase c').isEmpty = false := by
          cases hh : s.subs.erase c' with
          | nil => rw [hh] at hmem; simp at hmem
          | cons _ _ => rfl
        simp only []
        split
        · split
          · rename_i he
            have he' : (s.subs.erase c').isEmpty = true := he
            rw [hnon] at he'; exact absurd he' (by simp)
          · exact evInv_frame c s _ h0 a1 hmem hrest a4 a5 (by simpa [hcc'] using a6) rfl rfl
              (latest_congr c _ s rfl (by simp [hcc']) rfl)
        · rename_i hk; exact absurd a1 hk
      | lost c' =>
        have hne : c' ≠ c := by
          intro e; subst e
          exact (a3 (.lost c') (by rw [hl]; exact List.mem_cons_self)).2 rfl
        have hcc' : c ≠ c' := fun e => hne e.symm
        have hmem : c ∈ s.subs.erase c' := (List.mem_erase_of_ne (Ne.symm hne)).mpr a2
        have hnon : (s.subs.erase c').isEmpty = false := by
          cases hh : s.subs.erase c' with
          | nil => rw [hh] at hmem; simp at hmem
          | cons _ _ => rfl
        simp only []
        split
        · split
          · rename_i he
            have he' : (s.subs.erase c').isEmpty = true := he
            rw [hnon] at he'; exact absurd he' (by simp)
          · exact evInv_frame c s _ h0 a1 hmem hrest a4 a5 (by simpa [hcc'] using a6) rfl rfl
              (latest_congr c _ s rfl (by simp [hcc']) rfl)
        · rename_i hk; exact absurd a1 hk
      | flush c' =>
        simp only []
        by_cases hcc : c' = c
        · subst hcc
          exact evInv_frame c' s _ h0 (by simpa using a1) (by simpa using a2)
            (by simpa using hrest) (by simpa using a4) (by simpa using a5)
            (by intro hne; exact absurd (sendEvents_self_pending _ c') hne)
            (by simp) (by simp)
            (by
              have := latest_send_self c' { s with lops := rest } a2
              rw [this]; rfl)
        · have hcc' : c ≠ c' := fun e => hcc e.symm
          obtain ⟨e1, e2, e3⟩ := sendEvents_other { s with lops := rest } c c' hcc'
          exact evInv_frame c s _ h0 (by simpa using a1) (by simpa using a2)
            (by simpa using hrest) (by simpa using a4) (by simpa using a5)
            (by rw [e1, e2]; exact a6) (by simp) (by simp)
            (latest_congr c _ s (by simp) e1 e3)
      | fire c' =>
        simp only []
        split
        · by_cases hcc : c' = c
          · subst hcc
            exact evInv_frame c' s _ h0 (by simpa using a1) (by simpa using a2)
              (by simpa using hrest) (by simpa using a4) (by simpa using a5)
              (by intro hne; exact absurd (sendEvents_self_pending _ c') hne)
              (by simp) (by simp)
              (by
                have := latest_send_self c' { s with lops := rest } a2
                rw [this]; rfl)
          · have hcc' : c ≠ c' := fun e => hcc e.symm
            obtain ⟨e1, e2, e3⟩ := sendEvents_other { s with lops := rest } c c' hcc'
            exact evInv_frame c s _ h0 (by simpa using a1) (by simpa using a2)
              (by simpa using hrest) (by simpa using a4) (by simpa using a5)
              (by rw [e1, e2]; exact a6) (by simp) (by simp)
              (latest_congr c _ s (by simp) e1 e3)
        · exact evInv_frame c s _ h0 a1 a2 hrest a4 a5 a6 rfl rfl rfl
      | write w v =>
        simp only []
        obtain ⟨gw, gq⟩ := hg ⟨hpc, by rw [hl]; rfl⟩
        rw [gw] at a7
        refine ⟨by simpa using a1, by simpa using a2, ?_, by simpa using a4, by simpa using a5, ?_, ?_⟩
        · intro op ho; exact a3 op (hrest op (by simpa using ho))
        · exact pt_ctrlWrite c w v { s with lops := rest } a6
        · show WClause (ctrlWrite _ w v).wpc _ _
          rw [ctrlWrite_wpc]
          show WClause s.wpc _ _
          rw [gw]
          exact latest_ctrlWrite c w v { s with lops := rest } gq a2 a7
  · -- hCheck
    split
    · split <;> exact keep _ rfl rfl rfl (by simp [ret]) (by simp [ret]) rfl rfl rfl rfl rfl rfl
    · exact keep _ rfl rfl rfl (by simp) (by simp) rfl rfl rfl rfl rfl rfl
  · exact keep _ rfl rfl rfl (by simp [ret]) (by simp [ret]) rfl rfl rfl rfl rfl rfl
  · exact keep _ rfl rfl rfl (by simp) (by simp) rfl rfl rfl rfl rfl rfl
  · split
    · exact keep _ rfl rfl rfl (by simp) (by simp) rfl rfl rfl rfl rfl rfl
    · exact keep _ rfl rfl rfl (by simp [ret]) (by simp [ret]) rfl rfl rfl rfl rfl rfl
  · split
    · exact keep _ rfl rfl rfl (by simp [ret]) (by simp [ret]) rfl rfl rfl rfl rfl rfl
    · exact keep _ rfl rfl rfl (by simp) (by simp) rfl rfl rfl rfl rfl rfl
  · exact keep _ rfl rfl rfl (by simp [ret]) (by simp [ret]) rfl rfl rfl rfl rfl rfl
  · -- nCheck
    split
    · split <;> exact keep _ rfl rfl rfl (by simp [ret]) (by simp [ret]) rfl rfl rfl rfl rfl rfl
    · exact keep _ rfl rfl rfl (by simp) (by simp) rfl rfl rfl rfl rfl rfl
  · exact keep _ rfl rfl rfl (by simp [ret]) (by simp [ret]) rfl rfl rfl rfl rfl rfl
  · exact keep _ rfl rfl rfl (by simp [ret]) (by simp [ret]) rfl rfl rfl rfl rfl rfl
  · exact keep _ rfl rfl rfl (by simp [ret]) (by simp [ret]) rfl rfl rfl rfl rfl rfl
  · -- sKey: impossible
    rename_i c' hpc
    exact absurd hpc (a5 c')
  · -- uKey: impossible
    rename_i hpc
    exact absurd hpc a4
  · -- dLoop
    rename_i hpc
    split
    · exact keep _ rfl rfl rfl (by simp) (by simp) rfl rfl rfl rfl rfl rfl
    · rename_i d q hq
      exact evInv_frame c s _ h0 a1 a2 (fun _ h => h) a4 a5 (by simp [a2]) rfl rfl
        (latest_pop c _ s d q hq rfl (by simp [a2]))

theorem evInv_run (fix : Variant) (c : Conn) (bits : List Bool) (s : Cfg)
    (h : EvInv c s) (hs : Serial fix bits s) : EvInv c (run fix bits s) := by
  induction bits generalizing s with
  | nil => exact h
  | cons b bs ih =>
    obtain ⟨hg, hrest⟩ := hs
    apply ih _ _ hrest
    unfold step
    split
    · rename_i hb
      exact evInv_stepLoop fix c s h (hg hb)
    · exact evInv_stepWorker c s h

/-! ## 4. Exactly the changing updates are handed to the loop, in order
       (loop programs without controller writes) -/

/-- What the worker still owes, seen from an intermediate configuration. -/
def owed (s : Cfg) : List Obj :=
  match s.wpc with
  | .idle => changes s.value s.wups
  | .wAssign o ch => (if ch then [o] else []) ++ changes o s.wups
  | .wClear0 o ch => (if ch then [o] else []) ++ changes o s.wups
  | .wClear1 o ch => (if ch then [o] else []) ++ changes o s.wups
  | .wTopic d => [d] ++ changes d s.wups
  | .wEnq d => [d] ++ changes d s.wups

theorem owed_stepLoop (fix : Variant) (s : Cfg) (hn : NoWrite s.lops) :
    (stepLoop fix s).1.enq = s.enq ∧ owed (stepLoop fix s).1 = owed s := by
  unfold stepLoop
  split
  · split
    · exact ⟨rfl, rfl⟩
    · rename_i op rest hl
      cases op with
      | write w v => exact absurd rfl (hn (.write w v) (by rw [hl]; exact List.mem_cons_self) w v)
      | _ => simp only [] <;> (try split) <;> (try split) <;> simp_all [owed]
  all_goals (try split) <;> (try split) <;> simp_all [owed, ret]

theorem owed_stepWorker (c : Conn) (s : Cfg) (h : EvInv c s) :
    (stepWorker s).1.enq ++ owed (stepWorker s).1 = s.enq ++ owed s := by
  obtain ⟨a1, _, _, _, _, _, a7⟩ := h
  unfold stepWorker
  split
  · rename_i hw
    rw [hw] at a7
    split
    · rfl
    · rename_i u rest hl
      split
      · rename_i hv
        simp [owed, hw, hl, changes, hv]
      · rename_i hv
        simp [owed, hw, hl, changes, hv]
  · rename_i o ch hw
    simp [owed, hw]
  · rename_i o ch hw
    simp [owed, hw]
  · rename_i o ch hw
    rw [hw] at a7
    have hv : s.value = o := a7.1
    cases ch <;> simp [owed, hw, hv]
  · rename_i d hw
    split
    · simp [owed, hw]
    · rename_i hk; exact absurd a1 hk
  · rename_i d hw
    rw [hw] at a7
    have hv : d = s.value := a7
    simp [owed, hw, hv]

theorem handoff_run (fix : Variant) (c : Conn) (bits : List Bool) (s : Cfg)
    (h : EvInv c s) (hn : NoWrite s.lops) :
    (run fix bits s).enq ++ owed (run fix bits s) = s.enq ++ owed s := by
  induction bits generalizing s with
  | nil => rfl
  | cons b bs ih =>
    simp only [run]
    have hstep : EvInv c (step fix b s) := by
      unfold step; split
      · exact evInv_stepLoop fix c s h (fun ha => absurd ha (not_atWrite_of_noWrite s hn))
      · exact evInv_stepWorker c s h
    rw [ih _ hstep (noWrite_step fix b s hn)]
    unfold step
    split
    · obtain ⟨e1, e2⟩ := owed_stepLoop fix s hn
      rw [e1, e2]
    · exact owed_stepWorker c s h

/-! ## 5. The ghost `knows` is the last event written, unless the connection wrote itself -/

def KnowsInv (c : Conn) (k0 : Obj) (s : Cfg) : Prop :=
  s.knows c = ((s.delivered c).getLast?).getD k0

theorem sendEvents_knows (c c' : Conn) (k0 : Obj) (s : Cfg) (h : KnowsInv c k0 s) :
    KnowsInv c k0 (sendEvents s c') := by
  unfold KnowsInv at *
  unfold sendEvents
  split
  · exact h
  · split
    · by_cases hcc : c = c'
      · subst hcc; simp
      · simp [hcc, h]
    · exact h

theorem knows_stepLoop (fix : Variant) (c : Conn) (k0 : Obj) (s : Cfg)
    (hn : ∀ op ∈ s.lops, ∀ v, op ≠ LoopOp.write c v) (h : KnowsInv c k0 s) :
    KnowsInv c k0 (stepLoop fix s).1 := by
  unfold stepLoop
  split
  · split
    · exact h
    · rename_i op rest hl
      cases op with
      | flush c' => exact sendEvents_knows c c' k0 _ h
      | fire c' =>
        simp only []
        split
        · exact sendEvents_knows c c' k0 _ h
        · exact h
      | write w v =>
        have hw : c ≠ w := by
          intro e; subst e
          exact hn (.write c v) (by rw [hl]; exact List.mem_cons_self) v rfl
        simpa [KnowsInv, ctrlWrite, hw] using h
      | _ => simp only [] <;> (try split) <;> (try split) <;> exact h
  all_goals (try split) <;> (try split) <;> exact h

theorem knows_stepWorker (c : Conn) (k0 : Obj) (s : Cfg) (h : KnowsInv c k0 s) :
    KnowsInv c k0 (stepWorker s).1 := by
  unfold stepWorker
  split
  · split
    · exact h
    · split <;> exact h
  all_goals (try split) <;> exact h

theorem knows_run (fix : Variant) (c : Conn) (k0 : Obj) (bits : List Bool) (s : Cfg)
    (hn : ∀ op ∈ s.lops, ∀ v, op ≠ LoopOp.write c v) (h : KnowsInv c k0 s) :
    KnowsInv c k0 (run fix bits s) := by
  induction bits generalizing s with
  | nil => exact h
  | cons b bs ih =>
    apply ih
    · unfold step; split
      · exact fun op ho => hn op (stepLoop_lops_sub fix s op ho)
      · rw [stepWorker_lops]; exact hn
    · unfold step; split
      · exact knows_stepLoop fix c k0 s hn h
      · exact knows_stepWorker c k0 s h

/-! ## 6. A read never returns nothing (single-read early return) -/

def NoNothing (s : Cfg) : Prop :=
  (∀ r ∈ s.results, r ≠ Res.nothing) ∧ s.lpc ≠ .hRet ∧ s.lpc ≠ .nRet

theorem noNothing_stepLoop (rc : Bool) (s : Cfg) (h : NoNothing s) :
    NoNothing (stepLoop ⟨rc, true⟩ s).1 := by
  obtain ⟨h1, h2, h3⟩ := h
  unfold stepLoop
  split
  · split
    · exact ⟨h1, h2, h3⟩
    · rename_i op rest hl
      cases op <;> simp only [] <;> (try split) <;> (try split) <;>
        simp_all [NoNothing, sendEvents_results, sendEvents_lpc]
  all_goals (try split) <;> (try split) <;> simp_all [NoNothing, ret] <;> grind

theorem noNothing_stepWorker (s : Cfg) (h : NoNothing s) : NoNothing (stepWorker s).1 := by
  unfold stepWorker
  split
  · split
    · exact h
    · split <;> exact h
  all_goals (try split) <;> exact h

theorem noNothing_run (rc : Bool) (bits : List Bool) (s : Cfg) (h : NoNothing s) :
    NoNothing (run ⟨rc, true⟩ bits s) := by
  induction bits generalizing s with
  | nil => exact h
  | cons b bs ih =>
    apply ih
    unfold step
    split
    · exact noNothing_stepLoop rc s h
    · exact noNothing_stepWorker s h

/-! ## 7. The serial order: reads and updates as a legal history of one register
       (the worker's update lands as a whole at a step boundary of the loop thread) -/

@[simp] theorem sendEvents_lin (s : Cfg) (c : Conn) : (sendEvents s c).lin = s.lin := by
  unfold sendEvents; split <;> (try split) <;> rfl

@[simp] theorem ctrlWrite_lin (s : Cfg) (w : Conn) (v : Obj) : (ctrlWrite s w v).lin = s.lin ++ [.upd v] := rfl

theorem replay_append (v0 : Obj) (l1 l2 : List LinEv) :
    replay v0 (l1 ++ l2) = (replay v0 l1).bind (fun v => replay v l2) := by
  induction l1 generalizing v0 with
  | nil => simp [replay]
  | cons e l ih =>
    cases e with
    | upd o => simp [replay, ih]
    | read r =>
      simp only [List.cons_append, replay]
      split <;> simp [ih]

theorem replay_upd (v0 v : Obj) (l : List LinEv) (o : Obj) (h : replay v0 l = some v) :
    replay v0 (l ++ [.upd o]) = some o := by
  rw [replay_append, h]; simp [replay]

theorem replay_read (v0 v : Obj) (l : List LinEv) (h : replay v0 l = some v) :
    replay v0 (l ++ [.read v]) = some v := by
  rw [replay_append, h]; simp [replay]

@[simp] theorem readsOf_append (l1 l2 : List LinEv) : readsOf (l1 ++ l2) = readsOf l1 ++ readsOf l2 := by
  induction l1 with
  | nil => rfl
  | cons e l ih => cases e <;> simp [readsOf, ih]

@[simp] theorem updsOf_append (l1 l2 : List LinEv) : updsOf (l1 ++ l2) = updsOf l1 ++ updsOf l2 := by
  induction l1 with
  | nil => rfl
  | cons e l ih => cases e <;> simp [updsOf, ih]

@[simp] theorem resObjs_append (l1 l2 : List Res) : resObjs (l1 ++ l2) = resObjs l1 ++ resObjs l2 := by
  induction l1 with
  | nil => rfl
  | cons e l ih => cases e <;> simp [resObjs, ih]

/-- The ghost order is a legal register history ending in the current value, and its reads are
    exactly the values shown by the results so far plus the read in progress. -/
def LinInv (v0 : Obj) (s : Cfg) : Prop :=
  replay v0 s.lin = some s.value ∧ readsOf s.lin = resObjs s.results ++ inflight s

theorem linInv_stepWorker (v0 : Obj) (s : Cfg) (h : LinInv v0 s) : LinInv v0 (stepWorker s).1 := by
  obtain ⟨h1, h2⟩ := h
  unfold stepWorker
  split
  · split
    · exact ⟨h1, h2⟩
    · split <;> exact ⟨h1, h2⟩
  · exact ⟨replay_upd v0 _ _ _ h1, by simpa [readsOf, inflight] using h2⟩
  all_goals (try split) <;> exact ⟨h1, h2⟩

theorem linInv_stepLoop (sg : Bool) (v0 : Obj) (s : Cfg) (hc : CacheInv s) (hw : s.wpc = .idle)
    (h : LinInv v0 s) : LinInv v0 (stepLoop ⟨true, sg⟩ s).1 := by
  obtain ⟨h1, h2⟩ := h
  obtain ⟨c1, c2⟩ := hc
  have fresh_of : s.lpc = .hCheck ∨ s.lpc = .hRet → ∀ r, s.cacheV = some r → r = s.value := by
    intro hl r hr
    rcases c2 with f | f | f
    · rcases f with f | f
      · rw [hr] at f; exact absurd f (by simp)
      · rw [hr] at f; exact Option.some.inj f
    · simp [WorkerWillClear, hw] at f
    · rcases hl with hl | hl <;> simp [LoopWillCheck, hl] at f
  unfold stepLoop
  split
  · -- idle
    rename_i hpc
    split
    · exact ⟨h1, h2⟩
    · rename_i op rest hl
      cases op with
      | write w v =>
        refine ⟨?_, ?_⟩
        · show replay v0 (ctrlWrite _ w v).lin = some (ctrlWrite _ w v).value
          rw [ctrlWrite_lin, ctrlWrite_value]
          exact replay_upd v0 _ _ _ h1
        · show readsOf (ctrlWrite _ w v).lin = resObjs (ctrlWrite _ w v).results ++ inflight (ctrlWrite _ w v)
          rw [ctrlWrite_lin, ctrlWrite_results]
          simpa [readsOf, inflight, hpc] using h2
      | _ => simp only [] <;> (try split) <;> (try split) <;> simp_all [LinInv, inflight]
  · -- hCheck
    rename_i hpc
    split
    · rename_i r hr
      have e := fresh_of (Or.inl hpc) r hr
      split
      · refine ⟨?_, ?_⟩
        · simp only [ret]; rw [e]; exact replay_read v0 _ _ h1
        · simp_all [ret, readsOf, resObjs, inflight]
      · exact ⟨h1, by simp_all [inflight]⟩
    · exact ⟨h1, by simp_all [inflight]⟩
  · -- hRet
    rename_i hpc
    cases hr : s.cacheV with
    | none => exact ⟨by simpa [ret, hr] using h1, by simp_all [ret, readsOf, resObjs, inflight]⟩
    | some r =>
      have e := fresh_of (Or.inr hpc) r hr
      refine ⟨?_, ?_⟩
      · simp only [ret, hr]; rw [e]; exact replay_read v0 _ _ h1
      · simp_all [ret, readsOf, resObjs, inflight]
  · -- hRead
    exact ⟨replay_read v0 _ _ h1, by simp_all [readsOf, inflight]⟩
  all_goals first
    | exact ⟨replay_read v0 _ _ h1, by simp_all [ret, readsOf, resObjs, inflight]⟩
    | ((try split) <;> (try split) <;> simp_all [LinInv, ret, inflight, resObjs, readsOf])

theorem linInv_run (sg : Bool) (v0 : Obj) (bits : List Bool) (s : Cfg) (hc : CacheInv s)
    (h : LinInv v0 s) (ha : AtomicUpd ⟨true, sg⟩ bits s) : LinInv v0 (run ⟨true, sg⟩ bits s) := by
  induction bits generalizing s with
  | nil => exact h
  | cons b bs ih =>
    obtain ⟨ha1, ha2⟩ := ha
    simp only [run]
    cases b with
    | true =>
      exact ih _ (by simpa [step] using cacheInv_stepLoop sg s hc)
        (by simpa [step] using linInv_stepLoop sg v0 s hc (ha1 rfl) h) ha2
    | false =>
      exact ih _ (by simpa [step] using cacheInv_stepWorker s hc)
        (by simpa [step] using linInv_stepWorker v0 s h) ha2

/-- The updates of the serial order are the worker's accepted updates, in program order. -/
theorem upd_stepLoop (fix : Variant) (s : Cfg) (hn : NoWrite s.lops) :
    updsOf (stepLoop fix s).1.lin ++ owedUpd (stepLoop fix s).1 = updsOf s.lin ++ owedUpd s := by
  unfold stepLoop
  split
  · split
    · rfl
    · rename_i op rest hl
      cases op with
      | write w v => exact absurd rfl (hn (.write w v) (by rw [hl]; exact List.mem_cons_self) w v)
      | _ => simp only [] <;> (try split) <;> (try split) <;> simp_all [owedUpd]
  all_goals (try split) <;> (try split) <;> simp_all [owedUpd, ret, updsOf] <;> (try split) <;> simp_all [updsOf]

theorem upd_stepWorker (s : Cfg) :
    updsOf (stepWorker s).1.lin ++ owedUpd (stepWorker s).1 = updsOf s.lin ++ owedUpd s := by
  unfold stepWorker
  split
  · rename_i hw
    split
    · rfl
    · rename_i u rest hl
      split <;> simp_all [owedUpd, validObjs]
  all_goals (try split) <;> simp_all [owedUpd, updsOf]

theorem upd_run (fix : Variant) (bits : List Bool) (s : Cfg) (hn : NoWrite s.lops) :
    updsOf (run fix bits s).lin ++ owedUpd (run fix bits s) = updsOf s.lin ++ owedUpd s := by
  induction bits generalizing s with
  | nil => rfl
  | cons b bs ih =>
    simp only [run]
    rw [ih _ (noWrite_step fix b s hn)]
    unfold step
    split
    · exact upd_stepLoop fix s hn
    · exact upd_stepWorker s

/-! ## 8. Every read that begins after the worker has finished shows the final value
       (every schedule, no atomicity assumption) -/

/-- The result shows value object `v` (a value-free representation shows no value at all). -/
def shows (v : Obj) : Res → Prop
  | .rep r => r = v
  | .value r => r = v
  | .repNV => True
  | .nothing => False

/-- The worker is finished, the value is `v`, the cache is absent or renders `v`, and every result
    from position `n` on shows `v`. -/
def LateInv (v : Obj) (n : Nat) (s : Cfg) : Prop :=
  s.wpc = .idle ∧ s.wups = [] ∧ s.value = v ∧ NoWrite s.lops ∧
  (s.cacheV = none ∨ s.cacheV = some v) ∧
  (∀ r, (s.lpc = .hStore r ∨ s.lpc = .hRecheck r ∨ s.lpc = .hDrop r) → r = v) ∧
  s.lpc ≠ .hRet ∧ s.lpc ≠ .nRet ∧
  n ≤ s.results.length ∧ ∀ x ∈ s.results.drop n, shows v x

theorem lateInv_stepWorker (v : Obj) (n : Nat) (s : Cfg) (h : LateInv v n s) :
    LateInv v n (stepWorker s).1 := by
  have h0 := h
  obtain ⟨h1, h2, _⟩ := h
  unfold stepWorker
  simp [h1, h2]
  exact h0

theorem lateInv_stepLoop (v : Obj) (n : Nat) (s : Cfg) (h : LateInv v n s) :
    LateInv v n (stepLoop repaired s).1 := by
  obtain ⟨h1, h2, h3, h4, h5, h6, h7, h8, h9, h10⟩ := h
  unfold stepLoop
  split
  · split
    · exact ⟨h1, h2, h3, h4, h5, h6, h7, h8, h9, h10⟩
    · rename_i op rest hl
      have hr : NoWrite rest := fun o ho => h4 o (by rw [hl]; exact List.mem_cons_of_mem _ ho)
      cases op with
      | write w x => exact absurd rfl (h4 (.write w x) (by rw [hl]; exact List.mem_cons_self) w x)
      | _ => simp only [] <;> (try split) <;> (try split) <;> simp_all [LateInv]
  all_goals (try split) <;> (try split) <;>
    simp_all [LateInv, ret, repaired, shows, List.drop_append_of_le_length] <;> (try omega) <;> grind

theorem lateInv_run (v : Obj) (n : Nat) (bits : List Bool) (s : Cfg) (h : LateInv v n s) :
    LateInv v n (run repaired bits s) := by
  induction bits generalizing s with
  | nil => exact h
  | cons b bs ih =>
    apply ih
    unfold step
    split
    · exact lateInv_stepLoop v n s h
    · exact lateInv_stepWorker v n s h

theorem results_prefix_stepLoop (fix : Variant) (s : Cfg) :
    ∃ new, (stepLoop fix s).1.results = s.results ++ new := by
  have key : (stepLoop fix s).1.results = s.results ∨ ∃ x, (stepLoop fix s).1.results = s.results ++ [x] := by
    unfold stepLoop
    split
    · split
      · exact Or.inl rfl
      · rename_i op rest hl
        cases op <;> simp only [] <;> (try split) <;> (try split) <;> (left; simp; done)
    all_goals (try split) <;> (try split) <;>
      first | (left; simp [ret]; done) | (right; exact ⟨_, rfl⟩)
  rcases key with h | ⟨x, h⟩
  · exact ⟨[], by simp [h]⟩
  · exact ⟨[x], h⟩

theorem stepWorker_results (s : Cfg) : (stepWorker s).1.results = s.results := by
  unfold stepWorker
  split
  · split
    · rfl
    · split <;> rfl
  all_goals (try split) <;> rfl

theorem results_prefix_run (fix : Variant) (bits : List Bool) (s : Cfg) :
    ∃ new, (run fix bits s).results = s.results ++ new := by
  induction bits generalizing s with
  | nil => exact ⟨[], by simp [run]⟩
  | cons b bs ih =>
    obtain ⟨n2, h2⟩ := ih (step fix b s)
    simp only [run]
    cases b with
    | true =>
      obtain ⟨n1, h1⟩ := results_prefix_stepLoop fix s
      exact ⟨n1 ++ n2, by rw [h2]; simp [step, h1]⟩
    | false => exact ⟨n2, by rw [h2]; simp [step, stepWorker_results]⟩

/-! ## 9. The loop's own mechanisms reach quiescence: `drain` empties the hand-off queue, the
       timer expiry of `c` disarms its timer -/

theorem run_append (fix : Variant) (a b : List Bool) (s : Cfg) :
    run fix (a ++ b) s = run fix b (run fix a s) := by
  induction a generalizing s with
  | nil => rfl
  | cons x xs ih => simp [run, ih]

theorem serial_append (fix : Variant) (a b : List Bool) (s : Cfg)
    (ha : Serial fix a s) (hb : Serial fix b (run fix a s)) : Serial fix (a ++ b) s := by
  induction a generalizing s with
  | nil => exact hb
  | cons x xs ih => exact ⟨ha.1, ih _ ha.2 hb⟩

theorem sendEvents_self_timer (s : Cfg) (c : Conn) : (sendEvents s c).timer c = false := by
  unfold sendEvents; split <;> (try split) <;> simp

/-- Running the loop thread alone from inside `drain` pops every hand-off and returns to idle. -/
theorem drain_finishes (fix : Variant) : ∀ (n : Nat) (s : Cfg), s.queue.length = n → s.lpc = .dLoop →
    ∃ k, (run fix (List.replicate k true) s).lpc = .idle ∧ (run fix (List.replicate k true) s).queue = [] ∧
      (run fix (List.replicate k true) s).lops = s.lops ∧ (run fix (List.replicate k true) s).wpc = s.wpc ∧
      Serial fix (List.replicate k true) s := by
  intro n
  induction n with
  | zero =>
    intro s hq hl
    have hq' : s.queue = [] := List.eq_nil_of_length_eq_zero hq
    refine ⟨1, ?_⟩
    simp [List.replicate, run, step, stepLoop, hl, hq', Serial, AtWrite]
  | succ n ih =>
    intro s hq hl
    cases hqq : s.queue with
    | nil => rw [hqq] at hq; simp at hq
    | cons d q =>
      have hlen : q.length = n := by rw [hqq] at hq; simpa using hq
      let t := step fix true s
      have ht : t = step fix true s := rfl
      have e1 : t.queue = q := by simp [ht, step, stepLoop, hl, hqq]
      have e2 : t.lpc = .dLoop := by simp [ht, step, stepLoop, hl, hqq]
      have e3 : t.lops = s.lops := by simp [ht, step, stepLoop, hl, hqq]
      have e4 : t.wpc = s.wpc := by simp [ht, step, stepLoop, hl, hqq]
      obtain ⟨k, a1, a2, a3, a4, a5⟩ := ih t (by rw [e1]; exact hlen) e2
      refine ⟨k + 1, ?_⟩
      simp only [List.replicate, run]
      exact ⟨a1, a2, by rw [a3, e3], by rw [a4, e4], ⟨by simp [AtWrite, hl], a5⟩⟩

theorem noWrite_run (fix : Variant) (bits : List Bool) (s : Cfg) (h : NoWrite s.lops) :
    NoWrite (run fix bits s).lops := by
  induction bits generalizing s with
  | nil => exact h
  | cons b bs ih => exact ih _ (noWrite_step fix b s h)

/-- From an idle loop thread whose next operations are `drain` and the timer expiry of `c`: the
    loop thread alone completes both; afterwards the hand-off queue is empty and `c`'s timer is not
    armed.  The steps taken contain no controller write, so they extend any `Serial` schedule. -/
theorem drain_fire_finishes (fix : Variant) (c : Conn) (s : Cfg) (rest : List LoopOp)
    (hl : s.lpc = .idle) (ho : s.lops = .drain :: .fire c :: rest) :
    ∃ ext : List Bool, (∀ b ∈ ext, b = true) ∧ Serial fix ext s ∧
      (run fix ext s).lpc = .idle ∧ (run fix ext s).lops = rest ∧ (run fix ext s).wpc = s.wpc ∧
      (run fix ext s).queue = [] ∧ (run fix ext s).timer c = false := by
  let t1 := step fix true s
  have ht1 : t1 = step fix true s := rfl
  have b1 : t1.lpc = .dLoop := by simp [ht1, step, stepLoop, hl, ho]
  have b2 : t1.lops = .fire c :: rest := by simp [ht1, step, stepLoop, hl, ho]
  have b3 : t1.wpc = s.wpc := by simp [ht1, step, stepLoop, hl, ho]
  obtain ⟨k, a1, a2, a3, a4, a5⟩ := drain_finishes fix t1.queue.length t1 rfl b1
  let t2 := run fix (List.replicate k true) t1
  have ht2 : t2 = run fix (List.replicate k true) t1 := rfl
  rw [← ht2] at a1 a2 a3 a4
  have c3 : t2.lops = .fire c :: rest := by rw [a3, b2]
  refine ⟨true :: (List.replicate k true ++ [true]), ?_, ?_, ?_⟩
  · intro b hb
    simp at hb
    rcases hb with h | h | h
    · exact h
    · exact h.2
    · exact h
  · refine ⟨fun _ hw => ?_, ?_⟩
    · exact absurd hw.2 (by simp [ho, headIsWrite])
    · refine serial_append fix _ _ t1 a5 ?_
      rw [← ht2]
      exact ⟨fun _ hw => absurd hw.2 (by simp [c3, headIsWrite]), trivial⟩
  · simp only [run]
    rw [← ht1, run_append, ← ht2]
    simp only [run]
    by_cases htm : t2.timer c = true
    · simp [step, stepLoop, a1, c3, htm, a2, a4, b3, sendEvents_self_timer]
    · have htm' : t2.timer c = false := by simpa using htm
      simp [step, stepLoop, a1, c3, htm', a2, a4, b3]

end Hap.Race
