/-
  Lemmas about the sessions model (HapModel/Sessions.lean): the safety invariant
  "every registered verified connection belongs to a currently paired controller",
  its preservation by every request / operation of the repaired system, and trace lemmas.
-/
import HapModel.Sessions
import Proofs.PairVerify
namespace Hap.Sess
open Hap Hap.PV

/-! ### pair-verify handler facts needed here -/

/-- After a pair-verify request the handler is verified only if it was before (same client) or
    the request was accepted for a currently paired identifier. -/
theorem handler_safe (C : Crypto) (ps : Pairings) (fresh : Nat) (c : PV.Conn) (body : Bytes) :
    (handlePairVerify C ps fresh c body).1.verified = true →
      (c.verified = true ∧ (handlePairVerify C ps fresh c body).1.client = c.client) ∨
      (∃ u k, (handlePairVerify C ps fresh c body).1.client = some u ∧ getKey ps u = some k) := by
  unfold handlePairVerify verifyOne verifyTwo
  repeat' split
  all_goals first
    | (simp_all; done)
    | (intro _; right; exact ⟨_, _, rfl, by assumption⟩)

theorem getKey_addPairing_isSome (ps : Pairings) (u v : Uuid) (k : Key) (a : Bool)
    (h : (getKey ps v).isSome = true) : (getKey (addPairing ps u k a) v).isSome = true := by
  by_cases e : u = v
  · subst e; simp [getKey_addPairing_self]
  · rw [getKey_addPairing_ne _ _ _ _ _ e]; exact h

/-! ### The safety invariant -/

/-- Every verified handler knows its controller, and if the connection is still registered
    that controller is currently paired. -/
def Safe (s : Sys) : Prop :=
  ∀ d, (s.conns d).pv.verified = true →
    ∃ u, (s.conns d).pv.client = some u ∧ (d ∈ s.live → (getKey s.pairings u).isSome = true)

theorem safe_init : Safe {} := by
  intro d h; simp at h

@[simp] theorem emit_pairings (s : Sys) (c : Nat) (r : RC) : (emit s c r).pairings = s.pairings := rfl
@[simp] theorem emit_conns (s : Sys) (c : Nat) (r : RC) : (emit s c r).conns = s.conns := rfl
@[simp] theorem emit_live (s : Sys) (c : Nat) (r : RC) : (emit s c r).live = s.live := rfl
@[simp] theorem emit_clock (s : Sys) (c : Nat) (r : RC) : (emit s c r).clock = s.clock := rfl
@[simp] theorem emit_trace (s : Sys) (c : Nat) (r : RC) :
    (emit s c r).trace = s.trace ++ [if c ∈ s.live then Event.resp c r else Event.dropped c r] := rfl

theorem safe_emit (s : Sys) (c : Nat) (r : RC) (h : Safe s) : Safe (emit s c r) := h

theorem safe_clock (s : Sys) (n : Nat) (h : Safe s) : Safe { s with clock := n } := h

/-- membership after the teardown -/
theorem mem_teardown_live (s : Sys) (d : Nat) :
    d ∈ (teardown s).live ↔ d ∈ s.live ∧ unpairedSession s.pairings (s.conns d) = false := by
  simp [teardown, List.mem_filter]

theorem teardown_conns (s : Sys) (d : Nat) :
    (teardown s).conns d =
      if d ∈ s.live ∧ unpairedSession s.pairings (s.conns d) = true
      then { (s.conns d) with pv := { (s.conns d).pv with verified := false } } else s.conns d := by
  simp [teardown]

@[simp] theorem teardown_pairings (s : Sys) : (teardown s).pairings = s.pairings := rfl

/-- The teardown re-establishes the invariant whatever happened to the pairing map, provided
    verified handlers know their controller. -/
theorem safe_teardown (s : Sys)
    (h : ∀ d, (s.conns d).pv.verified = true → ∃ u, (s.conns d).pv.client = some u) :
    Safe (teardown s) := by
  intro d hv
  rw [teardown_conns] at hv ⊢
  split at hv
  · simp at hv
  · next hnot =>
    obtain ⟨u, hu⟩ := h d hv
    rw [if_neg hnot]
    refine ⟨u, hu, ?_⟩
    intro hl
    rw [mem_teardown_live] at hl
    have := hl.2
    simp [unpairedSession, hu] at this
    simpa using this

theorem safe_weaken (s : Sys) (h : Safe s) :
    ∀ d, (s.conns d).pv.verified = true → ∃ u, (s.conns d).pv.client = some u := by
  intro d hv; obtain ⟨u, hu, _⟩ := h d hv; exact ⟨u, hu⟩

/-- One request preserves the invariant (repaired system), on any connection, registered or not. -/
theorem safe_procReq (C : Crypto) (s : Sys) (c : Nat) (req : Req) (h : Safe s) :
    Safe (procReq C true s c req) := by
  cases req with
  | pairVerify body =>
    intro d hv
    simp only [procReq] at hv ⊢
    by_cases hd : d = c
    · subst hd
      simp only [Sess.setConn, if_true] at hv ⊢
      rw [(installCipher_fields _ _).2.1] at hv
      rw [(installCipher_fields _ _).2.2]
      rcases handler_safe C s.pairings s.clock (s.conns d).pv body hv with ⟨h1, h2⟩ | ⟨u, k, h1, h2⟩
      · obtain ⟨u, hu, hp⟩ := h d h1
        exact ⟨u, by rw [h2, hu], by simpa using hp⟩
      · exact ⟨u, h1, fun _ => by simp [h2]⟩
    · simp only [Sess.setConn, hd, if_false] at hv ⊢
      obtain ⟨u, hu, hp⟩ := h d hv
      exact ⟨u, hu, by simpa using hp⟩
  | guarded kind => exact safe_emit _ _ _ (safe_clock _ _ h)
  | resource =>
    simp only [procReq]
    split
    · intro d hv
      by_cases hd : d = c
      · subst hd
        simp only [Sess.setConn, if_true] at hv ⊢
        exact h d hv
      · simp only [Sess.setConn, hd, if_false] at hv ⊢
        exact h d hv
    · exact safe_emit _ _ _ (safe_clock _ _ h)
  | listPairings =>
    simp only [procReq]
    split
    · exact safe_emit _ _ _ (safe_clock _ _ h)
    · split <;> exact safe_emit _ _ _ (safe_clock _ _ h)
  | addPairing uname key admin =>
    simp only [procReq]
    split
    · exact safe_emit _ _ _ (safe_clock _ _ h)
    · split
      · exact safe_emit _ _ _ (safe_clock _ _ h)
      · split
        · exact safe_emit _ _ _ (safe_clock _ _ h)
        · apply safe_emit
          intro d hv
          obtain ⟨u, hu, hp⟩ := h d hv
          exact ⟨u, hu, fun hl => getKey_addPairing_isSome _ _ _ _ _ (hp hl)⟩
  | removePairing uname =>
    simp only [procReq]
    split
    · exact safe_emit _ _ _ (safe_clock _ _ h)
    · split
      · exact safe_emit _ _ _ (safe_clock _ _ h)
      · split
        · exact safe_emit _ _ _ (safe_clock _ _ h)
        · simp only [if_true]
          apply safe_teardown
          exact safe_weaken s h

theorem safe_procChunk (C : Crypto) (c : Nat) (s : Sys) (reqs : List Req) (h : Safe s) :
    Safe (procChunk C true c s reqs) := by
  induction reqs generalizing s with
  | nil => simpa [procChunk]
  | cons r rest ih => exact ih _ (safe_procReq C s c r h)

theorem safe_step (C : Crypto) (s : Sys) (op : Op) (h : Safe s) : Safe (step C true s op) := by
  cases op with
  | connect c =>
    simp only [step]
    split
    · exact h
    · intro d hv
      by_cases hd : d = c
      · subst hd; simp [Sess.setConn] at hv
      · simp only [Sess.setConn, hd, if_false] at hv ⊢
        obtain ⟨u, hu, hp⟩ := h d hv
        refine ⟨u, hu, fun hl => hp ?_⟩
        simp only [List.mem_append, List.mem_singleton] at hl
        rcases hl with hl | hl
        · exact hl
        · exact absurd hl hd
  | peerClose c =>
    intro d hv
    obtain ⟨u, hu, hp⟩ := h d hv
    refine ⟨u, hu, fun hl => hp ?_⟩
    simp only [step, List.mem_filter] at hl
    exact hl.1
  | chunk c reqs =>
    simp only [step]
    split
    · exact safe_procChunk C c s reqs h
    · exact h
  | pair u k a =>
    intro d hv
    obtain ⟨v, hv', hp⟩ := h d hv
    exact ⟨v, hv', fun hl => getKey_addPairing_isSome _ _ _ _ _ (hp hl)⟩
  | ready c ok =>
    have key : Safe { s with conns := Sess.setConn s.conns c { (s.conns c) with pending := false }, clock := s.clock + 1 } := by
      intro d hv
      by_cases hd : d = c
      · subst hd
        simp only [Sess.setConn, if_true] at hv ⊢
        exact h d hv
      · simp only [Sess.setConn, hd, if_false] at hv ⊢
        exact h d hv
    simp only [step]
    split
    · split
      · exact safe_emit _ _ _ key
      · exact key
    · exact safe_clock _ _ h
  | restart =>
    intro d hv
    simp [step] at hv

theorem safe_run (C : Crypto) (s : Sys) (ops : List Op) (h : Safe s) : Safe (run C true s ops) := by
  induction ops generalizing s with
  | nil => simpa [run]
  | cons op rest ih => exact ih _ (safe_step C s op h)

/-! ### What a request can write, and to whom -/

/-- An event that can only arise for a registered connection: a delivered response or a close of a
    registered connection — or a response written into the void on the requesting connection. -/
def EvOk (live : List Nat) (c : Nat) (e : Event) : Prop := e.conn ∈ live ∨ ∃ r, e = Event.dropped c r

/-- the teardown appends closes of registered connections and only shrinks the registry -/
theorem teardown_after (s t : Sys) (c : Nat)
    (h : ∃ evs, t.trace = s.trace ++ evs ∧ (∀ e ∈ evs, EvOk s.live c e) ∧
      (∀ x, x ∈ t.live → x ∈ s.live)) :
    ∃ evs, (teardown t).trace = s.trace ++ evs ∧ (∀ e ∈ evs, EvOk s.live c e) ∧
      (∀ x, x ∈ (teardown t).live → x ∈ s.live) := by
  obtain ⟨e1, h1, h2, h3⟩ := h
  refine ⟨e1 ++ (t.live.filter fun d => unpairedSession t.pairings (t.conns d)).map Event.close, ?_, ?_, ?_⟩
  · simp [teardown, h1, List.append_assoc]
  · intro e he
    simp only [List.mem_append, List.mem_map, List.mem_filter] at he
    rcases he with he | ⟨x, ⟨hx, _⟩, rfl⟩
    · exact h2 e he
    · left; exact h3 x hx
  · intro x hx
    simp only [teardown, List.mem_filter] at hx
    exact h3 x hx.1

/-- Events appended by one request: responses that reach a registered requester, closes of
    registered connections, or responses of the requester written into the void; the registry
    only shrinks. -/
theorem procReq_events (C : Crypto) (rep : Bool) (s : Sys) (c : Nat) (req : Req) :
    ∃ evs, (procReq C rep s c req).trace = s.trace ++ evs ∧
      (∀ e ∈ evs, EvOk s.live c e) ∧
      (∀ x, x ∈ (procReq C rep s c req).live → x ∈ s.live) := by
  have one : ∀ (t : Sys) (r : RC), t.trace = s.trace → t.live = s.live →
      ∃ evs, (emit t c r).trace = s.trace ++ evs ∧ (∀ e ∈ evs, EvOk s.live c e) ∧
        (∀ x, x ∈ (emit t c r).live → x ∈ s.live) := by
    intro t r ht hl
    refine ⟨[if c ∈ t.live then Event.resp c r else Event.dropped c r], by simp [ht], ?_, by simp [hl]⟩
    intro e he
    simp only [List.mem_singleton] at he
    subst he
    split
    · next hc => left; rw [hl] at hc; simpa [Event.conn] using hc
    · right; exact ⟨r, rfl⟩
  cases req with
  | pairVerify body =>
    simp only [procReq]
    exact one s _ rfl rfl
  | guarded kind => simp only [procReq]; exact one _ _ rfl rfl
  | resource =>
    simp only [procReq]
    split
    · exact ⟨[], by simp, by simp, by simp⟩
    · exact one _ _ rfl rfl
  | listPairings =>
    simp only [procReq]
    split
    · exact one _ _ rfl rfl
    · split <;> exact one _ _ rfl rfl
  | addPairing uname key admin =>
    simp only [procReq]
    split
    · exact one _ _ rfl rfl
    · split
      · exact one _ _ rfl rfl
      · split <;> exact one _ _ rfl rfl
  | removePairing uname =>
    simp only [procReq]
    split
    · exact one _ _ rfl rfl
    · split
      · exact one _ _ rfl rfl
      · split
        · exact one _ _ rfl rfl
        · cases rep
          · simp only [Bool.false_eq_true, if_false]; exact one _ _ rfl rfl
          · simp only [if_true]
            exact teardown_after s _ c (one _ _ rfl rfl)

theorem evOk_mono (l l' : List Nat) (c : Nat) (e : Event) (h : ∀ x, x ∈ l' → x ∈ l) (he : EvOk l' c e) :
    EvOk l c e := by
  rcases he with he | he
  · exact Or.inl (h _ he)
  · exact Or.inr he

theorem procChunk_events (C : Crypto) (rep : Bool) (c : Nat) (s : Sys) (reqs : List Req) :
    ∃ evs, (procChunk C rep c s reqs).trace = s.trace ++ evs ∧
      (∀ e ∈ evs, EvOk s.live c e) ∧
      (∀ x, x ∈ (procChunk C rep c s reqs).live → x ∈ s.live) := by
  induction reqs generalizing s with
  | nil => exact ⟨[], by simp [procChunk], by simp, by simp [procChunk]⟩
  | cons r rest ih =>
    obtain ⟨e1, h1, h2, h3⟩ := procReq_events C rep s c r
    obtain ⟨e2, g1, g2, g3⟩ := ih (procReq C rep s c r)
    refine ⟨e1 ++ e2, ?_, ?_, ?_⟩
    · simp only [procChunk, g1, h1, List.append_assoc]
    · intro e he
      rcases List.mem_append.1 he with he | he
      · exact h2 e he
      · exact evOk_mono _ _ c e h3 (g2 e he)
    · intro x hx; exact h3 x (g3 x hx)

theorem eventsOf_append (d : Nat) (a b : List Event) : eventsOf d (a ++ b) = eventsOf d a ++ eventsOf d b := by
  simp [eventsOf]

/-- the responses that REACHED the peer of connection `d`, and the closes of `d` -/
def reachedOf (d : Nat) (t : List Event) : List Event :=
  t.filter fun e => match e with
    | .resp c _ => c == d
    | .close c => c == d
    | .dropped _ _ => false

theorem reachedOf_append (d : Nat) (a b : List Event) :
    reachedOf d (a ++ b) = reachedOf d a ++ reachedOf d b := by
  simp [reachedOf]

/-- events that are fine for a registry without `d` never reach `d` -/
theorem reachedOf_nil (d c : Nat) (live : List Nat) (evs : List Event) (hd : d ∉ live)
    (h : ∀ e ∈ evs, EvOk live c e) : reachedOf d evs = [] := by
  simp only [reachedOf, List.filter_eq_nil_iff]
  intro e he
  rcases h e he with h1 | ⟨r, rfl⟩
  · cases e with
    | resp x r => simp only [Event.conn] at h1; simp; intro e; subst e; exact hd h1
    | close x => simp only [Event.conn] at h1; simp; intro e; subst e; exact hd h1
    | dropped x r => simp
  · simp

/-- **An unregistered connection is never reached again** — also by the remaining requests of its
    own segment (processed after it was closed): whatever they are, nothing reaches the peer. -/
theorem procChunk_dead (C : Crypto) (rep : Bool) (c : Nat) (s : Sys) (reqs : List Req) (d : Nat)
    (hd : d ∉ s.live) :
    d ∉ (procChunk C rep c s reqs).live ∧
      reachedOf d (procChunk C rep c s reqs).trace = reachedOf d s.trace := by
  obtain ⟨evs, h1, h2, h3⟩ := procChunk_events C rep c s reqs
  refine ⟨fun h => hd (h3 d h), ?_⟩
  rw [h1, reachedOf_append, reachedOf_nil d c s.live evs hd h2]
  simp

theorem step_dead (C : Crypto) (rep : Bool) (s : Sys) (op : Op) (d : Nat)
    (hd : d ∉ s.live) (hop : op ≠ .connect d) :
    d ∉ (step C rep s op).live ∧ reachedOf d (step C rep s op).trace = reachedOf d s.trace := by
  cases op with
  | connect c =>
    have hc : c ≠ d := fun e => hop (by rw [e])
    simp only [step]
    split
    · exact ⟨hd, rfl⟩
    · refine ⟨?_, rfl⟩
      simp only [List.mem_append, List.mem_singleton, not_or]
      exact ⟨hd, fun e => hc e.symm⟩
  | peerClose c =>
    refine ⟨?_, rfl⟩
    simp only [step, List.mem_filter, not_and]
    intro h; exact absurd h hd
  | pair u k a => exact ⟨hd, rfl⟩
  | restart => exact ⟨by simp [step], rfl⟩
  | ready c ok =>
    simp only [step]
    split
    · split
      · next _ hc =>
        refine ⟨hd, ?_⟩
        have : c ≠ d := fun e => hd (e ▸ hc)
        simp [emit_trace, reachedOf_append, reachedOf, hc, this]
      · exact ⟨hd, rfl⟩
    · exact ⟨hd, rfl⟩
  | chunk c reqs =>
    simp only [step]
    split
    · exact procChunk_dead C rep c s reqs d hd
    · exact ⟨hd, rfl⟩

theorem run_dead (C : Crypto) (rep : Bool) (s : Sys) (ops : List Op) (d : Nat)
    (hd : d ∉ s.live) (hops : ∀ op ∈ ops, op ≠ .connect d) :
    d ∉ (run C rep s ops).live ∧ reachedOf d (run C rep s ops).trace = reachedOf d s.trace := by
  induction ops generalizing s with
  | nil => exact ⟨hd, rfl⟩
  | cons op rest ih =>
    have h1 := step_dead C rep s op d hd (hops op List.mem_cons_self)
    have h2 := ih (step C rep s op) h1.1 (fun o ho => hops o (List.mem_cons_of_mem _ ho))
    exact ⟨h2.1, by simp only [run]; rw [h2.2, h1.2]⟩

/-! ### Which answers are service, and what they presuppose -/

/-- response classes that give the requester something: content, an effect, the pairing list -/
def useful : RC → Bool
  | .served _ => true
  | .list _ => true
  | .ack => true
  | _ => false

theorem emit_resp (s t : Sys) (c : Nat) (r0 r : RC) (evs : List Event)
    (ht : t.trace = s.trace) (hl : t.live = s.live)
    (h : (emit t c r0).trace = s.trace ++ evs) (hm : Event.resp c r ∈ evs) : c ∈ s.live ∧ r = r0 := by
  rw [emit_trace, ht] at h
  have := List.append_cancel_left h
  subst this
  simp only [List.mem_singleton] at hm
  split at hm
  · next hc => rw [hl] at hc; simp only [Event.resp.injEq, true_and] at hm; exact ⟨hc, hm⟩
  · cases hm

/-- A delivered useful answer presupposes a registered, verified requester. -/
theorem procReq_useful (C : Crypto) (rep : Bool) (s : Sys) (c : Nat) (req : Req) (r : RC) (evs : List Event)
    (h : (procReq C rep s c req).trace = s.trace ++ evs) (hm : Event.resp c r ∈ evs) (hu : useful r = true) :
    c ∈ s.live ∧ (s.conns c).pv.verified = true := by
  cases req with
  | pairVerify body =>
    simp only [procReq] at h
    obtain ⟨_, rfl⟩ := emit_resp s s c _ r evs rfl rfl h hm
    simp [useful] at hu
  | guarded kind =>
    simp only [procReq] at h
    obtain ⟨hc, rfl⟩ := emit_resp s _ c _ r evs rfl rfl h hm
    refine ⟨hc, ?_⟩
    cases hv : (s.conns c).pv.verified
    · simp [hv, useful] at hu
    · rfl
  | resource =>
    simp only [procReq] at h
    split at h
    · have : evs = [] := by
        have h' : s.trace ++ [] = s.trace ++ evs := by simpa using h
        exact (List.append_cancel_left h').symm
      subst this; cases hm
    · obtain ⟨_, rfl⟩ := emit_resp s _ c _ r evs rfl rfl h hm
      simp [useful] at hu
  | listPairings =>
    simp only [procReq] at h
    split at h
    · obtain ⟨_, rfl⟩ := emit_resp s _ c _ r evs rfl rfl h hm
      simp [useful] at hu
    · split at h
      · obtain ⟨_, rfl⟩ := emit_resp s _ c _ r evs rfl rfl h hm
        simp [useful] at hu
      · next hcond =>
        obtain ⟨hc, _⟩ := emit_resp s _ c _ r evs rfl rfl h hm
        simp only [not_or, Bool.not_eq_false] at hcond
        exact ⟨hc, hcond.1⟩
  | addPairing uname key admin =>
    simp only [procReq] at h
    split at h
    · obtain ⟨_, rfl⟩ := emit_resp s _ c _ r evs rfl rfl h hm
      simp [useful] at hu
    · split at h
      · obtain ⟨_, rfl⟩ := emit_resp s _ c _ r evs rfl rfl h hm
        simp [useful] at hu
      · next hcond =>
        simp only [not_or, Bool.not_eq_false] at hcond
        split at h
        · obtain ⟨_, rfl⟩ := emit_resp s _ c _ r evs rfl rfl h hm
          simp [useful] at hu
        · obtain ⟨hc, _⟩ := emit_resp s _ c _ r evs rfl rfl h hm
          exact ⟨hc, hcond.1⟩
  | removePairing uname =>
    simp only [procReq] at h
    split at h
    · obtain ⟨_, rfl⟩ := emit_resp s _ c _ r evs rfl rfl h hm
      simp [useful] at hu
    · split at h
      · obtain ⟨_, rfl⟩ := emit_resp s _ c _ r evs rfl rfl h hm
        simp [useful] at hu
      · next hcond =>
        simp only [not_or, Bool.not_eq_false] at hcond
        split at h
        · obtain ⟨_, rfl⟩ := emit_resp s _ c _ r evs rfl rfl h hm
          simp [useful] at hu
        · refine ⟨?_, hcond.1⟩
          cases rep
          · simp only [Bool.false_eq_true, if_false] at h
            exact (emit_resp s _ c _ r evs rfl rfl h hm).1
          · simp only [if_true] at h
            simp only [teardown, emit_trace, emit_live, List.append_assoc] at h
            have := List.append_cancel_left h
            subst this
            simp only [List.mem_append, List.mem_singleton, List.mem_map] at hm
            rcases hm with hm | ⟨x, _, hx⟩
            · split at hm
              · next hc => exact hc
              · cases hm
            · cases hx

/-! ### pairing-map facts across requests -/

theorem procReq_getKey_none (C : Crypto) (rep : Bool) (s : Sys) (c : Nat) (req : Req) (v : Uuid)
    (h : getKey s.pairings v = none)
    (hr : ∀ uname k a, req = .addPairing uname k a → C.parseUuid uname ≠ some v) :
    getKey (procReq C rep s c req).pairings v = none := by
  cases req with
  | pairVerify body => simpa [procReq] using h
  | guarded kind => simpa [procReq] using h
  | resource =>
    simp only [procReq]
    split <;> simpa using h
  | listPairings =>
    simp only [procReq]
    split
    · simpa using h
    · split <;> simpa using h
  | addPairing uname key admin =>
    simp only [procReq]
    split
    · simpa using h
    · split
      · simpa using h
      · split
        · simpa using h
        · next u hu =>
          have : u ≠ v := by
            intro e; subst e; exact hr uname key admin rfl hu
          simp only [emit_pairings]
          rw [getKey_addPairing_ne _ _ _ _ _ this]; exact h
  | removePairing uname =>
    simp only [procReq]
    split
    · simpa using h
    · split
      · simpa using h
      · split
        · simpa using h
        · next u hu =>
          have key : getKey (if (getKey s.pairings u).isSome then removePairing s.pairings u else s.pairings) v = none := by
            split
            · exact getKey_removePairing_none _ _ _ h
            · exact h
          cases rep <;> simpa using key

/-- an operation that does not register `v` again -/
def NoReAdd (C : Crypto) (v : Uuid) : Op → Prop
  | .pair u _ _ => u ≠ v
  | .chunk _ reqs => ∀ r ∈ reqs, ∀ uname k a, r = Req.addPairing uname k a → C.parseUuid uname ≠ some v
  | _ => True

theorem procChunk_getKey_none (C : Crypto) (rep : Bool) (c : Nat) (s : Sys) (reqs : List Req) (v : Uuid)
    (h : getKey s.pairings v = none)
    (hr : ∀ r ∈ reqs, ∀ uname k a, r = Req.addPairing uname k a → C.parseUuid uname ≠ some v) :
    getKey (procChunk C rep c s reqs).pairings v = none := by
  induction reqs generalizing s with
  | nil => simpa [procChunk]
  | cons r rest ih =>
    simp only [procChunk]
    exact ih _ (procReq_getKey_none C rep s c r v h (hr r List.mem_cons_self))
      (fun r' hr' => hr r' (List.mem_cons_of_mem _ hr'))

theorem run_getKey_none (C : Crypto) (rep : Bool) (s : Sys) (ops : List Op) (v : Uuid)
    (h : getKey s.pairings v = none) (hops : ∀ op ∈ ops, NoReAdd C v op) :
    getKey (run C rep s ops).pairings v = none := by
  induction ops generalizing s with
  | nil => simpa [run]
  | cons op rest ih =>
    simp only [run]
    apply ih _ _ (fun o ho => hops o (List.mem_cons_of_mem _ ho))
    have hop := hops op List.mem_cons_self
    cases op with
    | connect c => simp only [step]; split <;> exact h
    | peerClose c => exact h
    | restart => exact h
    | ready c ok =>
      simp only [step]
      split
      · split <;> exact h
      · exact h
    | pair u k a =>
      simp only [step]
      rw [getKey_addPairing_ne _ _ _ _ _ hop]; exact h
    | chunk c reqs =>
      simp only [step]
      split
      · exact procChunk_getKey_none C rep c s reqs v h hop
      · exact h

end Hap.Sess
