/-
  Lemmas about the sessions model (HapModel/Sessions.lean): the safety invariant
  "every registered verified connection belongs to a currently paired controller",
  its preservation by every request / operation of the repaired system, and trace lemmas.
-/
import HapModel.Sessions
import Proofs.PairVerify
namespace Hap.Sess
open Hap Hap.PV

/-! ### pair-verify handler facts needed here -/

/-- After a pair-verify request the handler is verified only if it was before (same client) or
    the request was accepted for a currently paired identifier. -/
theorem handler_safe (C : Crypto) (ps : Pairings) (fresh : Nat) (c : PV.Conn) (body : Bytes) :
    (handlePairVerify C ps fresh c body).1.verified = true →
      (c.verified = true ∧ (handlePairVerify C ps fresh c body).1.client = c.client) ∨
      (∃ u k, (handlePairVerify C ps fresh c body).1.client = some u ∧ getKey ps u = some k) := by
  unfold handlePairVerify verifyOne verifyTwo
  repeat' split
  all_goals first
    | (simp_all; done)
    | (intro _; right; exact ⟨_, _, rfl, by assumption⟩)

theorem getKey_addPairing_isSome (ps : Pairings) (u v : Uuid) (k : Key) (a : Bool)
    (h : (getKey ps v).isSome = true) : (getKey (addPairing ps u k a) v).isSome = true := by
  by_cases e : u = v
  · subst e; simp [getKey_addPairing_self]
  · rw [getKey_addPairing_ne _ _ _ _ _ e]; exact h

/-! ### The safety invariant -/

/-- Every verified handler knows its controller, and if the connection is still registered
    that controller is currently paired. -/
def Safe (s : Sys) : Prop :=
  ∀ d, (s.conns d).pv.verified = true →
    ∃ u, (s.conns d).pv.client = some u ∧ (d ∈ s.live → (getKey s.pairings u).isSome = true)

theorem safe_init : Safe {} := by
  intro d h; simp at h

@[simp] theorem emit_pairings (s : Sys) (c : Nat) (r : RC) : (emit s c r).pairings = s.pairings := rfl
@[simp] theorem emit_conns (s : Sys) (c : Nat) (r : RC) : (emit s c r).conns = s.conns := rfl
@[simp] theorem emit_live (s : Sys) (c : Nat) (r : RC) : (emit s c r).live = s.live := rfl
@[simp] theorem emit_clock (s : Sys) (c : Nat) (r : RC) : (emit s c r).clock = s.clock := rfl
@[simp] theorem emit_trace (s : Sys) (c : Nat) (r : RC) :
    (emit s c r).trace = s.trace ++ [if c ∈ s.live then Event.resp c r else Event.dropped c r] := rfl

theorem safe_emit (s : Sys) (c : Nat) (r : RC) (h : Safe s) : Safe (emit s c r) := h

theorem safe_clock (s : Sys) (n : Nat) (h : Safe s) : Safe { s with clock := n } := h

/-- membership after the teardown -/
theorem mem_teardown_live (s : Sys) (d : Nat) :
    d ∈ (teardown s).live ↔ d ∈ s.live ∧ unpairedSession s.pairings (s.conns d) = false := by
  simp [teardown, List.mem_filter]

theorem teardown_conns (s : Sys) (d : Nat) :
    (teardown s).conns d =
      if d ∈ s.live ∧ unpairedSession s.pairings (s.conns d) = true
      then { pv := { (s.conns d).pv with verified := false } } else s.conns d := by
  simp [teardown]

@[simp] theorem teardown_pairings (s : Sys) : (teardown s).pairings = s.pairings := rfl

/-- The teardown re-establishes the invariant whatever happened to the pairing map, provided
    verified handlers know their controller. -/
theorem safe_teardown (s : Sys)
    (h : ∀ d, (s.conns d).pv.verified = true → ∃ u, (s.conns d).pv.client = some u) :
    Safe (teardown s) := by
  intro d hv
  rw [teardown_conns] at hv ⊢
  split at hv
  · simp at hv
  · next hnot =>
    obtain ⟨u, hu⟩ := h d hv
    rw [if_neg hnot]
    refine ⟨u, hu, ?_⟩
    intro hl
    rw [mem_teardown_live] at hl
    have := hl.2
    simp [unpairedSession, hu] at this
    simpa using this

theorem safe_weaken (s : Sys) (h : Safe s) :
    ∀ d, (s.conns d).pv.verified = true → ∃ u, (s.conns d).pv.client = some u := by
  intro d hv; obtain ⟨u, hu, _⟩ := h d hv; exact ⟨u, hu⟩

/-- One request preserves the invariant (repaired system), on any connection, registered or not. -/
theorem safe_procReq (C : Crypto) (s : Sys) (c : Nat) (req : Req) (h : Safe s) :
    Safe (procReq C true s c req) := by
  cases req with
  | pairVerify body =>
    intro d hv
    simp only [procReq] at hv ⊢
    by_cases hd : d = c
    · subst hd
      simp only [Sess.setConn, if_true] at hv ⊢
      rw [(installCipher_fields _ _).2.1] at hv
      rw [(installCipher_fields _ _).2.2]
      rcases handler_safe C s.pairings s.clock (s.conns d).pv body hv with ⟨h1, h2⟩ | ⟨u, k, h1, h2⟩
      · obtain ⟨u, hu, hp⟩ := h d h1
        exact ⟨u, by rw [h2, hu], by simpa using hp⟩
      · exact ⟨u, h1, fun _ => by simp [h2]⟩
    · simp only [Sess.setConn, hd, if_false] at hv ⊢
      obtain ⟨u, hu, hp⟩ := h d hv
      exact ⟨u, hu, by simpa using hp⟩
  | guarded kind => exact safe_emit _ _ _ (safe_clock _ _ h)
  | listPairings =>
    simp only [procReq]
    split
    · exact safe_emit _ _ _ (safe_clock _ _ h)
    · split <;> exact safe_emit _ _ _ (safe_clock _ _ h)
  | addPairing uname key admin =>
    simp only [procReq]
    split
    · exact safe_emit _ _ _ (safe_clock _ _ h)
    · split
      · exact safe_emit _ _ _ (safe_clock _ _ h)
      · split
        · exact safe_emit _ _ _ (safe_clock _ _ h)
        · apply safe_emit
          intro d hv
          obtain ⟨u, hu, hp⟩ := h d hv
          exact ⟨u, hu, fun hl => getKey_addPairing_isSome _ _ _ _ _ (hp hl)⟩
  | removePairing uname =>
    simp only [procReq]
    split
    · exact safe_emit _ _ _ (safe_clock _ _ h)
    · split
      · exact safe_emit _ _ _ (safe_clock _ _ h)
      · split
        · exact safe_emit _ _ _ (safe_clock _ _ h)
        · simp only [if_true]
          apply safe_teardown
          exact safe_weaken s h

theorem safe_procChunk (C : Crypto) (c : Nat) (s : Sys) (reqs : List Req) (h : Safe s) :
    Safe (procChunk C true c s reqs) := by
  induction reqs generalizing s with
  | nil => simpa [procChunk]
  | cons r rest ih => exact ih _ (safe_procReq C s c r h)

theorem safe_step (C : Crypto) (s : Sys) (op : Op) (h : Safe s) : Safe (step C true s op) := by
  cases op with
  | connect c =>
    simp only [step]
    split
    · exact h
    · intro d hv
      by_cases hd : d = c
      · subst hd; simp [Sess.setConn] at hv
      · simp only [Sess.setConn, hd, if_false] at hv ⊢
        obtain ⟨u, hu, hp⟩ := h d hv
        refine ⟨u, hu, fun hl => hp ?_⟩
        simp only [List.mem_append, List.mem_singleton] at hl
        rcases hl with hl | hl
        · exact hl
        · exact absurd hl hd
  | peerClose c =>
    intro d hv
    obtain ⟨u, hu, hp⟩ := h d hv
    refine ⟨u, hu, fun hl => hp ?_⟩
    simp only [step, List.mem_filter] at hl
    exact hl.1
  | chunk c reqs =>
    simp only [step]
    split
    · exact safe_procChunk C c s reqs h
    · exact h
  | pair u k a =>
    intro d hv
    obtain ⟨v, hv', hp⟩ := h d hv
    exact ⟨v, hv', fun hl => getKey_addPairing_isSome _ _ _ _ _ (hp hl)⟩

theorem safe_run (C : Crypto) (s : Sys) (ops : List Op) (h : Safe s) : Safe (run C true s ops) := by
  induction ops generalizing s with
  | nil => simpa [run]
  | cons op rest ih => exact ih _ (safe_step C s op h)

/-! ### What a request can write, and to whom -/

/-- the teardown appends closes of registered connections and only shrinks the registry -/
theorem teardown_after (s t : Sys) (c : Nat)
    (h : ∃ evs, t.trace = s.trace ++ evs ∧ (∀ e ∈ evs, e.conn = c ∨ e.conn ∈ s.live) ∧
      (∀ x, x ∈ t.live → x ∈ s.live)) :
    ∃ evs, (teardown t).trace = s.trace ++ evs ∧ (∀ e ∈ evs, e.conn = c ∨ e.conn ∈ s.live) ∧
      (∀ x, x ∈ (teardown t).live → x ∈ s.live) := by
  obtain ⟨e1, h1, h2, h3⟩ := h
  refine ⟨e1 ++ (t.live.filter fun d => unpairedSession t.pairings (t.conns d)).map Event.close, ?_, ?_, ?_⟩
  · simp [teardown, h1, List.append_assoc]
  · intro e he
    simp only [List.mem_append, List.mem_map, List.mem_filter] at he
    rcases he with he | ⟨x, ⟨hx, _⟩, rfl⟩
    · exact h2 e he
    · right; exact h3 x hx
  · intro x hx
    simp only [teardown, List.mem_filter] at hx
    exact h3 x hx.1

/-- Events appended by one request concern the requesting connection or are closes of
    registered connections; the registry only shrinks. -/
theorem procReq_events (C : Crypto) (rep : Bool) (s : Sys) (c : Nat) (req : Req) :
    ∃ evs, (procReq C rep s c req).trace = s.trace ++ evs ∧
      (∀ e ∈ evs, e.conn = c ∨ e.conn ∈ s.live) ∧
      (∀ x, x ∈ (procReq C rep s c req).live → x ∈ s.live) := by
  have one : ∀ (t : Sys) (r : RC), t.trace = s.trace → t.live = s.live →
      ∃ evs, (emit t c r).trace = s.trace ++ evs ∧ (∀ e ∈ evs, e.conn = c ∨ e.conn ∈ s.live) ∧
        (∀ x, x ∈ (emit t c r).live → x ∈ s.live) := by
    intro t r ht hl
    refine ⟨[if c ∈ t.live then Event.resp c r else Event.dropped c r], by simp [ht], ?_, by simp [hl]⟩
    intro e he
    simp only [List.mem_singleton] at he
    subst he
    split <;> simp [Event.conn]
  cases req with
  | pairVerify body =>
    simp only [procReq]
    exact one s _ rfl rfl
  | guarded kind => simp only [procReq]; exact one _ _ rfl rfl
  | listPairings =>
    simp only [procReq]
    split
    · exact one _ _ rfl rfl
    · split <;> exact one _ _ rfl rfl
  | addPairing uname key admin =>
    simp only [procReq]
    split
    · exact one _ _ rfl rfl
    · split
      · exact one _ _ rfl rfl
      · split <;> exact one _ _ rfl rfl
  | removePairing uname =>
    simp only [procReq]
    split
    · exact one _ _ rfl rfl
    · split
      · exact one _ _ rfl rfl
      · split
        · exact one _ _ rfl rfl
        · cases rep
          · simp only [Bool.false_eq_true, if_false]; exact one _ _ rfl rfl
          · simp only [if_true]
            exact teardown_after s _ c (one _ _ rfl rfl)

theorem procChunk_events (C : Crypto) (rep : Bool) (c : Nat) (s : Sys) (reqs : List Req) :
    ∃ evs, (procChunk C rep c s reqs).trace = s.trace ++ evs ∧
      (∀ e ∈ evs, e.conn = c ∨ e.conn ∈ s.live) ∧
      (∀ x, x ∈ (procChunk C rep c s reqs).live → x ∈ s.live) := by
  induction reqs generalizing s with
  | nil => exact ⟨[], by simp [procChunk], by simp, by simp [procChunk]⟩
  | cons r rest ih =>
    obtain ⟨e1, h1, h2, h3⟩ := procReq_events C rep s c r
    obtain ⟨e2, g1, g2, g3⟩ := ih (procReq C rep s c r)
    refine ⟨e1 ++ e2, ?_, ?_, ?_⟩
    · simp only [procChunk, g1, h1, List.append_assoc]
    · intro e he
      rcases List.mem_append.1 he with he | he
      · exact h2 e he
      · rcases g2 e he with h | h
        · exact Or.inl h
        · exact Or.inr (h3 _ h)
    · intro x hx; exact h3 x (g3 x hx)

theorem eventsOf_append (d : Nat) (a b : List Event) : eventsOf d (a ++ b) = eventsOf d a ++ eventsOf d b := by
  simp [eventsOf]

/-- A connection that is not registered sees no further event and stays unregistered until a
    new TCP connection with its id is made. -/
theorem step_dead (C : Crypto) (rep : Bool) (s : Sys) (op : Op) (d : Nat)
    (hd : d ∉ s.live) (hop : op ≠ .connect d) :
    d ∉ (step C rep s op).live ∧ eventsOf d (step C rep s op).trace = eventsOf d s.trace := by
  cases op with
  | connect c =>
    have hc : c ≠ d := fun e => hop (by rw [e])
    simp only [step]
    split
    · exact ⟨hd, rfl⟩
    · refine ⟨?_, rfl⟩
      simp only [List.mem_append, List.mem_singleton, not_or]
      exact ⟨hd, fun e => hc e.symm⟩
  | peerClose c =>
    refine ⟨?_, rfl⟩
    simp only [step, List.mem_filter, not_and]
    intro h; exact absurd h hd
  | pair u k a => exact ⟨hd, rfl⟩
  | chunk c reqs =>
    simp only [step]
    split
    · next hc =>
      obtain ⟨evs, h1, h2, h3⟩ := procChunk_events C rep c s reqs
      refine ⟨fun h => hd (h3 d h), ?_⟩
      rw [h1, eventsOf_append]
      have : eventsOf d evs = [] := by
        simp only [eventsOf, List.filter_eq_nil_iff, beq_iff_eq]
        intro e he heq
        rcases h2 e he with h | h
        · rw [heq] at h; subst h; exact hd hc
        · rw [heq] at h; exact hd h
      simp [this]
    · exact ⟨hd, rfl⟩

theorem run_dead (C : Crypto) (rep : Bool) (s : Sys) (ops : List Op) (d : Nat)
    (hd : d ∉ s.live) (hops : ∀ op ∈ ops, op ≠ .connect d) :
    d ∉ (run C rep s ops).live ∧ eventsOf d (run C rep s ops).trace = eventsOf d s.trace := by
  induction ops generalizing s with
  | nil => exact ⟨hd, rfl⟩
  | cons op rest ih =>
    have h1 := step_dead C rep s op d hd (hops op List.mem_cons_self)
    have h2 := ih (step C rep s op) h1.1 (fun o ho => hops o (List.mem_cons_of_mem _ ho))
    exact ⟨h2.1, by simp only [run]; rw [h2.2, h1.2]⟩

/-! ### pairing-map facts across requests -/

theorem procReq_getKey_none (C : Crypto) (rep : Bool) (s : Sys) (c : Nat) (req : Req) (v : Uuid)
    (h : getKey s.pairings v = none)
    (hr : ∀ uname k a, req = .addPairing uname k a → C.parseUuid uname ≠ some v) :
    getKey (procReq C rep s c req).pairings v = none := by
  cases req with
  | pairVerify body => simpa [procReq] using h
  | guarded kind => simpa [procReq] using h
  | listPairings =>
    simp only [procReq]
    split
    · simpa using h
    · split <;> simpa using h
  | addPairing uname key admin =>
    simp only [procReq]
    split
    · simpa using h
    · split
      · simpa using h
      · split
        · simpa using h
        · next u hu =>
          have : u ≠ v := by
            intro e; subst e; exact hr uname key admin rfl hu
          simp only [emit_pairings]
          rw [getKey_addPairing_ne _ _ _ _ _ this]; exact h
  | removePairing uname =>
    simp only [procReq]
    split
    · simpa using h
    · split
      · simpa using h
      · split
        · simpa using h
        · next u hu =>
          have key : getKey (if (getKey s.pairings u).isSome then removePairing s.pairings u else s.pairings) v = none := by
            split
            · exact getKey_removePairing_none _ _ _ h
            · exact h
          cases rep <;> simpa using key

/-- an operation that does not register `v` again -/
def NoReAdd (C : Crypto) (v : Uuid) : Op → Prop
  | .pair u _ _ => u ≠ v
  | .chunk _ reqs => ∀ r ∈ reqs, ∀ uname k a, r = Req.addPairing uname k a → C.parseUuid uname ≠ some v
  | _ => True

theorem procChunk_getKey_none (C : Crypto) (rep : Bool) (c : Nat) (s : Sys) (reqs : List Req) (v : Uuid)
    (h : getKey s.pairings v = none)
    (hr : ∀ r ∈ reqs, ∀ uname k a, r = Req.addPairing uname k a → C.parseUuid uname ≠ some v) :
    getKey (procChunk C rep c s reqs).pairings v = none := by
  induction reqs generalizing s with
  | nil => simpa [procChunk]
  | cons r rest ih =>
    simp only [procChunk]
    exact ih _ (procReq_getKey_none C rep s c r v h (hr r List.mem_cons_self))
      (fun r' hr' => hr r' (List.mem_cons_of_mem _ hr'))

theorem run_getKey_none (C : Crypto) (rep : Bool) (s : Sys) (ops : List Op) (v : Uuid)
    (h : getKey s.pairings v = none) (hops : ∀ op ∈ ops, NoReAdd C v op) :
    getKey (run C rep s ops).pairings v = none := by
  induction ops generalizing s with
  | nil => simpa [run]
  | cons op rest ih =>
    simp only [run]
    apply ih _ _ (fun o ho => hops o (List.mem_cons_of_mem _ ho))
    have hop := hops op List.mem_cons_self
    cases op with
    | connect c => simp only [step]; split <;> exact h
    | peerClose c => exact h
    | pair u k a =>
      simp only [step]
      rw [getKey_addPairing_ne _ _ _ _ _ hop]; exact h
    | chunk c reqs =>
      simp only [step]
      split
      · exact procChunk_getKey_none C rep c s reqs v h hop
      · exact h

end Hap.Sess
