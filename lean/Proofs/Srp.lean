/-
  SRP-6a algebra (ZMod N) and its connection to the executable model `HapModel/Srp.lean`.
  `srvS`, `cliS`, `srp_agree`, `srp_degenerate` are the kernel-checked round-0 spike, verbatim.
-/
import Mathlib.Data.ZMod.Basic
import Mathlib.Tactic.Ring
import HapModel.Srp
import Proofs.SrpBytes

namespace Srp
/-- hsrp.Server._derive_premaster_secret on Python ints -/
def srvS (N A v u b : Nat) : Nat := ((A * (v ^ u % N)) ^ b) % N
/-- RFC 5054 client: (B - k g^x)^(a + u x) mod N, Python ints (the difference may be negative) -/
def cliS (N g B k x a u : Nat) : Nat :=
  ((((B : Int) - (k : Int) * ((g ^ x % N : Nat) : Int)) % (N : Int)).toNat ^ (a + u * x)) % N

theorem srp_agree (N g k x a b u : Nat) (hN : 0 < N) :
    srvS N (g ^ a % N) (g ^ x % N) u b
      = cliS N g ((k * (g ^ x % N) + g ^ b % N) % N) k x a u := by
  unfold srvS cliS
  have hN0 : N ≠ 0 := Nat.pos_iff_ne_zero.mp hN
  have hN' : (N : Int) ≠ 0 := by exact_mod_cast hN0
  have : NeZero N := ⟨hN0⟩
  apply (ZMod.natCast_eq_natCast_iff' _ _ N).mp
  set D : Int := ((((k * (g ^ x % N) + g ^ b % N) % N : Nat) : Int) - (k : Int) * ((g ^ x % N : Nat) : Int)) % (N : Int) with hD
  have h0 : 0 ≤ D := Int.emod_nonneg _ hN'
  have hcast : ((D.toNat : Nat) : ZMod N) = (g : ZMod N) ^ b := by
    have e : ((D.toNat : Nat) : Int) = D := Int.toNat_of_nonneg h0
    have : (((D.toNat : Nat) : Int) : ZMod N) = (g : ZMod N) ^ b := by
      rw [e, hD]; simp
    exact_mod_cast this
  rw [Nat.cast_pow, Nat.cast_pow, hcast]
  simp
  ring

/-- A ≡ 0 (mod N) forces the premaster secret to 0 whatever the verifier (i.e. the password) is -/
theorem srp_degenerate (N A v u b : Nat) (hb : 0 < b) (hA : A % N = 0) : srvS N A v u b = 0 := by
  unfold srvS
  obtain ⟨c, rfl⟩ := Nat.dvd_of_mod_eq_zero hA
  obtain ⟨b', rfl⟩ : ∃ b', b = b' + 1 := ⟨b - 1, by omega⟩
  rw [pow_succ, Nat.mul_assoc, Nat.mul_comm, Nat.mul_assoc]
  simp [Nat.mul_mod_right]

end Srp

namespace Hap.Srp
open Hap

/-- square-and-multiply computes Python's `pow(b, e, n)` = `b ^ e % n` -/
theorem powMod_eq (b e n : Nat) : powMod b e n = b ^ e % n := by
  induction e using Nat.strongRecOn generalizing b with
  | _ e ih =>
    rw [powMod]
    by_cases he : e = 0
    · subst he; simp
    · simp only [he, dif_neg, not_false_eq_true]
      have hlt : e / 2 < e := Nat.div_lt_self (by omega) (by omega)
      rw [ih (e / 2) hlt]
      have hsq : (b * b % n) ^ (e / 2) % n = b ^ (2 * (e / 2)) % n := by
        rw [← Nat.pow_mod, pow_mul, pow_two]
      rw [hsq]
      by_cases hodd : e % 2 = 1
      · simp only [hodd, if_true]
        have he2 : e = 2 * (e / 2) + 1 := by omega
        conv => rhs; rw [he2, pow_succ, Nat.mul_comm]
        rw [Nat.mul_mod, Nat.mod_mod, ← Nat.mul_mod]
      · simp only [hodd, if_false]
        have he2 : e = 2 * (e / 2) := by omega
        conv => rhs; rw [he2]

theorem premaster_eq (G : Group) (A v u b : Nat) :
    premaster G A v u b = _root_.Srp.srvS G.N A v u b := by
  simp [premaster, _root_.Srp.srvS, powMod_eq]

theorem clientS_eq (G : Group) (B k x a u : Nat) :
    clientS G B k x a u = _root_.Srp.cliS G.N G.g B k x a u := by
  simp [clientS, _root_.Srp.cliS, powMod_eq]

/-- the premaster secrets of server and reference client agree (executable definitions) -/
theorem premaster_agree (G : Group) (k x a b u : Nat) (hN : 0 < G.N) :
    premaster G (powMod G.g a G.N) (powMod G.g x G.N) u b
      = clientS G ((k * powMod G.g x G.N + powMod G.g b G.N) % G.N) k x a u := by
  rw [premaster_eq, clientS_eq]
  simp only [powMod_eq]
  exact _root_.Srp.srp_agree G.N G.g k x a b u hN

/-- `A ≡ 0 (mod N)`: the server's premaster secret is 0 (executable definition) -/
theorem premaster_degenerate (G : Group) (A v u b : Nat) (hb : 0 < b) (hA : A % G.N = 0) :
    premaster G A v u b = 0 := by
  rw [premaster_eq]; exact _root_.Srp.srp_degenerate G.N A v u b hb hA

/-! ### the remaining functions of `hsrp.Server` under their own names -/

/-- the constructor's `v`, `B`, `Bb` are `_get_verifier()`, `_derive_B()`, `long_to_bytes(B)`; what the
    handler sends in M2 — `long_to_bytes(get_challenge()[1])` — is `Bb` -/
theorem mk_named (H : Bytes → Bytes) (G : Group) (I p s : Bytes) (b : Nat) :
    (mk H G I p s b).v = getVerifier H G s I p ∧
    (mk H G I p s b).B = deriveB G (multK H G) (getVerifier H G s I p) b ∧
    (mk H G I p s b).getChallenge = (s, (mk H G I p s b).B) ∧
    natToBytes (mk H G I p s b).getChallenge.2 = (mk H G I p s b).Bb :=
  ⟨rfl, rfl, rfl, rfl⟩

/-- after `set_A`: `HAMK` is `_get_HAMK()`, `get_session_key_bytes()` is the digest `H(Sb)` itself (64 bytes
    for SHA-512, leading zero bytes kept), and both `get_session_key()` and `_get_K()` are its integer value -/
theorem setA_named (H : Bytes → Bytes) (srv : Server) (Ab : Bytes) :
    (mkSess H srv Ab).HAMK = getHAMK H Ab (mkSess H srv Ab).M (mkSess H srv Ab).Kb ∧
    (setA H srv Ab).sessionKeyBytes = some (H (mkSess H srv Ab).Sb) ∧
    (setA H srv Ab).sessionKey = some (getK H (mkSess H srv Ab).Sb) ∧
    getK H (mkSess H srv Ab).Sb = bytesToNat (mkSess H srv Ab).Kb :=
  ⟨rfl, rfl, rfl, rfl⟩

/-- the integer session key loses exactly the leading zero bytes of the digest: this is why the handler
    must feed `get_session_key_bytes()` — not `long_to_bytes(get_session_key())` — to HKDF -/
theorem sessionKey_bytes (H : Bytes → Bytes) (srv : Server) (Ab : Bytes) :
    natToBytes (mkSess H srv Ab).K = (mkSess H srv Ab).Kb.dropWhile (· = 0) :=
  l2b_b2l _

/-- an honest `A = g^a mod N` is never ≡ 0 when `g` is coprime to `N > 1` -/
theorem honest_A_ne_zero (G : Group) (a : Nat) (hN : 1 < G.N) (hg : Nat.Coprime G.g G.N) :
    powMod G.g a G.N % G.N ≠ 0 := by
  rw [powMod_eq, Nat.mod_mod]
  intro h
  have hd : G.N ∣ G.g ^ a := Nat.dvd_of_mod_eq_zero h
  have hc : Nat.Coprime (G.g ^ a) G.N := Nat.Coprime.pow_left a hg
  have : G.N = 1 := Nat.Coprime.eq_one_of_dvd hc.symm hd
  omega

/-- `verify` after `set_A` with the expected proof and `A ≢ 0` succeeds and records success -/
theorem verify_setA_ok (H : Bytes → Bytes) (srv : Server) (Ab : Bytes)
    (hA : bytesToNat Ab % srv.G.N ≠ 0) :
    verify (setA H srv Ab) (mkSess H srv Ab).M
      = ({ setA H srv Ab with verified := true }, some (mkSess H srv Ab).HAMK) := by
  have hA' : (mkSess H srv Ab).A % srv.G.N ≠ 0 := hA
  simp [verify, setA, hA']

/-- `verify` with any other proof fails and leaves `verified = false` -/
theorem verify_setA_bad (H : Bytes → Bytes) (srv : Server) (Ab M : Bytes)
    (hM : M ≠ (mkSess H srv Ab).M) :
    verify (setA H srv Ab) M = (setA H srv Ab, none) := by
  have : ((mkSess H srv Ab).M == M) = false := by
    rw [beq_eq_false_iff_ne]; exact fun h => hM h.symm
  simp [verify, setA, this]

/-- the session the server computes from the reference client's `A` carries the client's
    `K`, `M` and `HAMK` — for every hash function, code, salt and pair of secrets -/
theorem sess_agree (H : Bytes → Bytes) (G : Group) (I p s : Bytes) (a b : Nat) (hN : 0 < G.N) :
    let srv := mk H G I p s b
    let cl := client H G I p s srv.Bb a
    let ss := mkSess H srv cl.Ab
    ss.Ab = cl.Ab ∧ ss.A = powMod G.g a G.N ∧ ss.Kb = cl.K ∧ ss.M = cl.M ∧ ss.HAMK = cl.HAMK := by
  intro srv cl ss
  have hB : bytesToNat srv.Bb = srv.B := b2l_l2b _
  have hA : bytesToNat cl.Ab = powMod G.g a G.N := b2l_l2b _
  have hS : ss.S = cl.S := by
    show premaster G (bytesToNat cl.Ab) (powMod G.g (privKey H s I p) G.N) _ b
        = clientS G (bytesToNat srv.Bb) (multK H G) (privKey H s I p) a _
    rw [hA, hB]
    exact premaster_agree G (multK H G) (privKey H s I p) a b _ hN
  have hK : ss.Kb = cl.K := by
    show H (natToBytes ss.S) = H (natToBytes cl.S)
    rw [hS]
  have hM : ss.M = cl.M := by
    show proofM H G I s cl.Ab srv.Bb ss.Kb = proofM H G I s cl.Ab srv.Bb cl.K
    rw [hK]
  refine ⟨rfl, hA, hK, hM, ?_⟩
  show H (cl.Ab ++ ss.M ++ ss.Kb) = H (cl.Ab ++ cl.M ++ cl.K)
  rw [hK, hM]

/-- Numeric/byte-level agreement of a whole SRP exchange: `verify(client M)` after
    `set_A(client A)` succeeds, returns the `HAMK` the client expects and records success. -/
theorem exchange_agree (H : Bytes → Bytes) (G : Group) (I p s : Bytes) (a b : Nat)
    (hN : 1 < G.N) (hg : Nat.Coprime G.g G.N) :
    let srv := mk H G I p s b
    let cl := client H G I p s srv.Bb a
    verify (setA H srv cl.Ab) cl.M
      = ({ setA H srv cl.Ab with verified := true }, some cl.HAMK) := by
  intro srv cl
  obtain ⟨_, hA, _, hM, hHAMK⟩ := sess_agree H G I p s a b (by omega)
  have hAne : bytesToNat cl.Ab % srv.G.N ≠ 0 := by
    have : bytesToNat cl.Ab = powMod G.g a G.N := hA
    rw [this]; exact honest_A_ne_zero G a hN hg
  have := verify_setA_ok H srv cl.Ab hAne
  rw [show (mkSess H srv cl.Ab).M = cl.M from hM, show (mkSess H srv cl.Ab).HAMK = cl.HAMK from hHAMK] at this
  exact this

/-- the shipped `set_A` keeps `Kb = long_to_bytes(int(H(Sb)))`: the digest with its leading zero
    bytes removed -/
theorem legacy_Kb (H : Bytes → Bytes) (srv : Server) (Ab : Bytes) :
    (mkSessLegacy H srv Ab).Kb = (H (mkSessLegacy H srv Ab).Sb).dropWhile (· = 0) :=
  l2b_b2l _

/-- … hence it equals the digest iff the digest does not begin with a zero byte -/
theorem legacy_Kb_eq_digest_iff (H : Bytes → Bytes) (srv : Server) (Ab : Bytes) :
    (mkSessLegacy H srv Ab).Kb = H (mkSessLegacy H srv Ab).Sb
      ↔ (H (mkSessLegacy H srv Ab).Sb).head? ≠ some 0 :=
  l2b_b2l_eq_iff _

/-- the shipped `set_A`/`verify` accept the public-data proof for every `A ≡ 0 (mod N)`:
    the closed-form forger (needs no knowledge of `p`, `v`, `b`) -/
theorem legacy_forge (H : Bytes → Bytes) (srv : Server) (Ab : Bytes) (hb : 0 < srv.b)
    (hA : bytesToNat Ab % srv.G.N = 0) :
    ∃ hamk, verifyLegacy (setALegacy H srv Ab)
      (proofM H srv.G srv.I srv.s Ab srv.Bb (natToBytes (hInt H []))) = some hamk := by
  have hS : premaster srv.G (bytesToNat Ab) srv.v (scramble H srv.G Ab srv.Bb) srv.b = 0 :=
    premaster_degenerate _ _ _ _ _ hb hA
  simp [verifyLegacy, setALegacy, mkSessLegacy, hS, natToBytes_zero]

/-- the repaired `verify` refuses every `A ≡ 0 (mod N)`, whatever proof is presented -/
theorem verify_rejects_degenerate (H : Bytes → Bytes) (srv : Server) (Ab M : Bytes)
    (hA : bytesToNat Ab % srv.G.N = 0) :
    (verify (setA H srv Ab) M).2 = none ∧ (verify (setA H srv Ab) M).1.verified = false := by
  simp [verify, setA, mkSess, hA]

end Hap.Srp
