/-
  Byte/integer conversion lemmas for `util.long_to_bytes` / `hsrp.bytes_to_long`
  (core Lean only).  Main results:
    * `b2l_l2b`  : bytesToNat (natToBytes n) = n
    * `l2b_b2l`  : natToBytes (bytesToNat d) = d.dropWhile (· = 0)
    * `l2b_b2l_eq_iff` : natToBytes (bytesToNat d) = d ↔ d does not start with a zero byte
-/
import HapModel.Bytes
namespace Hap
open Hap

theorem bytesToNat_append_singleton (d : Bytes) (x : UInt8) :
    bytesToNat (d ++ [x]) = bytesToNat d * 256 + x.toNat := by
  simp [bytesToNat, List.foldl_append]

theorem bytesToNat_nil : bytesToNat [] = 0 := rfl

/-- induction from the right end of a byte string (core has no `List.reverseRecOn`) -/
theorem bytes_rev_induction {P : Bytes → Prop} (h0 : P [])
    (h1 : ∀ (d : Bytes) (x : UInt8), P d → P (d ++ [x])) : ∀ d, P d := by
  have : ∀ r : Bytes, P r.reverse := by
    intro r
    induction r with
    | nil => simpa using h0
    | cons a t ih => simpa using h1 _ a ih
  intro d
  simpa using this d.reverse

/-- the fuel of `natToBytesRevAux` is irrelevant once it is at least the value -/
theorem revAux_fuel (n : Nat) : ∀ f1 f2 : Nat, n ≤ f1 → n ≤ f2 →
    natToBytesRevAux f1 n = natToBytesRevAux f2 n := by
  induction n using Nat.strongRecOn with
  | _ n ih =>
    intro f1 f2 h1 h2
    by_cases hn : n = 0
    · subst hn
      cases f1 <;> cases f2 <;> simp [natToBytesRevAux]
    · obtain ⟨g1, rfl⟩ : ∃ g, f1 = g + 1 := ⟨f1 - 1, by omega⟩
      obtain ⟨g2, rfl⟩ : ∃ g, f2 = g + 1 := ⟨f2 - 1, by omega⟩
      simp only [natToBytesRevAux, hn, if_false]
      have hlt : n / 256 < n := Nat.div_lt_self (by omega) (by omega)
      rw [ih (n / 256) hlt g1 g2 (by omega) (by omega)]

theorem natToBytes_zero : natToBytes 0 = [] := by
  simp [natToBytes, natToBytesRevAux]

/-- `long_to_bytes (256 m + x) = long_to_bytes m ++ [x]` unless the number is 0 -/
theorem natToBytes_step (m : Nat) (x : UInt8) (h : m * 256 + x.toNat ≠ 0) :
    natToBytes (m * 256 + x.toNat) = natToBytes m ++ [x] := by
  unfold natToBytes
  obtain ⟨f, hf⟩ : ∃ f, m * 256 + x.toNat = f + 1 := ⟨m * 256 + x.toNat - 1, by omega⟩
  have hx : x.toNat < 256 := x.toNat_lt
  have hdiv : (m * 256 + x.toNat) / 256 = m := by omega
  have hmod : (m * 256 + x.toNat) % 256 = x.toNat := by omega
  have hstep : natToBytesRevAux (f + 1) (m * 256 + x.toNat) = x :: natToBytesRevAux f m := by
    simp only [natToBytesRevAux, h, if_false, hdiv, hmod]
    simp
  rw [show natToBytesRevAux (m * 256 + x.toNat) (m * 256 + x.toNat)
        = natToBytesRevAux (f + 1) (m * 256 + x.toNat) by rw [hf]]
  rw [hstep, revAux_fuel m f m (by omega) (Nat.le_refl _)]
  simp

theorem natToBytes_eq_nil_iff (n : Nat) : natToBytes n = [] ↔ n = 0 := by
  constructor
  · intro h
    by_cases hn : n = 0
    · exact hn
    · exfalso
      obtain ⟨f, rfl⟩ : ∃ f, n = f + 1 := ⟨n - 1, by omega⟩
      simp [natToBytes, natToBytesRevAux] at h
  · rintro rfl; exact natToBytes_zero

/-- every number is `256 m + x` -/
theorem nat_split (n : Nat) : n = (n / 256) * 256 + (UInt8.ofNat (n % 256)).toNat := by
  have : (UInt8.ofNat (n % 256)).toNat = n % 256 := by
    simp [UInt8.toNat_ofNat']
  rw [this]; omega

/-- `bytes_to_long(long_to_bytes(n)) == n` -/
theorem b2l_l2b (n : Nat) : bytesToNat (natToBytes n) = n := by
  induction n using Nat.strongRecOn with
  | _ n ih =>
    by_cases hn : n = 0
    · subst hn; simp [natToBytes_zero, bytesToNat_nil]
    · have hs := nat_split n
      have hne : (n / 256) * 256 + (UInt8.ofNat (n % 256)).toNat ≠ 0 := by rw [← hs]; exact hn
      have hlt : n / 256 < n := Nat.div_lt_self (by omega) (by omega)
      conv => lhs; rw [hs]
      rw [natToBytes_step _ _ hne, bytesToNat_append_singleton, ih _ hlt]
      exact hs.symm

theorem bytesToNat_eq_zero_iff (d : Bytes) : bytesToNat d = 0 ↔ ∀ x ∈ d, x = 0 := by
  induction d using bytes_rev_induction with
  | h0 => simp [bytesToNat_nil]
  | h1 d x ih =>
    rw [bytesToNat_append_singleton]
    constructor
    · intro h
      have h1 : bytesToNat d = 0 := by omega
      have h2 : x.toNat = 0 := by omega
      intro y hy
      rcases List.mem_append.mp hy with hy | hy
      · exact ih.mp h1 y hy
      · simp at hy; subst hy
        exact UInt8.toNat_inj.mp (by simpa using h2)
    · intro h
      have h1 : bytesToNat d = 0 := ih.mpr (fun y hy => h y (List.mem_append.mpr (Or.inl hy)))
      have h2 : x = 0 := h x (by simp)
      subst h2; simp [h1]

theorem dropWhile_zero_eq_nil_iff (d : Bytes) :
    d.dropWhile (· = 0) = [] ↔ ∀ x ∈ d, x = 0 := by
  induction d with
  | nil => simp
  | cons a t ih =>
    by_cases ha : a = 0
    · subst ha; simp [ih]
    · simp [ha]

theorem dropWhile_zero_append_singleton (d : Bytes) (x : UInt8) :
    (d ++ [x]).dropWhile (· = 0)
      = if (∀ y ∈ d, y = 0) then (if x = 0 then [] else [x]) else d.dropWhile (· = 0) ++ [x] := by
  induction d with
  | nil => by_cases hx : x = 0 <;> simp [hx]
  | cons a t ih =>
    by_cases ha : a = 0
    · subst ha
      simp only [List.cons_append, List.dropWhile_cons, decide_true, if_true, ih]
      simp
    · simp [ha]

/-- `long_to_bytes(bytes_to_long(d))` strips exactly the leading zero bytes of `d` -/
theorem l2b_b2l (d : Bytes) : natToBytes (bytesToNat d) = d.dropWhile (· = 0) := by
  induction d using bytes_rev_induction with
  | h0 => simp [bytesToNat_nil, natToBytes_zero]
  | h1 d x ih =>
    rw [bytesToNat_append_singleton, dropWhile_zero_append_singleton]
    by_cases hz : ∀ y ∈ d, y = 0
    · have hd : bytesToNat d = 0 := (bytesToNat_eq_zero_iff d).mpr hz
      rw [if_pos hz, hd]
      by_cases hx : x = 0
      · subst hx; simp [natToBytes_zero]
      · have hx' : x.toNat ≠ 0 := fun h => hx (UInt8.toNat_inj.mp (by simpa using h))
        simp only [hx, if_false]
        rw [natToBytes_step 0 x (by omega), natToBytes_zero]; rfl
    · have hd : bytesToNat d ≠ 0 := fun h => hz ((bytesToNat_eq_zero_iff d).mp h)
      rw [if_neg hz]
      rw [natToBytes_step _ x (by
        have : 0 < bytesToNat d := Nat.pos_of_ne_zero hd
        omega), ih]

/-- the conversion is the identity exactly on byte strings without a leading zero byte -/
theorem l2b_b2l_eq_iff (d : Bytes) : natToBytes (bytesToNat d) = d ↔ d.head? ≠ some 0 := by
  rw [l2b_b2l]
  cases d with
  | nil => simp
  | cons a t =>
    by_cases ha : a = 0
    · subst ha
      simp only [List.dropWhile_cons, decide_true, if_true, List.head?_cons, ne_eq, not_true,
        iff_false]
      intro h
      have := congrArg List.length h
      have hle : (List.dropWhile (fun x => decide (x = 0)) t).length ≤ t.length :=
        (List.dropWhile_sublist _).length_le
      simp at this; omega
    · simp [ha]

/-! ### padding and minimal form (what `_padN`, `long_to_bytes`, `bytes_to_long` do to leading zero bytes) -/

theorem bytesToNat_foldl (acc : Nat) (t : Bytes) :
    t.foldl (fun a x => a * 256 + x.toNat) acc = acc * 256 ^ t.length + bytesToNat t := by
  induction t generalizing acc with
  | nil => simp [bytesToNat]
  | cons x t ih =>
    simp only [List.foldl_cons, List.length_cons, bytesToNat]
    rw [ih, ih (0 * 256 + x.toNat)]
    simp [Nat.pow_succ, Nat.add_mul, Nat.mul_assoc, Nat.add_assoc, Nat.mul_comm 256]

/-- big-endian: the first byte is the most significant one -/
theorem bytesToNat_cons (a : UInt8) (t : Bytes) :
    bytesToNat (a :: t) = a.toNat * 256 ^ t.length + bytesToNat t := by
  have := bytesToNat_foldl (0 * 256 + a.toNat) t
  simpa [bytesToNat] using this

/-- `bytes_to_long(d) < 256 ** len(d)` -/
theorem bytesToNat_lt (d : Bytes) : bytesToNat d < 256 ^ d.length := by
  induction d with
  | nil => simp [bytesToNat]
  | cons a t ih =>
    rw [bytesToNat_cons, List.length_cons, Nat.pow_succ]
    have ha : a.toNat < 256 := a.toNat_lt
    have h256 : 0 < 256 ^ t.length := Nat.pow_pos (by decide)
    calc a.toNat * 256 ^ t.length + bytesToNat t
        < a.toNat * 256 ^ t.length + 256 ^ t.length := by omega
      _ = (a.toNat + 1) * 256 ^ t.length := by rw [Nat.add_mul, Nat.one_mul]
      _ ≤ 256 * 256 ^ t.length := Nat.mul_le_mul_right _ (by omega)
      _ = 256 ^ t.length * 256 := Nat.mul_comm _ _

theorem bytesToNat_replicate_zero_append (k : Nat) (d : Bytes) :
    bytesToNat (List.replicate k 0 ++ d) = bytesToNat d := by
  induction k with
  | zero => simp
  | succ k ih => rw [List.replicate_succ, List.cons_append, bytesToNat_cons, ih]; simp

/-- `bytes_to_long(b.rjust(w, b"\x00")) == bytes_to_long(b)`: `_padN` never changes the value -/
theorem bytesToNat_rjust (w : Nat) (d : Bytes) : bytesToNat (rjust w d) = bytesToNat d :=
  bytesToNat_replicate_zero_append _ d

/-- `len(b.rjust(w, b"\x00")) == max(w, len(b))`: `_padN` never truncates -/
theorem rjust_length (w : Nat) (d : Bytes) : (rjust w d).length = max w d.length := by
  simp [rjust]; omega

/-- `long_to_bytes` is the MINIMAL form: no leading zero byte -/
theorem natToBytes_minimal (n : Nat) : (natToBytes n).head? ≠ some 0 := by
  have h := (l2b_b2l_eq_iff (natToBytes n)).mp (by rw [b2l_l2b])
  exact h

/-- a byte string without leading zero byte is at least `256 ** (len - 1)` -/
theorem bytesToNat_ge_of_minimal (a : UInt8) (t : Bytes) (ha : a ≠ 0) :
    256 ^ t.length ≤ bytesToNat (a :: t) := by
  rw [bytesToNat_cons]
  have : 1 ≤ a.toNat := by
    have : a.toNat ≠ 0 := fun h => ha (UInt8.toNat_inj.mp (by simpa using h))
    omega
  calc 256 ^ t.length = 1 * 256 ^ t.length := (Nat.one_mul _).symm
    _ ≤ a.toNat * 256 ^ t.length := Nat.mul_le_mul_right _ this
    _ ≤ _ := Nat.le_add_right _ _

/-- `n < 256 ** w → len(long_to_bytes(n)) ≤ w` (so `_padN` of a group element has exactly `N_len/8` bytes) -/
theorem natToBytes_length_le (n w : Nat) (h : n < 256 ^ w) : (natToBytes n).length ≤ w := by
  cases hd : natToBytes n with
  | nil => simp
  | cons a t =>
    have hmin := natToBytes_minimal n
    rw [hd] at hmin
    have ha : a ≠ 0 := by intro h0; subst h0; simp at hmin
    have hge := bytesToNat_ge_of_minimal a t ha
    rw [← hd, b2l_l2b] at hge
    have : 256 ^ t.length < 256 ^ w := Nat.lt_of_le_of_lt hge h
    have : t.length < w := (Nat.pow_lt_pow_iff_right (by decide)).mp this
    simp; omega

/-- padding a minimal form to a width it fits in and reading it back is lossless, and stripping the padding
    gives the minimal form back -/
theorem rjust_roundtrip (n w : Nat) :
    bytesToNat (rjust w (natToBytes n)) = n ∧ natToBytes (bytesToNat (rjust w (natToBytes n))) = natToBytes n := by
  rw [bytesToNat_rjust, b2l_l2b]; exact ⟨rfl, rfl⟩

/-- two minimal forms with the same padding are equal (`PAD` is injective on what `long_to_bytes` emits) -/
theorem rjust_natToBytes_inj (w m n : Nat) (h : rjust w (natToBytes m) = rjust w (natToBytes n)) : m = n := by
  have := congrArg bytesToNat h
  simpa [bytesToNat_rjust, b2l_l2b] using this

end Hap
